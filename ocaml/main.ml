(* Driver for the extracted model: one case per input line (space-separated
   decimal naturals of any size), one ASCII result line per case. *)
open Mwmodel_core

let rec pos_of_int n =
  if n = 1 then XH else if n land 1 = 0 then XO (pos_of_int (n lsr 1)) else XI (pos_of_int (n lsr 1))
let n_of_int n = if n = 0 then N0 else Npos (pos_of_int n)
let rec int_of_pos = function XH -> 1 | XO p -> 2 * int_of_pos p | XI p -> 2 * int_of_pos p + 1
let int_of_n = function N0 -> 0 | Npos p -> int_of_pos p

let ten = n_of_int 10
(* decimal string -> N; short numerals through OCaml int, long ones digit by digit *)
let n_of_string s =
  if String.length s <= 17 then n_of_int (int_of_string s)
  else begin
    let acc = ref N0 in
    String.iter (fun ch -> acc := N.add (N.mul !acc ten) (n_of_int (Char.code ch - 48))) s;
    !acc
  end

let () =
  let out = Buffer.create 65536 in
  (try
    while true do
      let line = input_line stdin in
      let case =
        if line = "" then []
        else List.map n_of_string (String.split_on_char ' ' line) in
      let res = (try run_case case with Stack_overflow -> List.map n_of_int [83;84;65;67;75]) in
      List.iter (fun c -> Buffer.add_char out (Char.chr (int_of_n c land 255))) res;
      Buffer.add_char out '\n';
      if Buffer.length out > 60000 then (print_string (Buffer.contents out); Buffer.clear out)
    done
  with End_of_file -> ());
  print_string (Buffer.contents out)
