#!/bin/sh
# Run once after a fresh restore, offline: builds the Coq development (full .vo),
# the extracted model and the Rust harness from files on disk only.
set -e
cd "$(dirname "$0")"
export CARGO_NET_OFFLINE=true
python3 - <<'PY'
import sys, os
sys.path.insert(0, os.path.join(os.getcwd(), "lib"))
import common as C
C.coq_make([])          # everything in _CoqProject, including Props/ and the extraction
C.build_model()
C.build_harness("debug")
print("setup ok")
PY
