(* The only file with Extraction commands.  ExtrOcamlBasic maps
   bool option list prod unit sumbool sumor to OCaml's; N/Z/positive/nat stay the
   extracted Coq inductives (no OCaml int anywhere). *)
From Coq Require Import Extraction ExtrOcamlBasic.
From MW Require Import Model.Wire.
Extraction Language OCaml.
Extraction "../ocaml/mwmodel_core.ml" run_case.
