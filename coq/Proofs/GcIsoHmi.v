(* GcIsoHmi.v — C03, part 7: [hmi], the conditional monotonicity judgement that replaces
   [hmono] once allocation is in play (Heap::grow only grows under the heap invariant), the
   bind rules that use it, and the guarded simulation judgement [simg]. *)
From Coq Require Import Lia List.
From MW Require Import Model.Base Model.Num Model.VmTypes Model.Heap Model.Gc Model.VmBase Model.Vm
  Proofs.GcProofs Proofs.SymtabProofs Proofs.GcIso Proofs.GcIsoPrim Proofs.GcIsoStep Proofs.GcIsoAlloc.
Open Scope N_scope.
Arguments N.add : simpl never.
Arguments N.sub : simpl never.
Arguments N.eqb : simpl never.
Arguments N.ltb : simpl never.
Arguments N.leb : simpl never.
Arguments N.mul : simpl never.

Definition hmi {A} (m : M A) : Prop :=
  forall s, heap_inv (hp s) ->
    match m s with
    | ROk _ s' => heap_inv (hp s') /\ hlen (hp s) <= hlen (hp s')
    | RErr _ _ s' => heap_inv (hp s') /\ hlen (hp s) <= hlen (hp s')
    | _ => True
    end.

Lemma hmi_bind {A B} (m : M A) (k : A -> M B) : hmi m -> (forall a, hmi (k a)) -> hmi (bindM m k).
Proof.
  intros Hm Hk s HI. unfold bindM. specialize (Hm s HI). destruct (m s) as [a s'|e msg s'| |]; try exact I.
  - destruct Hm as [HI' L]. specialize (Hk a s' HI'). destruct (k a s'); try exact I; (split; [apply Hk|]; destruct Hk; lia).
  - exact Hm.
Qed.
Lemma hmi_same {A} (m : M A) :
  (forall s, match m s with ROk _ s' => hp s' = hp s | RErr _ _ s' => hp s' = hp s | _ => True end) -> hmi m.
Proof. intros H s HI. specialize (H s). destruct (m s); try exact I; rewrite H; (split; [exact HI|lia]). Qed.

Ltac hmi_same :=
  apply hmi_same; intros s; repeat first [ reflexivity | exact I | hm_case ].
Lemma hmi_ret {A} (a : A) : hmi (ret a). Proof. hmi_same. Qed.
Lemma hmi_fail {A} e : hmi (@fail A e). Proof. hmi_same. Qed.
Lemma hmi_fail_msg {A} e m : hmi (@fail_msg A e m). Proof. hmi_same. Qed.
Lemma hmi_panic {A} k : hmi (@panic A k). Proof. hmi_same. Qed.
Lemma hmi_get_vm : hmi get_vm. Proof. hmi_same. Qed.
Lemma hmi_push v : hmi (push v). Proof. unfold push. hmi_same. Qed.
Lemma hmi_pop_raw : hmi pop_raw. Proof. unfold pop_raw. hmi_same. Qed.
Lemma hmi_stack_get i : hmi (stack_get i). Proof. unfold stack_get. hmi_same. Qed.
Lemma hmi_stack_put i v : hmi (stack_put i v). Proof. unfold stack_put. hmi_same. Qed.
Lemma hmi_stack_get_offset o : hmi (stack_get_offset o).
Proof. unfold stack_get_offset, stack_get. hmi_same. Qed.
Lemma hmi_stack_put_offset o v : hmi (stack_put_offset o v).
Proof. unfold stack_put_offset, stack_put. hmi_same. Qed.
Lemma hmi_set_acc v : hmi (set_acc v). Proof. hmi_same. Qed.
Lemma hmi_set_ip i : hmi (set_ip i). Proof. hmi_same. Qed.
Lemma hmi_set_ep i : hmi (set_ep i). Proof. hmi_same. Qed.
Lemma hmi_set_bp i : hmi (set_bp i). Proof. hmi_same. Qed.
Lemma hmi_set_sp i : hmi (set_sp i). Proof. hmi_same. Qed.
Lemma hmi_hget p : hmi (hget p). Proof. unfold hget, lift. hmi_same. Qed.
Lemma hmi_hderef v : hmi (hderef v). Proof. unfold hderef, lift. hmi_same. Qed.
Lemma hmi_as_ptr v : hmi (as_ptr v). Proof. unfold as_ptr. hmi_same. Qed.
Lemma hmi_as_argc v : hmi (as_argc v). Proof. unfold as_argc. hmi_same. Qed.
Lemma hmi_as_bp v : hmi (as_bp v). Proof. unfold as_bp. hmi_same. Qed.
Lemma hmi_as_ep v : hmi (as_ep v). Proof. unfold as_ep. hmi_same. Qed.
Lemma hmi_as_ip v : hmi (as_ip v). Proof. unfold as_ip. hmi_same. Qed.
Lemma hmi_as_lexenv v : hmi (as_lexenv v). Proof. unfold as_lexenv. hmi_same. Qed.
Lemma hmi_usub a b : hmi (usub a b). Proof. unfold usub. hmi_same. Qed.
Lemma hmi_get_lambda i : hmi (get_lambda i). Proof. unfold get_lambda. hmi_same. Qed.
Lemma hmi_as_lambda v : hmi (as_lambda v). Proof. unfold as_lambda, get_lambda. hmi_same. Qed.
Lemma hmi_cur_lambda : hmi cur_lambda. Proof. unfold cur_lambda, get_lambda. hmi_same. Qed.
Lemma hmi_env_slots i : hmi (env_slots i). Proof. unfold env_slots. hmi_same. Qed.
Lemma hmi_env_new l : hmi (env_new l). Proof. unfold env_new, new_env. hmi_same. Qed.
Lemma hmi_vec_get i : hmi (vec_get i). Proof. unfold vec_get. hmi_same. Qed.
Lemma hmi_vec_set i l : hmi (vec_set i l). Proof. unfold vec_set. hmi_same. Qed.
Lemma hmi_vec_new l : hmi (vec_new l). Proof. unfold vec_new, new_vec. hmi_same. Qed.
Lemma hmi_str_get i : hmi (str_get i). Proof. unfold str_get. hmi_same. Qed.
Lemma hmi_to_continuation : hmi to_continuation. Proof. unfold to_continuation, new_cont. hmi_same. Qed.
Lemma hmi_restore_continuation c : hmi (restore_continuation c).
Proof. unfold restore_continuation. hmi_same. Qed.
Lemma hmi_dec_ip : hmi dec_ip. Proof. unfold dec_ip. hmi_same. Qed.
Lemma hmi_hput v : hmi (hput v).
Proof.
  intros s HI. unfold hput. destruct (heap_put (hp s) v) as [r h'] eqn:E. cbn [hp with_heap].
  split; [eapply heap_inv_put; eassumption|].
  destruct (heap_put_res _ _ _ _ HI E) as [? ? ? ->|? ? ? ? -> ? ?|? ? F ? ?]; [lia|lia|apply (fr_len _ _ _ _ F)].
Qed.
Lemma hmi_hmaybe_put v : hmi (hmaybe_put v).
Proof.
  assert (X : forall s, heap_inv (hp s) -> heap_inv (hp s) /\ hlen (hp s) <= hlen (hp s)) by (intros; split; [assumption|lia]).
  destruct v; try apply hmi_hput; intros s HI; apply (X s HI).
Qed.

Create HintDb hmi.
#[export] Hint Resolve hmi_ret hmi_fail hmi_fail_msg hmi_panic hmi_get_vm hmi_push hmi_pop_raw hmi_stack_get
  hmi_stack_put hmi_stack_get_offset hmi_stack_put_offset hmi_set_acc hmi_set_ip hmi_set_ep hmi_set_bp
  hmi_set_sp hmi_hget hmi_hderef hmi_as_ptr hmi_as_argc hmi_as_bp hmi_as_ep hmi_as_ip hmi_as_lexenv hmi_usub
  hmi_get_lambda hmi_as_lambda hmi_cur_lambda hmi_env_slots hmi_env_new hmi_vec_get hmi_vec_set hmi_vec_new
  hmi_str_get hmi_to_continuation hmi_restore_continuation hmi_dec_ip hmi_hput hmi_hmaybe_put : hmi.
Ltac hmi :=
  repeat first [ solve [auto with hmi]
               | apply hmi_bind; [|intros ?]
               | match goal with |- hmi (match ?x with _ => _ end) => destruct x end
               | match goal with |- hmi (if ?x then _ else _) => destruct x end ].

(* ------------------------------------------------------------------ guarded simulation *)
(* [simg W G Q m1 m2]: as [sim], for left states that satisfy the guard [G] *)
Definition simg {A1 A2} (W : world) (G : vm -> Prop) (Q : world -> A1 -> A2 -> Prop) (m1 : M A1) (m2 : M A2) : Prop :=
  forall s1 s2, srel W s1 s2 -> G s1 -> outcome W Q (m1 s1) (m2 s2).
Definition gtrue (s : vm) : Prop := True.

Lemma simg_of_sim {A1 A2} W G (Q : world -> A1 -> A2 -> Prop) m1 m2 : sim W Q m1 m2 -> simg W G Q m1 m2.
Proof. intros H s1 s2 R _. exact (H s1 s2 R). Qed.
Lemma sim_of_simg {A1 A2} W (Q : world -> A1 -> A2 -> Prop) m1 m2 : simg W gtrue Q m1 m2 -> sim W Q m1 m2.
Proof. intros H s1 s2 R. exact (H s1 s2 R I). Qed.
Lemma simg_weaken {A1 A2} W (G G' : vm -> Prop) (Q : world -> A1 -> A2 -> Prop) m1 m2 :
  (forall s, G' s -> G s) -> simg W G Q m1 m2 -> simg W G' Q m1 m2.
Proof. intros HG H s1 s2 R g. apply H; [exact R|apply HG, g]. Qed.

(* strongest-postcondition bind: the continuation may use what is known of the state *)
Lemma simg_bind {A1 A2 B1 B2} W G P Q (m1 : M A1) (m2 : M A2) (k1 : A1 -> M B1) (k2 : A2 -> M B2) :
  simg W G P m1 m2 -> hmi m1 -> (forall a, hmi (k1 a)) ->
  (forall W' a1 a2, ext W W' -> P W' a1 a2 ->
     simg W' (fun sm => exists s0, G s0 /\ m1 s0 = ROk a1 sm) Q (k1 a1) (k2 a2)) ->
  simg W G Q (bindM m1 k1) (bindM m2 k2).
Proof.
  intros Hm Hi Hk Hs s1 s2 R g. unfold bindM, outcome. specialize (Hm s1 s2 R g). unfold outcome in Hm.
  pose proof (Hi s1 (sr_hi1 _ _ _ R)) as Mono1.
  destruct (m1 s1) as [a1 s1m|e msg s1m| |] eqn:E1; try exact I.
  - destruct Mono1 as [HIm _]. pose proof (Hk a1 s1m HIm) as Mono.
    destruct (k1 a1 s1m) as [b1 s1'|e msg s1'| |] eqn:E2; try exact I.
    + intros B. destruct Hm as (a2 & s2m & W' & E3 & X1 & R1 & P1); [unfold bounded in *; lia|].
      rewrite E3. assert (g' : exists s0, G s0 /\ m1 s0 = ROk a1 s1m) by (exists s1; auto).
      pose proof (Hs W' a1 a2 X1 P1 s1m s2m R1 g') as H2. unfold outcome in H2. rewrite E2 in H2.
      destruct (H2 B) as (b2 & s2' & W'' & E4 & X2 & R2 & Q2).
      exists b2, s2', W''. split; [exact E4|]. split; [eapply ext_trans; eassumption|]. split; assumption.
    + intros B. destruct Hm as (a2 & s2m & W' & E3 & X1 & R1 & P1); [unfold bounded in *; lia|].
      rewrite E3. assert (g' : exists s0, G s0 /\ m1 s0 = ROk a1 s1m) by (exists s1; auto).
      pose proof (Hs W' a1 a2 X1 P1 s1m s2m R1 g') as H2. unfold outcome in H2. rewrite E2 in H2.
      destruct (H2 B) as (s2' & W'' & E4 & X2 & R2).
      exists s2', W''. split; [exact E4|]. split; [eapply ext_trans; eassumption|assumption].
  - intros B. destruct (Hm B) as (s2' & W' & E3 & X1 & R1). rewrite E3. exists s2', W'. auto.
Qed.

Lemma sim_bind_i {A1 A2 B1 B2} W P Q (m1 : M A1) (m2 : M A2) (k1 : A1 -> M B1) (k2 : A2 -> M B2) :
  sim W P m1 m2 -> hmi m1 -> (forall a, hmi (k1 a)) ->
  (forall W' a1 a2, ext W W' -> P W' a1 a2 -> sim W' Q (k1 a1) (k2 a2)) ->
  sim W Q (bindM m1 k1) (bindM m2 k2).
Proof.
  intros Hm Hi Hk Hs. apply sim_of_simg. eapply simg_bind; [apply simg_of_sim, Hm|exact Hi|exact Hk|].
  intros W' a1 a2 E HP. apply simg_of_sim, Hs; assumption.
Qed.

(* ------------------------------------------------------------------ guarded readers *)
(* both sides leave the state unchanged; the world stays *)
Definition rsim {A1 A2} (W : world) (G : vm -> Prop) (Q : A1 -> A2 -> Prop) (m1 : M A1) (m2 : M A2) : Prop :=
  forall s1 s2, srel W s1 s2 -> G s1 ->
    match m1 s1 with
    | ROk a1 s1' => s1' = s1 /\ exists a2, m2 s2 = ROk a2 s2 /\ Q a1 a2
    | RErr e msg s1' => s1' = s1 /\ m2 s2 = RErr e msg s2
    | _ => True
    end.
Lemma rsim_bind {A1 A2 B1 B2} W G P Q (m1 : M A1) (m2 : M A2) (k1 : A1 -> M B1) (k2 : A2 -> M B2) :
  rsim W G P m1 m2 -> (forall a1 a2, P a1 a2 -> rsim W G Q (k1 a1) (k2 a2)) ->
  rsim W G Q (bindM m1 k1) (bindM m2 k2).
Proof.
  intros Hm Hk s1 s2 R g. unfold bindM. specialize (Hm s1 s2 R g).
  destruct (m1 s1) as [a1 s1'|e msg s1'| |]; try exact I.
  - destruct Hm as (-> & a2 & -> & HP). apply (Hk a1 a2 HP s1 s2 R g).
  - destruct Hm as (-> & ->). split; reflexivity.
Qed.
Lemma rsim_simg {A1 A2} W G (Q : A1 -> A2 -> Prop) m1 m2 :
  rsim W G Q m1 m2 -> simg W G (fun W' a b => Q a b) m1 m2.
Proof.
  intros H s1 s2 R g. specialize (H s1 s2 R g). unfold outcome. destruct (m1 s1); try exact I.
  - destruct H as (-> & a2 & -> & HQ). intros _. exists a2, s2, W. split; [reflexivity|]. split; [apply ext_refl|]. split; assumption.
  - destruct H as (-> & ->). intros _. exists s2, W. split; [reflexivity|]. split; [apply ext_refl|assumption].
Qed.
Lemma rsim_ret {A1 A2} W G (Q : A1 -> A2 -> Prop) a1 a2 : Q a1 a2 -> rsim W G Q (ret a1) (ret a2).
Proof. intros H s1 s2 R g. split; [reflexivity|]. exists a2. split; [reflexivity|exact H]. Qed.
Lemma rsim_fail {A1 A2} W G (Q : A1 -> A2 -> Prop) e : rsim W G Q (fail e) (fail e).
Proof. intros s1 s2 R g. split; reflexivity. Qed.
Lemma rsim_panic {A1 A2} W G (Q : A1 -> A2 -> Prop) k m2 : rsim W G Q (panic k) m2.
Proof. intros s1 s2 R g. exact I. Qed.
Lemma rsim_weaken {A1 A2} W (G G' : vm -> Prop) (Q : A1 -> A2 -> Prop) m1 m2 :
  (forall s, G' s -> G s) -> rsim W G Q m1 m2 -> rsim W G' Q m1 m2.
Proof. intros HG H s1 s2 R g. apply H; [exact R|apply HG, g]. Qed.
(* the state itself, with the guard known of it *)
Lemma rsim_get_vm W G : rsim W G (fun a1 a2 => snap W a1 a2 /\ G a1 /\ srel W a1 a2) get_vm get_vm.
Proof.
  intros s1 s2 R g. unfold get_vm. split; [reflexivity|]. exists s2. split; [reflexivity|].
  split; [apply srel_snap, R|]. split; assumption.
Qed.
Lemma rsim_hget W G a1 a2 : ar W a1 a2 -> rsim W G (vr W) (hget a1) (hget a2).
Proof.
  intros [-> [La | ->]]; intros s1 s2 R g; unfold hget, lift, heap_get.
  - destruct (sr_al1 _ _ _ R a1 La) as [L1 _]. destruct (sr_al2 _ _ _ R a1 La) as [L2 _].
    apply N.ltb_lt in L1, L2. rewrite L1, L2. split; [reflexivity|].
    eexists. split; [reflexivity|]. exact (sr_cell _ _ _ R a1 La).
  - pose proof (sr_b1 _ _ _ R) as B. apply N.ltb_ge in B. rewrite B. exact I.
Qed.
Lemma rsim_hderef W G v1 v2 : vr W v1 v2 -> rsim W G (vr W) (hderef v1) (hderef v2).
Proof.
  intros Hv. pose proof Hv as [-> L].
  destruct v1; try (intros s1 s2 R g; unfold hderef, lift, heap_deref; cbn [vmap];
                    split; [reflexivity|]; eexists; split; [reflexivity|exact Hv]).
  change (hderef (VPtr p)) with (hget p). change (hderef (vmap (wf W) (VPtr p))) with (hget (wf W p)).
  apply rsim_hget. split; [reflexivity|]. apply (vlive_addr _ _ _ L). now left.
Qed.
Lemma rsim_as_lexenv W G v1 v2 : vr W v1 v2 -> rsim W G (idr PEnv W) (as_lexenv v1) (as_lexenv v2).
Proof.
  intros [-> L]. destruct v1; cbn [vmap as_lexenv]; try apply rsim_fail.
  apply rsim_ret. split; [reflexivity|]. apply (vlive_id _ _ _ L). now left.
Qed.
Lemma rsim_env_slots W G e1 e2 : idr PEnv W e1 e2 -> rsim W G (lr W) (env_slots e1) (env_slots e2).
Proof.
  intros [-> Hi] s1 s2 R g. unfold env_slots.
  pose proof (sr_envs _ _ _ (sr_store _ _ _ R) e1 Hi) as H.
  destruct (tget (envs (st s1)) e1) as [l1|], (tget (envs (st s2)) e1) as [l2|]; cbn [orel] in H; try contradiction; [|exact I].
  split; [reflexivity|]. exists l2. split; [reflexivity|exact H].
Qed.
Lemma rsim_env_get W G e1 e2 i : idr PEnv W e1 e2 -> rsim W G (vr W) (env_get e1 i) (env_get e2 i).
Proof.
  intros He. unfold env_get. eapply rsim_bind; [apply rsim_env_slots, He|].
  intros l1 l2 Hl. pose proof (lr_get W l1 l2 i Hl) as H.
  destruct (list_get l1 i) as [v1|]; [|apply rsim_panic].
  destruct H as (v2 & -> & Hv). apply rsim_ret, Hv.
Qed.
Lemma rsim_as_argc W G v1 v2 : vr W v1 v2 -> rsim W G eq (as_argc v1) (as_argc v2).
Proof. intros [-> L]. destruct v1; cbn [vmap as_argc]; try apply rsim_fail. apply rsim_ret. reflexivity. Qed.
Lemma rsim_usub W G a b : rsim W G (fun x y => y = x /\ x + b = a) (usub a b) (usub a b).
Proof. unfold usub. destruct (N.ltb_spec a b); [apply rsim_panic|apply rsim_ret; split; [reflexivity|lia]]. Qed.
Lemma rsim_stack_get W (G : vm -> Prop) i : (forall s, G s -> i <= sp s) -> rsim W G (vr W) (stack_get i) (stack_get i).
Proof.
  intros Hi s1 s2 R g. unfold stack_get. rewrite (sr_scap _ _ _ R).
  destruct (i <? scap s1); (split; [reflexivity|]); [|reflexivity].
  exists (sget s2 i). split; [reflexivity|]. apply (sr_stack _ _ _ R). pose proof (sr_top _ _ _ R). specialize (Hi s1 g). lia.
Qed.
