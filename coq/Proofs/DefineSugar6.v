(* DefineSugar6.v — C01 (work package c01e): fragment 6 for the (define (f x1 ... xn) body ...)
   spelling.  By [DefineSugar.define_spelling] the sugared form compiles exactly as
   (define f (lambda (x1 ... xn) body ...)), one level of fuel lower; Vm::compile hands
   compile_expression the fuel S (S (size of the datum)) and the sugared datum is SMALLER than its
   translation, so the fragment-6 theorems (which ask for fuel above the size of the translated
   datum) are re-assembled here from the theorems about the lambda expression. *)
From Coq Require Import String Lia FMapPositive.
From MW Require Import Model.Base Model.F64 Model.Num Model.Datum Model.Lex Model.Parse Model.TransformDef Model.Transform
  Model.VmTypes Model.Heap Model.Gc Model.VmBase Model.Compile Model.Vm
  Proofs.VmProofs0 Proofs.GcProofs Proofs.SymtabProofs Proofs.QuoteHeapProofs
  Proofs.CompileProofs Proofs.RunProofs Proofs.CompileCorrect Proofs.TailProofs Proofs.FrameSteps
  Proofs.CellFuelProofs Proofs.CompileCorrect2 Proofs.FrameSteps3 Proofs.FrameSteps5 Proofs.StoreLocal5
  Proofs.FragmentCorollaries Proofs.Closures6 Proofs.CompileCorrect6 Proofs.CompileStatic6 Proofs.EvalFragment6
  Proofs.DefineSugar.
From MW Require Proofs.ScopeProofs.
From MW Require Model.Builtins.
Open Scope N_scope.

Arguments N.add : simpl never.
Arguments N.sub : simpl never.
Arguments N.mul : simpl never.
Arguments N.eqb : simpl never.
Arguments N.ltb : simpl never.
Arguments N.leb : simpl never.

(* the datum (define (x p1 ... pn) b1 ... bk) of the expression (define x (lambda (p1 ... pn) b1 ... bk)) *)
Definition sugar6 (x : text) (ps : list text) (bodies : list expr6) : cell :=
  sugar_cell x ps (map cell_of6 bodies).

Lemma desugar_sugar6 x ps fs bodies :
  desugar_define (sugar6 x ps bodies) = cell_of6 (WDefine x (WLam ps fs bodies)).
Proof. reflexivity. Qed.

Section Sugar6.
Variable ob : N -> M vcell.
Variable bsem : N -> list rval -> option rval.
Hypothesis Hb : forall b, builtin_ok ob bsem b.
Hypothesis He : forall b, builtin_envs ob bsem b.

(* compile-and-run correctness of the sugared form, for every fuel the lambda expression needs *)
Lemma sugar_compile6 sc lv sg rho x ps fs bodies r1 sg1 rho1 :
  wf6 (WDefine x (WLam ps fs bodies)) sc ->
  ref_eval6 bsem sc lv sg rho (WLam ps fs bodies) r1 sg1 rho1 ->
  forall f l tail s, (cell_size (cell_of6 (WLam ps fs bodies)) <= f)%nat -> hdr6 l sc s -> minv s ->
  exists l' s' code, compile_expression (S f) l tail (sugar6 x ps bodies) s = ROk l' s' /\
    fwd l' = fwd l ++ code /\ same_hdr l l' /\ minv s' /\ cext s s' /\ same_regs s s' /\
    envs (st s') = envs (st s) /\
    exec6 ob s' (len (fwd l)) code tail lv sg rho (R6Base (RDatum CVoid)) sg1 (upd6 rho1 x r1).
Proof.
  intros (Hx & Hpx & Wl) HR f l tail s Hf Hh MI.
  assert (Hbs : map cell_of6 bodies <> []).
  { destruct Wl as (Hne & _). destruct bodies; [congruence|discriminate]. }
  unfold sugar6. rewrite (define_spelling x ps _ Hbs Hx f l tail s), desugar_sugar, (compile_define_eq (S f) l tail x _ s Hx).
  change (lam_cells6 ps (map cell_of6 bodies)) with (cell_of6 (WLam ps fs bodies)).
  destruct (static6 _ sc Wl (S f) l false s ltac:(lia) Hh MI) as (l1 & s1 & c1 & E1 & F1 & S1 & MI1 & X1 & R1 & En1).
  pose proof (compile_correct6 ob bsem Hb He sc lv sg rho _ r1 sg1 rho1 HR (S f) l false s l1 s1 c1 Wl ltac:(lia) Hh MI E1 F1) as EX1.
  destruct (put_sym_m_ok x s1 MI1) as (a & s2 & E2 & MI2 & X2 & R2 & A & C & Eb & Eg).
  destruct (get_binding_ok a s2 MI2) as (k & s3 & E3 & MI3 & X3 & R3 & Eh & Es & B).
  assert (Hh2 : hdr6 (emit (emit_op l1 OMov) VAcc) sc s2).
  { eapply hdr6_same; [|eapply hdr6_ext; [|exact Hh]].
    - eapply same_hdr_trans; [exact S1|repeat split].
    - eapply cext_trans; eassumption. }
  eexists; exists s3, (c1 ++ [VOp OMov; VAcc; VGSlot k; VOp OMovImmediate; VVoid; VAcc]).
  unfold bindM at 1. rewrite E1. unfold bindM at 1. rewrite E2. unfold bindM at 1.
  rewrite (location_global6 _ sc s2 a x Hh2 (mi_heap _ MI2) A C Hpx). unfold bindM at 1. rewrite E3.
  split; [reflexivity|]. split; [rewrite fwd_store, F1, <- app_assoc; reflexivity|].
  split; [eapply same_hdr_trans; [exact S1|repeat split]|]. split; [exact MI3|].
  assert (X13 : cext s1 s3) by (eapply cext_trans; eassumption).
  split; [eapply cext_trans; eassumption|].
  split; [eapply same_regs_trans; [exact R1|]; eapply same_regs_trans; eassumption|].
  split; [rewrite Es, (put_sym_st6 _ _ _ _ E2); exact En1|].
  apply (exec6_store ob s3 _ c1 a k x).
  - apply (exec6_ext ob s3 s1); [exact X13|exact EX1].
  - rewrite Eh. exact A.
  - rewrite Eh. exact C.
  - exact B.
Qed.
End Sugar6.

(* ------------------------------------------------------------ Vm::eval *)
Section SugarEval6.
Variable ob : N -> M vcell.
Variable bsem : N -> list rval -> option rval.
Notation run_one := (Vm.run_one ob).
Notation steps := (RunProofs.steps ob).
Hypothesis Hb : forall b, builtin_ok ob bsem b.
Hypothesis He : forall b, builtin_envs ob bsem b.

(* Vm::eval of ANY datum c whose top-level compilation (with the fuel Vm::compile uses) succeeded
   with code that runs correctly: the proof of EvalFragment6.eval_fragment6 with its first step
   (static6 + compile_correct6 on cell_of6 e) turned into hypotheses *)
Lemma eval_of_exec6 (c : cell) mu sg rho r sg' rho' s l1 sA code :
  minv s -> genv_rel6 mu rho s -> store_rel mu sg s ->
  transform_expr TRANSFORM_FUEL s c = Ok c ->
  compile_expression (S (S (cell_size c))) top_lam true c s = ROk l1 sA ->
  fwd l1 = fwd top_lam ++ code -> same_hdr top_lam l1 -> minv sA -> cext s sA -> same_regs s sA ->
  envs (st sA) = envs (st s) ->
  exec6 ob sA (len (fwd top_lam)) code true [] sg rho r sg' rho' ->
  exists n m mu', (forall fuel, (n <= fuel)%nat -> eval ob fuel c s = halt_result m) /\
    prefix6 mu mu' /\ vrep6 mu' m (acc m) r /\ genv_rel6 mu' rho' m /\ store_rel mu' sg' m /\ minv m /\ cext s m /\
    sp m = sp s /\ bp m = bp s /\ ep m = ep s /\ out_log m = out_log s.
Proof.
  intros MI G SR Htr E1 F1 S1 MIA XA RA EnA EX.
  assert (Ht : top_hdr top_lam) by (split; reflexivity).
  destruct (put_lambda_spec (emit_op l1 ORet) sA MIA) as (a & sB & E2 & MIB & XB & RB & GbB & _ & AB & CB & LB & TB).
  destruct (put_lambda_spec (entry_lam (VPtr a)) sB MIB) as (a0 & sC & E3 & MIC & XC & RC & GbC & _ & AC & CC & LC & TC).
  set (m0 := with_ip sC (a0, 0)).
  assert (Hprep : prepare_eval c s = ROk tt m0).
  { unfold prepare_eval. unfold bindM at 1. rewrite compile_runnable_eq.
    unfold bindM at 1. unfold compile. rewrite Htr, E1. unfold bindM at 1. rewrite E2. unfold ret at 1.
    unfold bindM at 1. rewrite E3. reflexivity. }
  assert (XsC : cext s sC) by (eapply cext_trans; [exact XA|]; eapply cext_trans; eassumption).
  assert (RsC : same_regs s sC) by (eapply same_regs_trans; [exact RA|]; eapply same_regs_trans; eassumption).
  destruct RsC as (Rsp & Rbp & Rep & Rcap & Rstk & Rlog & more & Rg).
  assert (EnC : envs (st sC) = envs (st s)).
  { rewrite (put_lambda_envs6 _ _ _ _ E3), (put_lambda_envs6 _ _ _ _ E2). exact EnA. }
  assert (SRC : store_rel mu sg sC).
  { eapply store_rel_rext; [|exact SR]. split; [exact XsC|]. intros j _. rewrite EnC. reflexivity. }
  pose proof (genv_rel6_compile mu rho s sC XsC (conj Rsp (conj Rbp (conj Rep (conj Rcap (conj Rstk (conj Rlog (ex_intro _ more Rg))))))) EnC G) as GC.
  (* the two code blocks *)
  set (bc0 := [VOp OPushImmediate; VArgc 0; VOp OMovImmediate; VPtr a; VAcc; VOp OCallAcc; VOp OHalt]).
  set (bc1 := ([VOp OEnter] ++ code) ++ [VOp ORet]).
  assert (Hbc1 : l_bc (lambda_finish (emit_op l1 ORet)) = bc1).
  { change (l_bc (lambda_finish (emit_op l1 ORet))) with (fwd (emit_op l1 ORet)). rewrite fwd_emit_op, F1. reflexivity. }
  assert (HcB : code_in sB a bc1).
  { eexists; eexists. split; [exact AB|]. split; [exact CB|]. split; [exact LB|]. split; [exact TB|exact Hbc1]. }
  assert (Hc1C : code_in sC a bc1) by (eapply code_in_ext; eassumption).
  assert (Hc0C : code_in sC a0 bc0).
  { eexists; eexists. split; [exact AC|]. split; [exact CC|]. split; [exact LC|]. split; [exact TC|reflexivity]. }
  assert (HgetA : heap_get (hp sC) a = Ok (VLambda (next_id (st sA)))).
  { destruct (ce_heap _ _ XC a AB) as [A' C']. rewrite (heap_get_alloc _ _ A'), C', CB. reflexivity. }
  assert (HlamA : tget (lams (st sC)) (next_id (st sA)) = Some (lambda_finish (emit_op l1 ORet))).
  { rewrite (ce_lams _ _ XC) by exact LB. exact TB. }
  assert (HargsA : l_args (lambda_finish (emit_op l1 ORet)) = []).
  { change (l_args (lambda_finish (emit_op l1 ORet))) with (l_args l1). destruct S1 as (_ & _ & _ & -> & _). reflexivity. }
  (* segments *)
  assert (Sg0 : forall pre x post, bc0 = pre ++ x ++ post -> seg bc0 (len pre) x) by (intros pre x post Hx; exists pre, post; auto).
  assert (Sg1 : forall pre x post, bc1 = pre ++ x ++ post -> seg bc1 (len pre) x) by (intros pre x post Hx; exists pre, post; auto).
  pose proof (mi_sp _ MIC) as HcapC.
  (* PUSH Argc 0 *)
  pose proof (step_pushimm ob m0 a0 0 bc0 (VArgc 0) (code_in_ip _ _ _ _ Hc0C) eq_refl
                (Sg0 [] [VOp OPushImmediate; VArgc 0] _ eq_refl) ltac:(discriminate)) as St1.
  set (m1 := pushed (with_ip m0 (a0, 0 + 2)) (VArgc 0)) in *.
  assert (Hc0_1 : code_in m1 a0 bc0) by (eapply code_in_regs; [| |exact Hc0C]; reflexivity).
  (* MOV lambda %acc *)
  pose proof (step_movimm ob m1 a0 (0 + 2) bc0 (VPtr a) Hc0_1 eq_refl
                (Sg0 [VOp OPushImmediate; VArgc 0] [VOp OMovImmediate; VPtr a; VAcc] _ eq_refl) ltac:(discriminate)) as St2.
  set (m2 := with_acc (with_ip m1 (a0, 0 + 2 + 3)) (VPtr a)) in *.
  assert (Hc0_2 : code_in m2 a0 bc0) by (eapply code_in_regs; [| |exact Hc0C]; reflexivity).
  (* CALL *)
  pose proof (step_call_lambda ob m2 a0 (0 + 2 + 3) bc0 a _ Hc0_2 eq_refl
                (Sg0 [VOp OPushImmediate; VArgc 0; VOp OMovImmediate; VPtr a; VAcc] [VOp OCallAcc] _ eq_refl)
                eq_refl HgetA) as St3.
  set (m3 := with_ip (pushed (pushed (with_ip m2 (a0, 0 + 2 + 3 + 1)) (VEp (ep m2))) (VIp a0 (0 + 2 + 3 + 1))) (a, 0)) in *.
  assert (Hc1_3 : code_in m3 a bc1) by (eapply code_in_regs; [| |exact Hc1C]; reflexivity).
  assert (Hsp3 : sp m3 = sp s + 3) by (cbn [sp m3 m2 m1 m0 pushed with_scap with_stack with_ip with_acc]; rewrite Rsp; lia).
  assert (Hcap3 : sp m3 < scap m3).
  { unfold m3. change (sp (with_ip ?x _)) with (sp x). change (scap (with_ip ?x _)) with (scap x).
    apply pushed_sp_lt. apply pushed_sp_lt. unfold m2, m1. cbn [sp scap with_ip with_acc].
    apply pushed_sp_lt. exact HcapC. }
  assert (Hs3_1 : sget m3 (sp s + 1) = VArgc 0).
  { unfold m3. change (sget (with_ip ?x _) ?j) with (sget x j).
    rewrite sget_pushed_other by (cbn [sp m2 m1 m0 pushed with_scap with_stack with_ip with_acc]; rewrite Rsp; lia).
    rewrite sget_pushed_other by (cbn [sp m2 m1 m0 pushed with_scap with_stack with_ip with_acc]; rewrite Rsp; lia).
    change (sget (with_ip m2 _) ?j) with (sget m1 j). unfold m1.
    replace (sp s + 1) with (sp (with_ip m0 (a0, 0 + 2)) + 1) by (cbn [sp m0 with_ip]; rewrite Rsp; reflexivity).
    apply sget_pushed_top. }
  assert (Hs3_2 : sget m3 (sp s + 2) = VEp (ep s)).
  { unfold m3. change (sget (with_ip ?x _) ?j) with (sget x j).
    rewrite sget_pushed_other by (cbn [sp m2 m1 m0 pushed with_scap with_stack with_ip with_acc]; rewrite Rsp; lia).
    replace (sp s + 2) with (sp (with_ip m2 (a0, 0 + 2 + 3 + 1)) + 1)
      by (cbn [sp m2 m1 m0 pushed with_scap with_stack with_ip with_acc]; rewrite Rsp; lia).
    rewrite sget_pushed_top. cbn [ep m2 m1 m0 pushed with_scap with_stack with_ip with_acc]. rewrite Rep. reflexivity. }
  assert (Hs3_3 : sget m3 (sp s + 3) = VIp a0 (0 + 2 + 3 + 1)).
  { unfold m3. change (sget (with_ip ?x _) ?j) with (sget x j).
    replace (sp s + 3) with (sp (pushed (with_ip m2 (a0, 0 + 2 + 3 + 1)) (VEp (ep m2))) + 1)
      by (cbn [sp m2 m1 m0 pushed with_scap with_stack with_ip with_acc]; rewrite Rsp; lia).
    apply sget_pushed_top. }
  (* ENTER *)
  pose proof (step_enter_top ob m3 a bc1 _ _ Hc1_3 eq_refl eq_refl eq_refl HgetA HlamA HargsA
                ltac:(lia) Hcap3 ltac:(rewrite Hsp3; replace (sp s + 3 - 2) with (sp s + 1) by lia; exact Hs3_1)) as St4.
  set (m4 := with_bp (pushed (with_ip m3 (a, 1)) (VBp (bp m3))) (sp m3 + 1 - 4)) in *.
  assert (Hsp4 : sp m4 = sp s + 4) by (cbn [sp m4 pushed with_bp with_scap with_stack with_ip]; rewrite Hsp3; lia).
  assert (Hbp4 : bp m4 = sp s) by (cbn [bp m4 with_bp]; rewrite Hsp3; lia).
  assert (Hkeep4 : forall j, j <= sp s + 3 -> sget m4 j = sget m3 j).
  { intros j Hj. unfold m4. change (sget (with_bp ?x _) ?k) with (sget x k).
    rewrite sget_pushed_other by (cbn [sp with_ip]; rewrite Hsp3; lia). reflexivity. }
  assert (Hs4_4 : sget m4 (sp s + 4) = VBp (bp s)).
  { unfold m4. change (sget (with_bp ?x _) ?k) with (sget x k).
    replace (sp s + 4) with (sp (with_ip m3 (a, 1)) + 1) by (cbn [sp with_ip]; rewrite Hsp3; lia).
    rewrite sget_pushed_top. cbn [bp m3 m2 m1 m0 pushed with_scap with_stack with_ip with_acc]. rewrite Rbp. reflexivity. }
  assert (RC4 : rext sC m4) by (apply rext_same; try reflexivity; lia).
  pose proof (rx_cext _ _ RC4) as XC4.
  assert (MI4 : minv m4).
  { destruct MIC as [HI GI SP]. constructor; [exact HI|exact GI|].
    unfold m4. change (sp (with_bp ?x _)) with (sp x). change (scap (with_bp ?x _)) with (scap x).
    apply pushed_sp_lt. exact Hcap3. }
  assert (Hc1_4 : code_in m4 a bc1) by (eapply code_in_regs; [| |exact Hc1C]; reflexivity).
  assert (G4 : genv_rel6 mu rho m4) by (eapply genv_rel6_ext; [apply rext_wext; exact RC4|apply prefix6_refl|reflexivity|exact GC]).
  assert (SR4 : store_rel mu sg m4) by (eapply store_rel_rext; eassumption).
  (* the code of e: it ends at RET, or a tail call in it returns from the frame *)
  assert (Hfr4 : frame_at m4 0 (ep s) (a0, 0 + 2 + 3 + 1) (bp s)).
  { unfold frame_at. rewrite Hbp4. rewrite !Hkeep4 by lia. cbn [fst snd]. repeat split; auto. lia. }
  assert (Ht4 : tframe m4) by (exists 0, (ep s), (a0, 0 + 2 + 3 + 1), (bp s); split; [exact Hfr4|lia]).
  assert (Hret : exists k m6 mu6, steps k m4 = Some m6 /\ prefix6 mu mu6 /\ cext m4 m6 /\ minv m6 /\ vrep6 mu6 m6 (acc m6) r /\
            genv_rel6 mu6 rho' m6 /\ store_rel mu6 sg' m6 /\ sp m6 = sp s /\ ep m6 = ep s /\ ip m6 = (a0, 0 + 2 + 3 + 1) /\ bp m6 = bp s /\
            out_log m6 = out_log m4).
  { destruct (EX m4 mu a bc1 (cext_trans _ _ _ XB (cext_trans _ _ _ XC XC4)) MI4 Hc1_4
              (Sg1 [VOp OEnter] code [VOp ORet] ltac:(unfold bc1; rewrite <- app_assoc; reflexivity)) eq_refl G4
              (lrel6_nil mu m4) SR4 (fun _ => Ht4))
      as [(n & m5 & mu5 & St5 & Pf5 & Fr5' & MI5 & Hip5 & V5 & G5 & SR5)|
          [_ (n & m6 & mu6 & k' & e' & i' & b' & St6 & Pf6 & Hfr' & X46 & MI6 & V6 & G6 & SR6 & Q1 & Q2 & Q3 & Q4 & Q5 & _)]].
    - pose proof (f6_frame _ _ Fr5') as Fr5.
      change (len (fwd top_lam)) with 1 in Hip5.
      pose proof (code_in_ext _ _ _ _ Hc1_4 (fr_ext _ _ Fr5)) as Hc1_5.
      assert (Hbp5 : bp m5 = sp s) by (rewrite (fr_bp _ _ Fr5); exact Hbp4).
      assert (Hsp5 : sp m5 = sp s + 4) by (rewrite (fr_sp _ _ Fr5); exact Hsp4).
      assert (Hk5 : forall j, j <= sp s + 4 -> sget m5 j = sget m4 j) by (intros j Hj; apply (fr_stack _ _ Fr5); lia).
      assert (SgR : seg bc1 (1 + len code) [VOp ORet]).
      { replace (1 + len code) with (len ([VOp OEnter] ++ code)) by (lens; lia).
        apply (Sg1 _ _ []). unfold bc1. rewrite app_nil_r. reflexivity. }
      pose proof (step_ret ob m5 a (1 + len code) bc1 (ep s) a0 (0 + 2 + 3 + 1) (bp s) Hc1_5 Hip5 SgR) as St6.
      assert (Hcap5 : bp m5 + 4 < scap m5) by (rewrite Hbp5, <- Hsp5; apply MI5).
      specialize (St6 Hcap5).
      rewrite Hbp5 in St6.
      specialize (St6 ltac:(rewrite Hk5, Hkeep4 by lia; exact Hs3_1) ltac:(rewrite Hk5, Hkeep4 by lia; exact Hs3_2)
                      ltac:(rewrite Hk5, Hkeep4 by lia; exact Hs3_3) ltac:(rewrite Hk5 by lia; exact Hs4_4)).
      set (m6 := with_bp (with_ip (with_ep (with_sp (with_ip m5 (a, 1 + len code + 1)) (sp s - 0)) (ep s)) (a0, 0 + 2 + 3 + 1)) (bp s)) in *.
      assert (R56 : rext m5 m6) by (apply rext_same; try reflexivity; lia).
      pose proof (rx_cext _ _ R56) as X56.
      exists (n + 1)%nat, m6, mu5. split; [eapply steps_trans; [exact St5|apply steps_one; exact St6]|].
      split; [exact Pf5|].
      split; [eapply cext_trans; [apply Fr5|exact X56]|].
      split.
      { destruct MI5 as [HI GI SP]. constructor; [exact HI|exact GI|].
        cbn [sp scap m6 with_bp with_ip with_ep with_sp with_stack]. lia. }
      split; [eapply vrep6_ext; [apply rext_wext; exact R56|apply prefix6_refl|exact V5]|].
      split; [eapply genv_rel6_ext; [apply rext_wext; exact R56|apply prefix6_refl|reflexivity|exact G5]|].
      split; [eapply store_rel_rext; eassumption|].
      split; [cbn [sp m6 with_bp with_ip with_ep with_sp with_stack]; lia|].
      split; [reflexivity|]. split; [reflexivity|]. split; [reflexivity|].
      cbn [out_log m6 with_bp with_ip with_ep with_sp with_stack]. apply Fr5.
    - destruct Hfr4 as (W1 & W2 & W3 & W4 & _). destruct Hfr' as (W1' & W2' & W3' & W4' & _).
      rewrite W1 in W1'. rewrite W2 in W2'. rewrite W3 in W3'. rewrite W4 in W4'.
      injection W1' as <-. injection W2' as <-. injection W4' as <-. cbn [fst snd] in W3'.
      assert (i' = (a0, 0 + 2 + 3 + 1)) as -> by (destruct i'; cbn [fst snd] in W3'; congruence).
      exists n, m6, mu6. split; [exact St6|]. split; [exact Pf6|]. split; [apply X46|]. split; [exact MI6|]. split; [exact V6|].
      split; [exact G6|]. split; [exact SR6|]. split; [rewrite Q1, Hbp4; lia|]. split; [exact Q2|]. split; [exact Q3|].
      split; [exact Q4|exact Q5]. }
  destruct Hret as (n & m6 & mu6 & St6 & Pf6 & X46 & MI6 & V6 & G6 & SR6 & Hsp6 & Hep6 & Hip6 & Hbp6 & Hlog6).
  (* HALT *)
  assert (Hc0_6 : code_in m6 a0 bc0).
  { eapply code_in_ext; [|exact X46]. eapply code_in_ext; [exact Hc0C|exact XC4]. }
  pose proof (step_halt ob m6 a0 (0 + 2 + 3 + 1) bc0 Hc0_6 Hip6
                (Sg0 [VOp OPushImmediate; VArgc 0; VOp OMovImmediate; VPtr a; VAcc; VOp OCallAcc] [VOp OHalt] [] eq_refl)) as St7.
  set (m7 := with_ip m6 (a0, 0 + 2 + 3 + 1 + 1)) in *.
  exists (1 + 1 + 1 + 1 + n + 1)%nat, m7, mu6. split.
  { intros fuel Hfuel. unfold eval. rewrite Hprep. unfold run_count.
    replace fuel with ((1 + 1 + 1 + 1 + n) + S (fuel - (1 + 1 + 1 + 1 + n + 1)))%nat by lia.
    rewrite (run_loop_steps ob (1 + 1 + 1 + 1 + n) m0 m6).
    - rewrite run_loop_S, St7. reflexivity.
    - eapply steps_trans; [|exact St6].
      eapply steps_trans; [|apply steps_one; exact St4].
      eapply steps_trans; [|apply steps_one; exact St3].
      eapply steps_trans; [apply steps_one; exact St1|apply steps_one; exact St2]. }
  assert (R67 : rext m6 m7) by (apply rext_same; try reflexivity; lia).
  pose proof (rx_cext _ _ R67) as X67.
  split; [exact Pf6|].
  split; [eapply vrep6_ext; [apply rext_wext; exact R67|apply prefix6_refl|exact V6]|].
  split; [eapply genv_rel6_ext; [apply rext_wext; exact R67|apply prefix6_refl|reflexivity|exact G6]|].
  split; [eapply store_rel_rext; eassumption|].
  split.
  { destruct MI6 as [HI GI SP]. constructor; [exact HI|exact GI|exact SP]. }
  split; [eapply cext_trans; [exact XsC|]; eapply cext_trans; [exact XC4|]; eapply cext_trans; [exact X46|exact X67]|].
  split; [exact Hsp6|]. split; [exact Hbp6|]. split; [exact Hep6|].
  change (out_log m7) with (out_log m6). rewrite Hlog6.
  cbn [out_log m4 m3 m2 m1 m0 pushed with_bp with_scap with_stack with_ip with_acc]. exact Rlog.
Qed.

Lemma sugar6_size x ps fs bodies :
  (cell_size (cell_of6 (WLam ps fs bodies)) <= S (cell_size (sugar6 x ps bodies)))%nat.
Proof. unfold sugar6, sugar_cell. cbn [cell_of6]. unfold lam_cells6, DEFINE_, LAMBDA_. cbn [cell_size]. lia. Qed.

(* Vm::eval on the top-level form (define (x p1 ... pn) b1 ... bk): the statement of
   eval_fragment6 for the expression (define x (lambda (p1 ... pn) b1 ... bk)), with the SUGARED
   datum handed to Vm::eval *)
Theorem eval_fragment6_sugar x ps fs bodies mu sg rho r sg' rho' s :
  wf6 (WDefine x (WLam ps fs bodies)) [] ->
  ref_eval6 bsem [] [] sg rho (WDefine x (WLam ps fs bodies)) r sg' rho' ->
  minv s -> genv_rel6 mu rho s -> store_rel mu sg s ->
  transform_expr TRANSFORM_FUEL s (sugar6 x ps bodies) = Ok (sugar6 x ps bodies) ->
  exists n m mu', (forall fuel, (n <= fuel)%nat -> eval ob fuel (sugar6 x ps bodies) s = halt_result m) /\
    prefix6 mu mu' /\ vrep6 mu' m (acc m) r /\ genv_rel6 mu' rho' m /\ store_rel mu' sg' m /\ minv m /\ cext s m /\
    sp m = sp s /\ bp m = bp s /\ ep m = ep s /\ out_log m = out_log s.
Proof.
  intros Hwf HR MI G SR Htr. inversion HR; subst.
  assert (Ht : top_hdr top_lam) by (split; reflexivity).
  destruct (sugar_compile6 ob bsem Hb He [] [] sg rho x ps fs bodies _ _ _ Hwf ltac:(eassumption)
              (S (cell_size (sugar6 x ps bodies))) top_lam true s (sugar6_size x ps fs bodies)
              (top_hdr_hdr6 top_lam s Ht) MI)
    as (l1 & sA & code & E1 & F1 & S1 & MIA & XA & RA & EnA & EX).
  exact (eval_of_exec6 _ mu sg rho _ _ _ s l1 sA code MI G SR Htr E1 F1 S1 MIA XA RA EnA EX).
Qed.
End SugarEval6.
