(* DefineSugar6.v — C01 (work package c01e): fragment 6 for the (define (f x1 ... xn) body ...)
   spelling.  By [DefineSugar.define_spelling] the sugared form compiles exactly as
   (define f (lambda (x1 ... xn) body ...)), one level of fuel lower; Vm::compile hands
   compile_expression the fuel S (S (size of the datum)) and the sugared datum is SMALLER than its
   translation, so the fragment-6 theorems (which ask for fuel above the size of the translated
   datum) are re-assembled here from the theorems about the lambda expression. *)
From Coq Require Import String Lia FMapPositive.
From MW Require Import Model.Base Model.F64 Model.Num Model.Datum Model.Lex Model.Parse Model.TransformDef Model.Transform
  Model.VmTypes Model.Heap Model.Gc Model.VmBase Model.Compile Model.Vm
  Proofs.VmProofs0 Proofs.GcProofs Proofs.SymtabProofs Proofs.QuoteHeapProofs
  Proofs.CompileProofs Proofs.RunProofs Proofs.CompileCorrect Proofs.TailProofs Proofs.FrameSteps
  Proofs.CellFuelProofs Proofs.CompileCorrect2 Proofs.FrameSteps3 Proofs.FrameSteps5 Proofs.StoreLocal5
  Proofs.FragmentCorollaries Proofs.Closures6 Proofs.CompileCorrect6 Proofs.CompileStatic6 Proofs.EvalFragment6
  Proofs.DefineSugar.
From MW Require Proofs.ScopeProofs.
From MW Require Model.Builtins.
Open Scope N_scope.

Arguments N.add : simpl never.
Arguments N.sub : simpl never.
Arguments N.mul : simpl never.
Arguments N.eqb : simpl never.
Arguments N.ltb : simpl never.
Arguments N.leb : simpl never.

(* the datum (define (x p1 ... pn) b1 ... bk) of the expression (define x (lambda (p1 ... pn) b1 ... bk)) *)
Definition sugar6 (x : text) (ps : list text) (bodies : list expr6) : cell :=
  sugar_cell x ps (map cell_of6 bodies).

Lemma desugar_sugar6 x ps fs bodies :
  desugar_define (sugar6 x ps bodies) = cell_of6 (WDefine x (WLam ps fs bodies)).
Proof. reflexivity. Qed.

Section Sugar6.
Variable ob : N -> M vcell.
Variable bsem : N -> list rval -> option rval.
Hypothesis Hb : forall b, builtin_ok ob bsem b.
Hypothesis He : forall b, builtin_envs ob bsem b.

(* compile-and-run correctness of the sugared form, for every fuel the lambda expression needs *)
Lemma sugar_compile6 sc lv sg rho x ps fs bodies r1 sg1 rho1 :
  wf6 (WDefine x (WLam ps fs bodies)) sc ->
  ref_eval6 bsem sc lv sg rho (WLam ps fs bodies) r1 sg1 rho1 ->
  forall f l tail s, (cell_size (cell_of6 (WLam ps fs bodies)) <= f)%nat -> hdr6 l sc s -> minv s ->
  exists l' s' code, compile_expression (S f) l tail (sugar6 x ps bodies) s = ROk l' s' /\
    fwd l' = fwd l ++ code /\ same_hdr l l' /\ minv s' /\ cext s s' /\ same_regs s s' /\
    envs (st s') = envs (st s) /\
    exec6 ob s' (len (fwd l)) code tail lv sg rho (R6Base (RDatum CVoid)) sg1 (upd6 rho1 x r1).
Proof.
  intros (Hx & Hpx & Wl) HR f l tail s Hf Hh MI.
  assert (Hbs : map cell_of6 bodies <> []).
  { destruct Wl as (Hne & _). destruct bodies; [congruence|discriminate]. }
  unfold sugar6. rewrite (define_spelling x ps _ Hbs Hx f l tail s), desugar_sugar, (compile_define_eq (S f) l tail x _ s Hx).
  change (lam_cells6 ps (map cell_of6 bodies)) with (cell_of6 (WLam ps fs bodies)).
  destruct (static6 _ sc Wl (S f) l false s ltac:(lia) Hh MI) as (l1 & s1 & c1 & E1 & F1 & S1 & MI1 & X1 & R1 & En1).
  pose proof (compile_correct6 ob bsem Hb He sc lv sg rho _ r1 sg1 rho1 HR (S f) l false s l1 s1 c1 Wl ltac:(lia) Hh MI E1 F1) as EX1.
  destruct (put_sym_m_ok x s1 MI1) as (a & s2 & E2 & MI2 & X2 & R2 & A & C & Eb & Eg).
  destruct (get_binding_ok a s2 MI2) as (k & s3 & E3 & MI3 & X3 & R3 & Eh & Es & B).
  assert (Hh2 : hdr6 (emit (emit_op l1 OMov) VAcc) sc s2).
  { eapply hdr6_same; [|eapply hdr6_ext; [|exact Hh]].
    - eapply same_hdr_trans; [exact S1|repeat split].
    - eapply cext_trans; eassumption. }
  eexists; exists s3, (c1 ++ [VOp OMov; VAcc; VGSlot k; VOp OMovImmediate; VVoid; VAcc]).
  unfold bindM at 1. rewrite E1. unfold bindM at 1. rewrite E2. unfold bindM at 1.
  rewrite (location_global6 _ sc s2 a x Hh2 (mi_heap _ MI2) A C Hpx). unfold bindM at 1. rewrite E3.
  split; [reflexivity|]. split; [rewrite fwd_store, F1, <- app_assoc; reflexivity|].
  split; [eapply same_hdr_trans; [exact S1|repeat split]|]. split; [exact MI3|].
  assert (X13 : cext s1 s3) by (eapply cext_trans; eassumption).
  split; [eapply cext_trans; eassumption|].
  split; [eapply same_regs_trans; [exact R1|]; eapply same_regs_trans; eassumption|].
  split; [rewrite Es, (put_sym_st6 _ _ _ _ E2); exact En1|].
  apply (exec6_store ob s3 _ c1 a k x).
  - apply (exec6_ext ob s3 s1); [exact X13|exact EX1].
  - rewrite Eh. exact A.
  - rewrite Eh. exact C.
  - exact B.
Qed.
End Sugar6.
