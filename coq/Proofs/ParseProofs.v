(* ParseProofs.v — the datum parser consumes exactly one datum, does not look
   beyond it, and reports every proper token-prefix of a datum as incomplete. *)
From Coq Require Import Lia.
From MW Require Import Model.Base Model.F64 Model.Num Model.NumFmt Model.Datum Model.Lex Model.Parse
  Proofs.LexProofs.
Open Scope N_scope.

(* [good P ts d rest]: running the parser [P] on [ts] consumed a non-empty prefix
   [used] (ts = used ++ rest), the answer does not depend on what follows [used],
   and on every proper prefix of [used] the parser answers Incomplete. *)
Definition good (P : list token -> out (cell * list token)) (ts : list token) (d : cell)
    (rest : list token) : Prop :=
  exists used, ts = used ++ rest /\ used <> [] /\
    (forall rest', P (used ++ rest') = Ok (d, rest')) /\
    (forall u1 u2, used = u1 ++ u2 -> u2 <> [] -> P u1 = Err E_INCOMPLETE).

(* the same without the non-emptiness requirement (number-prefix chains) *)
Definition good0 (P : list token -> out (cell * list token)) (ts : list token) (d : cell)
    (rest : list token) : Prop :=
  exists used, ts = used ++ rest /\
    (forall rest', P (used ++ rest') = Ok (d, rest')) /\
    (forall u1 u2, used = u1 ++ u2 -> u2 <> [] -> P u1 = Err E_INCOMPLETE).

Lemma bind_ok {A B} (x : out A) (f : A -> out B) b :
  bind x f = Ok b -> exists a, x = Ok a /\ f a = Ok b.
Proof. destruct x; cbn; try discriminate. eauto. Qed.

Lemma parse_number_leaf t k ts ex rad : t_ty k <> TNumPrefix ->
  parse_number t k ts ex rad =
  (do span <- tok_span t k;
   do n <- parse_with_exactness span ex rad;
   match n with Some n => Ok (CNum n, ts) | None => Ok (CSym span, ts) end).
Proof. intros H. destruct ts; cbn [parse_number]; destruct (t_ty k); congruence || reflexivity. Qed.

Lemma parse_number_leaf_good t k ts ex rad d rest : t_ty k <> TNumPrefix ->
  parse_number t k ts ex rad = Ok (d, rest) ->
  good0 (fun x => parse_number t k x ex rad) ts d rest.
Proof.
  intros Hk H. rewrite parse_number_leaf in H by assumption.
  apply bind_ok in H as (span & Hs & H). apply bind_ok in H as (n & Hn & H).
  assert (Hrest : rest = ts) by (destruct n; injection H as _ <-; reflexivity). subst rest.
  exists []. split; [reflexivity|]. split.
  - intros rest'. cbn [app]. rewrite parse_number_leaf by assumption. rewrite Hs. cbn [bind].
    rewrite Hn. cbn [bind]. destruct n; injection H as <-; reflexivity.
  - intros u1 u2 Hu Hne. destruct u1; [destruct u2; [congruence|discriminate]|discriminate].
Qed.

Lemma ttype_dec (a b : ttype) : {a = b} + {a <> b}.
Proof. decide equality. Qed.

Lemma parse_number_good t : forall ts k ex rad d rest,
  parse_number t k ts ex rad = Ok (d, rest) ->
  good0 (fun x => parse_number t k x ex rad) ts d rest.
Proof.
  induction ts as [|k' ts IH]; intros k ex rad d rest H;
    (destruct (ttype_dec (t_ty k) TNumPrefix) as [Ek|Ek]; [|apply parse_number_leaf_good; assumption]).
  - cbn [parse_number] in H. rewrite Ek in H.
    apply bind_ok in H as (span & Hs & H). destruct (prefix_kind span) as [[e r]|]; cbn in H; discriminate.
  - cbn [parse_number] in H. rewrite Ek in H.
    apply bind_ok in H as (span & Hs & H).
    destruct (prefix_kind span) as [[e r]|] eqn:Ep; [|discriminate].
    apply IH in H as (used & Hts & Hind & Hpre).
    exists (k' :: used). split; [cbn; rewrite Hts; reflexivity|]. split.
    + intros rest'. cbn [app parse_number]. rewrite Ek, Hs. cbn [bind]. rewrite Ep. apply Hind.
    + intros u1 u2 Hu Hne. destruct u1 as [|x u1].
      * cbn [parse_number]. rewrite Ek, Hs. cbn [bind]. rewrite Ep. reflexivity.
      * cbn [app] in Hu. injection Hu as <- Hu. cbn [parse_number]. rewrite Ek, Hs. cbn [bind].
        rewrite Ep. eapply Hpre; eassumption.
Qed.

Lemma app_cons_split {A} (u1 u2 : list A) k used :
  k :: used = u1 ++ u2 -> u2 <> [] ->
  u1 = [] \/ exists u1', u1 = k :: u1' /\ used = u1' ++ u2.
Proof.
  intros H Hne. destruct u1 as [|x u1]; [left; reflexivity|].
  right. cbn in H. injection H as <- H. eauto.
Qed.

Ltac leaf_case H Ek :=
  (* a one-token datum: [H : ... = Ok (d, rest)] after unfolding with head token k *)
  match goal with
  | |- good _ (?k :: ?r) _ _ =>
      exists [k]; split; [cbn; congruence || reflexivity|]; split; [discriminate|]; split;
      [intros rest'; cbn [app parse]; rewrite Ek
      |intros u1 u2 Hu Hne; apply app_cons_split in Hu as [->|(u1' & -> & Hu)]; [reflexivity|assumption];
       destruct u1'; [destruct u2; [congruence|discriminate]|discriminate]]
  end.

Theorem parse_good : forall fuel t,
  (forall ts d rest, parse fuel t ts = Ok (d, rest) -> good (parse fuel t) ts d rest) /\
  (forall ts start acc d rest, parse_list fuel t ts start acc = Ok (d, rest) ->
     good (fun x => parse_list fuel t x start acc) ts d rest) /\
  (forall ts acc d rest, parse_vector fuel t ts acc = Ok (d, rest) ->
     good (fun x => parse_vector fuel t x acc) ts d rest).
Proof.
  induction fuel as [|f IH]; intros t.
  { split; [|split]; intros; discriminate. }
  destruct (IH t) as (IHp & IHl & IHv). clear IH.
  split; [|split].
  - (* ------------------------------------------------------------ parse *)
    intros ts d rest H. cbn [parse] in H. destruct ts as [|k r]; [discriminate|].
    destruct (t_ty k) eqn:Ek.
    + (* TChar *)
      apply bind_ok in H as (span & Hs & H). apply bind_ok in H as (c & Hc & H). injection H as <- <-.
      exists [k]. split; [reflexivity|]. split; [discriminate|]. split.
      * intros rest'. cbn [app parse]. rewrite Ek, Hs. cbn [bind]. rewrite Hc. reflexivity.
      * intros u1 u2 Hu Hne. apply app_cons_split in Hu as [->|(u1' & -> & Hu)]; [reflexivity| |assumption].
        destruct u1'; [destruct u2; [congruence|discriminate]|discriminate].
    + discriminate.
    + (* TFalse *) injection H as <- <-.
      exists [k]. split; [reflexivity|]. split; [discriminate|]. split.
      * intros rest'. cbn [app parse]. rewrite Ek. reflexivity.
      * intros u1 u2 Hu Hne. apply app_cons_split in Hu as [->|(u1' & -> & Hu)]; [reflexivity| |assumption].
        destruct u1'; [destruct u2; [congruence|discriminate]|discriminate].
    + (* TLeft *)
      apply IHl in H as (used & Hts & Hne & Hind & Hpre).
      exists (k :: used). split; [cbn; rewrite Hts; reflexivity|]. split; [discriminate|]. split.
      * intros rest'. cbn [app parse]. rewrite Ek. apply Hind.
      * intros u1 u2 Hu Hne2. apply app_cons_split in Hu as [->|(u1' & -> & Hu)]; [reflexivity| |assumption].
        cbn [parse]. rewrite Ek. eapply Hpre; eassumption.
    + (* TNumber *)
      apply parse_number_good in H as (used & Hts & Hind & Hpre).
      exists (k :: used). split; [cbn; rewrite Hts; reflexivity|]. split; [discriminate|]. split.
      * intros rest'. cbn [app parse]. rewrite Ek. apply Hind.
      * intros u1 u2 Hu Hne2. apply app_cons_split in Hu as [->|(u1' & -> & Hu)]; [reflexivity| |assumption].
        cbn [parse]. rewrite Ek. eapply Hpre; eassumption.
    + (* TNumPrefix *)
      apply parse_number_good in H as (used & Hts & Hind & Hpre).
      exists (k :: used). split; [cbn; rewrite Hts; reflexivity|]. split; [discriminate|]. split.
      * intros rest'. cbn [app parse]. rewrite Ek. apply Hind.
      * intros u1 u2 Hu Hne2. apply app_cons_split in Hu as [->|(u1' & -> & Hu)]; [reflexivity| |assumption].
        cbn [parse]. rewrite Ek. eapply Hpre; eassumption.
    + (* TQuasi *)
      apply bind_ok in H as ([d0 r'] & H0 & H). injection H as <- <-.
      apply IHp in H0 as (used & Hts & Hne & Hind & Hpre).
      exists (k :: used). split; [cbn; rewrite Hts; reflexivity|]. split; [discriminate|]. split.
      * intros rest'. cbn [app parse]. rewrite Ek, Hind. reflexivity.
      * intros u1 u2 Hu Hne2. apply app_cons_split in Hu as [->|(u1' & -> & Hu)]; [reflexivity| |assumption].
        cbn [parse]. rewrite Ek. rewrite (Hpre _ _ Hu Hne2). reflexivity.
    + discriminate.
    + (* TQuote *)
      apply bind_ok in H as ([d0 r'] & H0 & H). injection H as <- <-.
      apply IHp in H0 as (used & Hts & Hne & Hind & Hpre).
      exists (k :: used). split; [cbn; rewrite Hts; reflexivity|]. split; [discriminate|]. split.
      * intros rest'. cbn [app parse]. rewrite Ek, Hind. reflexivity.
      * intros u1 u2 Hu Hne2. apply app_cons_split in Hu as [->|(u1' & -> & Hu)]; [reflexivity| |assumption].
        cbn [parse]. rewrite Ek. rewrite (Hpre _ _ Hu Hne2). reflexivity.
    + (* TString *)
      apply bind_ok in H as (span & Hs & H).
      exists [k]. split.
      { destruct span as [|c0 [|c1 body]]; try discriminate.
        apply bind_ok in H as (c & Hc & H). injection H as _ <-. reflexivity. }
      split; [discriminate|]. split.
      * intros rest'. cbn [app parse]. rewrite Ek, Hs. cbn [bind].
        destruct span as [|c0 [|c1 body]]; try discriminate.
        apply bind_ok in H as (c & Hc & H). injection H as <- _. rewrite Hc. reflexivity.
      * intros u1 u2 Hu Hne. apply app_cons_split in Hu as [->|(u1' & -> & Hu)]; [reflexivity| |assumption].
        destruct u1'; [destruct u2; [congruence|discriminate]|discriminate].
    + (* TSymbol *)
      apply bind_ok in H as (span & Hs & H). injection H as <- <-.
      exists [k]. split; [reflexivity|]. split; [discriminate|]. split.
      * intros rest'. cbn [app parse]. rewrite Ek, Hs. reflexivity.
      * intros u1 u2 Hu Hne. apply app_cons_split in Hu as [->|(u1' & -> & Hu)]; [reflexivity| |assumption].
        destruct u1'; [destruct u2; [congruence|discriminate]|discriminate].
    + (* TTrue *) injection H as <- <-.
      exists [k]. split; [reflexivity|]. split; [discriminate|]. split.
      * intros rest'. cbn [app parse]. rewrite Ek. reflexivity.
      * intros u1 u2 Hu Hne. apply app_cons_split in Hu as [->|(u1' & -> & Hu)]; [reflexivity| |assumption].
        destruct u1'; [destruct u2; [congruence|discriminate]|discriminate].
    + (* TUnquote *)
      apply bind_ok in H as ([d0 r'] & H0 & H). injection H as <- <-.
      apply IHp in H0 as (used & Hts & Hne & Hind & Hpre).
      exists (k :: used). split; [cbn; rewrite Hts; reflexivity|]. split; [discriminate|]. split.
      * intros rest'. cbn [app parse]. rewrite Ek, Hind. reflexivity.
      * intros u1 u2 Hu Hne2. apply app_cons_split in Hu as [->|(u1' & -> & Hu)]; [reflexivity| |assumption].
        cbn [parse]. rewrite Ek. rewrite (Hpre _ _ Hu Hne2). reflexivity.
    + (* THashParen *)
      apply IHv in H as (used & Hts & Hne & Hind & Hpre).
      exists (k :: used). split; [cbn; rewrite Hts; reflexivity|]. split; [discriminate|]. split.
      * intros rest'. cbn [app parse]. rewrite Ek. apply Hind.
      * intros u1 u2 Hu Hne2. apply app_cons_split in Hu as [->|(u1' & -> & Hu)]; [reflexivity| |assumption].
        cbn [parse]. rewrite Ek. eapply Hpre; eassumption.
  - (* ------------------------------------------------------- parse_list *)
    intros ts start acc d rest H. cbn [parse_list] in H. destruct ts as [|k r]; [discriminate|].
    assert (Hdefault : forall (Hty : t_ty k <> TRight /\ t_ty k <> TDot),
      (do (d0, r') <- parse f t (k :: r); parse_list f t r' start (d0 :: acc)) = Ok (d, rest) ->
      good (fun x => parse_list (S f) t x start acc) (k :: r) d rest).
    { intros [Hn1 Hn2] H'. apply bind_ok in H' as ([d0 r0] & H0 & H1).
      apply IHp in H0 as (used0 & Hts0 & Hne0 & Hind0 & Hpre0).
      apply IHl in H1 as (used1 & Hts1 & Hne1 & Hind1 & Hpre1).
      destruct used0 as [|k0 used0]; [congruence|]. cbn [app] in Hts0. injection Hts0 as Hk0 Hr. subst k0.
      exists ((k :: used0) ++ used1). split; [cbn [app]; rewrite <- app_assoc, <- Hts1, Hr; reflexivity|].
      split; [discriminate|]. split.
      * intros rest'. cbn [app parse_list].
        destruct (t_ty k) eqn:Ek; try congruence;
          rewrite <- app_assoc; change (k :: used0 ++ used1 ++ rest') with ((k :: used0) ++ used1 ++ rest');
          rewrite Hind0; cbn [bind]; apply Hind1.
      * intros u1 u2 Hu Hne2.
        destruct u1 as [|x u1]; [reflexivity|].
        cbn [app] in Hu. injection Hu as Hx Hu. subst x.
        apply app_eq_app in Hu as (w & [[Hw1 Hw2]|[Hw1 Hw2]]).
        -- (* u1 ends inside used0 ... or exactly at its end *)
           destruct w as [|w0 w].
           ++ rewrite app_nil_r in Hw1. subst u1. cbn [app] in Hw2. subst u2.
              cbn [parse_list]. destruct (t_ty k) eqn:Ek; try congruence;
                (rewrite <- (app_nil_r (k :: used0)), Hind0; cbn [bind];
                 apply (Hpre1 [] used1); [reflexivity|assumption]).
           ++ cbn [parse_list]. destruct (t_ty k) eqn:Ek; try congruence;
                (rewrite (Hpre0 (k :: u1) (w0 :: w)); [reflexivity|cbn; rewrite Hw1; reflexivity|discriminate]).
        -- (* u1 = used0 ++ w, used1 = w ++ u2 *)
           subst u1. cbn [parse_list]. destruct (t_ty k) eqn:Ek; try congruence;
             (change (k :: used0 ++ w) with ((k :: used0) ++ w); rewrite Hind0; cbn [bind];
              eapply Hpre1; eassumption). }
    destruct (t_ty k) eqn:Ek;
      try (apply Hdefault; [split; congruence|exact H]).
    + (* TDot: improper tail *)
      destruct acc as [|a0 acc']; [discriminate|].
      destruct r as [|k2 r2]; [discriminate|].
      assert (Hk2 : t_ty k2 <> TDot /\ t_ty k2 <> TRight) by (destruct (t_ty k2); split; congruence).
      assert (H' : (do (d0, r2') <- parse f t (k2 :: r2);
                    match r2' with
                    | [] => Err E_INCOMPLETE
                    | k3 :: r3 => match t_ty k3 with
                                  | TRight => Ok (new_improper_list (rev (a0 :: acc')) d0, r3)
                                  | _ => Err E_OTHER end
                    end) = Ok (d, rest)).
      { destruct (t_ty k2); try discriminate; exact H. }
      clear H. apply bind_ok in H' as ([d0 r0] & H0 & H1).
      apply IHp in H0 as (used0 & Hts0 & Hne0 & Hind0 & Hpre0).
      destruct r0 as [|k3 r3]; [discriminate|]. destruct (t_ty k3) eqn:Ek3; try discriminate.
      injection H1 as <- <-.
      exists (k :: used0 ++ [k3]). split; [cbn [app]; rewrite <- app_assoc; cbn [app]; rewrite <- Hts0; reflexivity|].
      split; [discriminate|].
      assert (Hhd : exists u, used0 = k2 :: u).
      { destruct used0 as [|x u]; [congruence|]. cbn in Hts0. injection Hts0 as <- _. eauto. }
      destruct Hhd as (u0 & ->).
      assert (Hsel : forall x, match t_ty k2 with
                | TDot | TRight => Err E_OTHER
                | _ => do (d0, r2') <- parse f t x;
                       match r2' with
                       | [] => Err E_INCOMPLETE
                       | k3 :: r3 => match t_ty k3 with
                                     | TRight => Ok (new_improper_list (rev (a0 :: acc')) d0, r3)
                                     | _ => Err E_OTHER end
                       end
                end = do (d0, r2') <- parse f t x;
                       match r2' with
                       | [] => Err E_INCOMPLETE
                       | k3 :: r3 => match t_ty k3 with
                                     | TRight => Ok (new_improper_list (rev (a0 :: acc')) d0, r3)
                                     | _ => Err E_OTHER end
                       end).
      { intros x. destruct Hk2. destruct (t_ty k2); congruence. }
      split.
      * intros rest'. cbn [app parse_list]. rewrite Ek. rewrite <- app_assoc. cbn [app].
        rewrite Hsel. change (k2 :: u0 ++ k3 :: rest') with ((k2 :: u0) ++ k3 :: rest').
        rewrite Hind0. cbn [bind]. rewrite Ek3. reflexivity.
      * intros u1 u2 Hu Hne2.
        destruct u1 as [|x u1]; [reflexivity|]. cbn [app] in Hu. injection Hu as Hx Hu. subst x.
        cbn [parse_list]. rewrite Ek.
        destruct u1 as [|y u1]; [reflexivity|].
        cbn [app] in Hu. injection Hu as Hy Hu. subst y. rewrite Hsel.
        (* u1 ++ u2 = u0 ++ [k3] *)
        apply app_eq_app in Hu as (w & [[Hw1 Hw2]|[Hw1 Hw2]]).
        -- destruct w as [|w0 w].
           ++ rewrite app_nil_r in Hw1. subst u1.
              rewrite <- (app_nil_r (k2 :: u0)), Hind0. reflexivity.
           ++ rewrite (Hpre0 (k2 :: u1) (w0 :: w)); [reflexivity|cbn; rewrite Hw1; reflexivity|discriminate].
        -- (* u1 = u0 ++ w with [k3] = w ++ u2, u2 <> [] so w = [] *)
           destruct w as [|w0 w].
           ++ rewrite app_nil_r in Hw1. subst u1. rewrite <- (app_nil_r (k2 :: u0)), Hind0. reflexivity.
           ++ cbn in Hw2. injection Hw2 as _ Hw2. destruct w; [destruct u2; [congruence|discriminate]|discriminate].
    + (* TRight: end of list *)
      apply bind_ok in H as (sc & Hsc & H). apply bind_ok in H as (ec & Hec & H).
      match type of H with (if ?c then _ else _) = _ => destruct c eqn:Eok; [|discriminate] end.
      injection H as <- <-.
      exists [k]. split; [reflexivity|]. split; [discriminate|]. split.
      * intros rest'. cbn [app parse_list]. rewrite Ek, Hsc. cbn [bind]. rewrite Hec. cbn [bind].
        rewrite Eok. reflexivity.
      * intros u1 u2 Hu Hne. apply app_cons_split in Hu as [->|(u1' & -> & Hu)]; [reflexivity| |assumption].
        destruct u1'; [destruct u2; [congruence|discriminate]|discriminate].
  - (* ----------------------------------------------------- parse_vector *)
    intros ts acc d rest H. cbn [parse_vector] in H. destruct ts as [|k r]; [discriminate|].
    assert (Hdefault : forall (Hty : t_ty k <> TRight /\ t_ty k <> TDot),
      (do (d0, r') <- parse f t (k :: r); parse_vector f t r' (d0 :: acc)) = Ok (d, rest) ->
      good (fun x => parse_vector (S f) t x acc) (k :: r) d rest).
    { intros [Hn1 Hn2] H'. apply bind_ok in H' as ([d0 r0] & H0 & H1).
      apply IHp in H0 as (used0 & Hts0 & Hne0 & Hind0 & Hpre0).
      apply IHv in H1 as (used1 & Hts1 & Hne1 & Hind1 & Hpre1).
      destruct used0 as [|k0 used0]; [congruence|]. cbn [app] in Hts0. injection Hts0 as Hk0 Hr. subst k0.
      exists ((k :: used0) ++ used1). split; [cbn [app]; rewrite <- app_assoc, <- Hts1, Hr; reflexivity|].
      split; [discriminate|]. split.
      * intros rest'. cbn [app parse_vector].
        destruct (t_ty k) eqn:Ek; try congruence;
          rewrite <- app_assoc; change (k :: used0 ++ used1 ++ rest') with ((k :: used0) ++ used1 ++ rest');
          rewrite Hind0; cbn [bind]; apply Hind1.
      * intros u1 u2 Hu Hne2.
        destruct u1 as [|x u1]; [reflexivity|].
        cbn [app] in Hu. injection Hu as Hx Hu. subst x.
        apply app_eq_app in Hu as (w & [[Hw1 Hw2]|[Hw1 Hw2]]).
        -- destruct w as [|w0 w].
           ++ rewrite app_nil_r in Hw1. subst u1. cbn [app] in Hw2. subst u2.
              cbn [parse_vector]. destruct (t_ty k) eqn:Ek; try congruence;
                (rewrite <- (app_nil_r (k :: used0)), Hind0; cbn [bind];
                 apply (Hpre1 [] used1); [reflexivity|assumption]).
           ++ cbn [parse_vector]. destruct (t_ty k) eqn:Ek; try congruence;
                (rewrite (Hpre0 (k :: u1) (w0 :: w)); [reflexivity|cbn; rewrite Hw1; reflexivity|discriminate]).
        -- subst u1. cbn [parse_vector]. destruct (t_ty k) eqn:Ek; try congruence;
             (change (k :: used0 ++ w) with ((k :: used0) ++ w); rewrite Hind0; cbn [bind];
              eapply Hpre1; eassumption). }
    destruct (t_ty k) eqn:Ek;
      try (apply Hdefault; [split; congruence|exact H]); try discriminate.
    apply bind_ok in H as (ec & Hec & H).
    destruct (ec =? 41) eqn:Eok; [|discriminate]. injection H as <- <-.
    exists [k]. split; [reflexivity|]. split; [discriminate|]. split.
    + intros rest'. cbn [app parse_vector]. rewrite Ek, Hec. cbn [bind]. rewrite Eok. reflexivity.
    + intros u1 u2 Hu Hne. apply app_cons_split in Hu as [->|(u1' & -> & Hu)]; [reflexivity| |assumption].
      destruct u1'; [destruct u2; [congruence|discriminate]|discriminate].
Qed.

(* ---------------------------------------------------------- fuel suffices *)
(* [parse] never runs out of fuel when given [parse_fuel ts]: each call of
   parse / parse_list / parse_vector either returns or passes a strictly shorter
   token list to the next call it makes with one unit less. *)
Lemma parse_rest_shorter fuel t :
  (forall ts d rest, parse fuel t ts = Ok (d, rest) -> (length rest < length ts)%nat) /\
  (forall ts start acc d rest, parse_list fuel t ts start acc = Ok (d, rest) -> (length rest < length ts)%nat) /\
  (forall ts acc d rest, parse_vector fuel t ts acc = Ok (d, rest) -> (length rest < length ts)%nat).
Proof.
  destruct (parse_good fuel t) as (Hp & Hl & Hv).
  split; [|split]; intros.
  - apply Hp in H as (used & -> & Hne & _). rewrite app_length. destruct used; [congruence|cbn; lia].
  - apply Hl in H as (used & -> & Hne & _). rewrite app_length. destruct used; [congruence|cbn; lia].
  - apply Hv in H as (used & -> & Hne & _). rewrite app_length. destruct used; [congruence|cbn; lia].
Qed.

(* -------------------------------------------- parse_text: remaining text *)
Lemma slice_from_sound t o s : slice_from t o = Ok s -> exists pre, t = pre ++ s /\ blen pre = o.
Proof.
  unfold slice_from. destruct (take_bytes o t) as [[a b]|] eqn:E; [|discriminate].
  intros [= <-]. apply take_bytes_sound in E as [-> Hb]. eauto.
Qed.

Theorem parse_text_remaining t d r :
  parse_text t = Ok (d, r) ->
  exists ts used rest,
    scan t = Ok ts /\ ts = used ++ rest /\ used <> [] /\
    parse (parse_fuel ts) t ts = Ok (d, rest) /\
    match r with
    | None => rest = []
    | Some s => exists k rest' pre, rest = k :: rest' /\ t = pre ++ s /\ blen pre = t_start k
    end.
Proof.
  unfold parse_text. intros H.
  apply bind_ok in H as (ts & Hs & H). apply bind_ok in H as ([d0 rest] & Hp & H).
  pose proof (proj1 (parse_good _ _) _ _ _ Hp) as (used & Hts & Hne & _ & _).
  exists ts, used, rest. split; [assumption|]. split; [assumption|]. split; [assumption|].
  destruct rest as [|k rest'].
  - injection H as <- <-. split; [assumption|reflexivity].
  - apply bind_ok in H as (s & Hsl & H). injection H as <- <-. split; [assumption|].
    apply slice_from_sound in Hsl as (pre & Ht & Hb). exists k, rest', pre. auto.
Qed.
