(* KeepPkg.v — C01 (R2): the builtins of the work packages dispatched by [pkg_builtin]
   (Model/Builtins.v) before its last branch [lv_builtin] keep the invariant [J] of
   KeepCalc.v: number.rs (value-level models under [num_builtin], for an arbitrary model),
   number->string / string->number ([cell_builtin]), string.rs / char.rs (Model/Str.v) and
   symbol.rs.  Same order as FlatPkg.v; there are no side conditions on values, so every
   proof is [unfold; kpa] (an induction for the loops). *)
From Coq Require Import Lia List String.
From MW Require Import Model.Base Model.F64 Model.Num Model.Datum Model.TransformDef Model.Transform
  Model.VmTypes Model.Heap Model.Gc Model.VmBase Model.Compile Model.Vm Model.Builtins
  Proofs.GcProofs Proofs.SymtabProofs Proofs.VmProofs0 Proofs.TailProofs Proofs.ScopeProofs
  Proofs.EnvProofs Proofs.FlatProofs Proofs.FlatPrims Proofs.CompileCorrect Proofs.KeepCalc.
From MW Require Model.NumArith Model.NumProc Model.Str Model.SymbolB.
Open Scope N_scope.
Arguments N.add : simpl never.
Arguments N.sub : simpl never.
Arguments N.eqb : simpl never.
Arguments N.ltb : simpl never.
Arguments N.leb : simpl never.
Arguments N.mul : simpl never.

(* ------------------------------------------------------------------ the poppers of Str.v *)
Lemma kp_str_pop_integer : kp Str.pop_integer.
Proof. unfold Str.pop_integer. kpa. Qed.
Lemma kp_str_pop_usize : kp Str.pop_usize.
Proof. unfold Str.pop_usize. kpa. Qed.
Lemma kp_str_pop_index : kp Str.pop_index.
Proof. unfold Str.pop_index. kpa. Qed.
#[export] Hint Resolve kp_str_pop_integer kp_str_pop_usize kp_str_pop_index : kp.
Lemma kp_str_opt_pop_index b : kp (Str.opt_pop_index b).
Proof. unfold Str.opt_pop_index. kpa. Qed.
#[export] Hint Resolve kp_str_opt_pop_index : kp.

(* ------------------------------------------------------------------ number.rs *)
Lemma kp_pop_values k : forall acc0, kp (pop_values k acc0).
Proof.
  induction k as [|k IH]; intros acc0; cbn [pop_values]; kpa.
Qed.
#[export] Hint Resolve kp_pop_values : kp.

Lemma kp_num_builtin f : kp (num_builtin f).
Proof. unfold num_builtin. kpa. Qed.

(* ------------------------------------------------------------------ number->string / string->number *)
Lemma kp_pop_cells k : forall acc0, kp (pop_cells k acc0).
Proof.
  induction k as [|k IH]; intros acc0; cbn [pop_cells]; kpa.
Qed.
#[export] Hint Resolve kp_pop_cells : kp.

Lemma kp_cell_builtin f :
  (forall c, kp (maybe_put_cell_m c)) -> kp (cell_builtin f).
Proof. intros Hput. unfold cell_builtin. kpa. Qed.

(* ------------------------------------------------------------------ string.rs *)
Lemma kp_string_append_loop n : forall output, kp (Str.string_append_loop n output).
Proof.
  induction n as [|n IH]; intros output; cbn [Str.string_append_loop]; kpa.
Qed.
#[export] Hint Resolve kp_string_append_loop : kp.
Lemma kp_string_append : kp Str.string_append.
Proof. unfold Str.string_append. kpa. Qed.

Lemma kp_string_length : kp Str.string_length.
Proof. unfold Str.string_length. kpa. Qed.
Lemma kp_string_downcase : kp Str.string_downcase.
Proof. unfold Str.string_downcase. kpa. Qed.
Lemma kp_string_upcase : kp Str.string_upcase.
Proof. unfold Str.string_upcase. kpa. Qed.
Lemma kp_string_foldcase : kp Str.string_foldcase.
Proof. unfold Str.string_foldcase. kpa. Qed.

Lemma kp_string_ref : kp Str.string_ref.
Proof. unfold Str.string_ref. kpa. Qed.

Lemma kp_chars_to_list r : forall l, kp (Str.chars_to_list r l).
Proof.
  induction r as [|c r IH]; intros l; cbn [Str.chars_to_list]; kpa.
Qed.
#[export] Hint Resolve kp_chars_to_list : kp.
Lemma kp_string_list : kp Str.string_list.
Proof. unfold Str.string_list. kpa. Qed.

Lemma kp_string_vector : kp Str.string_vector.
Proof. unfold Str.string_vector. kpa. Qed.

Lemma kp_vector_string_loop l : forall s0, kp (Str.vector_string_loop l s0).
Proof.
  induction l as [|x r IH]; intros s0; cbn [Str.vector_string_loop]; kpa.
Qed.
#[export] Hint Resolve kp_vector_string_loop : kp.
Lemma kp_vector_string : kp Str.vector_string.
Proof. unfold Str.vector_string. kpa. Qed.

Lemma kp_list_string_loop fuel : forall rest s0, kp (Str.list_string_loop fuel rest s0).
Proof.
  induction fuel as [|fuel IH]; intros rest s0; cbn [Str.list_string_loop]; kpa.
Qed.
#[export] Hint Resolve kp_list_string_loop : kp.
Lemma kp_list_string : kp Str.list_string.
Proof. unfold Str.list_string. kpa. Qed.

Lemma kp_string_copy : kp Str.string_copy.
Proof. unfold Str.string_copy. kpa. Qed.
Lemma kp_string_fill : kp Str.string_fill.
Proof. unfold Str.string_fill. kpa. Qed.
Lemma kp_string_set : kp Str.string_set.
Proof. unfold Str.string_set. kpa. Qed.
Lemma kp_make_string : kp Str.make_string.
Proof. unfold Str.make_string. kpa. Qed.

Lemma kp_string_loop n : forall v, kp (Str.string_loop n v).
Proof.
  induction n as [|n IH]; intros v; cbn [Str.string_loop]; kpa.
Qed.
#[export] Hint Resolve kp_string_loop : kp.
Lemma kp_string_ : kp Str.string_.
Proof. unfold Str.string_. kpa. Qed.

Lemma kp_string_comp_loop comp n : forall y result, kp (Str.string_comp_loop comp n y result).
Proof.
  induction n as [|n IH]; intros y result; cbn [Str.string_comp_loop]; kpa.
Qed.
#[export] Hint Resolve kp_string_comp_loop : kp.
Lemma kp_string_comp comp : kp (Str.string_comp comp).
Proof. unfold Str.string_comp. kpa. Qed.
Lemma kp_string_cmp o : kp (Str.string_cmp o).
Proof. apply kp_string_comp. Qed.
Lemma kp_string_ci_cmp o : kp (Str.string_ci_cmp o).
Proof. apply kp_string_comp. Qed.
#[export] Hint Resolve kp_string_append kp_string_length kp_string_downcase kp_string_upcase
  kp_string_foldcase kp_string_ref kp_string_list kp_string_vector kp_vector_string kp_list_string
  kp_string_copy kp_string_fill kp_string_set kp_make_string kp_string_ kp_string_comp kp_string_cmp
  kp_string_ci_cmp : kp.

(* ------------------------------------------------------------------ char.rs *)
Lemma kp_char_pred p : kp (Str.char_pred p).
Proof. unfold Str.char_pred. kpa. Qed.
Lemma kp_char_is_alphabetic : kp Str.char_is_alphabetic.
Proof. apply kp_char_pred. Qed.
Lemma kp_char_is_numeric : kp Str.char_is_numeric.
Proof. apply kp_char_pred. Qed.
Lemma kp_char_is_lower_case : kp Str.char_is_lower_case.
Proof. apply kp_char_pred. Qed.
Lemma kp_char_is_upper_case : kp Str.char_is_upper_case.
Proof. apply kp_char_pred. Qed.
Lemma kp_char_is_whitespace : kp Str.char_is_whitespace.
Proof. apply kp_char_pred. Qed.

Lemma kp_integer_to_char : kp Str.integer_to_char.
Proof. unfold Str.integer_to_char. kpa. Qed.
Lemma kp_char_to_integer : kp Str.char_to_integer.
Proof. unfold Str.char_to_integer. kpa. Qed.

Lemma kp_char_map f : kp (Str.char_map f).
Proof. unfold Str.char_map. kpa. Qed.
Lemma kp_char_upcase : kp Str.char_upcase.
Proof. apply kp_char_map. Qed.
Lemma kp_char_downcase : kp Str.char_downcase.
Proof. apply kp_char_map. Qed.
Lemma kp_char_foldcase : kp Str.char_foldcase.
Proof. apply kp_char_map. Qed.

Lemma kp_digit_value : kp Str.digit_value.
Proof. unfold Str.digit_value. kpa. Qed.

Lemma kp_char_comp_loop comp n : forall y result, kp (Str.char_comp_loop comp n y result).
Proof.
  induction n as [|n IH]; intros y result; cbn [Str.char_comp_loop]; kpa.
Qed.
#[export] Hint Resolve kp_char_comp_loop : kp.
Lemma kp_char_comp comp : kp (Str.char_comp comp).
Proof. unfold Str.char_comp. kpa. Qed.
Lemma kp_char_cmp o : kp (Str.char_cmp o).
Proof. apply kp_char_comp. Qed.
Lemma kp_char_ci_cmp o : kp (Str.char_ci_cmp o).
Proof. apply kp_char_comp. Qed.
#[export] Hint Resolve kp_char_pred kp_char_is_alphabetic kp_char_is_numeric kp_char_is_lower_case
  kp_char_is_upper_case kp_char_is_whitespace kp_integer_to_char kp_char_to_integer kp_char_map
  kp_char_upcase kp_char_downcase kp_char_foldcase kp_digit_value kp_char_comp kp_char_cmp
  kp_char_ci_cmp : kp.

(* prelude substring and the CALL of a builtin (end of Str.v) *)
Lemma kp_substring nargs : kp (Str.substring nargs).
Proof. unfold Str.substring. kpa. Qed.
Lemma kp_push_all l : kp (Str.push_all l).
Proof. induction l as [|v r IH]; cbn [Str.push_all]; kpa. Qed.
#[export] Hint Resolve kp_substring kp_push_all : kp.
Lemma kp_run_builtin f args : kp f -> kp (Str.run_builtin f args).
Proof. intros Hf. unfold Str.run_builtin. kpa. Qed.

(* ------------------------------------------------------------------ symbol.rs *)
Lemma kp_b_string_symbol : kp b_string_symbol.
Proof. unfold b_string_symbol. kpa. Qed.
Lemma kp_b_symbol_string : kp b_symbol_string.
Proof. unfold b_symbol_string. kpa. Qed.
Lemma kp_symbol_eq_loop k : forall y result, kp (symbol_eq_loop k y result).
Proof.
  induction k as [|k IH]; intros y result; cbn [symbol_eq_loop]; kpa.
Qed.
#[export] Hint Resolve kp_symbol_eq_loop : kp.
Lemma kp_b_symbol_eq : kp b_symbol_eq.
Proof. unfold b_symbol_eq. kpa. Qed.
#[export] Hint Resolve kp_num_builtin kp_b_string_symbol kp_b_symbol_string kp_b_symbol_eq : kp.

(* ------------------------------------------------------------------ the dispatch *)
Theorem kp_pkg_builtin :
  (forall c, kp (maybe_put_cell_m c)) -> (forall b, kp (lv_builtin b)) -> forall b, kp (pkg_builtin b).
Proof.
  intros Hput Hlv b. unfold pkg_builtin. cbv zeta.
  repeat match goal with
         | |- kp (if ?c then _ else _) => destruct c
         end;
    lazymatch goal with
    | |- kp (num_builtin _) => apply kp_num_builtin
    | |- kp (cell_builtin _) => apply kp_cell_builtin; exact Hput
    | |- kp (lv_builtin _) => apply Hlv
    | |- kp Str.string_length => exact kp_string_length
    | |- kp Str.string_ref => exact kp_string_ref
    | |- kp Str.string_set => exact kp_string_set
    | |- kp Str.string_copy => exact kp_string_copy
    | |- kp Str.string_fill => exact kp_string_fill
    | |- kp Str.string_list => exact kp_string_list
    | |- kp Str.string_vector => exact kp_string_vector
    | |- kp Str.vector_string => exact kp_vector_string
    | |- kp Str.list_string => exact kp_list_string
    | |- kp Str.string_ => exact kp_string_
    | |- kp Str.make_string => exact kp_make_string
    | |- kp Str.string_append => exact kp_string_append
    | |- kp (Str.string_cmp _) => apply kp_string_cmp
    | |- kp (Str.string_ci_cmp _) => apply kp_string_ci_cmp
    | |- kp Str.string_upcase => exact kp_string_upcase
    | |- kp Str.string_downcase => exact kp_string_downcase
    | |- kp Str.string_foldcase => exact kp_string_foldcase
    | |- kp Str.char_to_integer => exact kp_char_to_integer
    | |- kp Str.integer_to_char => exact kp_integer_to_char
    | |- kp Str.char_is_alphabetic => exact kp_char_is_alphabetic
    | |- kp Str.char_is_numeric => exact kp_char_is_numeric
    | |- kp Str.char_is_whitespace => exact kp_char_is_whitespace
    | |- kp Str.char_is_upper_case => exact kp_char_is_upper_case
    | |- kp Str.char_is_lower_case => exact kp_char_is_lower_case
    | |- kp Str.char_upcase => exact kp_char_upcase
    | |- kp Str.char_downcase => exact kp_char_downcase
    | |- kp Str.char_foldcase => exact kp_char_foldcase
    | |- kp Str.digit_value => exact kp_digit_value
    | |- kp (Str.char_cmp _) => apply kp_char_cmp
    | |- kp (Str.char_ci_cmp _) => apply kp_char_ci_cmp
    | |- kp b_string_symbol => exact kp_b_string_symbol
    | |- kp b_symbol_string => exact kp_b_symbol_string
    | |- kp b_symbol_eq => exact kp_b_symbol_eq
    end.
Qed.

Print Assumptions kp_pkg_builtin.
