(* WriteReadProofs.v — C10: what the printer writes, the reader reads back.
   Part A: character literals, over ALL code points.
   Part B: string literals, over ALL texts.
   Part C: booleans, symbols of the reader, exact numbers (through the C16 lemmas).
   The leaf lemmas are stated "in context": the spelling followed by any text that
   does not continue the token ([delim]), because that is how they are used by the
   composite theorem (WriteReadList.v).                                          *)
From Coq Require Import String ZArith List Bool Lia.
From MW Require Import Model.Base Model.F64 Model.Num Model.Digits Model.F64Fmt Model.NumFmt
  Model.Datum Model.Lex Model.Parse
  Proofs.LexProofs Proofs.ParseProofs Proofs.DigitsProofs Proofs.NumFmtProofs Proofs.LiteralProofs
  Proofs.FloatProofs Proofs.FloatLiteralProofs.
From Flocq Require Import IEEE754.BinarySingleNaN.
Open Scope N_scope.

(* ------------------------------------------------------------ generalities *)
(* what may follow an atom in a written datum: the end, a space or a ')' *)
Definition delim (post : text) : Prop :=
  match post with [] => True | c :: _ => c = 32 \/ c = 41 end.

Lemma delim_not_alnum post : delim post -> span is_ascii_alnum post = ([], post).
Proof.
  destruct post as [|c p]; [reflexivity|]. cbn [delim span].
  intros [-> | ->]; reflexivity.
Qed.

Lemma delim_not_ident post : delim post -> span is_subsequent_identifier post = ([], post).
Proof.
  destruct post as [|c p]; [reflexivity|]. cbn [delim span].
  intros [-> | ->]; reflexivity.
Qed.

Lemma span_app_all p l post : forallb p l = true -> span p post = ([], post) ->
  span p (l ++ post) = (l, post).
Proof.
  intros Hl Hp. induction l as [|c l IH]; cbn [app]; [exact Hp|].
  cbn [forallb] in Hl. apply andb_true_iff in Hl as [Hc Hl].
  cbn [span]. rewrite Hc, (IH Hl). reflexivity.
Qed.

(* [cp] and [text] are abbreviations of N and list N; [rewrite] matches implicit type
   arguments syntactically, so lemma instances are normalised before use *)
Ltac nrw H := let HH := fresh "HH" in pose proof H as HH; unfold cp, text in HH |- *; rewrite HH; clear HH.

Lemma eqb_false_neq a b : (a =? b) = false -> a <> b.
Proof. apply N.eqb_neq. Qed.

(* ================================================================ Part A *)
(* the control characters (general category Cc), as a list: 0..31, 127..159 *)
Definition controls : list N := map N.of_nat (seq 0 32) ++ map N.of_nat (seq 127 33).

Lemma is_control_in c : is_control c = true -> In c controls.
Proof.
  unfold is_control. intros H. apply orb_true_iff in H as [H|H].
  - apply N.ltb_lt in H. unfold controls. apply in_or_app. left.
    apply in_map_iff. exists (N.to_nat c). split; [lia|]. apply in_seq. lia.
  - apply andb_true_iff in H as [H1 H2]. apply N.leb_le in H1, H2.
    unfold controls. apply in_or_app. right.
    apply in_map_iff. exists (N.to_nat c). split; [lia|]. apply in_seq. lia.
Qed.

(* char.rs:27-42: the seven named arms after the is_control test are unreachable,
   every one of those characters IS a control character *)
Lemma write_escaped_char_cases c :
  (c = 32 /\ write_escaped_char c = S_ "#\space") \/
  (c = 10 /\ write_escaped_char c = S_ "#\newline") \/
  (is_control c = true /\ c <> 10 /\ write_escaped_char c = [35; 92; 120] ++ show_hex c) \/
  (is_control c = false /\ c <> 32 /\ write_escaped_char c = [35; 92; c]).
Proof.
  unfold write_escaped_char.
  destruct (c =? 32) eqn:E32; [apply N.eqb_eq in E32; left; auto|].
  destruct (c =? 10) eqn:E10; [apply N.eqb_eq in E10; right; left; auto|].
  apply N.eqb_neq in E32, E10.
  destruct (is_control c) eqn:Ec; [right; right; left; auto|].
  right; right; right.
  assert (Hn : forall k, is_control k = true -> (c =? k) = false).
  { intros k Hk. apply N.eqb_neq. intros ->. congruence. }
  rewrite !Hn by reflexivity. auto.
Qed.

(* the hexadecimal spelling of a control character: lower-case hex digits, one or
   two of them, and u32::from_str_radix(_, 16) gives the character back.  Settled
   by computation over the 65 control characters. *)
Definition hex_ok (c : N) : bool :=
  let h := show_hex c in
  forallb is_hex h && forallb is_ascii_alnum h && negb (existsb (N.eqb 59) h)
  && match h with [] => false | _ => true end
  && match parse_hex_u32 h 0 with Some v => v =? c | None => false end
  && negb (match h with [_] => true | _ => false end && false)
  && is_scalar c.

Lemma controls_hex_ok : forallb hex_ok controls = true.
Proof. vm_compute. reflexivity. Qed.

Lemma control_hex c : is_control c = true ->
  forallb is_hex (show_hex c) = true /\ forallb is_ascii_alnum (show_hex c) = true /\
  show_hex c <> [] /\ parse_hex_u32 (show_hex c) 0 = Some c /\ is_scalar c = true.
Proof.
  intros H. apply is_control_in in H.
  pose proof (proj1 (forallb_forall _ _) controls_hex_ok c H) as Hk.
  unfold hex_ok in Hk. cbv zeta in Hk. rewrite !andb_true_iff in Hk.
  destruct Hk as ((((((H1 & H2) & _) & H4) & H5) & _) & H7).
  split; [exact H1|]. split; [exact H2|]. split; [|split; [|exact H7]].
  - intros E. rewrite E in H4. discriminate.
  - destruct (parse_hex_u32 (show_hex c) 0) as [v|]; [|discriminate].
    apply N.eqb_eq in H5. rewrite H5. reflexivity.
Qed.

(* named_to_char on a text that begins with 'x' and is not a name *)
Lemma named_x_hex h : h <> [] -> forallb is_hex h = true -> named_to_char (120 :: h) = None.
Proof.
  intros Hne Hh. unfold named_to_char.
  repeat match goal with
  | |- context [list_eq_dec N.eq_dec (120 :: h) ?s] =>
      destruct (list_eq_dec N.eq_dec (120 :: h) s) as [E|_]; [cbn in E; discriminate E|]
  end. reflexivity.
Qed.

(* the scanner on a character literal in context *)
Lemma lex1_char_alpha a body post : is_ascii_alpha a = true -> forallb is_ascii_alnum body = true ->
  delim post -> lex1 35 (92 :: a :: body ++ post) = STok TChar (35 :: 92 :: a :: body) post.
Proof.
  intros Ha Hb Hd. cbn -[span is_ascii_alpha]. rewrite Ha. cbn [negb].
  rewrite (span_app_all is_ascii_alnum body) by (auto using delim_not_alnum). reflexivity.
Qed.

Lemma lex1_char_other a post : is_ascii_alpha a = false ->
  lex1 35 (92 :: a :: post) = STok TChar [35; 92; a] post.
Proof. intros Ha. cbn -[span is_ascii_alpha]. rewrite Ha. reflexivity. Qed.

Lemma lex1_char c post : delim post ->
  exists body, write_escaped_char c = 35 :: 92 :: body /\
    lex1 35 (92 :: body ++ post) = STok TChar (write_escaped_char c) post.
Proof.
  intros Hd.
  destruct (write_escaped_char_cases c) as [[-> E]|[[-> E]|[(Hc & Hn & E)|(Hc & Hn & E)]]]; rewrite E.
  - exists [115; 112; 97; 99; 101]. split; [reflexivity|].
    apply (lex1_char_alpha 115 [112; 97; 99; 101]); auto.
  - exists [110; 101; 119; 108; 105; 110; 101]. split; [reflexivity|].
    apply (lex1_char_alpha 110 [101; 119; 108; 105; 110; 101]); auto.
  - destruct (control_hex c Hc) as (_ & Ha & _ & _ & _).
    exists (120 :: show_hex c). split; [reflexivity|].
    apply (lex1_char_alpha 120 (show_hex c)); auto.
  - exists [c]. split; [reflexivity|].
    destruct (is_ascii_alpha c) eqn:Ea.
    + apply (lex1_char_alpha c []); auto.
    + apply lex1_char_other; assumption.
Qed.

(* the literal decoder on what the printer wrote: every character comes back *)
Theorem parse_char_write c : parse_char (write_escaped_char c) = Ok (CChar c).
Proof.
  destruct (write_escaped_char_cases c) as [[-> E]|[[-> E]|[(Hc & Hn & E)|(Hc & Hn & E)]]]; rewrite E.
  - reflexivity.
  - reflexivity.
  - destruct (control_hex c Hc) as (Hh & _ & Hne & Hp & Hs).
    cbn [app parse_char]. destruct (show_hex c) as [|h0 h] eqn:Eh; [congruence|].
    destruct h as [|h1 h].
    + (* one digit: the body is "x" followed by one hex digit, two characters *)
      rewrite Hh, Hp, Hs. reflexivity.
    + rewrite Hh, Hp, Hs. reflexivity.
  - reflexivity.
Qed.

(* a text that is exactly one token *)
Lemma scan_one (c : N) (r : list N) ty : lex1 c r = STok ty (c :: r) [] ->
  scan (c :: r) = Ok [mk_token 0 (blen (c :: r)) ty].
Proof.
  intros H. unfold scan. cbn [length]. rewrite (scan_fuel_tok _ _ _ _ _ _ _ H).
  cbn [scan_fuel bind]. rewrite N.add_0_l. reflexivity.
Qed.

Lemma tok_span_whole t ty : tok_span t (mk_token 0 (blen t) ty) = Ok t.
Proof.
  unfold tok_span. cbn [t_start t_end].
  pose proof (slice_mid [] t []) as H. cbn [app blen] in H. rewrite app_nil_r, N.add_0_l in H. exact H.
Qed.

(* C10 (a): for EVERY code point c, the written form of the character c is read back
   as the character c, with nothing remaining *)
Theorem char_write_read c : parse_text (write (CChar c)) = Ok (CChar c, None).
Proof.
  change (write (CChar c)) with (write_escaped_char c).
  destruct (lex1_char c [] I) as (body & Eb & Hl). rewrite app_nil_r in Hl.
  pose proof (parse_char_write c) as Hp.
  rewrite Eb in Hl, Hp |- *. unfold parse_text. rewrite (scan_one _ _ _ Hl). cbn [bind parse_fuel length Nat.mul Nat.add parse t_ty]. rewrite tok_span_whole. cbn [bind]. rewrite Hp. reflexivity.
Qed.

(* ================================================================ Part B *)
(* cell.rs:437-458 by cases *)
Definition str_named : list (N * N) :=
  [(34, 34); (92, 92); (9, 116); (10, 110); (13, 114); (27, 101); (7, 97); (8, 98); (11, 118); (12, 102)].

Lemma write_string_char_cases c :
  (exists e, In (c, e) str_named /\ write_string_char c = [92; e]) \/
  (is_control c = true /\ c <> 34 /\ c <> 92 /\ write_string_char c = [92; 120] ++ show_hex c ++ [59]) \/
  (is_control c = false /\ c <> 34 /\ c <> 92 /\ write_string_char c = [c]).
Proof.
  unfold write_string_char.
  destruct (c =? 34) eqn:E1; [apply N.eqb_eq in E1; subst; left; exists 34; cbn; auto|].
  destruct (c =? 92) eqn:E2; [apply N.eqb_eq in E2; subst; left; exists 92; cbn; auto|].
  cbn [orb].
  destruct (c =? 9) eqn:E3; [apply N.eqb_eq in E3; subst; left; exists 116; cbn; auto 12|].
  destruct (c =? 10) eqn:E4; [apply N.eqb_eq in E4; subst; left; exists 110; cbn; auto 12|].
  destruct (c =? 13) eqn:E5; [apply N.eqb_eq in E5; subst; left; exists 114; cbn; auto 12|].
  destruct (c =? 27) eqn:E6; [apply N.eqb_eq in E6; subst; left; exists 101; cbn; auto 12|].
  destruct (c =? 7) eqn:E7; [apply N.eqb_eq in E7; subst; left; exists 97; cbn; auto 12|].
  destruct (c =? 8) eqn:E8; [apply N.eqb_eq in E8; subst; left; exists 98; cbn; auto 12|].
  destruct (c =? 11) eqn:E9; [apply N.eqb_eq in E9; subst; left; exists 118; cbn; auto 14|].
  destruct (c =? 12) eqn:E10; [apply N.eqb_eq in E10; subst; left; exists 102; cbn; auto 14|].
  apply N.eqb_neq in E1, E2.
  destruct (is_control c); [right; left; auto|right; right; auto].
Qed.

(* ---- the scanner: the written string is ONE String token *)
(* plain characters (neither the double quote nor the backslash) are passed over with the escape flag off *)
Lemma scan_string_plain l : forallb (fun c => negb (c =? 34) && negb (c =? 92)) l = true ->
  forall r a b, scan_string_rest r false = Some (a, b) ->
  scan_string_rest (l ++ r) false = Some (l ++ a, b).
Proof.
  induction l as [|c l IH]; intros Hl r a b Hr; [exact Hr|].
  cbn [forallb] in Hl. apply andb_true_iff in Hl as [Hc Hl]. apply andb_true_iff in Hc as [H1 H2].
  apply negb_true_iff in H1, H2.
  cbn [app scan_string_rest]. rewrite H1, H2. cbn [andb].
  rewrite (IH Hl r a b Hr). reflexivity.
Qed.

(* a backslash and the character after it *)
Lemma scan_string_esc e r a b : scan_string_rest r false = Some (a, b) ->
  scan_string_rest (92 :: e :: r) false = Some (92 :: e :: a, b).
Proof.
  intros Hr. cbn [scan_string_rest]. cbn [N.eqb Pos.eqb andb negb].
  replace ((e =? 34) && false) with false by (destruct (e =? 34); reflexivity).
  replace ((e =? 92) && false) with false by (destruct (e =? 92); reflexivity).
  rewrite Hr. reflexivity.
Qed.

Lemma is_hex_plain c : is_hex c = true -> negb (c =? 34) && negb (c =? 92) = true.
Proof.
  intros H. destruct (c =? 34) eqn:E1; [apply N.eqb_eq in E1; subst; discriminate|].
  destruct (c =? 92) eqn:E2; [apply N.eqb_eq in E2; subst; discriminate|]. reflexivity.
Qed.

Lemma scan_string_char c r a b : scan_string_rest r false = Some (a, b) ->
  scan_string_rest (write_string_char c ++ r) false = Some (write_string_char c ++ a, b).
Proof.
  intros Hr.
  destruct (write_string_char_cases c) as [(e & _ & ->)|[(Hc & H1 & H2 & ->)|(Hc & H1 & H2 & ->)]].
  - apply scan_string_esc; assumption.
  - destruct (control_hex c Hc) as (Hh & _).
    cbn [app]. apply scan_string_esc.
    rewrite <- !app_assoc. apply scan_string_plain.
    + apply forallb_forall. intros x Hx. apply is_hex_plain.
      exact (proj1 (forallb_forall _ _) Hh x Hx).
    + cbn [app]. change (59 :: r) with ([59] ++ r). apply (scan_string_plain [59]); [reflexivity|assumption].
  - apply (scan_string_plain [c]); [|assumption].
    cbn [forallb]. apply N.eqb_neq in H1, H2. rewrite H1, H2. reflexivity.
Qed.

Lemma scan_string_body s : forall post,
  scan_string_rest (flat_map write_string_char s ++ 34 :: post) false
  = Some (flat_map write_string_char s ++ [34], post).
Proof.
  induction s as [|c s IH]; intros post.
  - reflexivity.
  - cbn [flat_map]. rewrite <- !app_assoc. apply scan_string_char. apply IH.
Qed.

(* the scanner on a written string in context: whatever follows *)
Lemma lex1_string s post :
  lex1 34 (flat_map write_string_char s ++ 34 :: post)
  = STok TString (write (CStr s)) post.
Proof.
  cbn -[scan_string_rest flat_map]. rewrite scan_string_body.
  unfold write. cbn [show_cell app]. reflexivity.
Qed.

(* ---- the decoder: parse_string on the inner text gives the string back *)
Lemma parse_string_hex_app l : forall acc v rest, forallb is_hex l = true ->
  parse_hex_u32 l acc = Some v ->
  parse_string_hex (l ++ 59 :: rest) acc = Ok (v, 59 :: rest).
Proof.
  induction l as [|c l IH]; intros acc v rest Hh Hp.
  - cbn in Hp. injection Hp as <-. reflexivity.
  - cbn [forallb] in Hh. apply andb_true_iff in Hh as [Hc Hl].
    cbn [parse_hex_u32] in Hp. cbn [app parse_string_hex].
    assert (E59 : (c =? 59) = false).
    { destruct (c =? 59) eqn:E; [apply N.eqb_eq in E; subst; discriminate|reflexivity]. }
    rewrite E59, Hc.
    destruct (acc * 16 + hex_val c <? 4294967296) eqn:Elt; [|discriminate].
    apply N.ltb_lt in Elt.
    assert (E1 : (4294967295 <? acc * 16) = false) by (apply N.ltb_ge; lia).
    assert (E2 : (4294967295 <? acc * 16 + hex_val c) = false) by (apply N.ltb_ge; lia).
    rewrite E1, E2. apply IH; assumption.
Qed.

(* one written character is decoded to itself in ONE iteration of the loop *)
Lemma parse_string_char c : is_scalar c = true -> forall f rest acc,
  parse_string_fuel (S f) (write_string_char c ++ rest) acc = parse_string_fuel f rest (c :: acc).
Proof.
  intros Hs f rest acc.
  destruct (write_string_char_cases c) as [(e & Hin & ->)|[(Hc & H1 & H2 & ->)|(Hc & H1 & H2 & ->)]].
  - cbn [In str_named] in Hin.
    repeat (destruct Hin as [Hin|Hin]; [injection Hin as <- <-; reflexivity|]). contradiction.
  - destruct (control_hex c Hc) as (Hh & _ & Hne & Hp & _).
    cbn [app parse_string_fuel]. cbn [N.eqb Pos.eqb].
    rewrite <- app_assoc. cbn [app].
    nrw (parse_string_hex_app _ _ _ rest Hh Hp). cbn [bind]. rewrite Hs. reflexivity.
  - cbn [app parse_string_fuel].
    apply N.eqb_neq in H2. rewrite H2. reflexivity.
Qed.

Lemma write_string_char_nonempty c : (1 <= length (write_string_char c))%nat.
Proof.
  destruct (write_string_char_cases c) as [(e & _ & ->)|[(_ & _ & _ & ->)|(_ & _ & _ & ->)]];
    cbn [length app]; lia.
Qed.

Lemma parse_string_written s : Forall (fun c => is_scalar c = true) s -> forall fuel acc,
  (length (flat_map write_string_char s) <= fuel)%nat ->
  parse_string_fuel fuel (flat_map write_string_char s) acc = Ok (rev acc ++ s).
Proof.
  induction 1 as [|c s Hc Hs IH]; intros fuel acc Hf.
  - cbn [flat_map]. destruct fuel; cbn [parse_string_fuel]; rewrite app_nil_r; reflexivity.
  - cbn [flat_map] in *. rewrite app_length in Hf. pose proof (write_string_char_nonempty c).
    destruct fuel as [|f]; [lia|].
    rewrite parse_string_char by assumption. rewrite IH by lia.
    cbn [rev]. rewrite <- app_assoc. reflexivity.
Qed.

(* C10 (b), decoder: for every text s of scalar values, the inner text of the
   written string decodes to s *)
Theorem parse_string_write s : Forall (fun c => is_scalar c = true) s ->
  parse_string (flat_map write_string_char s) = Ok (CStr s).
Proof.
  intros Hs. unfold parse_string. rewrite (parse_string_written s Hs) by lia. reflexivity.
Qed.

Lemma removelast_snoc {A} (l : list A) x : removelast (l ++ [x]) = l.
Proof. apply removelast_last. Qed.

(* C10 (b): the written form of a string is one String token and reads back *)
Theorem string_write_read s : Forall (fun c => is_scalar c = true) s ->
  parse_text (write (CStr s)) = Ok (CStr s, None).
Proof.
  intros Hs. pose proof (lex1_string s []) as Hl.
  assert (Ew : write (CStr s) = 34 :: flat_map write_string_char s ++ [34]) by reflexivity.
  rewrite Ew in Hl |- *. unfold parse_text. rewrite (scan_one _ _ _ Hl).
  cbn [bind parse_fuel length Nat.mul Nat.add parse t_ty]. rewrite tok_span_whole. cbn [bind].
  destruct (flat_map write_string_char s ++ [34]) as [|x l] eqn:El.
  { destruct (flat_map write_string_char s); discriminate. }
  rewrite <- El, removelast_snoc, (parse_string_write s Hs). reflexivity.
Qed.

(* ================================================================ Part C *)
(* ---- a token that ends the text still ends where it did when a delimiter follows *)
Lemma delim_cases post : delim post -> post = [] \/ exists p, post = 32 :: p \/ post = 41 :: p.
Proof. destruct post as [|c p]; [auto|]. intros [-> | ->]; right; exists p; auto. Qed.

Lemma span_ext p (r : list N) : (p 32 = false) -> (p 41 = false) -> forall a, span p r = (a, []) ->
  forall post, delim post -> span p (r ++ post) = (r, post).
Proof.
  intros H32 H41. induction r as [|c r IH]; intros a H post Hd.
  - cbn [app]. destruct (delim_cases post Hd) as [->|(q & [-> | ->])]; cbn [span]; rewrite ?H32, ?H41; reflexivity.
  - cbn [span app] in *. destruct (p c).
    + destruct (span p r) as [a1 b1] eqn:E. injection H as <- ->. rewrite (IH _ eq_refl post Hd). reflexivity.
    + discriminate.
Qed.

Lemma scan_number_rest_ext (r : list N) : forall ty0 a ty, scan_number_rest r ty0 = (a, ty, []) ->
  forall post, delim post -> scan_number_rest (r ++ post) ty0 = (r, ty, post).
Proof.
  induction r as [|c r IH]; intros ty0 a ty H post Hd.
  - cbn in H. injection H as <- <-. cbn [app].
    destruct (delim_cases post Hd) as [->|(q & [-> | ->])]; reflexivity.
  - cbn [scan_number_rest app] in *. destruct (is_subsequent_number c).
    + destruct (scan_number_rest r ty0) as [[a1 t1] b1] eqn:E. injection H as <- <- ->.
      rewrite (IH _ _ _ E post Hd). reflexivity.
    + destruct (is_subsequent_identifier c && negb (c =? 59)).
      * destruct (scan_number_rest r TSymbol) as [[a1 t1] b1] eqn:E. injection H as <- <- ->.
        rewrite (IH _ _ _ E post Hd). reflexivity.
      * discriminate.
Qed.

Lemma scan_dot_rest_ext (r : list N) : forall ty0 a ty, scan_dot_rest r ty0 = (a, ty, []) ->
  forall post, delim post -> scan_dot_rest (r ++ post) ty0 = (r, ty, post).
Proof.
  induction r as [|c r IH]; intros ty0 a ty H post Hd.
  - cbn in H. injection H as <- <-. cbn [app].
    destruct (delim_cases post Hd) as [->|(q & [-> | ->])]; [reflexivity| |]; destruct ty0; reflexivity.
  - cbn [scan_dot_rest app] in *.
    match type of H with (if ?chk then _ else _) = _ => destruct chk end; [|discriminate].
    match type of H with context [scan_dot_rest r ?t] =>
      destruct (scan_dot_rest r t) as [[a1 t1] b1] eqn:E end.
    injection H as <- <- ->. rewrite (IH _ _ _ E post Hd). reflexivity.
Qed.

Lemma lex1_ext (c : N) (r : list N) ty : lex1 c r = STok ty (c :: r) [] -> (ty = TSymbol \/ ty = TNumber) ->
  forall post, delim post -> lex1 c (r ++ post) = STok ty (c :: r) post.
Proof.
  intros H Hty post Hd. unfold lex1 in *.
  assert (Hno : forall ty' a b, (ty' <> TSymbol /\ ty' <> TNumber) -> STok ty' a b = STok ty (c :: r) [] -> False).
  { intros ty' a b [N1 N2] E. injection E as -> _ _. destruct Hty; congruence. }
  destruct (mem c [40; 91; 123]); [exfalso; eapply Hno; [|exact H]; split; discriminate|].
  destruct (mem c [41; 93; 125]); [exfalso; eapply Hno; [|exact H]; split; discriminate|].
  destruct (c =? 39); [exfalso; eapply Hno; [|exact H]; split; discriminate|].
  destruct (c =? 96); [exfalso; eapply Hno; [|exact H]; split; discriminate|].
  destruct (c =? 44); [exfalso; eapply Hno; [|exact H]; split; discriminate|].
  destruct (c =? 35).
  { exfalso. destruct r as [|c2 r2]; [discriminate|].
    destruct (c2 =? 116); [eapply Hno; [|exact H]; split; discriminate|].
    destruct (c2 =? 102); [eapply Hno; [|exact H]; split; discriminate|].
    destruct (c2 =? 40); [eapply Hno; [|exact H]; split; discriminate|].
    destruct (mem c2 [101; 105; 98; 111; 100; 120]); [eapply Hno; [|exact H]; split; discriminate|].
    destruct (c2 =? 92); [|discriminate].
    destruct r2 as [|c3 r3]; [discriminate|].
    destruct (negb (is_ascii_alpha c3)); [eapply Hno; [|exact H]; split; discriminate|].
    destruct (span is_ascii_alnum r3); eapply Hno; [|exact H]; split; discriminate. }
  destruct (c =? 46).
  { destruct r as [|c2 r2].
    - exfalso. cbn in H. eapply Hno; [|exact H]; split; discriminate.
    - cbn [app].
      match type of H with context [scan_dot_rest (c2 :: r2) ?t] =>
        destruct (scan_dot_rest (c2 :: r2) t) as [[a1 t1] b1] eqn:E end.
      injection H as -> -> ->.
      change (c2 :: r2 ++ post) with ((c2 :: r2) ++ post).
      rewrite (scan_dot_rest_ext _ _ _ _ E post Hd). reflexivity. }
  destruct (c =? 34).
  { exfalso. destruct (scan_string_rest r false) as [[a1 b1]|]; [|discriminate].
    eapply Hno; [|exact H]; split; discriminate. }
  destruct (is_initial_identifier c).
  { destruct (span is_subsequent_identifier r) as [a1 b1] eqn:E. injection H as -> -> ->.
    rewrite (span_ext is_subsequent_identifier r eq_refl eq_refl _ E post Hd). reflexivity. }
  destruct (is_initial_number c).
  { destruct (scan_number_rest r TNumber) as [[a1 t1] b1] eqn:E. injection H as -> -> ->.
    rewrite (scan_number_rest_ext _ _ _ _ E post Hd). reflexivity. }
  destruct (c =? 59); [destruct (skip_comment r); discriminate|].
  destruct (is_ws_latin1 c); discriminate.
Qed.

(* ---- what the parser makes of ONE token of a leaf type whose text is [w] *)
Definition leaf_type (ty : ttype) : Prop :=
  ty = TTrue \/ ty = TFalse \/ ty = TChar \/ ty = TString \/ ty = TSymbol \/ ty = TNumber.

Definition leaf_parse (ty : ttype) (w : text) : out cell :=
  match ty with
  | TTrue => Ok (CBool true)
  | TFalse => Ok (CBool false)
  | TChar => parse_char w
  | TString => match w with [] | [_] => Panic 5 | _ :: body => parse_string (removelast body) end
  | TSymbol => Ok (CSym w)
  | TNumber => do n <- parse_with_exactness w Unspecified 10%Z;
               Ok (match n with Some n => CNum n | None => CSym w end)
  | _ => Err E_OTHER
  end.

Lemma parse_leaf f t k rest ty w : t_ty k = ty -> leaf_type ty -> tok_span t k = Ok w ->
  parse (S f) t (k :: rest) = (do a <- leaf_parse ty w; Ok (a, rest)).
Proof.
  intros Ek Hty Hs. cbn [parse]. rewrite Ek.
  destruct Hty as [-> | [-> | [-> | [-> | [-> | ->]]]]]; cbn [leaf_parse].
  - reflexivity.
  - reflexivity.
  - rewrite Hs. cbn [bind]. destruct (parse_char w); reflexivity.
  - rewrite Hs. cbn [bind]. destruct w as [|x [|y body]]; reflexivity.
  - rewrite Hs. reflexivity.
  - rewrite parse_number_leaf by (rewrite Ek; discriminate). rewrite Hs. cbn [bind].
    destruct (parse_with_exactness w Unspecified 10) as [[n|]| | |]; reflexivity.
Qed.

(* ---- atoms: [atom_ok a a']: the written form of [a] is one leaf token, also when a
   delimiter follows, and the parser makes [a'] of it *)
Definition atom_ok (a a' : cell) : Prop :=
  exists (c : N) (r : list N) ty, write a = c :: r /\ leaf_type ty /\
    (forall post, delim post -> lex1 c (r ++ post) = STok ty (c :: r) post) /\
    leaf_parse ty (c :: r) = Ok a'.

Theorem atom_parse_text a a' : atom_ok a a' -> parse_text (write a) = Ok (a', None).
Proof.
  intros (c & r & ty & Ew & Hty & Hlex & Hp). rewrite Ew.
  pose proof (Hlex [] I) as Hl. rewrite app_nil_r in Hl.
  unfold parse_text. nrw (scan_one _ _ _ Hl). cbn [bind]. unfold parse_fuel.
  nrw (parse_leaf (2 * length [mk_token 0 (blen (c :: r)) ty]) (c :: r) (mk_token 0 (blen (c :: r)) ty) [] ty (c :: r) eq_refl Hty (tok_span_whole _ _)).
  nrw Hp. reflexivity.
Qed.

Lemma atom_bool b : atom_ok (CBool b) (CBool b).
Proof.
  destruct b.
  - exists 35, [116], TTrue. split; [reflexivity|]. split; [left; reflexivity|]. split; [|reflexivity].
    intros post _. reflexivity.
  - exists 35, [102], TFalse. split; [reflexivity|]. split; [right; left; reflexivity|]. split; [|reflexivity].
    intros post _. reflexivity.
Qed.

Lemma atom_char c : atom_ok (CChar c) (CChar c).
Proof.
  destruct (lex1_char c [] I) as (body & Eb & _).
  exists 35, (92 :: body), TChar. split; [exact Eb|]. split; [right; right; left; reflexivity|]. split.
  - intros post Hd. destruct (lex1_char c post Hd) as (body' & Eb' & Hl).
    rewrite Eb in Eb'. injection Eb' as <-. rewrite Eb in Hl. exact Hl.
  - cbn [leaf_parse]. rewrite <- Eb. apply parse_char_write.
Qed.

Lemma atom_string s : Forall (fun c => is_scalar c = true) s -> atom_ok (CStr s) (CStr s).
Proof.
  intros Hs. exists 34, (flat_map write_string_char s ++ [34]), TString.
  split; [reflexivity|]. split; [right; right; right; left; reflexivity|]. split.
  - intros post _. rewrite <- app_assoc. cbn [app]. apply lex1_string.
  - cbn [leaf_parse].
    destruct (flat_map write_string_char s ++ [34]) as [|x l] eqn:El.
    { destruct (flat_map write_string_char s); discriminate. }
    rewrite <- El, removelast_snoc. apply parse_string_write, Hs.
Qed.

(* the reader's symbols (DESIGN C10): the spelling scans to one Symbol token, or to one
   Number token that fails the radix-10 parse *)
Definition reader_symbol (s : text) : Prop :=
  exists (c : N) (r : list N), s = c :: r /\
    (lex1 c r = STok TSymbol (c :: r) [] \/
     (lex1 c r = STok TNumber (c :: r) [] /\ parse_with_exactness (c :: r) Unspecified 10%Z = Ok None)).

Lemma atom_symbol s : reader_symbol s -> atom_ok (CSym s) (CSym s).
Proof.
  intros (c & r & -> & [H|[H Hp]]).
  - exists c, r, TSymbol. split; [reflexivity|]. split; [unfold leaf_type; tauto|]. split; [|reflexivity].
    intros post Hd. apply lex1_ext; auto.
  - exists c, r, TNumber. split; [reflexivity|]. split; [unfold leaf_type; tauto|]. split.
    + intros post Hd. apply lex1_ext; auto.
    + cbn [leaf_parse]. nrw Hp. reflexivity.
Qed.

(* exact numbers, through the C16 lemmas: the decimal text is one Number token and
   Number::parse gives the number back in its normal representation *)
Lemma num_display_exact n : exact_wf n -> num_display n = exact_text 10 n.
Proof. destruct n; cbn; intros; try reflexivity. contradiction. Qed.

Lemma decimal_head n : exact_wf n -> exists (c : N) (rest : list N),
  exact_text 10 n = c :: rest /\ lex1 c rest = STok TNumber (c :: rest) [].
Proof.
  intros Hwf.
  assert (Hr : is_prefix_radix 10) by (unfold is_prefix_radix; cbn; tauto).
  destruct (exact_text_shape 10 n Hr Hwf) as (c & rest & E & Hc & Hrest).
  exists c, rest. split; [exact E|].
  destruct (lex1_spelling c rest Hc Hrest) as (ty & Hlex & Hty).
  (* in radix 10 the first character is '-' or a decimal digit *)
  assert (Hdec : c = 45 \/ decdigit c).
  { destruct n as [z|z|a b|f]; cbn [exact_text exact_wf] in *; try contradiction.
    all: try (unfold ratio_fmt in E; destruct (b =? 1)%Z).
    all: match type of E with
         | show_int_radix 10 ?z = _ =>
             destruct (Z_lt_le_dec z 0) as [Hz|Hz];
             [rewrite show_int_radix_neg in E by assumption; injection E as <- _; left; reflexivity
             |rewrite show_int_radix_pos in E by assumption;
              destruct (show_nat_radix10_head z Hz) as (c' & l' & E' & Hd'); rewrite E' in E;
              injection E as <- _; right; exact Hd']
         | show_int_radix 10 ?z ++ _ = _ =>
             destruct (Z_lt_le_dec z 0) as [Hz|Hz];
             [rewrite show_int_radix_neg in E by assumption; injection E as <- _; left; reflexivity
             |rewrite show_int_radix_pos in E by assumption;
              destruct (show_nat_radix10_head z Hz) as (c' & l' & E' & Hd'); rewrite E' in E;
              injection E as <- _; right; exact Hd']
         end. }
  apply lex1_number; assumption.
Qed.

Lemma atom_exact n : exact_wf n -> atom_ok (CNum n) (CNum (reread n)).
Proof.
  intros Hwf. destruct (decimal_head n Hwf) as (c & rest & E & Hlex).
  exists c, rest, TNumber. split; [change (write (CNum n)) with (num_display n); rewrite num_display_exact by assumption; exact E|].
  split; [unfold leaf_type; tauto|]. split.
  - intros post Hd. apply lex1_ext; auto.
  - cbn [leaf_parse]. rewrite <- E. unfold parse_with_exactness, parse_with_exactness_p.
    rewrite number_parse_exact_text by (assumption || lia). reflexivity.
Qed.

(* finite doubles, RELATIVE to the three OPEN statements of C16 about the executable
   specification of std's float formatting and parsing (Props/C16.v) *)
Section FloatAtoms.
  Hypothesis std_roundtrip : forall x : f64, is_finite x = true -> dec2flt (num_display (Float x)) = Some x.
  Hypothesis display_point : forall x : f64, is_finite x = true ->
    f64_ltb F_1E10 x = false -> float_is_integer x = false -> In 46%N (fmt_display x).
  Hypothesis no_inner_minus : forall x : f64, is_finite x = true -> ~ In 45%N (tl (num_display (Float x))).

  Lemma atom_float x : is_finite x = true -> atom_ok (CNum (Float x)) (CNum (Float x)).
  Proof.
    intros Hf. destruct (float_spelling_one_token x Hf (no_inner_minus x Hf)) as (c & rest & E & Hlex).
    exists c, rest, TNumber. split; [exact E|]. split; [unfold leaf_type; tauto|]. split.
    - intros post Hd. apply lex1_ext; auto.
    - cbn [leaf_parse]. unfold cp, text in *. rewrite <- E. unfold parse_with_exactness, parse_with_exactness_p.
      rewrite number_parse_float_text by (apply num_display_float_text_ok; assumption).
      rewrite std_roundtrip by assumption. reflexivity.
  Qed.
End FloatAtoms.

(* ================================================================ hexadecimal *)
(* the general inverse behind the \x escapes: u32::from_str_radix(format!("{:x}", n), 16)
   = n for every n below 2^32 (the character and string theorems above use it on the 65
   control characters only, where it is also settled by computation) *)
Definition hex_value (l : list N) (acc : N) : N := fold_left (fun a c => a * 16 + hex_val c) l acc.

Lemma hex_digit_ok d : d < 16 -> hex_val (hex_digit d) = d /\ is_hex (hex_digit d) = true.
Proof.
  intros H.
  assert (Hall : forallb (fun k => (hex_val (hex_digit (N.of_nat k)) =? N.of_nat k) && is_hex (hex_digit (N.of_nat k)))
                   (seq 0 16) = true) by (vm_compute; reflexivity).
  rewrite forallb_forall in Hall. specialize (Hall (N.to_nat d)). rewrite N2Nat.id in Hall.
  assert (Hin : In (N.to_nat d) (seq 0 16)) by (apply in_seq; lia).
  apply Hall in Hin. apply andb_true_iff in Hin as [H1 H2]. apply N.eqb_eq in H1. auto.
Qed.

Lemma hex_value_app l1 l2 acc : hex_value (l1 ++ l2) acc = hex_value l2 (hex_value l1 acc).
Proof. unfold hex_value. apply fold_left_app. Qed.

Lemma land15 n : N.land n 15 = n mod 16.
Proof. change 15 with (N.ones 4). rewrite N.land_ones. reflexivity. Qed.
Lemma shiftr4 n : N.shiftr n 4 = n / 16.
Proof. rewrite N.shiftr_div_pow2. reflexivity. Qed.

Lemma show_hex_fuel_S f n acc : show_hex_fuel (S f) n acc =
  if n / 16 =? 0 then hex_digit (n mod 16) :: acc else show_hex_fuel f (n / 16) (hex_digit (n mod 16) :: acc).
Proof. cbn [show_hex_fuel]. rewrite land15, shiftr4. reflexivity. Qed.

Lemma show_hex_fuel_spec f : forall n acc, n < 16 ^ N.of_nat (S f) ->
  exists ds, show_hex_fuel (S f) n acc = ds ++ acc /\ forallb is_hex ds = true /\ ds <> [] /\
    forall a, hex_value ds a = a * 16 ^ N.of_nat (length ds) + n.
Proof.
  induction f as [|f IH]; intros n acc Hn; rewrite show_hex_fuel_S.
  - assert (Hq : n / 16 = 0) by (apply N.div_small; exact Hn). rewrite Hq. cbn [N.eqb].
    assert (Hm : n mod 16 = n) by (apply N.mod_small; exact Hn). rewrite Hm.
    destruct (hex_digit_ok n Hn) as [Hv Hh].
    exists [hex_digit n]. split; [reflexivity|]. split; [cbn; rewrite Hh; reflexivity|]. split; [discriminate|].
    intros a. cbn. rewrite Hv. lia.
  - pose proof (N.mod_lt n 16 ltac:(lia)) as Hd.
    destruct (hex_digit_ok (n mod 16) Hd) as [Hv Hh].
    destruct (n / 16 =? 0) eqn:Eq.
    + apply N.eqb_eq in Eq.
      exists [hex_digit (n mod 16)]. split; [reflexivity|]. split; [cbn; rewrite Hh; reflexivity|]. split; [discriminate|].
      intros a. cbn. rewrite Hv. pose proof (N.div_mod' n 16). lia.
    + assert (Hq : n / 16 < 16 ^ N.of_nat (S f)).
      { apply N.div_lt_upper_bound; [lia|]. rewrite <- N.pow_succ_r'. rewrite <- Nat2N.inj_succ. exact Hn. }
      destruct (IH (n / 16) (hex_digit (n mod 16) :: acc) Hq) as (ds & E & Hh' & Hne & Hval).
      exists (ds ++ [hex_digit (n mod 16)]). split.
      * rewrite E, <- app_assoc. reflexivity.
      * split; [rewrite forallb_app; apply andb_true_iff; split; [exact Hh'|cbn; rewrite Hh; reflexivity]|]. split; [destruct ds; discriminate|].
        intros a. rewrite hex_value_app, Hval. cbn. rewrite Hv. rewrite app_length. cbn [length].
        rewrite Nat.add_1_r, Nat2N.inj_succ, N.pow_succ_r'. pose proof (N.div_mod' n 16). lia.
Qed.

Lemma hex_value_ge l : forall acc, acc <= hex_value l acc.
Proof.
  induction l as [|c l IH]; intros acc; cbn; [lia|]. specialize (IH (acc * 16 + hex_val c)). unfold hex_value in IH. lia.
Qed.

Lemma parse_hex_value l : forall acc, hex_value l acc < 4294967296 -> parse_hex_u32 l acc = Some (hex_value l acc).
Proof.
  induction l as [|c l IH]; intros acc H; [reflexivity|]. cbn [parse_hex_u32].
  pose proof (hex_value_ge l (acc * 16 + hex_val c)) as Hge. cbn in H. fold (hex_value l (acc * 16 + hex_val c)) in H.
  assert (E : (acc * 16 + hex_val c <? 4294967296) = true) by (apply N.ltb_lt; lia).
  rewrite E. apply IH. exact H.
Qed.

(* u32::from_str_radix(format!("{:x}", n), 16) = n, for every n < 2^32 *)
Theorem show_hex_inverse n : n < 4294967296 ->
  parse_hex_u32 (show_hex n) 0 = Some n /\ forallb is_hex (show_hex n) = true /\ show_hex n <> [].
Proof.
  intros Hn. unfold show_hex.
  assert (Hlt : n < 16 ^ N.of_nat (S (N.to_nat (N.size n)))).
  { rewrite Nat2N.inj_succ, N2Nat.id. change 16 with (2 ^ 4). rewrite <- N.pow_mul_r.
    eapply N.lt_le_trans; [apply N.size_gt|]. apply N.pow_le_mono_r; lia. }
  destruct (show_hex_fuel_spec _ n [] Hlt) as (ds & E & Hh & Hne & Hval).
  rewrite E, app_nil_r. split; [|split; assumption].
  rewrite parse_hex_value; rewrite Hval; [f_equal; lia|lia].
Qed.

(* ---- the recorded defect class: a symbol that only the number-prefix path yields *)
Lemma prefix_path_symbol_witness :
  exists (t : text) (d : cell),
    parse_text t = Ok (d, None) /\ (exists s, d = CSym s /\ ~ reader_symbol s) /\
    parse_text (write d) <> Ok (d, None).
Proof.
  exists [35; 98; 49; 50], (CSym [49; 50]). split; [vm_compute; reflexivity|]. split.
  - exists [49; 50]. split; [reflexivity|].
    intros (c & r & E & [H|[H Hp]]); injection E as <- <-.
    + vm_compute in H. discriminate.
    + vm_compute in Hp. discriminate.
  - vm_compute. discriminate.
Qed.
