(* NoPanicFinal.v — C06: the VM-level theorems without the numeric premise (NoPanicNum.v), the
   witness of finding eval-object-in-constant, non-vacuity examples. *)
From Coq Require Import String Lia List.
From MW Require Import Model.Base Model.F64 Model.Num Model.Datum Model.Lex Model.Parse Model.TransformDef Model.Transform
  Model.VmTypes Model.Heap Model.Gc Model.VmBase Model.Compile Model.Vm Model.Builtins
  Proofs.SymtabProofs Proofs.FlatProofs Proofs.FlatAll Proofs.KeepCalc Proofs.BootMinv
  Proofs.NoPanicBase Proofs.NoPanicPkg Proofs.NoPanicNum Proofs.NoPanicAll.
Open Scope N_scope.

Theorem builtin_no_vm_panic_u : forall b s, wfm s ->
  match other_builtin b s with
  | ROk v s' => wfm s' /\ vwf s' v
  | RErr _ _ s' => wfm s'
  | RPanic k => xsiteb k = false
  | RNoFuel => True
  end.
Proof. exact (builtin_no_vm_panic num_panics_ok_holds). Qed.

Theorem eval_vm_outcome_u : forall fuel e s, wfm s -> finv s -> J s ->
  match eval other_builtin fuel e s with
  | ROk _ s' => wfm s' /\ finv s' /\ J s'
  | RErr _ _ s' => wfm s' /\ finv s' /\ J s'
  | RPanic k => xsiteb k = false
  | RNoFuel => True
  end.
Proof.
  intros fuel e s W F Hj. pose proof (eval_vm_outcome num_panics_ok_holds fuel e s W F Hj) as H.
  destruct (eval other_builtin fuel e s); exact H.
Qed.

Theorem boot_invariant_u : forall prelude s0 s, boot_with prelude = Some s0 -> evals s0 s -> wfm s /\ finv s /\ J s.
Proof. exact (boot_invariant num_panics_ok_holds). Qed.

Theorem eval_no_vm_panic_u : forall prelude s0 s fuel e k,
  boot_with prelude = Some s0 -> evals s0 s -> eval other_builtin fuel e s = RPanic k ->
  k <> 11 /\ k <> 13 /\ k <> 41 /\ k <> 42 /\ k <> 43 /\ k <> 45 /\ k <> 46 /\ k <> 47 /\ k <> 48 /\ k <> 49 /\ k <> 50 /\ k <> 51.
Proof. exact (eval_no_vm_panic_plain num_panics_ok_holds). Qed.

Theorem eval_no_vm_panic_booted : forall s0 s fuel e k,
  booted = Some s0 -> evals s0 s -> eval other_builtin fuel e s = RPanic k ->
  k <> 11 /\ k <> 13 /\ k <> 41 /\ k <> 42 /\ k <> 43 /\ k <> 45 /\ k <> 46 /\ k <> 47 /\ k <> 48 /\ k <> 49 /\ k <> 50 /\ k <> 51.
Proof. unfold booted. intros s0 s fuel e k. apply eval_no_vm_panic_u. Qed.

(* ------------------------------------------------------------------ finding: site 12 *)
Definition obj_witness_text : text := S_ "(eval (cons 'quote (cons car '())))"%string.
Definition ok_example_text : text := S_ "(call/cc (lambda (k) (k ((lambda (f . r) (apply f r)) car '(1 2)))))"%string.

Fixpoint datum_has_object (c : cell) : bool :=
  match c with
  | CProc _ | CCont | CMacro => true
  | CPair a d => datum_has_object a || datum_has_object d
  | CVec l => existsb datum_has_object l
  | _ => false
  end.

Definition run_text (t : text) (fuel : nat) : option (res run_result) :=
  match boot_with [] with
  | Some s => match parse_text t with Ok (d, _) => Some (eval other_builtin fuel d s) | _ => None end
  | None => None
  end.

Lemma obj_witness_run : run_text obj_witness_text 200 = Some (RPanic 12).
Proof. vm_compute. reflexivity. Qed.

(* the witness: on the machine with all builtins loaded, the text parses to ONE datum that contains no
   procedure object itself (the object is created at run time by `car`'s global binding), and its
   evaluation panics at site 12 *)
Theorem refuted_eval_object_in_constant :
  run_text obj_witness_text 200 = Some (RPanic 12) /\
  match parse_text obj_witness_text with Ok (d, None) => datum_has_object d = false | _ => False end.
Proof. split; vm_compute; reflexivity. Qed.

(* non-vacuity: a program using a variadic closure, apply, call/cc and a builtin passed as a value runs
   to a value from the same machine; the theorems above apply to it *)
Lemma ok_example_run : match run_text ok_example_text 400 with Some (ROk (Done _) _) => True | _ => False end.
Proof. vm_compute. exact I. Qed.
