(* NoPanicFinal.v — C06: the VM-level theorems without the numeric premise (NoPanicNum.v), the
   repair of the findings eval-object-in-constant and eval-object-as-define-name (site 12 is in the
   excluded set now; their former witnesses are errors), non-vacuity examples. *)
From Coq Require Import String Lia List.
From MW Require Import Model.Base Model.F64 Model.Num Model.Datum Model.Lex Model.Parse Model.TransformDef Model.Transform
  Model.VmTypes Model.Heap Model.Gc Model.VmBase Model.Compile Model.Vm Model.Builtins
  Proofs.SymtabProofs Proofs.FlatProofs Proofs.FlatAll Proofs.KeepCalc Proofs.BootMinv
  Proofs.QuoteHeapProofs Proofs.NoPanicBase Proofs.NoPanicPkg Proofs.NoPanicNum Proofs.NoPanicAll.
Open Scope N_scope.

Theorem builtin_no_vm_panic_u : forall b s, wfm s ->
  match other_builtin b s with
  | ROk v s' => wfm s' /\ vwf s' v
  | RErr _ _ s' => wfm s'
  | RPanic k => xsiteb k = false
  | RNoFuel => True
  end.
Proof. exact (builtin_no_vm_panic num_panics_ok_holds). Qed.

Theorem eval_vm_outcome_u : forall fuel e s, wfm s -> finv s -> J s ->
  match eval other_builtin fuel e s with
  | ROk _ s' => wfm s' /\ finv s' /\ J s'
  | RErr _ _ s' => wfm s' /\ finv s' /\ J s'
  | RPanic k => xsiteb k = false
  | RNoFuel => True
  end.
Proof.
  intros fuel e s W F Hj. pose proof (eval_vm_outcome num_panics_ok_holds fuel e s W F Hj) as H.
  destruct (eval other_builtin fuel e s); exact H.
Qed.

Theorem boot_invariant_u : forall prelude s0 s, boot_with prelude = Some s0 -> evals s0 s -> wfm s /\ finv s /\ J s.
Proof. exact (boot_invariant num_panics_ok_holds). Qed.

Theorem eval_no_vm_panic_u : forall prelude s0 s fuel e k,
  boot_with prelude = Some s0 -> evals s0 s -> eval other_builtin fuel e s = RPanic k ->
  k <> 11 /\ k <> 12 /\ k <> 13 /\ k <> 41 /\ k <> 42 /\ k <> 43 /\ k <> 45 /\ k <> 46 /\ k <> 47 /\ k <> 48 /\ k <> 49 /\ k <> 50 /\ k <> 51.
Proof. exact (eval_no_vm_panic_plain num_panics_ok_holds). Qed.

Theorem eval_no_vm_panic_booted : forall s0 s fuel e k,
  booted = Some s0 -> evals s0 s -> eval other_builtin fuel e s = RPanic k ->
  k <> 11 /\ k <> 12 /\ k <> 13 /\ k <> 41 /\ k <> 42 /\ k <> 43 /\ k <> 45 /\ k <> 46 /\ k <> 47 /\ k <> 48 /\ k <> 49 /\ k <> 50 /\ k <> 51.
Proof. unfold booted. intros s0 s fuel e k. apply eval_no_vm_panic_u. Qed.

(* ------------------------------------------------------------------ site 12 *)
Definition ok_example_text : text := S_ "(call/cc (lambda (k) (k ((lambda (f . r) (apply f r)) car '(1 2)))))"%string.

(* the data Heap::put_cell rejects (the complement of compile.rs is_datum = [cell_is_datum]) *)
Fixpoint datum_has_object (c : cell) : bool :=
  match c with
  | CProc _ | CCont | CMacro => true
  | CPair a d => datum_has_object a || datum_has_object d
  | CVec l => existsb datum_has_object l
  | _ => false
  end.

(* [run_text t fuel]: parse t, evaluate its datum on boot_with [] (all builtins, no prelude);
   [run_text_booted]: the same on [booted] (with the prelude: list, call/cc as a value, ...) *)
Definition run_on (b : option vm) (t : text) (fuel : nat) : option (res run_result) :=
  match b with
  | Some s => match parse_text t with Ok (d, _) => Some (eval other_builtin fuel d s) | _ => None end
  | None => None
  end.
Definition run_text (t : text) (fuel : nat) : option (res run_result) := run_on (boot_with []) t fuel.
Definition run_text_booted (t : text) (fuel : nat) : option (res run_result) := run_on booted t fuel.
Definition is_error (o : option (res run_result)) : bool :=
  match o with Some (ROk (Failed _ _ _) _) => true | _ => false end.

(* -- finding eval-object-in-constant, REPAIRED (compile.rs is_datum, Model/Compile.v cell_is_datum):
   Heap::maybe_put_cell of a datum that passes the test can only panic at site 11 (excluded by wfm) *)
Lemma maybe_put_cell_datum_panic c : forall h s k,
  cell_is_datum c = true -> maybe_put_cell h s c = Panic k -> k = 11.
Proof.
  induction c as [c Hnp Hnv|ca cd IHa IHd|l HF] using cell_ind2; intros h s k D E.
  - destruct c; cbn [maybe_put_cell cell_is_datum] in *; try discriminate.
    + exfalso. now apply (Hnp c1 c2).
    + destruct (new_str s s0) as [sid s1]. destruct (heap_put h (VStr sid)). discriminate.
    + destruct (heap_put h (VSym s0)). discriminate.
    + exfalso. now apply (Hnv l).
  - cbn [cell_is_datum] in D. apply andb_prop in D. destruct D as [Da Dd].
    cbn [maybe_put_cell] in E.
    destruct (maybe_put_cell h s ca) as [[[va h1] s1]| |ka|] eqn:Ea; cbn [bind] in E; try discriminate.
    2:{ injection E as <-. exact (IHa h s ka Da Ea). }
    destruct (match va with VPtr _ => (va, h1) | _ => heap_put h1 va end) as [pa h2].
    destruct (maybe_put_cell h2 s1 cd) as [[[vd h3] s3]| |kd|] eqn:Ed; cbn [bind] in E; try discriminate.
    2:{ injection E as <-. exact (IHd h2 s1 kd Dd Ed). }
    destruct (match vd with VPtr _ => (vd, h3) | _ => heap_put h3 vd end) as [pd h4].
    destruct pa; try (injection E as <-; reflexivity).
    destruct pd; try (injection E as <-; reflexivity).
    destruct (heap_put h4 (VPair p p0)). discriminate.
  - cbn [cell_is_datum] in D. cbn [maybe_put_cell] in E.
    set (elems := fix elems (h : heap) (s : store) (l : list cell) (acc : list vcell) {struct l} :
                    out (list vcell * heap * store) :=
                    match l with
                    | [] => Ok (rev acc, h, s)
                    | x :: r => do (v, h1, s1) <- maybe_put_cell h s x; elems h1 s1 r (v :: acc)
                    end) in E.
    assert (HE : forall l0, Forall (fun c => forall h s k, cell_is_datum c = true ->
                                             maybe_put_cell h s c = Panic k -> k = 11) l0 ->
               forallb cell_is_datum l0 = true ->
               forall h s acc k, elems h s l0 acc = Panic k -> k = 11).
    { induction l0 as [|x r IHr]; intros Fa Db h0 s0 acc k0 E0; cbn [elems] in E0; [discriminate|].
      inversion Fa as [|x0 r0 Hx Hr]; subst. cbn [forallb] in Db. apply andb_prop in Db. destruct Db as [Dx Dr].
      destruct (maybe_put_cell h0 s0 x) as [[[vx hx] sx]| |kx|] eqn:Ex; cbn [bind] in E0; try discriminate.
      - exact (IHr Hr Dr hx sx (vx :: acc) k0 E0).
      - injection E0 as <-. exact (Hx h0 s0 kx Dx Ex). }
    destruct (elems h s l []) as [[[vs h1] s1]| |kv|] eqn:Ev; cbn [bind] in E; try discriminate.
    + destruct (new_vec s1 vs) as [vid s2]. destruct (heap_put h1 (VVec vid)). discriminate.
    + injection E as <-. exact (HE l HF D h s [] kv Ev).
Qed.

(* the constant of ANY (quote d) form, d any cell: the compiler does not reach site 12 *)
Theorem quote_constant_panic f l tail d s k :
  compile_expression (S f) l tail (quote_of d) s = RPanic k -> k = 11.
Proof.
  change (compile_expression (S f) l tail (quote_of d)) with
    (if negb (cell_is_datum d) then fail E_OTHER else
     dom v <- maybe_put_cell_m d; ret (emit (emit (emit_op l OMovImmediate) v) VAcc)).
  destruct (cell_is_datum d) eqn:D; cbn [negb]; [|discriminate].
  unfold bindM, maybe_put_cell_m.
  destruct (maybe_put_cell (hp s) (st s) d) as [[[v h] x]| |k0|] eqn:E; try discriminate.
  intros H. injection H as <-. exact (maybe_put_cell_datum_panic d _ _ _ D E).
Qed.

(* the former witnesses: (eval (cons 'quote (cons car '()))) on boot_with [], and on [booted] the five
   shapes of the finding: quote / vector literal / quasiquote of a procedure, a continuation, a macro *)
Definition obj_witness_text : text := S_ "(eval (cons 'quote (cons car '())))"%string.
Definition obj_witness_texts : list text :=
  [S_ "(eval (list 'quote car))"; S_ "(eval (vector 1 car))"; S_ "(eval (list 'quasiquote (list 1 car)))";
   S_ "(eval (list 'quote (call/cc (lambda (k) k))))"; S_ "(eval (list 'quote and))"]%string.

Theorem repaired_eval_object_in_constant :
  is_error (run_text obj_witness_text 200) = true /\
  forallb (fun t => is_error (run_text_booted t 2000)) obj_witness_texts = true /\
  match parse_text obj_witness_text with Ok (d, None) => datum_has_object d = false | _ => False end.
Proof. split; [|split]; vm_compute; reflexivity. Qed.

(* -- finding eval-object-as-define-name, REPAIRED (compile.rs compile_define tests is_symbol): compile_define
   took the car of the head of (define (name . formals) body) as the symbol WITHOUT testing that it is a
   symbol and handed it to Heap::put_cell: a procedure / continuation / macro object there panicked at
   site 12.  The witness text parses to ONE datum without any object; the object is made at run time *)
Definition defname_witness_text : text := S_ "(eval (cons 'define (cons (cons car '()) '(1))))"%string.
Definition defname_witness_texts : list text :=
  [S_ "(eval (list 'define (list car 'x) 1))"; S_ "(eval (list 'define (list (call/cc (lambda (k) k)) 'x) 1))";
   S_ "(eval (list 'define (list and 'x) 1))"; S_ "(define (1 x) 1)"]%string.

Theorem repaired_eval_object_as_define_name :
  is_error (run_text defname_witness_text 200) = true /\
  forallb (fun t => is_error (run_text_booted t 2000)) defname_witness_texts = true /\
  match parse_text defname_witness_text with Ok (d, None) => datum_has_object d = false | _ => False end.
Proof. split; [|split]; vm_compute; reflexivity. Qed.

(* non-vacuity: a program using a variadic closure, apply, call/cc and a builtin passed as a value runs
   to a value from the same machine; the theorems above apply to it *)
Lemma ok_example_run : match run_text ok_example_text 400 with Some (ROk (Done _) _) => True | _ => False end.
Proof. vm_compute. exact I. Qed.
