(* NumFmtProofs.v — exact numbers survive number->string / string->number
   (C16 exact_roundtrip) *)
From Coq Require Import ZArith List Bool Lia.
From MW Require Import Model.Base Model.F64 Model.Num Model.Digits Model.F64Fmt Model.NumFmt
  Model.Datum Model.NumProc Proofs.DigitsProofs.
Open Scope Z_scope.

(* ------------------------------------------------------------ characters *)
Lemma digit_char_neqb c x : is_digit_char c ->
  (x < 48 \/ (57 < x /\ x < 97) \/ 122 < x)%N -> (c =? x)%N = false.
Proof.
  intros (d & Hd & ->) Hx. pose proof (digit_char_range d Hd) as H. cbv zeta in H.
  apply N.eqb_neq. lia.
Qed.

Lemma to_digit_slash r : to_digit r 47%N = None.
Proof. reflexivity. Qed.

Lemma digits_value_none r c l : In c l -> to_digit r c = None -> forall acc, digits_value r l acc = None.
Proof.
  intros Hin Hc. induction l as [|x l IH]; intros acc. inversion Hin.
  cbn [digits_value]. destruct Hin as [->|Hin]. now rewrite Hc.
  destruct (to_digit r x); [apply IH; assumption|reflexivity].
Qed.

Lemma big_digits_none r c l : In c l -> to_digit r c = None -> (c =? 95)%N = false ->
  forall acc, big_digits r l acc = None.
Proof.
  intros Hin Hc H95. induction l as [|x l IH]; intros acc. inversion Hin.
  cbn [big_digits]. destruct Hin as [->|Hin]. now rewrite H95, Hc.
  destruct (x =? 95)%N. apply IH; assumption.
  destruct (to_digit r x); [apply IH; assumption|reflexivity].
Qed.

Lemma big_digits_digits r l : Forall is_digit_char l -> forall acc, big_digits r l acc = digits_value r l acc.
Proof.
  induction 1 as [|c l Hc _ IH]; intros acc. reflexivity.
  cbn [big_digits digits_value]. rewrite (digit_char_neqb c 95%N Hc) by lia.
  destruct (to_digit r c); [apply IH|reflexivity].
Qed.

(* -------------------------------------------------- shape of a rendering *)
Lemma show_nat_radix_cons r n : 2 <= r <= 36 -> 0 <= n ->
  exists c l, show_nat_radix r n = c :: l /\ is_digit_char c /\ Forall is_digit_char l.
Proof.
  intros Hr Hn. pose proof (show_nat_radix_chars r n Hr Hn) as Hc.
  pose proof (show_nat_radix_nonempty r n ltac:(lia) Hn) as Hne.
  destruct (show_nat_radix r n) as [|c l]; [congruence|].
  inversion Hc; subst. exists c, l. auto.
Qed.

Lemma show_int_radix_neg r z : z < 0 -> show_int_radix r z = 45%N :: show_nat_radix r (- z).
Proof. intros H. unfold show_int_radix. apply Z.ltb_lt in H. now rewrite H. Qed.
Lemma show_int_radix_pos r z : 0 <= z -> show_int_radix r z = show_nat_radix r z.
Proof. intros H. unfold show_int_radix. apply Z.ltb_ge in H. now rewrite H. Qed.

(* every character of a signed rendering is a digit or '-' *)
Lemma show_int_radix_chars r z : 2 <= r <= 36 ->
  Forall (fun c => is_digit_char c \/ c = 45%N) (show_int_radix r z).
Proof.
  intros Hr. destruct (Z_lt_le_dec z 0) as [Hz|Hz].
  - rewrite show_int_radix_neg by assumption. constructor. now right.
    eapply Forall_impl; [|apply show_nat_radix_chars; lia]. now left.
  - rewrite show_int_radix_pos by assumption.
    eapply Forall_impl; [|apply show_nat_radix_chars; lia]. now left.
Qed.

Lemma show_int_radix_no_slash r z : 2 <= r <= 36 -> ~ In 47%N (show_int_radix r z).
Proof.
  intros Hr Hin. pose proof (show_int_radix_chars r z Hr) as H.
  rewrite Forall_forall in H. destruct (H _ Hin) as [Hd|Hd]; [|discriminate].
  pose proof (digit_char_neqb 47%N 47%N Hd ltac:(lia)) as E. now rewrite N.eqb_refl in E.
Qed.

(* --------------------------------------------- reading a rendering back *)
Lemma int_from_str_show lo hi r z : 2 <= r <= 36 -> lo <= z <= hi ->
  int_from_str_radix lo hi (show_int_radix r z) r = Some z.
Proof.
  intros Hr Hz. unfold int_from_str_radix.
  assert (Hchk : (lo <=? z) && (z <=? hi) = true)
    by (apply andb_true_intro; split; apply Z.leb_le; lia).
  destruct (Z_lt_le_dec z 0) as [Hn|Hn].
  - rewrite show_int_radix_neg by assumption.
    destruct (show_nat_radix_cons r (- z) Hr ltac:(lia)) as (c & l & E & _ & _).
    cbn [N.eqb Pos.eqb orb]. rewrite E, <- E.
    rewrite digits_value_show by lia. cbn [option_map]. rewrite Z.opp_involutive, Hchk. reflexivity.
  - rewrite show_int_radix_pos by assumption.
    destruct (show_nat_radix_cons r z Hr Hn) as (c & l & E & Hc & _).
    rewrite E. rewrite (digit_char_neqb c 43%N Hc), (digit_char_neqb c 45%N Hc) by lia. cbn [orb].
    rewrite <- E, digits_value_show by lia. now rewrite Hchk.
Qed.

Lemma int_from_str_out_of_range lo hi r z : 2 <= r <= 36 -> ~ (lo <= z <= hi) ->
  int_from_str_radix lo hi (show_int_radix r z) r = None.
Proof.
  intros Hr Hz. unfold int_from_str_radix.
  assert (Hchk : (lo <=? z) && (z <=? hi) = false).
  { destruct (lo <=? z) eqn:A; [|reflexivity]. destruct (z <=? hi) eqn:B; [|reflexivity].
    apply Z.leb_le in A, B. lia. }
  destruct (Z_lt_le_dec z 0) as [Hn|Hn].
  - rewrite show_int_radix_neg by assumption.
    destruct (show_nat_radix_cons r (- z) Hr ltac:(lia)) as (c & l & E & _ & _).
    cbn [N.eqb Pos.eqb orb]. rewrite E, <- E.
    rewrite digits_value_show by lia. cbn [option_map]. rewrite Z.opp_involutive, Hchk. reflexivity.
  - rewrite show_int_radix_pos by assumption.
    destruct (show_nat_radix_cons r z Hr Hn) as (c & l & E & Hc & _).
    rewrite E. rewrite (digit_char_neqb c 43%N Hc), (digit_char_neqb c 45%N Hc) by lia. cbn [orb].
    rewrite <- E, digits_value_show by lia. now rewrite Hchk.
Qed.

Lemma biguint_from_str_show r n : 2 <= r <= 36 -> 0 <= n ->
  biguint_from_str_radix (show_nat_radix r n) r = Some n.
Proof.
  intros Hr Hn. unfold biguint_from_str_radix.
  destruct (show_nat_radix_cons r n Hr Hn) as (c & l & E & Hc & Hl).
  rewrite E. unfold strip_plus. rewrite (digit_char_neqb c 43%N Hc), (digit_char_neqb c 95%N Hc) by lia.
  rewrite big_digits_digits by (constructor; assumption).
  rewrite <- E. apply digits_value_show; lia.
Qed.

Lemma bigint_from_str_show r z : 2 <= r <= 36 ->
  bigint_from_str_radix (show_int_radix r z) r = Some z.
Proof.
  intros Hr. unfold bigint_from_str_radix.
  destruct (Z_lt_le_dec z 0) as [Hn|Hn].
  - rewrite show_int_radix_neg by assumption. cbn [N.eqb Pos.eqb].
    destruct (show_nat_radix_cons r (- z) Hr ltac:(lia)) as (c & l & E & Hc & _).
    rewrite E. rewrite (digit_char_neqb c 43%N Hc) by lia. rewrite <- E.
    rewrite biguint_from_str_show by lia. cbn [option_map]. now rewrite Z.opp_involutive.
  - rewrite show_int_radix_pos by assumption.
    destruct (show_nat_radix_cons r z Hr Hn) as (c & l & E & Hc & _).
    rewrite E. rewrite (digit_char_neqb c 45%N Hc) by lia. rewrite <- E.
    apply biguint_from_str_show; assumption.
Qed.

(* a text containing '/' is neither an i64/i32 nor a big integer *)
Lemma int_from_str_slash lo hi r t : In 47%N t -> int_from_str_radix lo hi t r = None.
Proof.
  intros Hin. unfold int_from_str_radix. destruct t as [|c t']. inversion Hin.
  destruct ((c =? 43) || (c =? 45))%N eqn:E.
  - assert (Hin' : In 47%N t').
    { destruct Hin as [->|H]; [discriminate|assumption]. }
    destruct t' as [|c2 t'']. inversion Hin'.
    rewrite (digits_value_none r 47%N (c2 :: t'') Hin' (to_digit_slash r)).
    destruct (c =? 45)%N; reflexivity.
  - now rewrite (digits_value_none r 47%N (c :: t') Hin (to_digit_slash r)).
Qed.

Lemma biguint_from_str_slash r t : In 47%N t -> biguint_from_str_radix t r = None.
Proof.
  intros Hin. unfold biguint_from_str_radix.
  assert (Hs : In 47%N (strip_plus t)).
  { unfold strip_plus. destruct t as [|c tail]; [assumption|].
    destruct (c =? 43)%N eqn:E; [|assumption].
    apply N.eqb_eq in E. subst c.
    destruct Hin as [H|H]; [discriminate|].
    destruct tail as [|c2 tl]; [assumption|]. destruct (c2 =? 43)%N; [now right|assumption]. }
  destruct (strip_plus t) as [|c s'] eqn:Es. inversion Hs.
  destruct (c =? 95)%N; [reflexivity|].
  apply (big_digits_none r 47%N); [assumption|apply to_digit_slash|reflexivity].
Qed.

Lemma bigint_from_str_slash r t : In 47%N t -> bigint_from_str_radix t r = None.
Proof.
  intros Hin. unfold bigint_from_str_radix. destruct t as [|c tail]. inversion Hin.
  destruct (c =? 45)%N eqn:E.
  - apply N.eqb_eq in E. subst c. destruct Hin as [H|H]; [discriminate|].
    destruct tail as [|c2 tl]. inversion H.
    destruct (c2 =? 43)%N; rewrite biguint_from_str_slash; try reflexivity; [now right|assumption].
  - now apply biguint_from_str_slash.
Qed.

Lemma split_slash_app a b : ~ In 47%N a -> split_slash (a ++ 47%N :: b) = Some (a, b).
Proof.
  induction a as [|c a IH]; intros Hn. reflexivity.
  cbn [app split_slash]. destruct (c =? 47)%N eqn:E.
  - apply N.eqb_eq in E. subst. exfalso. apply Hn. now left.
  - rewrite IH. reflexivity. intros H. apply Hn. now right.
Qed.

(* ------------------------------------------------------ exact numbers *)
Definition in_i64_prop z : in_i64 z = true <-> I64_MIN <= z <= I64_MAX.
Proof. unfold in_i64. rewrite andb_true_iff, !Z.leb_le. tauto. Qed.
Definition in_i32_prop z : in_i32 z = true <-> I32_MIN <= z <= I32_MAX.
Proof. unfold in_i32. rewrite andb_true_iff, !Z.leb_le. tauto. Qed.

(* the representation invariants of an exact Number *)
Definition exact_wf (n : num) : Prop :=
  match n with
  | Fixnum z => in_i64 z = true
  | BigInt _ => True
  | Rational a b => in_i32 a = true /\ in_i32 b = true /\ 0 < b /\ Z.gcd a b = 1
  | Float _ => False
  end.

(* what reading the printed form back yields: the same number in its normal
   representation (a small bignum comes back as a fixnum, n/1 as n) *)
Definition reread (n : num) : num :=
  match n with
  | Fixnum z => Fixnum z
  | BigInt z => if in_i64 z then Fixnum z else BigInt z
  | Rational a b => if b =? 1 then Fixnum a else Rational a b
  | Float f => Float f
  end.

(* numerator and denominator of an exact number *)
Definition num_numer (n : num) : Z :=
  match n with Fixnum z | BigInt z => z | Rational a _ => a | Float _ => 0 end.
Definition num_denom (n : num) : Z :=
  match n with Fixnum _ | BigInt _ => 1 | Rational _ b => b | Float _ => 0 end.
Definition num_is_exact (n : num) : bool := match n with Float _ => false | _ => true end.

Lemma reread_same_value n : exact_wf n ->
  num_is_exact (reread n) = true /\
  num_numer (reread n) * num_denom n = num_numer n * num_denom (reread n) /\
  0 < num_denom (reread n).
Proof.
  destruct n as [z|z|a b|f]; cbn [exact_wf reread]; intros H.
  - cbn. lia.
  - destruct (in_i64 z); cbn; lia.
  - destruct (b =? 1) eqn:E; cbn. apply Z.eqb_eq in E. subst. lia. lia.
  - contradiction.
Qed.

(* the text of an exact number in a radix *)
Definition exact_text (r : Z) (n : num) : text :=
  match n with
  | Fixnum z | BigInt z => show_int_radix r z
  | Rational a b => ratio_fmt r a b
  | Float _ => []
  end.

Lemma number_to_text_exact r n : In r [2; 8; 10; 16] -> num_is_exact n = true ->
  number_to_text r n = Ok (exact_text r n).
Proof.
  intros Hr Hn. unfold number_to_text.
  destruct n as [z|z|a b|f]; [| | |discriminate];
  cbn in Hr; destruct Hr as [<-|[<-|[<-|[<-|[]]]]]; reflexivity.
Qed.

Lemma parse_rational_no_slash p t r : ~ In 47%N t -> parse_rational p t r = Ok None.
Proof.
  intros Hn. unfold parse_rational, signed_denominator, ratio32_from_str_radix, bigratio_from_str_radix.
  assert (E : split_slash t = None).
  { induction t as [|c t IH]. reflexivity. cbn [split_slash].
    destruct (c =? 47)%N eqn:E. apply N.eqb_eq in E. subst. exfalso. apply Hn. now left.
    rewrite IH. reflexivity. intros H. apply Hn. now right. }
  rewrite E. reflexivity.
Qed.

(* Number::parse on the text of an exact number *)
Theorem number_parse_exact_text p r n : 2 <= r <= 36 -> exact_wf n ->
  number_parse p (exact_text r n) r = Ok (Some (reread n)).
Proof.
  intros Hr Hwf. unfold number_parse.
  assert (Hrad : (r <? 2) || (36 <? r) = false).
  { apply orb_false_intro; [apply Z.ltb_ge|apply Z.ltb_ge]; lia. }
  rewrite Hrad.
  destruct n as [z|z|a b|f]; cbn [exact_wf exact_text reread] in *.
  - apply in_i64_prop in Hwf. now rewrite int_from_str_show.
  - destruct (in_i64 z) eqn:E.
    + apply in_i64_prop in E. now rewrite int_from_str_show.
    + rewrite int_from_str_out_of_range; [|assumption|].
      now rewrite bigint_from_str_show.
      intros H. apply in_i64_prop in H. congruence.
  - destruct Hwf as (Ha & Hb & Hpos & Hg). apply in_i32_prop in Ha, Hb.
    unfold ratio_fmt. destruct (b =? 1) eqn:E1.
    + rewrite int_from_str_show; [reflexivity|assumption|].
      unfold I32_MIN, I32_MAX, I64_MIN, I64_MAX in *. lia.
    + apply Z.eqb_neq in E1.
      assert (Hin : In 47%N (show_int_radix r a ++ [47%N] ++ show_int_radix r b))
        by (apply in_or_app; right; now left).
      rewrite int_from_str_slash, bigint_from_str_slash by assumption.
      unfold parse_rational, signed_denominator, ratio32_from_str_radix. cbn [app].
      rewrite split_slash_app by (apply show_int_radix_no_slash; assumption).
      assert (Hsd : match show_int_radix r b with c :: _ => ((c =? 43) || (c =? 45))%N | [] => false end = false).
      { rewrite show_int_radix_pos by lia.
        pose proof (show_nat_radix_chars r b ltac:(lia) ltac:(lia)) as Hc.
        destruct (show_nat_radix r b) as [|c l]; [reflexivity|].
        apply Forall_inv in Hc.
        rewrite (digit_char_neqb c 43%N Hc ltac:(lia)), (digit_char_neqb c 45%N Hc ltac:(lia)). reflexivity. }
      rewrite Hsd.
      rewrite !int_from_str_show by assumption.
      assert (Hb0 : b =? 0 = false) by (apply Z.eqb_neq; lia). rewrite Hb0.
      unfold ratio32_new. rewrite Hb0.
      assert (Ha0 : a =? 0 = false).
      { apply Z.eqb_neq. intros ->. rewrite Z.gcd_0_l in Hg. lia. }
      assert (Hab : a =? b = false).
      { apply Z.eqb_neq. intros ->. rewrite Z.gcd_diag in Hg. lia. }
      rewrite Ha0, Hab, Hg, !Z.quot_1_r.
      assert (Hbn : b <? 0 = false) by (apply Z.ltb_ge; lia). rewrite Hbn.
      cbn [bind]. assert (Hb1 : b =? 1 = false) by (apply Z.eqb_neq; assumption).
      rewrite Hb1. reflexivity.
  - contradiction.
Qed.

(* C16 exact_roundtrip, at the level of the two procedures *)
Theorem exact_roundtrip n r rc : exact_wf n -> In r [2; 8; 10; 16] -> pop_usize rc = Ok r ->
  number_string [CNum n; rc] = Ok (CStr (exact_text r n)) /\
  string_number [CStr (exact_text r n); rc] = Ok (CNum (reread n)).
Proof.
  intros Hwf Hr Hrc.
  assert (Hex : num_is_exact n = true) by (destruct n; try reflexivity; contradiction).
  assert (Hr36 : 2 <= r <= 36) by (cbn in Hr; lia).
  split.
  - unfold number_string. rewrite Hrc. cbn [bind]. rewrite number_to_text_exact by assumption. reflexivity.
  - unfold string_number. rewrite Hrc. cbn [bind].
    assert (Hrad : (r <? 2) || (36 <? r) = false).
    { apply orb_false_intro; apply Z.ltb_ge; lia. }
    rewrite Hrad. unfold string_to_number. rewrite Hrad.
    unfold parse_with_exactness_p. rewrite number_parse_exact_text by assumption. reflexivity.
Qed.

(* without a radix argument both procedures work in radix 10 *)
Theorem exact_roundtrip_default n : exact_wf n ->
  number_string [CNum n] = Ok (CStr (exact_text 10 n)) /\
  string_number [CStr (exact_text 10 n)] = Ok (CNum (reread n)).
Proof.
  intros Hwf.
  assert (Hex : num_is_exact n = true) by (destruct n; try reflexivity; contradiction).
  split.
  - unfold number_string. rewrite number_to_text_exact; [reflexivity|cbn; tauto|assumption].
  - unfold string_number, string_to_number. cbn [Z.ltb Z.compare orb].
    unfold parse_with_exactness_p. rewrite number_parse_exact_text by (assumption || lia). reflexivity.
Qed.

(* the radix guard (after fix F13): a radix outside 2..36 is an error, never a panic *)
Theorem radix_guard s rc r : pop_usize rc = Ok r -> ~ (2 <= r <= 36) ->
  string_number [CStr s; rc] = Err E_OTHER.
Proof.
  intros Hrc Hr. unfold string_number. rewrite Hrc. cbn [bind].
  assert (Hrad : (r <? 2) || (36 <? r) = true).
  { destruct (r <? 2) eqn:A; [reflexivity|]. destruct (36 <? r) eqn:B; [reflexivity|].
    apply Z.ltb_ge in A, B. lia. }
  now rewrite Hrad.
Qed.

Lemma pop_usize_cases rc : (exists r, pop_usize rc = Ok r) \/ pop_usize rc = Err E_OTHER.
Proof.
  destruct rc; try (right; reflexivity).
  destruct n as [z|z|a b|f]; cbn [pop_usize].
  - destruct (0 <=? z); [left; eexists; reflexivity|right; reflexivity].
  - destruct ((0 <=? z) && (z <=? U64_MAX)); [left; eexists; reflexivity|right; reflexivity].
  - destruct ((b =? 1) && (0 <=? a)); [left; eexists; reflexivity|right; reflexivity].
  - right; reflexivity.
Qed.

Theorem string_number_no_radix_panic s rc :
  (exists r, pop_usize rc = Ok r /\ 2 <= r <= 36) \/ string_number [CStr s; rc] = Err E_OTHER.
Proof.
  destruct (pop_usize_cases rc) as [(r & E)|E].
  - destruct (Z_le_dec 2 r); [destruct (Z_le_dec r 36)|].
    + left. exists r. split; [assumption|lia].
    + right. apply (radix_guard s rc r E). lia.
    + right. apply (radix_guard s rc r E). lia.
  - right. unfold string_number. rewrite E. reflexivity.
Qed.
