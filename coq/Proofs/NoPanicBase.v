(* NoPanicBase.v — C06 for the VM: the "no dangling reference / decodable" invariant [wfm],
   the growth preorder [grow], the outcome predicate [npost A] ("ends in a [wfm] state that
   grew, or panics at a site of the allowed set A") and the primitives of VmBase.v / Vm.v.

   [vwf s v]: a reference-carrying cell value is not dangling in s —
     VStr/VVec/VLambda/VLexEnv/VCont id  : the Rc payload exists in its table
     VClosure lp _ , VIp lp i            : the heap cell lp holds a VLambda whose code exists; 1 <= i
     VGSlot k                            : k is a slot of the global environment
   [wfm s]: EVERY cell value stored anywhere in s (heap, all stack slots, %acc, global slots,
   vector / environment payloads, bytecode of every code object, saved stacks and saved ip of
   every continuation) is [vwf]; saved stacks fit the stack Vec; every code object starts with
   an opcode; the heap satisfies [heap_inv].                                              *)
From Coq Require Import Lia List.
From MW Require Import Model.Base Model.F64 Model.Num Model.Datum Model.TransformDef Model.Transform
  Model.VmTypes Model.Heap Model.Gc Model.VmBase Model.Compile Model.Vm
  Proofs.GcProofs Proofs.SymtabProofs Proofs.VmProofs0 Proofs.TailProofs Proofs.EnvProofs
  Proofs.FlatProofs.
Open Scope N_scope.
Arguments N.add : simpl never.
Arguments N.sub : simpl never.
Arguments N.eqb : simpl never.
Arguments N.ltb : simpl never.
Arguments N.leb : simpl never.
Arguments N.mul : simpl never.

(* ------------------------------------------------------------------ definitions *)
Definition lamcell (s : vm) (a : N) : Prop :=
  exists lid, cell_at (hp s) a = VLambda lid /\ tget (lams (st s)) lid <> None.

Definition vwf (s : vm) (v : vcell) : Prop :=
  match v with
  | VStr i => tget (strs (st s)) i <> None
  | VVec i => tget (vecs (st s)) i <> None
  | VLambda i => tget (lams (st s)) i <> None
  | VLexEnv i => tget (envs (st s)) i <> None
  | VCont i => tget (conts (st s)) i <> None
  | VClosure lp _ => lamcell s lp
  | VIp a b => lamcell s a /\ 1 <= b
  | VGSlot k => k < len (g_slots s)
  | _ => True
  end.

Inductive inplace (s : vm) : vcell -> Prop :=
| ip_heap a : inplace s (cell_at (hp s) a)
| ip_stack i : inplace s (sget s i)
| ip_acc : inplace s (acc s)
| ip_glob i v : list_get (g_slots s) i = Some v -> inplace s v
| ip_vec id l i v : tget (vecs (st s)) id = Some l -> list_get l i = Some v -> inplace s v
| ip_env id l i v : tget (envs (st s)) id = Some l -> list_get l i = Some v -> inplace s v
| ip_code id l i v : tget (lams (st s)) id = Some l -> list_get (l_bc l) i = Some v -> inplace s v
| ip_cont id k i v : tget (conts (st s)) id = Some k -> list_get (k_stack k) i = Some v -> inplace s v
| ip_kip id k : tget (conts (st s)) id = Some k -> inplace s (VIp (fst (k_ip k)) (snd (k_ip k))).

Definition head_ok (l : lambda) : Prop := exists o, list_get (l_bc l) 0 = Some (VOp o).

Definition gbind_ok (s : vm) : Prop :=
  forall a k, assoc_find (g_bind s) a = Some k -> k < len (g_slots s).

Record wfm (s : vm) : Prop := {
  w_heap : heap_inv (hp s);
  w_gbind : gbind_ok s;
  w_vals : forall v, inplace s v -> vwf s v;
  w_kcap : forall id k, tget (conts (st s)) id = Some k -> len (k_stack k) <= scap s;
  w_head : forall id l, tget (lams (st s)) id = Some l -> head_ok l
}.

Definition ipge (s : vm) : Prop := 1 <= snd (ip s) /\ lamcell s (fst (ip s)).

(* what every operation does to the facts [vwf] depends on *)
Record grow0 (s s' : vm) : Prop := {
  g_lam : forall a lid, cell_at (hp s) a = VLambda lid -> cell_at (hp s') a = VLambda lid;
  g_strs : forall i, tget (strs (st s)) i <> None -> tget (strs (st s')) i <> None;
  g_vecs : forall i, tget (vecs (st s)) i <> None -> tget (vecs (st s')) i <> None;
  g_envs : forall i, tget (envs (st s)) i <> None -> tget (envs (st s')) i <> None;
  g_lams : forall i, tget (lams (st s)) i <> None -> tget (lams (st s')) i <> None;
  g_conts : forall i, tget (conts (st s)) i <> None -> tget (conts (st s')) i <> None;
  g_scap : scap s <= scap s';
  g_gs : len (g_slots s) <= len (g_slots s')
}.
Definition grow (s s' : vm) : Prop := grow0 s s' /\ (ipge s -> ipge s').

Lemma grow0_refl s : grow0 s s.
Proof. constructor; auto; lia. Qed.
Lemma grow0_trans a b c : grow0 a b -> grow0 b c -> grow0 a c.
Proof. intros [A1 A2 A3 A4 A5 A6 A7 A8] [B1 B2 B3 B4 B5 B6 B7 B8]. constructor; auto; lia. Qed.
Lemma grow_refl s : grow s s.
Proof. split; [apply grow0_refl|auto]. Qed.
Lemma grow_trans a b c : grow a b -> grow b c -> grow a c.
Proof. intros [A1 A2] [B1 B2]. split; [eapply grow0_trans; eassumption|auto]. Qed.
Lemma grow_grow0 a b : grow a b -> grow0 a b.
Proof. intros [H _]. exact H. Qed.

Lemma some_ne_none {A} (o : option A) a : o = Some a -> o <> None.
Proof. intros ->. discriminate. Qed.
Lemma ne_none_some {A} (o : option A) : o <> None -> exists a, o = Some a.
Proof. destruct o; [eauto|congruence]. Qed.

Lemma lamcell_grow s s' a : grow0 s s' -> lamcell s a -> lamcell s' a.
Proof.
  intros G (lid & C & L). exists lid. split; [apply (g_lam _ _ G), C|].
  apply (g_lams _ _ G), L.
Qed.
Lemma vwf_grow s s' v : grow0 s s' -> vwf s v -> vwf s' v.
Proof.
  intros G. destruct v; cbn [vwf]; auto;
  first [ apply (g_strs _ _ G) | apply (g_vecs _ _ G) | apply (g_envs _ _ G)
        | apply lamcell_grow, G
        | apply (g_lams _ _ G) | apply (g_conts _ _ G)
        | intros [H1 H2]; split; [eapply lamcell_grow; eassumption|exact H2]
        | pose proof (g_gs _ _ G); lia ].
Qed.

Lemma ipge_keep s s' : grow0 s s' -> ip s' = ip s -> ipge s -> ipge s'.
Proof. intros G E [H1 H2]. unfold ipge. rewrite E. split; [exact H1|eapply lamcell_grow; eassumption]. Qed.

(* the generic preservation lemma *)
Lemma wfm_step s s' :
  wfm s -> grow0 s s' -> heap_inv (hp s') -> gbind_ok s' ->
  (forall v, inplace s' v -> inplace s v \/ vwf s' v) ->
  (forall id k, tget (conts (st s')) id = Some k -> tget (conts (st s)) id = Some k \/ len (k_stack k) <= scap s') ->
  (forall id l, tget (lams (st s')) id = Some l -> tget (lams (st s)) id = Some l \/ head_ok l) ->
  wfm s'.
Proof.
  intros [W1 W0 W2 W3 W4] G HI HG Hv Hk Hl. constructor.
  - exact HI.
  - exact HG.
  - intros v Iv. destruct (Hv v Iv) as [H|H]; [|exact H]. eapply vwf_grow; [exact G|]. apply W2, H.
  - intros id k E. destruct (Hk id k E) as [H|H]; [|exact H]. pose proof (W3 id k H). pose proof (g_scap _ _ G). lia.
  - intros id l E. destruct (Hl id l E) as [H|H]; [|exact H]. eapply W4, H.
Qed.

(* component-wise form *)
Lemma wfm_upd s s' :
  wfm s -> grow0 s s' -> heap_inv (hp s') -> gbind_ok s' ->
  (forall a, cell_at (hp s') a = cell_at (hp s) a \/ vwf s' (cell_at (hp s') a)) ->
  (forall i, sget s' i = sget s i \/ vwf s' (sget s' i)) ->
  (acc s' = acc s \/ vwf s' (acc s')) ->
  (forall i v, list_get (g_slots s') i = Some v -> list_get (g_slots s) i = Some v \/ vwf s' v) ->
  (forall id l i v, tget (vecs (st s')) id = Some l -> list_get l i = Some v ->
     (exists id0 l0 i0, tget (vecs (st s)) id0 = Some l0 /\ list_get l0 i0 = Some v) \/ vwf s' v) ->
  (forall id l i v, tget (envs (st s')) id = Some l -> list_get l i = Some v ->
     (exists id0 l0 i0, tget (envs (st s)) id0 = Some l0 /\ list_get l0 i0 = Some v) \/ vwf s' v) ->
  (forall id l, tget (lams (st s')) id = Some l -> tget (lams (st s)) id = Some l \/
     (head_ok l /\ forall i v, list_get (l_bc l) i = Some v -> vwf s' v)) ->
  (forall id k, tget (conts (st s')) id = Some k -> tget (conts (st s)) id = Some k \/
     (len (k_stack k) <= scap s' /\ vwf s' (VIp (fst (k_ip k)) (snd (k_ip k))) /\
      forall i v, list_get (k_stack k) i = Some v -> vwf s' v)) ->
  wfm s'.
Proof.
  intros W G HI HG Hh Hs Ha Hg Hv He Hl Hk. apply (wfm_step s s' W G HI HG).
  - intros v Iv. destruct Iv as [a|i| |i v E|id l i v E1 E2|id l i v E1 E2|id l i v E1 E2|id k i v E1 E2|id k E1].
    + destruct (Hh a) as [->|H]; [left; constructor|right; exact H].
    + destruct (Hs i) as [->|H]; [left; constructor|right; exact H].
    + destruct Ha as [->|H]; [left; constructor|right; exact H].
    + destruct (Hg i v E) as [H|H]; [left; econstructor; eassumption|right; exact H].
    + destruct (Hv id l i v E1 E2) as [(id0 & l0 & i0 & H1 & H2)|H]; [left; eapply ip_vec; eassumption|right; exact H].
    + destruct (He id l i v E1 E2) as [(id0 & l0 & i0 & H1 & H2)|H]; [left; eapply ip_env; eassumption|right; exact H].
    + destruct (Hl id l E1) as [H|[_ H]]; [left; eapply ip_code; eassumption|right; eapply H; eassumption].
    + destruct (Hk id k E1) as [H|(_ & _ & H)]; [left; eapply ip_cont; eassumption|right; eapply H; eassumption].
    + destruct (Hk id k E1) as [H|(_ & H & _)]; [left; eapply ip_kip; eassumption|right; exact H].
  - intros id k E. destruct (Hk id k E) as [H|(H & _)]; auto.
  - intros id l E. destruct (Hl id l E) as [H|(H & _)]; auto.
Qed.

(* the Rc tables untouched *)
Lemma wfm_nostore s s' :
  wfm s -> st s' = st s -> grow0 s s' -> heap_inv (hp s') -> gbind_ok s' ->
  (forall a, cell_at (hp s') a = cell_at (hp s) a \/ vwf s' (cell_at (hp s') a)) ->
  (forall i, sget s' i = sget s i \/ vwf s' (sget s' i)) ->
  (acc s' = acc s \/ vwf s' (acc s')) ->
  (forall i v, list_get (g_slots s') i = Some v -> list_get (g_slots s) i = Some v \/ vwf s' v) ->
  wfm s'.
Proof.
  intros W E G HI HG Hh Hs Ha Hg. apply (wfm_upd s s' W G HI HG Hh Hs Ha Hg); rewrite E; eauto 7.
Qed.

(* grow0 when heap cells holding code, the Rc tables and the global slots are kept *)
Lemma grow0_nostore s s' :
  st s' = st s -> (forall a lid, cell_at (hp s) a = VLambda lid -> cell_at (hp s') a = VLambda lid) ->
  scap s <= scap s' -> len (g_slots s) <= len (g_slots s') -> grow0 s s'.
Proof. intros E H1 H2 H3. constructor; rewrite ?E; auto. Qed.

(* ------------------------------------------------------------------ outcomes *)
Section NP.
Variable A : N -> Prop.

Definition npost {X} (s : vm) (r : res X) (Q : vm -> X -> Prop) : Prop :=
  match r with
  | ROk a s' => wfm s' /\ grow s s' /\ Q s' a
  | RErr _ _ s' => wfm s' /\ grow s s'
  | RPanic k => A k
  | RNoFuel => True
  end.
(* the same, but a NORMAL exit may leave ip at index 0 (CALL / TCALL / JMP: the last action) *)
Definition npost0 {X} (s : vm) (r : res X) (Q : vm -> X -> Prop) : Prop :=
  match r with
  | ROk a s' => wfm s' /\ grow0 s s' /\ Q s' a
  | RErr _ _ s' => wfm s' /\ grow s s'
  | RPanic k => A k
  | RNoFuel => True
  end.

Lemma npost_npost0 {X} s (r : res X) Q : npost s r Q -> npost0 s r Q.
Proof. destruct r; cbn; auto. intros (W & [G _] & HQ). auto. Qed.

Lemma npost_weaken {X} s (r : res X) (Q Q' : vm -> X -> Prop) :
  (forall s' a, wfm s' -> grow s s' -> Q s' a -> Q' s' a) -> npost s r Q -> npost s r Q'.
Proof. intros H. destruct r; cbn; auto. intros (W & G & HQ). auto. Qed.

Lemma npost_bind {X Y} s (m : M X) (f : X -> M Y) Q (R : vm -> Y -> Prop) :
  npost s (m s) Q ->
  (forall a s1, wfm s1 -> grow s s1 -> Q s1 a -> npost s1 (f a s1) R) ->
  npost s (bindM m f s) R.
Proof.
  intros Hm Hf. unfold bindM. destruct (m s) as [a s1|e msg s1|k|]; cbn [npost] in *; auto.
  destruct Hm as (W1 & G1 & HQ). specialize (Hf a s1 W1 G1 HQ).
  destruct (f a s1) as [b s2|e msg s2|k|]; cbn [npost] in *; auto.
  - destruct Hf as (W2 & G2 & HR). pose proof (grow_trans _ _ _ G1 G2). auto.
  - destruct Hf as (W2 & G2). split; [exact W2|eapply grow_trans; eassumption].
Qed.
Lemma npost0_bind {X Y} s (m : M X) (f : X -> M Y) Q (R : vm -> Y -> Prop) :
  npost s (m s) Q ->
  (forall a s1, wfm s1 -> grow s s1 -> Q s1 a -> npost0 s1 (f a s1) R) ->
  npost0 s (bindM m f s) R.
Proof.
  intros Hm Hf. unfold bindM. destruct (m s) as [a s1|e msg s1|k|]; cbn [npost npost0] in *; auto.
  destruct Hm as (W1 & G1 & HQ). specialize (Hf a s1 W1 G1 HQ).
  destruct (f a s1) as [b s2|e msg s2|k|]; cbn [npost0] in *; auto.
  - destruct Hf as (W2 & G2 & HR). pose proof (grow0_trans _ _ _ (grow_grow0 _ _ G1) G2). auto.
  - destruct Hf as (W2 & G2). split; [exact W2|eapply grow_trans; eassumption].
Qed.

Lemma npost_ret {X} s (a : X) (Q : vm -> X -> Prop) : wfm s -> Q s a -> npost s (ret a s) Q.
Proof. intros W H. cbn. auto using grow_refl. Qed.
Lemma npost_fail {X} s e (Q : vm -> X -> Prop) : wfm s -> npost s (fail e s) Q.
Proof. intros W. cbn. auto using grow_refl. Qed.
Lemma npost_fail_msg {X} s e m (Q : vm -> X -> Prop) : wfm s -> npost s (fail_msg e m s) Q.
Proof. intros W. cbn. auto using grow_refl. Qed.
Lemma npost_panic {X} s k (Q : vm -> X -> Prop) : A k -> npost s (@panic X k s) Q.
Proof. intros H. exact H. Qed.
Lemma npost_get_vm s : wfm s -> npost s (get_vm s) (fun s' a => a = s' /\ s' = s).
Proof. intros W. cbn. auto using grow_refl. Qed.
Lemma npost_nofuel {X} s (Q : vm -> X -> Prop) : npost s (@RNoFuel X) Q.
Proof. exact I. Qed.
End NP.

(* ------------------------------------------------------------------ generic state updates *)
Lemma lam_allocated h a lid : heap_inv h -> cell_at h a = VLambda lid -> allocated h a.
Proof.
  intros HI C. assert (L : a < hlen h).
  { destruct (N.lt_ge_cases a (hlen h)) as [H|H]; [exact H|].
    pose proof (hi_free_undef h HI a (hi_range h HI a H)) as U. congruence. }
  apply allocated_of_content; [exact HI|exact L|congruence].
Qed.

Section Prims.
Variable A : N -> Prop.
Notation npost := (npost A).

(* registers / stack only *)
Lemma npost_regs {X} s s' (a : X) (Q : vm -> X -> Prop) :
  wfm s -> hp s' = hp s -> st s' = st s -> g_slots s' = g_slots s -> g_bind s' = g_bind s -> scap s <= scap s' ->
  (forall i, sget s' i = sget s i \/ vwf s (sget s' i)) ->
  (acc s' = acc s \/ vwf s (acc s')) -> (ipge s -> ipge s') -> Q s' a ->
  npost s (ROk a s') Q.
Proof.
  intros W Eh Es Eg Eb Hc Hs Ha Hi HQ.
  assert (G : grow0 s s').
  { apply grow0_nostore; [exact Es|rewrite Eh; auto|exact Hc|rewrite Eg; lia]. }
  cbn [NoPanicBase.npost]. split; [|split; [split; assumption|exact HQ]].
  apply (wfm_nostore s s' W Es G).
  - rewrite Eh. apply (w_heap s W).
  - unfold gbind_ok. rewrite Eb, Eg. apply (w_gbind s W).
  - intros b. left. rewrite Eh. reflexivity.
  - intros i. destruct (Hs i) as [H|H]; [left; exact H|right; eapply vwf_grow; eassumption].
  - destruct Ha as [H|H]; [left; exact H|right; eapply vwf_grow; eassumption].
  - intros i v E. left. rewrite <- Eg. exact E.
Qed.

(* heap only *)
Lemma npost_heap {X} s h' (a : X) (Q : vm -> X -> Prop) :
  wfm s -> heap_inv h' ->
  (forall b, allocated (hp s) b -> cell_at h' b = cell_at (hp s) b) ->
  (forall b, cell_at h' b = cell_at (hp s) b \/ vwf s (cell_at h' b)) ->
  Q (with_heap s h') a -> npost s (ROk a (with_heap s h')) Q.
Proof.
  intros W HI Hal Hc HQ.
  assert (G : grow0 s (with_heap s h')).
  { apply grow0_nostore; cbn [st hp scap g_slots with_heap]; try reflexivity; try lia.
    intros b lid C. rewrite Hal; [exact C|]. eapply lam_allocated; [apply (w_heap s W)|exact C]. }
  cbn [NoPanicBase.npost]. split; [|split; [split; [exact G|apply ipge_keep; [exact G|reflexivity]]|exact HQ]].
  apply (wfm_nostore s (with_heap s h') W eq_refl G); cbn [hp with_heap acc g_slots]; auto.
  - apply (w_gbind s W).
  - intros b. destruct (Hc b) as [H|H]; [left; exact H|right; eapply vwf_grow; eassumption].
Qed.
End Prims.

(* ------------------------------------------------------------------ the excluded sites *)
(* X = the panic sites the invariant [wfm] excludes (Model/Vm.v, Heap.v):
   11 maybe_put_cell "expected ptr" - 12 put_cell of a procedure / continuation / macro object (every
   cell the compiler and the builtins store is a datum, [cell_is_datum]: repo fixes edf2b0d, a8af987) -
   13 get_as_cell: dangling Rc payload - 41 get_lambda -
   42 cur_lambda "%ip is not a procedure" - 43 env_slots - 45 global slot out of range -
   46 / 47 restore_continuation - 48 dec_ip - 49 / 50 / 51 stack_trace.
   NOT in X (need the frame discipline of compiled code, or belong to a builtin):
   10 heap index (only through %ep), 14 get_as_cell of a
   non-value, 40 usize underflow in frame arithmetic, 44 environment slot index, and the
   sites of the library builtins (20 = str_get/vec_get AND NumFmt.P_RADIX, 30 = location_operand
   AND ListVec.P_USIZE_UNDERFLOW: the numbering of the model collides there). *)
Definition xsiteb (k : N) : bool :=
  (k =? 11) || (k =? 12) || (k =? 13) || (k =? 41) || (k =? 42) || (k =? 43) || (k =? 45) || (k =? 46) || (k =? 47)
  || (k =? 48) || (k =? 49) || (k =? 50) || (k =? 51).
Definition okp (k : N) : Prop := xsiteb k = false.
