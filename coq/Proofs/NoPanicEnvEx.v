(* NoPanicEnvEx.v — C06: the frame/environment discipline ([NoPanicEnv.disc_okb]) checked along real
   evaluations, instruction by instruction (vm_compute): non-vacuity of the local theorems of
   NoPanicEnv.v on reachable states, and a sanity check of the candidate whole-machine invariant. *)
From Coq Require Import String Lia List.
From MW Require Import Model.Base Model.F64 Model.Num Model.Datum Model.Lex Model.Parse Model.TransformDef Model.Transform
  Model.VmTypes Model.Heap Model.Gc Model.VmBase Model.Compile Model.Vm Model.Builtins
  Proofs.TailProofs Proofs.EnvProofs Proofs.FlatProofs Proofs.NoPanicFinal Proofs.NoPanicEnv.
Open Scope N_scope.

(* (all boundaries ok, instructions executed, ended by HALT with a value) *)
Fixpoint monitor (n : nat) (s : vm) (steps : N) : bool * N * bool :=
  match n with
  | O => (true, steps, false)
  | S k =>
      if negb (disc_okb s) then (false, steps, false) else
      match run_count other_builtin 1 (Some 1) s with
      | ROk Yield s' => monitor k s' (steps + 1)
      | ROk (Done _) _ => (true, steps + 1, true)
      | _ => (true, steps, false)
      end
  end.
Definition monitor_text (t : text) (n : nat) : option (bool * N * bool) :=
  match boot_with [] with
  | Some s => match parse_text t with
              | Ok (d, _) => match prepare_eval d s with ROk _ s' => Some (monitor n s' 0) | _ => None end
              | _ => None end
  | None => None
  end.

Definition disc_texts : list text :=
  [S_ "((lambda (f) (f 1 2)) ((lambda (a) (lambda (x y) (set! a (+ a x y)) a)) 10))";
   S_ "(call/cc (lambda (k) (k ((lambda (f . r) (apply f r)) car '(1 2)))))";
   S_ "((lambda (loop) (loop loop 3 0)) (lambda (self n acc) (if (= n 0) acc (self self (- n 1) (+ acc n)))))";
   S_ "((lambda () (define (g x y) (+ x y)) (define (f a) (g a a)) (f 2)))";
   S_ "((lambda (cnt) ((lambda (k) (set! cnt (+ cnt 1)) (if (< cnt 3) (k k) cnt)) (call/cc (lambda (c) c)))) 0)";
   S_ "((lambda (x) (eval (cons '+ (cons x (cons 1 '()))))) 5)";
   S_ "((((lambda (a) (lambda (b) (lambda (c) (set! a (+ a b c)) a))) 1) 2) 3)";
   S_ "((lambda (f) (f 1 2 3 4)) (lambda (a . r) (apply + a r)))";
   S_ "(+ 1 (call/cc (lambda (k) ((lambda (x) (k x)) 41))))";
   S_ "((lambda (f g) (f g)) (lambda (g) (g 1 2 3)) (lambda (a b c) (+ a b c)))";
   S_ "((lambda (f g) (f g 1 2 3)) (lambda (g a b c) (g a)) (lambda (a) a))";
   S_ "((lambda (v) (vector-ref v 1)) (vector 1 ((lambda (x) (lambda () x)) 2) 3))";
   S_ "((lambda (mk) ((mk 1) (mk 2))) (lambda (n) (lambda r (if (null? r) n (cons n r)))))"]%string.
Definition monitor_passes (t : text) : bool :=
  match monitor_text t 3000 with Some (true, n, true) => 10 <? n | _ => false end.

(* every instruction boundary of these 13 evaluations (closures over mutated variables, variadic
   procedures, apply, call/cc escaping and re-entered, eval inside a closure, internal defines, tail calls
   with equal / more / fewer arguments than the current frame) satisfies the discipline, and each runs to HALT *)
Theorem discipline_on_examples : forallb monitor_passes disc_texts = true.
Proof. vm_compute. reflexivity. Qed.

(* a reachable state INSIDE a closure body: the hypotheses of the theorems of NoPanicEnv.v hold there *)
Definition state_after (t : text) (n : nat) : option vm :=
  match boot_with [] with
  | Some s => match parse_text t with
              | Ok (d, _) => match prepare_eval d s with
                             | ROk _ s' => match run_count other_builtin n (Some (N.of_nat n)) s' with
                                           | ROk Yield s2 => Some s2 | _ => None end
                             | _ => None end
              | _ => None end
  | None => None
  end.
Definition in_body_with_env (s : vm) : bool :=
  disc_okb s && match code_at s with
                | Some l => in_body s l && (1 <=? len (l_envmap l)) &&
                            match next_op s l with Some op => lex_instr op | None => false end
                | None => false end.
Theorem reachable_in_body_state :
  match state_after (nth 0 disc_texts []) 28 with Some s => in_body_with_env s = true | None => False end.
Proof. vm_compute. reflexivity. Qed.
