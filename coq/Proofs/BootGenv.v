(* BootGenv.v — C01: the global environment after Vm::new's load_builtins.

   builtin/mod.rs:48-57 walks the table of registered builtins; for each (name, proc) it puts
   the BuiltInProc on the heap, interns the symbol `name`, and binds its global slot to the
   procedure.  Model: Builtins.load_builtins = load_builtins_from Gen.Builtins.builtin_table 0.

   Result (load_builtins_ok): from any machine satisfying minv, load_builtins succeeds, keeps
   minv, only extends the machine (cext), leaves sp/bp/ep/output alone, and afterwards EVERY
   registered name is bound to a slot holding a pointer to an allocated [VBuiltin i] cell, i =
   the position of the name in the table: genv_rel builtin_rho / genv_rel3 builtin_rho3, the
   initial global environments of the reference semantics of CompileCorrect / Closures3.
   The names of the table are pairwise distinct (builtin_names_nodup, by computation), so
   builtin_index x = Some i  <->  the i-th entry of the table is named x (builtin_index_iff). *)
From Coq Require Import String Lia List FMapPositive.
From MW Require Import Model.Base Model.F64 Model.Num Model.Datum Model.TransformDef Model.Transform
  Model.VmTypes Model.Heap Model.Gc Model.VmBase Model.Compile Model.Vm Model.Builtins
  Proofs.VmProofs0 Proofs.GcProofs Proofs.SymtabProofs Proofs.QuoteHeapProofs
  Proofs.CompileProofs Proofs.RunProofs Proofs.CompileCorrect Proofs.TailProofs Proofs.FrameSteps
  Proofs.CellFuelProofs Proofs.CompileCorrect2 Proofs.FrameSteps3 Proofs.Closures3.
From MW Require Gen.Builtins.
Import ListNotations.
Open Scope N_scope.

Arguments N.add : simpl never.
Arguments N.sub : simpl never.
Arguments N.mul : simpl never.
Arguments N.eqb : simpl never.
Arguments N.ltb : simpl never.
Arguments N.leb : simpl never.

(* ============================================================ the initial environment *)
Definition builtin_index (x : text) : option N :=
  find_index (fun e : list N * N => Heap.text_eqb (fst e) x) Gen.Builtins.builtin_table 0.
Definition builtin_rho : env :=
  fun x => match builtin_index x with Some i => Some (RBuiltin i) | None => None end.
Definition builtin_rho3 : env3 :=
  fun x => match builtin_index x with Some i => Some (R3Base (RBuiltin i)) | None => None end.

Lemma teqb_eq (a b : text) : Heap.text_eqb a b = true <-> a = b.
Proof. unfold Heap.text_eqb. destruct (list_eq_dec N.eq_dec a b); split; congruence. Qed.

(* ------------------------------------------------------------ find_index on a table *)
Lemma find_index_nth (x : text) (l : list (list N * N)) : forall i j,
  find_index (fun e : list N * N => Heap.text_eqb (fst e) x) l i = Some j ->
  exists n e, nth_error l n = Some e /\ fst e = x /\ j = i + N.of_nat n.
Proof.
  induction l as [|e0 r IH]; intros i j H; cbn [find_index] in H; [discriminate|].
  destruct (Heap.text_eqb (fst e0) x) eqn:E.
  - injection H as <-. exists 0%nat, e0. cbn [nth_error]. split; [reflexivity|].
    split; [apply teqb_eq; exact E|lia].
  - destruct (IH _ _ H) as (n & e & Hn & He & ->). exists (S n), e. cbn [nth_error].
    split; [exact Hn|]. split; [exact He|lia].
Qed.

Lemma nth_find_index (l : list (list N * N)) : NoDup (map fst l) -> forall n e i,
  nth_error l n = Some e ->
  find_index (fun e' : list N * N => Heap.text_eqb (fst e') (fst e)) l i = Some (i + N.of_nat n).
Proof.
  induction l as [|e0 r IH]; intros ND n e i Hn; [destruct n; discriminate|].
  cbn [map] in ND. inversion ND as [|x0 l0 Hnotin ND']; subst. cbn [find_index].
  destruct n as [|n]; cbn [nth_error] in Hn.
  - injection Hn as ->. rewrite (proj2 (teqb_eq (fst e) (fst e)) eq_refl). f_equal. lia.
  - destruct (Heap.text_eqb (fst e0) (fst e)) eqn:E.
    + exfalso. apply teqb_eq in E. apply Hnotin. rewrite E. apply in_map. eapply nth_error_In. exact Hn.
    + rewrite (IH ND' n e (i + 1) Hn). f_equal. lia.
Qed.

(* ------------------------------------------------------------ the names are distinct *)
Fixpoint nodupb (l : list text) : bool :=
  match l with
  | [] => true
  | x :: r => negb (existsb (Heap.text_eqb x) r) && nodupb r
  end.
Lemma nodupb_sound l : nodupb l = true -> NoDup l.
Proof.
  induction l as [|x r IH]; intros H; [constructor|].
  cbn [nodupb] in H. apply andb_prop in H as [H1 H2]. constructor; [|apply IH; exact H2].
  intros Hin. apply Bool.negb_true_iff in H1.
  assert (E : existsb (Heap.text_eqb x) r = true)
    by (apply existsb_exists; exists x; split; [exact Hin|apply teqb_eq; reflexivity]).
  congruence.
Qed.

Lemma builtin_names_nodup : NoDup (map fst Gen.Builtins.builtin_table).
Proof. apply nodupb_sound. vm_compute. reflexivity. Qed.

Lemma builtin_index_iff x i : builtin_index x = Some i <->
  exists e, nth_error Gen.Builtins.builtin_table (N.to_nat i) = Some e /\ fst e = x.
Proof.
  unfold builtin_index. split.
  - intros H. destruct (find_index_nth x _ _ _ H) as (n & e & Hn & He & ->).
    exists e. split; [|exact He]. replace (N.to_nat (0 + N.of_nat n)) with n by lia. exact Hn.
  - intros (e & Hn & <-). rewrite (nth_find_index _ builtin_names_nodup _ _ 0 Hn). f_equal. lia.
Qed.

(* ============================================================ one table entry *)
(* name x is bound to builtin b on machine m *)
Definition bound (m : vm) (x : text) (b : N) : Prop :=
  exists a k p, allocated (hp m) a /\ cell_at (hp m) a = VSym x /\
    assoc_find (g_bind m) a = Some k /\ list_get (g_slots m) k = Some (VPtr p) /\
    allocated (hp m) p /\ cell_at (hp m) p = VBuiltin b.

Lemma hput_ok v s : minv s -> (forall p, v <> VPtr p) ->
  exists a s', hput v s = ROk (VPtr a) s' /\ minv s' /\ cext s s' /\ same_regs s s' /\
    allocated (hp s') a /\ cell_at (hp s') a = v.
Proof.
  intros MI Hnp. destruct (heap_put (hp s) v) as [r h1] eqn:E.
  destruct (heap_put_frame _ _ _ _ (mi_heap _ MI) E Hnp) as (a & -> & A & C & HI & Fr).
  exists a, (with_heap s h1). unfold hput. rewrite E.
  split; [reflexivity|].
  split; [destruct MI as [H G S]; constructor; [exact HI|exact G|exact S]|].
  split; [|split; [apply same_regs_gslots; reflexivity|cbn [hp with_heap]; auto]].
  constructor; cbn [hp st g_bind g_slots with_heap]; auto using sext_refl. lia.
Qed.

Lemma bind_one_ok name i (kont : M unit) s : minv s ->
  exists s4,
    (dom syscall <- hput (VBuiltin i);
     dom sym <- hput (VSym name);
     dom p <- as_ptr sym;
     dom slot <- get_binding p;
     dom _ <- (fun s => ROk tt (with_globals s (g_bind s) (list_set (g_slots s) slot syscall)));
     kont) s = kont s4 /\
    minv s4 /\ cext s s4 /\
    sp s4 = sp s /\ bp s4 = bp s /\ ep s4 = ep s /\ out_log s4 = out_log s /\
    bound s4 name i /\
    (forall x b, x <> name -> bound s x b -> bound s4 x b).
Proof.
  intros MI.
  destruct (hput_ok (VBuiltin i) s MI ltac:(discriminate)) as (pb & s1 & E1 & MI1 & X1 & R1 & Ab1 & Cb1).
  destruct (hput_ok (VSym name) s1 MI1 ltac:(discriminate)) as (a & s2 & E2 & MI2 & X2 & R2 & Aa2 & Ca2).
  destruct (get_binding_ok a s2 MI2) as (k & s3 & E3 & MI3 & X3 & R3 & Eh3 & Es3 & B3).
  exists (with_globals s3 (g_bind s3) (list_set (g_slots s3) k (VPtr pb))).
  split.
  { unfold bindM at 1. rewrite E1. unfold bindM at 1. rewrite E2. cbn [as_ptr].
    unfold bindM at 1. unfold ret at 1. unfold bindM at 1. rewrite E3.
    unfold bindM at 1. reflexivity. }
  pose proof (cext_trans _ _ _ (cext_trans _ _ _ X1 X2) X3) as X03.
  pose proof (same_regs_trans _ _ _ (same_regs_trans _ _ _ R1 R2) R3) as R03.
  destruct R03 as (Rsp & Rbp & Rep & Rcap & Rstk & Rlog & more & Rsl).
  destruct (ce_heap _ _ X2 pb Ab1) as [Ab2 Cb2]. rewrite Cb1 in Cb2.
  pose proof (mi_glob _ MI3) as [G1 G2].
  pose proof (G1 _ _ B3) as Hk.
  set (s4 := with_globals s3 (g_bind s3) (list_set (g_slots s3) k (VPtr pb))).
  assert (X34 : cext s3 s4).
  { apply cext_same; try reflexivity. unfold s4. cbn [g_slots with_globals]. rewrite list_set_len. lia. }
  split.
  { destruct MI3 as [HI3 _ SP3]. constructor; [exact HI3| |exact SP3].
    unfold ginv, s4. cbn [g_bind g_slots with_globals]. rewrite list_set_len. split; [exact G1|exact G2]. }
  split; [eapply cext_trans; eassumption|].
  split; [exact Rsp|]. split; [exact Rbp|]. split; [exact Rep|]. split; [exact Rlog|].
  split.
  - exists a, k, pb. unfold s4. cbn [hp g_bind g_slots with_globals]. rewrite Eh3.
    split; [exact Aa2|]. split; [exact Ca2|]. split; [exact B3|].
    split; [apply list_get_set_same; exact Hk|]. split; [exact Ab2|exact Cb2].
  - intros x b Hne (a' & k' & p' & A' & C' & B' & L' & Ap' & Cp').
    destruct (ce_heap _ _ X03 a' A') as [A3 C3]. rewrite C' in C3.
    destruct (ce_heap _ _ X03 p' Ap') as [Ap3 Cp3]. rewrite Cp' in Cp3.
    pose proof (ce_bind _ _ X03 _ _ B') as B3'.
    assert (Hkk : k <> k').
    { intros <-. assert (a = a') as <- by (eapply G2; eassumption).
      rewrite Eh3, Ca2 in C3. injection C3 as E. apply Hne. symmetry. exact E. }
    exists a', k', p'. unfold s4. cbn [hp g_bind g_slots with_globals].
    split; [exact A3|]. split; [exact C3|]. split; [exact B3'|].
    split; [|split; [exact Ap3|exact Cp3]].
    rewrite list_get_set_other by exact Hkk. rewrite Rsl.
    rewrite list_get_app_l by (eapply list_get_lt; exact L'). exact L'.
Qed.

(* ============================================================ the whole table *)
Lemma load_from_ok (l : list (list N * N)) : forall i s, minv s -> NoDup (map fst l) ->
  exists s0, load_builtins_from l i s = ROk tt s0 /\ minv s0 /\ cext s s0 /\
    sp s0 = sp s /\ bp s0 = bp s /\ ep s0 = ep s /\ out_log s0 = out_log s /\
    (forall x b, ~ In x (map fst l) -> bound s x b -> bound s0 x b) /\
    (forall n e, nth_error l n = Some e -> bound s0 (fst e) (i + N.of_nat n)).
Proof.
  induction l as [|[name id0] r IH]; intros i s MI ND.
  - exists s. cbn [load_builtins_from]. split; [reflexivity|]. split; [exact MI|].
    split; [apply cext_refl|]. do 4 (split; [reflexivity|]).
    split; [intros x b _ H; exact H|]. intros n e Hn. destruct n; discriminate.
  - cbn [map fst] in ND. inversion ND as [|x0 l0 Hnotin ND']; subst.
    cbn [load_builtins_from].
    destruct (bind_one_ok name i (load_builtins_from r (i + 1)) s MI)
      as (s1 & E1 & MI1 & X1 & Sp1 & Bp1 & Ep1 & Lg1 & Bn1 & Pres1).
    destruct (IH (i + 1) s1 MI1 ND') as (s0 & E0 & MI0 & X0 & Sp0 & Bp0 & Ep0 & Lg0 & Pres0 & All0).
    exists s0. split; [rewrite E1; exact E0|]. split; [exact MI0|].
    split; [eapply cext_trans; eassumption|].
    split; [congruence|]. split; [congruence|]. split; [congruence|]. split; [congruence|].
    split.
    + intros x b Hx Hb. cbn [map fst In] in Hx. apply Pres0; [tauto|].
      apply Pres1; [|exact Hb]. intros ->. apply Hx. left. reflexivity.
    + intros n e Hn. destruct n as [|n]; cbn [nth_error] in Hn.
      * injection Hn as <-. cbn [fst]. replace (i + N.of_nat 0) with i by lia.
        apply Pres0; [exact Hnotin|exact Bn1].
      * replace (i + N.of_nat (S n)) with (i + 1 + N.of_nat n) by lia. apply All0. exact Hn.
Qed.

Lemma bound_genv_rel s0 :
  (forall n e, nth_error Gen.Builtins.builtin_table n = Some e -> bound s0 (fst e) (0 + N.of_nat n)) ->
  genv_rel builtin_rho s0 /\ genv_rel3 builtin_rho3 s0.
Proof.
  intros All.
  assert (K : forall x i, builtin_index x = Some i -> bound s0 x i).
  { intros x i H. unfold builtin_index in H.
    destruct (find_index_nth x _ _ _ H) as (n & e & Hn & <- & ->). apply All. exact Hn. }
  split.
  - intros x r Hx. unfold builtin_rho in Hx. destruct (builtin_index x) as [i|] eqn:E; [|discriminate].
    injection Hx as <-. destruct (K x i E) as (a & k & p & A & C & B & L & Ap & Cp).
    exists a, k, (VPtr p). do 4 (split; [assumption|]). cbn [vrep]. exists p. auto.
  - intros x r Hx. unfold builtin_rho3 in Hx. destruct (builtin_index x) as [i|] eqn:E; [|discriminate].
    injection Hx as <-. destruct (K x i E) as (a & k & p & A & C & B & L & Ap & Cp).
    exists a, k, (VPtr p). do 4 (split; [assumption|]). cbn [vrep3 vrep]. exists p. auto.
Qed.

(* ============================================================ main results *)
Theorem load_builtins_ok s : minv s ->
  exists s0, load_builtins s = ROk tt s0 /\ minv s0 /\ cext s s0 /\
             sp s0 = sp s /\ bp s0 = bp s /\ ep s0 = ep s /\ out_log s0 = out_log s /\
             genv_rel builtin_rho s0 /\ genv_rel3 builtin_rho3 s0.
Proof.
  intros MI. unfold load_builtins.
  destruct (load_from_ok Gen.Builtins.builtin_table 0 s MI builtin_names_nodup)
    as (s0 & E0 & MI0 & X0 & Sp0 & Bp0 & Ep0 & Lg0 & _ & All0).
  exists s0. do 7 (split; [assumption|]). apply bound_genv_rel. exact All0.
Qed.

Corollary load_builtins_empty c : 0 < c ->
  exists s0, load_builtins (vm_empty c) = ROk tt s0 /\ minv s0 /\
             genv_rel builtin_rho s0 /\ genv_rel3 builtin_rho3 s0.
Proof.
  intros Hc. destruct (load_builtins_ok (vm_empty c) (minv_vm_empty c Hc))
    as (s0 & E0 & MI0 & _ & _ & _ & _ & _ & G & G3).
  exists s0. auto.
Qed.

(* every registered builtin: the i-th name of the table is bound to [VBuiltin i] *)
Corollary load_builtins_every s : minv s ->
  exists s0, load_builtins s = ROk tt s0 /\
    forall i name id0, nth_error Gen.Builtins.builtin_table (N.to_nat i) = Some (name, id0) ->
      builtin_rho name = Some (RBuiltin i) /\ bound s0 name i.
Proof.
  intros MI. unfold load_builtins.
  destruct (load_from_ok Gen.Builtins.builtin_table 0 s MI builtin_names_nodup)
    as (s0 & E0 & _ & _ & _ & _ & _ & _ & _ & All0).
  exists s0. split; [exact E0|]. intros i name id0 Hn.
  assert (E : builtin_index name = Some i) by (apply builtin_index_iff; exists (name, id0); auto).
  split; [unfold builtin_rho; rewrite E; reflexivity|].
  specialize (All0 _ _ Hn). cbn [fst] in All0. replace (0 + N.of_nat (N.to_nat i)) with i in All0 by lia.
  exact All0.
Qed.

Print Assumptions load_builtins_ok.
Print Assumptions load_builtins_empty.
