(* GcIsoSched3.v — C03, part 15: runs under a schedule of REAL collections ([Gc.collect]).
   The collector hypothesis of [sched_unobservable_all] is discharged by [collect_shrink];
   what remains is an invariant [Nv] of the right machine that implies [gc_ready] (gc_natural,
   nothing reachable is free, no Used mark left, the collection returns) and is kept by
   [run_one] and by a collection — (d) of WP-c03c, an explicit hypothesis here. *)
From Coq Require Import Lia List Permutation.
From MW Require Import Model.Base Model.Num Model.VmTypes Model.Heap Model.Gc Model.VmBase Model.Vm
  Proofs.GcProofs Proofs.SymtabProofs Proofs.GcObsProofs Proofs.GcIso Proofs.GcIsoPrim Proofs.GcIsoStep
  Proofs.GcIsoSched Proofs.GcIsoAll Proofs.GcIsoSched2 Proofs.GcIsoCollect.
Open Scope N_scope.

(* a collection, as a relation: any payload fuel, any marking fuel, any HashMap order of the keys *)
Definition collects (s s' : vm) : Prop :=
  exists vd fuel order h', Permutation order (map fst (g_bind s)) /\
    collect vd fuel order s = Ok h' /\ s' = with_heap s h'.
Definition gc_ready (s : vm) : Prop :=
  gc_natural s /\ reach_allocated s /\ no_used (hp s) /\ exists s', collects s s'.

Lemma collects_related s1 s2 s2' :
  related s1 s2 -> gc_natural s2 -> reach_allocated s2 -> no_used (hp s2) ->
  collects s2 s2' -> related s1 s2'.
Proof.
  intros [W R] G ND NU (vd & fuel & order & h' & P & C & ->). exists (wshrink W s1).
  apply (collect_shrink W s1 s2 R G vd fuel order h' ND NU P C).
Qed.

Section SchedNat.
Variable ob : N -> M vcell.
Variable Nv : vm -> Prop.
Hypothesis N_ready : forall s, Nv s -> gc_ready s.
Hypothesis N_step : forall s s', Nv s -> run_one ob s = ROk false s' -> Nv s'.
Hypothesis N_gc : forall s s', Nv s -> collects s s' -> Nv s'.

Theorem sched_unobservable_natural : forall sched s1 s2,
  related s1 s2 -> Nv s2 -> plain_ok_all ob (length sched) s1 ->
  match run_plain ob (length sched) s1 with
  | ROk b s1' => exists s2', run_sched ob collects sched s2 (ROk b s2') /\ related s1' s2'
  | RErr e msg s1' => exists s2', run_sched ob collects sched s2 (RErr e msg s2') /\ related s1' s2'
  | _ => True
  end.
Proof.
  induction sched as [|b r IH]; intros s1 s2 Rel HN Hok.
  - cbn [length run_plain]. exists s2. split; [constructor|exact Rel].
  - cbn [length run_plain plain_ok_all] in *. destruct Hok as [Hc Hrest].
    assert (G : exists s0, (if b then collects s2 s0 else s0 = s2) /\ related s1 s0 /\ Nv s0).
    { destruct b; [|exists s2; split; [reflexivity|split; [exact Rel|exact HN]]].
      destruct (N_ready s2 HN) as (G1 & G2 & G3 & s0 & Hg). exists s0. split; [exact Hg|]. split.
      - exact (collects_related _ _ _ Rel G1 G2 G3 Hg).
      - exact (N_gc _ _ HN Hg). }
    destruct G as (s0 & Hg & [W R0] & HN0).
    pose proof (run_one_iso_all ob W s1 s0 R0 Hc) as O. unfold outcome in O.
    destruct (run_one ob s1) as [[|] s1'|e msg s1'| |] eqn:E1; try exact I.
    + destruct (O Hrest) as (a2 & s2' & W' & E2 & _ & R' & Q). red in Q. subst a2.
      exists s2'. split; [|exists W'; exact R'].
      eapply rs_stop; [exact Hg|exact E2|]. intros s' Hx. discriminate.
    + destruct Hrest as [Hb Hk]. destruct (O Hb) as (a2 & s2' & W' & E2 & _ & R' & Q). red in Q. subst a2.
      specialize (IH s1' s2' (ex_intro _ W' R') (N_step _ _ HN0 E2) Hk).
      destruct (run_plain ob (length r) s1') as [b' s1''|e msg s1''| |]; try exact I.
      * destruct IH as (s2'' & Hr & Rel'). exists s2''. split; [|exact Rel'].
        eapply rs_step; [exact Hg|exact E2|exact Hr].
      * destruct IH as (s2'' & Hr & Rel'). exists s2''. split; [|exact Rel'].
        eapply rs_step; [exact Hg|exact E2|exact Hr].
    + destruct (O Hrest) as (s2' & W' & E2 & _ & R').
      exists s2'. split; [|exists W'; exact R'].
      eapply rs_stop; [exact Hg|exact E2|]. intros s' Hx. discriminate.
Qed.
End SchedNat.

(* ------------------------------------------------------------------ a collection keeps the invariant *)
(* the three state conditions of [gc_ready] (everything but "the next collection returns") are
   kept by a collection: no allocated cell appears or changes, nothing reachable is free
   afterwards, no Used mark is left *)
Definition ready3 (s : vm) : Prop := gc_natural s /\ reach_allocated s /\ no_used (hp s).

Lemma collect_cells vd fuel order v h' :
  no_used (hp v) -> reach_allocated v -> Permutation order (map fst (g_bind v)) ->
  collect vd fuel order v = Ok h' ->
  no_used h' /\
  forall a, allocated h' a -> allocated (hp v) a /\ cell_at h' a = cell_at (hp v) a.
Proof.
  intros NU ND P H. pose proof (collect_hlen _ _ _ _ _ H) as Hl.
  destruct (collect_inv _ _ _ _ _ H) as [m [Hm Hs]].
  pose proof (mark_exact vd fuel order v _ m NU Hm) as ME.
  pose proof (mark_roots_spec _ _ _ _ _ _ Hm) as MS.
  destruct (sweep_exact (set_gcmap (hp v) m)) as [h2 [E2 [L [C [Gm [K _]]]]]].
  rewrite Hs in E2. injection E2 as <-. cbn [set_gcmap hlen gcmap cells] in *. split.
  - intros a. unfold g_is_used. rewrite Gm. destruct (N.ltb_spec a (hlen (hp v))) as [Lt|Ge].
    + destruct (g_get m a); reflexivity.
    + destruct (ms_frame _ _ _ _ _ MS a) as [E|[_ [L' _]]]; [|lia].
      rewrite E. apply (NU a).
  - intros a [Lt Al]. rewrite Hl in Lt. rewrite Gm in Al. rewrite K.
    apply N.ltb_lt in Lt. rewrite Lt in *. cbn [andb]. apply N.ltb_lt in Lt.
    destruct (g_get m a) eqn:Eg; cbn [swept_state st_alloc] in *; try (exfalso; apply Al; reflexivity).
    split; [|reflexivity]. split; [exact Lt|].
    apply ND; [exact Lt|]. apply (reach_perm v order a P). apply ME. apply g_is_used_get. exact Eg.
Qed.

Theorem collects_ready3 s s' : ready3 s -> collects s s' -> ready3 s'.
Proof.
  intros (G & ND & NU) (vd & fuel & order & h' & P & C & ->).
  destruct (collect_cells vd fuel order s h' NU ND P C) as [NU' Cells]. split; [|split].
  - destruct G as [G1 G2 G3 G4 G5 G6 G7 G8]. constructor; cbn [hp st acc sp g_slots with_heap]; try assumption.
    + intros a Ha. destruct (Cells a Ha) as [A E]. rewrite E. apply G1, A.
  - intros a Lt Rc. cbn [hp with_heap] in *.
    pose proof (no_dangling_collect vd fuel order s h' NU P C a Rc Lt) as A. cbn [hp with_heap] in A.
    rewrite A. discriminate.
  - exact NU'.
Qed.

(* corollary: the invariant instantiated with [ready3]; what remains to be shown of the machine is
   (d) [ready3] is kept by run_one, and that the marking fuels suffice (the collection returns) *)
Theorem sched_unobservable_ready3 ob :
  (forall s s', ready3 s -> run_one ob s = ROk false s' -> ready3 s') ->
  (forall s, ready3 s -> exists s', collects s s') ->
  forall sched s1 s2,
  related s1 s2 -> ready3 s2 -> plain_ok_all ob (length sched) s1 ->
  match run_plain ob (length sched) s1 with
  | ROk b s1' => exists s2', run_sched ob collects sched s2 (ROk b s2') /\ related s1' s2'
  | RErr e msg s1' => exists s2', run_sched ob collects sched s2 (RErr e msg s2') /\ related s1' s2'
  | _ => True
  end.
Proof.
  intros Hstep Htot. apply (sched_unobservable_natural ob ready3).
  - intros s (A & B & C). split; [exact A|]. split; [exact B|]. split; [exact C|].
    apply Htot. split; [exact A|split; [exact B|exact C]].
  - exact Hstep.
  - exact collects_ready3.
Qed.
