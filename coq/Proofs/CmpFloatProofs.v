(* CmpFloatProofs.v — number.rs PartialOrd on the representation pairs that involve a
   Float (C09 cmp_exact, the part left OPEN by the "num" package).  The value of a finite
   double is a rational [f64_to_Q]; the comparison of two doubles is the comparison of
   their values (Flocq's Bcompare_correct, through R); an exact operand is first
   converted to a double by the code, so the result is the mathematical one exactly when
   that conversion is exact ([exact_in_f64], decidable).                                *)
From Coq Require Import ZArith Lia Lra Bool QArith Reals Qreals.
From Flocq Require Import Core IEEE754.BinarySingleNaN.
From MW Require Import Model.Base Model.F64 Model.F64More Model.Num Model.Ratio32 Model.NumArith Model.NumSpec
  Proofs.GcdProofs Proofs.Ratio32Proofs Proofs.NumProofs Proofs.CmpProofs.
Open Scope Z_scope.

(* ---- the value of a double: (-1)^s * m * 2^e; None for the infinities and NaN *)
Definition f64_to_Q (f : f64) : option Q :=
  match f with
  | B754_zero _ => Some 0%Q
  | B754_finite s m e _ =>
      let sm := if s then Z.neg m else Z.pos m in
      Some (if 0 <=? e then inject_Z (sm * 2 ^ e) else sm # Z.to_pos (2 ^ (- e)))
  | _ => None
  end.

Lemma f64_to_Q_finite f q : f64_to_Q f = Some q -> is_finite f = true.
Proof. destruct f; try discriminate; reflexivity. Qed.
Lemma finite_f64_to_Q f : is_finite f = true -> exists q, f64_to_Q f = Some q.
Proof. destruct f; try discriminate; eexists; reflexivity. Qed.

(* f64_to_Q is Flocq's real value B2R *)
Lemma f64_to_Q_B2R f q : f64_to_Q f = Some q -> Q2R q = B2R f.
Proof.
  destruct f as [s| | |s m e B]; try discriminate; cbn [f64_to_Q B2R]; intros H; inversion H; subst q; clear H.
  - unfold Q2R. cbn. lra.
  - unfold F2R. cbn [Fnum Fexp].
    assert (Es : SpecFloat.cond_Zopp s (Z.pos m) = if s then Z.neg m else Z.pos m) by (destruct s; reflexivity).
    rewrite Es. set (sm := if s then Z.neg m else Z.pos m).
    destruct (Z.leb_spec 0 e) as [He|He].
    + unfold Q2R, inject_Z. cbn [Qnum Qden]. rewrite mult_IZR.
      replace (bpow radix2 e) with (IZR (2 ^ e)) by (exact (IZR_Zpower radix2 e He)).
      change (IZR (Z.pos 1)) with 1%R. rewrite Rinv_1, Rmult_1_r. reflexivity.
    + unfold Q2R. cbn [Qnum Qden].
      assert (P : 0 < 2 ^ (- e)) by (apply Z.pow_pos_nonneg; lia).
      rewrite Z2Pos.id by exact P.
      replace (IZR (2 ^ (- e))) with (bpow radix2 (- e)) by (symmetry; apply (IZR_Zpower radix2 (- e)); lia).
      rewrite bpow_opp. rewrite Rinv_inv. reflexivity.
Qed.

Lemma Rcompare_Q2R a b : Rcompare (Q2R a) (Q2R b) = (a ?= b)%Q.
Proof.
  destruct (Qcompare_spec a b) as [E|L|G].
  - apply Rcompare_Eq. now apply Qeq_eqR.
  - apply Rcompare_Lt. now apply Qlt_Rlt.
  - apply Rcompare_Gt. now apply Qlt_Rlt.
Qed.

(* Float-Float: partial_cmp of two finite doubles is the comparison of their values *)
Theorem f64_cmp_finite a b va vb :
  f64_to_Q a = Some va -> f64_to_Q b = Some vb -> f64_cmp a b = Some (va ?= vb)%Q.
Proof.
  intros Ha Hb. unfold f64_cmp.
  rewrite Bcompare_correct by (eapply f64_to_Q_finite; eassumption).
  rewrite <- (f64_to_Q_B2R a va Ha), <- (f64_to_Q_B2R b vb Hb). f_equal. apply Rcompare_Q2R.
Qed.

(* ---- mixed pairs: the code converts the exact operand to a double first *)
Definition nonnan (x : num) : bool :=
  match x with Float f => negb (f64_is_nan f) | _ => true end.
(* the value of a number: exact numbers by [qv], finite doubles by [f64_to_Q] *)
Definition nvalq (x : num) : option Q :=
  match x with Float f => f64_to_Q f | _ => Some (qv x) end.

(* "the exact operand converts exactly": to_f64 of the number is a finite double whose
   value is the number.  Decidable; true of every Float. *)
Definition exact_in_f64 (x : num) : bool :=
  match x with
  | Float _ => true
  | _ => match num_to_f64 x with
         | Some f => match f64_to_Q f with Some q => Qeq_bool q (qv x) | None => false end
         | None => false
         end
  end.
(* the side condition of the corrected cmp_exact: both exact (any values), or every exact
   operand converts exactly *)
Definition float_side_exact (a b : num) : bool :=
  (is_exact a && is_exact b) || (exact_in_f64 a && exact_in_f64 b).

Lemma exact_in_f64_inv x : is_exact x = true -> exact_in_f64 x = true ->
  exists f q, num_to_f64 x = Some f /\ f64_to_Q f = Some q /\ (q == qv x)%Q.
Proof.
  intros X H. destruct x as [z|z|n d|f]; try discriminate; unfold exact_in_f64 in H;
    (destruct (num_to_f64 _) as [f|]; [|discriminate]);
    (destruct (f64_to_Q f) as [q|] eqn:Eq; [|discriminate]);
    exists f, q; (split; [reflexivity|]); (split; [exact Eq|]); now apply Qeq_bool_iff.
Qed.

Lemma cmp_exact_vs_float p x r f : is_exact x = true -> num_to_f64 x = Some f ->
  num_partial_cmp p x (Float r) = Ok (f64_cmp f r).
Proof.
  intros X H. destruct x as [z|z|n d|g]; try discriminate; cbn [num_partial_cmp num_to_f64] in *.
  - inversion H. reflexivity.
  - inversion H. reflexivity.
  - unfold r_f64_unwrap. rewrite H. reflexivity.
Qed.
Lemma cmp_float_vs_exact p x l f : is_exact x = true -> num_to_f64 x = Some f ->
  num_partial_cmp p (Float l) x = Ok (f64_cmp l f).
Proof.
  intros X H. destruct x as [z|z|n d|g]; try discriminate; cbn [num_partial_cmp num_to_f64] in *.
  - inversion H. reflexivity.
  - inversion H. reflexivity.
  - unfold r_f64_unwrap. rewrite H. reflexivity.
Qed.

Lemma nvalq_exact x : is_exact x = true -> nvalq x = Some (qv x).
Proof. destruct x; try discriminate; reflexivity. Qed.

(* the 7 pairs with a Float *)
Theorem cmp_with_float p a b va vb :
  is_exact a && is_exact b = false -> exact_in_f64 a = true -> exact_in_f64 b = true ->
  nvalq a = Some va -> nvalq b = Some vb ->
  num_partial_cmp p a b = Ok (Some (va ?= vb)%Q).
Proof.
  intros NX Ea Eb Va Vb.
  destruct (is_exact a) eqn:Xa; destruct (is_exact b) eqn:Xb; try discriminate.
  - (* exact vs Float *)
    destruct b as [ | | |r]; try discriminate. cbn [nvalq] in Vb.
    destruct (exact_in_f64_inv a Xa Ea) as [f [q [Hf [Hq E]]]].
    rewrite (cmp_exact_vs_float p a r f Xa Hf), (f64_cmp_finite f r q vb Hq Vb).
    rewrite nvalq_exact in Va by exact Xa. inversion Va. subst va. now rewrite E.
  - destruct a as [ | | |l]; try discriminate. cbn [nvalq] in Va.
    destruct (exact_in_f64_inv b Xb Eb) as [f [q [Hf [Hq E]]]].
    rewrite (cmp_float_vs_exact p b l f Xb Hf), (f64_cmp_finite l f va q Va Hq).
    rewrite nvalq_exact in Vb by exact Xb. inversion Vb. subst vb. now rewrite E.
  - destruct a as [ | | |l]; try discriminate. destruct b as [ | | |r]; try discriminate.
    cbn [nvalq num_partial_cmp] in *. now rewrite (f64_cmp_finite l r va vb Va Vb).
Qed.

(* all 16 representation pairs: the OPEN statement of the "num" package with the
   valuation instantiated and the side condition explicit *)
Theorem cmp_all_pairs p a b va vb :
  wfb a = true -> wfb b = true -> nonnan a = true -> nonnan b = true ->
  float_side_exact a b = true ->
  nvalq a = Some va -> nvalq b = Some vb ->
  num_partial_cmp p a b = Ok (Some (va ?= vb)%Q).
Proof.
  intros Wa Wb _ _ S Va Vb. unfold float_side_exact in S.
  destruct (is_exact a && is_exact b) eqn:X.
  - apply andb_true_iff in X. destruct X as [Xa Xb].
    rewrite nvalq_exact in Va, Vb by assumption. inversion Va. inversion Vb. now apply cmp_exact.
  - cbn [orb] in S. apply andb_true_iff in S. destruct S as [Ea Eb]. now apply cmp_with_float.
Qed.

(* ---- when does an integer convert exactly?  z = m * 2^e with |m| < 2^53 (and no overflow):
   in particular every |z| <= 2^53 *)
Lemma Q2R_inject_Z z : Q2R (inject_Z z) = IZR z.
Proof. unfold Q2R, inject_Z. cbn [Qnum Qden]. change (IZR (Z.pos 1)) with 1%R. now rewrite Rinv_1, Rmult_1_r. Qed.

Lemma f64_of_Z_exact z m e : z = m * 2 ^ e -> Z.abs m < 2 ^ 53 -> 0 <= e -> Z.abs z < 2 ^ 1024 ->
  exists q, f64_to_Q (f64_of_Z z) = Some q /\ (q == inject_Z z)%Q.
Proof.
  intros Ez Bm He Bz.
  pose proof (binary_normalize_correct 53 1024 prec_gt_0_53 prec_lt_emax_64 mode_NE z 0 false) as H.
  cbn zeta in H. fold (f64_of_Z z) in H.
  assert (Ex : @F2R radix2 {| Fnum := z; Fexp := 0 |} = IZR z).
  { unfold F2R. cbn [Fnum Fexp bpow]. now rewrite Rmult_1_r. }
  rewrite Ex in H.
  assert (G : generic_format radix2 (SpecFloat.fexp 53 1024) (IZR z)).
  { apply (generic_format_FLT radix2 (3 - 1024 - 53) 53).
    apply (FLT_spec radix2 (3 - 1024 - 53) 53 (IZR z) {| Fnum := m; Fexp := e |}).
    - unfold F2R. cbn [Fnum Fexp]. rewrite Ez, mult_IZR. f_equal. exact (IZR_Zpower radix2 e He).
    - exact Bm.
    - cbn [Fexp]. lia. }
  rewrite round_generic in H by (try exact G; apply valid_rnd_N).
  rewrite Rlt_bool_true in H.
  2:{ rewrite <- abs_IZR. replace (bpow radix2 1024) with (IZR (2 ^ 1024)) by (exact (IZR_Zpower radix2 1024 ltac:(lia))).
      now apply IZR_lt. }
  destruct H as [HR [HF _]].
  destruct (finite_f64_to_Q _ HF) as [q Hq]. exists q. split; [exact Hq|].
  apply eqR_Qeq. rewrite (f64_to_Q_B2R _ _ Hq), HR. symmetry. apply Q2R_inject_Z.
Qed.

Lemma small_int_exact z : Z.abs z <= 2 ^ 53 ->
  exists q, f64_to_Q (f64_of_Z z) = Some q /\ (q == inject_Z z)%Q.
Proof.
  intros B. assert (2 ^ 53 < 2 ^ 1024) by (apply Z.pow_lt_mono_r; lia).
  destruct (Z_lt_le_dec (Z.abs z) (2 ^ 53)) as [L|L].
  - apply (f64_of_Z_exact z z 0); try lia.
  - assert (E : z = 2 ^ 53 \/ z = - 2 ^ 53) by lia.
    change (2 ^ 53) with (2 ^ 52 * 2 ^ 1) in E.
    destruct E as [E|E].
    + apply (f64_of_Z_exact z (2 ^ 52) 1); lia.
    + apply (f64_of_Z_exact z (- 2 ^ 52) 1); lia.
Qed.

Lemma small_int_exact_in_f64 z : Z.abs z <= 2 ^ 53 ->
  exact_in_f64 (Fixnum z) = true /\ exact_in_f64 (BigInt z) = true.
Proof.
  intros B. destruct (small_int_exact z B) as [q [Hq E]].
  unfold exact_in_f64. cbn [num_to_f64 qv]. unfold of_i64, of_big. rewrite Hq.
  split; now apply Qeq_bool_iff.
Qed.

(* ---- which Rationals convert exactly?  every n / 2^k (the conversion is one correctly
   rounded division of two exactly converted i32) *)
Lemma f64_of_Z_B2R z m e : z = m * 2 ^ e -> Z.abs m < 2 ^ 53 -> 0 <= e -> Z.abs z < 2 ^ 1024 ->
  B2R (f64_of_Z z) = IZR z /\ is_finite (f64_of_Z z) = true.
Proof.
  intros Ez Bm He Bz.
  pose proof (binary_normalize_correct 53 1024 prec_gt_0_53 prec_lt_emax_64 mode_NE z 0 false) as H.
  cbn zeta in H. fold (f64_of_Z z) in H.
  assert (Ex : @F2R radix2 {| Fnum := z; Fexp := 0 |} = IZR z).
  { unfold F2R. cbn [Fnum Fexp bpow]. now rewrite Rmult_1_r. }
  rewrite Ex in H.
  assert (G : generic_format radix2 (SpecFloat.fexp 53 1024) (IZR z)).
  { apply (generic_format_FLT radix2 (3 - 1024 - 53) 53).
    apply (FLT_spec radix2 (3 - 1024 - 53) 53 (IZR z) {| Fnum := m; Fexp := e |}).
    - unfold F2R. cbn [Fnum Fexp]. rewrite Ez, mult_IZR. f_equal. exact (IZR_Zpower radix2 e He).
    - exact Bm.
    - cbn [Fexp]. lia. }
  rewrite round_generic in H by (try exact G; apply valid_rnd_N).
  rewrite Rlt_bool_true in H.
  2:{ rewrite <- abs_IZR. replace (bpow radix2 1024) with (IZR (2 ^ 1024)) by (exact (IZR_Zpower radix2 1024 ltac:(lia))).
      now apply IZR_lt. }
  destruct H as [HR [HF _]]. split; assumption.
Qed.

Lemma i32_B2R z : in_i32 z = true -> B2R (f64_of_Z z) = IZR z /\ is_finite (f64_of_Z z) = true.
Proof.
  intros H. unfold in_i32, I32_MIN, I32_MAX in H. apply andb_true_iff in H. rewrite !Z.leb_le in H.
  assert (2 ^ 31 < 2 ^ 53) by (apply Z.pow_lt_mono_r; lia).
  assert (2 ^ 53 < 2 ^ 1024) by (apply Z.pow_lt_mono_r; lia).
  apply (f64_of_Z_B2R z z 0); lia.
Qed.

Theorem dyadic_exact_in_f64 n k : in_i32 n = true -> 0 <= k <= 30 ->
  exact_in_f64 (Rational n (2 ^ k)) = true.
Proof.
  intros Hn Hk.
  assert (Hd : in_i32 (2 ^ k) = true).
  { unfold in_i32, I32_MIN, I32_MAX. apply andb_true_iff. rewrite !Z.leb_le.
    assert (0 < 2 ^ k) by (apply Z.pow_pos_nonneg; lia).
    assert (2 ^ k <= 2 ^ 30) by (apply Z.pow_le_mono_r; lia).
    change (2 ^ 31) with (2 * 2 ^ 30). lia. }
  destruct (i32_B2R n Hn) as [Rx Fx]. destruct (i32_B2R (2 ^ k) Hd) as [Ry Fy].
  assert (Pk : (0 < IZR (2 ^ k))%R) by (apply IZR_lt; apply Z.pow_pos_nonneg; lia).
  pose proof (Bdiv_correct 53 1024 prec_gt_0_53 prec_lt_emax_64 mode_NE (f64_of_Z n) (f64_of_Z (2 ^ k))) as H.
  rewrite Rx, Ry in H. specialize (H ltac:(lra)).
  assert (Ev : (IZR n / IZR (2 ^ k))%R = @F2R radix2 {| Fnum := n; Fexp := - k |}).
  { unfold F2R, Rdiv. cbn [Fnum Fexp]. rewrite bpow_opp. f_equal. f_equal.
    exact (IZR_Zpower radix2 k ltac:(lia)). }
  assert (G : generic_format radix2 (SpecFloat.fexp 53 1024) (IZR n / IZR (2 ^ k))).
  { apply (generic_format_FLT radix2 (3 - 1024 - 53) 53).
    apply (FLT_spec radix2 (3 - 1024 - 53) 53 _ {| Fnum := n; Fexp := - k |}).
    - exact Ev.
    - cbn [Fnum]. unfold in_i32, I32_MIN, I32_MAX in Hn. apply andb_true_iff in Hn. rewrite !Z.leb_le in Hn.
      assert (2 ^ 31 < 2 ^ 53) by (apply Z.pow_lt_mono_r; lia). change (Z.pow radix2 53) with (2 ^ 53). lia.
    - cbn [Fexp]. lia. }
  rewrite round_generic in H by (try exact G; apply valid_rnd_N).
  rewrite Rlt_bool_true in H.
  2:{ rewrite Ev. unfold F2R. cbn [Fnum Fexp]. rewrite Rabs_mult, <- abs_IZR.
      rewrite (Rabs_pos_eq (bpow radix2 (- k))) by apply bpow_ge_0.
      apply Rle_lt_trans with (IZR (Z.abs n) * 1)%R.
      - apply Rmult_le_compat_l; [apply IZR_le; lia|].
        change 1%R with (bpow radix2 0). apply bpow_le. lia.
      - rewrite Rmult_1_r.
        replace (bpow radix2 1024) with (IZR (2 ^ 1024)) by (exact (IZR_Zpower radix2 1024 ltac:(lia))).
        apply IZR_lt. unfold in_i32, I32_MIN, I32_MAX in Hn. apply andb_true_iff in Hn. rewrite !Z.leb_le in Hn.
        assert (2 ^ 31 < 2 ^ 1024) by (apply Z.pow_lt_mono_r; lia). lia. }
  destruct H as [HR [HF _]]. rewrite Fx in HF.
  unfold exact_in_f64. cbn [num_to_f64]. unfold rto_f64. cbn [fst snd]. fold (f64_div (f64_of_Z n) (f64_of_Z (2 ^ k))) in *.
  set (f := f64_div (f64_of_Z n) (f64_of_Z (2 ^ k))) in *.
  assert (NN : f64_is_nan f = false) by (destruct f; try discriminate; reflexivity).
  rewrite NN.
  destruct (finite_f64_to_Q f HF) as [q Hq]. rewrite Hq. apply Qeq_bool_iff.
  apply eqR_Qeq. rewrite (f64_to_Q_B2R f q Hq).
  rewrite HR. cbn [qv]. unfold Q2R. cbn [Qnum Qden].
  rewrite Z2Pos.id by (apply Z.pow_pos_nonneg; lia). reflexivity.
Qed.

(* Rational n/2^k against a finite double: the mathematical order, unconditionally *)
Theorem cmp_dyadic_float p n k r vr : rwfb n (2 ^ k) = true -> 0 <= k -> f64_to_Q r = Some vr ->
  num_partial_cmp p (Rational n (2 ^ k)) (Float r) = Ok (Some ((n # Z.to_pos (2 ^ k)) ?= vr)%Q) /\
  num_partial_cmp p (Float r) (Rational n (2 ^ k)) = Ok (Some (vr ?= (n # Z.to_pos (2 ^ k)))%Q).
Proof.
  intros W Hk Hr. unfold rwfb in W. rewrite !andb_true_iff in W. destruct W as [[[Rn Rd] _] _].
  assert (K : k <= 30).
  { destruct (Z_le_gt_dec k 30) as [L|L]; [exact L|exfalso].
    unfold in_i32, I32_MIN, I32_MAX in Rd. apply andb_true_iff in Rd. rewrite !Z.leb_le in Rd.
    assert (2 ^ 31 <= 2 ^ k) by (apply Z.pow_le_mono_r; lia). lia. }
  pose proof (dyadic_exact_in_f64 n k Rn (conj Hk K)) as E.
  split; apply cmp_with_float; try assumption; try reflexivity.
Qed.

(* Fixnum / BigInt against a finite double, every |z| <= 2^53: the mathematical order *)
Theorem cmp_small_int_float p (big : bool) z r vr : Z.abs z <= 2 ^ 53 -> f64_to_Q r = Some vr ->
  let x := if big then BigInt z else Fixnum z in
  num_partial_cmp p x (Float r) = Ok (Some (inject_Z z ?= vr)%Q) /\
  num_partial_cmp p (Float r) x = Ok (Some (vr ?= inject_Z z)%Q).
Proof.
  intros B Hr x. destruct (small_int_exact_in_f64 z B) as [E1 E2].
  assert (Ex : exact_in_f64 x = true) by (subst x; destruct big; assumption).
  assert (Vx : nvalq x = Some (inject_Z z)) by (subst x; destruct big; reflexivity).
  assert (Xx : is_exact x = true) by (subst x; destruct big; reflexivity).
  split; apply cmp_with_float; try assumption; try reflexivity; now rewrite Xx.
Qed.

(* ---- the same with the infinities: the extended rationals *)
Inductive xq := XNegInf | XFin (q : Q) | XPosInf.
Definition xq_cmp (a b : xq) : comparison :=
  match a, b with
  | XNegInf, XNegInf => Eq | XNegInf, _ => Lt | _, XNegInf => Gt
  | XPosInf, XPosInf => Eq | XPosInf, _ => Gt | _, XPosInf => Lt
  | XFin x, XFin y => (x ?= y)%Q
  end.
Definition f64_to_xq (f : f64) : option xq :=
  match f with
  | B754_nan => None
  | B754_infinity s => Some (if s then XNegInf else XPosInf)
  | _ => match f64_to_Q f with Some q => Some (XFin q) | None => None end
  end.
Definition nvalx (x : num) : option xq :=
  match x with Float f => f64_to_xq f | _ => Some (XFin (qv x)) end.

Lemma f64_to_xq_fin f q : f64_to_Q f = Some q -> f64_to_xq f = Some (XFin q).
Proof. destruct f; try discriminate; cbn [f64_to_xq]; intros H; now rewrite H. Qed.

Lemma nonnan_nvalx x : nonnan x = true -> exists v, nvalx x = Some v.
Proof.
  destruct x as [z|z|n d|f]; try (eexists; reflexivity).
  destruct f; try discriminate; intros _; eexists; reflexivity.
Qed.

Theorem f64_cmp_xq a b va vb :
  f64_to_xq a = Some va -> f64_to_xq b = Some vb -> f64_cmp a b = Some (xq_cmp va vb).
Proof.
  intros Ha Hb.
  destruct (f64_to_Q a) as [qa|] eqn:Qa; destruct (f64_to_Q b) as [qb|] eqn:Qb.
  - rewrite (f64_to_xq_fin a qa Qa) in Ha. rewrite (f64_to_xq_fin b qb Qb) in Hb.
    inversion Ha. inversion Hb. cbn [xq_cmp]. now apply f64_cmp_finite.
  - destruct b as [sb|sb| |sb mb eb Bb]; try discriminate. cbn [f64_to_xq] in Hb. inversion Hb.
    destruct a as [sa|sa| |sa ma ea Ba]; try discriminate; cbn [f64_to_xq f64_to_Q] in Ha; inversion Ha;
      destruct sb; reflexivity.
  - destruct a as [sa|sa| |sa ma ea Ba]; try discriminate. cbn [f64_to_xq] in Ha. inversion Ha.
    destruct b as [sb|sb| |sb mb eb Bb]; try discriminate; cbn [f64_to_xq f64_to_Q] in Hb; inversion Hb;
      destruct sa; reflexivity.
  - destruct a as [sa|sa| |sa ma ea Ba]; try discriminate. destruct b as [sb|sb| |sb mb eb Bb]; try discriminate.
    cbn [f64_to_xq] in Ha, Hb. inversion Ha. inversion Hb. destruct sa, sb; reflexivity.
Qed.

Lemma xq_cmp_Qeq_l q q' v : (q == q')%Q -> xq_cmp (XFin q) v = xq_cmp (XFin q') v.
Proof. intros E. destruct v; cbn [xq_cmp]; try reflexivity. now rewrite E. Qed.
Lemma xq_cmp_Qeq_r q q' v : (q == q')%Q -> xq_cmp v (XFin q) = xq_cmp v (XFin q').
Proof. intros E. destruct v; cbn [xq_cmp]; try reflexivity. now rewrite E. Qed.

(* cmp_exact for ALL non-NaN numbers, infinities included, in every representation pair *)
Theorem cmp_all_pairs_inf p a b va vb :
  wfb a = true -> wfb b = true -> nonnan a = true -> nonnan b = true ->
  float_side_exact a b = true ->
  nvalx a = Some va -> nvalx b = Some vb ->
  num_partial_cmp p a b = Ok (Some (xq_cmp va vb)).
Proof.
  intros Wa Wb _ _ S Va Vb. unfold float_side_exact in S.
  destruct (is_exact a) eqn:Xa; destruct (is_exact b) eqn:Xb; cbn [andb orb] in S.
  - destruct a; try discriminate; destruct b; try discriminate; cbn [nvalx] in Va, Vb;
      inversion Va; inversion Vb; cbn [xq_cmp]; now apply cmp_exact.
  - apply andb_true_iff in S. destruct S as [Ea Eb].
    destruct b as [ | | |r]; try discriminate. cbn [nvalx] in Vb.
    destruct (exact_in_f64_inv a Xa Ea) as [f [q [Hf [Hq E]]]].
    rewrite (cmp_exact_vs_float p a r f Xa Hf), (f64_cmp_xq f r (XFin q) vb (f64_to_xq_fin f q Hq) Vb).
    assert (Va' : va = XFin (qv a)) by (destruct a; try discriminate; cbn [nvalx] in Va; now inversion Va).
    subst va. now rewrite (xq_cmp_Qeq_l q (qv a) vb E).
  - apply andb_true_iff in S. destruct S as [Ea Eb].
    destruct a as [ | | |l]; try discriminate. cbn [nvalx] in Va.
    destruct (exact_in_f64_inv b Xb Eb) as [f [q [Hf [Hq E]]]].
    rewrite (cmp_float_vs_exact p b l f Xb Hf), (f64_cmp_xq l f va (XFin q) Va (f64_to_xq_fin f q Hq)).
    assert (Vb' : vb = XFin (qv b)) by (destruct b; try discriminate; cbn [nvalx] in Vb; now inversion Vb).
    subst vb. now rewrite (xq_cmp_Qeq_r q (qv b) va E).
  - destruct a as [ | | |l]; try discriminate. destruct b as [ | | |r]; try discriminate.
    cbn [nvalx num_partial_cmp] in *. now rewrite (f64_cmp_xq l r va vb Va Vb).
Qed.

Lemma cmp_float_float p a b va vb :
  f64_to_Q a = Some va -> f64_to_Q b = Some vb ->
  num_partial_cmp p (Float a) (Float b) = Ok (Some (va ?= vb)%Q).
Proof. intros Ha Hb. cbn [num_partial_cmp]. now rewrite (f64_cmp_finite a b va vb Ha Hb). Qed.

(* ---- PartialEq and the derived < on all non-NaN numbers; transitivity outside the
   rounding class *)
Lemma f64_eqb_cmp a b : f64_eqb a b = match f64_cmp a b with Some Eq => true | _ => false end.
Proof. reflexivity. Qed.

Lemma exact_in_f64_to_f64 x : exact_in_f64 x = true -> exists f, num_to_f64 x = Some f.
Proof.
  destruct x as [z|z|n d|f]; try (eexists; reflexivity).
  unfold exact_in_f64. destruct (num_to_f64 (Rational n d)) as [f|]; [eexists; reflexivity|discriminate].
Qed.

(* with a Float among the operands, both == and partial_cmp run on the doubles *)
Lemma mixed_as_f64 p a b f g : is_exact a && is_exact b = false ->
  num_to_f64 a = Some f -> num_to_f64 b = Some g ->
  num_partial_cmp p a b = Ok (f64_cmp f g) /\ num_eq p a b = Ok (f64_eqb f g).
Proof.
  intros NX Hf Hg.
  destruct a as [l|l|ln ld|l]; destruct b as [r|r|rn rd|r]; try discriminate;
    cbn [num_to_f64 num_partial_cmp num_eq] in *; unfold r_f64_unwrap;
    try rewrite Hf; try rewrite Hg; try (inversion Hf; subst); try (inversion Hg; subst); split; reflexivity.
Qed.

Theorem eq_all_pairs_inf p a b va vb :
  wfb a = true -> wfb b = true -> nonnan a = true -> nonnan b = true ->
  float_side_exact a b = true ->
  nvalx a = Some va -> nvalx b = Some vb ->
  num_eq p a b = Ok (is_Eq (xq_cmp va vb)).
Proof.
  intros Wa Wb Na Nb S Va Vb.
  pose proof (cmp_all_pairs_inf p a b va vb Wa Wb Na Nb S Va Vb) as C.
  destruct (is_exact a && is_exact b) eqn:X.
  - apply andb_true_iff in X. destruct X as [Xa Xb].
    destruct a; try discriminate; destruct b; try discriminate; cbn [nvalx] in Va, Vb;
      inversion Va; inversion Vb; cbn [xq_cmp]; now apply eq_exact.
  - unfold float_side_exact in S. rewrite X in S. cbn [orb] in S. apply andb_true_iff in S. destruct S as [Ea Eb].
    destruct (exact_in_f64_to_f64 a Ea) as [f Hf]. destruct (exact_in_f64_to_f64 b Eb) as [g Hg].
    destruct (mixed_as_f64 p a b f g X Hf Hg) as [C1 E1].
    rewrite C1 in C. inversion C as [C']. rewrite E1, f64_eqb_cmp, C'. reflexivity.
Qed.

Lemma xq_cmp_eq_trans a b c : xq_cmp a b = Eq -> xq_cmp b c = Eq -> xq_cmp a c = Eq.
Proof.
  destruct a, b, c; cbn [xq_cmp]; try discriminate; try reflexivity.
  rewrite <- !Qeq_alt. intros H1 H2. now rewrite H1.
Qed.
Lemma xq_cmp_lt_trans a b c : xq_cmp a b = Lt -> xq_cmp b c = Lt -> xq_cmp a c = Lt.
Proof.
  destruct a, b, c; cbn [xq_cmp]; try discriminate; try reflexivity.
  rewrite <- !Qlt_alt. apply Qlt_trans.
Qed.

(* = is transitive on all non-NaN numbers (infinities included) whenever no comparison of
   the three rounds an exact operand: C09_full outside the class exact-vs-inexact-by-rounding *)
Theorem eq_trans_all p a b c :
  wfb a = true -> wfb b = true -> wfb c = true ->
  nonnan a = true -> nonnan b = true -> nonnan c = true ->
  float_side_exact a b = true -> float_side_exact b c = true -> float_side_exact a c = true ->
  num_eq p a b = Ok true -> num_eq p b c = Ok true -> num_eq p a c = Ok true.
Proof.
  intros Wa Wb Wc Na Nb Nc Sab Sbc Sac.
  destruct (nonnan_nvalx a Na) as [va Va]. destruct (nonnan_nvalx b Nb) as [vb Vb].
  destruct (nonnan_nvalx c Nc) as [vc Vc].
  rewrite (eq_all_pairs_inf p a b va vb), (eq_all_pairs_inf p b c vb vc), (eq_all_pairs_inf p a c va vc) by assumption.
  intros H1 H2. inversion H1 as [H1']. inversion H2 as [H2']. f_equal.
  destruct (xq_cmp va vb) eqn:C1; try discriminate. destruct (xq_cmp vb vc) eqn:C2; try discriminate.
  now rewrite (xq_cmp_eq_trans va vb vc C1 C2).
Qed.

Theorem lt_trans_all p a b c :
  wfb a = true -> wfb b = true -> wfb c = true ->
  nonnan a = true -> nonnan b = true -> nonnan c = true ->
  float_side_exact a b = true -> float_side_exact b c = true -> float_side_exact a c = true ->
  num_lt p a b = Ok true -> num_lt p b c = Ok true -> num_lt p a c = Ok true.
Proof.
  intros Wa Wb Wc Na Nb Nc Sab Sbc Sac.
  destruct (nonnan_nvalx a Na) as [va Va]. destruct (nonnan_nvalx b Nb) as [vb Vb].
  destruct (nonnan_nvalx c Nc) as [vc Vc].
  unfold num_lt.
  rewrite (cmp_all_pairs_inf p a b va vb), (cmp_all_pairs_inf p b c vb vc), (cmp_all_pairs_inf p a c va vc) by assumption.
  cbn [bind]. intros H1 H2. inversion H1 as [H1']. inversion H2 as [H2']. f_equal.
  destruct (xq_cmp va vb) eqn:C1; try discriminate. destruct (xq_cmp vb vc) eqn:C2; try discriminate.
  now rewrite (xq_cmp_lt_trans va vb vc C1 C2).
Qed.

(* trichotomy on all non-NaN numbers under the side condition *)
Theorem trichotomy_all p a b :
  wfb a = true -> wfb b = true -> nonnan a = true -> nonnan b = true ->
  float_side_exact a b = true ->
  exists lt eq gt, num_lt p a b = Ok lt /\ num_eq p a b = Ok eq /\ num_gt p a b = Ok gt /\
    ((lt = true /\ eq = false /\ gt = false) \/ (lt = false /\ eq = true /\ gt = false) \/
     (lt = false /\ eq = false /\ gt = true)).
Proof.
  intros Wa Wb Na Nb S.
  destruct (nonnan_nvalx a Na) as [va Va]. destruct (nonnan_nvalx b Nb) as [vb Vb].
  unfold num_lt, num_gt.
  rewrite (cmp_all_pairs_inf p a b va vb), (eq_all_pairs_inf p a b va vb) by assumption. cbn [bind].
  do 3 eexists. split; [reflexivity|]. split; [reflexivity|]. split; [reflexivity|].
  destruct (xq_cmp va vb); cbn [is_Eq]; tauto.
Qed.

(* a double differs from a rational (used to state the rounding defect with values) *)
Definition f64_value_is (f : f64) (v : Q) : bool :=
  match f64_to_Q f with Some q => Qeq_bool q v | None => false end.
