(* GrowthProofs.v — the heap sizing policy of Model/Growth.v is bounded: along any trace whose
   collection points see at most L live cells and at most B allocations apart, the capacity
   never exceeds max(cap0, gbound p L B), and the number of growth events is bounded by a
   constant independent of the length of the trace (heap_plateau). *)
From Coq Require Import NArith List Bool Lia.
From MW Require Import Model.Growth.
Import ListNotations.
Open Scope N_scope.

(* ---------- ceil_div ---------- *)

Lemma ceil_div_ge : forall a b, 0 < b -> a <= ceil_div a b * b.
Proof.
  intros a b Hb. unfold ceil_div.
  pose proof (N.div_mod' (a + b - 1) b) as E.
  assert (b <> 0) as Hb0 by lia.
  pose proof (N.mod_lt (a + b - 1) b Hb0) as M.
  set (q := (a + b - 1) / b) in *. set (r := (a + b - 1) mod b) in *.
  nia.
Qed.

Lemma ceil_div_lt : forall a b, 0 < b -> ceil_div a b * b < a + b.
Proof.
  intros a b Hb. unfold ceil_div.
  pose proof (N.div_mod' (a + b - 1) b) as E.
  set (q := (a + b - 1) / b) in *. set (r := (a + b - 1) mod b) in *.
  nia.
Qed.

Lemma ceil_div_mono : forall a a' b, 0 < b -> a <= a' -> ceil_div a b <= ceil_div a' b.
Proof.
  intros a a' b Hb H. unfold ceil_div. apply N.div_le_mono; lia.
Qed.

Lemma lt_ceil_div : forall c x d, 0 < d -> c * d < x -> c < ceil_div x d.
Proof.
  intros c x d Hd H. pose proof (ceil_div_ge x d Hd) as G.
  apply (N.mul_lt_mono_pos_r d); lia.
Qed.

Ltac adm H :=
  unfold admissible in H; rewrite !andb_true_iff, !N.ltb_lt in H;
  destruct H as [[[[[[Ach Afd] Afn] Aln] Ald] Ahn] Ahd].

(* ---------- grow_cap ---------- *)

Lemma grow_cap_upper : forall p cap, admissible p = true ->
  grow_cap p cap <= ceil_div (cap * gp_fn p) (gp_fd p) + gp_chunk p.
Proof.
  intros p cap A. adm A. unfold grow_cap.
  assert (gp_chunk p <> 0) as Hc0 by lia.
  pose proof (N.mul_div_le cap (gp_chunk p) Hc0) as Q.
  set (q := cap / gp_chunk p) in *.
  pose proof (ceil_div_lt (q * gp_fn p) (gp_fd p) ltac:(assumption)) as C.
  pose proof (ceil_div_ge (cap * gp_fn p) (gp_fd p) ltac:(assumption)) as D.
  set (c := ceil_div (q * gp_fn p) (gp_fd p)) in *.
  set (d := ceil_div (cap * gp_fn p) (gp_fd p)) in *.
  set (ch := gp_chunk p) in *. set (fn := gp_fn p) in *. set (fd := gp_fd p) in *.
  destruct (N.eq_dec c 0) as [->|Hc]; [lia|].
  assert (exists c', c = c' + 1) as [c' ->] by (exists (c - 1); lia).
  assert (c' * fd < q * fn) as H1 by lia.
  assert (c' * fd * ch < q * fn * ch) as H2 by (apply N.mul_lt_mono_pos_r; lia).
  assert (q * fn * ch <= cap * fn) as H3.
  { replace (q * fn * ch) with (ch * q * fn) by lia. apply N.mul_le_mono_r. exact Q. }
  assert (c' * ch * fd < d * fd) as H4 by lia.
  assert (c' * ch < d) as H5 by (apply (N.mul_lt_mono_pos_r fd); lia).
  lia.
Qed.

Lemma grow_cap_q : forall p cap, admissible p = true -> gp_chunk p <= cap ->
  (cap / gp_chunk p + 1) * gp_chunk p <= grow_cap p cap.
Proof.
  intros p cap A Hcap. adm A. unfold grow_cap.
  assert (gp_chunk p <> 0) as Hc0 by lia.
  assert (1 <= cap / gp_chunk p) as Q1.
  { apply N.div_le_lower_bound; lia. }
  set (q := cap / gp_chunk p) in *.
  pose proof (ceil_div_ge (q * gp_fn p) (gp_fd p) ltac:(assumption)) as C.
  set (c := ceil_div (q * gp_fn p) (gp_fd p)) in *.
  set (ch := gp_chunk p) in *. set (fn := gp_fn p) in *. set (fd := gp_fd p) in *.
  assert (q * fd < q * fn) as H1 by (apply N.mul_lt_mono_pos_l; lia).
  assert (q < c) as H2 by (apply (N.mul_lt_mono_pos_r fd); lia).
  apply N.mul_le_mono_r. lia.
Qed.

Lemma grow_cap_gt : forall p cap, admissible p = true -> gp_chunk p <= cap ->
  cap < grow_cap p cap.
Proof.
  intros p cap A Hcap. pose proof (grow_cap_q p cap A Hcap) as G. adm A.
  assert (gp_chunk p <> 0) as Hc0 by lia.
  pose proof (N.div_mod' cap (gp_chunk p)) as E.
  pose proof (N.mod_lt cap (gp_chunk p) Hc0) as M.
  set (q := cap / gp_chunk p) in *. set (r := cap mod gp_chunk p) in *.
  nia.
Qed.

Lemma grow_cap_strict : forall p cap, admissible p = true -> gp_chunk p <= cap ->
  cap mod gp_chunk p = 0 -> cap + gp_chunk p <= grow_cap p cap.
Proof.
  intros p cap A Hcap Hm. pose proof (grow_cap_q p cap A Hcap) as G.
  pose proof (N.div_mod' cap (gp_chunk p)) as E. rewrite Hm in E.
  set (q := cap / gp_chunk p) in *.
  nia.
Qed.

Lemma grow_cap_multiple : forall p cap, admissible p = true -> (grow_cap p cap) mod gp_chunk p = 0.
Proof.
  intros p cap A. adm A. unfold grow_cap. apply N.mod_mul. lia.
Qed.

Lemma grow_cap_bound : forall p L B cap, admissible p = true ->
  cap <= gbound_base p L B -> grow_cap p cap <= gbound p L B.
Proof.
  intros p L B cap A H. pose proof (grow_cap_upper p cap A) as U. adm A.
  unfold gbound.
  assert (ceil_div (cap * gp_fn p) (gp_fd p)
          <= ceil_div (gbound_base p L B * gp_fn p) (gp_fd p)).
  { apply ceil_div_mono; [assumption|]. apply N.mul_le_mono_r. exact H. }
  lia.
Qed.

(* ---------- monotonicity of the capacity ---------- *)

Lemma gstep_cap_monotone : forall p s e, admissible p = true -> gp_chunk p <= g_cap s ->
  g_cap s <= g_cap (gstep p s e).
Proof.
  intros p s e A H. pose proof (grow_cap_gt p (g_cap s) A H) as G.
  destruct e as [|live]; cbn [gstep].
  - destruct (N.ltb_spec (g_used s) (g_cap s)); cbn [g_cap]; lia.
  - destruct (N.ltb_spec (g_used s * gp_ld p) (gp_ln p * g_cap s)); [lia|].
    destruct (N.ltb_spec (gp_hn p * g_cap s) (live * gp_hd p)); cbn [g_cap]; lia.
Qed.

Lemma grun_cap_monotone : forall p tr s, admissible p = true -> gp_chunk p <= g_cap s ->
  g_cap s <= g_cap (grun p s tr).
Proof.
  intros p tr. unfold grun. induction tr as [|e tr IH]; intros s A H; cbn [fold_left]; [lia|].
  pose proof (gstep_cap_monotone p s e A H) as M.
  specialize (IH (gstep p s e) A ltac:(lia)). lia.
Qed.

(* ---------- the bound ---------- *)

(* [U] is the used count at the last collection point *)
Definition ginv (p : gparams) (L B cap0 : N) (s : gstate) (since U : N) : Prop :=
  g_used s <= U + since
  /\ (U <= L \/ U * gp_ld p < gp_ln p * g_cap s)
  /\ g_cap s <= N.max cap0 (gbound p L B)
  /\ cap0 <= g_cap s
  /\ gp_chunk p <= g_cap s.

Lemma alloc_grow_base : forall p L B s since U, admissible p = true ->
  since + 1 <= B -> g_used s <= U + since ->
  (U <= L \/ U * gp_ld p < gp_ln p * g_cap s) ->
  g_cap s <= g_used s -> g_cap s <= gbound_base p L B.
Proof.
  intros p L B s since U A HB Hu HU Hfull. adm A. unfold gbound_base.
  destruct HU as [HU|HU]; [lia|].
  assert (g_cap s < ceil_div (B * gp_ld p) (gp_ld p - gp_ln p)); [|lia].
  apply lt_ceil_div; [lia|].
  set (cap := g_cap s) in *. set (ld := gp_ld p) in *. set (ln := gp_ln p) in *.
  assert (cap * ld <= (U + since) * ld) as H1 by (apply N.mul_le_mono_r; lia).
  assert ((since + 1) * ld <= B * ld) as H2 by (apply N.mul_le_mono_r; lia).
  assert (cap * (ld - ln) + cap * ln = cap * ld) as H3.
  { rewrite <- N.mul_add_distr_l. f_equal. lia. }
  nia.
Qed.

Lemma collect_grow_base : forall p L B cap live, admissible p = true ->
  live <= L -> gp_hn p * cap < live * gp_hd p -> cap <= gbound_base p L B.
Proof.
  intros p L B cap live A HL H. adm A. unfold gbound_base.
  assert (cap < ceil_div (L * gp_hd p) (gp_hn p)); [|lia].
  apply lt_ceil_div; [lia|].
  assert (live * gp_hd p <= L * gp_hd p) by (apply N.mul_le_mono_r; lia).
  lia.
Qed.

Lemma thr_preserved : forall U ld ln cap cap', cap <= cap' ->
  U * ld < ln * cap -> U * ld < ln * cap'.
Proof.
  intros U ld ln cap cap' H1 H2.
  assert (ln * cap <= ln * cap') by (apply N.mul_le_mono_l; lia). lia.
Qed.

Lemma ginv_alloc : forall p L B cap0 s since U, admissible p = true ->
  since + 1 <= B -> ginv p L B cap0 s since U ->
  ginv p L B cap0 (gstep p s Alloc) (since + 1) U.
Proof.
  intros p L B cap0 s since U A HB (Hu & HU & Hc & H0 & Hch).
  unfold ginv. cbn [gstep].
  destruct (N.ltb_spec (g_used s) (g_cap s)) as [Hlt|Hge]; cbn [g_cap g_used].
  - repeat split; try lia; try exact HU.
  - pose proof (alloc_grow_base p L B s since U A HB Hu HU Hge) as Hb.
    pose proof (grow_cap_bound p L B _ A Hb) as Hg.
    pose proof (grow_cap_gt p (g_cap s) A Hch) as Hgt.
    assert (U <= L \/ U * gp_ld p < gp_ln p * grow_cap p (g_cap s)) as HU'.
    { destruct HU as [HU|HU]; [left; exact HU|right].
      eapply thr_preserved; [|exact HU]. lia. }
    repeat split; try lia; try exact HU'.
Qed.

Lemma ginv_collect : forall p L B cap0 s since U live, admissible p = true ->
  live <= L -> ginv p L B cap0 s since U ->
  exists U', ginv p L B cap0 (gstep p s (Collect live)) 0 U'.
Proof.
  intros p L B cap0 s since U live A HL (Hu & HU & Hc & H0 & Hch).
  unfold ginv. cbn [gstep].
  destruct (N.ltb_spec (g_used s * gp_ld p) (gp_ln p * g_cap s)) as [Hskip|Hns].
  - exists (g_used s). repeat split; try lia; try (right; exact Hskip).
  - exists live.
    destruct (N.ltb_spec (gp_hn p * g_cap s) (live * gp_hd p)) as [Hgr|Hngr];
      cbn [g_cap g_used].
    + pose proof (collect_grow_base p L B (g_cap s) live A HL Hgr) as Hb.
      pose proof (grow_cap_bound p L B _ A Hb) as Hg.
      pose proof (grow_cap_gt p (g_cap s) A Hch) as Hgt.
      repeat split; try lia.
    + repeat split; try lia.
Qed.

Lemma ginv_run : forall p L B cap0 tr s since U, admissible p = true ->
  trace_ok L B since tr -> ginv p L B cap0 s since U ->
  g_cap (grun p s tr) <= N.max cap0 (gbound p L B).
Proof.
  intros p L B cap0 tr. unfold grun.
  induction tr as [|e tr IH]; intros s since U A Hok Hinv; cbn [fold_left].
  - destruct Hinv as (_ & _ & Hc & _). exact Hc.
  - destruct e as [|live]; cbn [trace_ok] in Hok; destruct Hok as [H1 H2].
    + apply (IH _ (since + 1) U A H2). apply ginv_alloc; assumption.
    + destruct (ginv_collect p L B cap0 s since U live A H1 Hinv) as [U' Hinv'].
      exact (IH _ 0 U' A H2 Hinv').
Qed.

Theorem growth_policy_bound : forall p L B s0 tr,
  admissible p = true -> gp_chunk p <= g_cap s0 -> g_used s0 <= L ->
  trace_ok L B 0 tr ->
  g_cap (grun p s0 tr) <= N.max (g_cap s0) (gbound p L B).
Proof.
  intros p L B s0 tr A Hch Hu Hok.
  apply (ginv_run p L B (g_cap s0) tr s0 0 (g_used s0) A Hok).
  unfold ginv. repeat split; try lia.
Qed.

(* ---------- the plateau ---------- *)

Definition pinv (p : gparams) (cap0 G0 : N) (s : gstate) : Prop :=
  gp_chunk p <= g_cap s
  /\ g_cap s mod gp_chunk p = 0
  /\ G0 <= g_grows s
  /\ g_grows s * gp_chunk p + cap0 <= g_cap s + G0 * gp_chunk p.

Lemma pinv_grow : forall p cap0 G0 s u, admissible p = true -> pinv p cap0 G0 s ->
  pinv p cap0 G0 (mk_gstate (grow_cap p (g_cap s)) u (g_grows s + 1)).
Proof.
  intros p cap0 G0 s u A (Hch & Hm & HG & Hsum). unfold pinv. cbn [g_cap g_grows].
  pose proof (grow_cap_strict p (g_cap s) A Hch Hm) as Hs.
  pose proof (grow_cap_multiple p (g_cap s) A) as Hmul.
  repeat split; try lia.
Qed.

Lemma pinv_step : forall p cap0 G0 s e, admissible p = true -> pinv p cap0 G0 s ->
  pinv p cap0 G0 (gstep p s e).
Proof.
  intros p cap0 G0 s e A Hinv. destruct e as [|live]; cbn [gstep].
  - destruct (N.ltb_spec (g_used s) (g_cap s)).
    + exact Hinv.
    + apply pinv_grow; assumption.
  - destruct (N.ltb_spec (g_used s * gp_ld p) (gp_ln p * g_cap s)); [exact Hinv|].
    destruct (N.ltb_spec (gp_hn p * g_cap s) (live * gp_hd p)).
    + apply pinv_grow; assumption.
    + exact Hinv.
Qed.

Lemma pinv_run : forall p cap0 G0 tr s, admissible p = true -> pinv p cap0 G0 s ->
  pinv p cap0 G0 (grun p s tr).
Proof.
  intros p cap0 G0 tr. unfold grun.
  induction tr as [|e tr IH]; intros s A Hinv; cbn [fold_left]; [exact Hinv|].
  apply IH; [exact A|]. apply pinv_step; assumption.
Qed.

Theorem heap_plateau : forall p L B s0 tr,
  admissible p = true -> gp_chunk p <= g_cap s0 -> g_cap s0 mod gp_chunk p = 0 ->
  g_used s0 <= L -> trace_ok L B 0 tr ->
  (g_grows (grun p s0 tr) - g_grows s0) * gp_chunk p
    <= N.max (g_cap s0) (gbound p L B) - g_cap s0.
Proof.
  intros p L B s0 tr A Hch Hm Hu Hok.
  pose proof (growth_policy_bound p L B s0 tr A Hch Hu Hok) as Hb.
  assert (pinv p (g_cap s0) (g_grows s0) s0) as Hp.
  { unfold pinv. repeat split; try lia. }
  destruct (pinv_run p (g_cap s0) (g_grows s0) tr s0 A Hp) as (_ & _ & HG & Hsum).
  set (G := g_grows (grun p s0 tr)) in *. set (G0 := g_grows s0) in *.
  set (ch := gp_chunk p) in *.
  assert ((G - G0) * ch + G0 * ch = G * ch) as E.
  { rewrite <- N.mul_add_distr_r. f_equal. lia. }
  lia.
Qed.

Print Assumptions growth_policy_bound.
Print Assumptions heap_plateau.

(* ---------- non-vacuity ---------- *)

Example growth_example :
  let p := mk_gparams 8192 15 10 75 100 75 100 in
  admissible p = true /\ trace_ok 10 3 0 [Alloc; Alloc; Collect 5; Alloc; Collect 10] /\
  g_cap (grun p (mk_gstate 8192 0 0) [Alloc; Alloc; Collect 5; Alloc; Collect 10]) = 8192.
Proof.
  cbv zeta. split; [vm_compute; reflexivity|]. split; [|vm_compute; reflexivity].
  cbn [trace_ok]. repeat split; vm_compute; discriminate.
Qed.
