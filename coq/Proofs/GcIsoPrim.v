(* GcIsoPrim.v — C03, part 3: the simulation judgement and the primitives of VmBase.v / Vm.v.
   [sim W Q m1 m2]: from [srel W]-related states, if m1 ends (normally or with an error) in a
   state whose heap still fits in a usize, m2 ends the same way in a related state of an
   extended world, with [Q]-related results. *)
From Coq Require Import Lia List.
From MW Require Import Model.Base Model.Num Model.VmTypes Model.Heap Model.Gc Model.VmBase Model.Vm
  Proofs.GcProofs Proofs.SymtabProofs Proofs.GcIso.
Open Scope N_scope.
Arguments N.add : simpl never.
Arguments N.sub : simpl never.
Arguments N.eqb : simpl never.
Arguments N.ltb : simpl never.
Arguments N.leb : simpl never.
Arguments N.mul : simpl never.

Definition bounded (s : vm) : Prop := hlen (hp s) <= NULL.
Definition hmono {A} (m : M A) : Prop :=
  forall s, match m s with
            | ROk _ s' => hlen (hp s) <= hlen (hp s')
            | RErr _ _ s' => hlen (hp s) <= hlen (hp s')
            | _ => True
            end.

Definition sim {A1 A2} (W : world) (Q : world -> A1 -> A2 -> Prop) (m1 : M A1) (m2 : M A2) : Prop :=
  forall s1 s2, srel W s1 s2 ->
    match m1 s1 with
    | ROk a1 s1' => bounded s1' ->
        exists a2 s2' W', m2 s2 = ROk a2 s2' /\ ext W W' /\ srel W' s1' s2' /\ Q W' a1 a2
    | RErr e msg s1' => bounded s1' ->
        exists s2' W', m2 s2 = RErr e msg s2' /\ ext W W' /\ srel W' s1' s2'
    | _ => True
    end.

Definition eqr {A} (W : world) (a b : A) : Prop := a = b.
Definition anyr {A B} (W : world) (a : A) (b : B) : Prop := True.

Lemma hm_bind {A B} (m : M A) (k : A -> M B) : hmono m -> (forall a, hmono (k a)) -> hmono (bindM m k).
Proof.
  intros Hm Hk s. unfold bindM. specialize (Hm s). destruct (m s) as [a s'|e msg s'| |]; try exact I.
  - specialize (Hk a s'). destruct (k a s'); try exact I; lia.
  - exact Hm.
Qed.
Lemma hm_same {A} (m : M A) :
  (forall s, match m s with ROk _ s' => hp s' = hp s | RErr _ _ s' => hp s' = hp s | _ => True end) -> hmono m.
Proof. intros H s. specialize (H s). destruct (m s); try exact I; rewrite H; lia. Qed.

Lemma sim_bind {A1 A2 B1 B2} W P Q (m1 : M A1) (m2 : M A2) (k1 : A1 -> M B1) (k2 : A2 -> M B2) :
  sim W P m1 m2 -> (forall a, hmono (k1 a)) ->
  (forall W' a1 a2, ext W W' -> P W' a1 a2 -> sim W' Q (k1 a1) (k2 a2)) ->
  sim W Q (bindM m1 k1) (bindM m2 k2).
Proof.
  intros Hm Hk Hs s1 s2 R. unfold bindM. specialize (Hm s1 s2 R).
  destruct (m1 s1) as [a1 s1m|e msg s1m| |] eqn:E1; try exact I.
  - pose proof (Hk a1 s1m) as Mono.
    destruct (k1 a1 s1m) as [b1 s1'|e msg s1'| |] eqn:E2; try exact I.
    + intros B. destruct Hm as (a2 & s2m & W' & E3 & X1 & R1 & P1); [unfold bounded in *; lia|].
      rewrite E3. pose proof (Hs W' a1 a2 X1 P1 s1m s2m R1) as H2. rewrite E2 in H2.
      destruct (H2 B) as (b2 & s2' & W'' & E4 & X2 & R2 & Q2).
      exists b2, s2', W''. split; [exact E4|]. split; [eapply ext_trans; eassumption|]. split; assumption.
    + intros B. destruct Hm as (a2 & s2m & W' & E3 & X1 & R1 & P1); [unfold bounded in *; lia|].
      rewrite E3. pose proof (Hs W' a1 a2 X1 P1 s1m s2m R1) as H2. rewrite E2 in H2.
      destruct (H2 B) as (s2' & W'' & E4 & X2 & R2).
      exists s2', W''. split; [exact E4|]. split; [eapply ext_trans; eassumption|assumption].
  - intros B. destruct (Hm B) as (s2' & W' & E3 & X1 & R1). rewrite E3. exists s2', W'. auto.
Qed.

Lemma sim_ret {A1 A2} W (Q : world -> A1 -> A2 -> Prop) a1 a2 : Q W a1 a2 -> sim W Q (ret a1) (ret a2).
Proof.
  intros H s1 s2 R. unfold ret. intros _. exists a2, s2, W. split; [reflexivity|]. split; [apply ext_refl|]. split; assumption.
Qed.
Lemma sim_fail {A1 A2} W (Q : world -> A1 -> A2 -> Prop) e : sim W Q (fail e) (fail e).
Proof. intros s1 s2 R. unfold fail. intros _. exists s2, W. split; [reflexivity|]. split; [apply ext_refl|assumption]. Qed.
Lemma sim_panic {A1 A2} W (Q : world -> A1 -> A2 -> Prop) k (m2 : M A2) : sim W Q (panic k) m2.
Proof. intros s1 s2 R. exact I. Qed.
Lemma sim_conseq {A1 A2} W (Q Q' : world -> A1 -> A2 -> Prop) m1 m2 :
  sim W Q m1 m2 -> (forall W' a b, ext W W' -> Q W' a b -> Q' W' a b) -> sim W Q' m1 m2.
Proof.
  intros H HQ s1 s2 R. specialize (H s1 s2 R). destruct (m1 s1); try exact I; [|exact H].
  intros B. destruct (H B) as (a2 & s2' & W' & E & X & R' & Q1). exists a2, s2', W'. auto.
Qed.

(* readers: the state is returned unchanged *)
Lemma sim_read {A1 A2} W (Q : world -> A1 -> A2 -> Prop) (m1 : M A1) (m2 : M A2) :
  (forall s1 s2, srel W s1 s2 ->
     match m1 s1 with
     | ROk a1 s1' => s1' = s1 /\ exists a2, m2 s2 = ROk a2 s2 /\ Q W a1 a2
     | RErr e msg s1' => s1' = s1 /\ m2 s2 = RErr e msg s2
     | _ => True
     end) -> sim W Q m1 m2.
Proof.
  intros H s1 s2 R. specialize (H s1 s2 R). destruct (m1 s1); try exact I.
  - destruct H as [-> (a2 & E & Q1)]. intros _. exists a2, s2, W. split; [exact E|]. split; [apply ext_refl|]. split; assumption.
  - destruct H as [-> E]. intros _. exists s2, W. split; [exact E|]. split; [apply ext_refl|assumption].
Qed.

Lemma sim_get_vm W : sim W snap get_vm get_vm.
Proof.
  apply sim_read. intros s1 s2 R. unfold get_vm. split; [reflexivity|]. exists s2. split; [reflexivity|].
  apply srel_snap, R.
Qed.

Ltac sr_simpl :=
  cbn [hp st g_bind g_slots stack scap sp bp ep ip acc out_log with_heap with_store with_stack
       with_scap with_sp with_acc with_ip with_bp with_ep with_globals with_log
       wa wi wf wtop set_top fst snd] in *.

Lemma sget_with_stack s t p j : sget (with_stack s t p) j = match tget t j with Some v => v | None => VUndef end.
Proof. reflexivity. Qed.
Lemma sget_tset s i v j : match tget (tset (stack s) i v) j with Some x => x | None => VUndef end
                          = if i =? j then v else sget s j.
Proof.
  destruct (N.eqb_spec i j) as [->|Hne]; [rewrite tget_tset_same; reflexivity|].
  rewrite tget_tset_other by exact Hne. reflexivity.
Qed.

(* generic: same memory, new stack table / registers *)
Lemma srel_regs W W' s1 s2 s1' s2' :
  srel W s1 s2 -> wsame W W' ->
  hp s1' = hp s1 -> hp s2' = hp s2 -> st s1' = st s1 -> st s2' = st s2 ->
  g_bind s1' = g_bind s1 -> g_bind s2' = g_bind s2 ->
  g_slots s1' = g_slots s1 -> g_slots s2' = g_slots s2 ->
  out_log s1' = out_log s1 -> out_log s2' = out_log s2 ->
  (forall i, i <= wtop W' -> vr W (sget s1' i) (sget s2' i)) ->
  sp s1' <= wtop W' -> scap s2' = scap s1' -> sp s2' = sp s1' -> bp s2' = bp s1' ->
  ar W (ep s1') (ep s2') -> ar W (fst (ip s1')) (fst (ip s2')) -> snd (ip s2') = snd (ip s1') ->
  vr W (acc s1') (acc s2') ->
  srel W' s1' s2'.
Proof.
  intros R WS H1 H2 H3 H4 H5 H6 H7 H8 H9 H10 Hst Hsp Hcap Hsp2 Hbp Hep Hip Hip2 Hacc.
  pose proof WS as (E & Ha & Hi).
  assert (Ef : forall a, wa W' a -> wf W' a = wf W a) by (intros a H; apply (ex_f _ _ E); left; apply Ha, H).
  destruct R as [R1 R2 R3 R4 R5 R6 R7 R8 R9 R10 R11 R12 R13 R14 R15 R16 R17 R18 R19 R20].
  constructor; rewrite ?H1, ?H2, ?H3, ?H4, ?H5, ?H6, ?H7, ?H8, ?H9, ?H10; try assumption.
  - rewrite (ex_f _ _ E) by (right; reflexivity). exact R1.
  - intros a b A B. rewrite (Ef a A), (Ef b B). apply R3; auto.
  - intros a A. apply R4, Ha, A.
  - intros a A. rewrite (Ef a A). apply R5, Ha, A.
  - intros a A. rewrite (Ef a A). eapply vr_ext; [exact E|]. apply R8, Ha, A.
  - eapply store_rel_wsame; eassumption.
  - destruct R10 as [B1 B2]. split.
    + rewrite B1. apply map_ext_in. intros x Hx. rewrite (ex_f _ _ E) by (left; apply B2, Hx). reflexivity.
    + intros x Hx. apply (ex_a _ _ E), B2, Hx.
  - eapply lr_ext; eassumption.
  - intros i Hi'. eapply vr_ext; [exact E|]. apply Hst, Hi'.
  - eapply ar_ext; eassumption.
  - split; [eapply ar_ext; eassumption|assumption].
  - eapply vr_ext; eassumption.
Qed.

Ltac rr R :=
  first [ reflexivity
        | exact (sr_scap _ _ _ R) | exact (sr_sp _ _ _ R) | exact (sr_bp _ _ _ R)
        | exact (sr_ep _ _ _ R) | exact (proj1 (sr_ip _ _ _ R)) | exact (proj2 (sr_ip _ _ _ R))
        | exact (sr_acc _ _ _ R) | exact (sr_top _ _ _ R) | exact (sr_stack _ _ _ R) ].

Lemma sget_upd s t p c j : sget (with_scap (with_stack s t p) c) j = match tget t j with Some v => v | None => VUndef end.
Proof. reflexivity. Qed.

(* ------------------------------------------------------------------ the stack *)
Lemma sim_push W v1 v2 : vr W v1 v2 -> sim W (@anyr unit unit) (push v1) (push v2).
Proof.
  intros Hv s1 s2 R. unfold push. intros B.
  eexists tt, _, (set_top W (N.max (wtop W) (sp s1 + 1))).
  split; [reflexivity|]. split; [apply ext_set_top; lia|]. split; [|exact I].
  pose proof (sr_sp _ _ _ R) as Esp. pose proof (sr_scap _ _ _ R) as Ecap. pose proof (sr_top _ _ _ R) as Et.
  eapply srel_regs; [exact R|apply wsame_set_top|..]; sr_simpl; try (rr R).
  - intros i Hi. rewrite !sget_upd, !sget_tset, Esp.
    destruct (N.eqb_spec (sp s1 + 1) i) as [<-|Hne]; [exact Hv|].
    apply (sr_stack _ _ _ R). lia.
  - lia.
  - rewrite Esp, Ecap. reflexivity.
  - rewrite Esp. reflexivity.
Qed.

Lemma sim_pop_raw W : sim W vr pop_raw pop_raw.
Proof.
  intros s1 s2 R. unfold pop_raw.
  pose proof (sr_sp _ _ _ R) as Esp. pose proof (sr_scap _ _ _ R) as Ecap. pose proof (sr_top _ _ _ R) as Et.
  rewrite Esp, Ecap. destruct (sp s1 =? 0) eqn:E0.
  - intros B. exists s2, W. split; [reflexivity|]. split; [apply ext_refl|exact R].
  - destruct (sp s1 <? scap s1) eqn:E1; intros B.
    + exists (sget s2 (sp s1)), (with_sp s2 (sp s1 - 1)), W.
      split; [reflexivity|]. split; [apply ext_refl|]. split; [|apply (sr_stack _ _ _ R); exact Et].
      eapply srel_regs; [exact R|apply wsame_refl|..]; sr_simpl; try (rr R). lia.
    + exists (with_sp s2 (sp s1 - 1)), W.
      split; [reflexivity|]. split; [apply ext_refl|].
      eapply srel_regs; [exact R|apply wsame_refl|..]; sr_simpl; try (rr R). lia.
Qed.

Lemma sim_stack_get W i : i <= wtop W -> sim W vr (stack_get i) (stack_get i).
Proof.
  intros Hi. apply sim_read. intros s1 s2 R. unfold stack_get. rewrite (sr_scap _ _ _ R).
  destruct (i <? scap s1); (split; [reflexivity|]); [|reflexivity].
  exists (sget s2 i). split; [reflexivity|]. apply (sr_stack _ _ _ R), Hi.
Qed.
Lemma sim_stack_put W i v1 v2 : vr W v1 v2 -> sim W (@anyr unit unit) (stack_put i v1) (stack_put i v2).
Proof.
  intros Hv s1 s2 R. unfold stack_put. rewrite (sr_scap _ _ _ R).
  destruct (i <? scap s1); intros B.
  - eexists tt, _, W. split; [reflexivity|]. split; [apply ext_refl|]. split; [|exact I].
    eapply srel_regs; [exact R|apply wsame_refl|..]; sr_simpl; try (rr R).
    intros j Hj. rewrite !sget_with_stack, !sget_tset.
    destruct (i =? j); [exact Hv|apply (sr_stack _ _ _ R), Hj].
  - exists s2, W. split; [reflexivity|]. split; [apply ext_refl|exact R].
Qed.
(* offsets relative to sp: only offsets <= 0 are read *)
Lemma sim_stack_get_offset W off : (off <= 0)%Z -> sim W vr (stack_get_offset off) (stack_get_offset off).
Proof.
  intros Ho s1 s2 R. unfold stack_get_offset. rewrite (sr_sp _ _ _ R).
  destruct (Z.of_N (sp s1) + off <? 0)%Z eqn:E.
  - intros B. exists s2, W. split; [reflexivity|]. split; [apply ext_refl|exact R].
  - apply sim_stack_get; [|exact R]. pose proof (sr_top _ _ _ R). lia.
Qed.
Lemma sim_stack_put_offset W off v1 v2 : vr W v1 v2 ->
  sim W (@anyr unit unit) (stack_put_offset off v1) (stack_put_offset off v2).
Proof.
  intros Hv s1 s2 R. unfold stack_put_offset. rewrite (sr_sp _ _ _ R).
  destruct (Z.of_N (sp s1) + off <? 0)%Z eqn:E.
  - intros B. exists s2, W. split; [reflexivity|]. split; [apply ext_refl|exact R].
  - apply sim_stack_put; assumption.
Qed.

(* ------------------------------------------------------------------ registers *)
Lemma sim_set_acc W v1 v2 : vr W v1 v2 -> sim W (@anyr unit unit) (set_acc v1) (set_acc v2).
Proof.
  intros Hv s1 s2 R. unfold set_acc. intros B.
  eexists tt, _, W. split; [reflexivity|]. split; [apply ext_refl|]. split; [|exact I].
  eapply srel_regs; [exact R|apply wsame_refl|..]; sr_simpl; try (rr R). exact Hv.
Qed.
Lemma sim_set_ip W a1 a2 i : ar W a1 a2 -> sim W (@anyr unit unit) (set_ip (a1, i)) (set_ip (a2, i)).
Proof.
  intros Ha s1 s2 R. unfold set_ip. intros B.
  eexists tt, _, W. split; [reflexivity|]. split; [apply ext_refl|]. split; [|exact I].
  eapply srel_regs; [exact R|apply wsame_refl|..]; sr_simpl; try (rr R). exact Ha.
Qed.
Lemma sim_set_ep W a1 a2 : ar W a1 a2 -> sim W (@anyr unit unit) (set_ep a1) (set_ep a2).
Proof.
  intros Ha s1 s2 R. unfold set_ep. intros B.
  eexists tt, _, W. split; [reflexivity|]. split; [apply ext_refl|]. split; [|exact I].
  eapply srel_regs; [exact R|apply wsame_refl|..]; sr_simpl; try (rr R). exact Ha.
Qed.
Lemma sim_set_bp W b : sim W (@anyr unit unit) (set_bp b) (set_bp b).
Proof.
  intros s1 s2 R. unfold set_bp. intros B.
  eexists tt, _, W. split; [reflexivity|]. split; [apply ext_refl|]. split; [|exact I].
  eapply srel_regs; [exact R|apply wsame_refl|..]; sr_simpl; try (rr R).
Qed.
(* lowering or keeping sp; raising it needs the slots to be related: p <= wtop *)
Lemma sim_set_sp W p : p <= wtop W -> sim W (@anyr unit unit) (set_sp p) (set_sp p).
Proof.
  intros Hp s1 s2 R. unfold set_sp. intros B.
  eexists tt, _, W. split; [reflexivity|]. split; [apply ext_refl|]. split; [|exact I].
  eapply srel_regs; [exact R|apply wsame_refl|..]; sr_simpl; try (rr R). exact Hp.
Qed.

(* ------------------------------------------------------------------ hmono of the primitives *)
Ltac hm_case :=
  match goal with
  | |- context [match ?x with _ => _ end] =>
      lazymatch x with
      | context [match _ with _ => _ end] => fail
      | _ => destruct x
      end
  end.
Ltac hm_same :=
  apply hm_same; intros s; repeat first [ reflexivity | exact I | hm_case ].
Lemma hm_ret {A} (a : A) : hmono (ret a). Proof. hm_same. Qed.
Lemma hm_fail {A} e : hmono (@fail A e). Proof. hm_same. Qed.
Lemma hm_fail_msg {A} e m : hmono (@fail_msg A e m). Proof. hm_same. Qed.
Lemma hm_panic {A} k : hmono (@panic A k). Proof. hm_same. Qed.
Lemma hm_get_vm : hmono get_vm. Proof. hm_same. Qed.
Lemma hm_push v : hmono (push v). Proof. unfold push. hm_same. Qed.
Lemma hm_pop_raw : hmono pop_raw. Proof. unfold pop_raw. hm_same. Qed.
Lemma hm_stack_get i : hmono (stack_get i). Proof. unfold stack_get. hm_same. Qed.
Lemma hm_stack_put i v : hmono (stack_put i v). Proof. unfold stack_put. hm_same. Qed.
Lemma hm_stack_get_offset o : hmono (stack_get_offset o).
Proof. unfold stack_get_offset, stack_get. hm_same. Qed.
Lemma hm_stack_put_offset o v : hmono (stack_put_offset o v).
Proof. unfold stack_put_offset, stack_put. hm_same. Qed.
Lemma hm_set_acc v : hmono (set_acc v). Proof. hm_same. Qed.
Lemma hm_set_ip i : hmono (set_ip i). Proof. hm_same. Qed.
Lemma hm_set_ep i : hmono (set_ep i). Proof. hm_same. Qed.
Lemma hm_set_bp i : hmono (set_bp i). Proof. hm_same. Qed.
Lemma hm_set_sp i : hmono (set_sp i). Proof. hm_same. Qed.
Lemma hm_hget p : hmono (hget p). Proof. unfold hget, lift. hm_same. Qed.
Lemma hm_hderef v : hmono (hderef v). Proof. unfold hderef, lift. hm_same. Qed.
Lemma hm_as_ptr v : hmono (as_ptr v). Proof. unfold as_ptr. hm_same. Qed.
Lemma hm_as_argc v : hmono (as_argc v). Proof. unfold as_argc. hm_same. Qed.
Lemma hm_as_bp v : hmono (as_bp v). Proof. unfold as_bp. hm_same. Qed.
Lemma hm_as_ep v : hmono (as_ep v). Proof. unfold as_ep. hm_same. Qed.
Lemma hm_as_ip v : hmono (as_ip v). Proof. unfold as_ip. hm_same. Qed.
Lemma hm_as_lexenv v : hmono (as_lexenv v). Proof. unfold as_lexenv. hm_same. Qed.
Lemma hm_usub a b : hmono (usub a b). Proof. unfold usub. hm_same. Qed.
Lemma hm_get_lambda i : hmono (get_lambda i). Proof. unfold get_lambda. hm_same. Qed.
Lemma hm_as_lambda v : hmono (as_lambda v). Proof. unfold as_lambda, get_lambda. hm_same. Qed.
Lemma hm_cur_lambda : hmono cur_lambda. Proof. unfold cur_lambda, get_lambda. hm_same. Qed.
Lemma hm_env_slots i : hmono (env_slots i). Proof. unfold env_slots. hm_same. Qed.
Lemma hm_env_new l : hmono (env_new l). Proof. unfold env_new, new_env. hm_same. Qed.
Lemma hm_vec_get i : hmono (vec_get i). Proof. unfold vec_get. hm_same. Qed.
Lemma hm_vec_set i l : hmono (vec_set i l). Proof. unfold vec_set. hm_same. Qed.

(* ------------------------------------------------------------------ value destructors *)
Lemma vlive_addr W v a : vlive W v -> In a (vaddrs v) -> alive W a.
Proof. intros [H _]. apply H. Qed.
Lemma vlive_id W v i : vlive W v -> In i (vids v) -> wi W i.
Proof. intros [_ H]. apply H. Qed.

Lemma sim_as_ptr W v1 v2 : vr W v1 v2 -> sim W ar (as_ptr v1) (as_ptr v2).
Proof.
  intros [-> L]. destruct v1; cbn [vmap as_ptr]; try apply sim_fail.
  apply sim_ret. split; [reflexivity|]. apply (vlive_addr _ _ _ L). now left.
Qed.
Lemma sim_as_argc W v1 v2 : vr W v1 v2 -> sim W eqr (as_argc v1) (as_argc v2).
Proof. intros [-> L]. destruct v1; cbn [vmap as_argc]; try apply sim_fail. apply sim_ret. reflexivity. Qed.
Lemma sim_as_bp W v1 v2 : vr W v1 v2 -> sim W eqr (as_bp v1) (as_bp v2).
Proof. intros [-> L]. destruct v1; cbn [vmap as_bp]; try apply sim_fail. apply sim_ret. reflexivity. Qed.
Lemma sim_as_ep W v1 v2 : vr W v1 v2 -> sim W ar (as_ep v1) (as_ep v2).
Proof.
  intros [-> L]. destruct v1; cbn [vmap as_ep]; try apply sim_fail.
  apply sim_ret. split; [reflexivity|]. apply (vlive_addr _ _ _ L). now left.
Qed.
Definition ipr (W : world) (i1 i2 : N * N) : Prop := ar W (fst i1) (fst i2) /\ snd i2 = snd i1.
Lemma sim_as_ip W v1 v2 : vr W v1 v2 -> sim W ipr (as_ip v1) (as_ip v2).
Proof.
  intros [-> L]. destruct v1; cbn [vmap as_ip]; try apply sim_fail.
  apply sim_ret. split; [|reflexivity]. split; [reflexivity|]. apply (vlive_addr _ _ _ L). now left.
Qed.
Definition idr (p : N -> pid) (W : world) (i1 i2 : N) : Prop := i2 = i1 /\ wi W (p i1).
Lemma sim_as_lexenv W v1 v2 : vr W v1 v2 -> sim W (idr PEnv) (as_lexenv v1) (as_lexenv v2).
Proof.
  intros [-> L]. destruct v1; cbn [vmap as_lexenv]; try apply sim_fail.
  apply sim_ret. split; [reflexivity|]. apply (vlive_id _ _ _ L). now left.
Qed.
Lemma sim_usub W a b : sim W eqr (usub a b) (usub a b).
Proof. unfold usub. destruct (a <? b); [apply sim_panic|apply sim_ret; reflexivity]. Qed.

(* ------------------------------------------------------------------ heap reads *)
Lemma sim_hget W a1 a2 : ar W a1 a2 -> sim W vr (hget a1) (hget a2).
Proof.
  intros [-> [La | ->]]; apply sim_read; intros s1 s2 R; unfold hget, lift, heap_get.
  - destruct (sr_al1 _ _ _ R a1 La) as [L1 _]. destruct (sr_al2 _ _ _ R a1 La) as [L2 _].
    apply N.ltb_lt in L1, L2. rewrite L1, L2. split; [reflexivity|].
    eexists. split; [reflexivity|]. exact (sr_cell _ _ _ R a1 La).
  - pose proof (sr_b1 _ _ _ R) as B. apply N.ltb_ge in B. rewrite B. exact I.
Qed.
Lemma sim_hderef W v1 v2 : vr W v1 v2 -> sim W vr (hderef v1) (hderef v2).
Proof.
  intros Hv. pose proof Hv as [-> L].
  destruct v1; try (apply sim_read; intros s1 s2 R; unfold hderef, lift, heap_deref; cbn [vmap];
                    split; [reflexivity|]; eexists; split; [reflexivity|exact Hv]).
  change (hderef (VPtr p)) with (hget p). change (hderef (vmap (wf W) (VPtr p))) with (hget (wf W p)).
  apply sim_hget. split; [reflexivity|]. apply (vlive_addr _ _ _ L). now left.
Qed.

(* ------------------------------------------------------------------ payload reads *)
Lemma sim_get_lambda W lid : wi W (PLam lid) -> sim W lamr (get_lambda lid) (get_lambda lid).
Proof.
  intros Hi. apply sim_read. intros s1 s2 R. unfold get_lambda.
  pose proof (sr_lams _ _ _ (sr_store _ _ _ R) lid Hi) as H.
  destruct (tget (lams (st s1)) lid) as [l1|], (tget (lams (st s2)) lid) as [l2|]; cbn [orel] in H; try contradiction; [|exact I].
  split; [reflexivity|]. exists l2. split; [reflexivity|exact H].
Qed.
Lemma sim_as_lambda W v1 v2 : vr W v1 v2 -> sim W lamr (as_lambda v1) (as_lambda v2).
Proof.
  intros [-> L]. destruct v1; cbn [vmap as_lambda]; try apply sim_fail.
  apply sim_get_lambda. apply (vlive_id _ _ _ L). now left.
Qed.
Lemma sim_env_slots W e1 e2 : idr PEnv W e1 e2 -> sim W lr (env_slots e1) (env_slots e2).
Proof.
  intros [-> Hi]. apply sim_read. intros s1 s2 R. unfold env_slots.
  pose proof (sr_envs _ _ _ (sr_store _ _ _ R) e1 Hi) as H.
  destruct (tget (envs (st s1)) e1) as [l1|], (tget (envs (st s2)) e1) as [l2|]; cbn [orel] in H; try contradiction; [|exact I].
  split; [reflexivity|]. exists l2. split; [reflexivity|exact H].
Qed.
Lemma sim_vec_get W vid : wi W (PVec vid) -> sim W lr (vec_get vid) (vec_get vid).
Proof.
  intros Hi. apply sim_read. intros s1 s2 R. unfold vec_get.
  pose proof (sr_vecs _ _ _ (sr_store _ _ _ R) vid Hi) as H.
  destruct (tget (vecs (st s1)) vid) as [l1|], (tget (vecs (st s2)) vid) as [l2|]; cbn [orel] in H; try contradiction; [|exact I].
  split; [reflexivity|]. exists l2. split; [reflexivity|exact H].
Qed.

Lemma list_get_map {A B} (f : A -> B) l i : list_get (map f l) i = option_map f (list_get l i).
Proof. unfold list_get. apply nth_error_map. Qed.
Lemma list_get_in {A} (l : list A) i v : list_get l i = Some v -> In v l.
Proof. unfold list_get. apply nth_error_In. Qed.
Lemma lr_get W l1 l2 i : lr W l1 l2 ->
  match list_get l1 i with
  | Some v1 => exists v2, list_get l2 i = Some v2 /\ vr W v1 v2
  | None => list_get l2 i = None
  end.
Proof.
  intros [-> L]. rewrite list_get_map. destruct (list_get l1 i) as [v1|] eqn:E; cbn [option_map]; [|reflexivity].
  eexists. split; [reflexivity|]. split; [reflexivity|]. rewrite Forall_forall in L. apply L. eapply list_get_in, E.
Qed.
Lemma hm_env_get e i : hmono (env_get e i).
Proof. unfold env_get. apply hm_bind; [apply hm_env_slots|]. intros l. destruct (list_get l i); [apply hm_ret|apply hm_panic]. Qed.
Lemma sim_env_get W e1 e2 i : idr PEnv W e1 e2 -> sim W vr (env_get e1 i) (env_get e2 i).
Proof.
  intros He. unfold env_get. eapply sim_bind; [apply sim_env_slots, He| |].
  - intros l. destruct (list_get l i); [apply hm_ret|apply hm_panic].
  - intros W' l1 l2 E Hl. pose proof (lr_get W' l1 l2 i Hl) as H.
    destruct (list_get l1 i) as [v1|]; [|apply sim_panic].
    destruct H as (v2 & -> & Hv). apply sim_ret, Hv.
Qed.

(* ------------------------------------------------------------------ code *)
Fixpoint jflagn (l : list vcell) (j : bool) (n : nat) {struct n} : bool :=
  match n, l with
  | O, _ => j
  | S k, v :: r => jflagn r (is_jump v) k
  | S k, [] => false
  end.
Lemma bcmap_nth f l : forall j n,
  nth_error (bcmap f j l) n = option_map (fun v => if jflagn l j n then v else vmap f v) (nth_error l n).
Proof.
  induction l as [|v r IH]; intros j n; [destruct n; reflexivity|].
  destruct n as [|n]; cbn [bcmap nth_error jflagn option_map]; [reflexivity|apply IH].
Qed.
Lemma bclive_nth W l : forall j n v, bclive W j l -> nth_error l n = Some v -> jflagn l j n = false -> vlive W v.
Proof.
  induction l as [|u r IH]; intros j n v H E F; [destruct n; discriminate|].
  destruct H as [Hu Hr]. destruct n as [|n]; cbn [nth_error jflagn] in *.
  - injection E as <-. subst j. exact Hu.
  - eapply IH; eassumption.
Qed.
Lemma jflagn_S l : forall j n, jflagn l j (S n) = match nth_error l n with Some u => is_jump u | None => false end.
Proof.
  induction l as [|v r IH]; intros j n; [destruct n; reflexivity|].
  destruct n as [|n]; [reflexivity|]. exact (IH (is_jump v) n).
Qed.
Lemma is_jump_vmap f v : is_jump (vmap f v) = is_jump v.
Proof. destruct v; reflexivity. Qed.

(* the flag of the code cell %ip points at: true iff it is the operand of a JMP / JNT *)
Definition pflag (s : vm) : bool :=
  match cell_at (hp s) (fst (ip s)) with
  | VLambda lid =>
      match tget (lams (st s)) lid with
      | Some l => jflagn (l_bc l) false (N.to_nat (snd (ip s)))
      | None => false
      end
  | _ => false
  end.

Definition outcome {A1 A2} (W : world) (Q : world -> A1 -> A2 -> Prop) (r1 : res A1) (r2 : res A2) : Prop :=
  match r1 with
  | ROk a1 s1' => bounded s1' ->
      exists a2 s2' W', r2 = ROk a2 s2' /\ ext W W' /\ srel W' s1' s2' /\ Q W' a1 a2
  | RErr e msg s1' => bounded s1' ->
      exists s2' W', r2 = RErr e msg s2' /\ ext W W' /\ srel W' s1' s2'
  | _ => True
  end.
Lemma sim_outcome {A1 A2} W Q (m1 : M A1) (m2 : M A2) s1 s2 :
  sim W Q m1 m2 -> srel W s1 s2 -> outcome W Q (m1 s1) (m2 s2).
Proof. intros H R. exact (H s1 s2 R). Qed.

(* a first step that keeps the world, with a fact about the new s1-state *)
Definition step0 {A1 A2} (W : world) (P : A1 -> A2 -> vm -> Prop) (r1 : res A1) (r2 : res A2) : Prop :=
  match r1 with
  | ROk a1 s1' => exists a2 s2', r2 = ROk a2 s2' /\ srel W s1' s2' /\ P a1 a2 s1'
  | RErr e msg s1' => exists s2', r2 = RErr e msg s2' /\ srel W s1' s2'
  | _ => True
  end.
Lemma step0_bind {A1 A2 B1 B2} W Q P (m1 : M A1) (m2 : M A2) (k1 : A1 -> M B1) (k2 : A2 -> M B2) s1 s2 :
  step0 W P (m1 s1) (m2 s2) ->
  (forall a1 a2 s1' s2', srel W s1' s2' -> P a1 a2 s1' -> outcome W Q (k1 a1 s1') (k2 a2 s2')) ->
  outcome W Q (bindM m1 k1 s1) (bindM m2 k2 s2).
Proof.
  intros H K. unfold bindM, step0 in *. destruct (m1 s1) as [a1 s1'|e msg s1'| |]; try exact I.
  - destruct H as (a2 & s2' & -> & R & HP). apply K; assumption.
  - destruct H as (s2' & -> & R). intros B. exists s2', W. split; [reflexivity|]. split; [apply ext_refl|exact R].
Qed.

Lemma cur_lambda_step W s1 s2 : srel W s1 s2 ->
  step0 W (fun l1 l2 s => lamr W l1 l2 /\ s = s1 /\
             exists lid, cell_at (hp s1) (fst (ip s1)) = VLambda lid /\ tget (lams (st s1)) lid = Some l1)
        (cur_lambda s1) (cur_lambda s2).
Proof.
  intros R. unfold cur_lambda, heap_get. destruct (sr_ip _ _ _ R) as [[E [La|En]] _].
  - rewrite E. destruct (sr_al1 _ _ _ R _ La) as [L1 _]. destruct (sr_al2 _ _ _ R _ La) as [L2 _].
    apply N.ltb_lt in L1, L2. rewrite L1, L2.
    pose proof (sr_cell _ _ _ R _ La) as [Ec Lc]. unfold cell_at in Ec, Lc. rewrite Ec.
    fold (cell_at (hp s1) (fst (ip s1))) in *.
    destruct (cell_at (hp s1) (fst (ip s1))) eqn:Ecell; cbn [vmap step0]; try exact I.
    assert (Hi : wi W (PLam lid)) by (apply Lc; now left).
    pose proof (sr_lams _ _ _ (sr_store _ _ _ R) lid Hi) as H. unfold get_lambda.
    destruct (tget (lams (st s1)) lid) as [l1|] eqn:E1, (tget (lams (st s2)) lid) as [l2|]; cbn [orel] in H; try contradiction; [|exact I].
    exists l2, s2. split; [reflexivity|]. split; [exact R|]. split; [exact H|]. split; [reflexivity|].
    exists lid. split; [reflexivity|exact E1].
  - pose proof (sr_b1 _ _ _ R) as B. rewrite En. apply N.ltb_ge in B. rewrite B. exact I.
Qed.

Lemma to_nat_succ i : N.to_nat (i + 1) = S (N.to_nat i).
Proof. lia. Qed.

Lemma srel_with_ip W s1 s2 i : srel W s1 s2 ->
  srel W (with_ip s1 (fst (ip s1), i)) (with_ip s2 (fst (ip s2), i)).
Proof.
  intros R. eapply srel_regs; [exact R|apply wsame_refl|..]; sr_simpl; try (rr R).
Qed.

Lemma read_opcode_step W s1 s2 : srel W s1 s2 ->
  step0 W (fun o1 o2 s => o2 = o1 /\ pflag s = is_jump (VOp o1)) (read_opcode s1) (read_opcode s2).
Proof.
  intros R. unfold read_opcode, bindM. pose proof (cur_lambda_step W s1 s2 R) as H. unfold step0 in H.
  destruct (cur_lambda s1) as [l1 s1'|e m s1'| |]; try exact I.
  - destruct H as (l2 & s2' & E2 & R' & ([-> Ll] & -> & lid & Hc & Ht)). rewrite E2.
    unfold get_vm. cbv beta iota. cbn [l_bc lmap]. rewrite (proj2 (sr_ip _ _ _ R')).
    unfold list_get. rewrite bcmap_nth.
    destruct (nth_error (l_bc l1) (N.to_nat (snd (ip s1)))) as [v|] eqn:En; cbn [option_map].
    + destruct v; try (destruct (jflagn (l_bc l1) false (N.to_nat (snd (ip s1)))); cbn [vmap];
                       unfold fail, step0; cbv beta iota; exists s2'; (split; [reflexivity|exact R'])).
      assert (Ev : (if jflagn (l_bc l1) false (N.to_nat (snd (ip s1))) then VOp o else vmap (wf W) (VOp o)) = VOp o)
        by (destruct (jflagn _ _ _); reflexivity).
      rewrite Ev. unfold set_ip, ret, step0. cbv beta iota.
      eexists o, _. split; [reflexivity|]. split.
      * rewrite <- (proj2 (sr_ip _ _ _ R')). apply srel_with_ip, R'.
      * split; [reflexivity|]. unfold pflag. cbn [hp st ip with_ip fst snd]. rewrite Hc, Ht.
        rewrite to_nat_succ, jflagn_S, En. reflexivity.
    + unfold fail, step0. cbv beta iota. exists s2'. split; [reflexivity|exact R'].
  - destruct H as (s2' & E2 & R'). rewrite E2. exists s2'. split; [reflexivity|exact R'].
Qed.

(* an operand: renamed unless it is the target of a jump *)
Lemma read_operand_step W s1 s2 : srel W s1 s2 ->
  step0 W (fun o1 o2 s => if pflag s1 then o2 = o1 else vr W o1 o2) (read_operand s1) (read_operand s2).
Proof.
  intros R. unfold read_operand, bindM. pose proof (cur_lambda_step W s1 s2 R) as H. unfold step0 in H.
  destruct (cur_lambda s1) as [l1 s1'|e m s1'| |]; try exact I.
  - destruct H as (l2 & s2' & E2 & R' & ([-> Ll] & -> & lid & Hc & Ht)). rewrite E2.
    unfold get_vm. cbv beta iota. cbn [l_bc lmap]. rewrite (proj2 (sr_ip _ _ _ R')).
    unfold list_get. rewrite bcmap_nth. unfold pflag. rewrite Hc, Ht.
    destruct (nth_error (l_bc l1) (N.to_nat (snd (ip s1)))) as [v|] eqn:En; cbn [option_map].
    + destruct (jflagn (l_bc l1) false (N.to_nat (snd (ip s1)))) eqn:Ej.
      * destruct v; try (unfold set_ip, ret, step0; cbv beta iota; eexists _, _; split; [reflexivity|];
                         split; [rewrite <- (proj2 (sr_ip _ _ _ R')); apply srel_with_ip, R'|reflexivity]).
        unfold fail, step0. cbv beta iota. exists s2'. split; [reflexivity|exact R'].
      * assert (Lv : vlive W v) by (eapply bclive_nth; [apply Ll|exact En|exact Ej]).
        destruct v; cbn [vmap];
          try (unfold set_ip, ret, step0; cbv beta iota; eexists _, _; split; [reflexivity|];
               split; [rewrite <- (proj2 (sr_ip _ _ _ R')); apply srel_with_ip, R'|split; [reflexivity|exact Lv]]).
        unfold fail, step0. cbv beta iota. exists s2'. split; [reflexivity|exact R'].
    + unfold fail, step0. cbv beta iota. exists s2'. split; [reflexivity|exact R'].
  - destruct H as (s2' & E2 & R'). rewrite E2. exists s2'. split; [reflexivity|exact R'].
Qed.

(* ------------------------------------------------------------------ payload writes *)
Lemma srel_store W s1 s2 x1 x2 : srel W s1 s2 -> store_rel W x1 x2 ->
  srel W (with_store s1 x1) (with_store s2 x2).
Proof.
  intros R S. destruct R as [R1 R2 R3 R4 R5 R6 R7 R8 R9 R10 R11 R12 R13 R14 R15 R16 R17 R18 R19 R20].
  constructor; sr_simpl; assumption.
Qed.
Lemma list_set_nat_map {A B} (f : A -> B) l : forall i a, list_set_nat (map f l) i (f a) = map f (list_set_nat l i a).
Proof. induction l as [|x r IH]; intros i a; [reflexivity|]. destruct i; cbn [map list_set_nat]; [reflexivity|]. now rewrite IH. Qed.
Lemma list_set_nat_Forall {A} (P : A -> Prop) l : forall i a, Forall P l -> P a -> Forall P (list_set_nat l i a).
Proof.
  induction l as [|x r IH]; intros i a H Ha; [exact H|]. inversion H; subst.
  destruct i; cbn [list_set_nat]; constructor; auto.
Qed.
Lemma lr_set W l1 l2 i v1 v2 : lr W l1 l2 -> vr W v1 v2 -> lr W (list_set l1 i v1) (list_set l2 i v2).
Proof.
  intros [-> L] [-> Lv]. unfold list_set. split; [apply list_set_nat_map|apply list_set_nat_Forall; assumption].
Qed.
Lemma lr_len W l1 l2 : lr W l1 l2 -> len l2 = len l1.
Proof. intros [-> _]. unfold len. now rewrite map_length. Qed.

Lemma sim_env_put W e1 e2 i v1 v2 : idr PEnv W e1 e2 -> vr W v1 v2 ->
  sim W (@anyr unit unit) (env_put e1 i v1) (env_put e2 i v2).
Proof.
  intros He Hv. pose proof He as [-> Hi]. unfold env_put.
  eapply sim_bind; [apply sim_env_slots, He| |].
  - intros l. destruct (i <? len l); [|apply hm_panic]. apply hm_same. intros s. reflexivity.
  - intros W' l1 l2 E Hl. rewrite (lr_len _ _ _ Hl). destruct (i <? len l1); [|apply sim_panic].
    intros s1 s2 R. intros B. eexists tt, _, W'. split; [reflexivity|]. split; [apply ext_refl|]. split; [|exact I].
    apply srel_store; [exact R|]. destruct (sr_store _ _ _ R) as [A1 A2 A3 A4 A5 A6 A7].
    constructor; cbn [set_env strs macros next_id envs vecs conts lams]; try assumption.
    intros j Hj. destruct (N.eq_dec e1 j) as [<-|Hne].
    + rewrite !tget_tset_same. cbn [orel]. apply lr_set; [exact Hl|eapply vr_ext; [apply E|exact Hv]].
    + rewrite !tget_tset_other by exact Hne. apply A4, Hj.
Qed.
Lemma hm_env_put e i v : hmono (env_put e i v).
Proof.
  unfold env_put. apply hm_bind; [apply hm_env_slots|]. intros l.
  destruct (i <? len l); [|apply hm_panic]. apply hm_same. intros s. reflexivity.
Qed.

(* lexical access, run.rs:394-401 / 424-437 *)
Lemma sim_load_lex_slot W k : sim W vr (load_lex_slot k) (load_lex_slot k).
Proof.
  unfold load_lex_slot.
  eapply sim_bind; [apply sim_get_vm| |].
  { intros s. repeat (apply hm_bind; [first [apply hm_hget|apply hm_as_lexenv|apply hm_env_get]|intros ?]).
    destruct a1; try apply hm_ret.
    repeat (apply hm_bind; [first [apply hm_hget|apply hm_as_lexenv|apply hm_env_get]|intros ?]). apply hm_env_get. }
  intros W1 s1 s2 E1 Hs.
  eapply sim_bind; [apply sim_hget, (sn_ep _ _ _ Hs)| |].
  { intros ?. repeat (apply hm_bind; [first [apply hm_hget|apply hm_as_lexenv|apply hm_env_get]|intros ?]).
    destruct a1; try apply hm_ret.
    repeat (apply hm_bind; [first [apply hm_hget|apply hm_as_lexenv|apply hm_env_get]|intros ?]). apply hm_env_get. }
  intros W2 ev1 ev2 E2 Hev.
  eapply sim_bind; [apply sim_as_lexenv, Hev| |].
  { intros ?. repeat (apply hm_bind; [first [apply hm_hget|apply hm_as_lexenv|apply hm_env_get]|intros ?]).
    destruct a0; try apply hm_ret.
    repeat (apply hm_bind; [first [apply hm_hget|apply hm_as_lexenv|apply hm_env_get]|intros ?]). apply hm_env_get. }
  intros W3 e1 e2 E3 He.
  eapply sim_bind; [apply sim_env_get, He| |].
  { intros v. destruct v; try apply hm_ret.
    repeat (apply hm_bind; [first [apply hm_hget|apply hm_as_lexenv|apply hm_env_get]|intros ?]). apply hm_env_get. }
  intros W4 v1 v2 E4 Hv. pose proof Hv as [-> Lv].
  destruct v1; cbn [vmap]; try (apply sim_ret; exact Hv).
  eapply sim_bind; [apply sim_hget; split; [reflexivity|apply (vlive_addr _ _ _ Lv); now left]| |].
  { intros ?. apply hm_bind; [apply hm_as_lexenv|intros ?; apply hm_env_get]. }
  intros W5 x1 x2 E5 Hx.
  eapply sim_bind; [apply sim_as_lexenv, Hx|intros ?; apply hm_env_get|].
  intros W6 y1 y2 E6 Hy. apply sim_env_get, Hy.
Qed.

(* ------------------------------------------------------------------ hmono automation *)
Create HintDb hm.
#[export] Hint Resolve hm_ret hm_fail hm_fail_msg hm_panic hm_get_vm hm_push hm_pop_raw hm_stack_get hm_stack_put
  hm_stack_get_offset hm_stack_put_offset hm_set_acc hm_set_ip hm_set_ep hm_set_bp hm_set_sp hm_hget
  hm_hderef hm_as_ptr hm_as_argc hm_as_bp hm_as_ep hm_as_ip hm_as_lexenv hm_usub hm_get_lambda
  hm_as_lambda hm_cur_lambda hm_env_slots hm_env_new hm_vec_get hm_vec_set hm_env_get hm_env_put : hm.
Ltac hm :=
  repeat first [ solve [auto with hm]
               | apply hm_bind; [|intros ?]
               | match goal with |- hmono (match ?x with _ => _ end) => destruct x end ].

Lemma hm_load_lex_slot k : hmono (load_lex_slot k).
Proof. unfold load_lex_slot. hm. Qed.
Lemma hm_store_lex_slot k v : hmono (store_lex_slot k v).
Proof. unfold store_lex_slot. hm. Qed.
Lemma hm_read_opcode : hmono read_opcode.
Proof. unfold read_opcode. hm. Qed.
Lemma hm_read_operand : hmono read_operand.
Proof. unfold read_operand. hm. Qed.
#[export] Hint Resolve hm_load_lex_slot hm_store_lex_slot hm_read_opcode hm_read_operand : hm.
Lemma hm_hset p v : hmono (hset p v).
Proof.
  intros s. unfold hset, heap_set. destruct (p <? hlen (hp s)); cbn [hp with_heap hlen]; [lia|exact I].
Qed.
Lemma hm_load_operand : hmono load_operand.
Proof. unfold load_operand. hm. Qed.
Lemma hm_store_operand v : hmono (store_operand v).
Proof.
  unfold store_operand. hm; try apply hm_hset.
Qed.
#[export] Hint Resolve hm_hset hm_load_operand hm_store_operand : hm.

Lemma sim_store_lex_slot W k v1 v2 : vr W v1 v2 ->
  sim W (@anyr unit unit) (store_lex_slot k v1) (store_lex_slot k v2).
Proof.
  intros Hv. unfold store_lex_slot.
  eapply sim_bind; [apply sim_get_vm|intros; hm|]. intros W1 s1 s2 E1 Hs.
  eapply sim_bind; [apply sim_hget, (sn_ep _ _ _ Hs)|intros; hm|]. intros W2 ev1 ev2 E2 Hev.
  eapply sim_bind; [apply sim_as_lexenv, Hev|intros; hm|]. intros W3 e1 e2 E3 He.
  eapply sim_bind; [apply sim_env_get, He|intros; hm|]. intros W4 c1 c2 E4 Hc.
  assert (Hv4 : vr W4 v1 v2).
  { eapply vr_ext; [|exact Hv]. apply (ext_trans _ _ _ E1 (ext_trans _ _ _ E2 (ext_trans _ _ _ E3 E4))). }
  assert (He4 : idr PEnv W4 e1 e2) by (destruct He as [-> Hi]; split; [reflexivity|apply (ex_i _ _ (proj1 E4)), Hi]).
  pose proof Hc as [-> Lc].
  destruct c1; cbn [vmap]; try (apply sim_env_put; assumption).
  eapply sim_bind; [apply sim_hget; split; [reflexivity|apply (vlive_addr _ _ _ Lc); now left]|intros; hm|].
  intros W5 x1 x2 E5 Hx.
  eapply sim_bind; [apply sim_as_lexenv, Hx|intros; hm|].
  intros W6 y1 y2 E6 Hy. apply sim_env_put; [exact Hy|].
  eapply vr_ext; [|exact Hv4]. apply (ext_trans _ _ _ E5 E6).
Qed.
