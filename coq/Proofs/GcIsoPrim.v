(* GcIsoPrim.v — C03, part 3: the simulation judgement and the primitives of VmBase.v / Vm.v.
   [sim W Q m1 m2]: from [srel W]-related states, if m1 ends (normally or with an error) in a
   state whose heap still fits in a usize, m2 ends the same way in a related state of an
   extended world, with [Q]-related results. *)
From Coq Require Import Lia List.
From MW Require Import Model.Base Model.Num Model.VmTypes Model.Heap Model.Gc Model.VmBase Model.Vm
  Proofs.GcProofs Proofs.SymtabProofs Proofs.GcIso.
Open Scope N_scope.
Arguments N.add : simpl never.
Arguments N.sub : simpl never.
Arguments N.eqb : simpl never.
Arguments N.ltb : simpl never.
Arguments N.leb : simpl never.
Arguments N.mul : simpl never.

Definition bounded (s : vm) : Prop := hlen (hp s) <= NULL.
Definition hmono {A} (m : M A) : Prop :=
  forall s, match m s with
            | ROk _ s' => hlen (hp s) <= hlen (hp s')
            | RErr _ _ s' => hlen (hp s) <= hlen (hp s')
            | _ => True
            end.

Definition sim {A1 A2} (W : world) (Q : world -> A1 -> A2 -> Prop) (m1 : M A1) (m2 : M A2) : Prop :=
  forall s1 s2, srel W s1 s2 ->
    match m1 s1 with
    | ROk a1 s1' => bounded s1' ->
        exists a2 s2' W', m2 s2 = ROk a2 s2' /\ ext W W' /\ srel W' s1' s2' /\ Q W' a1 a2
    | RErr e msg s1' => bounded s1' ->
        exists s2' W', m2 s2 = RErr e msg s2' /\ ext W W' /\ srel W' s1' s2'
    | _ => True
    end.

Definition eqr {A} (W : world) (a b : A) : Prop := a = b.
Definition anyr {A B} (W : world) (a : A) (b : B) : Prop := True.

Lemma hm_bind {A B} (m : M A) (k : A -> M B) : hmono m -> (forall a, hmono (k a)) -> hmono (bindM m k).
Proof.
  intros Hm Hk s. unfold bindM. specialize (Hm s). destruct (m s) as [a s'|e msg s'| |]; try exact I.
  - specialize (Hk a s'). destruct (k a s'); try exact I; lia.
  - exact Hm.
Qed.
Lemma hm_same {A} (m : M A) :
  (forall s, match m s with ROk _ s' => hp s' = hp s | RErr _ _ s' => hp s' = hp s | _ => True end) -> hmono m.
Proof. intros H s. specialize (H s). destruct (m s); try exact I; rewrite H; lia. Qed.

Lemma sim_bind {A1 A2 B1 B2} W P Q (m1 : M A1) (m2 : M A2) (k1 : A1 -> M B1) (k2 : A2 -> M B2) :
  sim W P m1 m2 -> (forall a, hmono (k1 a)) ->
  (forall W' a1 a2, ext W W' -> P W' a1 a2 -> sim W' Q (k1 a1) (k2 a2)) ->
  sim W Q (bindM m1 k1) (bindM m2 k2).
Proof.
  intros Hm Hk Hs s1 s2 R. unfold bindM. specialize (Hm s1 s2 R).
  destruct (m1 s1) as [a1 s1m|e msg s1m| |] eqn:E1; try exact I.
  - pose proof (Hk a1 s1m) as Mono.
    destruct (k1 a1 s1m) as [b1 s1'|e msg s1'| |] eqn:E2; try exact I.
    + intros B. destruct Hm as (a2 & s2m & W' & E3 & X1 & R1 & P1); [unfold bounded in *; lia|].
      rewrite E3. pose proof (Hs W' a1 a2 X1 P1 s1m s2m R1) as H2. rewrite E2 in H2.
      destruct (H2 B) as (b2 & s2' & W'' & E4 & X2 & R2 & Q2).
      exists b2, s2', W''. split; [exact E4|]. split; [eapply ext_trans; eassumption|]. split; assumption.
    + intros B. destruct Hm as (a2 & s2m & W' & E3 & X1 & R1 & P1); [unfold bounded in *; lia|].
      rewrite E3. pose proof (Hs W' a1 a2 X1 P1 s1m s2m R1) as H2. rewrite E2 in H2.
      destruct (H2 B) as (s2' & W'' & E4 & X2 & R2).
      exists s2', W''. split; [exact E4|]. split; [eapply ext_trans; eassumption|assumption].
  - intros B. destruct (Hm B) as (s2' & W' & E3 & X1 & R1). rewrite E3. exists s2', W'. auto.
Qed.

Lemma sim_ret {A1 A2} W (Q : world -> A1 -> A2 -> Prop) a1 a2 : Q W a1 a2 -> sim W Q (ret a1) (ret a2).
Proof.
  intros H s1 s2 R. unfold ret. intros _. exists a2, s2, W. split; [reflexivity|]. split; [apply ext_refl|]. split; assumption.
Qed.
Lemma sim_fail {A1 A2} W (Q : world -> A1 -> A2 -> Prop) e : sim W Q (fail e) (fail e).
Proof. intros s1 s2 R. unfold fail. intros _. exists s2, W. split; [reflexivity|]. split; [apply ext_refl|assumption]. Qed.
Lemma sim_panic {A1 A2} W (Q : world -> A1 -> A2 -> Prop) k (m2 : M A2) : sim W Q (panic k) m2.
Proof. intros s1 s2 R. exact I. Qed.
Lemma sim_conseq {A1 A2} W (Q Q' : world -> A1 -> A2 -> Prop) m1 m2 :
  sim W Q m1 m2 -> (forall W' a b, ext W W' -> Q W' a b -> Q' W' a b) -> sim W Q' m1 m2.
Proof.
  intros H HQ s1 s2 R. specialize (H s1 s2 R). destruct (m1 s1); try exact I; [|exact H].
  intros B. destruct (H B) as (a2 & s2' & W' & E & X & R' & Q1). exists a2, s2', W'. auto.
Qed.

(* readers: the state is returned unchanged *)
Lemma sim_read {A1 A2} W (Q : world -> A1 -> A2 -> Prop) (m1 : M A1) (m2 : M A2) :
  (forall s1 s2, srel W s1 s2 ->
     match m1 s1 with
     | ROk a1 s1' => s1' = s1 /\ exists a2, m2 s2 = ROk a2 s2 /\ Q W a1 a2
     | RErr e msg s1' => s1' = s1 /\ m2 s2 = RErr e msg s2
     | _ => True
     end) -> sim W Q m1 m2.
Proof.
  intros H s1 s2 R. specialize (H s1 s2 R). destruct (m1 s1); try exact I.
  - destruct H as [-> (a2 & E & Q1)]. intros _. exists a2, s2, W. split; [exact E|]. split; [apply ext_refl|]. split; assumption.
  - destruct H as [-> E]. intros _. exists s2, W. split; [exact E|]. split; [apply ext_refl|assumption].
Qed.

Lemma sim_get_vm W : sim W snap get_vm get_vm.
Proof.
  apply sim_read. intros s1 s2 R. unfold get_vm. split; [reflexivity|]. exists s2. split; [reflexivity|].
  apply srel_snap, R.
Qed.

Ltac sr_simpl :=
  cbn [hp st g_bind g_slots stack scap sp bp ep ip acc out_log with_heap with_store with_stack
       with_scap with_sp with_acc with_ip with_bp with_ep with_globals with_log
       wa wi wf wtop set_top fst snd] in *.

Lemma sget_with_stack s t p j : sget (with_stack s t p) j = match tget t j with Some v => v | None => VUndef end.
Proof. reflexivity. Qed.
Lemma sget_tset s i v j : match tget (tset (stack s) i v) j with Some x => x | None => VUndef end
                          = if i =? j then v else sget s j.
Proof.
  destruct (N.eqb_spec i j) as [->|Hne]; [rewrite tget_tset_same; reflexivity|].
  rewrite tget_tset_other by exact Hne. reflexivity.
Qed.

(* generic: same memory, new stack table / registers *)
Lemma srel_regs W W' s1 s2 s1' s2' :
  srel W s1 s2 -> wsame W W' ->
  hp s1' = hp s1 -> hp s2' = hp s2 -> st s1' = st s1 -> st s2' = st s2 ->
  g_bind s1' = g_bind s1 -> g_bind s2' = g_bind s2 ->
  g_slots s1' = g_slots s1 -> g_slots s2' = g_slots s2 ->
  out_log s1' = out_log s1 -> out_log s2' = out_log s2 ->
  (forall i, i <= wtop W' -> vr W (sget s1' i) (sget s2' i)) ->
  sp s1' <= wtop W' -> scap s2' = scap s1' -> sp s2' = sp s1' -> bp s2' = bp s1' ->
  ar W (ep s1') (ep s2') -> ar W (fst (ip s1')) (fst (ip s2')) -> snd (ip s2') = snd (ip s1') ->
  vr W (acc s1') (acc s2') ->
  srel W' s1' s2'.
Proof.
  intros R WS H1 H2 H3 H4 H5 H6 H7 H8 H9 H10 Hst Hsp Hcap Hsp2 Hbp Hep Hip Hip2 Hacc.
  pose proof WS as (E & Ha & Hi).
  assert (Ef : forall a, wa W' a -> wf W' a = wf W a) by (intros a H; apply (ex_f _ _ E); left; apply Ha, H).
  destruct R as [R1 R2 R3 R4 R5 R6 R7 R8 R9 R10 R11 R12 R13 R14 R15 R16 R17 R18 R19 R20].
  constructor; rewrite ?H1, ?H2, ?H3, ?H4, ?H5, ?H6, ?H7, ?H8, ?H9, ?H10; try assumption.
  - rewrite (ex_f _ _ E) by (right; reflexivity). exact R1.
  - intros a b A B. rewrite (Ef a A), (Ef b B). apply R3; auto.
  - intros a A. apply R4, Ha, A.
  - intros a A. rewrite (Ef a A). apply R5, Ha, A.
  - intros a A. rewrite (Ef a A). eapply vr_ext; [exact E|]. apply R8, Ha, A.
  - eapply store_rel_wsame; eassumption.
  - destruct R10 as [B1 B2]. split.
    + rewrite B1. apply map_ext_in. intros x Hx. rewrite (ex_f _ _ E) by (left; apply B2, Hx). reflexivity.
    + intros x Hx. apply (ex_a _ _ E), B2, Hx.
  - eapply lr_ext; eassumption.
  - intros i Hi'. eapply vr_ext; [exact E|]. apply Hst, Hi'.
  - eapply ar_ext; eassumption.
  - split; [eapply ar_ext; eassumption|assumption].
  - eapply vr_ext; eassumption.
Qed.

Ltac rr R :=
  first [ reflexivity
        | exact (sr_scap _ _ _ R) | exact (sr_sp _ _ _ R) | exact (sr_bp _ _ _ R)
        | exact (sr_ep _ _ _ R) | exact (proj1 (sr_ip _ _ _ R)) | exact (proj2 (sr_ip _ _ _ R))
        | exact (sr_acc _ _ _ R) | exact (sr_top _ _ _ R) | exact (sr_stack _ _ _ R) ].

Lemma sget_upd s t p c j : sget (with_scap (with_stack s t p) c) j = match tget t j with Some v => v | None => VUndef end.
Proof. reflexivity. Qed.

(* ------------------------------------------------------------------ the stack *)
Lemma sim_push W v1 v2 : vr W v1 v2 -> sim W (@anyr unit unit) (push v1) (push v2).
Proof.
  intros Hv s1 s2 R. unfold push. intros B.
  eexists tt, _, (set_top W (N.max (wtop W) (sp s1 + 1))).
  split; [reflexivity|]. split; [apply ext_set_top; lia|]. split; [|exact I].
  pose proof (sr_sp _ _ _ R) as Esp. pose proof (sr_scap _ _ _ R) as Ecap. pose proof (sr_top _ _ _ R) as Et.
  eapply srel_regs; [exact R|apply wsame_set_top|..]; sr_simpl; try (rr R).
  - intros i Hi. rewrite !sget_upd, !sget_tset, Esp.
    destruct (N.eqb_spec (sp s1 + 1) i) as [<-|Hne]; [exact Hv|].
    apply (sr_stack _ _ _ R). lia.
  - lia.
  - rewrite Esp, Ecap. reflexivity.
  - rewrite Esp. reflexivity.
Qed.

Lemma sim_pop_raw W : sim W vr pop_raw pop_raw.
Proof.
  intros s1 s2 R. unfold pop_raw.
  pose proof (sr_sp _ _ _ R) as Esp. pose proof (sr_scap _ _ _ R) as Ecap. pose proof (sr_top _ _ _ R) as Et.
  rewrite Esp, Ecap. destruct (sp s1 =? 0) eqn:E0.
  - intros B. exists s2, W. split; [reflexivity|]. split; [apply ext_refl|exact R].
  - destruct (sp s1 <? scap s1) eqn:E1; intros B.
    + exists (sget s2 (sp s1)), (with_sp s2 (sp s1 - 1)), W.
      split; [reflexivity|]. split; [apply ext_refl|]. split; [|apply (sr_stack _ _ _ R); exact Et].
      eapply srel_regs; [exact R|apply wsame_refl|..]; sr_simpl; try (rr R). lia.
    + exists (with_sp s2 (sp s1 - 1)), W.
      split; [reflexivity|]. split; [apply ext_refl|].
      eapply srel_regs; [exact R|apply wsame_refl|..]; sr_simpl; try (rr R). lia.
Qed.

Lemma sim_stack_get W i : i <= wtop W -> sim W vr (stack_get i) (stack_get i).
Proof.
  intros Hi. apply sim_read. intros s1 s2 R. unfold stack_get. rewrite (sr_scap _ _ _ R).
  destruct (i <? scap s1); (split; [reflexivity|]); [|reflexivity].
  exists (sget s2 i). split; [reflexivity|]. apply (sr_stack _ _ _ R), Hi.
Qed.
Lemma sim_stack_put W i v1 v2 : vr W v1 v2 -> sim W (@anyr unit unit) (stack_put i v1) (stack_put i v2).
Proof.
  intros Hv s1 s2 R. unfold stack_put. rewrite (sr_scap _ _ _ R).
  destruct (i <? scap s1); intros B.
  - eexists tt, _, W. split; [reflexivity|]. split; [apply ext_refl|]. split; [|exact I].
    eapply srel_regs; [exact R|apply wsame_refl|..]; sr_simpl; try (rr R).
    intros j Hj. rewrite !sget_with_stack, !sget_tset.
    destruct (i =? j); [exact Hv|apply (sr_stack _ _ _ R), Hj].
  - exists s2, W. split; [reflexivity|]. split; [apply ext_refl|exact R].
Qed.
(* offsets relative to sp: only offsets <= 0 are read *)
Lemma sim_stack_get_offset W off : (off <= 0)%Z -> sim W vr (stack_get_offset off) (stack_get_offset off).
Proof.
  intros Ho s1 s2 R. unfold stack_get_offset. rewrite (sr_sp _ _ _ R).
  destruct (Z.of_N (sp s1) + off <? 0)%Z eqn:E.
  - intros B. exists s2, W. split; [reflexivity|]. split; [apply ext_refl|exact R].
  - apply sim_stack_get; [|exact R]. pose proof (sr_top _ _ _ R). lia.
Qed.
Lemma sim_stack_put_offset W off v1 v2 : vr W v1 v2 ->
  sim W (@anyr unit unit) (stack_put_offset off v1) (stack_put_offset off v2).
Proof.
  intros Hv s1 s2 R. unfold stack_put_offset. rewrite (sr_sp _ _ _ R).
  destruct (Z.of_N (sp s1) + off <? 0)%Z eqn:E.
  - intros B. exists s2, W. split; [reflexivity|]. split; [apply ext_refl|exact R].
  - apply sim_stack_put; assumption.
Qed.

(* ------------------------------------------------------------------ registers *)
Lemma sim_set_acc W v1 v2 : vr W v1 v2 -> sim W (@anyr unit unit) (set_acc v1) (set_acc v2).
Proof.
  intros Hv s1 s2 R. unfold set_acc. intros B.
  eexists tt, _, W. split; [reflexivity|]. split; [apply ext_refl|]. split; [|exact I].
  eapply srel_regs; [exact R|apply wsame_refl|..]; sr_simpl; try (rr R). exact Hv.
Qed.
Lemma sim_set_ip W a1 a2 i : ar W a1 a2 -> sim W (@anyr unit unit) (set_ip (a1, i)) (set_ip (a2, i)).
Proof.
  intros Ha s1 s2 R. unfold set_ip. intros B.
  eexists tt, _, W. split; [reflexivity|]. split; [apply ext_refl|]. split; [|exact I].
  eapply srel_regs; [exact R|apply wsame_refl|..]; sr_simpl; try (rr R). exact Ha.
Qed.
Lemma sim_set_ep W a1 a2 : ar W a1 a2 -> sim W (@anyr unit unit) (set_ep a1) (set_ep a2).
Proof.
  intros Ha s1 s2 R. unfold set_ep. intros B.
  eexists tt, _, W. split; [reflexivity|]. split; [apply ext_refl|]. split; [|exact I].
  eapply srel_regs; [exact R|apply wsame_refl|..]; sr_simpl; try (rr R). exact Ha.
Qed.
Lemma sim_set_bp W b : sim W (@anyr unit unit) (set_bp b) (set_bp b).
Proof.
  intros s1 s2 R. unfold set_bp. intros B.
  eexists tt, _, W. split; [reflexivity|]. split; [apply ext_refl|]. split; [|exact I].
  eapply srel_regs; [exact R|apply wsame_refl|..]; sr_simpl; try (rr R).
Qed.
(* lowering or keeping sp; raising it needs the slots to be related: p <= wtop *)
Lemma sim_set_sp W p : p <= wtop W -> sim W (@anyr unit unit) (set_sp p) (set_sp p).
Proof.
  intros Hp s1 s2 R. unfold set_sp. intros B.
  eexists tt, _, W. split; [reflexivity|]. split; [apply ext_refl|]. split; [|exact I].
  eapply srel_regs; [exact R|apply wsame_refl|..]; sr_simpl; try (rr R). exact Hp.
Qed.

(* ------------------------------------------------------------------ hmono of the primitives *)
Ltac hm_case :=
  match goal with
  | |- context [match ?x with _ => _ end] =>
      lazymatch x with
      | context [match _ with _ => _ end] => fail
      | _ => destruct x
      end
  end.
Ltac hm_same :=
  apply hm_same; intros s; repeat first [ reflexivity | exact I | hm_case ].
Lemma hm_ret {A} (a : A) : hmono (ret a). Proof. hm_same. Qed.
Lemma hm_fail {A} e : hmono (@fail A e). Proof. hm_same. Qed.
Lemma hm_fail_msg {A} e m : hmono (@fail_msg A e m). Proof. hm_same. Qed.
Lemma hm_panic {A} k : hmono (@panic A k). Proof. hm_same. Qed.
Lemma hm_get_vm : hmono get_vm. Proof. hm_same. Qed.
Lemma hm_push v : hmono (push v). Proof. unfold push. hm_same. Qed.
Lemma hm_pop_raw : hmono pop_raw. Proof. unfold pop_raw. hm_same. Qed.
Lemma hm_stack_get i : hmono (stack_get i). Proof. unfold stack_get. hm_same. Qed.
Lemma hm_stack_put i v : hmono (stack_put i v). Proof. unfold stack_put. hm_same. Qed.
Lemma hm_stack_get_offset o : hmono (stack_get_offset o).
Proof. unfold stack_get_offset, stack_get. hm_same. Qed.
Lemma hm_stack_put_offset o v : hmono (stack_put_offset o v).
Proof. unfold stack_put_offset, stack_put. hm_same. Qed.
Lemma hm_set_acc v : hmono (set_acc v). Proof. hm_same. Qed.
Lemma hm_set_ip i : hmono (set_ip i). Proof. hm_same. Qed.
Lemma hm_set_ep i : hmono (set_ep i). Proof. hm_same. Qed.
Lemma hm_set_bp i : hmono (set_bp i). Proof. hm_same. Qed.
Lemma hm_set_sp i : hmono (set_sp i). Proof. hm_same. Qed.
Lemma hm_hget p : hmono (hget p). Proof. unfold hget, lift. hm_same. Qed.
Lemma hm_hderef v : hmono (hderef v). Proof. unfold hderef, lift. hm_same. Qed.
Lemma hm_as_ptr v : hmono (as_ptr v). Proof. unfold as_ptr. hm_same. Qed.
Lemma hm_as_argc v : hmono (as_argc v). Proof. unfold as_argc. hm_same. Qed.
Lemma hm_as_bp v : hmono (as_bp v). Proof. unfold as_bp. hm_same. Qed.
Lemma hm_as_ep v : hmono (as_ep v). Proof. unfold as_ep. hm_same. Qed.
Lemma hm_as_ip v : hmono (as_ip v). Proof. unfold as_ip. hm_same. Qed.
Lemma hm_as_lexenv v : hmono (as_lexenv v). Proof. unfold as_lexenv. hm_same. Qed.
Lemma hm_usub a b : hmono (usub a b). Proof. unfold usub. hm_same. Qed.
Lemma hm_get_lambda i : hmono (get_lambda i). Proof. unfold get_lambda. hm_same. Qed.
Lemma hm_as_lambda v : hmono (as_lambda v). Proof. unfold as_lambda, get_lambda. hm_same. Qed.
Lemma hm_cur_lambda : hmono cur_lambda. Proof. unfold cur_lambda, get_lambda. hm_same. Qed.
Lemma hm_env_slots i : hmono (env_slots i). Proof. unfold env_slots. hm_same. Qed.
Lemma hm_env_new l : hmono (env_new l). Proof. unfold env_new, new_env. hm_same. Qed.
Lemma hm_vec_get i : hmono (vec_get i). Proof. unfold vec_get. hm_same. Qed.
Lemma hm_vec_set i l : hmono (vec_set i l). Proof. unfold vec_set. hm_same. Qed.
