(* TransformProofs.v — lemmas about Model/Transform.v (syntax-rules) against Model/SRSpec.v.
   Part 1: the definition-time analysis always returns (no panic, no fuel).          *)
From Coq Require Import String Lia.
From MW Require Import Model.Base Model.F64 Model.Num Model.Datum Model.TransformDef
  Model.Transform Model.SRSpec.
Open Scope N_scope.

(* ------------------------------------------------------------------ outcomes *)
Definition returns {A} (o : out A) : Prop :=
  match o with Ok _ | Err _ => True | Panic _ | NoFuel => False end.

Lemma returns_bind : forall A B (x : out A) (f : A -> out B),
  returns x -> (forall a, returns (f a)) -> returns (bind x f).
Proof. intros A B [a|e|s|] f Hx Hf; simpl in *; auto. Qed.

Lemma returns_ok : forall A (a : A), returns (Ok a).
Proof. intros; exact I. Qed.
Lemma returns_err : forall A e, returns (@Err A e).
Proof. intros; exact I. Qed.
#[global] Hint Resolve returns_ok returns_err : core.

Lemma car_returns : forall c, returns (car_ c).
Proof. destruct c; simpl; auto. Qed.
Lemma cdr_returns : forall c, returns (cdr_ c).
Proof. destruct c; simpl; auto. Qed.

(* ---------------------------------------------------------- Pattern::build *)
Lemma build_symbol_returns : forall p it idx len imp en ect,
  returns (build_symbol p it idx len imp en ect).
Proof.
  intros. unfold build_symbol.
  destruct (is_ellipsis p it).
  - destruct ((idx =? 0) || ((idx =? len - 1) && imp)); auto.
    destruct (1 <? ect + 1); auto.
  - apply returns_bind; auto.
    destruct (is_variable_candidate p it).
    + destruct (is_variable p it); auto.
    + destruct en; auto.
Qed.

Lemma build_eq : forall expr p,
  build expr p = build_loop build (N.of_nat (length (elems expr))) (is_improper_list expr) expr 0 0 p.
Proof. destruct expr; reflexivity. Qed.

Lemma build_loop_returns : forall (n : nat) rec len imp,
  (forall it p, (cell_size it < n)%nat -> returns (rec it p)) ->
  forall rest idx ect p, (cell_size rest <= n)%nat ->
  returns (build_loop rec len imp rest idx ect p).
Proof.
  intros n rec len imp Hrec.
  induction rest as [| | | |it _ rest' IH| | | | | | | |]; intros idx ect p Hs; simpl; auto.
  - simpl in Hs.
    destruct it; try (apply IH; lia).
    + (* a nested list pattern *)
      apply returns_bind.
      * apply Hrec. lia.
      * intros p2. apply IH. lia.
    + (* a symbol *)
      apply returns_bind.
      * apply build_symbol_returns.
      * intros [p1 ect1]. apply IH. lia.
  - apply returns_bind; [apply build_symbol_returns|]. intros [p1 ?]. auto.
Qed.

Lemma build_returns_sized : forall (n : nat) expr p, (cell_size expr <= n)%nat -> returns (build expr p).
Proof.
  induction n; intros expr p Hs.
  - destruct expr; simpl in Hs; lia.
  - rewrite build_eq. apply build_loop_returns with (n := S n); auto.
    intros it q Hlt. apply IHn. lia.
Qed.

Lemma build_returns : forall expr p, returns (build expr p).
Proof. intros. eapply build_returns_sized. apply Nat.le_refl. Qed.

Lemma pattern_try_new_returns : forall expr ell lits, returns (pattern_try_new expr ell lits).
Proof.
  intros. unfold pattern_try_new. destruct (negb (is_pair expr)); auto.
  apply returns_bind; [apply cdr_returns|]. intros. apply build_returns.
Qed.

(* ------------------------------------------------ check_template_syntax *)
Lemma cts_symbol_returns : forall p ell t imp pk eip, returns (cts_symbol p ell t imp pk eip).
Proof.
  intros. unfold cts_symbol.
  destruct (negb (is_variable p t) && _); auto.
  destruct (cell_eqb t ell); auto.
  destruct (eip || _); auto.
Qed.

Lemma cts_eq : forall template p ell,
  check_template_syntax template p ell =
  if (match template with CPair a _ => cell_eqb a ell | _ => false end) then Err E_OTHER
  else cts_loop (fun t => check_template_syntax t p ell) p ell (is_improper_list template) template false.
Proof. destruct template; reflexivity. Qed.

Lemma cts_loop_returns : forall (n : nat) rec p ell imp,
  (forall t, (cell_size t < n)%nat -> returns (rec t)) ->
  forall rest eip, (cell_size rest <= n)%nat -> returns (cts_loop rec p ell imp rest eip).
Proof.
  intros n rec p ell imp Hrec.
  induction rest as [| | | |t _ rest' IH| | | | | | | |]; intros eip Hs; simpl; auto.
  - simpl in Hs.
    destruct (followed_by ell rest' && negb (expands p ell t)); auto.
    destruct t; try (apply IH; lia).
    + apply returns_bind; [apply Hrec; lia|]. intros. apply IH. lia.
    + apply returns_bind; [apply cts_symbol_returns|]. intros. apply IH. lia.
  - apply returns_bind; [apply cts_symbol_returns|]. auto.
Qed.

Lemma cts_returns_sized : forall (n : nat) t p ell, (cell_size t <= n)%nat -> returns (check_template_syntax t p ell).
Proof.
  induction n; intros t p ell Hs.
  - destruct t; simpl in Hs; lia.
  - rewrite cts_eq. destruct (match t with CPair a _ => cell_eqb a ell | _ => false end); auto.
    apply cts_loop_returns with (n := S n); auto.
    intros. apply IHn. lia.
Qed.

Lemma cts_returns : forall t p ell, returns (check_template_syntax t p ell).
Proof. intros. eapply cts_returns_sized. apply Nat.le_refl. Qed.

(* ----------------------------------------------------- Transform::try_new *)
Lemma build_rules_returns : forall rules ell lits, returns (build_rules rules ell lits).
Proof.
  induction rules; intros; simpl; auto.
  repeat (apply returns_bind; [first [apply car_returns | apply cdr_returns | apply pattern_try_new_returns
                                     | apply cts_returns | apply IHrules]|intros]).
  auto.
Qed.

(* definition-time analysis terminates and does not panic: there is no fuel in
   [transform_try_new], and its outcome is never [Panic]/[NoFuel] *)
Lemma define_total : forall d, returns (transform_try_new d).
Proof.
  intros d. unfold transform_try_new.
  destruct (elems d) as [|x0 [|kw [|sr [|]]]]; auto.
  destruct (negb (is_symbol kw)); auto.
  apply returns_bind; [apply car_returns|]. intros hd.
  destruct (negb (cell_eqb hd SYNTAX_RULES)); auto.
  apply returns_bind; [apply cdr_returns|]. intros sr1.
  apply returns_bind; [apply car_returns|]. intros c1.
  apply returns_bind.
  { destruct c1; auto. apply returns_bind; [apply cdr_returns|]. auto. }
  intros [ell sr2].
  apply returns_bind; [apply car_returns|]. intros lits.
  destruct (negb (all_symbols (elems lits))); auto.
  apply returns_bind; [apply cdr_returns|]. intros sr3.
  apply returns_bind; [apply build_rules_returns|]. auto.
Qed.

(* ======================================================================
   Part 2: the matcher on the supported fragment S_match
   ====================================================================== *)
Lemma elems_new_list : forall l, elems (new_list l) = l.
Proof. unfold new_list. induction l; simpl; congruence. Qed.

Lemma new_list_elems : forall u, last_cdr u = CNil -> new_list (elems u) = u.
Proof.
  unfold new_list. induction u; simpl; intros H; try discriminate; auto.
  rewrite IHu2; auto.
Qed.

Lemma chain_len_new_list : forall l, chain_len (new_list l) = length l.
Proof. unfold new_list. induction l; simpl; congruence. Qed.

Lemma split_chain_new_list : forall n l, (n <= length l)%nat ->
  split_chain n (new_list l) = Some (firstn n l, new_list (skipn n l)).
Proof.
  unfold new_list. induction n; intros l Hn; simpl; auto.
  destruct l; simpl in *; [lia|].
  rewrite IHn by lia. reflexivity.
Qed.

Lemma is_list_last : forall u, is_list u = true -> last_cdr u = CNil.
Proof.
  unfold is_list. intros u H. apply andb_prop in H. destruct H as [_ H].
  destruct (last_cdr u); simpl in H; try discriminate. reflexivity.
Qed.

Lemma cell_eqb_sym_refl : forall c, is_symbol c = true -> cell_eqb c c = true.
Proof.
  destruct c; simpl; try discriminate. intros _. unfold text_eqb.
  destruct (list_eq_dec N.eq_dec s s); congruence.
Qed.

Lemma cell_eqb_nil : forall f, cell_eqb CNil f = true -> f = CNil.
Proof. destruct f; simpl; intros; try discriminate; auto. Qed.

Lemma cell_size_ind : forall (P : cell -> Prop),
  (forall p, (forall q, (cell_size q < cell_size p)%nat -> P q) -> P p) -> forall p, P p.
Proof.
  intros P H p. remember (cell_size p) as n eqn:E. revert p E.
  induction n as [n IH] using lt_wf_ind. intros p E. apply H. intros q Hq. eapply IH; [|reflexivity]. lia.
Qed.

Section MatchProofs.
Variable lits : list cell.
Variable ell : cell.
Hypothesis Hell : is_symbol ell = true.

Notation smatch' := (smatch lits ell).
Notation pm_loop' := (pm_loop lits ell).

Definition res (env : bindings) (o : option senv) : out (option bindings) :=
  Ok (option_map (fun se => env ++ flat se) o).

Lemma ell_refl : cell_eqb ell ell = true.
Proof. apply cell_eqb_sym_refl; exact Hell. Qed.

(* ---- equations of the specification matcher on list patterns *)
Lemma smatch_plain : forall a d f, starts_with_ell ell d = false ->
  smatch' (CPair a d) f =
  match f with CPair f1 fr => opt_app (smatch' a f1) (smatch' d fr) | _ => None end.
Proof.
  intros a d f H. destruct d; try reflexivity.
  simpl in H. cbn [smatch]. unfold s_is_ell in *. rewrite H. reflexivity.
Qed.

Lemma smatch_ell : forall a e d' f, s_is_ell ell e = true ->
  smatch' (CPair a (CPair e d')) f =
  let k := chain_len d' in
  let n := chain_len f in
  if Nat.ltb n k then None else
  match split_chain (n - k) f with
  | Some (items, frest) =>
      match all_some (map (smatch' a) items) with
      | Some ms => opt_app (Some (collect (pvars lits ell a) ms)) (smatch' d' frest)
      | None => None
      end
  | None => None
  end.
Proof. intros a e d' f H. cbn [smatch]. rewrite H. reflexivity. Qed.

(* ---- what pat_ok gives *)
Definition elem_ok (a : cell) : bool :=
  match a with
  | CPair _ _ => pat_ok lits ell false a
  | CVec _ => false
  | CSym _ => negb (s_is_ell ell a)
  | _ => true
  end.

Lemma pat_ok_plain : forall seen a d, starts_with_ell ell d = false ->
  pat_ok lits ell seen (CPair a d) = true -> elem_ok a = true /\ pat_ok lits ell seen d = true.
Proof.
  intros seen a d Hs H. cbn [pat_ok] in H. apply andb_prop in H. destruct H as [Ha Hd].
  split; [exact Ha|].
  destruct d; auto. simpl in Hs. unfold s_is_ell in *. rewrite Hs in Hd. exact Hd.
Qed.

Lemma pat_ok_ell : forall seen a e d', s_is_ell ell e = true ->
  pat_ok lits ell seen (CPair a (CPair e d')) = true ->
  seen = false /\ f_is_var lits ell a = true /\ pat_ok lits ell true d' = true.
Proof.
  intros seen a e d' He H. cbn [pat_ok] in H. apply andb_prop in H. destruct H as [_ H].
  rewrite He in H. apply andb_prop in H. destruct H as [H H3]. apply andb_prop in H. destruct H as [H1 H2].
  destruct seen; simpl in H1; try discriminate. auto.
Qed.

Lemma is_ell_sym : forall c, s_is_ell ell c = true -> is_symbol c = true.
Proof.
  unfold s_is_ell. intros c H. destruct ell; try discriminate Hell.
  destruct c; simpl in H; try discriminate; reflexivity.
Qed.

(* with [seen] the tail has no ellipsis at all *)
Lemma pat_ok_true_no_ell : forall d, pat_ok lits ell true d = true -> starts_with_ell ell d = false.
Proof.
  intros d H. destruct d; auto. simpl.
  destruct (s_is_ell ell d1) eqn:E; auto.
  cbn [pat_ok] in H. apply andb_prop in H. destruct H as [Ha _].
  pose proof (is_ell_sym _ E) as Hs.
  destruct d1; simpl in Hs; try discriminate.
  rewrite E in Ha. discriminate.
Qed.

Lemma pat_ok_proper : forall p seen, pat_ok lits ell seen p = true -> last_cdr p = CNil.
Proof.
  induction p using cell_size_ind. intros seen Hp.
  destruct p; try (simpl in Hp; discriminate); auto.
  simpl. destruct (starts_with_ell ell p2) eqn:Es.
  - destruct p2; simpl in Es; try discriminate.
    apply pat_ok_ell in Hp; auto. destruct Hp as (_ & _ & Hd).
    simpl. eapply H; [|exact Hd]. simpl. lia.
  - apply pat_ok_plain in Hp; auto. destruct Hp as [_ Hd].
    eapply H; [|exact Hd]. simpl. lia.
Qed.

Lemma pat_ok_chain_len : forall p seen, pat_ok lits ell seen p = true -> chain_len p = length (elems p).
Proof.
  induction p using cell_size_ind. intros seen Hp.
  destruct p; try (simpl in Hp; discriminate); auto.
  simpl. f_equal. destruct (starts_with_ell ell p2) eqn:Es.
  - destruct p2; simpl in Es; try discriminate.
    apply pat_ok_ell in Hp; auto. destruct Hp as (_ & _ & Hd).
    simpl. f_equal. eapply H; [|exact Hd]. simpl. lia.
  - apply pat_ok_plain in Hp; auto. destruct Hp as [_ Hd].
    eapply H; [|exact Hd]. simpl. lia.
Qed.

(* the head of the pattern iterator is not the ellipsis *)
Lemma peek_not_ell : forall d, starts_with_ell ell d = false ->
  (exists seen, pat_ok lits ell seen d = true) -> peek_is ell (elems d) = false.
Proof.
  intros d Hs [seen Hp]. destruct d; try (simpl in Hp; discriminate); auto.
Qed.

(* ---- one iteration of the loop body against the specification of the element *)
Lemma loop_step : forall rec e es' pit cur in_ell env a pit',
  pm_select in_ell pit cur (length es') = SelPattern a pit' ->
  elem_ok a = true ->
  (is_pair a = true -> rec a e env = res env (smatch' a e)) ->
  pm_loop' rec (e :: es') pit cur in_ell env =
  match smatch' a e with
  | Some se => pm_loop' rec es' pit' a (peek_is ell pit') (env ++ flat se)
  | None => Ok None
  end.
Proof.
  intros rec e es' pit cur in_ell env a pit' Hsel Hok Hrec.
  cbn [pm_loop]. rewrite Hsel.
  destruct a; try (simpl in Hok; discriminate);
    try (cbn [smatch]; destruct (cell_eqb _ e); simpl; rewrite ?app_nil_r; reflexivity).
  - (* nested list pattern *)
    rewrite Hrec by reflexivity. unfold res. destruct (smatch' (CPair a1 a2) e); reflexivity.
  - (* identifier *)
    cbn [smatch]. unfold tr_is_literal, s_is_lit, s_is_under.
    destruct (mem_cell (CSym s) lits).
    + destruct (cell_eqb (CSym s) e); simpl; rewrite ?app_nil_r; reflexivity.
    + destruct (cell_eqb (CSym s) UNDERSCORE); simpl; rewrite ?app_nil_r; reflexivity.
Qed.

Lemma loop_sel_eq : forall rec e es' p1 c1 i1 p2 c2 i2 env,
  pm_select i1 p1 c1 (length es') = pm_select i2 p2 c2 (length es') ->
  pm_loop' rec (e :: es') p1 c1 i1 env = pm_loop' rec (e :: es') p2 c2 i2 env.
Proof. intros. cbn [pm_loop]. rewrite H. reflexivity. Qed.

Lemma flat_app : forall a b, flat (a ++ b) = flat a ++ flat b.
Proof. intros. unfold flat. apply flat_map_app. Qed.

(* ---- a pattern variable as ellipsis sub-pattern *)
Lemma var_facts : forall a, f_is_var lits ell a = true ->
  is_symbol a = true /\ s_is_lit lits a = false /\ s_is_ell ell a = false /\ s_is_under a = false.
Proof.
  unfold f_is_var. intros a H.
  apply andb_prop in H. destruct H as [H H4]. apply andb_prop in H. destruct H as [H H3].
  apply andb_prop in H. destruct H as [H1 H2].
  repeat split; auto; apply negb_true_iff; assumption.
Qed.

Lemma smatch_var : forall a f, f_is_var lits ell a = true -> smatch' a f = Some [(a, BOne f)].
Proof.
  intros a f H. destruct (var_facts _ H) as (Hs & Hl & He & Hu).
  destruct a; simpl in Hs; try discriminate. cbn [smatch]. rewrite Hl, Hu. reflexivity.
Qed.

Lemma pvars_var : forall a, f_is_var lits ell a = true -> pvars lits ell a = [a].
Proof.
  intros a H. destruct (var_facts _ H) as (Hs & Hl & He & Hu).
  destruct a; simpl in Hs; try discriminate. cbn [pvars]. rewrite Hl, He, Hu. reflexivity.
Qed.

Lemma all_some_var : forall a items, f_is_var lits ell a = true ->
  all_some (map (smatch' a) items) = Some (map (fun f => [(a, BOne f)]) items).
Proof.
  intros a items H. induction items; simpl; auto.
  rewrite smatch_var by assumption. rewrite IHitems. reflexivity.
Qed.

Lemma collect_var : forall a items, is_symbol a = true ->
  collect [a] (map (fun f => [(a, BOne f)]) items) = [(a, BMany (map BOne items))].
Proof.
  intros a items Hs. unfold collect. simpl. f_equal. f_equal. f_equal.
  rewrite map_map. apply map_ext. intros f. simpl. rewrite cell_eqb_sym_refl by assumption. reflexivity.
Qed.

Lemma flat_var_many : forall a items, flat [(a, BMany (map BOne items))] = map (pair a) items.
Proof.
  intros. unfold flat. simpl. rewrite app_nil_r.
  induction items; simpl; auto. f_equal. exact IHitems.
Qed.

Definition rec_ok (rec : cell -> cell -> bindings -> out (option bindings)) (n : nat) : Prop :=
  forall q e env, is_pair q = true -> (S (car_depth q) <= n)%nat ->
    pat_ok lits ell false q = true ->
    (is_list e || negb (is_pair e)) = true -> use_ok ell q (elems e) = true ->
    rec q e env = res env (smatch' q e).

(* ---- inside the ellipsis: the `len() == len() + 2` switch *)
Lemma loop_B : forall rec a e d',
  s_is_ell ell e = true -> f_is_var lits ell a = true -> pat_ok lits ell true d' = true ->
  (forall es cur env, use_ok ell d' es = true ->
     pm_loop' rec es (elems d') cur false env = res env (smatch' d' (new_list es))) ->
  forall es env,
  (length (elems d') <= length es -> use_ok ell d' (skipn (length es - length (elems d')) es) = true)%nat ->
  pm_loop' rec es (e :: elems d') a true env =
  if Nat.ltb (length es) (length (elems d')) then Ok None
  else match smatch' d' (new_list (skipn (length es - length (elems d')) es)) with
       | Some se => Ok (Some (env ++ map (pair a) (firstn (length es - length (elems d')) es) ++ flat se))
       | None => Ok None
       end.
Proof.
  intros rec a e d' He Ha Hd HA.
  set (k := length (elems d')).
  induction es as [|e1 es' IH]; intros env Hu.
  - (* the use is exhausted *)
    cbn [pm_loop]. simpl length.
    destruct (elems d') as [|y pit2] eqn:Ed; subst k; simpl length.
    + unfold pm_end. simpl. assert (d' = CNil) as ->.
      { rewrite <- (new_list_elems d') by (eapply pat_ok_proper; eauto). rewrite Ed. reflexivity. }
      cbn [smatch]. simpl. rewrite !app_nil_r. reflexivity.
    + unfold pm_end. cbn [tl]. simpl Nat.ltb. cbv iota.
      assert (peek_is ell pit2 = false) as ->; [|reflexivity].
      destruct d' as [| | | |y' d''| | | | | | | |]; simpl in Ed; try discriminate.
      injection Ed as -> <-.
      assert (Hd2 : pat_ok lits ell true d'' = true).
      { cbn [pat_ok] in Hd. apply andb_prop in Hd. destruct Hd as [_ Hd].
        destruct d''; auto. destruct (s_is_ell ell d''1) eqn:E; [|exact Hd].
        apply andb_prop in Hd. destruct Hd as [Hd _]. apply andb_prop in Hd. destruct Hd as [Hd _]. discriminate. }
      apply peek_not_ell; [apply pat_ok_true_no_ell; exact Hd2 | exists true; exact Hd2].
  - (* one more element of the use *)
    simpl length in *.
    destruct (Nat.eqb (S k) (length es' + 2)) eqn:Esw.
    + (* leave the ellipsis: the remaining elements are exactly the fixed tail *)
      apply Nat.eqb_eq in Esw. assert (Hk : k = S (length es')) by lia.
      destruct (elems d') as [|y pit2] eqn:Ed; [subst k; simpl in Hk; lia|].
      rewrite (loop_sel_eq rec e1 es' (e :: y :: pit2) a true (y :: pit2) a false env).
      2:{ cbn [pm_select]. simpl length. subst k. simpl length in *.
          replace (Nat.eqb (S (S (length pit2))) (length es' + 2)) with true by (symmetry; apply Nat.eqb_eq; lia).
          reflexivity. }
      rewrite HA.
      2:{ specialize (Hu ltac:(lia)). replace (S (length es') - k)%nat with 0%nat in Hu by lia. exact Hu. }
      replace (Nat.ltb (S (length es')) k) with false by (symmetry; apply Nat.ltb_ge; lia).
      replace (S (length es') - k)%nat with 0%nat by lia. simpl skipn. simpl firstn. simpl map.
      unfold res. destruct (smatch' d' (new_list (e1 :: es'))); reflexivity.
    + (* stay: the element belongs to the ellipsis variable *)
      apply Nat.eqb_neq in Esw.
      rewrite (loop_step rec e1 es' (e :: elems d') a true env a (e :: elems d')).
      2:{ cbn [pm_select]. simpl length. fold k.
          replace (Nat.eqb (S k) (length es' + 2)) with false by (symmetry; apply Nat.eqb_neq; lia). reflexivity. }
      2:{ destruct (var_facts _ Ha) as (Hs & _ & Hne & _). destruct a; simpl in Hs; try discriminate.
          change (negb (s_is_ell ell (CSym s)) = true). rewrite Hne. reflexivity. }
      2:{ destruct (var_facts _ Ha) as (Hs & _). destruct a; simpl in Hs; try discriminate. }
      rewrite smatch_var by assumption.
      assert (peek_is ell (e :: elems d') = true) as -> by exact He.
      rewrite IH.
      2:{ intros Hle. specialize (Hu ltac:(lia)).
          replace (S (length es') - k)%nat with (S (length es' - k)) in Hu by lia. exact Hu. }
      destruct (Nat.ltb (length es') k) eqn:El.
      * apply Nat.ltb_lt in El. replace (Nat.ltb (S (length es')) k) with true by (symmetry; apply Nat.ltb_lt; lia).
        reflexivity.
      * apply Nat.ltb_ge in El. replace (Nat.ltb (S (length es')) k) with false by (symmetry; apply Nat.ltb_ge; lia).
        replace (S (length es') - k)%nat with (S (length es' - k)) by lia.
        simpl skipn. simpl firstn. simpl map.
        destruct (smatch' d' (new_list (skipn (length es' - k) es'))); [|reflexivity].
        simpl flat. rewrite <- !app_assoc. reflexivity.
Qed.

Lemma car_depth_elem : forall a d n, (car_depth (CPair a d) <= n)%nat ->
  (S (car_depth a) <= n)%nat /\ (car_depth d <= n)%nat.
Proof. intros a d n H. cbn [car_depth] in H. lia. Qed.

(* ---- the whole loop on a list pattern of the fragment *)
Lemma loop_A : forall rec n, rec_ok rec n ->
  forall p seen, pat_ok lits ell seen p = true -> (car_depth p <= n)%nat ->
  forall es cur env, use_ok ell p es = true ->
  pm_loop' rec es (elems p) cur false env = res env (smatch' p (new_list es)).
Proof.
  intros rec n Hrec.
  induction p as [p IHp] using cell_size_ind. intros seen Hp Hn es cur env Hu.
  destruct p as [| | | |a d| | | | | | | |]; try (simpl in Hp; discriminate).
  - (* () *)
    destruct es as [|e es'].
    + cbn [pm_loop elems]. unfold pm_end, res. cbn. rewrite app_nil_r. reflexivity.
    + reflexivity.
  - destruct (car_depth_elem _ _ _ Hn) as [Hna Hnd].
    destruct (starts_with_ell ell d) eqn:Es.
    + (* a ... tail *)
      destruct d as [| | | |e d'| | | | | | | |]; simpl in Es; try discriminate.
      destruct (pat_ok_ell _ _ _ _ Es Hp) as (-> & Ha & Hd').
      destruct (car_depth_elem _ _ _ Hnd) as [_ Hnd'].
      destruct (var_facts _ Ha) as (Hsa & _ & Hnea & _).
      pose proof (pat_ok_chain_len _ _ Hd') as Hk.
      assert (HA : forall es cur env, use_ok ell d' es = true ->
                pm_loop' rec es (elems d') cur false env = res env (smatch' d' (new_list es))).
      { intros. eapply IHp; eauto. simpl. lia. }
      cbn [use_ok] in Hu. rewrite Es in Hu. apply andb_prop in Hu. destruct Hu as [Hne Hu'].
      rewrite Hk in Hne, Hu'.
      rewrite smatch_ell by exact Es. cbv zeta. rewrite chain_len_new_list, Hk.
      cbn [elems].
      destruct es as [|e1 es'].
      * (* no element left: zero items *)
        cbn [pm_loop]. unfold pm_end. cbn [tl peek_is]. unfold s_is_ell in Es. rewrite Es.
        destruct (elems d') as [|y r] eqn:Ed.
        -- assert (d' = CNil) as ->.
           { rewrite <- (new_list_elems d') by (eapply pat_ok_proper; eauto). rewrite Ed. reflexivity. }
           simpl. rewrite pvars_var by assumption. unfold res. simpl. rewrite app_nil_r. reflexivity.
        -- reflexivity.
      * (* the first element always goes to the ellipsis variable *)
        rewrite (loop_step rec e1 es' (a :: e :: elems d') cur false env a (e :: elems d')).
        2:{ reflexivity. }
        2:{ destruct a; simpl in Hsa; try discriminate.
            change (negb (s_is_ell ell (CSym s)) = true). rewrite Hnea. reflexivity. }
        2:{ destruct a; simpl in Hsa; try discriminate. }
        rewrite smatch_var by assumption.
        assert (peek_is ell (e :: elems d') = true) as -> by exact Es.
        rewrite (loop_B rec a e d' Es Ha Hd' HA).
        2:{ intros Hle. simpl length in Hu'.
            replace (S (length es') - length (elems d'))%nat with (S (length es' - length (elems d'))) in Hu' by lia.
            exact Hu'. }
        simpl length. set (k := length (elems d')) in *.
        destruct (Nat.ltb (length es') k) eqn:El.
        -- apply Nat.ltb_lt in El.
           destruct (Nat.ltb (S (length es')) k) eqn:El2; [reflexivity|].
           apply Nat.ltb_ge in El2. assert (k = S (length es')) by lia.
           (* exactly the tail length: excluded by S_use *)
           simpl length in Hne. apply orb_prop in Hne. destruct Hne as [Hne|Hne].
           ++ apply Nat.eqb_eq in Hne. lia.
           ++ apply negb_true_iff in Hne. apply Nat.eqb_neq in Hne. lia.
        -- apply Nat.ltb_ge in El.
           replace (Nat.ltb (S (length es')) k) with false by (symmetry; apply Nat.ltb_ge; lia).
           rewrite split_chain_new_list by (cbn [length]; lia).
           rewrite all_some_var by assumption. rewrite pvars_var by assumption.
           rewrite collect_var by assumption.
           replace (S (length es') - k)%nat with (S (length es' - k)) by lia.
           simpl skipn. simpl firstn.
           unfold res.
           destruct (smatch' d' (new_list (skipn (length es' - k) es'))); [|reflexivity].
           cbn [opt_app option_map]. rewrite flat_app, flat_var_many.
           simpl map. simpl flat. rewrite <- !app_assoc. reflexivity.
    + (* a plain element *)
      destruct (pat_ok_plain _ _ _ Es Hp) as [Hea Hd].
      rewrite smatch_plain by exact Es.
      assert (Hu2 : match es with
                    | e1 :: es' =>
                        (match a with
                         | CPair _ _ => (is_list e1 || negb (is_pair e1)) && use_ok ell a (elems e1)
                         | _ => true
                         end) && use_ok ell d es'
                    | [] => true
                    end = true).
      { cbn [use_ok] in Hu. destruct d; auto. simpl in Es. unfold s_is_ell in *. rewrite Es in Hu. exact Hu. }
      cbn [elems].
      destruct es as [|e1 es'].
      * cbn [pm_loop]. unfold pm_end. cbn [tl].
        rewrite peek_not_ell; [reflexivity | exact Es | exists seen; exact Hd].
      * apply andb_prop in Hu2. destruct Hu2 as [Hua Hud].
        rewrite (loop_step rec e1 es' (a :: elems d) cur false env a (elems d)); [|reflexivity|exact Hea|].
        2:{ intros Hpa. destruct a; simpl in Hpa; try discriminate.
            apply andb_prop in Hua. destruct Hua as [Hl Hua].
            apply Hrec; auto. }
        rewrite peek_not_ell; [| exact Es | exists seen; exact Hd].
        change (new_list (e1 :: es')) with (CPair e1 (new_list es')). cbv iota.
        destruct (smatch' a e1) as [se|]; [|reflexivity].
        rewrite (IHp d) with (seen := seen); auto; [|simpl; lia].
        unfold res. destruct (smatch' d (new_list es')); [|reflexivity].
        cbn [opt_app option_map]. rewrite flat_app, app_assoc. reflexivity.
Qed.

(* ---- pattern_match itself: [S n] fuel for a pattern nested [n] deep *)
Lemma pm_guard_ok : forall p e, (is_pair p || is_nil p) = true -> last_cdr p = CNil ->
  is_list e = true \/ is_nil e = true -> pm_guard p e = false.
Proof.
  intros p e Hp Hl He. unfold pm_guard.
  assert (Hpl : is_pair p = true -> is_list p = true).
  { intros X. unfold is_list. rewrite X, Hl. reflexivity. }
  destruct He as [He|He].
  - assert (is_pair e = true) as Hpe by (unfold is_list in He; apply andb_prop in He; tauto).
    rewrite Hpe, He. simpl. rewrite Hp. simpl.
    destruct (is_pair p) eqn:Ep; simpl; auto. rewrite Hpl; auto.
  - destruct e; simpl in He; try discriminate. rewrite Hp. reflexivity.
Qed.

Lemma smatch_list_atom : forall p seen f, pat_ok lits ell seen p = true ->
  is_pair f = false -> is_nil f = false -> smatch' p f = None.
Proof.
  intros p seen f Hp Hf Hn.
  destruct p as [| | | |a d| | | | | | | |]; try (simpl in Hp; discriminate).
  - cbn [smatch]. destruct f; simpl in *; try discriminate; reflexivity.
  - destruct (starts_with_ell ell d) eqn:Es.
    + destruct d as [| | | |e d'| | | | | | | |]; simpl in Es; try discriminate.
      rewrite smatch_ell by exact Es. cbv zeta.
      assert (chain_len f = 0%nat) as -> by (destruct f; simpl in *; try discriminate; reflexivity).
      destruct (pat_ok_ell _ _ _ _ Es Hp) as (_ & _ & Hd').
      destruct d' as [| | | |y d''| | | | | | | |]; try (simpl in Hd'; discriminate).
      * cbn [chain_len Nat.ltb Nat.leb Nat.sub split_chain map all_some opt_app smatch].
        destruct f; simpl in *; try discriminate; reflexivity.
      * reflexivity.
    + rewrite smatch_plain by exact Es. destruct f; simpl in *; try discriminate; reflexivity.
Qed.

Theorem pattern_match_spec : forall n p seen, pat_ok lits ell seen p = true -> (car_depth p <= n)%nat ->
  forall e env, (is_list e || negb (is_pair e)) = true -> use_ok ell p (elems e) = true ->
  pattern_match lits ell (S n) p e env = res env (smatch' p e).
Proof.
  induction n as [n IHn] using lt_wf_ind. intros p seen Hp Hn e env He Hu.
  cbn [pattern_match].
  assert (Hpp : (is_pair p || is_nil p) = true).
  { destruct p; simpl in Hp; try discriminate; reflexivity. }
  pose proof (pat_ok_proper _ _ Hp) as Hlast.
  destruct (is_list e || is_nil e) eqn:Hle.
  - (* a proper list (or the empty list) *)
    rewrite pm_guard_ok; auto.
    2:{ apply orb_prop in Hle. tauto. }
    assert (He2 : new_list (elems e) = e).
    { apply new_list_elems. apply orb_prop in Hle. destruct Hle as [H|H].
      - apply is_list_last; exact H.
      - destruct e; simpl in H; try discriminate; reflexivity. }
    rewrite <- He2 at 2.
    apply loop_A with (n := n) (seen := seen); auto.
    (* the recursive calls have one unit of fuel less and patterns one level shallower *)
    intros q e' env' Hq Hdq Hpq Hle' Huq.
    destruct n as [|n']; [lia|].
    apply (IHn n') with (seen := false); auto; lia.
  - (* not a list at all *)
    apply orb_false_iff in Hle. destruct Hle as [Hl Hnil].
    assert (Hpe : is_pair e = false).
    { destruct (is_pair e) eqn:X; auto. rewrite Hl in He. simpl in He. discriminate. }
    assert (pm_guard p e = true) as ->.
    { unfold pm_guard. rewrite Hpp, Hpe, Hnil. reflexivity. }
    rewrite (smatch_list_atom p seen e); auto.
Qed.
End MatchProofs.

(* ---- the statements used by Props/C17.v *)
Lemma match_sound_complete : forall lits ell, is_symbol ell = true ->
  forall p u env, S_match lits ell p u = true ->
  pattern_match lits ell (pm_fuel p) p u env =
  Ok (option_map (fun se => env ++ flat se) (smatch lits ell p u)).
Proof.
  intros lits ell Hell p u env H. unfold S_match in H.
  apply andb_prop in H. destruct H as [H Hu]. apply andb_prop in H. destruct H as [Hp Hl].
  unfold pm_fuel.
  apply (pattern_match_spec lits ell Hell (S (car_depth p)) p false); auto.
Qed.

Lemma first_matching_rule : forall tr u extra, supported_tr tr u = true ->
  transform_apply_fuel extra tr u =
  match spec_select (tr_literals tr) (tr_ellipsis tr) (tr_rules tr) u with
  | None => Err E_OTHER
  | Some (pat, tmpl, se) =>
      match expand (tr_ellipsis tr) pat (flat se) (expand_fuel tmpl (flat se) + extra) tmpl (env_new pat) with
      | Ok (Some c, _) => Ok c
      | Ok (None, _) => Err E_OTHER
      | Err e => Err e
      | Panic s => Panic s
      | NoFuel => NoFuel
      end
  end.
Proof.
  intros tr u extra H. unfold supported_tr in H. apply andb_prop in H. destruct H as [Hell H].
  unfold transform_apply_fuel.
  generalize dependent (tr_rules tr). intros rules.
  induction rules as [|[pat tmpl] rest IH]; intros H.
  - simpl. destruct (negb (is_pair u)); reflexivity.
  - simpl in H. apply andb_prop in H. destruct H as [Hr Hrest].
    unfold rule_supported in Hr. simpl in Hr.
    destruct (p_expr pat) as [| | | |pk pd| | | | | | | |] eqn:Ep; try discriminate.
    destruct u as [| | | |uk ud| | | | | | | |]; try discriminate.
    apply andb_prop in Hr. destruct Hr as [Hr _]. apply andb_prop in Hr. destruct Hr as [Hm _].
    specialize (IH Hrest). simpl in IH.
    cbn [is_pair negb transform_rules spec_select fst snd]. rewrite Ep. cbn [cdr_ bind].
    rewrite (match_sound_complete _ _ Hell pd ud [] Hm).
    destruct (smatch (tr_literals tr) (tr_ellipsis tr) pd ud) as [se|]; cbn [option_map bind app].
    + destruct (expand _ _ _ _ _ _) as [[[c|] its]| | |]; reflexivity.
    + exact IH.
Qed.

(* ======================================================================
   Part 3: refutations outside the fragment — concrete witnesses, by computation
   ====================================================================== *)
From MW Require Import Model.Lex Model.Parse.

(* the property for one (definition, use): see Props/C17.v *)
Definition sound_on (d u : cell) : Prop :=
  match transform_try_new d with
  | Ok tr =>
      match transform_apply tr u with
      | Ok c => spec_of_transform tr u = SpecOk c \/ spec_of_transform tr u = SpecExcluded
      | Err _ => True
      | Panic _ | NoFuel => False
      end
  | Err _ => True
  | Panic _ | NoFuel => False
  end.

(* witnesses are written in marwood's own syntax and read by the model's reader *)
Definition rd (s : String.string) : cell :=
  match parse_text (S_ s) with Ok (c, _) => c | _ => CNil end.
Definition defn (rules : String.string) : cell :=
  rd (String.append "(define-syntax m (syntax-rules " (String.append rules "))")).

Definition refuted (d u : cell) : Prop := supported d u = false /\ ~ sound_on d u.

Ltac refute := split; [vm_compute; reflexivity
                      | unfold not, sound_on; vm_compute;
                        first [ intros [H|H]; discriminate H | intros H; exact H ] ].

(* nested ellipsis: interleaved wrong output *)
Lemma refuted_nested_ellipsis :
  refuted (defn "() ((_ (a b ...) ...) '((a b ...) ...))") (rd "(m (1 2 3) (4 5))").
Proof. refute. Qed.

(* a variable used twice under one ellipsis: ((1 2)) instead of ((1 1) (2 2)) *)
Lemma refuted_var_twice :
  refuted (defn "() ((_ a ...) '((a a) ...))") (rd "(m 1 2)").
Proof. refute. Qed.

(* ... and, when one of the uses is under a nested ellipsis, expansion never terminates
   (no fuel suffices: the cursor of [a] is reset by the inner loop on every round) *)
Lemma refuted_var_twice_hang :
  refuted (defn "() ((_ a ...) '((a (a ...)) ...))") (rd "(m 1 2)").
Proof. refute. Qed.

(* pattern variables in vectors are not instantiated *)
Lemma refuted_vector_template :
  refuted (defn "() ((_ a) '#(a))") (rd "(m 1)").
Proof. refute. Qed.

(* a dotted template comes out as a proper list *)
Lemma refuted_dotted_template :
  refuted (defn "() ((_ a) '(a . 5))") (rd "(m 1)").
Proof. refute. Qed.

(* an ellipsis variable used without ellipsis yields its first item *)
Lemma refuted_ellipsis_var_without_ellipsis :
  refuted (defn "() ((_ a ...) '(a))") (rd "(m 1 2)").
Proof. refute. Qed.

(* after a multi-variable ellipsis sub-template the cursor of every variable but the
   first is left at the end: its next use expands to nothing *)
Lemma refuted_stale_cursor :
  refuted (defn "() ((_ (x y) ...) '(((x y) ...) (y ...)))") (rd "(m (1 a) (2 b))").
Proof. refute. Qed.

(* silent fall-through to a later rule (first matching rule violated) *)
Lemma refuted_dotted_pattern_fallthrough :
  refuted (defn "() ((_ a . b) '(a b)) ((_ c ...) 'second)") (rd "(m 1 2 3)").
Proof. refute. Qed.

Lemma refuted_dotted_pattern_binding :
  refuted (defn "() ((_ . a) 'a)") (rd "(m 1)").
Proof. refute. Qed.

Lemma refuted_ellipsis_tail_zero_items :
  refuted (defn "() ((_ a ... b) '(a ... b)) ((_ c) 'second)") (rd "(m 1)").
Proof. refute. Qed.

Lemma refuted_vector_pattern_literal :
  refuted (defn "() ((_ #(a b)) '(a b)) ((_ c) 'second)") (rd "(m #(1 2))").
Proof. refute. Qed.

(* F15 (fixed): the template (a ...) over a depth-0 variable is rejected when defined;
   on the pinned tree the definition was accepted and (m 1) never returned *)
Lemma f15_rejected : exists e, transform_try_new (defn "() ((_ a) '(a ...))") = Err e.
Proof. eexists. vm_compute. reflexivity. Qed.

(* non-vacuity: supported, matched by the second rule with a non-empty tail after the
   ellipsis, and the outcome is the R7RS expansion *)
Lemma supported_example :
  let d := defn "(else) ((_ a) '(one a)) ((_ a b ... else (c d)) '(d (a) (b ...) c b ...)) ((_ x ...) '(x ...))" in
  let u := rd "(m 1 2 3 else (4 5))" in
  supported d u = true /\ sound_on d u /\
  (exists tr, transform_try_new d = Ok tr /\ transform_apply tr u = Ok (rd "'(5 (1) (2 3) 4 2 3)")).
Proof.
  cbv zeta. split; [vm_compute; reflexivity|]. split.
  - unfold sound_on. vm_compute. left. reflexivity.
  - eexists. split; vm_compute; reflexivity.
Qed.

Lemma s_match_example :
  S_match [CSym (S_ "else")] DOTS (rd "(a b ... else (c d))") (rd "(1 2 3 else (4 5))") = true /\
  S_match [] DOTS (rd "(a ... b)") (rd "(1)") = false.
Proof. split; vm_compute; reflexivity. Qed.

(* existential forms, as stated in Props/C17.v *)
Lemma ex_refuted_nested_ellipsis : exists d u, refuted d u.
Proof. do 2 eexists. exact refuted_nested_ellipsis. Qed.
Lemma ex_refuted_var_twice : exists d u, refuted d u.
Proof. do 2 eexists. exact refuted_var_twice. Qed.
Lemma ex_refuted_vector_template : exists d u, refuted d u.
Proof. do 2 eexists. exact refuted_vector_template. Qed.
Lemma ex_refuted_dotted_template : exists d u, refuted d u.
Proof. do 2 eexists. exact refuted_dotted_template. Qed.
Lemma ex_refuted_ellipsis_var_without_ellipsis : exists d u, refuted d u.
Proof. do 2 eexists. exact refuted_ellipsis_var_without_ellipsis. Qed.
Lemma ex_refuted_stale_cursor : exists d u, refuted d u.
Proof. do 2 eexists. exact refuted_stale_cursor. Qed.
Lemma ex_refuted_dotted_pattern_fallthrough : exists d u, refuted d u.
Proof. do 2 eexists. exact refuted_dotted_pattern_fallthrough. Qed.
Lemma ex_refuted_dotted_pattern_binding : exists d u, refuted d u.
Proof. do 2 eexists. exact refuted_dotted_pattern_binding. Qed.
Lemma ex_refuted_ellipsis_tail_zero_items : exists d u, refuted d u.
Proof. do 2 eexists. exact refuted_ellipsis_tail_zero_items. Qed.
Lemma ex_refuted_vector_pattern_literal : exists d u, refuted d u.
Proof. do 2 eexists. exact refuted_vector_pattern_literal. Qed.
Lemma ex_refuted_var_twice_hang : exists d u, supported d u = false /\
  exists tr, transform_try_new d = Ok tr /\ transform_apply tr u = NoFuel.
Proof.
  exists (defn "() ((_ a ...) '((a (a ...)) ...))"), (rd "(m 1 2)").
  split; [vm_compute; reflexivity|]. eexists. split; vm_compute; reflexivity.
Qed.

(* ======================================================================
   Part 4: expand on ellipsis-free templates is the structural instantiation
   (the list traversal and its fuel; the leaf case is a hypothesis discharged
   below for identifiers that are not pattern variables)
   ====================================================================== *)
Section ExpandPlain.
Variable ell : cell.
Variable pat : pattern.
Variable bs : bindings.
Variable se : senv.
Hypothesis Hell : is_symbol ell = true.

(* leaves: every identifier other than the ellipsis expands, with any positive fuel and
   without touching the cursors, to what the specification gives *)
Hypothesis Hleaf : forall x, is_symbol x = true -> s_is_ell ell x = false ->
  exists c, sinst ell x se = SOk c /\ forall f its, expand ell pat bs (S f) x its = Ok (Some c, its).

Notation plain_ok := (tmpl_ok (fun _ => false) ell).

Lemma sinst_plain : forall t1 rest, s_is_ell ell t1 = false -> starts_with_ell ell rest = false ->
  sinst ell (CPair t1 rest) se = scons (sinst ell t1 se) (sinst ell rest se).
Proof.
  intros t1 rest H1 H2.
  destruct rest; try (cbn [sinst]; rewrite H1; reflexivity).
  simpl in H2.
  change (sinst ell (CPair t1 (CPair rest1 rest2)) se) with
    (if s_is_ell ell t1 then SRSpec.SErr else
     if s_is_ell ell rest1 then
       (if (match rest2 with CPair e2 _ => s_is_ell ell e2 | _ => false end) then SRSpec.SErr
        else match drivers se t1 with
             | [] => SRSpec.SErr
             | ds => match common_len se ds with
                     | None => SExcl
                     | Some n => sapp (map (fun i => sinst ell t1 (project se ds i)) (seq 0 n)) (sinst ell rest2 se)
                     end
             end)
     else scons (sinst ell t1 se) (sinst ell (CPair rest1 rest2) se)).
  rewrite H1, H2. reflexivity.
Qed.

Lemma expand_plain : forall t, plain_ok false t = true ->
  exists c, sinst ell t se = SOk c /\
  forall f its, (2 * cell_size t <= f)%nat -> expand ell pat bs f t its = Ok (Some c, its).
Proof.
  induction t as [t IH] using cell_size_ind. intros Hok.
  destruct t as [b|ch| |n|t1 rest|s|s|l| | |pr| |];
    try (eexists; split; [reflexivity|]; intros f its Hf; destruct f; [simpl in Hf; lia|reflexivity]).
  - (* a list: walk the chain *)
    assert (Hchain : forall c, (cell_size c <= cell_size (CPair t1 rest))%nat -> is_pair c = true ->
              plain_ok false c = true ->
              exists cs, sinst ell c se = SOk cs /\ last_cdr cs = CNil /\
              forall f v its, (2 * cell_size c <= S f)%nat ->
                match elems c with
                | t0 :: tit => expand_loop ell pat bs f t0 tit v its = Ok (Some (new_list (v ++ elems cs)), its)
                | [] => True
                end).
    { induction c as [c IHc] using cell_size_ind. intros Hsz Hpc Hc.
      destruct c as [| | | |a d| | | | | | | |]; try discriminate.
      cbn [tmpl_ok] in Hc. apply andb_prop in Hc. destruct Hc as [Hna Hc].
      apply negb_true_iff in Hna.
      assert (Hcd : tmpl_ok (fun _ => false) ell false a = true /\ tmpl_ok (fun _ => false) ell true d = true
                    /\ starts_with_ell ell d = false).
      { destruct d as [| | | |e d'| | | | | | | |]; try (apply andb_prop in Hc; destruct Hc; auto).
        destruct (s_is_ell ell e) eqn:Ee.
        - exfalso. destruct (is_symbol a); simpl in Hc; discriminate.
        - apply andb_prop in Hc. destruct Hc. simpl. auto. }
      destruct Hcd as (Hoa & Hod & Hne).
      destruct (IH a) as (ca & Hsa & Hea); [simpl in *; lia | exact Hoa |].
      (* the rest of the chain: () or another pair *)
      destruct d as [| | | |e d'| | | | | | | |]; try (simpl in Hod; discriminate).
      + (* last element *)
        exists (CPair ca CNil). split; [|split; [reflexivity|]].
        * rewrite sinst_plain by (auto). rewrite Hsa. reflexivity.
        * intros f v its Hf. cbn [elems]. destruct f; [simpl in Hf; lia|].
          cbn [expand_loop peek_is]. rewrite Hea by (simpl in Hf; simpl; lia).
          cbn [bind]. reflexivity.
      + destruct (IHc (CPair e d')) as (cs & Hss & Hls & Hes); [simpl; lia | simpl in *; lia | reflexivity | |].
        { (* the rest of a chain satisfies the same predicate with chain = false at a pair *)
          cbn [tmpl_ok] in Hod |- *. exact Hod. }
        exists (CPair ca cs). split; [|split; [exact Hls|]].
        * rewrite sinst_plain by (auto). rewrite Hsa, Hss. reflexivity.
        * intros f v its Hf. cbn [elems]. destruct f; [simpl in Hf; lia|].
          cbn [expand_loop peek_is]. simpl in Hne. unfold s_is_ell in Hne. rewrite Hne.
          rewrite Hea by (simpl in Hf; simpl; lia). cbn [bind].
          specialize (Hes f (v ++ [ca]) its). cbn [elems] in Hes. rewrite Hes by (simpl in Hf; simpl; lia).
          rewrite <- app_assoc. reflexivity. }
    destruct (Hchain (CPair t1 rest)) as (cs & Hss & Hls & Hes); auto.
    exists cs. split; [exact Hss|].
    intros f its Hf. destruct f; [simpl in Hf; lia|].
    change (expand ell pat bs (S f) (CPair t1 rest) its) with (expand_loop ell pat bs f t1 (elems rest) [] its).
    specialize (Hes f [] its). cbn [elems] in Hes.
    rewrite Hes by lia. simpl. rewrite new_list_elems by exact Hls. reflexivity.
  - (* an identifier *)
    cbn [tmpl_ok] in Hok. apply andb_prop in Hok. destruct Hok as [_ Hne]. apply negb_true_iff in Hne.
    destruct (Hleaf (CSym s) eq_refl Hne) as (c & Hs & He).
    exists c. split; [exact Hs|]. intros f its Hf. destruct f; [simpl in Hf; lia|]. apply He.
  - (* a vector is outside the fragment *)
    simpl in Hok. discriminate.
Qed.
End ExpandPlain.

(* the two leaf cases of [expand_plain]'s hypothesis *)
Lemma leaf_not_variable : forall ell pat bs se x, is_symbol x = true ->
  is_variable pat x = false -> slookup se x = None ->
  sinst ell x se = SOk x /\ forall f its, expand ell pat bs (S f) x its = Ok (Some x, its).
Proof.
  intros ell pat bs se x Hs Hv Hl. destruct x; simpl in Hs; try discriminate.
  split.
  - cbn [sinst]. rewrite Hl. reflexivity.
  - intros f its. cbn [expand]. rewrite Hv. reflexivity.
Qed.

Lemma leaf_plain_variable : forall ell pat bs se x k v, is_symbol x = true ->
  is_variable pat x = true -> is_expanded_variable pat x = false ->
  find_binding bs x 0 = Some (k, v) -> slookup se x = Some (BOne v) ->
  sinst ell x se = SOk v /\ forall f its, expand ell pat bs (S f) x its = Ok (Some v, its).
Proof.
  intros ell pat bs se x k v Hs Hv He Hf Hl. destruct x; simpl in Hs; try discriminate.
  split.
  - cbn [sinst]. rewrite Hl. reflexivity.
  - intros f its. cbn [expand]. rewrite Hv. unfold get_binding. rewrite Hv, He. simpl. rewrite Hf. reflexivity.
Qed.
