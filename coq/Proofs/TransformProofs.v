(* TransformProofs.v — lemmas about Model/Transform.v (syntax-rules) against Model/SRSpec.v.
   Part 1: the definition-time analysis always returns (no panic, no fuel).          *)
From Coq Require Import String Lia.
From MW Require Import Model.Base Model.F64 Model.Num Model.Datum Model.TransformDef
  Model.Transform Model.SRSpec.
Open Scope N_scope.

(* ------------------------------------------------------------------ outcomes *)
Definition returns {A} (o : out A) : Prop :=
  match o with Ok _ | Err _ => True | Panic _ | NoFuel => False end.

Lemma returns_bind : forall A B (x : out A) (f : A -> out B),
  returns x -> (forall a, returns (f a)) -> returns (bind x f).
Proof. intros A B [a|e|s|] f Hx Hf; simpl in *; auto. Qed.

Lemma returns_ok : forall A (a : A), returns (Ok a).
Proof. intros; exact I. Qed.
Lemma returns_err : forall A e, returns (@Err A e).
Proof. intros; exact I. Qed.
#[global] Hint Resolve returns_ok returns_err : core.

Lemma car_returns : forall c, returns (car_ c).
Proof. destruct c; simpl; auto. Qed.
Lemma cdr_returns : forall c, returns (cdr_ c).
Proof. destruct c; simpl; auto. Qed.

(* ---------------------------------------------------------- Pattern::build *)
Lemma build_symbol_returns : forall p it idx len imp en ect,
  returns (build_symbol p it idx len imp en ect).
Proof.
  intros. unfold build_symbol.
  destruct (is_ellipsis p it).
  - destruct ((idx =? 0) || ((idx =? len - 1) && imp)); auto.
    destruct (1 <? ect + 1); auto.
  - apply returns_bind; auto.
    destruct (is_variable_candidate p it).
    + destruct (is_variable p it); auto.
    + destruct en; auto.
Qed.

Lemma build_eq : forall expr p,
  build expr p = build_loop build (N.of_nat (length (elems expr))) (is_improper_list expr) expr 0 0 p.
Proof. destruct expr; reflexivity. Qed.

Lemma build_loop_returns : forall (n : nat) rec len imp,
  (forall it p, (cell_size it < n)%nat -> returns (rec it p)) ->
  forall rest idx ect p, (cell_size rest <= n)%nat ->
  returns (build_loop rec len imp rest idx ect p).
Proof.
  intros n rec len imp Hrec.
  induction rest as [| | | |it _ rest' IH| | | | | | | |]; intros idx ect p Hs; simpl; auto.
  - simpl in Hs.
    destruct it; try (apply IH; lia).
    + (* a nested list pattern *)
      apply returns_bind.
      * apply Hrec. lia.
      * intros p2. apply IH. lia.
    + (* a symbol *)
      apply returns_bind.
      * apply build_symbol_returns.
      * intros [p1 ect1]. apply IH. lia.
  - apply returns_bind; [apply build_symbol_returns|]. intros [p1 ?]. auto.
Qed.

Lemma build_returns_sized : forall (n : nat) expr p, (cell_size expr <= n)%nat -> returns (build expr p).
Proof.
  induction n; intros expr p Hs.
  - destruct expr; simpl in Hs; lia.
  - rewrite build_eq. apply build_loop_returns with (n := S n); auto.
    intros it q Hlt. apply IHn. lia.
Qed.

Lemma build_returns : forall expr p, returns (build expr p).
Proof. intros. eapply build_returns_sized. apply Nat.le_refl. Qed.

Lemma pattern_try_new_returns : forall expr ell lits, returns (pattern_try_new expr ell lits).
Proof.
  intros. unfold pattern_try_new. destruct (negb (is_pair expr)); auto.
  apply returns_bind; [apply cdr_returns|]. intros. apply build_returns.
Qed.

(* ------------------------------------------------ check_template_syntax *)
Lemma cts_symbol_returns : forall p ell t imp pk eip, returns (cts_symbol p ell t imp pk eip).
Proof.
  intros. unfold cts_symbol.
  destruct (negb (is_variable p t) && _); auto.
  destruct (cell_eqb t ell); auto.
  destruct (eip || _); auto.
Qed.

Lemma cts_eq : forall template p ell,
  check_template_syntax template p ell =
  if (match template with CPair a _ => cell_eqb a ell | _ => false end) then Err E_OTHER
  else cts_loop (fun t => check_template_syntax t p ell) p ell (is_improper_list template) template false.
Proof. destruct template; reflexivity. Qed.

Lemma cts_loop_returns : forall (n : nat) rec p ell imp,
  (forall t, (cell_size t < n)%nat -> returns (rec t)) ->
  forall rest eip, (cell_size rest <= n)%nat -> returns (cts_loop rec p ell imp rest eip).
Proof.
  intros n rec p ell imp Hrec.
  induction rest as [| | | |t _ rest' IH| | | | | | | |]; intros eip Hs; simpl; auto.
  - simpl in Hs.
    destruct (followed_by ell rest' && negb (expands p ell t)); auto.
    destruct t; try (apply IH; lia).
    + apply returns_bind; [apply Hrec; lia|]. intros. apply IH. lia.
    + apply returns_bind; [apply cts_symbol_returns|]. intros. apply IH. lia.
  - apply returns_bind; [apply cts_symbol_returns|]. auto.
Qed.

Lemma cts_returns_sized : forall (n : nat) t p ell, (cell_size t <= n)%nat -> returns (check_template_syntax t p ell).
Proof.
  induction n; intros t p ell Hs.
  - destruct t; simpl in Hs; lia.
  - rewrite cts_eq. destruct (match t with CPair a _ => cell_eqb a ell | _ => false end); auto.
    apply cts_loop_returns with (n := S n); auto.
    intros. apply IHn. lia.
Qed.

Lemma cts_returns : forall t p ell, returns (check_template_syntax t p ell).
Proof. intros. eapply cts_returns_sized. apply Nat.le_refl. Qed.

(* ----------------------------------------------------- Transform::try_new *)
Lemma build_rules_returns : forall rules ell lits, returns (build_rules rules ell lits).
Proof.
  induction rules; intros; simpl; auto.
  repeat (apply returns_bind; [first [apply car_returns | apply cdr_returns | apply pattern_try_new_returns
                                     | apply cts_returns | apply IHrules]|intros]).
  auto.
Qed.

(* definition-time analysis terminates and does not panic: there is no fuel in
   [transform_try_new], and its outcome is never [Panic]/[NoFuel] *)
Lemma define_total : forall d, returns (transform_try_new d).
Proof.
  intros d. unfold transform_try_new.
  destruct (elems d) as [|x0 [|kw [|sr [|]]]]; auto.
  destruct (negb (is_symbol kw)); auto.
  apply returns_bind; [apply car_returns|]. intros hd.
  destruct (negb (cell_eqb hd SYNTAX_RULES)); auto.
  apply returns_bind; [apply cdr_returns|]. intros sr1.
  apply returns_bind; [apply car_returns|]. intros c1.
  apply returns_bind.
  { destruct c1; auto. apply returns_bind; [apply cdr_returns|]. auto. }
  intros [ell sr2].
  apply returns_bind; [apply car_returns|]. intros lits.
  destruct (negb (all_symbols (elems lits))); auto.
  apply returns_bind; [apply cdr_returns|]. intros sr3.
  apply returns_bind; [apply build_rules_returns|]. auto.
Qed.
