(* VmProofs0.v — lemmas about the tables of VmTypes.v *)
From Coq Require Import Lia FMapPositive.
From MW Require Import Model.Base Model.VmTypes.
Open Scope N_scope.

(* ------------------------------------------------------------------ tables *)
Lemma succ_pos_inj a b : N.succ_pos a = N.succ_pos b -> a = b.
Proof.
  intros H. apply (f_equal Pos.pred_N) in H. rewrite !N.pos_pred_succ in H. exact H.
Qed.

Lemma tget_tset_same {A} (t : tbl A) i v : tget (tset t i v) i = Some v.
Proof. unfold tget, tset. apply PositiveMap.gss. Qed.

Lemma tget_tset_other {A} (t : tbl A) i j v : i <> j -> tget (tset t i v) j = tget t j.
Proof.
  intros H. unfold tget, tset. apply PositiveMap.gso. intros E. apply H. symmetry.
  apply succ_pos_inj. exact E.
Qed.

Lemma tget_tset {A} (t : tbl A) i j v :
  tget (tset t i v) j = if i =? j then Some v else tget t j.
Proof.
  destruct (N.eqb_spec i j) as [->|H]; [apply tget_tset_same|apply tget_tset_other; assumption].
Qed.

