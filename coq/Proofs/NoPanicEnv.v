(* NoPanicEnv.v — C06, towards the sites 44 / 10 (environment accesses).
   Local ("bytecode-verifier style") statements: under [ep_ok s n] (%ep is an environment object
   with at least n slots) every lexical access below n is TOTAL; CLOSURE builds an environment of
   exactly [len envmap] slots and pairs it with the code object; ENTER of such a closure never fails
   at site 44 and establishes [ep_ok] for the callee; RET restores the %ep saved in the frame.
   The whole-machine invariant [finv] (C02, kept by every instruction: NoPanicRun) supplies the
   second indirection (VLexPtr). *)
From Coq Require Import Lia List.
From MW Require Import Model.Base Model.F64 Model.Num Model.Datum Model.TransformDef Model.Transform
  Model.VmTypes Model.Heap Model.Gc Model.VmBase Model.Compile Model.Vm
  Proofs.GcProofs Proofs.SymtabProofs Proofs.VmProofs0 Proofs.TailProofs Proofs.ScopeProofs Proofs.EnvProofs
  Proofs.FlatProofs.
Open Scope N_scope.
Arguments N.add : simpl never.
Arguments N.sub : simpl never.
Arguments N.eqb : simpl never.
Arguments N.ltb : simpl never.
Arguments N.leb : simpl never.
Arguments N.mul : simpl never.

(* %ep names an environment object with at least n slots (nothing is asked when n = 0: code
   without lexical slots — the entry lambda, eval's lambda — runs with any %ep) *)
Definition ep_ok (s : vm) (n : N) : Prop :=
  n = 0 \/ exists eid l, env_at s (ep s) = Some (eid, l) /\ n <= len l.

(* ------------------------------------------------------------------ equations *)
Lemma bind_eq {A B} (m : M A) (f : A -> M B) s a s' : m s = ROk a s' -> bindM m f s = f a s'.
Proof. intros H. unfold bindM. rewrite H. reflexivity. Qed.
Lemma bind_panic {A B} (m : M A) (f : A -> M B) s k :
  bindM m f s = RPanic k -> m s = RPanic k \/ exists a s', m s = ROk a s' /\ f a s' = RPanic k.
Proof.
  unfold bindM. destruct (m s) as [a s'| | |]; try discriminate; [right; eauto|intros H; left; injection H as ->; reflexivity].
Qed.

Lemma hget_env s p eid l : env_at s p = Some (eid, l) -> hget p s = ROk (VLexEnv eid) s.
Proof.
  intros H. apply env_at_some in H as (L & C & _). unfold hget.
  assert (E : heap_get (hp s) p = Ok (VLexEnv eid)) by (apply heap_get_ok; auto).
  rewrite E. reflexivity.
Qed.
Lemma list_get_some {A} (l : list A) k : k < len l -> exists v, list_get l k = Some v.
Proof.
  intros H. unfold list_get. destruct (nth_error l (N.to_nat k)) eqn:E; [eauto|].
  apply nth_error_None in E. unfold len in H. lia.
Qed.
Lemma env_get_eq s eid l k v :
  tget (envs (st s)) eid = Some l -> list_get l k = Some v -> env_get eid k s = ROk v s.
Proof.
  intros E G. unfold env_get, bindM, env_slots. rewrite E, G. reflexivity.
Qed.
Lemma env_read s p eid l k v :
  env_at s p = Some (eid, l) -> list_get l k = Some v ->
  (dom ev <- hget p; dom e <- as_lexenv ev; env_get e k) s = ROk v s.
Proof.
  intros H G. rewrite (bind_eq _ _ _ _ _ (hget_env _ _ _ _ H)).
  cbn [as_lexenv]. rewrite (bind_eq (ret eid) _ s eid s eq_refl).
  apply env_at_some in H as (_ & _ & E). apply (env_get_eq _ _ _ _ _ E G).
Qed.

(* ------------------------------------------------------------------ lexical loads are total *)
Theorem load_lex_slot_total s n k :
  finv s -> ep_ok s n -> k < n -> exists v, load_lex_slot k s = ROk v s /\ no_lexptr v.
Proof.
  intros F [E0|(eid & l & He & Hn)] Hk; [lia|].
  destruct (list_get_some l k) as (v & Ev); [lia|].
  pose proof He as He0. apply env_at_some in He0 as (_ & _ & E).
  pose proof (li_flat s (fi_lex s F) eid l k v E Ev) as Hf.
  unfold load_lex_slot. rewrite (bind_eq get_vm _ s s s eq_refl).
  assert (R : forall g : vcell -> M vcell,
    (dom ev <- hget (ep s); dom eid0 <- as_lexenv ev; dom v0 <- env_get eid0 k; g v0) s = g v s).
  { intros g. rewrite (bind_eq _ _ _ _ _ (hget_env _ _ _ _ He)). cbn [as_lexenv].
    rewrite (bind_eq (ret eid) _ s eid s eq_refl). rewrite (bind_eq _ _ _ _ _ (env_get_eq _ _ _ _ _ E Ev)). reflexivity. }
  rewrite R. clear R.
  destruct v; try (eexists; split; [reflexivity|exact I]).
  cbn [slot_flat] in Hf. destruct Hf as (e2 & l2 & w & Hq & Hw & Hnw).
  exists w. split; [|exact Hnw]. apply (env_read _ _ _ _ _ _ Hq Hw).
Qed.

(* ------------------------------------------------------------------ lexical stores are total *)
Lemma env_put_eq s eid l i v :
  tget (envs (st s)) eid = Some l -> i < len l ->
  env_put eid i v s = ROk tt (with_store s (set_env (st s) eid (list_set l i v))).
Proof.
  intros E L. unfold env_put, bindM, env_slots. rewrite E.
  destruct (N.ltb_spec i (len l)) as [_|G]; [reflexivity|lia].
Qed.
(* overwriting a slot keeps every environment object, with the same number of slots *)
Lemma env_at_set_env s eid l i v p e0 l0 :
  tget (envs (st s)) eid = Some l ->
  env_at s p = Some (e0, l0) ->
  exists l1, env_at (with_store s (set_env (st s) eid (list_set l i v))) p = Some (e0, l1) /\ len l1 = len l0.
Proof.
  intros E H. apply env_at_some in H as (L & C & E0).
  destruct (N.eq_dec e0 eid) as [->|Hne].
  - exists (list_set l i v). split.
    + apply env_at_some. cbn [hp st with_store set_env envs]. rewrite tget_tset_same. auto.
    + rewrite list_set_len. congruence.
  - exists l0. split; [|reflexivity].
    apply env_at_some. cbn [hp st with_store set_env envs]. rewrite tget_tset_other by congruence. auto.
Qed.
Lemma ep_ok_set_env s n eid l i v :
  tget (envs (st s)) eid = Some l -> ep_ok s n ->
  ep_ok (with_store s (set_env (st s) eid (list_set l i v))) n.
Proof.
  intros E [E0|(e0 & l0 & H & Hn)]; [left; exact E0|right].
  destruct (env_at_set_env s eid l i v (ep s) e0 l0 E H) as (l1 & H1 & Hl).
  exists e0, l1. split; [exact H1|lia].
Qed.

Theorem store_lex_slot_total s n k v :
  finv s -> ep_ok s n -> k < n ->
  exists s', store_lex_slot k v s = ROk tt s' /\ ep_ok s' n /\ hp s' = hp s /\ ep s' = ep s.
Proof.
  intros F Hep Hk. pose proof Hep as [E0|(eid & l & He & Hn)]; [lia|].
  destruct (list_get_some l k) as (cur & Ev); [lia|].
  pose proof He as He0. apply env_at_some in He0 as (_ & _ & E).
  pose proof (li_flat s (fi_lex s F) eid l k cur E Ev) as Hf.
  unfold store_lex_slot. rewrite (bind_eq get_vm _ s s s eq_refl).
  assert (R : forall g : N -> vcell -> M unit,
    (dom ev <- hget (ep s); dom eid0 <- as_lexenv ev; dom v0 <- env_get eid0 k; g eid0 v0) s = g eid cur s).
  { intros g. rewrite (bind_eq _ _ _ _ _ (hget_env _ _ _ _ He)). cbn [as_lexenv].
    rewrite (bind_eq (ret eid) _ s eid s eq_refl). rewrite (bind_eq _ _ _ _ _ (env_get_eq _ _ _ _ _ E Ev)). reflexivity. }
  assert (Hk' : k < len l) by lia.
  assert (Own : exists s', env_put eid k v s = ROk tt s' /\ ep_ok s' n /\ hp s' = hp s /\ ep s' = ep s).
  { eexists. split; [apply (env_put_eq _ _ _ _ _ E Hk')|]. split; [apply ep_ok_set_env; assumption|]. split; reflexivity. }
  rewrite R. clear R. destruct cur; try exact Own. clear Own.
  cbn [slot_flat] in Hf. destruct Hf as (e2 & l2 & w & Hq & Hw & _).
  rewrite (bind_eq _ _ _ _ _ (hget_env _ _ _ _ Hq)). cbn [as_lexenv].
  rewrite (bind_eq (ret e2) _ s e2 s eq_refl).
  apply env_at_some in Hq as (_ & _ & E2). apply list_get_lt in Hw.
  eexists. split; [apply (env_put_eq _ _ _ _ _ E2 Hw)|]. split; [apply ep_ok_set_env; assumption|]. split; reflexivity.
Qed.

(* ------------------------------------------------------------------ operands of compiled code *)
(* the static condition on a code object: every lexical-slot operand is below the number of
   slots of the environments the code runs with (= len envmap: see ENTER below) *)
Definition lex_slotb (n : N) (v : vcell) : bool := match v with VLexSlot i => i <? n | _ => true end.
Definition lex_okb (l : lambda) : bool := forallb (lex_slotb (len (l_envmap l))) (l_bc l).

Lemma cur_lambda_of_code s l : code_at s = Some l -> cur_lambda s = ROk l s.
Proof.
  unfold code_at, cur_lambda, get_lambda. destruct (heap_get (hp s) (fst (ip s))) as [v| | |]; try discriminate.
  destruct v; try discriminate. intros ->. reflexivity.
Qed.
Lemma read_operand_code s l :
  code_at s = Some l ->
  (exists o, read_operand s = ROk o (with_ip s (fst (ip s), snd (ip s) + 1)) /\ In o (l_bc l)) \/
  (exists e m, read_operand s = RErr e m s).
Proof.
  intros Hc. unfold read_operand. rewrite (bind_eq _ _ _ _ _ (cur_lambda_of_code s l Hc)).
  rewrite (bind_eq get_vm _ s s s eq_refl).
  destruct (list_get (l_bc l) (snd (ip s))) as [o|] eqn:G; [|right; eexists _, _; reflexivity].
  assert (Hin : In o (l_bc l)) by (unfold list_get in G; eapply nth_error_In; exact G).
  destruct o; try (left; eexists; split; [reflexivity|exact Hin]).
  right. eexists _, _. reflexivity.
Qed.
Lemma finv_with_ip s i : finv s -> finv (with_ip s i).
Proof.
  intros F. apply (finv_same_mem s); try reflexivity; [|exact (finv_acc s F)|exact F].
  apply (stack_clean_same s); [exact (finv_stack_clean s F)|reflexivity].
Qed.
Lemma ep_ok_with_ip s i n : ep_ok s n -> ep_ok (with_ip s i) n.
Proof.
  intros [E0|(e & l & H & Hn)]; [left; exact E0|right]. exists e, l. split; [|exact Hn].
  rewrite (env_at_ext s (with_ip s i)) by reflexivity. exact H.
Qed.
Lemma lex_okb_in l o : lex_okb l = true -> In o (l_bc l) -> lex_slotb (len (l_envmap l)) o = true.
Proof. unfold lex_okb. rewrite forallb_forall. auto. Qed.

Theorem load_operand_no_env_panic s l :
  finv s -> code_at s = Some l -> lex_okb l = true -> ep_ok s (len (l_envmap l)) ->
  forall k, load_operand s = RPanic k -> k = 10 \/ k = 45.
Proof.
  intros F Hc Hl Hep k H. rewrite load_operand_eq in H.
  destruct (read_operand_code s l Hc) as [(o & Ho & Hin)|(e & m & Ho)].
  2:{ unfold bindM in H. rewrite Ho in H. discriminate. }
  rewrite (bind_eq _ _ _ _ _ Ho) in H.
  set (s1 := with_ip s (fst (ip s), snd (ip s) + 1)) in *.
  unfold load_tail in H. rewrite (bind_eq get_vm _ s1 s1 s1 eq_refl) in H.
  pose proof (lex_okb_in l o Hl Hin) as Hb.
  destruct o; try discriminate H;
    lazymatch type of Hin with
    | In (VPtr ?p) _ =>
        unfold hget, lift in H; rewrite heap_get_cell_at in H;
        destruct (p <? hlen (hp s1)); [discriminate|]; injection H as <-; auto
    | In (VBpOff ?off) _ =>
        cbv zeta in H; destruct (Z.of_N (bp s1) + off <? 0)%Z; [discriminate|];
        unfold stack_get in H; destruct (Z.to_N (Z.of_N (bp s1) + off) <? scap s1); discriminate
    | In (VGSlot ?slot) _ =>
        destruct (list_get (g_slots s1) slot) as [[]|]; try discriminate; injection H as <-; auto
    | In (VAcc) _ => discriminate H
    | In (VLexSlot ?slot) _ => idtac
    end.
  cbn [lex_slotb] in Hb. apply N.ltb_lt in Hb.
  destruct (load_lex_slot_total s1 _ _ (finv_with_ip s _ F) (ep_ok_with_ip s _ _ Hep) Hb) as (v & Hv & _).
    rewrite Hv in H. discriminate.
Qed.

Theorem store_operand_no_env_panic s l v :
  finv s -> code_at s = Some l -> lex_okb l = true -> ep_ok s (len (l_envmap l)) ->
  forall k, store_operand v s = RPanic k -> k = 10 \/ k = 45.
Proof.
  intros F Hc Hl Hep k H. rewrite store_operand_eq in H.
  destruct (read_operand_code s l Hc) as [(o & Ho & Hin)|(e & m & Ho)].
  2:{ unfold bindM in H. rewrite Ho in H. discriminate. }
  rewrite (bind_eq _ _ _ _ _ Ho) in H.
  set (s1 := with_ip s (fst (ip s), snd (ip s) + 1)) in *.
  unfold store_tail in H. rewrite (bind_eq get_vm _ s1 s1 s1 eq_refl) in H.
  pose proof (lex_okb_in l o Hl Hin) as Hb.
  destruct o; try discriminate H;
    lazymatch type of Hin with
    | In (VPtr ?p) _ =>
        unfold hset in H; unfold heap_set in H;
        destruct (p <? hlen (hp s1)); [discriminate|]; injection H as <-; auto
    | In (VBpOff ?off) _ =>
        unfold stack_put_offset in H; destruct (Z.of_N (sp s1) + (Z.of_N (bp s1) + off) <? 0)%Z; [discriminate|];
        unfold stack_put in H; destruct (Z.to_N (Z.of_N (sp s1) + (Z.of_N (bp s1) + off)) <? scap s1); discriminate
    | In (VGSlot ?slot) _ =>
        destruct (slot <? len (g_slots s1)); [discriminate|]; injection H as <-; auto
    | In (VAcc) _ => discriminate H
    | In (VLexSlot ?slot) _ => idtac
    end.
  cbn [lex_slotb] in Hb. apply N.ltb_lt in Hb.
  destruct (store_lex_slot_total s1 _ _ v (finv_with_ip s _ F) (ep_ok_with_ip s _ _ Hep) Hb) as (s' & Hv & _).
  rewrite Hv in H. discriminate.
Qed.

(* ------------------------------------------------------------------ CLOSURE pairs code and environment *)
Lemma Forall2_len {A B} (P : A -> B -> Prop) la lb : Forall2 P la lb -> length la = length lb.
Proof. induction 1; cbn; congruence. Qed.
Theorem closure_pairs s r s' :
  heap_inv (hp s) -> store_wf (st s) -> closure_body s = ROk r s' ->
  exists lp lid l ei env,
    heap_deref (hp s') (acc s') = Ok (VClosure lp ei) /\
    heap_get (hp s) lp = Ok (VLambda lid) /\ tget (lams (st s)) lid = Some l /\
    env_at s' ei = Some (next_id (st s), env) /\ len env = len (l_envmap l).
Proof.
  intros HI SW H.
  destruct (closure_body_inv s r s' H)
    as (lp & lid & l & env & ei & h1 & cp & h2 & Hacc & Hlp & Hl & Hb & Hp1 & Hp2 & -> & ->).
  destruct (heap_put_fresh _ _ _ _ HI Hp1) as (a & Ea & HI1 & Hna & Ha & Hca & Hl1 & Ho1);
    [discriminate|discriminate|]. injection Ea as <-.
  destruct (heap_put_fresh _ _ _ _ HI1 Hp2) as (a2 & Ea2 & HI2 & Hna2 & Ha2 & Hca2 & Hl2 & Ho2);
    [discriminate|discriminate|]. subst cp.
  exists lp, lid, l, ei, env. cbn [hp acc with_acc with_heap st with_store].
  split. { cbn [heap_deref]. apply heap_get_ok. split; [apply Ha2|exact Hca2]. }
  split; [exact Hlp|]. split; [exact Hl|].
  split.
  { apply env_at_some. cbn [hp acc with_acc with_heap st with_store].
    split; [destruct Ha as [La _]; lia|]. split.
    - assert (Hne : ei <> a2) by (intros ->; apply Hna2; exact Ha). rewrite (proj1 (Ho2 ei Hne)). exact Hca.
    - unfold new_env. cbn [snd envs]. apply tget_tset_same. }
  destruct (closure_environment_slots _ _ _ _ Hb) as (_ & Hf). apply Forall2_len in Hf. unfold len. lia.
Qed.

(* ------------------------------------------------------------------ ENTER *)
Lemma bind_ok {A B} (m : M A) (f : A -> M B) s b s' :
  bindM m f s = ROk b s' -> exists a s1, m s = ROk a s1 /\ f a s1 = ROk b s'.
Proof. unfold bindM. destruct (m s) as [a s1| | |]; try discriminate. eauto. Qed.
Lemma usub_panic a b s k : usub a b s = RPanic k -> k = 40.
Proof. unfold usub. destruct (a <? b); [intros [= <-]; reflexivity|discriminate]. Qed.
Lemma usub_ok a b s c s' : usub a b s = ROk c s' -> s' = s.
Proof. unfold usub. destruct (a <? b); [discriminate|intros [= _ <-]; reflexivity]. Qed.
Lemma stack_get_nopanic i s k : stack_get i s = RPanic k -> False.
Proof. unfold stack_get. destruct (i <? scap s); discriminate. Qed.

(* the loop of build_lexical_environment: when the closure environment has one slot per envmap
   entry, the only panic is the usize underflow (40), and the result has the same length *)
Lemma ble_go l cep cslots :
  forall m slot0 env0 s1,
    len env0 = len cslots -> slot0 + len m <= len cslots ->
    (forall k, (fix go (m : list (vcell * bsrc)) (slot : N) (env : list vcell) : M (list vcell) :=
        match m with
        | [] => ret env
        | (_, src) :: r =>
            match src with
            | BArgument a =>
                dom s <- get_vm;
                dom k <- usub (len (l_args l)) a;
                dom base <- usub (bp s) k;
                dom v <- stack_get (base + 1);
                go r (slot + 1) (list_set env slot v)
            | BIofArgument _ | BIofEnvironment _ =>
                match list_get cslots slot with
                | None => panic 44
                | Some (VLexPtr _ _) => go r (slot + 1) env
                | Some _ =>
                    if slot <? len env then go r (slot + 1) (list_set env slot (VLexPtr cep slot))
                    else panic 44
                end
            | _ => go r (slot + 1) env
            end
        end) m slot0 env0 s1 = RPanic k -> k = 40) /\
    (forall env s1', (fix go (m : list (vcell * bsrc)) (slot : N) (env : list vcell) : M (list vcell) :=
        match m with
        | [] => ret env
        | (_, src) :: r =>
            match src with
            | BArgument a =>
                dom s <- get_vm;
                dom k <- usub (len (l_args l)) a;
                dom base <- usub (bp s) k;
                dom v <- stack_get (base + 1);
                go r (slot + 1) (list_set env slot v)
            | BIofArgument _ | BIofEnvironment _ =>
                match list_get cslots slot with
                | None => panic 44
                | Some (VLexPtr _ _) => go r (slot + 1) env
                | Some _ =>
                    if slot <? len env then go r (slot + 1) (list_set env slot (VLexPtr cep slot))
                    else panic 44
                end
            | _ => go r (slot + 1) env
            end
        end) m slot0 env0 s1 = ROk env s1' -> len env = len cslots).
Proof.
  induction m as [|[sym src] r IH]; intros slot0 env0 s1 He Hs.
  - split; [intros k H; discriminate H|]. intros env s1' H. unfold ret in H. injection H as <- _. exact He.
  - assert (Hs' : slot0 + 1 + len r <= len cslots).
    { unfold len in *. cbn [length] in Hs. lia. }
    assert (Hlt : slot0 < len cslots) by (unfold len in *; cbn [length] in Hs; lia).
    assert (Hcl : forall w, (len (list_set env0 slot0 w) = len cslots)) by (intros w; rewrite list_set_len; exact He).
    destruct src.
    + apply (IH _ _ s1 He Hs').
    + split.
      * intros k H. apply bind_panic in H as [H|(s2 & s3 & E & H)]; [discriminate H|]. injection E as <- <-.
        apply bind_panic in H as [H|(k1 & s3 & E & H)]; [exact (usub_panic _ _ _ _ H)|]. apply usub_ok in E as ->.
        apply bind_panic in H as [H|(base & s3 & E & H)]; [exact (usub_panic _ _ _ _ H)|]. apply usub_ok in E as ->.
        apply bind_panic in H as [H|(v & s3 & E & H)]; [destruct (stack_get_nopanic _ _ _ H)|].
        apply stack_get_inv in E as (_ & ->). apply (IH _ _ s1 (Hcl v) Hs' ). exact H.
      * intros env s1' H. apply bind_ok in H as (s2 & s3 & E & H). injection E as <- <-.
        apply bind_ok in H as (k1 & s3 & E & H). apply usub_ok in E as ->.
        apply bind_ok in H as (base & s3 & E & H). apply usub_ok in E as ->.
        apply bind_ok in H as (v & s3 & E & H). apply stack_get_inv in E as (_ & ->).
        apply (IH _ _ s1 (Hcl v) Hs' ) in H. exact H.
    + destruct (list_get_some cslots slot0 Hlt) as (c & Ec). rewrite Ec.
      assert (Hlt' : slot0 <? len env0 = true) by (apply N.ltb_lt; lia).
      destruct c; rewrite ?Hlt'; first [apply (IH _ _ s1 He Hs')|apply (IH _ _ s1 (Hcl _) Hs')].
    + destruct (list_get_some cslots slot0 Hlt) as (c & Ec). rewrite Ec.
      assert (Hlt' : slot0 <? len env0 = true) by (apply N.ltb_lt; lia).
      destruct c; rewrite ?Hlt'; first [apply (IH _ _ s1 He Hs')|apply (IH _ _ s1 (Hcl _) Hs')].
    + apply (IH _ _ s1 He Hs').
Qed.
Lemma ble_facts l cep cslots s1 : len cslots = len (l_envmap l) ->
  (forall k, build_lexical_environment l cep cslots s1 = RPanic k -> k = 40) /\
  (forall env s1', build_lexical_environment l cep cslots s1 = ROk env s1' -> len env = len cslots).
Proof.
  intros H. unfold build_lexical_environment. cbv zeta.
  apply (ble_go l cep cslots (l_envmap l) 0 cslots s1 eq_refl). lia.
Qed.

(* what CLOSURE establishes and ENTER needs: %acc is a closure whose environment object has one
   slot per envmap entry of its code object *)
Definition closure_paired (s : vm) (l : lambda) : Prop :=
  exists lam cep lid ceid cslots,
    heap_deref (hp s) (acc s) = Ok (VClosure lam cep) /\
    heap_get (hp s) lam = Ok (VLambda lid) /\ tget (lams (st s)) lid = Some l /\
    env_at s cep = Some (ceid, cslots) /\ len cslots = len (l_envmap l).

Theorem enter_establishes_ep s l r s' :
  heap_inv (hp s) -> store_wf (st s) -> closure_paired s l ->
  enter_frame s = ROk r s' ->
  ep_ok s' (len (l_envmap l)) /\ exists env, env_at s' (ep s') = Some (next_id (st s), env) /\ len env = len (l_envmap l).
Proof.
  intros HI SW (lam & cep & lid & ceid & cslots & Hd & Hlam & Hl & Hce & Hlen) H.
  destruct (enter_frame_closure s lam cep r s' Hd H)
    as (lid' & l' & ceid' & cslots' & env & evp & h1 & Hlam' & Hl' & Hce' & Hb & Hput & _ & ->).
  assert (lid' = lid) by congruence. subst lid'. assert (l' = l) by congruence. subst l'.
  assert (cslots' = cslots) by congruence. subst cslots'.
  destruct (ble_facts l cep cslots (enter_s1 s) Hlen) as (_ & Hok). specialize (Hok _ _ Hb).
  destruct (heap_put_fresh (hp s) _ _ _ HI Hput) as (a & Ea & HI1 & Hna & Ha & Hca & Hl1 & Hother);
    [discriminate|discriminate|]. injection Ea as <-.
  assert (Henv : env_at (with_ep (with_heap (with_store (enter_s1 s) (snd (new_env (st s) env))) h1) evp) evp
                 = Some (next_id (st s), env)).
  { apply env_at_some. cbn [hp with_ep with_heap st with_store].
    split; [apply Ha|]. split; [exact Hca|]. unfold new_env. cbn [snd envs]. apply tget_tset_same. }
  split.
  - right. exists (next_id (st s)), env. cbn [ep with_ep]. split; [exact Henv|]. lia.
  - exists env. cbn [ep with_ep]. split; [exact Henv|]. lia.
Qed.

Lemma bind_pure_panic {A B} (m : M A) (f : A -> M B) s k :
  pure m -> bindM m f s = RPanic k -> m s = RPanic k \/ exists a, m s = ROk a s /\ f a s = RPanic k.
Proof.
  intros Hp H. specialize (Hp s). unfold bindM in H. destruct (m s) as [a s1| | |]; try discriminate.
  - subst s1. right. eauto.
  - left. injection H as ->. reflexivity.
Qed.
Lemma stack_get_offset_nopanic z s k : stack_get_offset z s = RPanic k -> False.
Proof.
  unfold stack_get_offset. destruct (Z.of_N (sp s) + z <? 0)%Z; [discriminate|]. apply stack_get_nopanic.
Qed.
Lemma as_argc_nopanic v s k : as_argc v s = RPanic k -> False.
Proof. destruct v; discriminate. Qed.

Lemma usub_val a b s c s' : usub a b s = ROk c s' -> c = a - b /\ b <= a /\ s' = s.
Proof.
  unfold usub. destruct (N.ltb_spec a b); [discriminate|]. intros [= <- <-]. repeat split; lia.
Qed.

(* ENTER of a paired closure, the two places where it can still panic: sp - 4, and the argument copies
   of build_lexical_environment *)
Lemma enter_panic_cases s l k :
  closure_paired s l -> enter_frame s = RPanic k ->
  (sp s + 1 < 4 /\ k = 40) \/
  exists cep ceid cslots, env_at s cep = Some (ceid, cslots) /\ len cslots = len (l_envmap l) /\
    4 <= sp s + 1 /\ build_lexical_environment l cep cslots (enter_s1 s) = RPanic k.
Proof.
  intros (lam & cep & lid & ceid & cslots & Hd & Hlam & Hl & Hce & Hlen) H.
  unfold enter_frame in H.
  rewrite (bind_eq get_vm _ s s s eq_refl) in H.
  assert (E1 : hderef (acc s) s = ROk (VClosure lam cep) s) by (unfold hderef; rewrite Hd; reflexivity).
  rewrite (bind_eq _ _ _ _ _ E1) in H.
  rewrite (bind_eq (ret (lam, Some cep)) _ s (lam, Some cep) s eq_refl) in H.
  assert (E2 : hget lam s = ROk (VLambda lid) s) by (unfold hget; rewrite Hlam; reflexivity).
  rewrite (bind_eq _ _ _ _ _ E2) in H. cbn [as_lambda] in H.
  assert (E3 : get_lambda lid s = ROk l s) by (unfold get_lambda; rewrite Hl; reflexivity).
  rewrite (bind_eq _ _ _ _ _ E3) in H.
  apply (bind_pure_panic _ _ _ _ (pure_stack_get_offset _)) in H as [H|(a & _ & H)].
  { destruct (stack_get_offset_nopanic _ _ _ H). }
  apply (bind_pure_panic _ _ _ _ (pure_as_argc _)) in H as [H|(argc & _ & H)].
  { destruct (as_argc_nopanic _ _ _ H). }
  destruct (negb (argc =? len (l_args l))); [discriminate H|].
  apply bind_panic in H as [H|(u & s1 & E & H)]; [discriminate H|].
  unfold push in E. injection E as _ <-.
  match type of H with bindM get_vm _ ?s1 = _ => rewrite (bind_eq get_vm _ s1 s1 s1 eq_refl) in H end.
  apply bind_panic in H as [H|(nb & s2 & E & H)].
  { left. split; [|exact (usub_panic _ _ _ _ H)]. unfold usub in H. cbn [sp with_scap with_stack] in H.
    destruct (N.ltb_spec (sp s + 1) 4); [assumption|discriminate H]. }
  apply usub_val in E as (-> & Hsp & ->). cbn [sp with_scap with_stack] in Hsp.
  apply bind_panic in H as [H|(u2 & s2 & E & H)]; [discriminate H|].
  unfold set_bp in E. injection E as _ <-.
  change (with_bp _ _) with (enter_s1 s) in H.
  assert (Hce3 : env_at (enter_s1 s) cep = Some (ceid, cslots))
    by (rewrite (env_at_ext s (enter_s1 s)) by reflexivity; exact Hce).
  rewrite (bind_eq _ _ _ _ _ (hget_env _ _ _ _ Hce3)) in H. cbn [as_lexenv] in H.
  rewrite (bind_eq (ret ceid) _ (enter_s1 s) ceid (enter_s1 s) eq_refl) in H.
  apply env_at_some in Hce3 as (_ & _ & E4).
  assert (E5 : env_slots ceid (enter_s1 s) = ROk cslots (enter_s1 s)) by (unfold env_slots; rewrite E4; reflexivity).
  rewrite (bind_eq _ _ _ _ _ E5) in H.
  apply bind_panic in H as [H|(env & s4 & E & H)].
  { right. exists cep, ceid, cslots. repeat split; assumption. }
  apply bind_panic in H as [H|(ev & s5 & E6 & H)]; [unfold env_new in H; destruct (new_env (st s4) env); discriminate H|].
  apply bind_panic in H as [H|(evp & s6 & E7 & H)]; [unfold hput in H; destruct (heap_put (hp s5) ev); discriminate H|].
  apply bind_panic in H as [H|(ei & s7 & E8 & H)]; [destruct evp; discriminate H|].
  apply bind_panic in H as [H|(u3 & s8 & E9 & H)]; discriminate H.
Qed.

(* ENTER of a paired closure: the ONLY panic left is the usize underflow sp - 4 / bp - k (site 40);
   in particular neither 44 (slot index) nor 10 (heap index) *)
Theorem enter_panic_only_underflow s l k :
  closure_paired s l -> enter_frame s = RPanic k -> k = 40.
Proof.
  intros Hp H. destruct (enter_panic_cases s l k Hp H) as [(_ & E)|(cep & ceid & cslots & _ & Hlen & _ & Hb)]; [exact E|].
  exact (proj1 (ble_facts l cep cslots _ Hlen) k Hb).
Qed.

(* ------------------------------------------------------------------ instructions with lexical operands *)
Lemma read_opcode_code s op s0 :
  read_opcode s = ROk op s0 ->
  exists l, code_at s = Some l /\ s0 = with_ip s (fst (ip s), snd (ip s) + 1).
Proof.
  intros H. unfold read_opcode in H. apply bind_ok in H as (l & s1 & E & H).
  apply cur_lambda_ok in E as (Hc & ->). exists l. split; [exact Hc|].
  rewrite (bind_eq get_vm _ s s s eq_refl) in H.
  destruct (list_get (l_bc l) (snd (ip s))) as [[]|]; try discriminate H.
  apply bind_ok in H as (u & s2 & E & H). unfold set_ip in E. injection E as _ <-.
  unfold ret in H. injection H as _ <-. reflexivity.
Qed.
(* the state after a successful operand load: only %ip moved *)
Lemma load_operand_state s l v s1 :
  code_at s = Some l -> load_operand s = ROk v s1 -> s1 = with_ip s (fst (ip s), snd (ip s) + 1).
Proof.
  intros Hc H. rewrite load_operand_eq in H. apply bind_ok in H as (o & s0 & E & H).
  destruct (read_operand_code s l Hc) as [(o' & Ho & _)|(e & m & Ho)]; rewrite Ho in E; [|discriminate].
  injection E as <- <-. pose proof (pure_load_tail o' (with_ip s (fst (ip s), snd (ip s) + 1))) as Hp.
  rewrite H in Hp. exact Hp.
Qed.

Definition lex_instr (op : opcode) : bool :=
  match op with OMov | OMovImmediate | OPush => true | _ => false end.

Theorem lex_instr_env_sites ob s l op s0 k :
  finv s -> code_at s = Some l -> lex_okb l = true -> ep_ok s (len (l_envmap l)) ->
  read_opcode s = ROk op s0 -> lex_instr op = true ->
  run_one ob s = RPanic k -> k = 10 \/ k = 45.
Proof.
  intros F Hc Hl Hep Hop Hlx H.
  destruct (read_opcode_code s op s0 Hop) as (l' & Hc' & ->).
  set (s0 := with_ip s (fst (ip s), snd (ip s) + 1)) in *.
  assert (F0 : finv s0) by (apply finv_with_ip; exact F).
  assert (C0 : code_at s0 = Some l) by exact Hc.
  assert (E0 : ep_ok s0 (len (l_envmap l))) by (apply ep_ok_with_ip; exact Hep).
  unfold run_one in H. rewrite (bind_eq _ _ _ _ _ Hop) in H.
  destruct op; try discriminate Hlx.
  - (* MOV *)
    apply bind_panic in H as [H|(v & s1 & E & H)]; [exact (load_operand_no_env_panic s0 l F0 C0 Hl E0 k H)|].
    apply (load_operand_state s0 l v s1 C0) in E. subst s1.
    apply bind_panic in H as [H|(u & s2 & _ & H)]; [|discriminate H].
    refine (store_operand_no_env_panic _ l v _ _ Hl _ k H);
      [apply finv_with_ip; exact F0|exact C0|apply ep_ok_with_ip; exact E0].
  - (* MOV immediate *)
    destruct (read_operand_code s0 l C0) as [(o & Ho & _)|(e & m & Ho)].
    2:{ unfold bindM in H. rewrite Ho in H. discriminate H. }
    rewrite (bind_eq _ _ _ _ _ Ho) in H.
    apply bind_panic in H as [H|(u & s2 & _ & H)]; [|discriminate H].
    refine (store_operand_no_env_panic _ l o _ _ Hl _ k H);
      [apply finv_with_ip; exact F0|exact C0|apply ep_ok_with_ip; exact E0].
  - (* PUSH *)
    apply bind_panic in H as [H|(v & s1 & E & H)]; [exact (load_operand_no_env_panic s0 l F0 C0 Hl E0 k H)|].
    apply bind_panic in H as [H|(u & s2 & _ & H)]; discriminate H.
Qed.

(* ------------------------------------------------------------------ RET and load_arg under a frame *)
Lemma stack_get_eq s j : j < scap s -> stack_get j s = ROk (sget s j) s.
Proof. intros H. unfold stack_get. destruct (N.ltb_spec j (scap s)); [reflexivity|lia]. Qed.
Lemma usub_eq a b s : b <= a -> usub a b s = ROk (a - b) s.
Proof. intros H. unfold usub. destruct (N.ltb_spec a b); [lia|reflexivity]. Qed.

(* RET in a well-formed frame (C04 [frame_at]) is total: no underflow (40); it restores the saved
   %ep, %ip, %bp and drops the frame and its arguments *)
Theorem ret_total s n e i b :
  frame_at s n e i b -> bp s + 4 < scap s ->
  ret_body s = ROk false (with_bp (with_ip (with_ep (with_sp s (bp s - n)) e) i) b).
Proof.
  intros (H1 & H2 & H3 & H4 & Hn) Hc. unfold ret_body.
  rewrite (bind_eq get_vm _ s s s eq_refl).
  rewrite (bind_eq _ _ _ _ _ (stack_get_eq s (bp s + 1) ltac:(lia))). rewrite H1. cbn [as_argc].
  rewrite (bind_eq (ret n) _ s n s eq_refl).
  rewrite (bind_eq _ _ _ _ _ (usub_eq (bp s) n s Hn)).
  rewrite (bind_eq (set_sp (bp s - n)) _ s tt _ eq_refl).
  set (s2 := with_sp s (bp s - n)).
  assert (C2 : bp s + 2 < scap s2) by (cbn; lia).
  rewrite (bind_eq _ _ _ _ _ (stack_get_eq s2 (bp s + 2) C2)).
  change (sget s2 (bp s + 2)) with (sget s (bp s + 2)). rewrite H2. cbn [as_ep].
  rewrite (bind_eq (ret e) _ s2 e s2 eq_refl).
  rewrite (bind_eq (set_ep e) _ s2 tt _ eq_refl).
  set (s3 := with_ep s2 e).
  assert (C3 : bp s + 3 < scap s3) by (cbn; lia).
  rewrite (bind_eq _ _ _ _ _ (stack_get_eq s3 (bp s + 3) C3)).
  change (sget s3 (bp s + 3)) with (sget s (bp s + 3)). rewrite H3. cbn [as_ip].
  rewrite (bind_eq (ret (fst i, snd i)) _ s3 _ s3 eq_refl).
  rewrite (bind_eq (set_ip (fst i, snd i)) _ s3 tt _ eq_refl).
  set (s4 := with_ip s3 (fst i, snd i)).
  assert (C4 : bp s + 4 < scap s4) by (cbn; lia).
  rewrite (bind_eq _ _ _ _ _ (stack_get_eq s4 (bp s + 4) C4)).
  change (sget s4 (bp s + 4)) with (sget s (bp s + 4)). rewrite H4. cbn [as_bp].
  rewrite (bind_eq (ret b) _ s4 b s4 eq_refl).
  rewrite (bind_eq (set_bp b) _ s4 tt _ eq_refl).
  subst s4 s3 s2. destruct i; reflexivity.
Qed.

(* ... and hands the caller an environment that was ok when CALL saved it *)
Theorem ret_restores_ep_ok s n e i b eid l m :
  frame_at s n e i b -> bp s + 4 < scap s -> env_at s e = Some (eid, l) -> m <= len l ->
  exists s', ret_body s = ROk false s' /\ ep_ok s' m /\ ip s' = i /\ bp s' = b /\ sp s' = bp s - n.
Proof.
  intros Hf Hc He Hm. eexists. split; [apply (ret_total s n e i b Hf Hc)|].
  split; [|split; [reflexivity|split; reflexivity]].
  right. exists eid, l. split; [|exact Hm]. cbn [ep with_bp with_ip with_ep].
  erewrite env_at_ext; [exact He|reflexivity|reflexivity].
Qed.

Theorem load_arg_total s n e i b k :
  frame_at s n e i b -> bp s + 1 < scap s -> k < n ->
  load_arg k s = ROk (sget s (bp s - n + k + 1)) s.
Proof.
  intros (H1 & _ & _ & _ & Hn) Hc Hk. unfold load_arg.
  rewrite (bind_eq get_vm _ s s s eq_refl).
  rewrite (bind_eq _ _ _ _ _ (stack_get_eq s (bp s + 1) Hc)). rewrite H1. cbn [as_argc].
  rewrite (bind_eq (ret n) _ s n s eq_refl).
  rewrite (bind_eq _ _ _ _ _ (usub_eq (bp s) n s Hn)).
  apply stack_get_eq. lia.
Qed.

(* ------------------------------------------------------------------ CLOSURE: no slot-index panic *)
Definition iof_okb (n : N) (envmap : list (vcell * bsrc)) : bool :=
  forallb (fun e => match snd e with BIofEnvironment i => i <? n | _ => true end) envmap.

Lemma load_arg_panic a s k : load_arg a s = RPanic k -> k = 40.
Proof.
  unfold load_arg. intros H. rewrite (bind_eq get_vm _ s s s eq_refl) in H.
  apply (bind_pure_panic _ _ _ _ (pure_stack_get _)) in H as [H|(x & _ & H)]; [destruct (stack_get_nopanic _ _ _ H)|].
  apply (bind_pure_panic _ _ _ _ (pure_as_argc _)) in H as [H|(argc & _ & H)]; [destruct (as_argc_nopanic _ _ _ H)|].
  apply (bind_pure_panic _ _ _ _ (pure_usub _ _)) in H as [H|(base & _ & H)]; [exact (usub_panic _ _ _ _ H)|].
  destruct (stack_get_nopanic _ _ _ H).
Qed.

Theorem build_closure_environment_panic s n envmap k :
  ep_ok s n -> iof_okb n envmap = true ->
  build_closure_environment envmap s = RPanic k -> k = 40.
Proof.
  intros Hep. unfold build_closure_environment.
  match goal with |- _ -> ?g _ _ _ = _ -> _ =>
    assert (H : forall m acc, iof_okb n m = true -> g m acc s = RPanic k -> k = 40) end.
  2:{ intros Hm. apply H. exact Hm. }
  induction m as [|[sym src] r IH]; intros acc Hm H0.
  - discriminate H0.
  - cbn [iof_okb forallb snd] in Hm. apply andb_prop in Hm as [Hi Hr].
    destruct src; try (exact (IH _ Hr H0)).
    + (* BIofArgument *)
      apply (bind_pure_panic _ _ _ _ (pure_load_arg _)) in H0 as [H0|(v & _ & H0)];
        [exact (load_arg_panic _ _ _ H0)|exact (IH _ Hr H0)].
    + (* BIofEnvironment *)
      apply N.ltb_lt in Hi. destruct Hep as [E0|(eid & l & He & Hn)]; [lia|].
      destruct (list_get_some l n0) as (cur & Ec); [lia|].
      rewrite (bind_eq get_vm _ s s s eq_refl) in H0.
      assert (R : forall g : vcell -> M (list vcell),
        (dom ev <- hget (ep s); dom eid0 <- as_lexenv ev; dom v0 <- env_get eid0 n0; g v0) s = g cur s).
      { intros g. rewrite (bind_eq _ _ _ _ _ (hget_env _ _ _ _ He)). cbn [as_lexenv].
        rewrite (bind_eq (ret eid) _ s eid s eq_refl).
        apply env_at_some in He as (_ & _ & E). rewrite (bind_eq _ _ _ _ _ (env_get_eq _ _ _ _ _ E Ec)). reflexivity. }
      rewrite R in H0. destruct cur; exact (IH _ Hr H0).
Qed.

(* ------------------------------------------------------------------ ENTER is total after a well-formed CALL *)
Definition ble_loop (l : lambda) (cep : N) (cslots : list vcell) :=
  fix go (m : list (vcell * bsrc)) (slot : N) (env : list vcell) : M (list vcell) :=
    match m with
    | [] => ret env
    | (_, src) :: r =>
        match src with
        | BArgument a =>
            dom s <- get_vm;
            dom k <- usub (len (l_args l)) a;
            dom base <- usub (bp s) k;
            dom v <- stack_get (base + 1);
            go r (slot + 1) (list_set env slot v)
        | BIofArgument _ | BIofEnvironment _ =>
            match list_get cslots slot with
            | None => panic 44
            | Some (VLexPtr _ _) => go r (slot + 1) env
            | Some _ =>
                if slot <? len env then go r (slot + 1) (list_set env slot (VLexPtr cep slot))
                else panic 44
            end
        | _ => go r (slot + 1) env
        end
    end.
Lemma ble_loop_eq l cep cslots :
  build_lexical_environment l cep cslots = ble_loop l cep cslots (l_envmap l) 0 cslots.
Proof. reflexivity. Qed.

(* static: every BArgument index of the envmap is an argument of the lambda *)
Definition arg_okb (l : lambda) : bool :=
  forallb (fun e => match snd e with BArgument a => a <=? len (l_args l) | _ => true end) (l_envmap l).

Lemma ble_loop_nopanic l cep cslots s1 :
  len (l_args l) <= bp s1 ->
  forall m slot0 env0,
    len env0 = len cslots -> slot0 + len m <= len cslots ->
    forallb (fun e => match snd e with BArgument a => a <=? len (l_args l) | _ => true end) m = true ->
    forall k, ble_loop l cep cslots m slot0 env0 s1 = RPanic k -> False.
Proof.
  intros Hbp. induction m as [|[sym src] r IH]; intros slot0 env0 He Hs Hm k H.
  - discriminate H.
  - assert (Hs' : slot0 + 1 + len r <= len cslots) by (unfold len in *; cbn [length] in Hs; lia).
    assert (Hlt : slot0 < len cslots) by (unfold len in *; cbn [length] in Hs; lia).
    assert (Hcl : forall w, (len (list_set env0 slot0 w) = len cslots)) by (intros w; rewrite list_set_len; exact He).
    cbn [forallb snd] in Hm. apply andb_prop in Hm as [Ha Hr].
    cbn [ble_loop] in H.
    destruct src.
    + exact (IH _ _ He Hs' Hr k H).
    + apply N.leb_le in Ha.
      rewrite (bind_eq get_vm _ s1 s1 s1 eq_refl) in H.
      rewrite (bind_eq _ _ _ _ _ (usub_eq (len (l_args l)) n s1 Ha)) in H.
      assert (Hk : len (l_args l) - n <= bp s1) by lia.
      rewrite (bind_eq _ _ _ _ _ (usub_eq (bp s1) _ s1 Hk)) in H.
      apply (bind_pure_panic _ _ _ _ (pure_stack_get _)) in H as [H|(v & _ & H)];
        [exact (stack_get_nopanic _ _ _ H)|].
      exact (IH _ _ (Hcl v) Hs' Hr k H).
    + destruct (list_get_some cslots slot0 Hlt) as (c & Ec). rewrite Ec in H.
      assert (Hlt' : slot0 <? len env0 = true) by (apply N.ltb_lt; lia).
      destruct c; rewrite ?Hlt' in H;
        first [exact (IH _ _ He Hs' Hr k H)|exact (IH _ _ (Hcl _) Hs' Hr k H)].
    + destruct (list_get_some cslots slot0 Hlt) as (c & Ec). rewrite Ec in H.
      assert (Hlt' : slot0 <? len env0 = true) by (apply N.ltb_lt; lia).
      destruct c; rewrite ?Hlt' in H;
        first [exact (IH _ _ He Hs' Hr k H)|exact (IH _ _ (Hcl _) Hs' Hr k H)].
    + exact (IH _ _ He Hs' Hr k H).
Qed.

(* ENTER of a paired closure right after a CALL that left argc arguments, VArgc, VEp, VIp on the stack
   (so that len args + 3 <= sp): NO panic at all *)
Theorem enter_total_no_panic s l k :
  closure_paired s l -> arg_okb l = true -> len (l_args l) + 3 <= sp s -> enter_frame s <> RPanic k.
Proof.
  intros Hp Ha Hsp H.
  destruct (enter_panic_cases s l k Hp H) as [(Hlt & _)|(cep & ceid & cslots & _ & Hlen & _ & Hb)]; [lia|].
  rewrite ble_loop_eq in Hb.
  refine (ble_loop_nopanic l cep cslots (enter_s1 s) _ (l_envmap l) 0 cslots eq_refl _ Ha k Hb).
  - unfold enter_s1. cbn [bp with_bp]. lia.
  - lia.
Qed.

(* ------------------------------------------------------------------ the discipline, as a decidable monitor *)
(* What a whole-machine theorem would have to maintain at every instruction boundary INSIDE a
   procedure body (after its ENTER): the candidate invariant, executable, so that it can be run
   along real evaluations (Proofs/NoPanicEnvEx.v) and so that the hypotheses of the theorems above
   are exhibited on reachable states. *)
Fixpoint find_enter (bc : list vcell) (i : N) : option N :=
  match bc with
  | [] => None
  | VOp OEnter :: _ => Some i
  | _ :: r => find_enter r (i + 1)
  end.
Definition enter_pos (l : lambda) : option N := find_enter (l_bc l) 0.
Definition env_len (s : vm) (p : N) : option N :=
  match env_at s p with Some (_, l) => Some (len l) | None => None end.
Definition envb (s : vm) (l : lambda) : bool :=
  match l_envmap l with
  | [] => true
  | _ => match env_len s (ep s) with Some n => len (l_envmap l) <=? n | None => false end
  end.
Definition frameb (s : vm) : bool :=
  match sget s (bp s + 1), sget s (bp s + 2), sget s (bp s + 3), sget s (bp s + 4) with
  | VArgc n, VEp _, VIp _ _, VBp _ => (n <=? bp s) && (bp s + 4 <=? sp s) && (sp s <? scap s)
  | _, _, _, _ => false
  end.
Definition in_body (s : vm) (l : lambda) : bool :=
  match enter_pos l with Some p => p <? snd (ip s) | None => false end.
(* the closure about to be made (CLOSURE) / entered (ENTER) *)
Definition next_op (s : vm) (l : lambda) : option opcode :=
  match list_get (l_bc l) (snd (ip s)) with Some (VOp o) => Some o | _ => None end.
Definition lambda_at (s : vm) (p : N) : option lambda :=
  match heap_get (hp s) p with Ok (VLambda lid) => tget (lams (st s)) lid | _ => None end.
Definition closureb (s : vm) (l : lambda) : bool :=
  match next_op s l with
  | Some OClosureAcc =>
      match acc s with
      | VPtr lp => match lambda_at s lp with
                   | Some l2 => iof_okb (match l_envmap l with [] => 0 | _ => len (l_envmap l) end) (l_envmap l2)
                   | None => false end
      | _ => false
      end
  | Some OEnter =>
      match heap_deref (hp s) (acc s) with
      | Ok (VClosure lam cep) =>
          match lambda_at s lam, env_len s cep with
          | Some l2, Some n => (n =? len (l_envmap l2)) && arg_okb l2 && (len (l_args l2) + 3 <=? sp s)
          | _, _ => false
          end
      | _ => true
      end
  | _ => true
  end.
Definition disc_okb (s : vm) : bool :=
  match code_at s with
  | None => false
  | Some l =>
      lex_okb l && closureb s l &&
      (if in_body s l then envb s l && frameb s
       else match enter_pos l with None => match l_envmap l with [] => true | _ => false end | Some _ => true end)
  end.

Lemma envb_ep_ok s l : envb s l = true -> ep_ok s (len (l_envmap l)).
Proof.
  unfold envb, env_len. destruct (l_envmap l) as [|x r] eqn:E; [left; reflexivity|].
  destruct (env_at s (ep s)) as [[eid e]|] eqn:He; [|discriminate].
  intros H. apply N.leb_le in H. right. exists eid, e. split; [exact He|exact H].
Qed.
Lemma frameb_frame_at s : frameb s = true ->
  exists n e i b, frame_at s n e i b /\ bp s + 4 <= sp s /\ sp s < scap s.
Proof.
  unfold frameb, frame_at.
  destruct (sget s (bp s + 1)) eqn:E1; try discriminate.
  destruct (sget s (bp s + 2)) eqn:E2; try discriminate.
  destruct (sget s (bp s + 3)) eqn:E3; try discriminate.
  destruct (sget s (bp s + 4)) eqn:E4; try discriminate.
  intros H. apply andb_prop in H as [H H3]. apply andb_prop in H as [H1 H2].
  apply N.leb_le in H1. apply N.leb_le in H2. apply N.ltb_lt in H3.
  match goal with
  | A : sget s (bp s + 1) = VArgc ?n, B : sget s (bp s + 2) = VEp ?e,
    C : sget s (bp s + 3) = VIp ?x ?y, D : sget s (bp s + 4) = VBp ?b |- _ =>
      exists n, e, (x, y), b
  end. cbn [fst snd]. repeat split; try reflexivity; assumption.
Qed.
(* the monitor implies the hypotheses of the theorems of this file *)
Theorem disc_okb_sound s :
  disc_okb s = true ->
  exists l, code_at s = Some l /\ lex_okb l = true /\
    (in_body s l = true -> ep_ok s (len (l_envmap l)) /\
       exists n e i b, frame_at s n e i b /\ bp s + 4 <= sp s /\ sp s < scap s).
Proof.
  unfold disc_okb. destruct (code_at s) as [l|]; [|discriminate]. intros H.
  apply andb_prop in H as [H H2]. apply andb_prop in H as [Hl Hc].
  exists l. split; [reflexivity|]. split; [exact Hl|]. intros Hb. rewrite Hb in H2.
  apply andb_prop in H2 as [He Hf]. split; [apply envb_ep_ok; exact He|apply frameb_frame_at; exact Hf].
Qed.

Lemma closureb_enter_sound s l lam cep :
  next_op s l = Some OEnter -> closureb s l = true ->
  heap_deref (hp s) (acc s) = Ok (VClosure lam cep) ->
  exists l2, closure_paired s l2 /\ arg_okb l2 = true /\ len (l_args l2) + 3 <= sp s.
Proof.
  intros Hop H Hd. unfold closureb in H. rewrite Hop, Hd in H.
  unfold lambda_at, env_len in H.
  destruct (heap_get (hp s) lam) as [v| | |] eqn:Hl; try discriminate H.
  destruct v; try discriminate H.
  destruct (tget (lams (st s)) lid) as [l2|] eqn:El; [|discriminate H].
  destruct (env_at s cep) as [[ceid cslots]|] eqn:Hc; [|discriminate H].
  apply andb_prop in H as [H H3]. apply andb_prop in H as [H1 H2].
  apply N.eqb_eq in H1. apply N.leb_le in H3.
  exists l2. split; [|split; assumption].
  exists lam, cep, lid, ceid, cslots. repeat split; assumption.
Qed.

(* ------------------------------------------------------------------ the static facts, at their source *)
(* Where the compiler takes the indices from (Model/Compile.v): [envmap_slot] = position in the envmap,
   [envmap_new] enumerates the arguments and looks the free symbols up in the enclosing lambda.  These are
   the facts a compile walk would propagate to [lex_okb] / [arg_okb] / [iof_okb] of every stored lambda. *)
Lemma find_index_bound {A} (p : A -> bool) (l : list A) :
  forall i n, find_index p l i = Some n -> i <= n /\ n < i + len l.
Proof.
  induction l as [|x r IH]; intros i n H; cbn [find_index] in H; [discriminate|].
  assert (Hl : len (x :: r) = len r + 1) by (unfold len; cbn [length]; lia).
  destruct (p x).
  - injection H as <-. lia.
  - apply IH in H. lia.
Qed.

(* the operand the compiler emits for a variable reference in lambda l respects l's envmap *)
Theorem location_operand_lex l sym s v s' :
  location_operand l sym s = ROk v s' -> lex_slotb (len (l_envmap l)) v = true.
Proof.
  unfold location_operand, binding_location, envmap_slot.
  destruct (find_index (fun e => vptr_eqb (fst e) sym) (l_envmap l) 0) as [n|] eqn:E.
  - intros H. unfold ret in H. injection H as <- _. cbn [lex_slotb].
    apply find_index_bound in E. apply N.ltb_lt. lia.
  - destruct (find_index (fun a => vptr_eqb a sym) (l_args l) 0).
    + intros H. unfold ret in H. injection H as <- _. reflexivity.
    + destruct sym; try discriminate. intros H. apply bind_ok in H as (slot & s1 & _ & H).
      unfold ret in H. injection H as <- _. reflexivity.
Qed.

(* the envmap of a lambda expression: argument entries are arguments, IofEnvironment entries are slots of
   the ENCLOSING lambda's envmap (= the size of the environment CLOSURE runs with) *)
Theorem lambda_from_iof_static args internal iof free va :
  arg_okb (lambda_from_iof args internal iof free va) = true /\
  iof_okb (len (l_envmap iof)) (l_envmap (lambda_from_iof args internal iof free va)) = true.
Proof.
  unfold arg_okb, iof_okb, lambda_from_iof. cbn [l_envmap l_args]. unfold envmap_new.
  set (enum := fix enum (l : list vcell) (i : N) {struct l} : list (vcell * bsrc) :=
                 match l with [] => [] | x :: r => (x, BArgument i) :: enum r (i + 1) end).
  assert (He : forall l i e, In e (enum l i) -> exists a, snd e = BArgument a /\ a < i + len l).
  { induction l as [|x r IH]; intros i e H; cbn [enum In] in H; [contradiction|].
    assert (Hl : len (x :: r) = len r + 1) by (unfold len; cbn [length]; lia).
    destruct H as [<-|H]; [exists i; cbn [snd]; split; [reflexivity|lia]|].
    apply IH in H as (a & Ea & Hlt). exists a. split; [exact Ea|lia]. }
  assert (Hf : forall e, In e (flat_map (fun sym =>
       match envmap_slot (l_envmap iof) sym with
       | Some slot => [(sym, BIofEnvironment slot)]
       | None => match find_index (fun a => vptr_eqb a sym) (l_args iof) 0 with
                 | Some n => [(sym, BIofArgument n)]
                 | None => []
                 end
       end) free) ->
       (exists slot, snd e = BIofEnvironment slot /\ slot < len (l_envmap iof)) \/ (exists n, snd e = BIofArgument n)).
  { intros e H. apply in_flat_map in H as (sym & _ & H). unfold envmap_slot in H.
    destruct (find_index (fun e0 => vptr_eqb (fst e0) sym) (l_envmap iof) 0) as [slot|] eqn:E.
    - destruct H as [<-|[]]. left. exists slot. split; [reflexivity|]. apply find_index_bound in E. lia.
    - destruct (find_index (fun a => vptr_eqb a sym) (l_args iof) 0) as [n|]; [|contradiction].
      destruct H as [<-|[]]. right. exists n. reflexivity. }
  split; apply forallb_forall; intros e H; apply in_app_or in H as [H|H].
  - apply He in H as (a & -> & Hlt). apply N.leb_le. lia.
  - apply in_app_or in H as [H|H].
    + apply in_map_iff in H as (x & <- & _). reflexivity.
    + apply Hf in H as [(slot & -> & _)|(n & ->)]; reflexivity.
  - apply He in H as (a & -> & _). reflexivity.
  - apply in_app_or in H as [H|H].
    + apply in_map_iff in H as (x & <- & _). reflexivity.
    + apply Hf in H as [(slot & -> & Hlt)|(n & ->)]; [apply N.ltb_lt; exact Hlt|reflexivity].
Qed.
