(* NoPanicEnv.v — C06, towards the sites 44 / 10 (environment accesses).
   Local ("bytecode-verifier style") statements: under [ep_ok s n] (%ep is an environment object
   with at least n slots) every lexical access below n is TOTAL; CLOSURE builds an environment of
   exactly [len envmap] slots and pairs it with the code object; ENTER of such a closure never fails
   at site 44 and establishes [ep_ok] for the callee; RET restores the %ep saved in the frame.
   The whole-machine invariant [finv] (C02, kept by every instruction: NoPanicRun) supplies the
   second indirection (VLexPtr). *)
From Coq Require Import Lia List.
From MW Require Import Model.Base Model.F64 Model.Num Model.Datum Model.TransformDef Model.Transform
  Model.VmTypes Model.Heap Model.Gc Model.VmBase Model.Compile Model.Vm
  Proofs.GcProofs Proofs.SymtabProofs Proofs.VmProofs0 Proofs.TailProofs Proofs.ScopeProofs Proofs.EnvProofs
  Proofs.FlatProofs.
Open Scope N_scope.
Arguments N.add : simpl never.
Arguments N.sub : simpl never.
Arguments N.eqb : simpl never.
Arguments N.ltb : simpl never.
Arguments N.leb : simpl never.
Arguments N.mul : simpl never.

(* %ep names an environment object with at least n slots *)
Definition ep_ok (s : vm) (n : N) : Prop :=
  exists eid l, env_at s (ep s) = Some (eid, l) /\ n <= len l.

(* ------------------------------------------------------------------ equations *)
Lemma bind_eq {A B} (m : M A) (f : A -> M B) s a s' : m s = ROk a s' -> bindM m f s = f a s'.
Proof. intros H. unfold bindM. rewrite H. reflexivity. Qed.
Lemma bind_panic {A B} (m : M A) (f : A -> M B) s k :
  bindM m f s = RPanic k -> m s = RPanic k \/ exists a s', m s = ROk a s' /\ f a s' = RPanic k.
Proof.
  unfold bindM. destruct (m s) as [a s'| | |]; try discriminate; [right; eauto|intros H; left; injection H as ->; reflexivity].
Qed.

Lemma hget_env s p eid l : env_at s p = Some (eid, l) -> hget p s = ROk (VLexEnv eid) s.
Proof.
  intros H. apply env_at_some in H as (L & C & _). unfold hget.
  assert (E : heap_get (hp s) p = Ok (VLexEnv eid)) by (apply heap_get_ok; auto).
  rewrite E. reflexivity.
Qed.
Lemma list_get_some {A} (l : list A) k : k < len l -> exists v, list_get l k = Some v.
Proof.
  intros H. unfold list_get. destruct (nth_error l (N.to_nat k)) eqn:E; [eauto|].
  apply nth_error_None in E. unfold len in H. lia.
Qed.
Lemma env_get_eq s eid l k v :
  tget (envs (st s)) eid = Some l -> list_get l k = Some v -> env_get eid k s = ROk v s.
Proof.
  intros E G. unfold env_get, bindM, env_slots. rewrite E, G. reflexivity.
Qed.
Lemma env_read s p eid l k v :
  env_at s p = Some (eid, l) -> list_get l k = Some v ->
  (dom ev <- hget p; dom e <- as_lexenv ev; env_get e k) s = ROk v s.
Proof.
  intros H G. rewrite (bind_eq _ _ _ _ _ (hget_env _ _ _ _ H)).
  cbn [as_lexenv]. rewrite (bind_eq (ret eid) _ s eid s eq_refl).
  apply env_at_some in H as (_ & _ & E). apply (env_get_eq _ _ _ _ _ E G).
Qed.

(* ------------------------------------------------------------------ lexical loads are total *)
Theorem load_lex_slot_total s n k :
  finv s -> ep_ok s n -> k < n -> exists v, load_lex_slot k s = ROk v s /\ no_lexptr v.
Proof.
  intros F (eid & l & He & Hn) Hk.
  destruct (list_get_some l k) as (v & Ev); [lia|].
  pose proof He as He0. apply env_at_some in He0 as (_ & _ & E).
  pose proof (li_flat s (fi_lex s F) eid l k v E Ev) as Hf.
  unfold load_lex_slot. rewrite (bind_eq get_vm _ s s s eq_refl).
  assert (R : forall g : vcell -> M vcell,
    (dom ev <- hget (ep s); dom eid0 <- as_lexenv ev; dom v0 <- env_get eid0 k; g v0) s = g v s).
  { intros g. rewrite (bind_eq _ _ _ _ _ (hget_env _ _ _ _ He)). cbn [as_lexenv].
    rewrite (bind_eq (ret eid) _ s eid s eq_refl). rewrite (bind_eq _ _ _ _ _ (env_get_eq _ _ _ _ _ E Ev)). reflexivity. }
  rewrite R. clear R.
  destruct v; try (eexists; split; [reflexivity|exact I]).
  cbn [slot_flat] in Hf. destruct Hf as (e2 & l2 & w & Hq & Hw & Hnw).
  exists w. split; [|exact Hnw]. apply (env_read _ _ _ _ _ _ Hq Hw).
Qed.

(* ------------------------------------------------------------------ lexical stores are total *)
Lemma env_put_eq s eid l i v :
  tget (envs (st s)) eid = Some l -> i < len l ->
  env_put eid i v s = ROk tt (with_store s (set_env (st s) eid (list_set l i v))).
Proof.
  intros E L. unfold env_put, bindM, env_slots. rewrite E.
  destruct (N.ltb_spec i (len l)) as [_|G]; [reflexivity|lia].
Qed.
(* overwriting a slot keeps every environment object, with the same number of slots *)
Lemma env_at_set_env s eid l i v p e0 l0 :
  tget (envs (st s)) eid = Some l ->
  env_at s p = Some (e0, l0) ->
  exists l1, env_at (with_store s (set_env (st s) eid (list_set l i v))) p = Some (e0, l1) /\ len l1 = len l0.
Proof.
  intros E H. apply env_at_some in H as (L & C & E0).
  destruct (N.eq_dec e0 eid) as [->|Hne].
  - exists (list_set l i v). split.
    + apply env_at_some. cbn [hp st with_store set_env envs]. rewrite tget_tset_same. auto.
    + rewrite list_set_len. congruence.
  - exists l0. split; [|reflexivity].
    apply env_at_some. cbn [hp st with_store set_env envs]. rewrite tget_tset_other by congruence. auto.
Qed.
Lemma ep_ok_set_env s n eid l i v :
  tget (envs (st s)) eid = Some l -> ep_ok s n ->
  ep_ok (with_store s (set_env (st s) eid (list_set l i v))) n.
Proof.
  intros E (e0 & l0 & H & Hn).
  destruct (env_at_set_env s eid l i v (ep s) e0 l0 E H) as (l1 & H1 & Hl).
  exists e0, l1. split; [exact H1|lia].
Qed.

Theorem store_lex_slot_total s n k v :
  finv s -> ep_ok s n -> k < n ->
  exists s', store_lex_slot k v s = ROk tt s' /\ ep_ok s' n /\ hp s' = hp s /\ ep s' = ep s.
Proof.
  intros F Hep Hk. pose proof Hep as (eid & l & He & Hn).
  destruct (list_get_some l k) as (cur & Ev); [lia|].
  pose proof He as He0. apply env_at_some in He0 as (_ & _ & E).
  pose proof (li_flat s (fi_lex s F) eid l k cur E Ev) as Hf.
  unfold store_lex_slot. rewrite (bind_eq get_vm _ s s s eq_refl).
  assert (R : forall g : N -> vcell -> M unit,
    (dom ev <- hget (ep s); dom eid0 <- as_lexenv ev; dom v0 <- env_get eid0 k; g eid0 v0) s = g eid cur s).
  { intros g. rewrite (bind_eq _ _ _ _ _ (hget_env _ _ _ _ He)). cbn [as_lexenv].
    rewrite (bind_eq (ret eid) _ s eid s eq_refl). rewrite (bind_eq _ _ _ _ _ (env_get_eq _ _ _ _ _ E Ev)). reflexivity. }
  assert (Hk' : k < len l) by lia.
  assert (Own : exists s', env_put eid k v s = ROk tt s' /\ ep_ok s' n /\ hp s' = hp s /\ ep s' = ep s).
  { eexists. split; [apply (env_put_eq _ _ _ _ _ E Hk')|]. split; [apply ep_ok_set_env; assumption|]. split; reflexivity. }
  rewrite R. clear R. destruct cur; try exact Own. clear Own.
  cbn [slot_flat] in Hf. destruct Hf as (e2 & l2 & w & Hq & Hw & _).
  rewrite (bind_eq _ _ _ _ _ (hget_env _ _ _ _ Hq)). cbn [as_lexenv].
  rewrite (bind_eq (ret e2) _ s e2 s eq_refl).
  apply env_at_some in Hq as (_ & _ & E2). apply list_get_lt in Hw.
  eexists. split; [apply (env_put_eq _ _ _ _ _ E2 Hw)|]. split; [apply ep_ok_set_env; assumption|]. split; reflexivity.
Qed.

(* ------------------------------------------------------------------ operands of compiled code *)
(* the static condition on a code object: every lexical-slot operand is below the number of
   slots of the environments the code runs with (= len envmap: see ENTER below) *)
Definition lex_slotb (n : N) (v : vcell) : bool := match v with VLexSlot i => i <? n | _ => true end.
Definition lex_okb (l : lambda) : bool := forallb (lex_slotb (len (l_envmap l))) (l_bc l).

Lemma cur_lambda_of_code s l : code_at s = Some l -> cur_lambda s = ROk l s.
Proof.
  unfold code_at, cur_lambda, get_lambda. destruct (heap_get (hp s) (fst (ip s))) as [v| | |]; try discriminate.
  destruct v; try discriminate. intros ->. reflexivity.
Qed.
Lemma read_operand_code s l :
  code_at s = Some l ->
  (exists o, read_operand s = ROk o (with_ip s (fst (ip s), snd (ip s) + 1)) /\ In o (l_bc l)) \/
  (exists e m, read_operand s = RErr e m s).
Proof.
  intros Hc. unfold read_operand. rewrite (bind_eq _ _ _ _ _ (cur_lambda_of_code s l Hc)).
  rewrite (bind_eq get_vm _ s s s eq_refl).
  destruct (list_get (l_bc l) (snd (ip s))) as [o|] eqn:G; [|right; eexists _, _; reflexivity].
  assert (Hin : In o (l_bc l)) by (unfold list_get in G; eapply nth_error_In; exact G).
  destruct o; try (left; eexists; split; [reflexivity|exact Hin]).
  right. eexists _, _. reflexivity.
Qed.
Lemma finv_with_ip s i : finv s -> finv (with_ip s i).
Proof.
  intros F. apply (finv_same_mem s); try reflexivity; [|exact (finv_acc s F)|exact F].
  apply (stack_clean_same s); [exact (finv_stack_clean s F)|reflexivity].
Qed.
Lemma ep_ok_with_ip s i n : ep_ok s n -> ep_ok (with_ip s i) n.
Proof.
  intros (e & l & H & Hn). exists e, l. split; [|exact Hn].
  rewrite (env_at_ext s (with_ip s i)) by reflexivity. exact H.
Qed.
Lemma lex_okb_in l o : lex_okb l = true -> In o (l_bc l) -> lex_slotb (len (l_envmap l)) o = true.
Proof. unfold lex_okb. rewrite forallb_forall. auto. Qed.

Theorem load_operand_no_env_panic s l :
  finv s -> code_at s = Some l -> lex_okb l = true -> ep_ok s (len (l_envmap l)) ->
  forall k, load_operand s = RPanic k -> k = 10 \/ k = 45.
Proof.
  intros F Hc Hl Hep k H. rewrite load_operand_eq in H.
  destruct (read_operand_code s l Hc) as [(o & Ho & Hin)|(e & m & Ho)].
  2:{ unfold bindM in H. rewrite Ho in H. discriminate. }
  rewrite (bind_eq _ _ _ _ _ Ho) in H.
  set (s1 := with_ip s (fst (ip s), snd (ip s) + 1)) in *.
  unfold load_tail in H. rewrite (bind_eq get_vm _ s1 s1 s1 eq_refl) in H.
  pose proof (lex_okb_in l o Hl Hin) as Hb.
  destruct o; try discriminate H;
    lazymatch type of Hin with
    | In (VPtr ?p) _ =>
        unfold hget, lift in H; rewrite heap_get_cell_at in H;
        destruct (p <? hlen (hp s1)); [discriminate|]; injection H as <-; auto
    | In (VBpOff ?off) _ =>
        cbv zeta in H; destruct (Z.of_N (bp s1) + off <? 0)%Z; [discriminate|];
        unfold stack_get in H; destruct (Z.to_N (Z.of_N (bp s1) + off) <? scap s1); discriminate
    | In (VGSlot ?slot) _ =>
        destruct (list_get (g_slots s1) slot) as [[]|]; try discriminate; injection H as <-; auto
    | In (VAcc) _ => discriminate H
    | In (VLexSlot ?slot) _ => idtac
    end.
  cbn [lex_slotb] in Hb. apply N.ltb_lt in Hb.
  destruct (load_lex_slot_total s1 _ _ (finv_with_ip s _ F) (ep_ok_with_ip s _ _ Hep) Hb) as (v & Hv & _).
    rewrite Hv in H. discriminate.
Qed.

Theorem store_operand_no_env_panic s l v :
  finv s -> code_at s = Some l -> lex_okb l = true -> ep_ok s (len (l_envmap l)) ->
  forall k, store_operand v s = RPanic k -> k = 10 \/ k = 45.
Proof.
  intros F Hc Hl Hep k H. rewrite store_operand_eq in H.
  destruct (read_operand_code s l Hc) as [(o & Ho & Hin)|(e & m & Ho)].
  2:{ unfold bindM in H. rewrite Ho in H. discriminate. }
  rewrite (bind_eq _ _ _ _ _ Ho) in H.
  set (s1 := with_ip s (fst (ip s), snd (ip s) + 1)) in *.
  unfold store_tail in H. rewrite (bind_eq get_vm _ s1 s1 s1 eq_refl) in H.
  pose proof (lex_okb_in l o Hl Hin) as Hb.
  destruct o; try discriminate H;
    lazymatch type of Hin with
    | In (VPtr ?p) _ =>
        unfold hset in H; unfold heap_set in H;
        destruct (p <? hlen (hp s1)); [discriminate|]; injection H as <-; auto
    | In (VBpOff ?off) _ =>
        unfold stack_put_offset in H; destruct (Z.of_N (sp s1) + (Z.of_N (bp s1) + off) <? 0)%Z; [discriminate|];
        unfold stack_put in H; destruct (Z.to_N (Z.of_N (sp s1) + (Z.of_N (bp s1) + off)) <? scap s1); discriminate
    | In (VGSlot ?slot) _ =>
        destruct (slot <? len (g_slots s1)); [discriminate|]; injection H as <-; auto
    | In (VAcc) _ => discriminate H
    | In (VLexSlot ?slot) _ => idtac
    end.
  cbn [lex_slotb] in Hb. apply N.ltb_lt in Hb.
  destruct (store_lex_slot_total s1 _ _ v (finv_with_ip s _ F) (ep_ok_with_ip s _ _ Hep) Hb) as (s' & Hv & _).
  rewrite Hv in H. discriminate.
Qed.

(* ------------------------------------------------------------------ CLOSURE pairs code and environment *)
Lemma Forall2_len {A B} (P : A -> B -> Prop) la lb : Forall2 P la lb -> length la = length lb.
Proof. induction 1; cbn; congruence. Qed.
Theorem closure_pairs s r s' :
  heap_inv (hp s) -> store_wf (st s) -> closure_body s = ROk r s' ->
  exists lp lid l ei env,
    heap_deref (hp s') (acc s') = Ok (VClosure lp ei) /\
    heap_get (hp s) lp = Ok (VLambda lid) /\ tget (lams (st s)) lid = Some l /\
    env_at s' ei = Some (next_id (st s), env) /\ len env = len (l_envmap l).
Proof.
  intros HI SW H.
  destruct (closure_body_inv s r s' H)
    as (lp & lid & l & env & ei & h1 & cp & h2 & Hacc & Hlp & Hl & Hb & Hp1 & Hp2 & -> & ->).
  destruct (heap_put_fresh _ _ _ _ HI Hp1) as (a & Ea & HI1 & Hna & Ha & Hca & Hl1 & Ho1);
    [discriminate|discriminate|]. injection Ea as <-.
  destruct (heap_put_fresh _ _ _ _ HI1 Hp2) as (a2 & Ea2 & HI2 & Hna2 & Ha2 & Hca2 & Hl2 & Ho2);
    [discriminate|discriminate|]. subst cp.
  exists lp, lid, l, ei, env. cbn [hp acc with_acc with_heap st with_store].
  split. { cbn [heap_deref]. apply heap_get_ok. split; [apply Ha2|exact Hca2]. }
  split; [exact Hlp|]. split; [exact Hl|].
  split.
  { apply env_at_some. cbn [hp acc with_acc with_heap st with_store].
    split; [destruct Ha as [La _]; lia|]. split.
    - assert (Hne : ei <> a2) by (intros ->; apply Hna2; exact Ha). rewrite (proj1 (Ho2 ei Hne)). exact Hca.
    - unfold new_env. cbn [snd envs]. apply tget_tset_same. }
  destruct (closure_environment_slots _ _ _ _ Hb) as (_ & Hf). apply Forall2_len in Hf. unfold len. lia.
Qed.
