(* GcProofs.v — specification of reachability (refs / children / reach, DESIGN A.5) and the
   proofs about the collector of Model/Gc.v: mark_exact, mark_fuel_enough, sweep_exact,
   gc_preserves_live, after_gc_allocated_eq_reachable. *)
From Coq Require Import Lia FMapPositive Permutation.
From MW Require Import Model.Base Model.F64 Model.Num Model.Datum Model.TransformDef
  Model.VmTypes Model.Heap Model.VmBase Model.Gc.
Open Scope N_scope.

(* ------------------------------------------------------------------ tables *)
Lemma succ_pos_inj : forall i j, N.succ_pos i = N.succ_pos j -> i = j.
Proof.
  intros i j H. apply (f_equal Pos.pred_N) in H. now rewrite !N.pos_pred_succ in H.
Qed.

Lemma tget_tset_same : forall A (t : tbl A) i a, tget (tset t i a) i = Some a.
Proof. intros. unfold tget, tset. apply PositiveMap.gss. Qed.

Lemma tget_tset_other : forall A (t : tbl A) i j a, i <> j -> tget (tset t i a) j = tget t j.
Proof.
  intros. unfold tget, tset. apply PositiveMap.gso.
  intro E. apply succ_pos_inj in E. congruence.
Qed.

Lemma tget_tempty : forall A i, tget (@tempty A) i = None.
Proof. intros. unfold tget, tempty. apply PositiveMap.gempty. Qed.

Lemma g_get_tset_same : forall m i x, g_get (tset m i x) i = x.
Proof. intros. unfold g_get. now rewrite tget_tset_same. Qed.

Lemma g_get_tset_other : forall m i j x, i <> j -> g_get (tset m i x) j = g_get m j.
Proof. intros. unfold g_get. now rewrite tget_tset_other. Qed.

Lemma g_is_used_tset_same : forall m i, g_is_used (tset m i GUsed) i = true.
Proof. intros. unfold g_is_used. now rewrite g_get_tset_same. Qed.

Lemma g_is_used_tset_other : forall m i j x, i <> j -> g_is_used (tset m i x) j = g_is_used m j.
Proof. intros. unfold g_is_used. now rewrite g_get_tset_other. Qed.

Lemma bind_ok_r : forall A (e : out A), (do x <- e; Ok x) = e.
Proof. now destruct e. Qed.

Lemma bind_ok_inv : forall A B (e : out A) (k : A -> out B) b,
  (do x <- e; k x) = Ok b -> exists a, e = Ok a /\ k a = Ok b.
Proof. intros A B [a| | |] k b H; try discriminate. now exists a. Qed.

Lemma flat_map_ext_in : forall A B (f g : A -> list B) l,
  (forall x, In x l -> f x = g x) -> flat_map f l = flat_map g l.
Proof.
  induction l as [|x r IH]; intros H; [reflexivity|].
  cbn [flat_map]. rewrite H by (now left). rewrite IH; [reflexivity|].
  intros; apply H; now right.
Qed.

(* ============================================================ specification *)
(* The edge function read off mark / mark_vcell (DESIGN A.5).  [val_refs] are the
   addresses mark_vcell hands to mark for a VALUE (stack slot, register, vector element,
   environment slot, bytecode operand); [cell_refs] those mark follows from the content
   of a HEAP CELL.  The asymmetries of the code are kept: a cell holding VLexEnv is
   traversed but a VLexEnv value is not; a cell holding VLexPtr or VIp is not followed
   but such a value is; global slots contribute only when they are VPtr.  [n] bounds the
   nesting of Rc payloads; the relations [vref]/[cref] quantify it away. *)
Section Spec.
Variable s : store.

Fixpoint val_refs (n : nat) (v : vcell) : list N :=
  match n with
  | O => []
  | S n' =>
      match v with
      | VIp l _ => [l]
      | VCont cid =>
          match tget (conts s) cid with
          | None => []
          | Some k => flat_map (val_refs n') (k_stack k) ++ [fst (k_ip k); k_ep k]
          end
      | VLambda lid =>
          match tget (lams s) lid with
          | None => []
          | Some lam => flat_map (val_refs n') (l_bc lam) ++ flat_map (val_refs n') (l_args lam)
                        ++ flat_map (val_refs n') (map fst (l_envmap lam))
          end
      | VClosure l e => [l; e]
      | VPair a d => [a; d]
      | VPtr p => [p]
      | VLexPtr p _ => [p]
      | VVec vid =>
          match tget (vecs s) vid with
          | None => []
          | Some l => flat_map (val_refs n') l
          end
      | VEp p => [p]
      | _ => []
      end
  end.

Definition cell_refs (n : nat) (c : vcell) : list N :=
  match c with
  | VLexEnv eid =>
      match tget (envs s) eid with
      | None => []
      | Some l => flat_map (val_refs n) l
      end
  | VLexPtr _ _ | VIp _ _ => []
  | other => val_refs (S n) other
  end.

(* every payload id is present and the nesting is exhausted within depth n *)
Fixpoint vclosed (n : nat) (v : vcell) : bool :=
  match n with
  | O => false
  | S n' =>
      match v with
      | VCont cid =>
          match tget (conts s) cid with
          | None => false
          | Some k => forallb (vclosed n') (k_stack k)
          end
      | VLambda lid =>
          match tget (lams s) lid with
          | None => false
          | Some lam => forallb (vclosed n') (l_bc lam) && forallb (vclosed n') (l_args lam)
                        && forallb (vclosed n') (map fst (l_envmap lam))
          end
      | VVec vid =>
          match tget (vecs s) vid with
          | None => false
          | Some l => forallb (vclosed n') l
          end
      | _ => true
      end
  end.

Definition cell_closed (n : nat) (c : vcell) : bool :=
  match c with
  | VLexEnv eid =>
      match tget (envs s) eid with
      | None => false
      | Some l => forallb (vclosed n) l
      end
  | other => vclosed (S n) other
  end.

Definition vref (v : vcell) (a : N) : Prop := exists n, In a (val_refs n v).
Definition cref (c : vcell) (a : N) : Prop := exists n, In a (cell_refs n c).

Lemma flat_map_incl : forall (f g : vcell -> list N) l,
  (forall x, In x l -> incl (f x) (g x)) -> incl (flat_map f l) (flat_map g l).
Proof.
  intros f g l H a Ha. apply in_flat_map in Ha as [x [Hx Hax]].
  apply in_flat_map. exists x. split; [assumption|]. now apply (H x Hx).
Qed.

Lemma val_refs_mono : forall n n' v, (n <= n')%nat -> incl (val_refs n v) (val_refs n' v).
Proof.
  induction n as [|n IH]; intros n' v Hle.
  - intros a [].
  - destruct n' as [|n']; [lia|]. assert (Hle' : (n <= n')%nat) by lia.
    destruct v; cbn [val_refs]; try apply incl_refl.
    + destruct (tget (vecs s) vid); [|apply incl_refl].
      apply flat_map_incl. intros; now apply IH.
    + destruct (tget (conts s) cid); [|apply incl_refl].
      apply incl_app_app; [|apply incl_refl].
      apply flat_map_incl. intros; now apply IH.
    + destruct (tget (lams s) lid); [|apply incl_refl].
      repeat apply incl_app_app; apply flat_map_incl; intros; now apply IH.
Qed.

Lemma val_refs_closed : forall n n' v, vclosed n v = true -> (n <= n')%nat ->
  val_refs n' v = val_refs n v.
Proof.
  induction n as [|n IH]; intros n' v Hc Hle; [discriminate|].
  destruct n' as [|n']; [lia|]. assert (Hle' : (n <= n')%nat) by lia.
  destruct v; cbn [val_refs vclosed] in *; try reflexivity.
  - destruct (tget (vecs s) vid); [|reflexivity].
    apply flat_map_ext_in. intros x Hx. apply IH; [|assumption].
    rewrite forallb_forall in Hc. now apply Hc.
  - destruct (tget (conts s) cid); [|reflexivity].
    f_equal. apply flat_map_ext_in. intros x Hx. apply IH; [|assumption].
    rewrite forallb_forall in Hc. now apply Hc.
  - destruct (tget (lams s) lid); [|reflexivity].
    rewrite !andb_true_iff in Hc. destruct Hc as [[H1 H2] H3].
    rewrite forallb_forall in H1, H2, H3.
    f_equal; [|f_equal]; apply flat_map_ext_in; intros x Hx; apply IH; auto.
Qed.

Lemma vref_closed : forall n v a, vclosed n v = true -> vref v a -> In a (val_refs n v).
Proof.
  intros n v a Hc [k Hk].
  destruct (Nat.le_ge_cases k n) as [H|H].
  - now apply (val_refs_mono k n v H).
  - now rewrite <- (val_refs_closed n k v Hc H).
Qed.

Lemma cref_closed : forall n c a, cell_closed n c = true -> cref c a -> In a (cell_refs n c).
Proof.
  intros n c a Hc [k Hk].
  destruct c; cbn [cell_refs cell_closed] in *;
    try (apply (vref_closed (S n) _ a Hc); exists (S k); exact Hk);
    try (now destruct Hk).
  destruct (tget (envs s) eid) as [l|]; [|discriminate].
  apply in_flat_map in Hk as [x [Hx Hax]]. apply in_flat_map. exists x. split; [assumption|].
  rewrite forallb_forall in Hc. apply vref_closed; [now apply Hc|]. now exists k.
Qed.
End Spec.

(* ================================================================= marking *)
Section MarkProofs.
Variable h : heap.
Variable s : store.

(* reachability from a set of root addresses through the cells of the heap *)
Inductive reach_from (A : N -> Prop) : N -> Prop :=
| rf_root : forall a, A a -> reach_from A a
| rf_step : forall a b, reach_from A a -> a < hlen h -> cref s (cell_at h a) b -> reach_from A b.

Lemma reach_from_mono : forall (A B : N -> Prop) a,
  (forall x, A x -> reach_from B x) -> reach_from A a -> reach_from B a.
Proof.
  intros A B a H R. induction R as [a Ha|a b R IH Hlt Hc]; [now apply H|].
  now apply rf_step with a.
Qed.

(* what a marking phase started on [A] does to the map *)
Record MarkSpec (A : N -> Prop) (m m' : gmap) : Prop := {
  ms_frame : forall a, g_get m' a = g_get m a
                       \/ (g_is_used m' a = true /\ a < hlen h /\ g_is_used m a = false);
  ms_reach : forall a, g_is_used m' a = true -> g_is_used m a = false -> reach_from A a;
  ms_roots : forall a, A a -> a < hlen h -> g_is_used m' a = true;
  ms_closed : forall a, g_is_used m' a = true -> g_is_used m a = false ->
              forall b, cref s (cell_at h a) b -> b < hlen h -> g_is_used m' b = true
}.

Lemma ms_used_mono : forall A m m' a, MarkSpec A m m' -> g_is_used m a = true -> g_is_used m' a = true.
Proof.
  intros A m m' a M H. destruct (ms_frame _ _ _ M a) as [E|[E _]]; [|assumption].
  unfold g_is_used in *. now rewrite E.
Qed.

Lemma ms_empty : forall (A : N -> Prop) m, (forall a, ~ A a) -> MarkSpec A m m.
Proof.
  intros A m H. constructor.
  - now left.
  - intros a H1 H2. congruence.
  - intros a Ha. now destruct (H a).
  - intros a H1 H2. congruence.
Qed.

Lemma ms_equiv : forall (A B : N -> Prop) m m', (forall a, A a <-> B a) -> MarkSpec A m m' -> MarkSpec B m m'.
Proof.
  intros A B m m' E M. constructor.
  - apply (ms_frame _ _ _ M).
  - intros a H1 H2. apply reach_from_mono with A.
    + intros x Hx. apply rf_root. now apply E.
    + now apply (ms_reach _ _ _ M).
  - intros a Ha. apply (ms_roots _ _ _ M). now apply E.
  - apply (ms_closed _ _ _ M).
Qed.

Lemma ms_compose : forall (A B : N -> Prop) m m1 m2,
  MarkSpec A m m1 -> MarkSpec B m1 m2 -> MarkSpec (fun a => A a \/ B a) m m2.
Proof.
  intros A B m m1 m2 M1 M2. constructor.
  - intros a. destruct (ms_frame _ _ _ M2 a) as [E2|[U2 [L2 N2]]].
    + destruct (ms_frame _ _ _ M1 a) as [E1|[U1 [L1 N1]]].
      * left. congruence.
      * right. repeat split; try assumption. unfold g_is_used in *. now rewrite E2.
    + destruct (ms_frame _ _ _ M1 a) as [E1|[U1 [L1 N1]]].
      * right. repeat split; try assumption. unfold g_is_used in *. now rewrite <- E1.
      * congruence.
  - intros a U2 N0. destruct (g_is_used m1 a) eqn:U1.
    + apply reach_from_mono with A; [intros; apply rf_root; now left|].
      now apply (ms_reach _ _ _ M1).
    + apply reach_from_mono with B; [intros; apply rf_root; now right|].
      now apply (ms_reach _ _ _ M2).
  - intros a [Ha|Hb] Hlt.
    + apply (ms_used_mono _ _ _ _ M2). now apply (ms_roots _ _ _ M1).
    + now apply (ms_roots _ _ _ M2).
  - intros a U2 N0 b Hc Hb. destruct (g_is_used m1 a) eqn:U1.
    + apply (ms_used_mono _ _ _ _ M2). now apply (ms_closed _ _ _ M1 a U1 N0 b).
    + now apply (ms_closed _ _ _ M2 a U2 U1 b).
Qed.

(* ---- sequential marking *)
Lemma mark_addrs_app : forall f l1 l2 m,
  mark_addrs f (l1 ++ l2) m = (do m1 <- mark_addrs f l1 m; mark_addrs f l2 m1).
Proof.
  induction l1 as [|a r IH]; intros l2 m; [reflexivity|].
  cbn [mark_addrs app]. destruct (f a m); try reflexivity. cbn [bind]. apply IH.
Qed.

Lemma mark_addrs_spec : forall (f : N -> gmap -> out gmap),
  (forall a m m', f a m = Ok m' -> MarkSpec (eq a) m m') ->
  forall l m m', mark_addrs f l m = Ok m' -> MarkSpec (fun a => In a l) m m'.
Proof.
  intros f Hf. induction l as [|a r IH]; intros m m' H.
  - cbn in H. injection H as <-. apply ms_empty. intros a [].
  - cbn [mark_addrs] in H. apply bind_ok_inv in H as [m1 [H1 H2]].
    apply ms_equiv with (fun x => a = x \/ In x r); [intros; cbn; tauto|].
    apply ms_compose with m1; [now apply Hf|now apply IH].
Qed.

(* ---- mark_vcell is sequential marking of val_refs *)
Section VcellFlat.
Variable mark_rec : N -> gmap -> out gmap.

Lemma mark_list_flat : forall vf,
  (forall v m m', mark_vcell_f s mark_rec vf v m = Ok m' ->
     vclosed s vf v = true /\ mark_addrs mark_rec (val_refs s vf v) m = Ok m') ->
  forall l m m', mark_list (mark_vcell_f s mark_rec vf) l m = Ok m' ->
    forallb (vclosed s vf) l = true /\ mark_addrs mark_rec (flat_map (val_refs s vf) l) m = Ok m'.
Proof.
  intros vf H. induction l as [|v r IH]; intros m m' Hm.
  - cbn in *. now split.
  - cbn [mark_list] in Hm. apply bind_ok_inv in Hm as [m1 [H1 H2]].
    apply H in H1 as [C1 A1]. apply IH in H2 as [C2 A2].
    split; [cbn; now rewrite C1, C2|].
    cbn [flat_map]. rewrite mark_addrs_app, A1. exact A2.
Qed.

Lemma mark_addrs_one : forall a m, mark_addrs mark_rec [a] m = mark_rec a m.
Proof. intros. cbn. apply bind_ok_r. Qed.

Lemma mark_addrs_two : forall a b m,
  mark_addrs mark_rec [a; b] m = (do m1 <- mark_rec a m; mark_rec b m1).
Proof. intros. cbn. destruct (mark_rec a m); try reflexivity. cbn. apply bind_ok_r. Qed.

Lemma mark_vcell_flat : forall vf v m m', mark_vcell_f s mark_rec vf v m = Ok m' ->
  vclosed s vf v = true /\ mark_addrs mark_rec (val_refs s vf v) m = Ok m'.
Proof.
  induction vf as [|vf IH]; intros v m m' H; [discriminate|].
  pose proof (mark_list_flat vf IH) as HL.
  destruct v; cbn [mark_vcell_f val_refs vclosed] in *;
    try (split; [reflexivity|]; cbn; exact H);
    try (split; [reflexivity|]; rewrite mark_addrs_one; exact H);
    try (split; [reflexivity|]; rewrite mark_addrs_two; exact H).
  - (* VVec *) destruct (tget (vecs s) vid) as [l|]; [|discriminate]. now apply HL.
  - (* VCont *) destruct (tget (conts s) cid) as [k|]; [|discriminate].
    apply bind_ok_inv in H as [m1 [H1 H2]]. apply HL in H1 as [C1 A1].
    split; [assumption|]. rewrite mark_addrs_app, A1. cbn [bind]. rewrite mark_addrs_two. exact H2.
  - (* VLambda *) destruct (tget (lams s) lid) as [lam|]; [|discriminate].
    apply bind_ok_inv in H as [m1 [H1 H2]]. apply bind_ok_inv in H2 as [m2 [H2 H3]].
    apply HL in H1 as [C1 A1]. apply HL in H2 as [C2 A2]. apply HL in H3 as [C3 A3].
    split; [now rewrite C1, C2, C3|].
    rewrite mark_addrs_app, A1. cbn [bind]. rewrite mark_addrs_app, A2. exact A3.
Qed.
End VcellFlat.

(* ---- one step of mark, flattened *)
Lemma mark_step_flat : forall vd f p m m',
  mark h s vd (S f) p m = Ok m' -> p < hlen h -> g_is_used m p = false ->
  cell_closed s vd (cell_at h p) = true /\
  mark_addrs (mark h s vd f) (cell_refs s vd (cell_at h p)) (tset m p GUsed) = Ok m'.
Proof.
  intros vd f p m m' H Hlt Hu. cbn [mark] in H.
  apply N.ltb_lt in Hlt. rewrite Hlt, Hu in H. cbn [negb] in H.
  destruct (cell_at h p) eqn:Ec; cbn [cell_refs cell_closed];
    try (split; [reflexivity|]; cbn; exact H);
    try (split; [reflexivity|]; cbn [val_refs]; rewrite mark_addrs_one; exact H);
    try (split; [reflexivity|]; cbn [val_refs]; rewrite mark_addrs_two; exact H);
    try (now apply mark_vcell_flat).
  (* VLexEnv *)
  destruct (tget (envs s) eid) as [l|]; [|discriminate].
  apply (mark_list_flat (mark h s vd f) vd); [|exact H].
  intros; now apply mark_vcell_flat.
Qed.

(* ---- partial correctness of mark *)
Lemma mark_spec : forall vd f p m m', mark h s vd f p m = Ok m' -> MarkSpec (eq p) m m'.
Proof.
  intros vd. induction f as [|f IH]; intros p m m' H; [discriminate|].
  destruct (p <? hlen h) eqn:Hlt.
  2:{ cbn [mark] in H. rewrite Hlt in H. cbn in H. injection H as <-.
      apply N.ltb_ge in Hlt. constructor.
      - now left.
      - intros; congruence.
      - intros a <- Ha. lia.
      - intros; congruence. }
  apply N.ltb_lt in Hlt.
  destruct (g_is_used m p) eqn:Hu.
  { cbn [mark] in H. apply N.ltb_lt in Hlt. rewrite Hlt, Hu in H. cbn in H. injection H as <-.
    constructor.
    - now left.
    - intros; congruence.
    - now intros a <- _.
    - intros; congruence. }
  apply mark_step_flat in H as [Hc H]; try assumption.
  apply mark_addrs_spec in H; [|exact IH].
  set (m0 := tset m p GUsed) in *.
  constructor.
  - intros a. destruct (N.eq_dec a p) as [->|Hne].
    + right. repeat split; try assumption.
      apply (ms_used_mono _ _ _ _ H). apply g_is_used_tset_same.
    + destruct (ms_frame _ _ _ H a) as [E|[U [L N0]]].
      * left. rewrite E. unfold m0. apply g_get_tset_other. congruence.
      * right. repeat split; try assumption. unfold m0 in N0.
        now rewrite g_is_used_tset_other in N0 by congruence.
  - intros a U N0. destruct (N.eq_dec a p) as [->|Hne]; [now apply rf_root|].
    apply reach_from_mono with (fun a => In a (cell_refs s vd (cell_at h p))).
    + intros x Hx. apply rf_step with p; [now apply rf_root|assumption|now exists vd].
    + apply (ms_reach _ _ _ H); [assumption|]. unfold m0.
      now rewrite g_is_used_tset_other by congruence.
  - intros a <- _. apply (ms_used_mono _ _ _ _ H). apply g_is_used_tset_same.
  - intros a U N0 b Hb Hbl. destruct (N.eq_dec a p) as [->|Hne].
    + apply (ms_roots _ _ _ H); [|assumption]. now apply cref_closed.
    + apply (ms_closed _ _ _ H a); try assumption. unfold m0.
      now rewrite g_is_used_tset_other by congruence.
Qed.

(* marking a value: the roots are its vrefs *)
Lemma mark_vcell_spec : forall vd f vf v m m',
  mark_vcell_f s (mark h s vd f) vf v m = Ok m' -> MarkSpec (vref s v) m m'.
Proof.
  intros vd f vf v m m' H. apply mark_vcell_flat in H as [Hc H].
  apply mark_addrs_spec in H; [|intros; eapply mark_spec; eassumption].
  apply ms_equiv with (fun a => In a (val_refs s vf v)); [|assumption].
  intros a. split; [intros Ha; now exists vf|now apply vref_closed].
Qed.

Lemma mark_list_spec : forall vd f vf l m m',
  mark_list (mark_vcell_f s (mark h s vd f) vf) l m = Ok m' ->
  MarkSpec (fun a => exists v, In v l /\ vref s v a) m m'.
Proof.
  intros vd f vf. induction l as [|v r IH]; intros m m' H.
  - cbn in H. injection H as <-. apply ms_empty. intros a [v [[] _]].
  - cbn [mark_list] in H. apply bind_ok_inv in H as [m1 [H1 H2]].
    apply mark_vcell_spec in H1. apply IH in H2.
    apply ms_equiv with (fun a => vref s v a \/ exists v', In v' r /\ vref s v' a).
    + intros a. split.
      * intros [Ha|[v' [Hv Ha]]]; [exists v; split; [now left|assumption]|].
        exists v'. split; [now right|assumption].
      * intros [v' [[<-|Hv] Ha]]; [now left|]. right. now exists v'.
    + now apply ms_compose with m1.
Qed.
End MarkProofs.

(* ================================================================= the roots *)
(* run.rs:487-501: global binding keys (in HashMap order [order]), VPtr global slots,
   stack[0..=sp], acc, ip.0, ep *)
Definition root (order : list N) (v : vm) (a : N) : Prop :=
  In a order \/ In a (slot_ptrs (g_slots v))
  \/ (exists x, In x (stack_to_sp v) /\ vref (st v) x a)
  \/ vref (st v) (acc v) a \/ a = fst (ip v) \/ a = ep v.

Definition reach (v : vm) (a : N) : Prop :=
  reach_from (hp v) (st v) (root (map fst (g_bind v)) v) a.

Lemma slot_ptrs_in : forall l p, In p (slot_ptrs l) <-> In (VPtr p) l.
Proof.
  induction l as [|x r IH]; intros p; [tauto|].
  destruct x; cbn [slot_ptrs In]; rewrite ?IH;
    try (split; [intros H; now right|intros [H|H]; [discriminate|assumption]]).
  split; [intros [->|H]; [now left|now right]|intros [H|H]; [left; congruence|now right]].
Qed.

Lemma mark_roots_spec : forall vd fuel order v m0 m',
  mark_roots vd fuel order v m0 = Ok m' ->
  MarkSpec (hp v) (st v) (root order v) m0 m'.
Proof.
  intros vd fuel order v m0 m' H. unfold mark_roots in H.
  apply bind_ok_inv in H as [m1 [H1 H]]. apply bind_ok_inv in H as [m2 [H2 H]].
  apply bind_ok_inv in H as [stk [Hs H]]. apply bind_ok_inv in H as [m3 [H3 H]].
  apply bind_ok_inv in H as [m4 [H4 H]]. apply bind_ok_inv in H as [m5 [H5 H6]].
  destruct (sp v <? scap v); [|discriminate]. injection Hs as <-.
  apply (mark_addrs_spec (hp v) (st v)) in H1; [|intros; eapply mark_spec; eassumption].
  apply (mark_addrs_spec (hp v) (st v)) in H2; [|intros; eapply mark_spec; eassumption].
  apply mark_list_spec in H3. apply mark_vcell_spec in H4.
  apply mark_spec in H5. apply mark_spec in H6.
  pose proof (ms_compose _ _ _ _ _ _ _ (ms_compose _ _ _ _ _ _ _ (ms_compose _ _ _ _ _ _ _
    (ms_compose _ _ _ _ _ _ _ (ms_compose _ _ _ _ _ _ _ H1 H2) H3) H4) H5) H6) as M.
  eapply ms_equiv; [|exact M].
  intros a. unfold root. cbn beta. split.
  - intros [[[[[A|A]|A]|A]|A]|A]; auto 10.
  - intros [A|[A|[A|[A|[A|A]]]]]; auto 10.
Qed.

(* C03 mark_exact: starting from a map with no Used cell, after marking the roots a cell
   is Used iff it is in range and reachable from the roots through [cref] *)
Theorem mark_exact : forall vd fuel order v m0 m',
  (forall a, g_is_used m0 a = false) ->
  mark_roots vd fuel order v m0 = Ok m' ->
  forall a, g_is_used m' a = true <->
            (a < hlen (hp v) /\ reach_from (hp v) (st v) (root order v) a).
Proof.
  intros vd fuel order v m0 m' Hnone H a. apply mark_roots_spec in H. split.
  - intros U. split.
    + destruct (ms_frame _ _ _ _ _ H a) as [E|[_ [L _]]]; [|assumption].
      unfold g_is_used in U. rewrite E in U. specialize (Hnone a). unfold g_is_used in Hnone.
      congruence.
    + now apply (ms_reach _ _ _ _ _ H).
  - intros [Hlt R]. induction R as [a Ha|a b R IH Hla Hc].
    + now apply (ms_roots _ _ _ _ _ H).
    + now apply (ms_closed _ _ _ _ _ H a (IH Hla) (Hnone a) b).
Qed.

Lemma reach_perm : forall v order a, Permutation order (map fst (g_bind v)) ->
  (reach_from (hp v) (st v) (root order v) a <-> reach v a).
Proof.
  intros v order a P. unfold reach.
  split; apply reach_from_mono; intros x Hx; apply rf_root; unfold root in *;
    (destruct Hx as [Hx|Hx]; [left|now right]).
  - now apply (Permutation_in _ P).
  - now apply (Permutation_in _ (Permutation_sym P)).
Qed.

(* ====================================================== fuel: mark_fuel_enough *)
Section Fuel.
Variable h : heap.
Variable s : store.

Lemma count_unmarked_mono : forall m m' n a,
  (forall x, g_is_used m x = true -> g_is_used m' x = true) ->
  (count_unmarked m' a n <= count_unmarked m a n)%nat.
Proof.
  intros m m' n. induction n as [|n IH]; intros a H; [apply le_n|].
  cbn [count_unmarked]. specialize (IH (a + 1) H).
  destruct (g_is_used m a) eqn:U; [rewrite (H a U); lia|].
  destruct (g_is_used m' a); lia.
Qed.

Lemma count_unmarked_strict : forall m m' p n a,
  (forall x, g_is_used m x = true -> g_is_used m' x = true) ->
  a <= p < a + N.of_nat n -> g_is_used m p = false -> g_is_used m' p = true ->
  (count_unmarked m' a n < count_unmarked m a n)%nat.
Proof.
  intros m m' p n. induction n as [|n IH]; intros a H R U U'; [lia|].
  cbn [count_unmarked]. destruct (N.eq_dec a p) as [->|Hne].
  - rewrite U, U'. pose proof (count_unmarked_mono m m' n (p + 1) H). lia.
  - assert (IH' : (count_unmarked m' (a + 1) n < count_unmarked m (a + 1) n)%nat)
      by (apply IH; try assumption; lia).
    destruct (g_is_used m a) eqn:Ua; [rewrite (H a Ua); lia|].
    destruct (g_is_used m' a); lia.
Qed.

Lemma unmarked_ms : forall A m m', MarkSpec h s A m m' -> (unmarked h m' <= unmarked h m)%nat.
Proof.
  intros A m m' M. apply count_unmarked_mono. intros x. now apply (ms_used_mono h s A).
Qed.

Lemma unmarked_tset : forall m p, p < hlen h -> g_is_used m p = false ->
  (unmarked h (tset m p GUsed) < unmarked h m)%nat.
Proof.
  intros m p Hlt U. apply count_unmarked_strict with p.
  - intros x Hx. destruct (N.eq_dec p x) as [->|Hne]; [apply g_is_used_tset_same|].
    now rewrite g_is_used_tset_other.
  - rewrite N2Nat.id. lia.
  - assumption.
  - apply g_is_used_tset_same.
Qed.

(* equation forms: on closed values mark_vcell IS sequential marking of val_refs *)
Lemma mark_list_eq : forall (mark_rec : N -> gmap -> out gmap) vf,
  (forall v m, vclosed s vf v = true ->
     mark_vcell_f s mark_rec vf v m = mark_addrs mark_rec (val_refs s vf v) m) ->
  forall l m, forallb (vclosed s vf) l = true ->
    mark_list (mark_vcell_f s mark_rec vf) l m = mark_addrs mark_rec (flat_map (val_refs s vf) l) m.
Proof.
  intros mark_rec vf H. induction l as [|v r IH]; intros m Hc; [reflexivity|].
  cbn [forallb] in Hc. apply andb_true_iff in Hc as [C1 C2].
  cbn [mark_list flat_map]. rewrite mark_addrs_app, (H v m C1).
  destruct (mark_addrs mark_rec (val_refs s vf v) m); try reflexivity. cbn [bind]. now apply IH.
Qed.

Lemma mark_vcell_eq : forall (mark_rec : N -> gmap -> out gmap) vf v m,
  vclosed s vf v = true ->
  mark_vcell_f s mark_rec vf v m = mark_addrs mark_rec (val_refs s vf v) m.
Proof.
  intros mark_rec. induction vf as [|vf IH]; intros v m Hc; [discriminate|].
  pose proof (mark_list_eq mark_rec vf IH) as HL.
  destruct v; cbn [mark_vcell_f val_refs vclosed] in *;
    try reflexivity;
    try (now rewrite mark_addrs_one);
    try (now rewrite mark_addrs_two).
  - destruct (tget (vecs s) vid) as [l|]; [|discriminate]. now apply HL.
  - destruct (tget (conts s) cid) as [k|]; [|discriminate].
    rewrite mark_addrs_app, HL by assumption.
    destruct (mark_addrs mark_rec (flat_map (val_refs s vf) (k_stack k)) m); try reflexivity.
    cbn [bind]. now rewrite mark_addrs_two.
  - destruct (tget (lams s) lid) as [lam|]; [|discriminate].
    rewrite !andb_true_iff in Hc. destruct Hc as [[C1 C2] C3].
    rewrite mark_addrs_app, HL by assumption.
    destruct (mark_addrs mark_rec (flat_map (val_refs s vf) (l_bc lam)) m); try reflexivity.
    cbn [bind]. rewrite mark_addrs_app, HL by assumption.
    destruct (mark_addrs mark_rec (flat_map (val_refs s vf) (l_args lam)) a); try reflexivity.
    cbn [bind]. now apply HL.
Qed.

Lemma mark_step_eq : forall vd f p m,
  p < hlen h -> g_is_used m p = false -> cell_closed s vd (cell_at h p) = true ->
  mark h s vd (S f) p m
  = mark_addrs (mark h s vd f) (cell_refs s vd (cell_at h p)) (tset m p GUsed).
Proof.
  intros vd f p m Hlt Hu Hc. cbn [mark].
  apply N.ltb_lt in Hlt. rewrite Hlt, Hu. cbn [negb].
  destruct (cell_at h p) eqn:Ec; cbn [cell_refs cell_closed] in *;
    try reflexivity;
    try (cbn [val_refs]; now rewrite mark_addrs_one);
    try (cbn [val_refs]; now rewrite mark_addrs_two);
    try (now apply mark_vcell_eq).
  destruct (tget (envs s) eid) as [l|]; [|discriminate].
  apply mark_list_eq; [|assumption]. intros; now apply mark_vcell_eq.
Qed.

Definition heap_closed (vd : nat) : Prop :=
  forall a, a < hlen h -> cell_closed s vd (cell_at h a) = true.

Lemma mark_addrs_total : forall (f : N -> gmap -> out gmap) (k : nat),
  (forall a m, (unmarked h m <= k)%nat -> exists m', f a m = Ok m') ->
  (forall a m m', f a m = Ok m' -> MarkSpec h s (eq a) m m') ->
  forall l m, (unmarked h m <= k)%nat -> exists m', mark_addrs f l m = Ok m'.
Proof.
  intros f k Ht Hs. induction l as [|a r IH]; intros m Hk; [now exists m|].
  cbn [mark_addrs]. destruct (Ht a m Hk) as [m1 E]. rewrite E. cbn [bind].
  apply IH. apply Hs in E. apply unmarked_ms in E. lia.
Qed.

(* C03 mark_fuel_enough: fuel = number of unmarked cells + 1 suffices *)
Theorem mark_fuel_enough : forall vd, heap_closed vd ->
  forall f p m, (unmarked h m < f)%nat -> exists m', mark h s vd f p m = Ok m'.
Proof.
  intros vd HC. induction f as [|f IH]; intros p m Hf; [lia|].
  destruct (p <? hlen h) eqn:Hlt.
  2:{ exists m. cbn [mark]. now rewrite Hlt. }
  destruct (g_is_used m p) eqn:Hu.
  { exists m. cbn [mark]. now rewrite Hlt, Hu. }
  apply N.ltb_lt in Hlt.
  rewrite mark_step_eq by (auto using HC).
  pose proof (unmarked_tset m p Hlt Hu) as Hdec.
  apply mark_addrs_total with (k := unmarked h (tset m p GUsed)).
  - intros a m1 Hm1. apply IH. lia.
  - intros; eapply mark_spec; eassumption.
  - apply le_n.
Qed.

Lemma mark_vcell_total : forall vd f vf v m, heap_closed vd ->
  vclosed s vf v = true -> (unmarked h m < f)%nat ->
  exists m', mark_vcell_f s (mark h s vd f) vf v m = Ok m'.
Proof.
  intros vd f vf v m HC Hc Hf. rewrite mark_vcell_eq by assumption.
  apply mark_addrs_total with (k := unmarked h m).
  - intros a m1 Hm1. apply mark_fuel_enough; [assumption|lia].
  - intros; eapply mark_spec; eassumption.
  - apply le_n.
Qed.
End Fuel.

(* the roots: with closed cells and closed root values, the fuel computed by run_gc is
   enough for the whole root enumeration *)
Definition roots_closed (vd : nat) (v : vm) : Prop :=
  heap_closed (hp v) (st v) vd
  /\ (forall x, In x (stack_to_sp v) -> vclosed (st v) (S vd) x = true)
  /\ vclosed (st v) (S vd) (acc v) = true
  /\ sp v < scap v.

Lemma mark_list_total : forall h s vd f vf l m, heap_closed h s vd ->
  (forall x, In x l -> vclosed s vf x = true) -> (unmarked h m < f)%nat ->
  exists m', mark_list (mark_vcell_f s (mark h s vd f) vf) l m = Ok m'
             /\ (unmarked h m' <= unmarked h m)%nat.
Proof.
  intros h s vd f vf. induction l as [|x r IH]; intros m HC Hc Hf.
  - exists m. split; [reflexivity|apply le_n].
  - cbn [mark_list].
    destruct (mark_vcell_total h s vd f vf x m HC (Hc x (or_introl eq_refl)) Hf) as [m1 E].
    rewrite E. cbn [bind]. pose proof (unmarked_ms h s _ _ _ (mark_vcell_spec h s _ _ _ _ _ _ E)).
    destruct (IH m1 HC) as [m' [E' L]]; [intros; apply Hc; now right|lia|].
    exists m'. split; [assumption|lia].
Qed.

Lemma mark_addrs_total' : forall h s vd f l m, heap_closed h s vd -> (unmarked h m < f)%nat ->
  exists m', mark_addrs (mark h s vd f) l m = Ok m' /\ (unmarked h m' <= unmarked h m)%nat.
Proof.
  intros h s vd f. induction l as [|a r IH]; intros m HC Hf.
  - exists m. split; [reflexivity|apply le_n].
  - cbn [mark_addrs]. destruct (mark_fuel_enough h s vd HC f a m Hf) as [m1 E].
    rewrite E. cbn [bind]. pose proof (unmarked_ms h s _ _ _ (mark_spec h s _ _ _ _ _ E)).
    destruct (IH m1 HC) as [m' [E' L]]; [lia|]. exists m'. split; [assumption|lia].
Qed.

Theorem mark_roots_total : forall vd fuel order v m0,
  roots_closed vd v -> (unmarked (hp v) m0 < fuel)%nat ->
  exists m', mark_roots vd fuel order v m0 = Ok m'.
Proof.
  intros vd fuel order v m0 [HC [Hstk [Hacc Hsp]]] Hf. unfold mark_roots.
  destruct (mark_addrs_total' _ _ vd fuel order m0 HC Hf) as [m1 [E1 L1]]. rewrite E1. cbn [bind].
  destruct (mark_addrs_total' _ _ vd fuel (slot_ptrs (g_slots v)) m1 HC) as [m2 [E2 L2]]; [lia|].
  rewrite E2. cbn [bind].
  apply N.ltb_lt in Hsp. rewrite Hsp. cbn [bind].
  destruct (mark_list_total _ _ vd fuel (S vd) _ m2 HC Hstk) as [m3 [E3 L3]]; [lia|].
  rewrite E3. cbn [bind].
  destruct (mark_vcell_total _ _ vd fuel (S vd) (acc v) m3 HC Hacc) as [m4 E4]; [lia|].
  rewrite E4. cbn [bind].
  pose proof (unmarked_ms _ _ _ _ _ (mark_vcell_spec _ _ _ _ _ _ _ _ E4)) as L4.
  destruct (mark_fuel_enough _ _ vd HC fuel (fst (ip v)) m4) as [m5 E5]; [lia|].
  rewrite E5. cbn [bind].
  pose proof (unmarked_ms _ _ _ _ _ (mark_spec _ _ _ _ _ _ _ E5)) as L5.
  apply mark_fuel_enough; [assumption|lia].
Qed.

(* ==================================================================== sweep *)
Definition swept_state (x : gcstate) : gcstate :=
  match x with GAllocated => GFree | GUsed => GAllocated | GFree => GFree end.
Definition st_alloc (x : gcstate) : bool := match x with GAllocated => true | _ => false end.
Definition holds_sym (c : vcell) (name : text) : bool :=
  match c with VSym t => text_eqb t name | _ => false end.

Lemma text_eqb_eq : forall a b, text_eqb a b = true <-> a = b.
Proof. intros. unfold text_eqb. destruct (list_eq_dec N.eq_dec a b); split; congruence. Qed.
Lemma text_eqb_refl : forall a, text_eqb a a = true.
Proof. intros. now apply text_eqb_eq. Qed.

Lemma symtab_find_remove : forall st n n',
  symtab_find (symtab_remove st n) n' = if text_eqb n n' then None else symtab_find st n'.
Proof.
  induction st as [|[k p] r IH]; intros n n'.
  - cbn. now destruct (text_eqb n n').
  - cbn [symtab_remove symtab_find]. destruct (text_eqb k n) eqn:E1.
    + apply text_eqb_eq in E1. subst k. rewrite IH.
      destruct (text_eqb n n'); reflexivity.
    + cbn [symtab_find]. rewrite IH. destruct (text_eqb k n') eqn:E2; [|reflexivity].
      apply text_eqb_eq in E2. subst k.
      destruct (text_eqb n n') eqn:E3; [|reflexivity].
      apply text_eqb_eq in E3. subst n'. rewrite text_eqb_refl in E1. discriminate.
Qed.

Lemma cell_at_tset_same : forall h p v,
  cell_at (mk_heap (tset (cells h) p v) (hlen h) (free_list h) (gcmap h) (symtab h) (chunk h)) p = v.
Proof. intros. unfold cell_at. cbn. now rewrite tget_tset_same. Qed.

Lemma in_range_asc : forall n a x, In x (range_asc a n) <-> a <= x < a + N.of_nat n.
Proof.
  induction n as [|n IH]; intros a x.
  - cbn. lia.
  - cbn [range_asc In]. rewrite IH. lia.
Qed.

Lemma existsb_ext_in : forall A (f g : A -> bool) l,
  (forall x, In x l -> f x = g x) -> existsb f l = existsb g l.
Proof.
  induction l as [|x r IH]; intros H; [reflexivity|].
  cbn. rewrite H by (now left). rewrite IH; [reflexivity|]. intros; apply H; now right.
Qed.

(* one iteration of the sweep loop *)
Definition sweep_step (h : heap) (it : N) : out heap :=
  match g_get (gcmap h) it with
  | GAllocated => heap_free h it
  | GUsed => Ok (set_gcmap h (tset (gcmap h) it GAllocated))
  | GFree => Ok h
  end.

Lemma sweep_step_spec : forall h it, it < hlen h ->
  exists h1, sweep_step h it = Ok h1 /\ hlen h1 = hlen h /\ chunk h1 = chunk h
    /\ (forall a, g_get (gcmap h1) a = if a =? it then swept_state (g_get (gcmap h) it) else g_get (gcmap h) a)
    /\ (forall a, cell_at h1 a = if (a =? it) && st_alloc (g_get (gcmap h) it) then VUndef else cell_at h a)
    /\ free_list h1 = (if st_alloc (g_get (gcmap h) it) then [it] else []) ++ free_list h
    /\ (forall name, symtab_find (symtab h1) name =
          if st_alloc (g_get (gcmap h) it) && holds_sym (cell_at h it) name then None
          else symtab_find (symtab h) name).
Proof.
  intros h it Hlt. unfold sweep_step. destruct (g_get (gcmap h) it) eqn:Eg.
  - exists h. repeat split; try reflexivity.
    + intros a. destruct (N.eqb_spec a it); [subst; now rewrite Eg|reflexivity].
    + intros a. now rewrite andb_false_r.
  - unfold heap_free. apply N.ltb_lt in Hlt. rewrite Hlt.
    eexists. split; [reflexivity|]. cbn [hlen chunk gcmap free_list symtab st_alloc andb app swept_state].
    repeat split.
    + intros a. destruct (N.eqb_spec a it) as [->|Hne]; [apply g_get_tset_same|].
      apply g_get_tset_other. congruence.
    + intros a. rewrite andb_true_r. unfold cell_at at 1. cbn [cells].
      destruct (N.eqb_spec a it) as [->|Hne]; [now rewrite tget_tset_same|].
      rewrite tget_tset_other by congruence. reflexivity.
    + intros name. destruct (cell_at h it) eqn:Ec; cbn [holds_sym]; try reflexivity.
      apply symtab_find_remove.
  - eexists. split; [reflexivity|]. cbn [set_gcmap hlen chunk gcmap free_list symtab st_alloc andb app swept_state].
    repeat split.
    + intros a. destruct (N.eqb_spec a it) as [->|Hne]; [apply g_get_tset_same|].
      apply g_get_tset_other. congruence.
    + intros a. now rewrite andb_false_r.
Qed.

Lemma sweep_from_unfold : forall h it k,
  sweep_from h it (S k) = (do h1 <- sweep_step h it; sweep_from h1 (it + 1) k).
Proof. reflexivity. Qed.

Definition in_win (it : N) (n : nat) (a : N) : bool := (it <=? a) && (a <? it + N.of_nat n).

Lemma sweep_from_spec : forall n h it, it + N.of_nat n <= hlen h ->
  exists h', sweep_from h it n = Ok h' /\ hlen h' = hlen h /\ chunk h' = chunk h
    /\ (forall a, g_get (gcmap h') a =
          if in_win it n a then swept_state (g_get (gcmap h) a) else g_get (gcmap h) a)
    /\ (forall a, cell_at h' a =
          if in_win it n a && st_alloc (g_get (gcmap h) a) then VUndef else cell_at h a)
    /\ free_list h' = rev (filter (fun a => st_alloc (g_get (gcmap h) a)) (range_asc it n)) ++ free_list h
    /\ (forall name, symtab_find (symtab h') name =
          if existsb (fun a => st_alloc (g_get (gcmap h) a) && holds_sym (cell_at h a) name) (range_asc it n)
          then None else symtab_find (symtab h) name).
Proof.
  induction n as [|n IH]; intros h it Hle.
  - exists h. cbn [sweep_from range_asc filter rev app existsb]. repeat split; try reflexivity.
    + intros a. unfold in_win. replace (it + N.of_nat 0) with it by lia.
      destruct (N.leb_spec it a), (N.ltb_spec a it); try reflexivity; lia.
    + intros a. unfold in_win. replace (it + N.of_nat 0) with it by lia.
      destruct (N.leb_spec it a), (N.ltb_spec a it); try reflexivity; lia.
  - rewrite sweep_from_unfold.
    destruct (sweep_step_spec h it) as [h1 [E1 [L1 [C1 [G1 [K1 [F1 SY1]]]]]]]; [lia|].
    rewrite E1. cbn [bind].
    destruct (IH h1 (it + 1)) as [h' [E [L [C [G [K [F SY]]]]]]]; [rewrite L1; lia|].
    exists h'. split; [assumption|]. split; [congruence|]. split; [congruence|].
    assert (Hother : forall a, a <> it -> g_get (gcmap h1) a = g_get (gcmap h) a
                                       /\ cell_at h1 a = cell_at h a).
    { intros a Hne. rewrite G1, K1. apply N.eqb_neq in Hne. now rewrite Hne. }
    repeat split.
    + intros a. rewrite G. unfold in_win.
      destruct (N.eq_dec a it) as [->|Hne].
      * rewrite G1, N.eqb_refl.
        destruct (N.leb_spec (it + 1) it); [lia|]. cbn [andb].
        destruct (N.leb_spec it it); [|lia]. destruct (N.ltb_spec it (it + N.of_nat (S n))); [|lia].
        reflexivity.
      * destruct (Hother a Hne) as [-> _].
        destruct (N.leb_spec (it + 1) a), (N.leb_spec it a),
                 (N.ltb_spec a (it + 1 + N.of_nat n)), (N.ltb_spec a (it + N.of_nat (S n)));
          try reflexivity; lia.
    + intros a. rewrite K. unfold in_win.
      destruct (N.eq_dec a it) as [->|Hne].
      * rewrite K1, G1, !N.eqb_refl.
        destruct (N.leb_spec (it + 1) it); [lia|]. cbn [andb].
        destruct (N.leb_spec it it); [|lia]. destruct (N.ltb_spec it (it + N.of_nat (S n))); [|lia].
        reflexivity.
      * destruct (Hother a Hne) as [-> ->].
        destruct (N.leb_spec (it + 1) a), (N.leb_spec it a),
                 (N.ltb_spec a (it + 1 + N.of_nat n)), (N.ltb_spec a (it + N.of_nat (S n)));
          try reflexivity; lia.
    + rewrite F, F1. cbn [range_asc filter].
      rewrite (filter_ext_in (fun a => st_alloc (g_get (gcmap h1) a))
                             (fun a => st_alloc (g_get (gcmap h) a))).
      2:{ intros a Ha. apply in_range_asc in Ha. destruct (Hother a) as [-> _]; [lia|reflexivity]. }
      destruct (st_alloc (g_get (gcmap h) it)); cbn [rev app]; [|reflexivity].
      now rewrite <- app_assoc.
    + intros name. rewrite SY, SY1. cbn [range_asc existsb].
      rewrite (existsb_ext_in _ (fun a => st_alloc (g_get (gcmap h1) a) && holds_sym (cell_at h1 a) name)
                                (fun a => st_alloc (g_get (gcmap h) a) && holds_sym (cell_at h a) name)).
      2:{ intros a Ha. apply in_range_asc in Ha. destruct (Hother a) as [-> ->]; [lia|reflexivity]. }
      destruct (st_alloc (g_get (gcmap h) it) && holds_sym (cell_at h it) name); cbn [orb].
      * now destruct (existsb _ _).
      * reflexivity.
Qed.

(* C03 sweep_exact: exactly the Allocated cells become Free, are overwritten with
   Undefined and pushed on the free list (once, in ascending order of address, so the
   highest freed address is the next one allocated), and lose their symbol-table entry iff
   they held a symbol; Used cells become Allocated and are otherwise untouched; sweep
   never panics. *)
Theorem sweep_exact : forall h, exists h', sweep h = Ok h' /\ hlen h' = hlen h /\ chunk h' = chunk h
  /\ (forall a, g_get (gcmap h') a =
        if a <? hlen h then swept_state (g_get (gcmap h) a) else g_get (gcmap h) a)
  /\ (forall a, cell_at h' a =
        if (a <? hlen h) && st_alloc (g_get (gcmap h) a) then VUndef else cell_at h a)
  /\ free_list h' = rev (filter (fun a => st_alloc (g_get (gcmap h) a))
                                (range_asc 0 (N.to_nat (hlen h)))) ++ free_list h
  /\ (forall name, symtab_find (symtab h') name =
        if existsb (fun a => st_alloc (g_get (gcmap h) a) && holds_sym (cell_at h a) name)
                   (range_asc 0 (N.to_nat (hlen h)))
        then None else symtab_find (symtab h) name).
Proof.
  intros h. unfold sweep.
  destruct (sweep_from_spec (N.to_nat (hlen h)) h 0) as [h' [E [L [C [G [K [F SY]]]]]]];
    [rewrite N2Nat.id; lia|].
  exists h'. repeat split; try assumption.
  - intros a. rewrite G. unfold in_win. rewrite N2Nat.id. cbn [N.add].
    destruct (N.leb_spec 0 a); [|lia]. reflexivity.
  - intros a. rewrite K. unfold in_win. rewrite N2Nat.id. cbn [N.add].
    destruct (N.leb_spec 0 a); [|lia]. reflexivity.
Qed.

Lemma range_asc_nodup : forall n a, NoDup (range_asc a n).
Proof.
  induction n as [|n IH]; intros a; [constructor|].
  cbn. constructor; [|apply IH]. rewrite in_range_asc. lia.
Qed.

(* ======================================================== the whole collection *)
Definition no_used (h : heap) : Prop := forall a, g_is_used (gcmap h) a = false.
Definition gmap_in_range (h : heap) : Prop := forall a, hlen h <= a -> g_get (gcmap h) a = GFree.

Lemma collect_inv : forall vd fuel order v h', collect vd fuel order v = Ok h' ->
  exists m, mark_roots vd fuel order v (gcmap (hp v)) = Ok m /\ sweep (set_gcmap (hp v) m) = Ok h'.
Proof. intros vd fuel order v h' H. unfold collect in H. now apply bind_ok_inv in H. Qed.

Lemma g_is_used_get : forall m a, g_is_used m a = true <-> g_get m a = GUsed.
Proof. intros. unfold g_is_used. destruct (g_get m a); split; congruence. Qed.

(* C12 after_gc_allocated_eq_reachable: immediately after a collection the allocated
   cells are exactly the cells reachable from the roots — whatever their kind, since
   [cref] has a case for every constructor of vcell *)
Theorem after_gc_allocated_eq_reachable : forall vd fuel order v h',
  no_used (hp v) -> gmap_in_range (hp v) ->
  collect vd fuel order v = Ok h' ->
  forall a, g_get (gcmap h') a = GAllocated <->
            (a < hlen (hp v) /\ reach_from (hp v) (st v) (root order v) a).
Proof.
  intros vd fuel order v h' Hnu Hir H a.
  apply collect_inv in H as [m [Hm Hs]].
  pose proof (mark_exact vd fuel order v _ m Hnu Hm a) as ME.
  pose proof (mark_roots_spec _ _ _ _ _ _ Hm) as MS.
  destruct (sweep_exact (set_gcmap (hp v) m)) as [h2 [E2 [L [C [G _]]]]].
  rewrite Hs in E2. injection E2 as <-. cbn [set_gcmap hlen gcmap] in *.
  rewrite G. destruct (N.ltb_spec a (hlen (hp v))) as [Hlt|Hge].
  - rewrite <- ME, g_is_used_get.
    destruct (g_get m a) eqn:Eg; cbn [swept_state]; split; congruence.
  - split; [|intros [? _]; lia]. intros Ea.
    destruct (ms_frame _ _ _ _ _ MS a) as [E|[_ [L' _]]]; [|lia].
    rewrite E, (Hir a Hge) in Ea. discriminate.
Qed.

(* C03 gc_preserves_live: every cell reachable from the roots keeps its contents and is
   allocated after the collection *)
Theorem gc_preserves_live : forall vd fuel order v h',
  no_used (hp v) ->
  collect vd fuel order v = Ok h' ->
  forall a, a < hlen (hp v) -> reach_from (hp v) (st v) (root order v) a ->
    g_get (gcmap h') a = GAllocated /\ cell_at h' a = cell_at (hp v) a.
Proof.
  intros vd fuel order v h' Hnu H a Hlt R.
  apply collect_inv in H as [m [Hm Hs]].
  pose proof (proj2 (mark_exact vd fuel order v _ m Hnu Hm a) (conj Hlt R)) as U.
  apply g_is_used_get in U.
  destruct (sweep_exact (set_gcmap (hp v) m)) as [h2 [E2 [L [C [G [K _]]]]]].
  rewrite Hs in E2. injection E2 as <-. cbn [set_gcmap hlen gcmap] in *.
  rewrite G, K. apply N.ltb_lt in Hlt. rewrite Hlt, U. cbn. split; reflexivity.
Qed.

(* ... and unreachable cells are reclaimed: free, Undefined *)
Theorem gc_reclaims_garbage : forall vd fuel order v h',
  no_used (hp v) ->
  collect vd fuel order v = Ok h' ->
  forall a, a < hlen (hp v) -> ~ reach_from (hp v) (st v) (root order v) a ->
    g_get (gcmap h') a = GFree /\ cell_at h' a = (if st_alloc (g_get (gcmap (hp v)) a) then VUndef else cell_at (hp v) a).
Proof.
  intros vd fuel order v h' Hnu H a Hlt NR.
  apply collect_inv in H as [m [Hm Hs]].
  pose proof (mark_exact vd fuel order v _ m Hnu Hm a) as ME.
  pose proof (mark_roots_spec _ _ _ _ _ _ Hm) as MS.
  assert (Eg : g_get m a = g_get (gcmap (hp v)) a).
  { destruct (ms_frame _ _ _ _ _ MS a) as [E|[U _]]; [assumption|].
    apply ME in U. tauto. }
  destruct (sweep_exact (set_gcmap (hp v) m)) as [h2 [E2 [L [C [G [K _]]]]]].
  rewrite Hs in E2. injection E2 as <-. cbn [set_gcmap hlen gcmap] in *.
  rewrite G, K. apply N.ltb_lt in Hlt. rewrite Hlt, Eg. cbn [andb].
  specialize (Hnu a). apply not_true_iff_false in Hnu. rewrite g_is_used_get in Hnu.
  destruct (g_get (gcmap (hp v)) a); cbn; tauto.
Qed.

(* ============================================ decision helpers for concrete heaps *)
Definition st_used (x : gcstate) : bool := match x with GUsed => true | _ => false end.

Lemma no_used_by_elements : forall h,
  forallb (fun kv => negb (st_used (snd kv))) (PositiveMap.elements (gcmap h)) = true -> no_used h.
Proof.
  intros h H a. unfold g_is_used, g_get, tget.
  destruct (PositiveMap.find (N.succ_pos a) (gcmap h)) as [x|] eqn:E; [|reflexivity].
  apply PositiveMap.elements_correct in E. rewrite forallb_forall in H.
  specialize (H _ E). cbn in H. now destruct x.
Qed.

Lemma gmap_in_range_by_elements : forall h,
  forallb (fun kv => (Pos.pred_N (fst kv) <? hlen h) || negb (st_used (snd kv)) && negb (st_alloc (snd kv)))
          (PositiveMap.elements (gcmap h)) = true -> gmap_in_range h.
Proof.
  intros h H a Ha. unfold g_get, tget.
  destruct (PositiveMap.find (N.succ_pos a) (gcmap h)) as [x|] eqn:E; [|reflexivity].
  apply PositiveMap.elements_correct in E. rewrite forallb_forall in H.
  specialize (H _ E). cbn [fst snd] in H. rewrite N.pos_pred_succ in H.
  destruct (N.ltb_spec a (hlen h)); [lia|]. cbn in H. now destruct x.
Qed.

(* C12 stack_wipe_drops_roots: Stack::clear (stack.rs:40-43) leaves only Undefined slots,
   which reference nothing *)
Lemma stack_wipe_drops_roots : forall s n x a, In x (repeat VUndef n) -> ~ vref s x a.
Proof.
  intros s n x a Hin [k Hk]. apply repeat_spec in Hin. subst x. destruct k; cbn in Hk; exact Hk.
Qed.

(* the same for the machine state: after Stack::clear (end of a successful evaluation,
   and — with fix F5 on main — on the error path too) the stack table is empty, every slot
   reads Undefined, and the stack contributes no root *)
Lemma stack_wipe_drops_roots_vm : forall v x a,
  stack v = tempty -> In x (stack_to_sp v) -> ~ vref (st v) x a.
Proof.
  intros v x a E Hin [k Hk]. unfold stack_to_sp in Hin. apply in_map_iff in Hin as [i [<- _]].
  unfold sget in Hk. rewrite E, tget_tempty in Hk. destruct k; cbn in Hk; exact Hk.
Qed.

(* a small machine state used as the non-vacuity witness of the theorems: a pair (cell 0)
   of a symbol (1) and nil (2) on the stack, an unreachable cyclic pair (3), a vector cell
   (4) in acc whose element points to a number (5); 6 and 7 are free *)
Definition ex_heap : heap :=
  mk_heap
    (tset (tset (tset (tset (tset (tset tempty 0 (VPair 1 2)) 1 (VSym [97])) 2 VNil) 3 (VPair 3 3))
                4 (VVec 0)) 5 (VNum (Fixnum 7)))
    8 [7; 6]
    (tset (tset (tset (tset (tset (tset tempty 0 GAllocated) 1 GAllocated) 2 GAllocated) 3 GAllocated)
                4 GAllocated) 5 GAllocated)
    [([97], 1)] 8.
Definition ex_store : store :=
  mk_store tempty (tset tempty 0 [VPtr 5]) tempty tempty tempty tempty 1.
Definition ex_vm : vm :=
  mk_vm ex_heap ex_store [] [] (tset tempty 1 (VPtr 0)) 256 1 0 USIZE_MAX (USIZE_MAX, 0) (VPtr 4) [].
