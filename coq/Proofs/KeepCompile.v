(* KeepCompile.v — C01 (R2): the COMPILER keeps the invariant [J] of KeepCalc.v (injective
   global slots inside g_slots, sp < scap, well-formed continuations), for EVERY datum:
   compile_expression / compile_quasiquote / compile / compile_runnable / prepare_eval and the
   `eval` builtin.  The only compile-time operation that touches a component of [J] is
   GlobalEnvironment::get_binding (a new binding gets the slot at the END of g_slots).
   Uses the one-step unfolding [f_expr] / [f_quasi] of FlatCompile.v.                      *)
From Coq Require Import Lia List String.
From MW Require Import Model.Base Model.F64 Model.Num Model.Datum Model.TransformDef Model.Transform
  Model.VmTypes Model.Heap Model.Gc Model.VmBase Model.Compile Model.Vm
  Proofs.GcProofs Proofs.SymtabProofs Proofs.VmProofs0 Proofs.TailProofs Proofs.ScopeProofs
  Proofs.EnvProofs Proofs.FlatProofs Proofs.FlatPrims Proofs.FlatCompile Proofs.QuoteHeapProofs Proofs.CompileCorrect Proofs.KeepCalc.
Open Scope N_scope.
Arguments N.add : simpl never.
Arguments N.sub : simpl never.
Arguments N.eqb : simpl never.
Arguments N.ltb : simpl never.
Arguments N.leb : simpl never.
Arguments N.mul : simpl never.

(* ------------------------------------------------------------------ heap constants *)
Lemma mpc_conts c : forall h s v h' s', maybe_put_cell h s c = Ok (v, h', s') -> conts s' = conts s.
Proof.
  induction c as [c Hnp Hnv|ca cd IHa IHd|l HF] using cell_ind2; intros h s v h' s' H.
  - destruct c; cbn [maybe_put_cell] in H; try discriminate; try (injection H as _ _ <-; reflexivity).
    + exfalso. eapply Hnp. reflexivity.
    + unfold new_str in H. match type of H with context [heap_put ?a ?b] => destruct (heap_put a b) as [p h1] end.
      injection H as _ _ <-. reflexivity.
    + match type of H with context [heap_put ?a ?b] => destruct (heap_put a b) as [p h1] end.
      injection H as _ _ <-. reflexivity.
    + exfalso. eapply Hnv. reflexivity.
  - cbn [maybe_put_cell] in H.
    destruct (maybe_put_cell h s ca) as [[[va h1] s1]| | |] eqn:E1; cbn [bind] in H; try discriminate.
    destruct (match va with VPtr _ => (va, h1) | _ => heap_put h1 va end) as [pa h2].
    destruct (maybe_put_cell h2 s1 cd) as [[[vd h3] s3]| | |] eqn:E3; cbn [bind] in H; try discriminate.
    destruct (match vd with VPtr _ => (vd, h3) | _ => heap_put h3 vd end) as [pd h4].
    destruct pa; try discriminate. destruct pd; try discriminate.
    match type of H with context [heap_put ?a ?b] => destruct (heap_put a b) as [r h5] end. injection H as _ _ <-.
    rewrite (IHd _ _ _ _ _ E3). eapply IHa. exact E1.
  - cbn [maybe_put_cell] in H. fold elems_of in H.
    destruct (elems_of h s l []) as [[[vs h1] s1]| | |] eqn:E1; cbn [bind] in H; try discriminate.
    assert (L1 : conts s1 = conts s).
    { clear H. revert h s vs h1 s1 E1. generalize (@nil vcell).
      induction HF as [|x r Hx _ IH]; intros acc h s vs h1 s1 E1; cbn [elems_of] in E1.
      - injection E1 as _ _ <-. reflexivity.
      - destruct (maybe_put_cell h s x) as [[[vx hx] sx]| | |] eqn:Ex; cbn [bind] in E1; try discriminate.
        rewrite (IH _ _ _ _ _ _ E1). eapply Hx. exact Ex. }
    unfold new_vec in H. match type of H with context [heap_put ?a ?b] => destruct (heap_put a b) as [r h2] end.
    injection H as _ _ <-. cbn [conts]. exact L1.
Qed.

Lemma kp_maybe_put_cell_m c : kp (maybe_put_cell_m c).
Proof.
  intros s Hs. unfold maybe_put_cell_m.
  destruct (maybe_put_cell (hp s) (st s) c) as [[[v h] x]| | |] eqn:E; cbn [jpost]; auto.
  revert Hs. apply J_same; try reflexivity. cbn [st with_store]. exact (mpc_conts _ _ _ _ _ _ E).
Qed.
Lemma kp_put_cell_m c : kp (put_cell_m c).
Proof.
  intros s Hs. unfold put_cell_m, put_cell.
  destruct (maybe_put_cell (hp s) (st s) c) as [[[v h] x]| | |] eqn:E; cbn [bind jpost]; auto.
  assert (Hc : conts x = conts (st s)) by exact (mpc_conts _ _ _ _ _ _ E).
  destruct v;
    try match goal with |- context [heap_put ?a ?b] => destruct (heap_put a b) as [pp h2] end; cbn [jpost];
    (revert Hs; apply J_same; try reflexivity; cbn [st with_store]; exact Hc).
Qed.
#[export] Hint Resolve kp_maybe_put_cell_m kp_put_cell_m : kp.

Lemma kp_put_cells l : kp (put_cells l).
Proof. induction l as [|c r IH]; cbn [put_cells]; kpa. Qed.
Lemma kp_compile_formals a : forall acc, kp (compile_formals a acc).
Proof. induction a; intros acc; cbn [compile_formals]; kpa. Qed.
Lemma kp_put_lambda l : kp (put_lambda l).
Proof.
  intros s Hs. unfold put_lambda. cbn [new_lam].
  destruct (heap_put (hp s) (VLambda (next_id (st s)))) as [p h]. cbn [jpost].
  revert Hs. apply J_same; reflexivity.
Qed.
#[export] Hint Resolve kp_put_cells kp_compile_formals kp_put_lambda : kp.

(* ------------------------------------------------------------------ global bindings *)
Lemma kp_get_binding a : kp (get_binding a).
Proof.
  intros s [[G1 G2] S K]. unfold get_binding. destruct (assoc_find (g_bind s) a) as [k|] eqn:E; cbn [jpost].
  - constructor; [split|..]; assumption.
  - constructor; [|exact S|exact K]. unfold ginv. cbn [g_bind g_slots with_globals]. split.
    + intros a' k'. rewrite assoc_find_cons, len_app.
      destruct (N.eqb_spec a a') as [<-|Hne]; [intros [= <-]; cbn; lia|].
      intros H. apply G1 in H. lia.
    + intros a1 a2 k'. rewrite !assoc_find_cons.
      destruct (N.eqb_spec a a1) as [<-|H1]; destruct (N.eqb_spec a a2) as [<-|H2]; auto.
      * intros [= <-] H. apply G1 in H. lia.
      * intros H [= <-]. apply G1 in H. lia.
      * apply G2.
Qed.
#[export] Hint Resolve kp_get_binding : kp.
Lemma kp_location_operand l r : kp (location_operand l r).
Proof. unfold location_operand. kpa. Qed.
#[export] Hint Resolve kp_location_operand : kp.

(* writing a global slot in place *)
Lemma kp_set_global slot v : kp (fun s => ROk tt (with_globals s (g_bind s) (list_set (g_slots s) slot v))).
Proof.
  intros s. apply J_same; try reflexivity. cbn [g_slots with_globals]. unfold len, list_set.
  f_equal. generalize (N.to_nat slot). induction (g_slots s) as [|x r IH]; intros [|n]; cbn; auto.
Qed.

(* ------------------------------------------------------------------ the forms *)
Section Step.
Variable ce : lambda -> bool -> cell -> M lambda.
Variable cq : lambda -> cell -> N -> M lambda.
Hypothesis IHe : forall l tail e, kp (ce l tail e).
Hypothesis IHq : forall l e d, kp (cq l e d).
Hint Resolve IHe IHq : kp.

Lemma k_quote l x : kp (f_quote l x). Proof. unfold f_quote. kpa. Qed.
Lemma k_store l x : kp (f_store l x). Proof. unfold f_store. kpa. Qed.
Hint Resolve k_quote k_store : kp.
Lemma k_body b : forall lam, kp (f_body ce b lam).
Proof. induction b; intros lam; cbn [f_body]; kpa. Qed.
Hint Resolve k_body : kp.
Lemma k_lambda iof e d : kp (f_lambda ce iof e d).
Proof. unfold f_lambda. kpa. Qed.
Lemma k_if_core l tail t c alt : kp (f_if_core ce l tail t c alt).
Proof. unfold f_if_core. kpa. Qed.
Hint Resolve k_lambda k_if_core : kp.
Lemma k_if l tail rest : kp (f_if ce l tail rest).
Proof. unfold f_if. kpa. Qed.
Lemma k_args r : forall lam n, kp (f_args ce r lam n).
Proof. induction r; intros lam k; cbn [f_args]; kpa. Qed.
Hint Resolve k_if k_args : kp.
Lemma k_app l tail p r : kp (f_app ce l tail p r).
Proof. unfold f_app. kpa. Qed.
Lemma k_defsyntax l e : kp (f_defsyntax l e).
Proof.
  unfold f_defsyntax. apply kp_bind; [apply kp_lift|intros tr]. intros s Hs.
  cbn [new_macro]. destruct (heap_put (hp s) (VMacro (next_id (st s)))) as [tp h].
  assert (K : kp (dom sym_ref <- put_cell_m (tr_keyword tr); dom p <- as_ptr sym_ref; dom slot <- get_binding p;
                  ret (emit (emit (emit_op (emit (emit (emit_op l OMovImmediate) tp) (VGSlot slot)) OMovImmediate) VVoid) VAcc)))
    by kpa.
  apply K. revert Hs. apply J_same; reflexivity.
Qed.
Hint Resolve k_app k_defsyntax : kp.
Lemma k_define l e rest : kp (f_define ce l e rest).
Proof. unfold f_define. kpa. Qed.
Lemma k_set l rest : kp (f_set ce l rest).
Proof. unfold f_set. kpa. Qed.
Hint Resolve k_define k_set : kp.
Theorem k_expr l tail e : kp (f_expr ce cq l tail e).
Proof. unfold f_expr. kpa. Qed.

Lemma k_items depth its : forall lam, kp (f_items cq depth its lam).
Proof. induction its as [|it r IH]; intros lam; cbn [f_items]; kpa. Qed.
Lemma k_elems depth r : forall lam cnt, kp (f_elems cq depth r lam cnt).
Proof. induction r; intros lam cnt; cbn [f_elems]; kpa. Qed.
Hint Resolve k_items k_elems : kp.
Theorem k_quasi l e d : kp (f_quasi ce cq l e d).
Proof. unfold f_quasi. kpa. Qed.
End Step.

(* ------------------------------------------------------------------ the compiler *)
Theorem kp_compile_both f :
  (forall l tail e, kp (compile_expression f l tail e)) /\ (forall l e d, kp (compile_quasiquote f l e d)).
Proof.
  induction f as [|f [IHe IHq]].
  - split; intros; intros s Hs; exact I.
  - split.
    + intros l tail e. rewrite compile_expression_S. apply k_expr; assumption.
    + intros l e d. rewrite compile_quasiquote_S. apply k_quasi; assumption.
Qed.
Theorem kp_compile_expression f l tail e : kp (compile_expression f l tail e).
Proof. apply (kp_compile_both f). Qed.

Theorem kp_compile l tail e : kp (compile l tail e).
Proof.
  intros s Hs. unfold compile. destruct (transform_expr TRANSFORM_FUEL s e); cbn [jpost]; auto.
  apply kp_compile_expression, Hs.
Qed.
#[export] Hint Resolve kp_compile : kp.
Theorem kp_compile_runnable e : kp (compile_runnable e).
Proof. unfold compile_runnable. kpa. Qed.
#[export] Hint Resolve kp_compile_runnable : kp.
Theorem kp_prepare_eval e : kp (prepare_eval e).
Proof. unfold prepare_eval. kpa. Qed.

Lemma kp_dec_ip : kp dec_ip.
Proof.
  intros s Hs. unfold dec_ip. destruct (snd (ip s) =? 0); [exact I|]. revert Hs. apply J_same; reflexivity.
Qed.
#[export] Hint Resolve kp_dec_ip : kp.
Theorem kp_b_eval : kp b_eval.
Proof. unfold b_eval. kpa. Qed.
