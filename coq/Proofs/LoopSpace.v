(* LoopSpace.v — C04: instrumented execution.  [hw n s] is the HIGH-WATER MARK of the stack
   pointer over the first n instructions from s (all intermediate states, both ends included);
   [hwb lo hi n s] says lo <= hw n s <= hi.  Then the reference semantics of the closure
   fragment (Proofs/Closures3.v) INDEXED by three static measures of the derivation
   (dl: a lower bound of the stack growth; dn: growth above the stack pointer at entry;
   dt: growth above the BASE of the current frame caused by calls in tail position), and the
   outcomes ok_n3b / ok_t3b = ok_n3 / ok_t3 of Closures3.v plus the high-water bounds.     *)
From Coq Require Import String Lia FMapPositive.
From MW Require Import Model.Base Model.F64 Model.Num Model.Datum Model.TransformDef Model.Transform
  Model.VmTypes Model.Heap Model.Gc Model.VmBase Model.Compile Model.Vm
  Proofs.VmProofs0 Proofs.GcProofs Proofs.SymtabProofs Proofs.QuoteHeapProofs
  Proofs.CompileProofs Proofs.RunProofs Proofs.CompileCorrect Proofs.TailProofs Proofs.FrameSteps
  Proofs.CellFuelProofs Proofs.CompileCorrect2 Proofs.FrameSteps3 Proofs.Closures3.
Open Scope N_scope.

Arguments N.add : simpl never.
Arguments N.sub : simpl never.
Arguments N.mul : simpl never.
Arguments N.eqb : simpl never.
Arguments N.ltb : simpl never.
Arguments N.leb : simpl never.
Arguments N.max : simpl never.

Section HighWater.
Variable ob : N -> M vcell.
Notation run_one := (Vm.run_one ob).
Notation steps := (RunProofs.steps ob).

(* the maximum of sp over the states s = s_0, s_1, ..., s_n of the first n instructions
   (if the run stops earlier: over the states reached) *)
Fixpoint hw (n : nat) (s : vm) : N :=
  match n with
  | O => sp s
  | S k => match run_one s with ROk false s' => N.max (sp s) (hw k s') | _ => sp s end
  end.

Lemma hw_zero s : hw 0 s = sp s.
Proof. reflexivity. Qed.
Lemma hw_S n s s' : run_one s = ROk false s' -> hw (S n) s = N.max (sp s) (hw n s').
Proof. intros E. cbn [hw]. rewrite E. reflexivity. Qed.
Lemma hw_ge_sp n s : sp s <= hw n s.
Proof. destruct n; cbn [hw]; [lia|]. destruct (run_one s) as [[|] s'|? ? ?| |]; lia. Qed.

Lemma hw_add a : forall b s s1, steps a s = Some s1 -> hw (a + b) s = N.max (hw a s) (hw b s1).
Proof.
  induction a as [|a IH]; intros b s s1 H.
  - cbn [RunProofs.steps] in H. injection H as <-. cbn [Nat.add hw]. pose proof (hw_ge_sp b s). lia.
  - cbn [RunProofs.steps] in H. destruct (run_one s) as [[|] s'|? ? ?| |] eqn:E; try discriminate.
    change (S a + b)%nat with (S (a + b)). rewrite (hw_S _ _ _ E), (hw_S _ _ _ E), (IH b s' s1 H). lia.
Qed.

(* every state reached within n instructions has sp <= hw n s *)
Lemma hw_bounds n : forall s k s', (k <= n)%nat -> steps k s = Some s' -> sp s' <= hw n s.
Proof.
  induction n as [|n IH]; intros s k s' Hk H.
  - assert (k = 0%nat) as -> by lia. cbn [RunProofs.steps] in H. injection H as <-. cbn [hw]. lia.
  - destruct k as [|k]; [cbn [RunProofs.steps] in H; injection H as <-; apply hw_ge_sp|].
    cbn [RunProofs.steps] in H. destruct (run_one s) as [[|] s1|? ? ?| |] eqn:E; try discriminate.
    rewrite (hw_S _ _ _ E). pose proof (IH s1 k s' ltac:(lia) H). lia.
Qed.
(* ... and the high-water mark is attained *)
Lemma hw_attained n : forall s s1, steps n s = Some s1 ->
  exists k s', (k <= n)%nat /\ steps k s = Some s' /\ sp s' = hw n s.
Proof.
  induction n as [|n IH]; intros s s1 H.
  - exists 0%nat, s. split; [lia|]. split; reflexivity.
  - cbn [RunProofs.steps] in H. destruct (run_one s) as [[|] s2|? ? ?| |] eqn:E; try discriminate.
    rewrite (hw_S _ _ _ E). destruct (IH s2 s1 H) as (k & s' & Hk & St & Hsp).
    destruct (N.le_gt_cases (hw n s2) (sp s)) as [Hle|Hgt].
    + exists 0%nat, s. split; [lia|]. split; [reflexivity|]. lia.
    + exists (S k), s'. split; [lia|]. split; [cbn [RunProofs.steps]; rewrite E; exact St|lia].
Qed.

Definition hwb (lo hi : N) (n : nat) (s : vm) : Prop := lo <= hw n s /\ hw n s <= hi.

Lemma hwb_zero lo hi s : lo <= sp s -> sp s <= hi -> hwb lo hi 0 s.
Proof. intros H1 H2. split; cbn [hw]; assumption. Qed.
Lemma hwb_one lo hi m m' : run_one m = ROk false m' ->
  lo <= N.max (sp m) (sp m') -> sp m <= hi -> sp m' <= hi -> hwb lo hi 1 m.
Proof. intros E H1 H2 H3. unfold hwb. rewrite (hw_S _ _ _ E). cbn [hw]. lia. Qed.
Lemma hwb_weak lo hi lo' hi' n s : hwb lo hi n s -> lo' <= lo -> hi <= hi' -> hwb lo' hi' n s.
Proof. intros [H1 H2] H3 H4. split; lia. Qed.
Lemma hwb_trans a b s s1 lo1 lo2 hi : steps a s = Some s1 ->
  hwb lo1 hi a s -> hwb lo2 hi b s1 -> hwb (N.max lo1 lo2) hi (a + b) s.
Proof. intros St [H1 H2] [H3 H4]. unfold hwb. rewrite (hw_add a b s s1 St). lia. Qed.
Lemma hwb_sp lo hi n s : hwb lo hi n s -> sp s <= hi.
Proof. intros [_ H]. pose proof (hw_ge_sp n s). lia. Qed.
End HighWater.

(* ============================================================ the reference semantics with depth *)
Section Sem3d.
Variable bsem : N -> list rval -> option rval.

(* [dref3 tail sc lv rho e r rho' dl dn dt]: the judgement ref_eval3 of Closures3.v for an
   expression in tail position (tail = true: the body of a lambda and, through `if`, its
   branches) or not, with
     dn : the stack grows by at most dn above the stack pointer at entry, NOT counting what the
          procedures called in tail position do;
     dt : the frames of the procedures called in TAIL position reach at most dt above the BASE of
          the current frame (a call in tail position contributes  n + 4 + dn(body)  and dt(body)
          — a maximum, nothing is added per call);
     dl : the stack certainly grows by dl above the stack pointer at entry.
   A call NOT in tail position contributes  n + 4 + dn(body)  and dt(body) above the stack
   pointer at which it is made: in both cases the base of the callee's frame is known, and the
   two rules coincide except for dl. *)
Inductive dref3 : bool -> list text -> list rval3 -> env3 -> expr3 -> rval3 -> env3 -> N -> N -> N -> Prop :=
| D3_const tl sc lv rho c : dref3 tl sc lv rho (YConst c) (R3Base (RDatum c)) rho 0 0 0
| D3_quote tl sc lv rho d : dref3 tl sc lv rho (YQuote d) (R3Base (RDatum d)) rho 0 0 0
| D3_local tl sc lv rho x i r : pindex x sc = Some i -> nth_error lv (N.to_nat i) = Some r ->
    dref3 tl sc lv rho (YVar x) r rho 0 0 0
| D3_global tl sc lv rho x r : pindex x sc = None -> rho x = Some r -> r <> R3Base (RDatum CUndef) ->
    dref3 tl sc lv rho (YVar x) r rho 0 0 0
| D3_if_t tl sc lv rho c a b rc rho1 r rho2 dlc dnc dtc dl dn dt :
    dref3 false sc lv rho c rc rho1 dlc dnc dtc -> is_false3 rc = false -> dref3 tl sc lv rho1 a r rho2 dl dn dt ->
    dref3 tl sc lv rho (YIf c a b) r rho2 (N.max dlc dl) (N.max (N.max dnc dtc) dn) dt
| D3_if_f tl sc lv rho c a b rc rho1 r rho2 dlc dnc dtc dl dn dt :
    dref3 false sc lv rho c rc rho1 dlc dnc dtc -> is_false3 rc = true -> dref3 tl sc lv rho1 b r rho2 dl dn dt ->
    dref3 tl sc lv rho (YIf c a b) r rho2 (N.max dlc dl) (N.max (N.max dnc dtc) dn) dt
| D3_if1_t tl sc lv rho c a rc rho1 r rho2 dlc dnc dtc dl dn dt :
    dref3 false sc lv rho c rc rho1 dlc dnc dtc -> is_false3 rc = false -> dref3 tl sc lv rho1 a r rho2 dl dn dt ->
    dref3 tl sc lv rho (YIf1 c a) r rho2 (N.max dlc dl) (N.max (N.max dnc dtc) dn) dt
| D3_if1_f tl sc lv rho c a rc rho1 dlc dnc dtc :
    dref3 false sc lv rho c rc rho1 dlc dnc dtc -> is_false3 rc = true ->
    dref3 tl sc lv rho (YIf1 c a) (R3Base (RDatum CVoid)) rho1 (N.max dlc 0) (N.max (N.max dnc dtc) 0) 0
| D3_define tl sc lv rho x e r rho1 dl dn dt :
    dref3 false sc lv rho e r rho1 dl dn dt ->
    dref3 tl sc lv rho (YDefine x e) (R3Base (RDatum CVoid)) (upd3 rho1 x r) dl (N.max dn dt) 0
| D3_set tl sc lv rho x e r rho1 old dl dn dt :
    dref3 false sc lv rho e r rho1 dl dn dt -> rho1 x = Some old ->
    dref3 tl sc lv rho (YSet x e) (R3Base (RDatum CVoid)) (upd3 rho1 x r) dl (N.max dn dt) 0
| D3_lam tl sc lv rho ps fs body cvals :
    Forall2 (fun x v => exists i, pindex x sc = Some i /\ nth_error lv (N.to_nat i) = Some v)
            (capnames sc fs) cvals ->
    dref3 tl sc lv rho (YLam ps fs body) (R3Clo ps (capnames sc fs) body cvals) rho 0 0 0
| D3_app_builtin tl sc lv rho f args rbs rho1 b rho2 r dla dna dlf dnf dtf :
    drefs3 sc lv rho args (map R3Base rbs) rho1 dla dna ->
    dref3 false sc lv rho1 f (R3Base (RBuiltin b)) rho2 dlf dnf dtf ->
    bsem b rbs = Some r ->
    dref3 tl sc lv rho (YApp f args) (R3Base r) rho2
          (N.max dla (len args + 1 + dlf)) (N.max dna (len args + 1 + N.max dnf dtf)) 0
| D3_app_closure tl sc lv rho f args rs rho1 ps cs body cvals rho2 r rho3 dla dna dlf dnf dtf dlb dnb dtb :
    drefs3 sc lv rho args rs rho1 dla dna ->
    dref3 false sc lv rho1 f (R3Clo ps cs body cvals) rho2 dlf dnf dtf ->
    length rs = length ps ->
    dref3 true (ps ++ cs) (rs ++ cvals) rho2 body r rho3 dlb dnb dtb ->
    dref3 tl sc lv rho (YApp f args) r rho3
          (N.max (N.max dla (len args + 1 + dlf)) (if tl then 0 else len args + 4 + dlb))
          (N.max dna (len args + 1 + N.max dnf dtf))
          (N.max (len args + 4 + dnb) dtb)
with drefs3 : list text -> list rval3 -> env3 -> list expr3 -> list rval3 -> env3 -> N -> N -> Prop :=
| D3_nil sc lv rho : drefs3 sc lv rho [] [] rho 0 0
| D3_cons sc lv rho x r rho1 xs rs rho2 dl dn dt dls dns :
    dref3 false sc lv rho x r rho1 dl dn dt -> drefs3 sc lv rho1 xs rs rho2 dls dns ->
    drefs3 sc lv rho (x :: xs) (r :: rs) rho2 (N.max dl (1 + dls)) (N.max (N.max dn dt) (1 + dns)).

Scheme dref3_min := Minimality for dref3 Sort Prop
  with drefs3_min := Minimality for drefs3 Sort Prop.

(* forgetting the measures gives the reference semantics back ... *)
Lemma dref3_ref : forall tl sc lv rho e r rho' dl dn dt,
  dref3 tl sc lv rho e r rho' dl dn dt -> ref_eval3 bsem sc lv rho e r rho'.
Proof.
  apply (dref3_min (fun tl sc lv rho e r rho' _ _ _ => ref_eval3 bsem sc lv rho e r rho')
                   (fun sc lv rho es rs rho' _ _ => ref_evals3 bsem sc lv rho es rs rho'));
    intros; eauto using ref_eval3, ref_evals3.
Qed.

(* ... and every reference derivation has measures, in tail position and not *)
Lemma ref_dref3 : forall sc lv rho e r rho', ref_eval3 bsem sc lv rho e r rho' ->
  forall tl, exists dl dn dt, dref3 tl sc lv rho e r rho' dl dn dt.
Proof.
  apply (ref_eval3_min bsem (fun sc lv rho e r rho' => forall tl, exists dl dn dt, dref3 tl sc lv rho e r rho' dl dn dt)
                            (fun sc lv rho es rs rho' => exists dl dn, drefs3 sc lv rho es rs rho' dl dn)).
  - intros; do 3 eexists; apply D3_const.
  - intros; do 3 eexists; apply D3_quote.
  - intros; do 3 eexists; eapply D3_local; eassumption.
  - intros; do 3 eexists; eapply D3_global; eassumption.
  - intros sc lv rho c a b rc rho1 r rho2 _ IHc Hrc _ IHa tl.
    destruct (IHc false) as (? & ? & ? & H1). destruct (IHa tl) as (? & ? & ? & H2).
    do 3 eexists. eapply D3_if_t; eassumption.
  - intros sc lv rho c a b rc rho1 r rho2 _ IHc Hrc _ IHa tl.
    destruct (IHc false) as (? & ? & ? & H1). destruct (IHa tl) as (? & ? & ? & H2).
    do 3 eexists. eapply D3_if_f; eassumption.
  - intros sc lv rho c a rc rho1 r rho2 _ IHc Hrc _ IHa tl.
    destruct (IHc false) as (? & ? & ? & H1). destruct (IHa tl) as (? & ? & ? & H2).
    do 3 eexists. eapply D3_if1_t; eassumption.
  - intros sc lv rho c a rc rho1 _ IHc Hrc tl.
    destruct (IHc false) as (? & ? & ? & H1). do 3 eexists. eapply D3_if1_f; eassumption.
  - intros sc lv rho x e r rho1 _ IH tl. destruct (IH false) as (? & ? & ? & H1).
    do 3 eexists. eapply D3_define; eassumption.
  - intros sc lv rho x e r rho1 old _ IH Hold tl. destruct (IH false) as (? & ? & ? & H1).
    do 3 eexists. eapply D3_set; eassumption.
  - intros; do 3 eexists; apply D3_lam; assumption.
  - intros sc lv rho f args rbs rho1 b rho2 r _ (? & ? & Ha) _ IHf Hsem tl.
    destruct (IHf false) as (? & ? & ? & H1). do 3 eexists. eapply D3_app_builtin; eassumption.
  - intros sc lv rho f args rs rho1 ps cs body cvals rho2 r rho3 _ (? & ? & Ha) _ IHf Hl _ IHb tl.
    destruct (IHf false) as (? & ? & ? & H1). destruct (IHb true) as (? & ? & ? & H2).
    do 3 eexists. eapply D3_app_closure; eassumption.
  - intros; do 2 eexists; apply D3_nil.
  - intros sc lv rho x r rho1 xs rs rho2 _ IHx _ (? & ? & Hs).
    destruct (IHx false) as (? & ? & ? & H1). do 2 eexists. eapply D3_cons; eassumption.
Qed.

Lemma drefs3_len sc lv rho args rs rho' dl dn : drefs3 sc lv rho args rs rho' dl dn -> length rs = length args.
Proof. induction 1; cbn [length]; congruence. Qed.
End Sem3d.

(* ============================================================ outcomes with high-water bounds *)
Section Exec3b.
Variable ob : N -> M vcell.
Notation steps := (RunProofs.steps ob).

(* ok_n3 / ok_t3 of Closures3.v + lo <= hw <= hi for the same run *)
Definition ok_n3b (m : vm) (lp q : N) (r : rval3) (rho' : env3) (lo hi : N) : Prop :=
  exists n m', steps n m = Some m' /\ hwb ob lo hi n m /\ frame2 m m' /\ minv m' /\ ip m' = (lp, q) /\
    vrep3 m' (acc m') r /\ genv_rel3 rho' m'.
Definition ok_t3b (m : vm) (r : rval3) (rho' : env3) (lo hi : N) : Prop :=
  exists n m' k e i b, steps n m = Some m' /\ hwb ob lo hi n m /\ frame_at m k e i b /\ rext m m' /\ minv m' /\
    vrep3 m' (acc m') r /\ genv_rel3 rho' m' /\
    sp m' = bp m - k /\ ep m' = e /\ ip m' = i /\ bp m' = b /\ out_log m' = out_log m /\
    (forall j, j <= bp m - k -> sget m' j = sget m j).

Lemma ok_n3b_ok m lp q r rho' lo hi : ok_n3b m lp q r rho' lo hi -> ok_n3 ob m lp q r rho'.
Proof. intros (n & m' & St & _ & H). exists n, m'. split; assumption. Qed.
Lemma ok_t3b_ok m r rho' lo hi : ok_t3b m r rho' lo hi -> ok_t3 ob m r rho'.
Proof. intros (n & m' & k & e & i & b & St & _ & H). exists n, m', k, e, i, b. split; assumption. Qed.

(* where the frames of tail-called procedures may reach: above the base of the current frame
   for tail code, above the stack pointer otherwise *)
Definition tbound (tail : bool) (m : vm) (dt hi : N) : Prop :=
  if tail then exists k e i b, frame_at m k e i b /\ bp m + 4 <= sp m /\ bp m - k + dt <= hi
  else sp m + dt <= hi.

Lemma tbound_tframe m dt hi : tbound true m dt hi -> tframe m.
Proof. intros (k & e & i & b & H1 & H2 & _). exists k, e, i, b. split; assumption. Qed.
Lemma tbound_frame2 tail m m' dt hi : frame2 m m' -> tbound tail m dt hi -> tbound tail m' dt hi.
Proof.
  intros [F _] H. destruct tail; cbn [tbound] in *.
  - destruct H as (k & e & i & b & Hf & Hsp & Hb). exists k, e, i, b.
    split; [eapply frame_at_keep; [exact Hf|exact Hsp|apply F|apply F]|].
    rewrite (fr_bp _ _ F), (fr_sp _ _ F). split; assumption.
  - rewrite (fr_sp _ _ F). exact H.
Qed.
Lemma tbound_weak tail m dt dt' hi : dt' <= dt -> tbound tail m dt hi -> tbound tail m dt' hi.
Proof.
  intros Hd H. destruct tail; cbn [tbound] in *; [|lia].
  destruct H as (k & e & i & b & Hf & Hsp & Hb). exists k, e, i, b. split; [exact Hf|]. split; [exact Hsp|lia].
Qed.

Lemma ok_t3b_pre m m1 n1 r rho' lo1 lo hi : steps n1 m = Some m1 -> hwb ob lo1 hi n1 m -> frame2 m m1 ->
  bp m + 4 <= sp m -> ok_t3b m1 r rho' lo hi -> ok_t3b m r rho' (N.max lo1 lo) hi.
Proof.
  intros St HW F Hsp (n & m' & k & e & i & b & St' & HW' & Hf & X & MI & V & G & E1 & E2 & E3 & E4 & E5 & K).
  pose proof (f2_frame _ _ F) as F0.
  assert (Hf0 : frame_at m k e i b).
  { destruct Hf as (H1 & H2 & H3 & H4 & H5). unfold frame_at.
    rewrite (fr_bp _ _ F0) in *. rewrite !(fr_stack _ _ F0) in * by lia. auto. }
  exists (n1 + n)%nat, m', k, e, i, b. split; [eapply steps_trans; eassumption|].
  split; [eapply hwb_trans; eassumption|]. split; [exact Hf0|].
  split; [eapply rext_trans; [apply frame2_rext; exact F|exact X]|]. split; [exact MI|]. split; [exact V|].
  split; [exact G|]. rewrite (fr_bp _ _ F0) in *. split; [exact E1|]. split; [exact E2|]. split; [exact E3|].
  split; [exact E4|]. split; [rewrite E5; apply F0|].
  intros j Hj. rewrite K by exact Hj. apply (fr_stack _ _ F0). destruct Hf0 as (_ & _ & _ & _ & H5). lia.
Qed.

(* the code [code] at p computes r with the stack between sp + dl and hi, for every hi above
   sp + dn and (base or sp) + dt *)
Definition exec3b (s0 : vm) (p : N) (code : list vcell) (tail : bool) (lv : list rval3)
                  (rho : env3) (r : rval3) (rho' : env3) (dl dn dt : N) : Prop :=
  forall m lp bc hi,
    cext s0 m -> minv m -> code_in m lp bc -> seg bc p code -> ip m = (lp, p) -> genv_rel3 rho m ->
    lrel3 lv m -> sp m + dn <= hi -> tbound tail m dt hi ->
    ok_n3b m lp (p + len code) r rho' (sp m + dl) hi \/ (tail = true /\ ok_t3b m r rho' (sp m + dl) hi).

Lemma exec3b_n s0 p code lv rho r rho' dl dn dt : exec3b s0 p code false lv rho r rho' dl dn dt ->
  forall m lp bc hi, cext s0 m -> minv m -> code_in m lp bc -> seg bc p code -> ip m = (lp, p) -> genv_rel3 rho m ->
    lrel3 lv m -> sp m + N.max dn dt <= hi -> ok_n3b m lp (p + len code) r rho' (sp m + dl) hi.
Proof.
  intros EX m lp bc hi X MI Hc Hs Hip G L Hhi.
  destruct (EX m lp bc hi X MI Hc Hs Hip G L ltac:(lia) ltac:(cbn [tbound]; lia)) as [H|[H _]]; [exact H|discriminate].
Qed.
Lemma exec3b_ext s s' p code tail lv rho r rho' dl dn dt : cext s' s ->
  exec3b s' p code tail lv rho r rho' dl dn dt -> exec3b s p code tail lv rho r rho' dl dn dt.
Proof. intros Xs EX m lp bc hi Xm. apply EX. eapply cext_trans; eassumption. Qed.
Lemma exec3b_exec3 s0 p code tail lv rho r rho' dl dn dt :
  exec3b s0 p code tail lv rho r rho' dl dn dt ->
  forall m lp bc hi, cext s0 m -> minv m -> code_in m lp bc -> seg bc p code -> ip m = (lp, p) -> genv_rel3 rho m ->
    lrel3 lv m -> sp m + dn <= hi -> tbound tail m dt hi ->
    ok_n3 ob m lp (p + len code) r rho' \/ (tail = true /\ ok_t3 ob m r rho').
Proof.
  intros EX m lp bc hi X MI Hc Hs Hip G L H1 H2.
  destruct (EX m lp bc hi X MI Hc Hs Hip G L H1 H2) as [H|[Et H]];
    [left; eapply ok_n3b_ok; exact H|right; split; [exact Et|eapply ok_t3b_ok; exact H]].
Qed.
End Exec3b.
