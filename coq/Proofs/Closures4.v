(* Closures4.v — C01: fragment 4 = the fragment with CLOSURES AS VALUES (Closures3.v) extended with
   lambda BODIES OF SEVERAL EXPRESSIONS: (lambda (x1 ... xn) e1 ... ek), k >= 1, no ei a define form;
   e1 .. e(k-1) are evaluated for effect in non-tail position, ek in tail position gives the value.
   This file is a port of Closures3.v (same structure, constants renamed from ...3 to ...4, Y.. to Z..).

   The header of Closures3.v:

     e ::= c | (quote d) | (if e e e) | (if e e) | x | (define x e) | (set! x e)     (x global in define/set!)
         | (lambda (x1 ... xn) body)        in ANY expression position; body: one expression of the fragment
                                            [FRAGMENT 4: body = e1 ... ek, k >= 1, no ei a define form]
         | (e0 e1 ... en)                   e0 evaluates to a builtin procedure or to a closure

   A variable is a parameter of an enclosing lambda (captured by the inner lambdas that mention
   it) or a global.  How marwood compiles this (compile.rs:424-460, environment.rs:94-125,
   run.rs:518-578): the environment map of a lambda is its own parameters followed by those FREE
   SYMBOLS of the lambda expression (the compiler's analysis, environment.rs:355-451) that the
   environment map of the enclosing lambda binds; CLOSURE builds a closure environment whose
   captured slots are POINTERS (environment address, slot) to the slot of the activation
   environment that owns the variable (an existing pointer is copied: at most one indirection);
   ENTER copies the arguments and those pointers into a new activation environment; a variable
   reference is MOV (lexical slot i) %acc, which follows at most one pointer.

   This file: the syntax [expr4], the values [rval4] (data, builtins, closures = parameters,
   captured names, body, captured values), the reference semantics [ref_eval4], the
   representation relation [vrep4] and its stability, the static context [hdr4].
   The compile-time theorem is in Proofs/CompileStatic3.v, the exec lemmas of the basic forms in
   Proofs/CompileCorrect3.v, the run-time theorem (by induction on the reference derivation),
   Vm::eval and the examples in Proofs/EvalFragment3.v.                                        *)
From Coq Require Import String Lia FMapPositive.
From MW Require Import Model.Base Model.F64 Model.Num Model.Datum Model.TransformDef Model.Transform
  Model.VmTypes Model.Heap Model.Gc Model.VmBase Model.Compile Model.Vm
  Proofs.VmProofs0 Proofs.GcProofs Proofs.SymtabProofs Proofs.QuoteHeapProofs
  Proofs.CompileProofs Proofs.RunProofs Proofs.CompileCorrect Proofs.TailProofs Proofs.FrameSteps
  Proofs.CellFuelProofs Proofs.CompileCorrect2.
From MW Require Proofs.ScopeProofs.
Open Scope N_scope.

Arguments N.add : simpl never.
Arguments N.sub : simpl never.
Arguments N.mul : simpl never.
Arguments N.eqb : simpl never.
Arguments N.ltb : simpl never.
Arguments N.leb : simpl never.

(* ============================================================ syntax *)
(* [ZLam ps fs bodies]: bodies = the body expressions e1 ... ek; fs is an ANNOTATION, the list of free symbols the compiler's analysis
   reports for the lambda expression ([wf4] demands exactly that); it does not occur in the datum *)
Inductive expr4 :=
| ZConst (c : cell)
| ZQuote (d : cell)
| ZIf (c a b : expr4)
| ZIf1 (c a : expr4)
| ZVar (x : text)
| ZDefine (x : text) (e : expr4)
| ZSet (x : text) (e : expr4)
| ZApp (f : expr4) (args : list expr4)
| ZLam (ps fs : list text) (bodies : list expr4).

(* the datum (lambda (ps...) b1 ... bk) *)
Definition lam_cells (ps : list text) (bodies : list cell) : cell :=
  CPair LAMBDA_ (CPair (syms_of ps) (fold_right CPair CNil bodies)).
Lemma lam_cells_one ps b : lam_cells ps [b] = lam_cell ps b.
Proof. reflexivity. Qed.

Fixpoint cell_of4 (e : expr4) : cell :=
  match e with
  | ZConst c => c
  | ZQuote d => quote_of d
  | ZIf c a b => CPair IF_ (CPair (cell_of4 c) (CPair (cell_of4 a) (CPair (cell_of4 b) CNil)))
  | ZIf1 c a => CPair IF_ (CPair (cell_of4 c) (CPair (cell_of4 a) CNil))
  | ZVar x => CSym x
  | ZDefine x e => CPair DEFINE_ (CPair (CSym x) (CPair (cell_of4 e) CNil))
  | ZSet x e => CPair SET_ (CPair (CSym x) (CPair (cell_of4 e) CNil))
  | ZApp f args => CPair (cell_of4 f) (fold_right CPair CNil (map cell_of4 args))
  | ZLam ps fs bodies => lam_cells ps (map cell_of4 bodies)
  end.
Definition cells_of4 (args : list expr4) : cell := fold_right CPair CNil (map cell_of4 args).

Definition is_define4 (e : expr4) : bool := match e with ZDefine _ _ => true | _ => false end.

Definition bound_in (sc : list text) (x : text) : bool :=
  match pindex x sc with Some _ => true | None => false end.
(* the captured variables of a lambda with free symbols fs inside the scope sc, in the order
   of the environment map *)
Definition capnames (sc fs : list text) : list text := filter (bound_in sc) fs.

(* every variable name mentioned in e (also under nested lambdas) *)
Fixpoint allvars4 (e : expr4) : list text :=
  match e with
  | ZConst _ | ZQuote _ => []
  | ZIf c a b => allvars4 c ++ allvars4 a ++ allvars4 b
  | ZIf1 c a => allvars4 c ++ allvars4 a
  | ZVar x => [x]
  | ZDefine x e | ZSet x e => x :: allvars4 e
  | ZApp f args => allvars4 f ++ flat_map allvars4 args
  | ZLam _ _ bodies => flat_map allvars4 bodies
  end.

(* [wf4 e sc]: e is well formed inside a lambda whose environment map binds the names sc.
   For a lambda: the annotation is the compiler's free-symbol list, and it COVERS every
   variable of the body that the scope binds (so that the restriction of the environment to
   the captured names agrees with ordinary lexical scoping). *)
Fixpoint wf4 (e : expr4) (sc : list text) {struct e} : Prop :=
  match e with
  | ZConst c => self_eval c = true /\ heap_datum c
  | ZQuote d => heap_datum d
  | ZIf c a b => wf4 c sc /\ wf4 a sc /\ wf4 b sc
  | ZIf1 c a => wf4 c sc /\ wf4 a sc
  | ZVar x => is_primitive_symbol (CSym x) = false
  | ZDefine x e | ZSet x e => is_primitive_symbol (CSym x) = false /\ pindex x sc = None /\ wf4 e sc
  | ZApp f args => special_head (cell_of4 f) = false /\ wf4 f sc /\
                   (fix all (l : list expr4) : Prop := match l with [] => True | x :: r => wf4 x sc /\ all r end) args
  | ZLam ps fs bodies =>
      bodies <> [] /\
      (forall x, In x ps -> is_primitive_symbol (CSym x) = false) /\
      (forall b, In b bodies -> is_define4 b = false) /\
      free_symbols (lam_cells ps (map cell_of4 bodies)) = Ok (map CSym fs) /\
      (forall x, In x (flat_map allvars4 bodies) -> In x ps \/ bound_in sc x = false \/ In x fs) /\
      (fix all (l : list expr4) : Prop :=
         match l with [] => True | x :: r => wf4 x (ps ++ capnames sc fs) /\ all r end) bodies
  end.

Lemma wf4_all sc args :
  (fix all (l : list expr4) : Prop := match l with [] => True | x :: r => wf4 x sc /\ all r end) args
  <-> Forall (fun x => wf4 x sc) args.
Proof.
  induction args as [|x r IH]; [split; constructor|]. split.
  - intros [A B]. constructor; [exact A|apply IH; exact B].
  - intros H. inversion H; subst. split; [assumption|apply IH; assumption].
Qed.
Lemma wf4_app sc f args : wf4 (ZApp f args) sc <->
  special_head (cell_of4 f) = false /\ wf4 f sc /\ Forall (fun x => wf4 x sc) args.
Proof. cbn [wf4]. rewrite wf4_all. reflexivity. Qed.
Lemma wf4_lam sc ps fs bodies : wf4 (ZLam ps fs bodies) sc <->
  bodies <> [] /\
  (forall x, In x ps -> is_primitive_symbol (CSym x) = false) /\
  (forall b, In b bodies -> is_define4 b = false) /\
  free_symbols (lam_cells ps (map cell_of4 bodies)) = Ok (map CSym fs) /\
  (forall x, In x (flat_map allvars4 bodies) -> In x ps \/ bound_in sc x = false \/ In x fs) /\
  Forall (fun b => wf4 b (ps ++ capnames sc fs)) bodies.
Proof. cbn [wf4]. rewrite wf4_all. reflexivity. Qed.

Section expr4_ind2.
Variable P : expr4 -> Prop.
Hypothesis Hconst : forall c, P (ZConst c).
Hypothesis Hquote : forall d, P (ZQuote d).
Hypothesis Hif : forall c a b, P c -> P a -> P b -> P (ZIf c a b).
Hypothesis Hif1 : forall c a, P c -> P a -> P (ZIf1 c a).
Hypothesis Hvar : forall x, P (ZVar x).
Hypothesis Hdef : forall x e, P e -> P (ZDefine x e).
Hypothesis Hset : forall x e, P e -> P (ZSet x e).
Hypothesis Happ : forall f args, P f -> Forall P args -> P (ZApp f args).
Hypothesis Hlam : forall ps fs bodies, Forall P bodies -> P (ZLam ps fs bodies).
Fixpoint expr4_ind2 (e : expr4) : P e :=
  match e with
  | ZConst c => Hconst c
  | ZQuote d => Hquote d
  | ZIf c a b => Hif c a b (expr4_ind2 c) (expr4_ind2 a) (expr4_ind2 b)
  | ZIf1 c a => Hif1 c a (expr4_ind2 c) (expr4_ind2 a)
  | ZVar x => Hvar x
  | ZDefine x e => Hdef x e (expr4_ind2 e)
  | ZSet x e => Hset x e (expr4_ind2 e)
  | ZApp f args => Happ f args (expr4_ind2 f)
      ((fix go (l : list expr4) : Forall P l :=
          match l with [] => Forall_nil P | x :: r => Forall_cons x (expr4_ind2 x) (go r) end) args)
  | ZLam ps fs bodies => Hlam ps fs bodies
      ((fix go (l : list expr4) : Forall P l :=
          match l with [] => Forall_nil P | x :: r => Forall_cons x (expr4_ind2 x) (go r) end) bodies)
  end.
End expr4_ind2.

(* ============================================================ values *)
(* a closure: parameters, captured names, body expressions, the values of the captured variables *)
Inductive rval4 :=
| R4Base (r : rval)
| R4Clo (ps cs : list text) (bodies : list expr4) (cvals : list rval4).

Section rval4_ind2.
Variable P : rval4 -> Prop.
Hypothesis Hbase : forall r, P (R4Base r).
Hypothesis Hclo : forall ps cs bodies cvals, Forall P cvals -> P (R4Clo ps cs bodies cvals).
Fixpoint rval4_ind2 (r : rval4) : P r :=
  match r with
  | R4Base b => Hbase b
  | R4Clo ps cs bodies cvals => Hclo ps cs bodies cvals
      ((fix go (l : list rval4) : Forall P l :=
          match l with [] => Forall_nil P | x :: t => Forall_cons x (rval4_ind2 x) (go t) end) cvals)
  end.
End rval4_ind2.

Definition rcell4 (r : rval4) : cell :=
  match r with R4Base b => rcell b | R4Clo ps _ _ _ => CProc None end.
Definition is_false4 (r : rval4) : bool := match r with R4Base b => is_false b | _ => false end.

Definition env4 := text -> option rval4.
Definition upd4 (rho : env4) (x : text) (r : rval4) : env4 :=
  fun y => if text_eqb y x then Some r else rho y.
Definition rho4_empty : env4 := fun _ => None.

(* ============================================================ reference semantics *)
Section Sem4.
Variable bsem : N -> list rval -> option rval.

(* [ref_eval4 sc lv rho e r rho']: inside a lambda whose environment binds the names sc to the
   values lv (top level: both empty), with the global environment rho, e has the value r and
   leaves the global environment rho'.  Call by value, operands left to right, then the operator,
   then the body expressions of the closure, in sequence (the value is that of the last one), with
   its parameters bound to the operands and its captured names
   to the captured values.  Local variables are immutable (set! acts on globals only), so a
   captured variable is represented by its value. *)
Inductive ref_eval4 : list text -> list rval4 -> env4 -> expr4 -> rval4 -> env4 -> Prop :=
| R4_const sc lv rho c : ref_eval4 sc lv rho (ZConst c) (R4Base (RDatum c)) rho
| R4_quote sc lv rho d : ref_eval4 sc lv rho (ZQuote d) (R4Base (RDatum d)) rho
| R4_local sc lv rho x i r : pindex x sc = Some i -> nth_error lv (N.to_nat i) = Some r ->
    ref_eval4 sc lv rho (ZVar x) r rho
| R4_global sc lv rho x r : pindex x sc = None -> rho x = Some r -> r <> R4Base (RDatum CUndef) ->
    ref_eval4 sc lv rho (ZVar x) r rho
| R4_if_t sc lv rho c a b rc rho1 r rho2 :
    ref_eval4 sc lv rho c rc rho1 -> is_false4 rc = false -> ref_eval4 sc lv rho1 a r rho2 ->
    ref_eval4 sc lv rho (ZIf c a b) r rho2
| R4_if_f sc lv rho c a b rc rho1 r rho2 :
    ref_eval4 sc lv rho c rc rho1 -> is_false4 rc = true -> ref_eval4 sc lv rho1 b r rho2 ->
    ref_eval4 sc lv rho (ZIf c a b) r rho2
| R4_if1_t sc lv rho c a rc rho1 r rho2 :
    ref_eval4 sc lv rho c rc rho1 -> is_false4 rc = false -> ref_eval4 sc lv rho1 a r rho2 ->
    ref_eval4 sc lv rho (ZIf1 c a) r rho2
| R4_if1_f sc lv rho c a rc rho1 :
    ref_eval4 sc lv rho c rc rho1 -> is_false4 rc = true ->
    ref_eval4 sc lv rho (ZIf1 c a) (R4Base (RDatum CVoid)) rho1
| R4_define sc lv rho x e r rho1 :
    ref_eval4 sc lv rho e r rho1 -> ref_eval4 sc lv rho (ZDefine x e) (R4Base (RDatum CVoid)) (upd4 rho1 x r)
| R4_set sc lv rho x e r rho1 old :
    ref_eval4 sc lv rho e r rho1 -> rho1 x = Some old ->
    ref_eval4 sc lv rho (ZSet x e) (R4Base (RDatum CVoid)) (upd4 rho1 x r)
| R4_lam sc lv rho ps fs bodies cvals :
    Forall2 (fun x v => exists i, pindex x sc = Some i /\ nth_error lv (N.to_nat i) = Some v)
            (capnames sc fs) cvals ->
    ref_eval4 sc lv rho (ZLam ps fs bodies) (R4Clo ps (capnames sc fs) bodies cvals) rho
| R4_app_builtin sc lv rho f args rbs rho1 b rho2 r :
    ref_evals4 sc lv rho args (map R4Base rbs) rho1 -> ref_eval4 sc lv rho1 f (R4Base (RBuiltin b)) rho2 ->
    bsem b rbs = Some r ->
    ref_eval4 sc lv rho (ZApp f args) (R4Base r) rho2
| R4_app_closure sc lv rho f args rs rho1 ps cs bodies cvals rho2 vs pre r rho3 :
    ref_evals4 sc lv rho args rs rho1 -> ref_eval4 sc lv rho1 f (R4Clo ps cs bodies cvals) rho2 ->
    length rs = length ps ->
    (* the body expressions in sequence (the same judgement as for operands: left to right, the
       global environment threaded); the value is that of the LAST one *)
    ref_evals4 (ps ++ cs) (rs ++ cvals) rho2 bodies vs rho3 -> vs = pre ++ [r] ->
    ref_eval4 sc lv rho (ZApp f args) r rho3
with ref_evals4 : list text -> list rval4 -> env4 -> list expr4 -> list rval4 -> env4 -> Prop :=
| R4_nil sc lv rho : ref_evals4 sc lv rho [] [] rho
| R4_cons sc lv rho x r rho1 xs rs rho2 :
    ref_eval4 sc lv rho x r rho1 -> ref_evals4 sc lv rho1 xs rs rho2 ->
    ref_evals4 sc lv rho (x :: xs) (r :: rs) rho2.

Scheme ref_eval4_mut := Induction for ref_eval4 Sort Prop
  with ref_evals4_mut := Induction for ref_evals4 Sort Prop.
Scheme ref_eval4_min := Minimality for ref_eval4 Sort Prop
  with ref_evals4_min := Minimality for ref_evals4 Sort Prop.
End Sem4.

(* ============================================================ static context *)
(* the lambda under construction: its environment map is its own parameters followed by
   captured entries; the names the map binds, in slot order, are sc *)
Definition hdr4 (l : lambda) (sc : list text) (s : vm) : Prop :=
  exists ps cs caps, sc = ps ++ cs /\ l_envmap l = ScopeProofs.enum_args (l_args l) 0 ++ caps /\
    Forall2 (pname s) (l_args l) ps /\ Forall2 (pname s) (map fst caps) cs.

Lemma hdr4_ext l sc s s' : cext s s' -> hdr4 l sc s -> hdr4 l sc s'.
Proof.
  intros X (ps & cs & caps & E & M & F1 & F2). exists ps, cs, caps.
  split; [exact E|]. split; [exact M|]. split; eapply pnames_ext; eassumption.
Qed.
Lemma hdr4_same l l' sc s : same_hdr l l' -> hdr4 l sc s -> hdr4 l' sc s.
Proof.
  intros (_ & _ & E & A & _) (ps & cs & caps & E1 & M & F1 & F2). exists ps, cs, caps.
  rewrite E, A. auto.
Qed.
Lemma top_hdr_hdr4 l s : top_hdr l -> hdr4 l [] s.
Proof.
  intros [E A]. exists [], [], []. rewrite E, A. split; [reflexivity|]. split; [reflexivity|]. split; constructor.
Qed.

Lemma Forall2_app_pname s a1 a2 p1 p2 : Forall2 (pname s) a1 p1 -> Forall2 (pname s) a2 p2 ->
  Forall2 (pname s) (a1 ++ a2) (p1 ++ p2).
Proof. intros H1 H2. induction H1; cbn [app]; [exact H2|constructor; assumption]. Qed.

Lemma hdr4_slot l sc s a x : hdr4 l sc s -> heap_inv (hp s) ->
  allocated (hp s) a -> cell_at (hp s) a = VSym x ->
  envmap_slot (l_envmap l) (VPtr a) = pindex x sc.
Proof.
  intros (ps & cs & caps & -> & M & F1 & F2) HI A C.
  rewrite ScopeProofs.envmap_slot_fidx, ScopeProofs.fidx_is_sym_fst, M, map_app, ScopeProofs.enum_args_fst.
  apply (fidx_names s _ _ a x HI (Forall2_app_pname _ _ _ _ _ F1 F2) A C).
Qed.

Lemma pindex_app_none x ps cs : pindex x (ps ++ cs) = None -> pindex x ps = None.
Proof.
  unfold pindex. rewrite ScopeProofs.fidx_app. destruct (ScopeProofs.fidx _ ps); [discriminate|reflexivity].
Qed.

Lemma location_local4 l sc s a x i : hdr4 l sc s -> heap_inv (hp s) ->
  allocated (hp s) a -> cell_at (hp s) a = VSym x -> pindex x sc = Some i ->
  location_operand l (VPtr a) s = ROk (VLexSlot i) s.
Proof.
  intros Hh HI A C Hi. unfold location_operand, binding_location.
  rewrite (hdr4_slot l sc s a x Hh HI A C), Hi. reflexivity.
Qed.
Lemma location_global4 l sc s a x : hdr4 l sc s -> heap_inv (hp s) ->
  allocated (hp s) a -> cell_at (hp s) a = VSym x -> pindex x sc = None ->
  location_operand l (VPtr a) s = (dom slot <- get_binding a; ret (VGSlot slot)) s.
Proof.
  intros Hh HI A C Hi. unfold location_operand, binding_location.
  rewrite (hdr4_slot l sc s a x Hh HI A C), Hi.
  destruct Hh as (ps & cs & caps & -> & M & F1 & F2).
  change (find_index (fun a0 => vptr_eqb a0 (VPtr a)) (l_args l) 0)
    with (ScopeProofs.fidx (ScopeProofs.sym_is (VPtr a)) (l_args l)).
  rewrite (fidx_names s _ ps a x HI F1 A C), (pindex_app_none _ _ _ Hi). reflexivity.
Qed.

(* ============================================================ representation of values *)
Section AllIdx.
Context {A : Type} (P : N -> A -> Prop).
Fixpoint all_idx (l : list A) (i : N) {struct l} : Prop :=
  match l with [] => True | x :: r => P i x /\ all_idx r (i + 1) end.
End AllIdx.
Lemma all_idx_nth {A} (P : N -> A -> Prop) l : forall i,
  all_idx P l i <-> forall k x, nth_error l k = Some x -> P (i + N.of_nat k) x.
Proof.
  induction l as [|y l IH]; intros i; cbn [all_idx].
  - split; [intros _ k x H; destruct k; discriminate|auto].
  - rewrite IH. split.
    + intros [H0 Hr] k x Hk. destruct k as [|k]; cbn [nth_error] in Hk.
      * injection Hk as <-. replace (i + N.of_nat 0) with i by lia. exact H0.
      * replace (i + N.of_nat (S k)) with (i + 1 + N.of_nat k) by lia. apply Hr. exact Hk.
    + intros H. split.
      * replace i with (i + N.of_nat 0) by lia. apply H. reflexivity.
      * intros k x Hk. replace (i + 1 + N.of_nat k) with (i + N.of_nat (S k)) by lia. apply H. exact Hk.
Qed.

(* a slot value that is a pointer to a direct slot (heap address of the environment, index)
   whose content satisfies P *)
Definition ptr_slot (m : vm) (v : vcell) (P : vcell -> Prop) : Prop :=
  exists a j eid sl w, v = VLexPtr a j /\ allocated (hp m) a /\ cell_at (hp m) a = VLexEnv eid /\
    eid < next_id (st m) /\ tget (envs (st m)) eid = Some sl /\ list_get sl j = Some w /\
    (forall e i, w <> VLexPtr e i) /\ P w.

(* the code object of a closure: a lambda with parameters ps and captured entries for cs whose
   bytecode is ENTER; cb; RET where cb is what the body loop emitted for the body expressions (the
   last one in tail position), under a header binding ps ++ cs, in some earlier state s0' that m
   extends *)
(* the body loop of compile_lambda (Model/Compile.v, [body_loop]): every body expression is
   compiled in turn into the same lambda, the LAST one (and only it) in tail position *)
Section BodyLoop.
Variable ce : lambda -> bool -> cell -> M lambda.
Fixpoint body_loop4 (b : cell) (lam : lambda) {struct b} : M lambda :=
  match b with
  | CPair x r => dom lam' <- ce lam (is_nil r) x; body_loop4 r lam'
  | _ => ret lam
  end.
End BodyLoop.
Fixpoint compile_bodies (f : nat) (lam : lambda) (bodies : list cell) {struct bodies} : M lambda :=
  match bodies with
  | [] => ret lam
  | x :: r => dom lam' <- compile_expression f lam (match r with [] => true | _ => false end) x;
              compile_bodies f lam' r
  end.
Lemma compile_bodies_eq f bodies : forall lam s,
  body_loop4 (compile_expression f) (fold_right CPair CNil bodies) lam s = compile_bodies f lam bodies s.
Proof.
  induction bodies as [|x r IH]; intros lam s; [reflexivity|].
  cbn [fold_right body_loop4 compile_bodies].
  replace (is_nil (fold_right CPair CNil r)) with (match r with [] => true | _ => false end) by (destruct r; reflexivity).
  unfold bindM. destruct (compile_expression f lam _ x s) as [lam' s'| | |]; try reflexivity. apply IH.
Qed.
(* compile_lambda on (lambda (ps...) b1 ... bk): what the model does, with the body loop named *)
Lemma compile_lambda4_eq f l tail ps bs s :
  compile_expression (S f) l tail (lam_cells ps bs) s =
  (dom (formals, vararg) <- (if is_nil (syms_of ps) then ret ([], false) else compile_formals (syms_of ps) []);
   dom free <- lift (free_symbols (lam_cells ps bs));
   dom free_refs <- put_cells free;
   dom internal <- lift (internally_defined_symbols (fold_right CPair CNil bs));
   dom internal_refs <- put_cells internal;
   let lam0 := set_desc (lambda_from_iof formals internal_refs l free_refs vararg) (syms_of ps) in
   let lam1 := if vararg then emit_op lam0 OVarArg else lam0 in
   let lam2 := emit_op lam1 OEnter in
   if is_nil (fold_right CPair CNil bs) then fail E_OTHER else
   dom lam3 <- body_loop4 (compile_expression f) (fold_right CPair CNil bs) lam2;
   dom lp <- put_lambda (emit_op lam3 ORet);
   ret (emit_op (emit (emit (emit_op l OMovImmediate) lp) VAcc) OClosureAcc)) s.
Proof. reflexivity. Qed.

Definition closure_code (m : vm) (lamp : N) (ps cs : list text) (bodies : list expr4) : Prop :=
  exists lam caps cb f lam2 s0 lam3 s0',
    lam_in m lamp lam /\ l_envmap lam = ScopeProofs.enum_args (l_args lam) 0 ++ caps /\
    Forall2 (pname m) (l_args lam) ps /\
    Forall (fun e => exists k, snd e = BIofEnvironment k) caps /\ length caps = length cs /\
    l_bc lam = [VOp OEnter] ++ cb ++ [VOp ORet] /\
    bodies <> [] /\ (cell_size (cells_of4 bodies) < f)%nat /\ Forall (fun b => wf4 b (ps ++ cs)) bodies /\
    hdr4 lam2 (ps ++ cs) s0 /\ minv s0 /\
    compile_bodies f lam2 (map cell_of4 bodies) s0 = ROk lam3 s0' /\
    fwd lam2 = [VOp OEnter] /\ fwd lam3 = fwd lam2 ++ cb /\ cext s0' m.

Fixpoint vrep4 (m : vm) (v : vcell) (r : rval4) {struct r} : Prop :=
  match r with
  | R4Base b => vrep v b (hp m) (st m)
  | R4Clo ps cs bodies cvals =>
      exists cp lamp cep ceid cslots, v = VPtr cp /\
        allocated (hp m) cp /\ cell_at (hp m) cp = VClosure lamp cep /\
        allocated (hp m) cep /\ cell_at (hp m) cep = VLexEnv ceid /\ ceid < next_id (st m) /\
        tget (envs (st m)) ceid = Some cslots /\ len cslots = len ps + len cs /\
        length cvals = length cs /\ closure_code m lamp ps cs bodies /\
        all_idx (fun i cv => exists v', list_get cslots i = Some v' /\ ptr_slot m v' (fun w => vrep4 m w cv))
                cvals (len ps)
  end.

Lemma closure_code_ext m m' lamp ps cs bodies : cext m m' -> closure_code m lamp ps cs bodies ->
  closure_code m' lamp ps cs bodies.
Proof.
  intros X (lam & caps & cb & f & lam2 & s0 & lam3 & s0' & H1 & H2 & H3 & H4 & H5 & H6 & H7 & H8 & H9 & H10 & H11 & H12 & H13 & H14 & H15).
  exists lam, caps, cb, f, lam2, s0, lam3, s0'.
  split; [eapply lam_in_ext; eassumption|]. split; [exact H2|]. split; [eapply pnames_ext; eassumption|].
  do 11 (split; [assumption|]). eapply cext_trans; eassumption.
Qed.

Lemma ptr_slot_ext m m' v (P Q : vcell -> Prop) : rext m m' -> (forall w, P w -> Q w) ->
  ptr_slot m v P -> ptr_slot m' v Q.
Proof.
  intros [X E] HPQ (a & j & eid & sl & w & -> & A & C & Lt & T & G & Hw & Pw).
  destruct (ce_heap _ _ X a A) as [A' C'].
  exists a, j, eid, sl, w. split; [reflexivity|]. split; [exact A'|]. split; [congruence|].
  split; [destruct (ce_store _ _ X); lia|]. split; [rewrite E; assumption|]. split; [exact G|]. split; [exact Hw|auto].
Qed.

Lemma vrep4_ext m m' : rext m m' -> forall r v, vrep4 m v r -> vrep4 m' v r.
Proof.
  intros R. induction r as [b|ps cs bodies cvals IH] using rval4_ind2; intros v H.
  - cbn [vrep4] in *. eapply vrep_ext; [exact H|apply cext_ext, R].
  - cbn [vrep4] in *.
    destruct H as (cp & lamp & cep & ceid & cslots & -> & A1 & C1 & A2 & C2 & Lt & T & L & Lc & CC & All).
    pose proof (rx_cext _ _ R) as X.
    destruct (ce_heap _ _ X cp A1) as [A1' C1']. destruct (ce_heap _ _ X cep A2) as [A2' C2'].
    exists cp, lamp, cep, ceid, cslots. split; [reflexivity|]. split; [exact A1'|]. split; [congruence|].
    split; [exact A2'|]. split; [congruence|]. split; [destruct (ce_store _ _ X); lia|].
    split; [rewrite (rx_envs _ _ R) by exact Lt; exact T|]. split; [exact L|]. split; [exact Lc|].
    split; [eapply closure_code_ext; eassumption|].
    rewrite all_idx_nth in *. intros k cv Hk. destruct (All k cv Hk) as (v' & G & PS).
    exists v'. split; [exact G|]. eapply ptr_slot_ext; [exact R| |exact PS].
    intros w Hw. rewrite Forall_forall in IH. apply IH; [eapply nth_error_In; exact Hk|exact Hw].
Qed.

Lemma vrep4_truth m v r : vrep4 m v r ->
  exists w, heap_deref (hp m) v = Ok w /\ (w = VBool false <-> is_false4 r = true).
Proof.
  destruct r as [b|ps cs bodies cvals]; cbn [vrep4 is_false4].
  - apply vrep_truth.
  - intros (cp & lamp & cep & ceid & cslots & -> & A1 & C1 & _).
    exists (VClosure lamp cep). cbn [heap_deref]. rewrite (heap_get_alloc _ _ A1), C1.
    split; [reflexivity|]. split; discriminate.
Qed.
Lemma vrep4_not_op m v r : vrep4 m v r -> forall o, v <> VOp o.
Proof.
  destruct r as [b|ps cs bodies cvals]; cbn [vrep4].
  - apply vrep_not_op.
  - intros (cp & lamp & cep & ceid & cslots & -> & _) o. discriminate.
Qed.
Lemma vrep4_not_undef m v r : vrep4 m v r -> r <> R4Base (RDatum CUndef) -> v <> VUndef.
Proof.
  destruct r as [b|ps cs bodies cvals]; cbn [vrep4].
  - intros H Hr. eapply vrep_not_undef; [exact H|]. intros ->. apply Hr. reflexivity.
  - intros (cp & lamp & cep & ceid & cslots & -> & _) _. discriminate.
Qed.
Lemma vrep4_not_lexptr m v r : vrep4 m v r -> forall e j, v <> VLexPtr e j.
Proof.
  destruct r as [b|ps cs bodies cvals]; cbn [vrep4].
  - apply vrep_not_lexptr.
  - intros (cp & lamp & cep & ceid & cslots & -> & _) e j. discriminate.
Qed.

(* ============================================================ dynamic context *)
Definition genv_rel4 (rho : env4) (m : vm) : Prop :=
  forall x r, rho x = Some r -> exists a k v,
    allocated (hp m) a /\ cell_at (hp m) a = VSym x /\ assoc_find (g_bind m) a = Some k /\
    list_get (g_slots m) k = Some v /\ vrep4 m v r.

Lemma genv_rel4_ext rho m m' : rext m m' -> g_slots m' = g_slots m -> genv_rel4 rho m -> genv_rel4 rho m'.
Proof.
  intros R Eg G x r Hx. destruct (G x r Hx) as (a & k & v & A & C & B & L & V).
  pose proof (rx_cext _ _ R) as X. destruct (ce_heap _ _ X a A) as [A' C'].
  exists a, k, v. split; [exact A'|]. split; [congruence|]. split; [apply (ce_bind _ _ X); exact B|].
  split; [rewrite Eg; exact L|]. eapply vrep4_ext; eassumption.
Qed.
Lemma genv_rel4_empty m : genv_rel4 rho4_empty m.
Proof. intros x r H. discriminate. Qed.

(* the environment %ep points to: slot i holds the i-th value directly, or a pointer to a
   direct slot that holds it *)
Definition slot_holds (m : vm) (v : vcell) (r : rval4) : Prop :=
  ((forall e j, v <> VLexPtr e j) /\ vrep4 m v r) \/ ptr_slot m v (fun w => vrep4 m w r).
Definition lrel4 (lv : list rval4) (m : vm) : Prop :=
  forall i r, nth_error lv (N.to_nat i) = Some r ->
  exists eid slots v, allocated (hp m) (ep m) /\ cell_at (hp m) (ep m) = VLexEnv eid /\
    eid < next_id (st m) /\ tget (envs (st m)) eid = Some slots /\ list_get slots i = Some v /\
    slot_holds m v r.
Lemma lrel4_nil m : lrel4 [] m.
Proof. intros i r H. destruct (N.to_nat i); discriminate. Qed.
Lemma slot_holds_ext m m' v r : rext m m' -> slot_holds m v r -> slot_holds m' v r.
Proof.
  intros R [[Hn V]|PS]; [left; split; [exact Hn|eapply vrep4_ext; eassumption]|right].
  eapply ptr_slot_ext; [exact R| |exact PS]. intros w. apply vrep4_ext. exact R.
Qed.
Lemma lrel4_rext lv m m' : rext m m' -> ep m' = ep m -> lrel4 lv m -> lrel4 lv m'.
Proof.
  intros R Hep L i r Hi. destruct (L i r Hi) as (eid & slots & v & A & C & Lt & T & G & V).
  pose proof (rx_cext _ _ R) as X.
  destruct (ce_heap _ _ X _ A) as [A' C']. exists eid, slots, v. rewrite Hep.
  split; [exact A'|]. split; [congruence|]. split; [destruct (ce_store _ _ X); lia|].
  split; [rewrite (rx_envs _ _ R); assumption|]. split; [exact G|]. eapply slot_holds_ext; eassumption.
Qed.
Lemma lrel4_frame2 lv m m' : frame2 m m' -> lrel4 lv m -> lrel4 lv m'.
Proof. intros F. apply lrel4_rext; [apply frame2_rext; exact F|apply F]. Qed.

Section Exec4.
Variable ob : N -> M vcell.
Notation steps := (RunProofs.steps ob).

Definition ok_n4 (m : vm) (lp q : N) (r : rval4) (rho' : env4) : Prop :=
  exists n m', steps n m = Some m' /\ frame2 m m' /\ minv m' /\ ip m' = (lp, q) /\
    vrep4 m' (acc m') r /\ genv_rel4 rho' m'.
Definition ok_t4 (m : vm) (r : rval4) (rho' : env4) : Prop :=
  exists n m' k e i b, steps n m = Some m' /\ frame_at m k e i b /\ rext m m' /\ minv m' /\
    vrep4 m' (acc m') r /\ genv_rel4 rho' m' /\
    sp m' = bp m - k /\ ep m' = e /\ ip m' = i /\ bp m' = b /\ out_log m' = out_log m /\
    (forall j, j <= bp m - k -> sget m' j = sget m j).

Lemma ok_t4_pre m m1 n1 r rho' : steps n1 m = Some m1 -> frame2 m m1 -> bp m + 4 <= sp m ->
  ok_t4 m1 r rho' -> ok_t4 m r rho'.
Proof.
  intros St F Hsp (n & m' & k & e & i & b & St' & Hf & X & MI & V & G & E1 & E2 & E3 & E4 & E5 & K).
  pose proof (f2_frame _ _ F) as F0.
  assert (Hf0 : frame_at m k e i b).
  { destruct Hf as (H1 & H2 & H3 & H4 & H5). unfold frame_at.
    rewrite (fr_bp _ _ F0) in *. rewrite !(fr_stack _ _ F0) in * by lia. auto. }
  exists (n1 + n)%nat, m', k, e, i, b. split; [eapply steps_trans; eassumption|]. split; [exact Hf0|].
  split; [eapply rext_trans; [apply frame2_rext; exact F|exact X]|]. split; [exact MI|]. split; [exact V|].
  split; [exact G|]. rewrite (fr_bp _ _ F0) in *. split; [exact E1|]. split; [exact E2|]. split; [exact E3|].
  split; [exact E4|]. split; [rewrite E5; apply F0|].
  intros j Hj. rewrite K by exact Hj. apply (fr_stack _ _ F0). destruct Hf0 as (_ & _ & _ & _ & H5). lia.
Qed.

Definition exec4 (s0 : vm) (p : N) (code : list vcell) (tail : bool) (lv : list rval4)
                 (rho : env4) (r : rval4) (rho' : env4) : Prop :=
  forall m lp bc,
    cext s0 m -> minv m -> code_in m lp bc -> seg bc p code -> ip m = (lp, p) -> genv_rel4 rho m ->
    lrel4 lv m -> (tail = true -> tframe m) ->
    ok_n4 m lp (p + len code) r rho' \/ (tail = true /\ ok_t4 m r rho').

Lemma exec4_n s0 p code lv rho r rho' : exec4 s0 p code false lv rho r rho' ->
  forall m lp bc, cext s0 m -> minv m -> code_in m lp bc -> seg bc p code -> ip m = (lp, p) -> genv_rel4 rho m ->
    lrel4 lv m -> ok_n4 m lp (p + len code) r rho'.
Proof.
  intros EX m lp bc X MI Hc Hs Hip G L.
  destruct (EX m lp bc X MI Hc Hs Hip G L ltac:(discriminate)) as [H|[H _]]; [exact H|discriminate].
Qed.
Lemma exec4_ext s s' p code tail lv rho r rho' : cext s' s ->
  exec4 s' p code tail lv rho r rho' -> exec4 s p code tail lv rho r rho'.
Proof. intros Xs EX m lp bc Xm. apply EX. eapply cext_trans; eassumption. Qed.
End Exec4.

(* compilation: what the compile-time theorem provides *)
Definition compile_static4 (sc : list text) (e : expr4) : Prop :=
  forall f l tail s, (cell_size (cell_of4 e) < f)%nat -> hdr4 l sc s -> minv s ->
  exists l' s' code, compile_expression f l tail (cell_of4 e) s = ROk l' s' /\
    fwd l' = fwd l ++ code /\ same_hdr l l' /\ minv s' /\ cext s s' /\ same_regs s s' /\
    envs (st s') = envs (st s).
