(* PreludeMemProofs.v — the hand model of prelude.scm's memq memv member assq assv assoc
   (Model/PreludeLists.v: mem_go / ass_go) against the abstract list view of
   Model/ListVecSpec.v (work package c19b).

   One generic lemma per family, over ANY comparison builtin [cmp] that decides a predicate P
   on the element it is called with and leaves heap and tables alone; then the instances
   member / assoc ([equal_b], P = R7RS equal? = [aequal]) and memq memv / assq assv
   ([eq_b] = [eqv_b], P = "the machine's eqv? answers #t"). *)
From Coq Require Import Lia FMapPositive.
From MW Require Import Model.Base Model.F64 Model.Num Model.Datum Model.TransformDef
  Model.VmTypes Model.Heap Model.VmBase Model.ListVec Model.PreludeLists Model.ListVecSpec
  Proofs.ListVecProofs.
Open Scope N_scope.

(* ============================================================ aequal, adatum *)
Lemma num_eqv_sym a b : num_eqv a b = num_eqv b a.
Proof. destruct a, b; cbn [num_eqv num_exact_eqb]; try reflexivity; apply Z.eqb_sym. Qed.

Lemma imm_eqv_sym v w : imm_eqv v w = true -> imm_eqv w v = true.
Proof.
  destruct v, w; cbn [imm_eqv]; try discriminate; intros H.
  - destruct b, b0; auto.
  - rewrite N.eqb_sym. exact H.
  - reflexivity.
  - rewrite num_eqv_sym. exact H.
  - apply text_eqb_true in H. apply text_eqb_true. auto.
Qed.

Lemma aequal_sym s : forall x y, aequal s x y -> aequal s y x.
Proof.
  fix IH 3. intros x y H.
  destruct H as [v w Hvw | l | p q x d y e Hp Hq Hx Hd | u v xs ys Hu Hv HF | u v tx Hu Hv].
  - constructor. now apply imm_eqv_sym.
  - constructor.
  - eapply aeq_pair; [exact Hq | exact Hp | apply IH; exact Hx | apply IH; exact Hd].
  - eapply aeq_vec; [exact Hv | exact Hu |].
    clear Hu Hv. revert xs ys HF. fix go 3. intros xs ys F. destruct F as [|a b ar br Hab Hr]; constructor.
    + apply IH. exact Hab.
    + apply go. exact Hr.
  - eapply aeq_str; eauto.
Qed.

Lemma adatum_mono s : forall x n, adatum s x n -> forall m, (n <= m)%nat -> adatum s x m.
Proof.
  fix IH 3. intros x n H m Hm.
  destruct H as [v n Hk | u tx n Ht | p x d n Hp Hx Hd | u xs n Hu Hxs].
  - now constructor.
  - eapply ad_str. exact Ht.
  - destruct m as [|m]; [lia|].
    eapply ad_pair; [exact Hp | apply (IH _ _ Hx); lia | apply (IH _ _ Hd); lia].
  - destruct m as [|m]; [lia|].
    eapply ad_vec; [exact Hu|].
    clear Hu. revert xs Hxs. fix go 2. intros xs F. destruct F as [|y ys Hy Hys]; constructor.
    + apply (IH _ _ Hy). lia.
    + apply go. exact Hys.
Qed.

Lemma sym_interned_hp s t : hp t = hp s -> sym_interned s -> sym_interned t.
Proof. intros E H. unfold sym_interned. rewrite E. exact H. Qed.

(* ======================================================== calling a decision builtin *)
Lemma called_with_lt s args : called_with s args -> sp s < scap s.
Proof. unfold called_with. cbn [stack_top]. intros (_ & H & _). exact H. Qed.

Lemma callb_bool (b : M vcell) args s (Q : bool -> Prop) :
  sp s < scap s ->
  (forall s1, called_with s1 args -> hp s1 = hp s -> st s1 = st s ->
     exists res s2, b s1 = ROk (VBool res) s2 /\ hp s2 = hp s1 /\ st s2 = st s1 /\
                    scap s2 = scap s1 /\ sp s2 <= sp s1 /\ Q res) ->
  exists res s', callb b args s = ROk (VBool res) s' /\ hp s' = hp s /\ st s' = st s /\
                 sp s' < scap s' /\ Q res.
Proof.
  intros Hinv Hb.
  destruct (apply_builtin_called b args s Hinv) as (s1 & E & Hc & E1 & E2).
  destruct (Hb s1 Hc E1 E2) as (res & s2 & Eb & Eh & Es & Ecap & Esp & HQ).
  pose proof (called_with_lt _ _ Hc) as Hlt.
  exists res, (with_heap s2 (hp s2)).
  split.
  { unfold callb. rewrite E. unfold call_builtin. rewrite (bind_ok _ _ _ _ _ Eb). reflexivity. }
  cbn [with_heap hp st sp scap].
  split; [congruence|]. split; [congruence|]. split; [lia|exact HQ].
Qed.

(* (equal? a b) as a builtin, with the registers: pops three slots, nothing else *)
Lemma equal_b_run fuel s a b n :
  values_are_refs s -> sym_interned s -> val_ok s a -> val_ok s b ->
  adatum s (absv s a) n -> adatum s (absv s b) n -> (2 * n + 2 < fuel)%nat ->
  called_with s [a; b] ->
  exists res s', equal_b fuel s = ROk (VBool res) s' /\ hp s' = hp s /\ st s' = st s /\
    scap s' = scap s /\ sp s' <= sp s /\ (res = true <-> aequal s (absv s b) (absv s a)).
Proof.
  intros W Hint Ha Hb Da Db Hf H. unfold called_with in H. cbn [len length rev app N.of_nat Pos.of_succ_nat] in H.
  set (s1 := with_sp s (sp s - 1)).
  set (s2 := with_sp s1 (sp s1 - 1)).
  set (s3 := with_sp s2 (sp s2 - 1)).
  pose proof (stack_top_tail _ _ _ _ _ H) as H1.
  pose proof (stack_top_tail _ _ _ _ _ H1) as H2.
  assert (Hint3 : sym_interned s3) by exact Hint.
  destruct (equal_spec s3 b a n fuel W Hint3 Hb Ha
              (adatum_transfer s s3 eq_refl eq_refl _ _ Db) (adatum_transfer s s3 eq_refl eq_refl _ _ Da) Hf)
    as (res & E & Hres).
  exists res, s3. refine (conj _ (conj eq_refl (conj eq_refl (conj eq_refl (conj _ _))))).
  - unfold equal_b. pop_argc_tac H s 2 2 (Some 2). fold s1.
    rewrite (bind_ok _ _ _ _ _ (pop_raw_top s1 b _ H1)). fold s2.
    rewrite (bind_ok _ _ _ _ _ (pop_raw_top s2 a _ H2)). fold s3.
    rewrite (bind_ok _ _ _ _ _ E). reflexivity.
  - unfold s3, s2, s1. cbn [sp with_sp with_stack]. lia.
  - rewrite Hres. split; apply aequal_transfer; reflexivity.
Qed.

(* eqv? reads the heap and the string table only *)
Lemma eqv_transfer s t l r e :
  hp t = hp s -> st t = st s -> eqv l r s = ROk e s -> eqv l r t = ROk e t.
Proof.
  intros E1 E2. unfold eqv.
  destruct (match l, r with VPtr a, VPtr b => a =? b | _, _ => false end).
  - unfold ret. intros [= <-]. reflexivity.
  - unfold bindM. rewrite (hderef_eq l s), (hderef_eq l t), E1. unfold lift.
    destruct (heap_deref (hp s) l) as [l'| | |]; try discriminate.
    cbv beta iota. rewrite (hderef_eq r s), (hderef_eq r t), E1. unfold lift.
    destruct (heap_deref (hp s) r) as [r'| | |]; try discriminate.
    cbv beta iota.
    destruct l'; try (destruct r'; unfold ret; intros [= <-]; reflexivity).
    destruct r'; try (unfold ret; intros [= <-]; reflexivity).
    cbv beta iota. unfold str_get. rewrite E2.
    destruct (tget (strs (st s)) sid); try discriminate.
    cbv beta iota. unfold str_get. rewrite E2.
    destruct (tget (strs (st s)) sid0); try discriminate.
    unfold ret. intros [= <-]. reflexivity.
Qed.

(* "the machine's eqv? answers #t on (x, y)" — eq?, eqv?, memq, memv, assq, assv all use it *)
Definition eqv_true (s : vm) (x y : vcell) : Prop := eqv x y s = ROk true s.

Lemma eq_b_run s a b n :
  values_are_refs s -> sym_interned s -> val_ok s a -> val_ok s b ->
  adatum s (absv s a) n -> adatum s (absv s b) n ->
  called_with s [a; b] ->
  exists res s', eq_b s = ROk (VBool res) s' /\ hp s' = hp s /\ st s' = st s /\
    scap s' = scap s /\ sp s' <= sp s /\ (res = true <-> eqv_true s b a).
Proof.
  intros W Hint Ha Hb Da Db H. unfold called_with in H. cbn [len length rev app N.of_nat Pos.of_succ_nat] in H.
  set (s1 := with_sp s (sp s - 1)).
  set (s2 := with_sp s1 (sp s1 - 1)).
  set (s3 := with_sp s2 (sp s2 - 1)).
  pose proof (stack_top_tail _ _ _ _ _ H) as H1.
  pose proof (stack_top_tail _ _ _ _ _ H1) as H2.
  destruct (datum_view s n b W Hb Db) as (cb & _ & Vb).
  destruct (datum_view s n a W Ha Da) as (ca & _ & Va).
  destruct (eqv_datum s n b a cb ca W Hint Hb Ha Db Da Vb Va) as (res & E & _).
  exists res, s3. refine (conj _ (conj eq_refl (conj eq_refl (conj eq_refl (conj _ _))))).
  - unfold eq_b. pop_argc_tac H s 2 2 (Some 2). fold s1.
    rewrite (bind_ok _ _ _ _ _ (pop_raw_top s1 b _ H1)). fold s2.
    rewrite (bind_ok _ _ _ _ _ (pop_raw_top s2 a _ H2)). fold s3.
    rewrite (bind_ok _ _ _ _ _ (eqv_transfer s s3 b a res eq_refl eq_refl E)). reflexivity.
  - unfold s3, s2, s1. cbn [sp with_sp with_stack]. lia.
  - unfold eqv_true. rewrite E. split; [intros ->; reflexivity | intros [= ->]; reflexivity].
Qed.

(* ===================================================================== generic *)
Section Generic.
Variable fuel : nat.
Variable s0 : vm.
Variable cmp : M vcell.
Variable obj : vcell.
Variable ok : vcell -> Prop.       (* the elements the comparison is specified on *)
Variable P : vcell -> Prop.        (* what it decides about an element *)
Hypothesis Hcmp : forall s a, ok a -> hp s = hp s0 -> st s = st s0 -> sp s < scap s ->
  exists b s', callb cmp [a; obj] s = ROk (VBool b) s' /\ hp s' = hp s /\ st s' = st s /\
               sp s' < scap s' /\ (b = true <-> P a).

(* ---- memq / memv / member: the first pair of the chain whose car satisfies P *)
Definition first_hit (cells : list (N * N)) (i : nat) : Prop :=
  (exists ad, nth_error cells i = Some ad /\ P (VPtr (fst ad))) /\
  (forall j ad, (j < i)%nat -> nth_error cells j = Some ad -> ~ P (VPtr (fst ad))).
Definition no_hit (cells : list (N * N)) : Prop := forall ad, In ad cells -> ~ P (VPtr (fst ad)).

Lemma mem_go_spec l cells e :
  pchain (hp s0) l cells e ->
  forall s f ce, hp s = hp s0 -> st s = st s0 -> sp s < scap s -> (length cells + 1 <= f)%nat ->
    Forall (fun ad => ok (VPtr (fst ad))) cells ->
    heap_deref (hp s0) e = Ok ce ->
    (exists i, first_hit cells i /\
       exists s', mem_go fuel cmp f obj l s = ROk (tail_at l cells i) s' /\ hp s' = hp s0 /\ st s' = st s0)
    \/ (no_hit cells /\
        if is_nil ce
        then exists s', mem_go fuel cmp f obj l s = ROk (VBool false) s' /\ hp s' = hp s0 /\ st s' = st s0
        else render_fail (mem_go fuel cmp f obj l s)).
Proof.
  intros Hc. induction Hc as [v c Hd Hp | v a d cells e Hd Hc IH]; intros s f ce Eh Es Hinv Hf Hok Hce.
  - rewrite Hd in Hce. injection Hce as <-. right. split; [intros ad []|].
    destruct f as [|f]; [cbn in Hf; lia|]. cbn [mem_go].
    rewrite <- Eh in Hd.
    destruct (callb_pred is_nil s v c Hinv Hd) as (s1 & E1 & Eh1 & Es1 & Hinv1).
    unfold is_null. rewrite (bind_ok _ _ _ _ _ E1), (bind_ok _ _ _ _ _ (truthy_bool _ s1)).
    destruct (is_nil c) eqn:En.
    + exists s1. unfold ret. split; [reflexivity|]. split; congruence.
    + apply render_fail_bind. rewrite <- Eh1 in Hd.
      exact (proj1 (callb_car_fail fuel s1 v c Hinv1 Hd Hp)).
  - destruct f as [|f]; [cbn in Hf; lia|]. cbn [mem_go].
    rewrite <- Eh in Hd.
    destruct (callb_pred is_nil s v _ Hinv Hd) as (s1 & E1 & Eh1 & Es1 & Hinv1).
    unfold is_null. rewrite (bind_ok _ _ _ _ _ E1), (bind_ok _ _ _ _ _ (truthy_bool _ s1)).
    cbn [is_nil]. rewrite <- Eh1 in Hd.
    destruct (callb_car fuel s1 v a d Hinv1 Hd) as (s2 & E2 & Eh2 & Es2 & Hinv2).
    rewrite (bind_ok _ _ _ _ _ E2).
    inversion Hok as [|x0 r0 Hoka Hokr]; subst x0 r0. cbn [fst] in Hoka.
    destruct (Hcmp s2 (VPtr a) Hoka ltac:(congruence) ltac:(congruence) Hinv2)
      as (b & s3 & E3 & Eh3 & Es3 & Hinv3 & Hb).
    rewrite (bind_ok _ _ _ _ _ E3), (bind_ok _ _ _ _ _ (truthy_bool _ s3)).
    destruct b.
    + left. exists O. split.
      { split; [exists (a, d); split; [reflexivity | apply Hb; reflexivity] | intros j ad Hj; lia]. }
      exists s3. unfold ret. cbn [tail_at]. split; [reflexivity|]. split; congruence.
    + assert (Hd3 : heap_deref (hp s3) v = Ok (VPair a d)) by (rewrite Eh3, Eh2; exact Hd).
      destruct (callb_cdr fuel s3 v a d Hinv3 Hd3) as (s4 & E4 & Eh4 & Es4 & Hinv4).
      rewrite (bind_ok _ _ _ _ _ E4).
      cbn [length] in Hf.
      assert (Hnot : ~ P (VPtr a)) by (intros HP'; apply Hb in HP'; discriminate HP').
      destruct (IH s4 f ce ltac:(congruence) ltac:(congruence) Hinv4 ltac:(lia) Hokr Hce)
        as [(i & Hhit & s' & E & Eh' & Es') | (Hno & R)].
      * left. exists (S i). destruct Hhit as ((ad & Hn & HP) & Hbefore). split.
        { split.
          - exists ad. split; [exact Hn | exact HP].
          - intros j ad' Hj Hn'. destruct j as [|j].
            + cbn [nth_error] in Hn'. injection Hn' as <-. exact Hnot.
            + cbn [nth_error] in Hn'. apply (Hbefore j ad'); [lia | exact Hn']. }
        exists s'. rewrite tail_at_cons.
        2:{ assert (Hlt : (i < length cells)%nat) by (apply nth_error_Some; congruence). lia. }
        split; [exact E|]. split; assumption.
      * right. split; [|exact R].
        intros ad [<-|Hin]; [exact Hnot | apply Hno; exact Hin].
Qed.

(* ---- assq / assv / assoc: the first element that is a pair whose car satisfies P;
   elements that are not pairs are skipped (prelude.scm:177-196: (and (pair? (car alist)) ..)) *)
Definition entry_hit (ad : N * N) : Prop :=
  exists k v, heap_get (hp s0) (fst ad) = Ok (VPair k v) /\ P (VPtr k).
Definition first_entry (cells : list (N * N)) (i : nat) : Prop :=
  (exists ad, nth_error cells i = Some ad /\ entry_hit ad) /\
  (forall j ad, (j < i)%nat -> nth_error cells j = Some ad -> ~ entry_hit ad).
Definition entry_ok (ad : N * N) : Prop :=
  exists c, heap_get (hp s0) (fst ad) = Ok c /\ (forall k v, c = VPair k v -> ok (VPtr k)).

Lemma ass_go_spec l cells e :
  pchain (hp s0) l cells e ->
  forall s f ce, hp s = hp s0 -> st s = st s0 -> sp s < scap s -> (length cells + 1 <= f)%nat ->
    Forall entry_ok cells ->
    heap_deref (hp s0) e = Ok ce ->
    (exists i ad, first_entry cells i /\ nth_error cells i = Some ad /\
       exists s', ass_go fuel cmp f obj l s = ROk (VPtr (fst ad)) s' /\ hp s' = hp s0 /\ st s' = st s0)
    \/ ((forall ad, In ad cells -> ~ entry_hit ad) /\
        if is_nil ce
        then exists s', ass_go fuel cmp f obj l s = ROk (VBool false) s' /\ hp s' = hp s0 /\ st s' = st s0
        else render_fail (ass_go fuel cmp f obj l s)).
Proof.
  intros Hc. induction Hc as [v c Hd Hp | v a d cells e Hd Hc IH]; intros s f ce Eh Es Hinv Hf Hok Hce.
  - rewrite Hd in Hce. injection Hce as <-. right. split; [intros ad []|].
    destruct f as [|f]; [cbn in Hf; lia|]. cbn [ass_go].
    rewrite <- Eh in Hd.
    destruct (callb_pred is_nil s v c Hinv Hd) as (s1 & E1 & Eh1 & Es1 & Hinv1).
    unfold is_null. rewrite (bind_ok _ _ _ _ _ E1), (bind_ok _ _ _ _ _ (truthy_bool _ s1)).
    destruct (is_nil c) eqn:En.
    + exists s1. unfold ret. split; [reflexivity|]. split; congruence.
    + apply render_fail_bind. rewrite <- Eh1 in Hd.
      exact (proj1 (callb_car_fail fuel s1 v c Hinv1 Hd Hp)).
  - destruct f as [|f]; [cbn in Hf; lia|]. cbn [ass_go].
    rewrite <- Eh in Hd.
    destruct (callb_pred is_nil s v _ Hinv Hd) as (s1 & E1 & Eh1 & Es1 & Hinv1).
    unfold is_null. rewrite (bind_ok _ _ _ _ _ E1), (bind_ok _ _ _ _ _ (truthy_bool _ s1)).
    cbn [is_nil]. rewrite <- Eh1 in Hd.
    destruct (callb_car fuel s1 v a d Hinv1 Hd) as (s2 & E2 & Eh2 & Es2 & Hinv2).
    rewrite (bind_ok _ _ _ _ _ E2).
    inversion Hok as [|x0 r0 Hoka Hokr]; subst x0 r0.
    destruct Hoka as (c & Hgc & Hkc). cbn [fst] in Hgc.
    assert (Hh2 : hp s2 = hp s0) by congruence.
    assert (Hdc : heap_deref (hp s2) (VPtr a) = Ok c) by (cbn [heap_deref]; rewrite Hh2; exact Hgc).
    destruct (callb_pred is_pair s2 (VPtr a) c Hinv2 Hdc) as (s3 & E3 & Eh3 & Es3 & Hinv3).
    unfold is_pair_b. rewrite (bind_ok _ _ _ _ _ E3), (bind_ok _ _ _ _ _ (truthy_bool _ s3)).
    assert (Hd3 : heap_deref (hp s3) v = Ok (VPair a d)) by (rewrite Eh3, Eh2; exact Hd).
    (* the two outcomes of the test, then the common continuation *)
    assert (Hhit : exists hit s6,
      (if is_pair c
       then (dom a1 <- callb (car fuel) [v]; dom k <- callb (car fuel) [a1];
             dom e0 <- callb cmp [k; obj]; truthy e0)
       else ret false) s3 = ROk hit s6 /\ hp s6 = hp s0 /\ st s6 = st s0 /\ sp s6 < scap s6 /\
      (hit = true <-> entry_hit (a, d))).
    { destruct c; cbn [is_pair];
        try (exists false, s3; unfold ret; split; [reflexivity|]; split; [congruence|]; split; [congruence|];
             split; [exact Hinv3|]; split; [discriminate|];
             intros (k & v0 & Hg & _); cbn [fst] in Hg; rewrite Hgc in Hg; discriminate Hg).
      destruct (callb_car fuel s3 v a d Hinv3 Hd3) as (s4 & E4 & Eh4 & Es4 & Hinv4).
      rewrite (bind_ok _ _ _ _ _ E4).
      assert (Hd4 : heap_deref (hp s4) (VPtr a) = Ok (VPair car cdr)) by (cbn [heap_deref]; rewrite Eh4, Eh3, Hh2; exact Hgc).
      destruct (callb_car fuel s4 (VPtr a) car cdr Hinv4 Hd4) as (s5 & E5 & Eh5 & Es5 & Hinv5).
      rewrite (bind_ok _ _ _ _ _ E5).
      destruct (Hcmp s5 (VPtr car) (Hkc _ _ eq_refl) ltac:(congruence) ltac:(congruence) Hinv5)
        as (b & s6 & E6 & Eh6 & Es6 & Hinv6 & Hb).
      rewrite (bind_ok _ _ _ _ _ E6), truthy_bool.
      exists b, s6. split; [reflexivity|]. split; [congruence|]. split; [congruence|]. split; [exact Hinv6|].
      rewrite Hb. split.
      - intros HP. exists car, cdr. split; [exact Hgc | exact HP].
      - intros (k & v0 & Hg & HP). cbn [fst] in Hg. rewrite Hgc in Hg. injection Hg as <- <-. exact HP. }
    destruct Hhit as (hit & s6 & E6 & Eh6 & Es6 & Hinv6 & Hhit).
    rewrite (bind_ok _ _ _ _ _ E6).
    assert (Hd6 : heap_deref (hp s6) v = Ok (VPair a d)) by (rewrite Eh6, <- Hh2, Eh2; exact Hd).
    destruct hit.
    + left. exists O, (a, d). split.
      { split; [exists (a, d); split; [reflexivity | apply Hhit; reflexivity] | intros j ad Hj; lia]. }
      split; [reflexivity|].
      destruct (callb_car fuel s6 v a d Hinv6 Hd6) as (s7 & E7 & Eh7 & Es7 & _).
      exists s7. split; [exact E7|]. split; congruence.
    + destruct (callb_cdr fuel s6 v a d Hinv6 Hd6) as (s7 & E7 & Eh7 & Es7 & Hinv7).
      rewrite (bind_ok _ _ _ _ _ E7).
      cbn [length] in Hf.
      assert (Hnot : ~ entry_hit (a, d)) by (intros HP'; apply Hhit in HP'; discriminate HP').
      destruct (IH s7 f ce ltac:(congruence) ltac:(congruence) Hinv7 ltac:(lia) Hokr Hce)
        as [(i & ad & Hfe & Hn & s' & E & Eh' & Es') | (Hno & R)].
      * left. exists (S i), ad. destruct Hfe as ((ad1 & Hn1 & HP) & Hbefore). split.
        { split.
          - exists ad1. split; [exact Hn1 | exact HP].
          - intros j ad' Hj Hn'. destruct j as [|j].
            + cbn [nth_error] in Hn'. injection Hn' as <-. exact Hnot.
            + cbn [nth_error] in Hn'. apply (Hbefore j ad'); [lia | exact Hn']. }
        split; [exact Hn|]. exists s'. split; [exact E|]. split; assumption.
      * right. split; [|exact R].
        intros ad [<-|Hin]; [exact Hnot | apply Hno; exact Hin].
Qed.
End Generic.

(* ============================================================ member (equal?) *)
Definition plain_small (fuel : nat) (s : vm) (a : vcell) : Prop :=
  val_ok s a /\ exists k, adatum s (absv s a) k /\ (2 * k + 2 < fuel)%nat.

Lemma equal_cmp_spec fuel s x :
  values_are_refs s -> sym_interned s -> plain_small fuel s x ->
  forall s1 a, plain_small fuel s a -> hp s1 = hp s -> st s1 = st s -> sp s1 < scap s1 ->
  exists b s', callb (equal_b fuel) [a; x] s1 = ROk (VBool b) s' /\ hp s' = hp s1 /\ st s' = st s1 /\
               sp s' < scap s' /\ (b = true <-> aequal s (absv s x) (absv s a)).
Proof.
  intros W Hint (Hx & kx & Dx & Fx) s1 a (Hva & ka & Da & Fa) Eh Es Hinv1.
  apply (callb_bool (equal_b fuel) [a; x] s1 (fun b => b = true <-> aequal s (absv s x) (absv s a)) Hinv1).
  intros s2 Hc Eh2 Es2.
  assert (Eh' : hp s2 = hp s) by congruence. assert (Es' : st s2 = st s) by congruence.
  assert (Dan : adatum s2 (absv s2 a) (Nat.max ka kx)).
  { rewrite (absv_hp s s2 a Eh'). apply (adatum_transfer s s2 Eh' Es'). apply (adatum_mono s _ _ Da). lia. }
  assert (Dxn : adatum s2 (absv s2 x) (Nat.max ka kx)).
  { rewrite (absv_hp s s2 x Eh'). apply (adatum_transfer s s2 Eh' Es'). apply (adatum_mono s _ _ Dx). lia. }
  destruct (equal_b_run fuel s2 a x (Nat.max ka kx) (wf_hp_st s s2 Eh' Es' W) (sym_interned_hp s s2 Eh' Hint)
     (val_ok_hp s s2 a Eh' Hva) (val_ok_hp s s2 x Eh' Hx) Dan Dxn ltac:(lia) Hc)
    as (res & s3 & E & A1 & A2 & A3 & A4 & A5).
  exists res, s3. split; [exact E|]. split; [exact A1|]. split; [exact A2|]. split; [exact A3|]. split; [exact A4|].
  rewrite A5, (absv_hp s s2 a Eh'), (absv_hp s s2 x Eh').
  split; apply aequal_transfer; congruence.
Qed.

Theorem prelude_member_spec fuel s x l xs e :
  values_are_refs s -> sym_interned s -> val_ok s x -> val_ok s l -> sp s < scap s ->
  achain (abs s) (absv s l) xs e ->
  (forall n, In n xs -> exists k, adatum s n k /\ (2 * k + 2 < fuel)%nat) ->
  (exists k, adatum s (absv s x) k /\ (2 * k + 2 < fuel)%nat) -> (length xs + 1 < fuel)%nat ->
  e = AImm VNil ->
  exists r s', p_mem fuel (equal_b fuel) [x; l] s = ROk r s' /\ hp s' = hp s /\
    ((forall n, In n xs -> ~ aequal s n (absv s x)) /\ absv s r = AImm (VBool false) \/
     exists i, atail (abs s) (absv s l) i (absv s r) /\
       (exists n, nth_error xs i = Some n /\ aequal s n (absv s x)) /\
       (forall j n, (j < i)%nat -> nth_error xs j = Some n -> ~ aequal s n (absv s x))).
Proof.
  intros W Hint Hx Hl Hinv Hch Hel Hkx Hlen ->.
  destruct (achain_pchain s W _ _ _ Hch l Hl eq_refl) as (cells & e' & Hpc & Hm & He & Hve).
  destruct (pchain_end_deref _ _ _ _ Hpc) as (ce & Hce & Hpe).
  assert (ce = VNil) by (apply (nil_deref s e' ce Hve Hce); exact He). subst ce.
  destruct (pchain_cells_ok s l cells e' W Hl Hpc) as (Hcok & _).
  assert (Hlenc : length cells = length xs) by (rewrite <- Hm; now rewrite map_length).
  assert (Hokc : Forall (fun ad => plain_small fuel s (VPtr (fst ad))) cells).
  { rewrite Forall_forall in *. intros ad Hin. split.
    - cbn [val_ok]. exact (proj1 (Hcok ad Hin)).
    - apply Hel. rewrite <- Hm. exact (in_map (fun ad => absv s (VPtr (fst ad))) cells ad Hin). }
  destruct (mem_go_spec fuel s (equal_b fuel) x (plain_small fuel s)
              (fun a => aequal s (absv s x) (absv s a))
              (equal_cmp_spec fuel s x W Hint (conj Hx Hkx))
              l cells e' Hpc s fuel VNil eq_refl eq_refl Hinv ltac:(lia) Hokc Hce)
    as [(i & ((ad & Hn & HP) & Hbefore) & s' & E & Eh & Es) | (Hno & R)].
  - exists (tail_at l cells i), s'. split; [exact E|]. split; [exact Eh|]. right. exists i.
    assert (Hi : (i < length cells)%nat) by (apply nth_error_Some; congruence).
    destruct (pchain_atail s l cells e' W Hl Hpc i ltac:(lia)) as (Hat & _).
    split; [exact Hat|]. split.
    + exists (absv s (VPtr (fst ad))). split; [|apply aequal_sym; exact HP].
      rewrite <- Hm. exact (map_nth_error (fun ad => absv s (VPtr (fst ad))) i cells Hn).
    + intros j n Hj Hnj HA. rewrite <- Hm, nth_error_map in Hnj.
      destruct (nth_error cells j) as [ad'|] eqn:En; [|discriminate Hnj].
      cbn [option_map] in Hnj. injection Hnj as <-.
      apply (Hbefore j ad' Hj En). apply aequal_sym. exact HA.
  - cbn [is_nil] in R. destruct R as (s' & E & Eh & Es).
    exists (VBool false), s'. split; [exact E|]. split; [exact Eh|]. left. split; [|reflexivity].
    intros n Hin HA. rewrite <- Hm in Hin. apply in_map_iff in Hin. destruct Hin as (ad & <- & Hin).
    apply (Hno ad Hin). apply aequal_sym. exact HA.
Qed.

(* ====================================================== memq / memv (eqv?) *)
Definition plain_val (s : vm) (a : vcell) : Prop := val_ok s a /\ exists k, adatum s (absv s a) k.

Lemma eqv_cmp_spec s x :
  values_are_refs s -> sym_interned s -> plain_val s x ->
  forall s1 a, plain_val s a -> hp s1 = hp s -> st s1 = st s -> sp s1 < scap s1 ->
  exists b s', callb eqv_b [a; x] s1 = ROk (VBool b) s' /\ hp s' = hp s1 /\ st s' = st s1 /\
               sp s' < scap s' /\ (b = true <-> eqv_true s x a).
Proof.
  intros W Hint (Hx & kx & Dx) s1 a (Hva & ka & Da) Eh Es Hinv1.
  apply (callb_bool eqv_b [a; x] s1 (fun b => b = true <-> eqv_true s x a) Hinv1).
  intros s2 Hc Eh2 Es2.
  assert (Eh' : hp s2 = hp s) by congruence. assert (Es' : st s2 = st s) by congruence.
  assert (Dan : adatum s2 (absv s2 a) (Nat.max ka kx)).
  { rewrite (absv_hp s s2 a Eh'). apply (adatum_transfer s s2 Eh' Es'). apply (adatum_mono s _ _ Da). lia. }
  assert (Dxn : adatum s2 (absv s2 x) (Nat.max ka kx)).
  { rewrite (absv_hp s s2 x Eh'). apply (adatum_transfer s s2 Eh' Es'). apply (adatum_mono s _ _ Dx). lia. }
  destruct (eq_b_run s2 a x (Nat.max ka kx) (wf_hp_st s s2 Eh' Es' W) (sym_interned_hp s s2 Eh' Hint)
     (val_ok_hp s s2 a Eh' Hva) (val_ok_hp s s2 x Eh' Hx) Dan Dxn Hc)
    as (res & s3 & E & A1 & A2 & A3 & A4 & A5).
  exists res, s3. split; [exact E|]. split; [exact A1|]. split; [exact A2|]. split; [exact A3|]. split; [exact A4|].
  rewrite A5. unfold eqv_true. split; intros H.
  - apply (eqv_transfer s2 s x a true); congruence.
  - apply (eqv_transfer s s2 x a true); congruence.
Qed.

Theorem prelude_memv_spec fuel s x l cells e :
  values_are_refs s -> sym_interned s -> val_ok s x -> val_ok s l -> sp s < scap s ->
  pchain (hp s) l cells e -> heap_deref (hp s) e = Ok VNil ->
  Forall (fun ad => exists k, adatum s (absv s (VPtr (fst ad))) k) cells ->
  (exists k, adatum s (absv s x) k) -> (length cells + 1 <= fuel)%nat ->
  exists r s', p_mem fuel eqv_b [x; l] s = ROk r s' /\ hp s' = hp s /\ st s' = st s /\
    ((forall ad, In ad cells -> ~ eqv_true s x (VPtr (fst ad))) /\ r = VBool false \/
     exists i ad, nth_error cells i = Some ad /\ r = tail_at l cells i /\
       atail (abs s) (absv s l) i (absv s r) /\ eqv_true s x (VPtr (fst ad)) /\
       (forall j ad', (j < i)%nat -> nth_error cells j = Some ad' -> ~ eqv_true s x (VPtr (fst ad')))).
Proof.
  intros W Hint Hx Hl Hinv Hpc Hce Hel Hkx Hlen.
  destruct (pchain_cells_ok s l cells e W Hl Hpc) as (Hcok & _).
  assert (Hokc : Forall (fun ad => plain_val s (VPtr (fst ad))) cells).
  { rewrite Forall_forall in *. intros ad Hin. split.
    - cbn [val_ok]. exact (proj1 (Hcok ad Hin)).
    - exact (Hel ad Hin). }
  destruct (mem_go_spec fuel s eqv_b x (plain_val s) (fun a => eqv_true s x a)
              (eqv_cmp_spec s x W Hint (conj Hx Hkx))
              l cells e Hpc s fuel VNil eq_refl eq_refl Hinv Hlen Hokc Hce)
    as [(i & ((ad & Hn & HP) & Hbefore) & s' & E & Eh & Es) | (Hno & R)].
  - exists (tail_at l cells i), s'. split; [exact E|]. split; [exact Eh|]. split; [exact Es|]. right.
    exists i, ad.
    assert (Hi : (i < length cells)%nat) by (apply nth_error_Some; congruence).
    destruct (pchain_atail s l cells e W Hl Hpc i ltac:(lia)) as (Hat & _).
    split; [exact Hn|]. split; [reflexivity|]. split; [exact Hat|]. split; [exact HP | exact Hbefore].
  - cbn [is_nil] in R. destruct R as (s' & E & Eh & Es).
    exists (VBool false), s'. split; [exact E|]. split; [exact Eh|]. split; [exact Es|]. left.
    split; [exact Hno | reflexivity].
Qed.

(* ============================================================ assoc (equal?) *)
(* an association-list element that is a pair whose key is equal? to x *)
Definition akey_hit (s : vm) (x n : aval) : Prop :=
  exists p k v, n = ALoc (LPair p) /\ a_pair (abs s) p = Some (k, v) /\ aequal s k x.

Lemma entry_hit_akey s x ad :
  entry_hit s (fun a => aequal s (absv s x) (absv s a)) ad <->
  akey_hit s (absv s x) (absv s (VPtr (fst ad))).
Proof.
  split.
  - intros (k & v & Hg & HP). exists (fst ad), (absv s (VPtr k)), (absv s (VPtr v)).
    split; [cbn [absv]; rewrite Hg; reflexivity|].
    split; [cbn [abs a_pair]; rewrite Hg; reflexivity|]. apply aequal_sym. exact HP.
  - intros (p & k & v & Hn & Hp & HA). cbn [absv] in Hn.
    destruct (heap_get (hp s) (fst ad)) as [c| | |] eqn:Hg; try discriminate Hn.
    destruct c; cbn [cell_val] in Hn; try discriminate Hn.
    injection Hn as <-. cbn [abs a_pair] in Hp. rewrite Hg in Hp. injection Hp as <- <-.
    exists car, cdr. split; [exact Hg|]. apply aequal_sym. exact HA.
Qed.

Lemma cells_entry_ok s l cells e (ok : vcell -> Prop) :
  values_are_refs s -> val_ok s l -> pchain (hp s) l cells e ->
  (forall ad k v, In ad cells -> heap_get (hp s) (fst ad) = Ok (VPair k v) -> target_ok s k -> ok (VPtr k)) ->
  Forall (entry_ok s ok) cells.
Proof.
  intros W Hl Hpc Hk.
  destruct (pchain_cells_ok s l cells e W Hl Hpc) as (Hcok & _).
  rewrite Forall_forall in *. intros ad Hin.
  destruct (proj1 (Hcok ad Hin)) as (_ & c & Hg & _).
  exists c. split; [exact Hg|]. intros k v ->.
  pose proof W as (_ & Hpairs & _). destruct (Hpairs _ _ _ Hg) as (Tk & _).
  exact (Hk ad k v Hin Hg Tk).
Qed.

Theorem prelude_assoc_spec fuel s x al xs e :
  values_are_refs s -> sym_interned s -> val_ok s x -> val_ok s al -> sp s < scap s ->
  achain (abs s) (absv s al) xs e ->
  (forall n p k v, In n xs -> n = ALoc (LPair p) -> a_pair (abs s) p = Some (k, v) ->
     exists d, adatum s k d /\ (2 * d + 2 < fuel)%nat) ->
  (exists k, adatum s (absv s x) k /\ (2 * k + 2 < fuel)%nat) -> (length xs + 1 < fuel)%nat ->
  e = AImm VNil ->
  exists r s', p_ass fuel (equal_b fuel) [x; al] s = ROk r s' /\ hp s' = hp s /\
    ((forall n, In n xs -> ~ akey_hit s (absv s x) n) /\ absv s r = AImm (VBool false) \/
     exists i n, nth_error xs i = Some n /\ absv s r = n /\ akey_hit s (absv s x) n /\
       (forall j m, (j < i)%nat -> nth_error xs j = Some m -> ~ akey_hit s (absv s x) m)).
Proof.
  intros W Hint Hx Hl Hinv Hch Hel Hkx Hlen ->.
  destruct (achain_pchain s W _ _ _ Hch al Hl eq_refl) as (cells & e' & Hpc & Hm & He & Hve).
  destruct (pchain_end_deref _ _ _ _ Hpc) as (ce & Hce & Hpe).
  assert (ce = VNil) by (apply (nil_deref s e' ce Hve Hce); exact He). subst ce.
  assert (Hlenc : length cells = length xs) by (rewrite <- Hm; now rewrite map_length).
  assert (Hokc : Forall (entry_ok s (plain_small fuel s)) cells).
  { apply (cells_entry_ok s al cells e' _ W Hl Hpc). intros ad k v Hin Hg Tk. split; [exact Tk|].
    apply (Hel (absv s (VPtr (fst ad))) (fst ad) (absv s (VPtr k)) (absv s (VPtr v))).
    - rewrite <- Hm. exact (in_map (fun ad => absv s (VPtr (fst ad))) cells ad Hin).
    - cbn [absv]. rewrite Hg. reflexivity.
    - cbn [abs a_pair]. rewrite Hg. reflexivity. }
  destruct (ass_go_spec fuel s (equal_b fuel) x (plain_small fuel s)
              (fun a => aequal s (absv s x) (absv s a))
              (equal_cmp_spec fuel s x W Hint (conj Hx Hkx))
              al cells e' Hpc s fuel VNil eq_refl eq_refl Hinv ltac:(lia) Hokc Hce)
    as [(i & ad & ((ad1 & Hn1 & HP) & Hbefore) & Hn & s' & E & Eh & Es) | (Hno & R)].
  - rewrite Hn in Hn1. injection Hn1 as <-.
    exists (VPtr (fst ad)), s'. split; [exact E|]. split; [exact Eh|]. right.
    exists i, (absv s (VPtr (fst ad))).
    split; [rewrite <- Hm; exact (map_nth_error (fun ad => absv s (VPtr (fst ad))) i cells Hn)|].
    split; [reflexivity|]. split; [apply entry_hit_akey; exact HP|].
    intros j m Hj Hnj HA. rewrite <- Hm, nth_error_map in Hnj.
    destruct (nth_error cells j) as [ad'|] eqn:En; [|discriminate Hnj].
    cbn [option_map] in Hnj. injection Hnj as <-.
    apply (Hbefore j ad' Hj En). apply entry_hit_akey. exact HA.
  - cbn [is_nil] in R. destruct R as (s' & E & Eh & Es).
    exists (VBool false), s'. split; [exact E|]. split; [exact Eh|]. left. split; [|reflexivity].
    intros n Hin HA. rewrite <- Hm in Hin. apply in_map_iff in Hin. destruct Hin as (ad & <- & Hin).
    apply (Hno ad Hin). apply entry_hit_akey. exact HA.
Qed.

(* ====================================================== assq / assv (eqv?) *)
Theorem prelude_assv_spec fuel s x al cells e :
  values_are_refs s -> sym_interned s -> val_ok s x -> val_ok s al -> sp s < scap s ->
  pchain (hp s) al cells e -> heap_deref (hp s) e = Ok VNil ->
  (forall ad k v, In ad cells -> heap_get (hp s) (fst ad) = Ok (VPair k v) ->
     exists d, adatum s (absv s (VPtr k)) d) ->
  (exists k, adatum s (absv s x) k) -> (length cells + 1 <= fuel)%nat ->
  exists r s', p_ass fuel eqv_b [x; al] s = ROk r s' /\ hp s' = hp s /\ st s' = st s /\
    ((forall ad, In ad cells -> ~ entry_hit s (eqv_true s x) ad) /\ r = VBool false \/
     exists i ad, nth_error cells i = Some ad /\ r = VPtr (fst ad) /\ entry_hit s (eqv_true s x) ad /\
       (forall j ad', (j < i)%nat -> nth_error cells j = Some ad' -> ~ entry_hit s (eqv_true s x) ad')).
Proof.
  intros W Hint Hx Hl Hinv Hpc Hce Hel Hkx Hlen.
  assert (Hokc : Forall (entry_ok s (plain_val s)) cells).
  { apply (cells_entry_ok s al cells e _ W Hl Hpc). intros ad k v Hin Hg Tk. split; [exact Tk|].
    exact (Hel ad k v Hin Hg). }
  destruct (ass_go_spec fuel s eqv_b x (plain_val s) (eqv_true s x)
              (eqv_cmp_spec s x W Hint (conj Hx Hkx))
              al cells e Hpc s fuel VNil eq_refl eq_refl Hinv Hlen Hokc Hce)
    as [(i & ad & ((ad1 & Hn1 & HP) & Hbefore) & Hn & s' & E & Eh & Es) | (Hno & R)].
  - rewrite Hn in Hn1. injection Hn1 as <-.
    exists (VPtr (fst ad)), s'. split; [exact E|]. split; [exact Eh|]. split; [exact Es|]. right.
    exists i, ad. split; [exact Hn|]. split; [reflexivity|]. split; [exact HP | exact Hbefore].
  - cbn [is_nil] in R. destruct R as (s' & E & Eh & Es).
    exists (VBool false), s'. split; [exact E|]. split; [exact Eh|]. split; [exact Es|]. left.
    split; [exact Hno | reflexivity].
Qed.

