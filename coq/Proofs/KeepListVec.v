(* KeepListVec.v — C01 (R2): every list/vector/predicate builtin of Model/ListVec.v keeps the
   invariant [J] of KeepCalc.v (ginv, sp < scap, conts_ok): from a J state it ends, normally
   or with an error, in a J state.  No side conditions on values: the calculus [kpa]. *)
From Coq Require Import Lia List String.
From MW Require Import Model.Base Model.F64 Model.Num Model.Datum Model.TransformDef Model.Transform
  Model.VmTypes Model.Heap Model.Gc Model.VmBase Model.Compile Model.Vm Model.ListVec Model.Builtins
  Proofs.GcProofs Proofs.SymtabProofs Proofs.VmProofs0 Proofs.TailProofs Proofs.ScopeProofs
  Proofs.EnvProofs Proofs.FlatProofs Proofs.FlatPrims Proofs.FlatListVec Proofs.CompileCorrect Proofs.KeepCalc.
Open Scope N_scope.
Arguments N.add : simpl never.
Arguments N.sub : simpl never.
Arguments N.eqb : simpl never.
Arguments N.ltb : simpl never.
Arguments N.leb : simpl never.
Arguments N.mul : simpl never.

(* ------------------------------------------------------------------ helpers *)
Lemma kp_lv_nofuel {A} : kp (@ListVec.nofuel A).
Proof. intros s H; exact I. Qed.
Lemma kp_lv_usub a b : kp (ListVec.usub a b).
Proof. apply kp_pure, pure_lv_usub. Qed.
Lemma kp_as_car v : kp (ListVec.as_car v).
Proof. apply kp_pure, pure_as_car. Qed.
Lemma kp_as_cdr v : kp (ListVec.as_cdr v).
Proof. apply kp_pure, pure_as_cdr. Qed.
#[export] Hint Resolve kp_lv_nofuel kp_lv_usub kp_as_car kp_as_cdr : kp.

Lemma kp_fail_cell {A} fuel v : kp (@ListVec.fail_cell fuel A v).
Proof. unfold ListVec.fail_cell. kpa. Qed.
Lemma kp_pop_index : kp ListVec.pop_index.
Proof. unfold ListVec.pop_index. kpa. Qed.
#[export] Hint Resolve kp_fail_cell kp_pop_index : kp.

(* ------------------------------------------------------------------ list.rs *)
Lemma kp_car fuel : kp (ListVec.car fuel).
Proof. unfold ListVec.car. kpa. Qed.
Lemma kp_cdr fuel : kp (ListVec.cdr fuel).
Proof. unfold ListVec.cdr. kpa. Qed.
Lemma kp_cons_ : kp ListVec.cons_.
Proof. unfold ListVec.cons_. kpa. Qed.
Lemma kp_set_car : kp ListVec.set_car.
Proof. unfold ListVec.set_car. kpa. Qed.
Lemma kp_set_cdr : kp ListVec.set_cdr.
Proof. unfold ListVec.set_cdr. kpa. Qed.
#[export] Hint Resolve kp_car kp_cdr kp_cons_ kp_set_car kp_set_cdr : kp.

Lemma kp_clone_loop fuel : forall f list rest head tail nilp,
  kp (ListVec.clone_loop fuel f list rest head tail nilp).
Proof.
  induction f as [|f IH]; intros list rest head tail nilp; cbn [ListVec.clone_loop]; cbv zeta; kpa.
Qed.
#[export] Hint Resolve kp_clone_loop : kp.
Lemma kp_clone_list fuel list : kp (ListVec.clone_list fuel list).
Proof. unfold ListVec.clone_list. kpa. Qed.
#[export] Hint Resolve kp_clone_list : kp.

Lemma kp_append_loop fuel : forall n tail, kp (ListVec.append_loop fuel n tail).
Proof.
  induction n as [|n IH]; intros tail; cbn [ListVec.append_loop]; kpa.
Qed.
#[export] Hint Resolve kp_append_loop : kp.
Lemma kp_append fuel : kp (ListVec.append fuel).
Proof. unfold ListVec.append. kpa. Qed.
#[export] Hint Resolve kp_append : kp.

Lemma kp_reverse_loop fuel : forall f list rest tail, kp (ListVec.reverse_loop fuel f list rest tail).
Proof.
  induction f as [|f IH]; intros list rest tail; cbn [ListVec.reverse_loop]; kpa.
Qed.
#[export] Hint Resolve kp_reverse_loop : kp.
Lemma kp_reverse fuel : kp (ListVec.reverse fuel).
Proof. unfold ListVec.reverse. kpa. Qed.
#[export] Hint Resolve kp_reverse : kp.

Lemma kp_get_list_tail_loop fuel : forall f list rest idx,
  kp (ListVec.get_list_tail_loop fuel f list rest idx).
Proof.
  induction f as [|f IH]; intros list rest idx; cbn [ListVec.get_list_tail_loop]; kpa.
Qed.
#[export] Hint Resolve kp_get_list_tail_loop : kp.
Lemma kp_get_list_tail fuel list idx : kp (ListVec.get_list_tail fuel list idx).
Proof. unfold ListVec.get_list_tail. kpa. Qed.
#[export] Hint Resolve kp_get_list_tail : kp.
Lemma kp_list_ref fuel : kp (ListVec.list_ref fuel).
Proof. unfold ListVec.list_ref. kpa. Qed.
Lemma kp_list_tail fuel : kp (ListVec.list_tail fuel).
Proof. unfold ListVec.list_tail. kpa. Qed.
#[export] Hint Resolve kp_list_ref kp_list_tail : kp.

(* ------------------------------------------------------------------ vector.rs *)
Lemma kp_clone_vector l start end_ : kp (ListVec.clone_vector l start end_).
Proof. unfold ListVec.clone_vector. cbv zeta. kpa. Qed.
#[export] Hint Resolve kp_clone_vector : kp.

Lemma kp_pop_n : forall n acc0, kp (ListVec.pop_n n acc0).
Proof.
  induction n as [|n IH]; intros acc0; cbn [ListVec.pop_n]; kpa.
Qed.
#[export] Hint Resolve kp_pop_n : kp.

Lemma kp_vector : kp ListVec.vector.
Proof. unfold ListVec.vector. kpa. Qed.
Lemma kp_make_vector : kp ListVec.make_vector.
Proof. unfold ListVec.make_vector. kpa. Qed.
Lemma kp_vector_length : kp ListVec.vector_length.
Proof. unfold ListVec.vector_length. kpa. Qed.
Lemma kp_vector_ref : kp ListVec.vector_ref.
Proof. unfold ListVec.vector_ref. kpa. Qed.
Lemma kp_vector_set : kp ListVec.vector_set.
Proof. unfold ListVec.vector_set. kpa. Qed.
Lemma kp_vector_fill : kp ListVec.vector_fill.
Proof. unfold ListVec.vector_fill. kpa. Qed.
#[export] Hint Resolve kp_vector kp_make_vector kp_vector_length kp_vector_ref kp_vector_set kp_vector_fill : kp.

Lemma kp_v2l_loop : forall rev_elems tail, kp (ListVec.v2l_loop rev_elems tail).
Proof.
  induction rev_elems as [|x r IH]; intros tail; cbn [ListVec.v2l_loop]; kpa.
Qed.
#[export] Hint Resolve kp_v2l_loop : kp.
Lemma kp_vector_to_list : kp ListVec.vector_to_list.
Proof. unfold ListVec.vector_to_list. kpa. Qed.
#[export] Hint Resolve kp_vector_to_list : kp.

Lemma kp_l2v_loop : forall f lst acc0, kp (ListVec.l2v_loop f lst acc0).
Proof.
  induction f as [|f IH]; intros lst acc0; cbn [ListVec.l2v_loop]; kpa.
Qed.
#[export] Hint Resolve kp_l2v_loop : kp.
Lemma kp_list_to_vector fuel : kp (ListVec.list_to_vector fuel).
Proof. unfold ListVec.list_to_vector. kpa. Qed.
#[export] Hint Resolve kp_list_to_vector : kp.

Lemma kp_vector_copy : kp ListVec.vector_copy.
Proof. unfold ListVec.vector_copy. cbv zeta. kpa. Qed.
#[export] Hint Resolve kp_vector_copy : kp.

Lemma kp_collect_range l : forall n i, kp (ListVec.collect_range l i n).
Proof.
  induction n as [|n IH]; intros i; cbn [ListVec.collect_range]; kpa.
Qed.
#[export] Hint Resolve kp_collect_range : kp.
Lemma kp_vmc_after start end_ : kp (ListVec.vmc_after start end_).
Proof. unfold ListVec.vmc_after. cbv zeta. kpa. Qed.
#[export] Hint Resolve kp_vmc_after : kp.
Lemma kp_vector_mut_copy : kp ListVec.vector_mut_copy.
Proof. unfold ListVec.vector_mut_copy. kpa. Qed.
#[export] Hint Resolve kp_vector_mut_copy : kp.

(* ------------------------------------------------------------------ compare.rs: read only *)
Lemma kp_eqv l r : kp (ListVec.eqv l r).
Proof. apply kp_pure, pure_eqv. Qed.
Lemma kp_all2_m p : (forall x y, kp (p x y)) -> forall xs ys, kp (ListVec.all2_m p xs ys).
Proof.
  intros Hp. induction xs as [|x xr IH]; intros ys; cbn [ListVec.all2_m]; [apply kp_ret|].
  destruct ys as [|y yr]; [apply kp_ret|].
  apply kp_bind; [apply Hp|intros e]. destruct e; [apply IH|apply kp_ret].
Qed.
Lemma kp_equal f l r : kp (ListVec.equal f l r).
Proof. apply kp_pure, pure_equal. Qed.
Lemma kp_compare_pair f l r : kp (ListVec.compare_pair f l r).
Proof. apply kp_pure, pure_compare_pair. Qed.
Lemma kp_compare_vector f xs ys : kp (ListVec.all2_m (ListVec.equal f) xs ys).
Proof. apply kp_all2_m. intros x y. apply kp_equal. Qed.
#[export] Hint Resolve kp_eqv kp_equal kp_compare_pair kp_compare_vector : kp.

(* ------------------------------------------------------------------ predicate.rs *)
Lemma kp_type_pred p : kp (ListVec.type_pred p).
Proof. unfold ListVec.type_pred. kpa. Qed.
Lemma kp_is_boolean : kp ListVec.is_boolean. Proof. apply kp_type_pred. Qed.
Lemma kp_is_char : kp ListVec.is_char. Proof. apply kp_type_pred. Qed.
Lemma kp_is_null : kp ListVec.is_null. Proof. apply kp_type_pred. Qed.
Lemma kp_is_number : kp ListVec.is_number. Proof. apply kp_type_pred. Qed.
Lemma kp_is_complex : kp ListVec.is_complex. Proof. apply kp_type_pred. Qed.
Lemma kp_is_real : kp ListVec.is_real. Proof. apply kp_type_pred. Qed.
Lemma kp_is_rational : kp ListVec.is_rational. Proof. apply kp_type_pred. Qed.
Lemma kp_is_integer : kp ListVec.is_integer. Proof. apply kp_type_pred. Qed.
Lemma kp_is_pair_b : kp ListVec.is_pair_b. Proof. apply kp_type_pred. Qed.
Lemma kp_is_procedure : kp ListVec.is_procedure. Proof. apply kp_type_pred. Qed.
Lemma kp_is_string : kp ListVec.is_string. Proof. apply kp_type_pred. Qed.
Lemma kp_is_symbol : kp ListVec.is_symbol. Proof. apply kp_type_pred. Qed.
Lemma kp_is_vector : kp ListVec.is_vector. Proof. apply kp_type_pred. Qed.
Lemma kp_is_port : kp ListVec.is_port.
Proof. unfold ListVec.is_port. kpa. Qed.
Lemma kp_eq_b : kp ListVec.eq_b.
Proof. unfold ListVec.eq_b. kpa. Qed.
Lemma kp_eqv_b : kp ListVec.eqv_b.
Proof. apply kp_eq_b. Qed.
Lemma kp_equal_b fuel : kp (ListVec.equal_b fuel).
Proof. unfold ListVec.equal_b. kpa. Qed.
Lemma kp_not_b : kp ListVec.not_b.
Proof. unfold ListVec.not_b. kpa. Qed.
#[export] Hint Resolve kp_type_pred kp_is_boolean kp_is_char kp_is_null kp_is_number kp_is_complex kp_is_real
  kp_is_rational kp_is_integer kp_is_pair_b kp_is_procedure kp_is_string kp_is_symbol kp_is_vector
  kp_is_port kp_eq_b kp_eqv_b kp_equal_b kp_not_b : kp.

Lemma kp_is_list_loop : forall f rest slow advance, kp (ListVec.is_list_loop f rest slow advance).
Proof.
  induction f as [|f IH]; intros rest slow advance; cbn [ListVec.is_list_loop]; kpa.
Qed.
#[export] Hint Resolve kp_is_list_loop : kp.
Lemma kp_is_list fuel : kp (ListVec.is_list fuel).
Proof. unfold ListVec.is_list. kpa. Qed.
#[export] Hint Resolve kp_is_list : kp.

(* ------------------------------------------------------------------ the CALL wrapper *)
Lemma kp_call_builtin b : kp b -> kp (ListVec.call_builtin b).
Proof. intros Hb. unfold ListVec.call_builtin. kpa. Qed.
Lemma kp_push_all : forall l, kp (ListVec.push_all l).
Proof.
  induction l as [|v r IH]; cbn [ListVec.push_all]; kpa.
Qed.
#[export] Hint Resolve kp_call_builtin kp_push_all : kp.
Lemma kp_apply_builtin b args : kp b -> kp (ListVec.apply_builtin b args).
Proof. intros Hb. unfold ListVec.apply_builtin. kpa. Qed.
#[export] Hint Resolve kp_apply_builtin : kp.

(* ------------------------------------------------------------------ the table of Model/Builtins.v *)
Theorem kp_lv_builtin : forall b, kp (lv_builtin b).
Proof.
  intros b. unfold lv_builtin. cbv zeta.
  repeat match goal with
         | |- kp (if ?c then _ else _) => destruct c
         end;
    lazymatch goal with
    | |- kp (ListVec.car _) => apply kp_car
    | |- kp (ListVec.cdr _) => apply kp_cdr
    | |- kp ListVec.cons_ => apply kp_cons_
    | |- kp ListVec.set_car => apply kp_set_car
    | |- kp ListVec.set_cdr => apply kp_set_cdr
    | |- kp (ListVec.append _) => apply kp_append
    | |- kp (ListVec.reverse _) => apply kp_reverse
    | |- kp (ListVec.list_tail _) => apply kp_list_tail
    | |- kp (ListVec.list_ref _) => apply kp_list_ref
    | |- kp ListVec.vector => apply kp_vector
    | |- kp ListVec.make_vector => apply kp_make_vector
    | |- kp ListVec.vector_length => apply kp_vector_length
    | |- kp ListVec.vector_ref => apply kp_vector_ref
    | |- kp ListVec.vector_set => apply kp_vector_set
    | |- kp ListVec.vector_fill => apply kp_vector_fill
    | |- kp ListVec.vector_to_list => apply kp_vector_to_list
    | |- kp (ListVec.list_to_vector _) => apply kp_list_to_vector
    | |- kp ListVec.vector_copy => apply kp_vector_copy
    | |- kp ListVec.vector_mut_copy => apply kp_vector_mut_copy
    | |- kp ListVec.is_boolean => apply kp_is_boolean
    | |- kp ListVec.is_char => apply kp_is_char
    | |- kp ListVec.is_null => apply kp_is_null
    | |- kp ListVec.is_number => apply kp_is_number
    | |- kp ListVec.is_complex => apply kp_is_complex
    | |- kp ListVec.is_real => apply kp_is_real
    | |- kp ListVec.is_rational => apply kp_is_rational
    | |- kp ListVec.is_integer => apply kp_is_integer
    | |- kp ListVec.is_pair_b => apply kp_is_pair_b
    | |- kp ListVec.is_procedure => apply kp_is_procedure
    | |- kp ListVec.is_string => apply kp_is_string
    | |- kp ListVec.is_symbol => apply kp_is_symbol
    | |- kp ListVec.is_vector => apply kp_is_vector
    | |- kp ListVec.is_port => apply kp_is_port
    | |- kp (ListVec.is_list _) => apply kp_is_list
    | |- kp ListVec.eq_b => apply kp_eq_b
    | |- kp ListVec.eqv_b => apply kp_eqv_b
    | |- kp (ListVec.equal_b _) => apply kp_equal_b
    | |- kp ListVec.not_b => apply kp_not_b
    | |- kp (panic _) => apply kp_panic
    end.
Qed.

Print Assumptions kp_lv_builtin.
