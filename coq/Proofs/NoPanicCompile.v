(* NoPanicCompile.v — C06: the COMPILER (Model/Compile.v), compile_runnable, prepare_eval and the
   `eval` builtin in the [npost] calculus of NoPanicBase.v.
   [bcwf s l]  : every cell of the bytecode under construction is not dangling in s
   [lastop l]  : the FIRST emitted cell (the last of the reversed list) is an opcode, so that the
                 finished code object satisfies [head_ok]
   The postcondition also carries [bc_len l <= bc_len l'] (needed for bc_patch in `if`).   *)
From Coq Require Import Lia List.
From MW Require Import Model.Base Model.F64 Model.Num Model.Datum Model.TransformDef Model.Transform
  Model.VmTypes Model.Heap Model.Gc Model.VmBase Model.Compile Model.Vm
  Proofs.GcProofs Proofs.SymtabProofs Proofs.VmProofs0 Proofs.TailProofs Proofs.EnvProofs
  Proofs.FlatProofs Proofs.FlatCompile Proofs.TransformProofs Proofs.FreeSymProofs
  Proofs.NoPanicBase Proofs.NoPanicPrims Proofs.NoPanicPrims2 Proofs.NoPanicPrims3 Proofs.NoPanicPutCell.
Open Scope N_scope.
Arguments N.add : simpl never.
Arguments N.sub : simpl never.
Arguments N.eqb : simpl never.
Arguments N.ltb : simpl never.
Arguments N.leb : simpl never.
Arguments N.mul : simpl never.

(* ------------------------------------------------------------------ the invariant of the builder *)
Definition bcwf (s : vm) (l : lambda) : Prop := forall v, In v (l_bc l) -> vwf s v.
Definition lastop (l : lambda) : Prop := exists o pre, l_bc l = pre ++ [VOp o].
Definition CI (s : vm) (l : lambda) : Prop := bcwf s l /\ lastop l.
Definition CQ (l : lambda) (s' : vm) (l' : lambda) : Prop := CI s' l' /\ bc_len l <= bc_len l'.

Lemma bcwf_grow s s' l : grow0 s s' -> bcwf s l -> bcwf s' l.
Proof. intros G H v Hv. eapply vwf_grow; [exact G|apply H, Hv]. Qed.
Lemma CI_grow s s' l : grow s s' -> CI s l -> CI s' l.
Proof. intros [G _] [H1 H2]. split; [eapply bcwf_grow; eassumption|exact H2]. Qed.
Lemma CI_emit s l v : CI s l -> vwf s v -> CI s (emit l v).
Proof.
  intros [H1 (o & pre & E)] Hv. split.
  - intros w Hw. cbn [emit l_bc] in Hw. destruct Hw as [<-|Hw]; [exact Hv|apply H1, Hw].
  - exists o, (v :: pre). cbn [emit l_bc]. rewrite E. reflexivity.
Qed.
Lemma CI_first s l o : l_bc l = [] -> CI s (emit_op l o).
Proof.
  intros E. split.
  - intros w Hw. cbn [emit_op emit l_bc] in Hw. rewrite E in Hw. destruct Hw as [<-|[]]. exact I.
  - exists o, []. cbn [emit_op emit l_bc]. rewrite E. reflexivity.
Qed.
Lemma CQ_refl s l : CI s l -> CQ l s l.
Proof. intros H. split; [exact H|lia]. Qed.
Lemma bc_len_emit l v : bc_len (emit l v) = bc_len l + 1.
Proof. unfold bc_len. cbn [emit l_bc]. apply len_cons'. Qed.
Lemma bc_len_patch l i v : bc_len (bc_patch l i v) = bc_len l.
Proof. unfold bc_len at 1. cbn [bc_patch l_bc]. apply list_set_len. Qed.

Lemma list_set_nat_app {A} (a : list A) x : forall k v, (k < length a)%nat ->
  list_set_nat (a ++ [x]) k v = list_set_nat a k v ++ [x].
Proof.
  induction a as [|y a IH]; intros k v Hk; cbn [length] in Hk; [lia|].
  destruct k as [|k]; cbn [app list_set_nat]; [reflexivity|]. rewrite IH by lia. reflexivity.
Qed.
Lemma in_list_set_nat {A} (l : list A) : forall k v w, In w (list_set_nat l k v) -> w = v \/ In w l.
Proof.
  induction l as [|y l IH]; intros k v w H.
  - destruct k; cbn in H; contradiction.
  - destruct k as [|k]; cbn [list_set_nat In] in H |- *.
    + destruct H as [<-|H]; auto.
    + destruct H as [<-|H]; auto. apply IH in H as [H|H]; auto.
Qed.
Lemma CI_patch s l i q : CI s l -> 1 <= i -> 2 <= bc_len l -> CI s (bc_patch l i (VPtr q)).
Proof.
  intros [H1 (o & pre & E)] Hi Hl. split.
  - intros w Hw. cbn [bc_patch l_bc] in Hw. unfold list_set in Hw.
    apply in_list_set_nat in Hw as [->|Hw]; [exact I|apply H1, Hw].
  - exists o, (list_set_nat pre (N.to_nat (bc_len l - 1 - i)) (VPtr q)).
    cbn [bc_patch l_bc]. unfold list_set. rewrite E at 1. apply list_set_nat_app.
    unfold bc_len, len in *. rewrite E in Hl |- *. rewrite app_length in Hl |- *. cbn [length] in Hl |- *. lia.
Qed.
Lemma lastop_head l : lastop l -> head_ok (lambda_finish l).
Proof.
  intros (o & pre & E). exists o. cbn [lambda_finish l_bc]. rewrite E, rev_app_distr. reflexivity.
Qed.

#[local] Hint Rewrite bc_len_emit bc_len_patch : bclen.
Ltac lens := unfold CQ in *; unfold emit_op in *; autorewrite with bclen in *; lia.
Ltac ci := repeat first [ assumption
                        | apply CI_emit; [|first [exact I|assumption|idtac]]
                        | apply CI_patch; [|lens|lens] ].
Ltac gr := solve [repeat first [assumption | apply grow_refl | eapply grow_trans; [eassumption|]]].
Ltac cell_ind x := induction x as [xb|xc| |xn|a IHa d IHd|xs|xs|xl| | |xo| | ].
Ltac ifd := match goal with |- npost _ _ ((if ?b then _ else _) _) _ => destruct b end.

(* ------------------------------------------------------------------ generic steps *)
Lemma npo_le s (r : VmBase.res lambda) l l1 : bc_len l <= bc_len l1 -> npo s r (CQ l1) -> npo s r (CQ l).
Proof. intros L. apply npost_weaken. intros s' l' _ _ [H1 H2]. split; [exact H1|lia]. Qed.
Lemma npo_pre {X} s s1 (r : VmBase.res X) Q : grow s s1 -> npo s1 r Q -> npo s r Q.
Proof.
  intros G. destruct r; cbn [npost]; auto.
  - intros (W & G2 & H). split; [exact W|]. split; [eapply grow_trans; eassumption|exact H].
  - intros (W & G2). split; [exact W|eapply grow_trans; eassumption].
Qed.
Lemma opan_use {X} (o : out X) : opan o -> forall k, o = Panic k -> okp k.
Proof. intros H k ->. exact H. Qed.
Lemma np_bind_lift {X Y} (o : out X) (k : X -> M Y) s (R : vm -> Y -> Prop) :
  wfm s -> opan o -> (forall x, o = Ok x -> npo s (k x s) R) -> npo s (bindM (lift o) k s) R.
Proof.
  intros W Hp Hk. unfold bindM, lift. destruct o as [x|e|j|]; cbv beta iota.
  - apply Hk; reflexivity.
  - cbn [npost]. split; [exact W|apply grow_refl].
  - exact Hp.
  - exact I.
Qed.
Lemma car_opan c : opan (car_e c). Proof. destruct c; exact I. Qed.
Lemma cdr_opan c : opan (cdr_e c). Proof. destruct c; exact I. Qed.
Lemma try_new_opan e : opan (transform_try_new e).
Proof. pose proof (define_total e) as H. destruct (transform_try_new e); try exact I; destruct H. Qed.

(* free_symbols / internally_defined_symbols never panic *)
Lemma ffs_formals_opan a : forall e, opan (ffs_formals a e).
Proof.
  cell_ind a; intros e0; try exact I.
  change (opan (if is_symbol a then ffs_formals d (a :: e0) else Err E_OTHER)).
  destruct (is_symbol a); [apply IHd|exact I].
Qed.
Lemma ffs_over_opan f env' : (forall c env free, opan (ffs f c env free)) ->
  forall r free, opan (ffs_over f env' r free).
Proof.
  intros IH r. cell_ind r; intros free; try exact (IH _ _ _); try exact I.
  change (opan (bind (ffs f a env' free) (fun fr => ffs_over f env' d fr))).
  apply opan_bind; [apply IH|intros fr _; apply IHd].
Qed.
Lemma ffs_opan f : forall c env free, opan (ffs f c env free).
Proof.
  induction f as [|f IH]; intros c env free; [exact I|].
  destruct c as [?|?| |?|car cdr|?|?|?| | |?| | ]; try exact I.
  rewrite ffs_pair_eq. destruct (_ || _); [exact I|]. cbv zeta.
  apply opan_bind; [destruct (is_pair car); [apply IH|exact I]|]. intros free2 _.
  apply opan_bind.
  { destruct (sym_eq car _); [destruct cdr; exact I|].
    destruct (sym_eq car _); [|exact I]. destruct cdr; try exact I.
    apply opan_bind; [apply ffs_formals_opan|intros; exact I]. }
  intros [env' rest] _. apply ffs_over_opan, IH.
Qed.
Lemma free_opan e : opan (free_symbols e).
Proof. apply ffs_opan. Qed.
Lemma ids_loop_opan l : forall b acc, opan (ids_loop l b acc).
Proof.
  induction l as [|e r IH]; intros b acc; [exact I|]. cbn [ids_loop].
  destruct e; try apply IH. destruct (sym_eq _ _); [|apply IH]. destruct (negb b); [exact I|apply IH].
Qed.
Lemma ids_opan b : opan (internally_defined_symbols b).
Proof. apply ids_loop_opan. Qed.

(* the macro expander (Model/Transform.v, transform_expr of Model/Compile.v) panics at the sites
   542 / 447 only; both are allowed *)
Ltac oif := match goal with |- opan (if ?b then _ else _) => destruct b end.
Lemma pm_loop_opan lits ell rec : (forall a b c, opan (rec a b c)) ->
  forall eit pit cur ie env, opan (pm_loop lits ell rec eit pit cur ie env).
Proof.
  intros Hr. induction eit as [|e eit IH]; intros pit cur ie env; [exact I|].
  cbn [pm_loop]. destruct (pm_select _ _ _ _) as [b|cur' pit']; [exact I|]. cbv zeta.
  destruct cur'; repeat oif; try exact I; try apply IH.
  apply opan_bind; [apply Hr|]. intros [env'|] _; [apply IH|exact I].
Qed.
Lemma pattern_match_opan lits ell f : forall pt e env, opan (pattern_match lits ell f pt e env).
Proof.
  induction f as [|f IH]; intros pt e env; [exact I|]. cbn [pattern_match].
  oif; [exact I|]. apply pm_loop_opan. exact IH.
Qed.
Lemma geb_opan bs its sym : opan (get_expanded_binding bs its sym).
Proof.
  unfold get_expanded_binding. destruct (iters_find its sym) as [pos|]; [|exact I]. cbv zeta.
  oif; [reflexivity|]. destruct (find_binding _ sym 0) as [[k v]|]; exact I.
Qed.
Lemma tgb_opan p bs its sym : opan (Transform.get_binding p bs its sym).
Proof. unfold Transform.get_binding. oif; [exact I|]. oif; [apply geb_opan|exact I]. Qed.
Lemma expand_opan ell p bs f :
  (forall t its, opan (expand ell p bs f t its)) /\ (forall t tit v its, opan (expand_loop ell p bs f t tit v its)).
Proof.
  induction f as [|f [IH1 IH2]]; [split; intros; exact I|]. split.
  - intros t its. cbn [expand]. destruct t; try exact I.
    + destruct (elems (CPair t1 t2)) as [|t0 tit]; [reflexivity|apply IH2].
    + oif; [apply tgb_opan|exact I].
  - intros t tit v its. cbn [expand_loop]. cbv zeta. apply opan_bind; [apply IH1|]. intros [r its1] _.
    destruct r as [c|].
    + oif; [apply IH2|]. destruct tit; [exact I|apply IH2].
    + oif; [exact I|]. destruct (tl tit); [exact I|apply IH2].
Qed.
Lemma transform_rules_opan extra tr rules expr : opan (transform_rules extra tr rules expr).
Proof.
  induction rules as [|[pat template] rest IH]; cbn [transform_rules]; [exact I|].
  apply opan_bind; [destruct (p_expr pat); exact I|intros pd _].
  apply opan_bind; [destruct expr; exact I|intros ed _].
  apply opan_bind; [apply pattern_match_opan|intros m _]. destruct m as [bs|]; [|apply IH].
  apply opan_bind; [apply expand_opan|]. intros [r its] _. destruct r; exact I.
Qed.
Lemma transform_apply_opan tr expr : opan (transform_apply tr expr).
Proof. unfold transform_apply, transform_apply_fuel. oif; [exact I|apply transform_rules_opan]. Qed.
Lemma transform_expr_opan f : forall s e, opan (transform_expr f s e).
Proof.
  induction f as [|f IH]; intros s e; [exact I|]. cbn [transform_expr].
  destruct e as [?|?| |?|proc rest|?|?|?| | |?| | ]; try exact I.
  oif; [exact I|]. destruct (macro_of s proc) as [tr|].
  - apply opan_bind; [apply transform_apply_opan|intros x _; apply IH].
  - apply opan_bind; [apply IH|intros p' _]. apply opan_bind; [|intros; exact I].
    match goal with |- opan (?F rest) => assert (HF : forall r, opan (F r)); [|apply HF] end.
    intros r. cell_ind r; try exact (IH _ _); try exact I.
    simpl. apply opan_bind; [apply IH|intros x' _]. apply opan_bind; [apply IHd|intros; exact I].
Qed.

(* ------------------------------------------------------------------ what the compiler stores is a datum *)
(* site 12 (put_cell of a procedure / continuation / macro object): every cell the compiler hands to
   put_cell is a symbol - the free and internally defined symbols, formals, the targets of define / set!,
   the keyword of define-syntax - or has passed the test [cell_is_datum] (quote, quasiquote leaves) *)
Definition all_sym (l : list cell) : Prop := forall c, In c l -> Compile.is_symbol c = true.
Definition opost {X} (P : X -> Prop) (o : out X) : Prop := match o with Ok x => P x | _ => True end.
Lemma opost_bind {X Y} (P : X -> Prop) (Q : Y -> Prop) (o : out X) (f : X -> out Y) :
  opost P o -> (forall x, P x -> opost Q (f x)) -> opost Q (bind o f).
Proof. intros H1 H2. destruct o; cbn [bind opost] in *; auto. Qed.
Lemma opost_true {X} (o : out X) : opost (fun _ => True) o.
Proof. destruct o; exact I. Qed.
Lemma sym_datum c : Compile.is_symbol c = true -> cell_is_datum c = true.
Proof. destruct c; try discriminate; reflexivity. Qed.
Lemma add_sym_all c l : Compile.is_symbol c = true -> all_sym l -> all_sym (add_sym c l).
Proof.
  intros Hc Hl. unfold add_sym. destruct (cell_in_syms c l); [exact Hl|].
  intros x Hx. apply in_app_or in Hx. destruct Hx as [Hx|[<-|[]]]; [apply Hl, Hx|exact Hc].
Qed.
Lemma ffs_over_syms f env' : (forall c env free, all_sym free -> opost all_sym (ffs f c env free)) ->
  forall r free, all_sym free -> opost all_sym (ffs_over f env' r free).
Proof.
  intros IH r. cell_ind r; intros free Hf; try exact (IH _ _ _ Hf); try exact Hf.
  change (opost all_sym (bind (ffs f a env' free) (fun fr => ffs_over f env' d fr))).
  eapply opost_bind; [apply IH, Hf|intros fr Hfr; apply IHd, Hfr].
Qed.
Lemma ffs_syms f : forall c env free, all_sym free -> opost all_sym (ffs f c env free).
Proof.
  induction f as [|f IH]; intros c env free Hf; [exact I|].
  destruct c as [?|?| |?|car cdr|?|sy|?| | |?| | ]; try exact Hf.
  - rewrite ffs_pair_eq. destruct (_ || _); [exact Hf|]. cbv zeta.
    assert (H1 : all_sym (if Compile.is_symbol car && negb (is_primitive_symbol car) && negb (cell_in_syms car env)
                          then add_sym car free else free)).
    { destruct (Compile.is_symbol car && negb (is_primitive_symbol car) && negb (cell_in_syms car env)) eqn:Ec; [|exact Hf].
      apply add_sym_all; [|exact Hf]. apply andb_prop in Ec. destruct Ec as [Ec _]. apply andb_prop in Ec. exact (proj1 Ec). }
    eapply opost_bind; [destruct (is_pair car); [apply IH, H1|exact H1]|]. intros free2 H2.
    eapply opost_bind; [apply opost_true|]. intros [env' rest] _. apply ffs_over_syms; [exact IH|exact H2].
  - cbn [ffs opost]. destruct (cell_in_syms (CSym sy) env); [exact Hf|]. apply add_sym_all; [reflexivity|exact Hf].
Qed.
Lemma free_syms e l : free_symbols e = Ok l -> all_sym l.
Proof.
  intros E. pose proof (ffs_syms (S (cell_size e)) e [] [] (fun c (H : In c []) => match H with end)) as H.
  unfold free_symbols in E. rewrite E in H. exact H.
Qed.
Lemma ids_loop_syms l : forall b acc, all_sym acc -> opost all_sym (ids_loop l b acc).
Proof.
  induction l as [|e r IH]; intros b acc Ha; [exact Ha|]. cbn [ids_loop].
  destruct e; try (apply IH, Ha). destruct (sym_eq _ _); [|apply IH, Ha]. destruct (negb b); [exact I|].
  apply IH.
  repeat match goal with |- all_sym (match ?x with _ => _ end) => destruct x end; try exact Ha;
    (apply add_sym_all; [reflexivity|exact Ha]).
Qed.
Lemma ids_syms b l : internally_defined_symbols b = Ok l -> all_sym l.
Proof.
  intros E. pose proof (ids_loop_syms (cell_iter b) true [] (fun c (H : In c []) => match H with end)) as H.
  unfold internally_defined_symbols in E. rewrite E in H. exact H.
Qed.
Lemma try_new_keyword e tr : transform_try_new e = Ok tr -> cell_is_datum (tr_keyword tr) = true.
Proof.
  unfold transform_try_new. destruct (elems e) as [|x0 [|k [|sr [|]]]]; try discriminate.
  destruct (Transform.is_symbol k) eqn:Ek; cbn [negb]; [|discriminate]. intros H.
  repeat match type of H with
         | bind ?o _ = Ok _ => destruct o eqn:?; cbn [bind] in H; try discriminate H
         | (if ?b then _ else _) = Ok _ => destruct b; try discriminate H
         | (let '(_, _) := ?q in _) = Ok _ => destruct q
         end.
  injection H as <-. cbn [tr_keyword]. destruct k; try discriminate Ek; reflexivity.
Qed.

Section Compile.
(* the two quoted-datum primitives (put_cell / maybe_put_cell) are in NoPanicPutCell.v *)

Lemma np_put_cells l : all_sym l -> forall s, wfm s -> npo s (put_cells l s) T_.
Proof.
  induction l as [|c r IH]; intros Hl s W; cbn [put_cells]; [apply npost_ret; [exact W|exact I]|].
  eapply npost_bind; [apply np_put_cell_m; [apply sym_datum, Hl; left; reflexivity|exact W]|]. intros p s1 W1 G1 _.
  eapply npost_bind; [apply IH; [intros x Hx; apply Hl; right; exact Hx|exact W1]|]. intros ps s2 W2 G2 _. apply npost_ret; [exact W2|exact I].
Qed.
Lemma np_compile_formals a : forall acc s, wfm s -> npo s (compile_formals a acc s) T_.
Proof.
  cell_ind a; intros acc s W; cbn [compile_formals]; try (apply npost_ret; [exact W|exact I]).
  - destruct (Compile.is_symbol a) eqn:Ea; cbn [negb]; [|apply npost_fail, W]. ifd; [apply npost_fail, W|].
    eapply npost_bind; [apply np_put_cell_m; [apply sym_datum, Ea|exact W]|]. intros p s1 W1 G1 _. apply IHd, W1.
  - ifd; [apply npost_fail, W|].
    eapply npost_bind; [apply np_put_cell_m; [reflexivity|exact W]|]. intros p s1 W1 G1 _. apply npost_ret; [exact W1|exact I].
Qed.
Lemma np_location_operand l r s : wfm s -> npo s (location_operand l r s) V.
Proof.
  intros W. unfold location_operand. destruct (binding_location l r); try (apply npost_ret; [exact W|exact I]).
  destruct r; try (apply npost_panic; reflexivity).
  eapply npost_bind; [apply np_get_binding, W|]. intros k s1 W1 G1 Hk. apply npost_ret; [exact W1|exact Hk].
Qed.

(* a fresh macro on the heap (define-syntax) *)
Lemma cp_new_macro s tr : wfm s ->
  let '(mid, x) := new_macro (st s) tr in
  let '(tp, h) := heap_put (hp s) (VMacro mid) in
  wfm (with_store (with_heap s h) x) /\ grow s (with_store (with_heap s h) x) /\ exists p, tp = VPtr p.
Proof.
  intros W. cbv beta iota delta [new_macro].
  pose proof (np_hput (VMacro (next_id (st s))) s W I) as H. unfold hput in H.
  destruct (heap_put (hp s) (VMacro (next_id (st s)))) as [tp h]. cbn [npost] in H. destruct H as (W1 & G1 & Hp).
  assert (H2 : npo (with_heap s h) (ROk tt (with_store (with_heap s h)
            (mk_store (strs (st s)) (vecs (st s)) (envs (st s)) (lams (st s)) (conts (st s))
                      (tset (macros (st s)) (next_id (st s)) tr) (next_id (st s) + 1)))) T_).
  { apply npost_store; cbn [st with_heap strs vecs envs lams conts]; auto; try exact I; intros; left; eauto. }
  cbn [npost] in H2. destruct H2 as (W2 & G2 & _).
  split; [exact W2|]. split; [eapply grow_trans; eassumption|exact Hp].
Qed.

(* ------------------------------------------------------------------ the forms *)
Section Step.
Variable ce : lambda -> bool -> cell -> M lambda.
Variable cq : lambda -> cell -> N -> M lambda.
Hypothesis IHe : forall l tail e s, wfm s -> CI s l -> npo s (ce l tail e s) (CQ l).
Hypothesis IHq : forall l e d s, wfm s -> CI s l -> npo s (cq l e d s) (CQ l).

Lemma c_quote l x s : wfm s -> CI s l -> npo s (f_quote l x s) (CQ l).
Proof.
  intros W HI. unfold f_quote. destruct (cell_is_datum x) eqn:D; cbn [negb]; [|apply npost_fail, W].
  eapply npost_bind; [apply np_maybe_put_cell_m; [exact D|exact W]|].
  intros v s1 W1 G1 Hv. apply npost_ret; [exact W1|]. pose proof (CI_grow _ _ _ G1 HI) as HI1.
  split; [ci|lens].
Qed.
Lemma c_store l x s : Compile.is_symbol x = true -> wfm s -> CI s l -> npo s (f_store l x s) (CQ l).
Proof.
  intros Hx W HI. unfold f_store. eapply npost_bind; [apply np_put_cell_m; [apply sym_datum, Hx|exact W]|]. intros r s1 W1 G1 (p & ->).
  cbv beta zeta. eapply npost_bind; [apply np_location_operand, W1|]. intros op s2 W2 G2 Hop.
  apply npost_ret; [exact W2|]. assert (HI2 : CI s2 l) by (eapply CI_grow; [|exact HI]; gr).
  split; [ci|lens].
Qed.
Lemma c_body b : forall lam s, wfm s -> CI s lam -> npo s (f_body ce b lam s) (CQ lam).
Proof.
  cell_ind b; intros lam s W HI; cbn [f_body]; try (apply npost_ret; [exact W|apply CQ_refl, HI]).
  eapply npost_bind; [apply IHe; assumption|]. intros lam' s1 W1 G1 [HI1 L1].
  eapply npo_le; [exact L1|]. apply IHd; assumption.
Qed.
Lemma c_lambda iof e d s : wfm s -> CI s iof -> npo s (f_lambda ce iof e d s) (CQ iof).
Proof.
  intros W HI. unfold f_lambda.
  apply np_bind_lift; [exact W|apply cdr_opan|intros rest _].
  ifd; [apply npost_fail, W|].
  apply np_bind_lift; [exact W|apply car_opan|intros head _].
  apply np_bind_lift; [exact W|apply cdr_opan|intros body _].
  eapply npost_bind with (Q := T_).
  { destruct d; [apply np_lift; [exact W|apply opan_use, cdr_opan]|apply npost_ret; [exact W|exact I]]. }
  intros fa s1 W1 G1 _.
  eapply npost_bind with (Q := T_).
  { destruct (Compile.is_nil fa); [apply npost_ret; [exact W1|exact I]|apply np_compile_formals, W1]. }
  intros [formals vararg] s2 W2 G2 _. cbv beta iota.
  apply np_bind_lift; [exact W2|apply free_opan|intros free Efree].
  eapply npost_bind; [apply np_put_cells; [exact (free_syms _ _ Efree)|exact W2]|]. intros frefs s3 W3 G3 _.
  apply np_bind_lift; [exact W3|apply ids_opan|intros internal Eint].
  eapply npost_bind; [apply np_put_cells; [exact (ids_syms _ _ Eint)|exact W3]|]. intros irefs s4 W4 G4 _.
  cbv beta zeta. ifd; [apply npost_fail, W4|].
  eapply npost_bind.
  { apply c_body; [exact W4|].
    destruct vararg; [apply CI_emit; [apply CI_first; reflexivity|exact I]|apply CI_first; reflexivity]. }
  intros lam3 s5 W5 G5 [HI5 L5].
  pose proof (CI_emit s5 lam3 (VOp ORet) HI5 I) as [B5 O5].
  eapply npost_bind; [apply np_put_lambda; [exact W5|apply lastop_head, O5|exact B5]|].
  intros lp s6 W6 G6 (p & -> & Hp).
  apply npost_ret; [exact W6|]. assert (HI6 : CI s6 iof) by (eapply CI_grow; [|exact HI]; gr).
  split; [ci|lens].
Qed.
Lemma c_if_core l tail t c alt s : wfm s -> CI s l -> npo s (f_if_core ce l tail t c alt s) (CQ l).
Proof.
  intros W HI. unfold f_if_core.
  eapply npost_bind; [apply IHe; assumption|]. intros l1 s1 W1 G1 [HI1 L1]. cbv beta zeta.
  eapply npost_bind; [apply IHe; [exact W1|ci]|]. intros l4 s2 W2 G2 [HI2 L2].
  eapply npost_bind.
  { destruct alt as [a|]; [apply IHe; [exact W2|ci]|].
    apply npost_ret; [exact W2|]. split; [ci|lens]. }
  intros l8 s3 W3 G3 [HI3 L3]. apply npost_ret; [exact W3|]. split; [ci|lens].
Qed.
Lemma c_if l tail rest s : wfm s -> CI s l -> npo s (f_if ce l tail rest s) (CQ l).
Proof.
  intros W HI. unfold f_if. ifd; [apply npost_fail, W|].
  eapply npost_bind with (Q := T_).
  { destruct (cell_iter rest) as [|t [|c [|a [|]]]]; try (apply npost_fail, W); (apply npost_ret; [exact W|exact I]). }
  intros [[t c] alt] s1 W1 G1 _. cbv beta iota.
  apply c_if_core; [exact W1|eapply CI_grow; eassumption].
Qed.
Lemma c_args r : forall lam n s, wfm s -> CI s lam ->
  npo s (f_args ce r lam n s) (fun s' p => CQ lam s' (fst p)).
Proof.
  cell_ind r; intros lam n s W HI; cbn [f_args]; try (apply npost_ret; [exact W|apply CQ_refl, HI]).
  eapply npost_bind; [apply IHe; assumption|]. intros lam' s1 W1 G1 [HI1 L1].
  eapply npost_weaken; [|apply IHd; [exact W1|ci]].
  intros s' p _ _ [H1 H2]. split; [exact H1|lens].
Qed.
Lemma c_app l tail p r s : wfm s -> CI s l -> npo s (f_app ce l tail p r s) (CQ l).
Proof.
  intros W HI. unfold f_app. eapply npost_bind; [apply c_args; assumption|].
  intros [l1 n] s1 W1 G1 [HI1 L1]. cbn [fst] in HI1, L1. cbv beta iota zeta.
  eapply npost_bind; [apply IHe; [exact W1|ci]|]. intros l3 s2 W2 G2 [HI2 L2].
  apply npost_ret; [exact W2|]. split; [ci|lens].
Qed.
Lemma c_defsyntax l e s : wfm s -> CI s l -> npo s (f_defsyntax l e s) (CQ l).
Proof.
  intros W HI. unfold f_defsyntax. apply np_bind_lift; [exact W|apply try_new_opan|intros tr Etr].
  pose proof (cp_new_macro s tr W) as H.
  destruct (new_macro (st s) tr) as [mid x]. destruct (heap_put (hp s) (VMacro mid)) as [tp h].
  destruct H as (W0 & G0 & (tpp & ->)). eapply npo_pre; [exact G0|].
  eapply npost_bind; [apply np_put_cell_m; [exact (try_new_keyword _ _ Etr)|exact W0]|]. intros r s1 W1 G1 (p & ->).
  eapply npost_bind; [apply np_as_ptr, W1|]. intros q s2 W2 G2 _.
  eapply npost_bind; [apply np_get_binding, W2|]. intros slot s3 W3 G3 Hslot.
  apply npost_ret; [exact W3|]. assert (HI3 : CI s3 l) by (eapply CI_grow; [|exact HI]; gr).
  split; [ci|lens].
Qed.
Lemma c_define l e rest s : wfm s -> CI s l -> npo s (f_define ce l e rest s) (CQ l).
Proof.
  intros W HI. unfold f_define. ifd; [apply npost_fail, W|].
  apply np_bind_lift; [exact W|apply cdr_opan|intros r1 _]. ifd; [apply npost_fail, W|].
  apply np_bind_lift; [exact W|apply car_opan|intros target _].
  eapply npost_bind with (Q := fun s' p => CQ l s' (fst p) /\ Compile.is_symbol (snd p) = true).
  { destruct target as [?|?| |?|name tl|?|?|?| | |?| | ]; try (apply npost_fail, W).
    - destruct (Compile.is_symbol name) eqn:En; cbn [negb]; [|apply npost_fail, W].
      eapply npost_bind; [apply c_lambda; assumption|]. intros l1 s1 W1 G1 H1.
      apply npost_ret; [exact W1|split; [exact H1|exact En]].
    - apply np_bind_lift; [exact W|apply cdr_opan|intros r2 _]. ifd; [apply npost_fail, W|].
      apply np_bind_lift; [exact W|apply car_opan|intros v _].
      eapply npost_bind; [apply IHe; assumption|]. intros l1 s1 W1 G1 H1.
      apply npost_ret; [exact W1|split; [exact H1|reflexivity]]. }
  intros [l1 symbol] s1 W1 G1 [[HI1 L1] Hsym]. cbn [fst snd] in HI1, L1, Hsym. cbv beta iota.
  ifd; [apply npost_fail, W1|]. eapply npo_le; [exact L1|]. apply c_store; assumption.
Qed.
Lemma c_set l rest s : wfm s -> CI s l -> npo s (f_set ce l rest s) (CQ l).
Proof.
  intros W HI. unfold f_set. destruct (cell_iter rest) as [|v [|x [|]]]; try (apply npost_fail, W).
  destruct (Compile.is_symbol v) eqn:Ev; cbn [negb orb]; [|apply npost_fail, W].
  ifd; [apply npost_fail, W|].
  eapply npost_bind; [apply IHe; assumption|]. intros l1 s1 W1 G1 [HI1 L1].
  eapply npo_le; [exact L1|]. apply c_store; assumption.
Qed.
Theorem c_expr l tail e s : wfm s -> CI s l -> npo s (f_expr ce cq l tail e s) (CQ l).
Proof.
  intros W HI. unfold f_expr.
  destruct e as [?|?| |?|proc rest|?|?|?| | |?| | ]; try (apply npost_fail, W); try (apply c_quote; assumption).
  - ifd; [apply c_define; assumption|]. ifd; [apply c_defsyntax; assumption|].
    ifd; [apply c_lambda; assumption|].
    ifd; [apply np_bind_lift; [exact W|apply car_opan|intros x _]; apply IHq; assumption|].
    ifd; [apply np_bind_lift; [exact W|apply car_opan|intros x _]; apply c_quote; assumption|].
    ifd; [apply c_if; assumption|]. ifd; [apply c_set; assumption|]. apply c_app; assumption.
  - ifd; [apply npost_fail, W|].
    eapply npost_bind; [apply np_put_cell_m; [reflexivity|exact W]|]. intros r s1 W1 G1 (p & ->).
    eapply npost_bind; [apply np_location_operand, W1|]. intros op s2 W2 G2 Hop.
    apply npost_ret; [exact W2|]. assert (HI2 : CI s2 l) by (eapply CI_grow; [|exact HI]; gr).
    split; [ci|lens].
Qed.

Lemma c_items depth its : forall lam s, wfm s -> CI s lam -> npo s (f_items cq depth its lam s) (CQ lam).
Proof.
  induction its as [|it r IH]; intros lam s W HI; cbn [f_items]; [apply npost_ret; [exact W|apply CQ_refl, HI]|].
  eapply npost_bind; [apply IHq; [exact W|ci]|]. intros lam' s1 W1 G1 [HI1 L1].
  eapply npost_weaken; [|apply IH; [exact W1|ci]].
  intros s' p _ _ [H1 H2]. split; [exact H1|lens].
Qed.
Lemma c_elems depth r : forall lam cnt s, wfm s -> CI s lam ->
  npo s (f_elems cq depth r lam cnt s) (fun s' p => CQ lam s' (fst (fst p))).
Proof.
  cell_ind r; intros lam cnt s W HI; cbn [f_elems]; try (apply npost_ret; [exact W|apply CQ_refl, HI]).
  eapply npost_bind; [apply IHq; assumption|]. intros lam' s1 W1 G1 [HI1 L1].
  eapply npost_weaken; [|apply IHd; [exact W1|ci]].
  intros s' p _ _ [H1 H2]. split; [exact H1|lens].
Qed.
Lemma c_conses s count k : forall i lam, CI s lam -> CQ lam s (f_conses count k i lam).
Proof.
  induction k as [|k IH]; intros i lam HI; cbn [f_conses]; [apply CQ_refl, HI|]. cbv zeta.
  destruct (i <? count - 1).
  - destruct (IH (i + 1) (emit_op (emit_op lam OCons) OPushAcc)) as [H1 H2]; [ci|]. split; [exact H1|lens].
  - destruct (IH (i + 1) (emit_op lam OCons)) as [H1 H2]; [ci|]. split; [exact H1|lens].
Qed.
Theorem c_quasi l e d s : wfm s -> CI s l -> npo s (f_quasi ce cq l e d s) (CQ l).
Proof.
  intros W HI. unfold f_quasi.
  destruct e as [?|?| |?|a0 d0|?|?|items| | |?| | ]; try (apply c_quote; assumption).
  - ifd.
    + apply np_bind_lift; [exact W|apply cdr_opan|intros d1 _].
      apply np_bind_lift; [exact W|apply car_opan|intros x _]. apply IHe; assumption.
    + cbv zeta. eapply npost_bind; [apply c_elems; assumption|].
      intros [[l1 count] tailc] s1 W1 G1 [HI1 L1]. cbn [fst] in HI1, L1. cbv beta iota.
      destruct (cell_is_datum tailc) eqn:Dt; cbn [negb]; [|apply npost_fail, W1].
      eapply npost_bind; [apply np_maybe_put_cell_m; [exact Dt|exact W1]|]. intros tv s2 W2 G2 Htv. cbv zeta.
      apply npost_ret; [exact W2|]. pose proof (CI_grow _ _ _ G2 HI1) as HI2.
      destruct (c_conses s2 count (N.to_nat count) 0 (emit (emit_op l1 OPushImmediate) tv)) as [H1 H2]; [ci|].
      split; [exact H1|lens].
  - eapply npost_bind.
    { apply np_vec_new; [exact W|]. intros j v H. unfold list_get in H. destruct (N.to_nat j); discriminate H. }
    intros nv s1 W1 G1 Hnv. eapply npost_bind; [apply np_hput; [exact W1|exact Hnv]|].
    intros r s2 W2 G2 (p & ->). cbv zeta.
    assert (HI2 : CI s2 l) by (eapply CI_grow; [|exact HI]; gr).
    eapply npost_weaken; [|apply c_items; [exact W2|ci]].
    intros s' p' _ _ [H1 H2]. split; [exact H1|lens].
Qed.
End Step.

(* ------------------------------------------------------------------ the compiler *)
Theorem np_compile_both f :
  (forall l tail e s, wfm s -> CI s l -> npo s (compile_expression f l tail e s) (CQ l)) /\
  (forall l e d s, wfm s -> CI s l -> npo s (compile_quasiquote f l e d s) (CQ l)).
Proof.
  induction f as [|f [IHe IHq]].
  - split; intros; exact I.
  - split.
    + intros l tail e s W HI. rewrite compile_expression_S. apply c_expr; assumption.
    + intros l e d s W HI. rewrite compile_quasiquote_S. apply c_quasi; assumption.
Qed.

Lemma CQ_post s (r : VmBase.res lambda) l : npo s r (CQ l) -> npo s r (fun s' l' => bcwf s' l' /\ lastop l').
Proof. apply npost_weaken. intros s' l' _ _ [H _]. exact H. Qed.

Theorem np_compile_expression f l tail e s : wfm s -> bcwf s l -> lastop l ->
  npo s (compile_expression f l tail e s) (fun s' l' => bcwf s' l' /\ lastop l').
Proof. intros W B O. apply (CQ_post s _ l). apply (proj1 (np_compile_both f)); [exact W|split; assumption]. Qed.
Theorem np_compile_quasiquote f l e d s : wfm s -> bcwf s l -> lastop l ->
  npo s (compile_quasiquote f l e d s) (fun s' l' => bcwf s' l' /\ lastop l').
Proof. intros W B O. apply (CQ_post s _ l). apply (proj2 (np_compile_both f)); [exact W|split; assumption]. Qed.

Theorem np_compile l tail e s : wfm s -> bcwf s l -> lastop l ->
  npo s (compile l tail e s) (fun s' l' => bcwf s' l' /\ lastop l').
Proof.
  intros W B O. unfold compile. destruct (transform_expr TRANSFORM_FUEL s e) as [e'|x|k|] eqn:E.
  - apply np_compile_expression; assumption.
  - cbn [npost]. split; [exact W|apply grow_refl].
  - cbn [npost]. exact (opan_use _ (transform_expr_opan _ _ _) _ E).
  - exact I.
Qed.

Theorem np_compile_runnable e s : wfm s ->
  npo s (compile_runnable e s) (fun s' l' => bcwf s' l' /\ lastop l').
Proof.
  intros W. unfold compile_runnable. cbv zeta.
  eapply npost_bind.
  { apply np_compile; [exact W|apply (CI_first s); reflexivity|apply (CI_first s); reflexivity]. }
  intros lam1 s1 W1 G1 HI1. change (CI s1 lam1) in HI1.
  pose proof (CI_emit s1 lam1 (VOp ORet) HI1 I) as [B1 O1].
  eapply npost_bind; [apply np_put_lambda; [exact W1|apply lastop_head, O1|exact B1]|].
  intros lp s2 W2 G2 (p & -> & Hp). apply npost_ret; [exact W2|].
  change (CI s2 (emit_op (emit_op (emit (emit (emit_op (emit (emit_op (lambda_new []) OPushImmediate) (VArgc 0))
                                             OMovImmediate) (VPtr p)) VAcc) OCallAcc) OHalt)).
  do 6 (apply CI_emit; [|exact I]). apply CI_first. reflexivity.
Qed.

Theorem np_prepare_eval e s : wfm s ->
  npost0 okp s (prepare_eval e s) (fun s' _ => lamcell s' (fst (ip s')) /\ snd (ip s') = 0).
Proof.
  intros W. unfold prepare_eval.
  eapply npost0_bind; [apply np_compile_runnable, W|]. intros entry s1 W1 G1 [B1 O1].
  eapply npost0_bind; [apply np_put_lambda; [exact W1|apply lastop_head, O1|exact B1]|].
  intros lp s2 W2 G2 (p & -> & Hp).
  eapply npost0_bind; [apply np_as_ptr, W2|]. intros q s3 W3 G3 Hq. injection Hq as <-.
  unfold set_ip. cbn [npost0]. split; [apply wfm_with_ip, W3|]. split; [apply grow0_with_ip|].
  cbn [ip with_ip fst snd]. split; [|reflexivity].
  eapply lamcell_grow; [apply grow0_with_ip|]. eapply lamcell_grow; [apply (grow_grow0 _ _ G3)|exact Hp].
Qed.

(* the `eval` builtin.  Its last action is dec_ip (site 48, excluded thanks to [ipge]); the result
   state has ip decremented, hence [npost0] *)
Theorem np_b_eval s : wfm s -> ipge s ->
  npost0 okp s (b_eval s) (fun s' r => (exists p, r = VPtr p /\ lamcell s' p) /\ lamcell s' (fst (ip s'))).
Proof.
  intros W Hip. unfold b_eval.
  eapply npost0_bind; [apply np_pop_argc, W|]. intros n s1 W1 G1 _.
  eapply npost0_bind; [apply np_pop_deref, W1|]. intros v s2 W2 G2 Hv.
  eapply npost0_bind; [apply np_to_cell; [exact W2|exact Hv]|]. intros e s3 W3 G3 _. cbv zeta.
  eapply npost0_bind.
  { apply np_compile; [exact W3|apply (CI_first s3); reflexivity|apply (CI_first s3); reflexivity]. }
  intros lam1 s4 W4 G4 HI4. change (CI s4 lam1) in HI4.
  pose proof (CI_emit s4 lam1 (VOp ORet) HI4 I) as [B4 O4].
  eapply npost0_bind; [apply np_put_lambda; [exact W4|apply lastop_head, O4|exact B4]|].
  intros lp s5 W5 G5 (p & -> & Hp).
  eapply npost0_bind; [apply np_push; [exact W5|exact I]|]. intros u s6 W6 G6 _.
  assert (Hip6 : ipge s6).
  { assert (G : grow s s6) by gr. destruct G as [_ G]. apply G, Hip. }
  unfold bindM, dec_ip. destruct Hip6 as [Hip6 Hl6]. destruct (snd (ip s6) =? 0) eqn:E0.
  { apply N.eqb_eq in E0. lia. }
  unfold ret. cbn [npost0]. split; [apply wfm_with_ip, W6|]. split; [apply grow0_with_ip|].
  split; [|exact Hl6].
  exists p. split; [reflexivity|].
  eapply lamcell_grow; [apply grow0_with_ip|]. eapply lamcell_grow; [apply (grow_grow0 _ _ G6)|exact Hp].
Qed.
End Compile.
