(* NoPanicPrims3.v — C06: global bindings, code objects, put_cell, environments, continuations *)
From Coq Require Import Lia List.
From MW Require Import Model.Base Model.F64 Model.Num Model.Datum Model.TransformDef Model.Transform
  Model.VmTypes Model.Heap Model.Gc Model.VmBase Model.Compile Model.Vm
  Proofs.GcProofs Proofs.SymtabProofs Proofs.VmProofs0 Proofs.TailProofs Proofs.EnvProofs
  Proofs.FlatProofs Proofs.NoPanicBase Proofs.NoPanicPrims Proofs.NoPanicPrims2.
Open Scope N_scope.
Arguments N.add : simpl never.
Arguments N.sub : simpl never.
Arguments N.eqb : simpl never.
Arguments N.ltb : simpl never.
Arguments N.leb : simpl never.
Arguments N.mul : simpl never.

Lemma len_snoc {X} (l : list X) x : len (l ++ [x]) = len l + 1.
Proof. unfold len. rewrite app_length. cbn [length]. lia. Qed.
Lemma list_get_snoc {X} (l : list X) x i v : list_get (l ++ [x]) i = Some v -> list_get l i = Some v \/ v = x.
Proof.
  unfold list_get. intros H. destruct (Nat.lt_ge_cases (N.to_nat i) (length l)) as [L|L].
  - rewrite nth_error_app1 in H by exact L. left. exact H.
  - rewrite nth_error_app2 in H by exact L. destruct (N.to_nat i - length l)%nat as [|n]; cbn in H.
    + injection H as <-. right. reflexivity.
    + destruct n; discriminate.
Qed.

Lemma np_get_binding p s : wfm s -> npo s (get_binding p s) (fun s' k => k < len (g_slots s')).
Proof.
  intros W. unfold get_binding. destruct (assoc_find (g_bind s) p) as [slot|] eqn:E.
  - apply npost_ret; [exact W|apply (w_gbind s W p slot E)].
  - set (s' := with_globals s ((p, len (g_slots s)) :: g_bind s) (g_slots s ++ [VUndef])).
    assert (G : grow0 s s').
    { apply grow0_nostore; unfold s'; cbn [st hp scap g_slots with_globals]; auto; try lia; try (rewrite len_snoc; lia). }
    cbn [npost]. split; [|split; [split; [exact G|auto]|]].
    + apply (wfm_nostore s s' W eq_refl G); unfold s'; cbn [hp acc g_slots g_bind with_globals]; auto.
      * apply (w_heap s W).
      * unfold gbind_ok. cbn [g_bind g_slots with_globals]. intros a k. cbn [assoc_find]. rewrite len_snoc. destruct (p =? a).
        -- intros [= <-]. lia.
        -- intros H. pose proof (w_gbind s W a k H). lia.
      * intros i v H. apply list_get_snoc in H as [H| ->]; [left; exact H|right; exact I].
    + unfold s'. cbn [g_slots with_globals]. rewrite len_snoc. lia.
Qed.

(* writing a global slot *)
Lemma np_set_global slot v s : wfm s -> vwf s v ->
  npo s (ROk tt (with_globals s (g_bind s) (list_set (g_slots s) slot v))) T_.
Proof.
  intros W Hv. set (s' := with_globals s _ _).
  assert (G : grow0 s s').
  { apply grow0_nostore; unfold s'; cbn [st hp scap g_slots with_globals]; auto; try lia; try (rewrite EnvProofs.list_set_len; lia). }
  cbn [npost]. split; [|split; [split; [exact G|auto]|exact I]].
  apply (wfm_nostore s s' W eq_refl G); unfold s'; cbn [hp acc g_slots g_bind with_globals]; auto.
  - apply (w_heap s W).
  - unfold gbind_ok. cbn [g_bind g_slots with_globals]. intros a k H. rewrite EnvProofs.list_set_len. apply (w_gbind s W a k H).
  - intros i w H. rewrite list_get_set in H. destruct (slot =? i).
    + destruct (list_get (g_slots s) i); [injection H as <-; right; eapply vwf_grow; eassumption|discriminate].
    + left. exact H.
Qed.

(* a new code object *)
Lemma list_get_In {X} (l : list X) i x : list_get l i = Some x -> In x l.
Proof. unfold list_get. apply nth_error_In. Qed.

Lemma heap_put_lambda_cell h lid p h' : heap_put h (VLambda lid) = (VPtr p, h') -> cell_at h' p = VLambda lid.
Proof.
  unfold heap_put, heap_store_new. destruct (heap_alloc h) as [q h1]. intros [= <- <-].
  unfold cell_at. cbn [cells]. rewrite tget_tset_same. reflexivity.
Qed.

Lemma np_put_lambda l s : wfm s -> head_ok (lambda_finish l) -> (forall v, In v (l_bc l) -> vwf s v) ->
  npo s (put_lambda l s) (fun s' r => exists p, r = VPtr p /\ lamcell s' p).
Proof.
  intros W Hh Hbc. unfold put_lambda, new_lam.
  set (lid := next_id (st s)). set (x := mk_store _ _ _ _ _ _ _).
  destruct (heap_put (hp s) (VLambda lid)) as [r h'] eqn:E.
  destruct (heap_put_gen _ _ _ _ (w_heap s W) E) as (HI & _ & (p & ->) & Hal & Hc).
  set (s' := with_store (with_heap s h') x).
  assert (Lx : tget (lams x) lid = Some (lambda_finish l)) by (unfold x; cbn [lams]; apply tget_tset_same).
  assert (G : grow0 s s').
  { constructor; unfold s', x; cbn [hp st scap g_slots with_store with_heap strs vecs envs lams conts]; auto; try lia.
    - intros b i C. rewrite Hal; [exact C|]. eapply lam_allocated; [apply (w_heap s W)|exact C].
    - intros i. apply tset_keeps. }
  assert (Vl : vwf s' (VLambda lid)) by (cbn [vwf]; change (st s') with x; rewrite Lx; discriminate).
  cbn [npost]. split; [|split; [split; [exact G|auto]|]].
  - apply (wfm_upd s s' W G); unfold s', x; cbn [hp st acc g_slots g_bind with_store with_heap strs vecs envs lams conts]; auto.
    + apply (w_gbind s W).
    + intros b. destruct (Hc b) as [H|H]; [left; exact H|right; rewrite H; exact Vl].
    + eauto 7.
    + eauto 7.
    + intros id l0 H. rewrite tget_tset in H. destruct (lid =? id); [|left; exact H].
      injection H as <-. right. split; [exact Hh|]. intros i v Hi. apply list_get_In in Hi.
      cbn [l_bc lambda_finish] in Hi. apply in_rev in Hi. eapply vwf_grow; [exact G|]. apply Hbc, Hi.
  - exists p. split; [reflexivity|]. exists lid. split; [|change (st s') with x; rewrite Lx; discriminate].
    unfold s'. cbn [hp with_store with_heap].
    apply (heap_put_lambda_cell _ _ _ _ E).
Qed.
