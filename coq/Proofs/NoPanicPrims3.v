(* NoPanicPrims3.v — C06: global bindings, code objects, put_cell, environments, continuations *)
From Coq Require Import Lia List.
From MW Require Import Model.Base Model.F64 Model.Num Model.Datum Model.TransformDef Model.Transform
  Model.VmTypes Model.Heap Model.Gc Model.VmBase Model.Compile Model.Vm
  Proofs.GcProofs Proofs.SymtabProofs Proofs.VmProofs0 Proofs.TailProofs Proofs.EnvProofs
  Proofs.FlatProofs Proofs.NoPanicBase Proofs.NoPanicPrims Proofs.NoPanicPrims2.
Open Scope N_scope.
Arguments N.add : simpl never.
Arguments N.sub : simpl never.
Arguments N.eqb : simpl never.
Arguments N.ltb : simpl never.
Arguments N.leb : simpl never.
Arguments N.mul : simpl never.

Lemma len_snoc {X} (l : list X) x : len (l ++ [x]) = len l + 1.
Proof. unfold len. rewrite app_length. cbn [length]. lia. Qed.
Lemma list_get_snoc {X} (l : list X) x i v : list_get (l ++ [x]) i = Some v -> list_get l i = Some v \/ v = x.
Proof.
  unfold list_get. intros H. destruct (Nat.lt_ge_cases (N.to_nat i) (length l)) as [L|L].
  - rewrite nth_error_app1 in H by exact L. left. exact H.
  - rewrite nth_error_app2 in H by exact L. destruct (N.to_nat i - length l)%nat as [|n]; cbn in H.
    + injection H as <-. right. reflexivity.
    + destruct n; discriminate.
Qed.

Lemma np_get_binding p s : wfm s -> npo s (get_binding p s) (fun s' k => k < len (g_slots s')).
Proof.
  intros W. unfold get_binding. destruct (assoc_find (g_bind s) p) as [slot|] eqn:E.
  - apply npost_ret; [exact W|apply (w_gbind s W p slot E)].
  - set (s' := with_globals s ((p, len (g_slots s)) :: g_bind s) (g_slots s ++ [VUndef])).
    assert (G : grow0 s s').
    { apply grow0_nostore; unfold s'; cbn [st hp scap g_slots with_globals]; auto; try lia; try (rewrite len_snoc; lia). }
    cbn [npost]. split; [|split; [split; [exact G|apply ipge_keep; [exact G|reflexivity]]|]].
    + apply (wfm_nostore s s' W eq_refl G); unfold s'; cbn [hp acc g_slots g_bind with_globals]; auto.
      * apply (w_heap s W).
      * unfold gbind_ok. cbn [g_bind g_slots with_globals]. intros a k. cbn [assoc_find]. rewrite len_snoc. destruct (p =? a).
        -- intros [= <-]. lia.
        -- intros H. pose proof (w_gbind s W a k H). lia.
      * intros i v H. apply list_get_snoc in H as [H| ->]; [left; exact H|right; exact I].
    + unfold s'. cbn [g_slots with_globals]. rewrite len_snoc. lia.
Qed.

(* writing a global slot *)
Lemma np_set_global slot v s : wfm s -> vwf s v ->
  npo s (ROk tt (with_globals s (g_bind s) (list_set (g_slots s) slot v))) T_.
Proof.
  intros W Hv. set (s' := with_globals s _ _).
  assert (G : grow0 s s').
  { apply grow0_nostore; unfold s'; cbn [st hp scap g_slots with_globals]; auto; try lia; try (rewrite EnvProofs.list_set_len; lia). }
  cbn [npost]. split; [|split; [split; [exact G|apply ipge_keep; [exact G|reflexivity]]|exact I]].
  apply (wfm_nostore s s' W eq_refl G); unfold s'; cbn [hp acc g_slots g_bind with_globals]; auto.
  - apply (w_heap s W).
  - unfold gbind_ok. cbn [g_bind g_slots with_globals]. intros a k H. rewrite EnvProofs.list_set_len. apply (w_gbind s W a k H).
  - intros i w H. rewrite list_get_set in H. destruct (slot =? i).
    + destruct (list_get (g_slots s) i); [injection H as <-; right; eapply vwf_grow; eassumption|discriminate].
    + left. exact H.
Qed.

(* a new code object *)
Lemma list_get_In {X} (l : list X) i x : list_get l i = Some x -> In x l.
Proof. unfold list_get. apply nth_error_In. Qed.

Lemma heap_put_lambda_cell h lid p h' : heap_put h (VLambda lid) = (VPtr p, h') -> cell_at h' p = VLambda lid.
Proof.
  unfold heap_put, heap_store_new. destruct (heap_alloc h) as [q h1]. intros [= <- <-].
  unfold cell_at. cbn [cells]. rewrite tget_tset_same. reflexivity.
Qed.

Lemma np_put_lambda l s : wfm s -> head_ok (lambda_finish l) -> (forall v, In v (l_bc l) -> vwf s v) ->
  npo s (put_lambda l s) (fun s' r => exists p, r = VPtr p /\ lamcell s' p).
Proof.
  intros W Hh Hbc. unfold put_lambda, new_lam.
  set (lid := next_id (st s)). set (x := mk_store _ _ _ _ _ _ _).
  destruct (heap_put (hp s) (VLambda lid)) as [r h'] eqn:E.
  destruct (heap_put_gen _ _ _ _ (w_heap s W) E) as (HI & _ & (p & ->) & Hal & Hc).
  set (s' := with_store (with_heap s h') x).
  assert (Lx : tget (lams x) lid = Some (lambda_finish l)) by (unfold x; cbn [lams]; apply tget_tset_same).
  assert (G : grow0 s s').
  { constructor; unfold s', x; cbn [hp st scap g_slots with_store with_heap strs vecs envs lams conts]; auto; try lia.
    - intros b i C. rewrite Hal; [exact C|]. eapply lam_allocated; [apply (w_heap s W)|exact C].
    - intros i. apply tset_keeps. }
  assert (Vl : vwf s' (VLambda lid)) by (cbn [vwf]; change (st s') with x; rewrite Lx; discriminate).
  cbn [npost]. split; [|split; [split; [exact G|apply ipge_keep; [exact G|reflexivity]]|]].
  - apply (wfm_upd s s' W G); unfold s', x; cbn [hp st acc g_slots g_bind with_store with_heap strs vecs envs lams conts]; auto.
    + apply (w_gbind s W).
    + intros b. destruct (Hc b) as [H|H]; [left; exact H|right; rewrite H; exact Vl].
    + eauto 7.
    + eauto 7.
    + intros id l0 H. rewrite tget_tset in H. destruct (lid =? id); [|left; exact H].
      injection H as <-. right. split; [exact Hh|]. intros i v Hi. apply list_get_In in Hi.
      cbn [l_bc lambda_finish] in Hi. apply in_rev in Hi. eapply vwf_grow; [exact G|]. apply Hbc, Hi.
  - exists p. split; [reflexivity|]. exists lid. split; [|change (st s') with x; rewrite Lx; discriminate].
    unfold s'. cbn [hp with_store with_heap].
    apply (heap_put_lambda_cell _ _ _ _ E).
Qed.

(* ------------------------------------------------------------------ code objects, environments *)
Lemma npost_bind_eq {X Y} s (m : M X) (f : X -> M Y) Q (R : vm -> Y -> Prop) :
  npo s (m s) Q ->
  (forall a s1, m s = ROk a s1 -> wfm s1 -> grow s s1 -> Q s1 a -> npo s1 (f a s1) R) ->
  npo s (bindM m f s) R.
Proof.
  intros Hm Hf. unfold bindM. destruct (m s) as [a s1|e msg s1|k|] eqn:E; cbn [npost] in *; auto.
  destruct Hm as (W1 & G1 & HQ). specialize (Hf a s1 eq_refl W1 G1 HQ).
  destruct (f a s1) as [b s2|e msg s2|k|]; cbn [npost] in *; auto.
  - destruct Hf as (W2 & G2 & HR). pose proof (grow_trans _ _ _ G1 G2). auto.
  - destruct Hf as (W2 & G2). split; [exact W2|eapply grow_trans; eassumption].
Qed.

Lemma np_get_lambda lid s : wfm s -> vwf s (VLambda lid) ->
  npo s (get_lambda lid s) (fun s' l => s' = s /\ tget (lams (st s)) lid = Some l).
Proof.
  intros W Hv. unfold get_lambda. cbn [vwf] in Hv. destruct (tget (lams (st s)) lid) as [l|]; [|congruence].
  apply npost_ret; [exact W|auto].
Qed.
Lemma np_as_lambda v s : wfm s -> vwf s v ->
  npo s (as_lambda v s) (fun s' l => s' = s /\ exists lid, v = VLambda lid /\ tget (lams (st s)) lid = Some l).
Proof.
  intros W Hv. destruct v; try apply npost_fail, W. unfold as_lambda.
  eapply npost_weaken; [|apply np_get_lambda; assumption]. cbn beta. intros s' a _ _ [-> H]. eauto.
Qed.
Lemma np_cur_lambda s : wfm s -> lamcell s (fst (ip s)) ->
  npo s (cur_lambda s) (fun s' l => s' = s /\ exists lid, cell_at (hp s) (fst (ip s)) = VLambda lid /\
                                               tget (lams (st s)) lid = Some l).
Proof.
  intros W (lid & C & L). unfold cur_lambda, heap_get. destruct (_ <? _); [|reflexivity].
  fold (cell_at (hp s) (fst (ip s))). rewrite C.
  eapply npost_weaken; [|apply np_get_lambda; [exact W|exact L]]. cbn beta. intros s' a _ _ [-> H]. eauto.
Qed.

Lemma np_as_lexenv v s : wfm s -> npo s (as_lexenv v s) (fun _ e => v = VLexEnv e).
Proof. intros W. destruct v; try apply npost_fail, W. apply npost_ret; [exact W|reflexivity]. Qed.
Lemma np_env_slots e s : wfm s -> vwf s (VLexEnv e) ->
  npo s (env_slots e s) (fun s' l => s' = s /\ tget (envs (st s)) e = Some l /\ forall j v, list_get l j = Some v -> vwf s v).
Proof.
  intros W Hv. unfold env_slots. cbn [vwf] in Hv. destruct (tget (envs (st s)) e) as [l|] eqn:E; [|congruence].
  apply npost_ret; [exact W|]. split; [reflexivity|split; [reflexivity|]].
  intros j v Hj. apply (w_vals s W). eapply ip_env; eassumption.
Qed.
Lemma np_env_get e i s : wfm s -> vwf s (VLexEnv e) -> npo s (env_get e i s) V.
Proof.
  intros W Hv. unfold env_get. eapply npost_bind; [apply np_env_slots; assumption|].
  intros l s1 W1 G1 (-> & _ & Hl). destruct (list_get l i) as [v|] eqn:E; [|reflexivity].
  apply npost_ret; [exact W1|eapply Hl, E].
Qed.
Lemma np_env_put e i v s : wfm s -> vwf s (VLexEnv e) -> vwf s v -> npo s (env_put e i v s) T_.
Proof.
  intros W He Hv. unfold env_put. eapply npost_bind; [apply np_env_slots; assumption|].
  intros l s1 W1 G1 (-> & El & Hl). destruct (i <? len l); [|reflexivity].
  apply npost_store; cbn [strs vecs envs lams conts set_env]; eauto 7 using tset_keeps; [|exact I].
  intros id l0 j w E1 E2. rewrite tget_tset in E1. destruct (e =? id); [|left; eauto].
  injection E1 as <-. rewrite list_get_set in E2. destruct (i =? j); [|left; eauto].
  destruct (list_get l j); [injection E2 as <-; right; exact Hv|discriminate].
Qed.
Lemma np_env_new l s : wfm s -> (forall j v, list_get l j = Some v -> vwf s v) -> npo s (env_new l s) V.
Proof.
  intros W Hl. unfold env_new, new_env. apply npost_store; cbn [strs vecs envs lams conts]; eauto 7 using tset_keeps.
  - intros id l0 j v E1 E2. rewrite tget_tset in E1. destruct (_ =? id); [injection E1 as <-; right; eauto|left; eauto].
  - unfold V. cbn [vwf st with_store envs]. rewrite tget_tset_same. discriminate.
Qed.

Lemma np_dec_ip s : wfm s -> ipge s -> npo0 s (dec_ip s) (fun s' _ => lamcell s' (fst (ip s'))).
Proof.
  intros W Hi. unfold dec_ip. destruct (snd (ip s) =? 0) eqn:E.
  - apply N.eqb_eq in E. destruct Hi as [Hi _]. lia.
  - cbn [npost0]. split; [apply wfm_with_ip, W|]. split; [apply grow0_with_ip|exact (proj2 Hi)].
Qed.

(* ------------------------------------------------------------------ continuations *)
Lemma stack_to_sp_len' s : len (stack_to_sp s) = sp s + 1.
Proof.
  unfold stack_to_sp, len. rewrite map_length.
  assert (H : forall n a, length (range_asc a n) = n) by (induction n; intros; cbn [range_asc length]; auto).
  rewrite H. lia.
Qed.
Lemma stack_to_sp_vwf s i v : wfm s -> list_get (stack_to_sp s) i = Some v -> vwf s v.
Proof.
  intros W H. unfold list_get, stack_to_sp in H. apply nth_error_In in H. apply in_map_iff in H as (j & <- & _).
  apply np_wfm_stack, W.
Qed.

Lemma np_to_continuation s : wfm s -> sp s < scap s -> ipge s ->
  npo s (to_continuation s) V.
Proof.
  intros W Hsp [Hi Hl]. unfold to_continuation, new_cont.
  set (k := mk_cont _ _ _ _ _). set (cid := next_id (st s)). set (x := mk_store _ _ _ _ _ _ _).
  set (s' := with_store s x).
  assert (G : grow0 s s').
  { constructor; unfold s', x; cbn [hp st scap g_slots with_store strs vecs envs lams conts]; auto; try lia.
    intros i. apply tset_keeps. }
  assert (Kx : tget (conts x) cid = Some k) by (unfold x; cbn [conts]; apply tget_tset_same).
  cbn [npost]. split; [|split; [split; [exact G|apply ipge_keep; [exact G|reflexivity]]|]].
  - apply (wfm_upd s s' W G); unfold s', x; cbn [hp st acc g_slots g_bind scap with_store strs vecs envs lams conts]; auto.
    + apply (w_heap s W).
    + apply (w_gbind s W).
    + eauto 7.
    + eauto 7.
    + intros id k0 H. rewrite tget_tset in H. destruct (cid =? id); [|left; exact H].
      injection H as <-. right. unfold k. cbn [k_stack k_ip]. split; [|split].
      * rewrite stack_to_sp_len'. lia.
      * cbn [vwf]. split; [eapply lamcell_grow; [exact G|exact Hl]|exact Hi].
      * intros i v Hv. eapply vwf_grow; [exact G|]. eapply stack_to_sp_vwf; eassumption.
  - unfold V. cbn [vwf]. change (st s') with x. rewrite Kx. discriminate.
Qed.

Lemma np_restore_continuation cid s : wfm s -> vwf s (VCont cid) ->
  npo s (restore_continuation cid s) (fun s' _ => ipge s').
Proof.
  intros W Hv. unfold restore_continuation. cbn [vwf] in Hv.
  destruct (tget (conts (st s)) cid) as [k|] eqn:E; [|congruence].
  pose proof (w_kcap s W cid k E) as Hc. destruct (scap s <? len (k_stack k)) eqn:L; [apply N.ltb_lt in L; lia|].
  pose proof (w_vals s W _ (ip_kip s cid k E)) as Hk. cbn [vwf] in Hk. destruct Hk as [Hk1 Hk2].
  apply npost_regs; cbn [hp st g_slots g_bind scap acc ip with_acc with_bp with_ip with_ep with_stack];
    try reflexivity; try lia;
  lazymatch goal with
  | |- forall i, _ \/ _ =>
      intros i; unfold sget; cbn [stack with_acc with_bp with_ip with_ep with_stack];
      fold (slot (write_slots (k_stack k) 0 (stack s)) i); rewrite write_slots_slot;
      destruct ((0 <=? i) && (i <? 0 + len (k_stack k))); [|left; reflexivity];
      destruct (list_get (k_stack k) (i - 0)) as [v|] eqn:Ev; [|right; exact I];
      right; apply (w_vals s W); eapply ip_cont; eassumption
  | |- _ \/ vwf _ VUndef => right; exact I
  | |- ipge _ -> ipge _ => intros _; split; [exact Hk2|exact Hk1]
  | |- ipge _ => split; [exact Hk2|exact Hk1]
  | |- wfm _ => exact W
  | |- _ => idtac
  end.
Qed.

(* binds whose first part may leave ip at index 0 (dec_ip), followed by a plain return *)
Lemma npost0_bind_0 {X Y} s (m : M X) (f : X -> M Y) Q (R : vm -> Y -> Prop) :
  npo0 s (m s) Q ->
  (forall a s1, wfm s1 -> grow0 s s1 -> Q s1 a ->
     match f a s1 with ROk b s2 => wfm s2 /\ grow0 s1 s2 /\ R s2 b | _ => False end) ->
  npo0 s (bindM m f s) R.
Proof.
  intros Hm Hf. unfold bindM. destruct (m s) as [a s1|e msg s1|k|]; cbn [npost0] in *; auto.
  destruct Hm as (W1 & G1 & HQ). specialize (Hf a s1 W1 G1 HQ).
  destruct (f a s1) as [b s2|e msg s2|k|]; cbn [npost0] in *; try contradiction.
  destruct Hf as (W2 & G2 & HR). split; [exact W2|split; [eapply grow0_trans; eassumption|exact HR]].
Qed.
Lemma npost0_ret0 {X} s (a : X) (R : vm -> X -> Prop) : wfm s -> R s a ->
  match ret a s with ROk b s2 => wfm s2 /\ grow0 s s2 /\ R s2 b | _ => False end.
Proof. intros W H. cbn. split; [exact W|split; [apply grow0_refl|exact H]]. Qed.
Lemma npost0_weaken {X} s (r : res X) (Q Q' : vm -> X -> Prop) :
  (forall s' a, wfm s' -> Q s' a -> Q' s' a) -> npo0 s r Q -> npo0 s r Q'.
Proof. intros H. destruct r; cbn; auto. intros (W & G & HQ). auto. Qed.
