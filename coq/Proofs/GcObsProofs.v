(* GcObsProofs.v — C03, part 1: what a collection changes.
   [agree_on_reach s1 s2]: same registers, payload tables, globals, stack up to sp, heap
   length, and the same cell at every address reachable from the roots ([GcProofs.reach],
   the set the collector marks).  A collection relates the state before to the state
   after ([gc_agree]); the reachable set is the same before and after ([reach_collect]);
   after a collection every reachable address is allocated ([no_dangling_collect]). *)
From Coq Require Import Lia List Permutation.
From MW Require Import Model.Base Model.Num Model.VmTypes Model.Heap Model.Gc Model.VmBase
  Proofs.GcProofs Proofs.SymtabProofs.
Open Scope N_scope.
Arguments N.add : simpl never.
Arguments N.sub : simpl never.
Arguments N.eqb : simpl never.
Arguments N.ltb : simpl never.
Arguments N.leb : simpl never.

Record agree_on_reach (s1 s2 : vm) : Prop := {
  ag_st : st s2 = st s1;
  ag_bind : g_bind s2 = g_bind s1;
  ag_slots : g_slots s2 = g_slots s1;
  ag_scap : scap s2 = scap s1;
  ag_sp : sp s2 = sp s1;
  ag_bp : bp s2 = bp s1;
  ag_ep : ep s2 = ep s1;
  ag_ip : ip s2 = ip s1;
  ag_acc : acc s2 = acc s1;
  ag_log : out_log s2 = out_log s1;
  ag_stack : forall i, i <= sp s1 -> sget s2 i = sget s1 i;
  ag_hlen : hlen (hp s2) = hlen (hp s1);
  ag_cells : forall a, reach s1 a -> a < hlen (hp s1) -> cell_at (hp s2) a = cell_at (hp s1) a
}.

Lemma agree_refl s : agree_on_reach s s.
Proof. constructor; auto. Qed.

Lemma stack_to_sp_agree s1 s2 :
  sp s2 = sp s1 -> (forall i, i <= sp s1 -> sget s2 i = sget s1 i) ->
  stack_to_sp s2 = stack_to_sp s1.
Proof.
  intros Hsp H. unfold stack_to_sp. rewrite Hsp. apply map_ext_in.
  intros i Hi. apply in_range_asc in Hi. apply H. lia.
Qed.

Lemma root_agree s1 s2 order a : agree_on_reach s1 s2 -> (root order s2 a <-> root order s1 a).
Proof.
  intros A. unfold root.
  rewrite (stack_to_sp_agree s1 s2 (ag_sp _ _ A) (ag_stack _ _ A)).
  rewrite (ag_slots _ _ A), (ag_st _ _ A), (ag_acc _ _ A), (ag_ip _ _ A), (ag_ep _ _ A). tauto.
Qed.

(* the reachable sets of two agreeing machines coincide *)
Lemma reach_agree s1 s2 a : agree_on_reach s1 s2 -> (reach s2 a <-> reach s1 a).
Proof.
  intros A. unfold reach. rewrite (ag_bind _ _ A). split.
  - intros R. induction R as [a Ha|a b R IH Hlt Hc].
    + apply rf_root. apply (root_agree s1 s2 _ a A). exact Ha.
    + rewrite (ag_hlen _ _ A) in Hlt. rewrite (ag_st _ _ A) in Hc.
      rewrite (ag_cells _ _ A a IH Hlt) in Hc. apply rf_step with a; assumption.
  - intros R. induction R as [a Ha|a b R IH Hlt Hc].
    + apply rf_root. apply (root_agree s1 s2 _ a A). exact Ha.
    + apply rf_step with a; [exact IH|rewrite (ag_hlen _ _ A); exact Hlt|].
      rewrite (ag_st _ _ A), (ag_cells _ _ A a R Hlt). exact Hc.
Qed.

Lemma agree_sym s1 s2 : agree_on_reach s1 s2 -> agree_on_reach s2 s1.
Proof.
  intros A. pose proof (fun a => reach_agree s1 s2 a A) as RA. destruct A as [A1 A2 A3 A4 A5 A6 A7 A8 A9 A10 A11 A12 A13].
  constructor; try (symmetry; assumption).
  - intros i Hi. symmetry. apply A11. rewrite <- A5. exact Hi.
  - intros a R Hlt. symmetry. apply A13; [|rewrite <- A12; exact Hlt].
    apply RA. exact R.
Qed.

Lemma agree_trans s1 s2 s3 : agree_on_reach s1 s2 -> agree_on_reach s2 s3 -> agree_on_reach s1 s3.
Proof.
  intros A B. pose proof (fun a => reach_agree s1 s2 a A) as RA.
  destruct A as [A1 A2 A3 A4 A5 A6 A7 A8 A9 A10 A11 A12 A13].
  destruct B as [B1 B2 B3 B4 B5 B6 B7 B8 B9 B10 B11 B12 B13].
  constructor; try congruence.
  - intros i Hi. rewrite B11 by (rewrite A5; exact Hi). apply A11. exact Hi.
  - intros a R Hlt. rewrite B13; [apply A13; assumption|apply RA; exact R|rewrite A12; exact Hlt].
Qed.

Lemma collect_hlen vd fuel order v h' : collect vd fuel order v = Ok h' -> hlen h' = hlen (hp v).
Proof.
  intros H. apply collect_inv in H as [m [_ Hs]].
  destruct (sweep_exact (set_gcmap (hp v) m)) as [h2 [E2 [L _]]].
  rewrite Hs in E2. injection E2 as <-. exact L.
Qed.

(* C03 gc_agree: a collection changes unreachable cells only *)
Theorem gc_agree vd fuel order v h' :
  no_used (hp v) -> Permutation order (map fst (g_bind v)) ->
  collect vd fuel order v = Ok h' -> agree_on_reach v (with_heap v h').
Proof.
  intros Hnu P H. constructor; try reflexivity.
  - cbn [hp with_heap]. exact (collect_hlen _ _ _ _ _ H).
  - intros a R Hlt. cbn [hp with_heap].
    apply (reach_perm v order a P) in R.
    exact (proj2 (gc_preserves_live vd fuel order v h' Hnu H a Hlt R)).
Qed.

(* the set of reachable addresses is the same before and after *)
Theorem reach_collect vd fuel order v h' a :
  no_used (hp v) -> Permutation order (map fst (g_bind v)) ->
  collect vd fuel order v = Ok h' -> (reach (with_heap v h') a <-> reach v a).
Proof. intros Hnu P H. apply reach_agree. exact (gc_agree vd fuel order v h' Hnu P H). Qed.

(* C03 no_dangling, established by a collection: afterwards every reachable address inside
   the heap is an allocated cell, i.e. no reachable cell points to a freed cell *)
Definition no_dangling (v : vm) : Prop :=
  forall a, reach v a -> a < hlen (hp v) -> g_get (gcmap (hp v)) a = GAllocated.

Theorem no_dangling_collect vd fuel order v h' :
  no_used (hp v) -> Permutation order (map fst (g_bind v)) ->
  collect vd fuel order v = Ok h' -> no_dangling (with_heap v h').
Proof.
  intros Hnu P H a R Hlt. cbn [hp with_heap] in *.
  rewrite (collect_hlen _ _ _ _ _ H) in Hlt.
  apply (reach_collect vd fuel order v h' a Hnu P H) in R.
  apply (reach_perm v order a P) in R.
  exact (proj1 (gc_preserves_live vd fuel order v h' Hnu H a Hlt R)).
Qed.

(* the successors of a reachable cell are reachable, hence allocated after a collection:
   "no reachable cell points to a freed cell" spelled out on the edge relation *)
Theorem no_dangling_edges vd fuel order v h' a b :
  no_used (hp v) -> Permutation order (map fst (g_bind v)) ->
  collect vd fuel order v = Ok h' ->
  reach v a -> a < hlen (hp v) -> cref (st v) (cell_at h' a) b -> b < hlen (hp v) ->
  g_get (gcmap h') b = GAllocated /\ cell_at h' b = cell_at (hp v) b.
Proof.
  intros Hnu P H R Hlt Hc Hb.
  assert (Ra : reach_from (hp v) (st v) (root order v) a) by (apply (reach_perm v order a P); exact R).
  rewrite (proj2 (gc_preserves_live vd fuel order v h' Hnu H a Hlt Ra)) in Hc.
  apply (gc_preserves_live vd fuel order v h' Hnu H b Hb).
  apply rf_step with a; assumption.
Qed.
