(* BootMinv.v — C01 (R2): the machine invariant [minv] of CompileCorrect.v (heap_inv + ginv +
   sp < scap) for the BOOTED machine and for every state of a session, by preservation.

   The invariant that IS preserved by Vm::eval of any datum, whatever the outcome, is
     rinv s := finv s /\ J s
   ([finv]: FlatProofs/FlatAll, contains heap_inv; [J]: KeepCalc/KeepRun, contains ginv and
   sp < scap); [rinv s -> minv s].  [minv] alone is not inductive: it says nothing about the
   continuation table, and restore_continuation sets sp from a saved continuation.        *)
From Coq Require Import Lia List String.
From MW Require Import Model.Base Model.F64 Model.Num Model.Datum Model.Lex Model.Parse Model.TransformDef
  Model.Transform Model.VmTypes Model.Heap Model.Gc Model.VmBase Model.Compile Model.Vm Model.Builtins
  Proofs.GcProofs Proofs.SymtabProofs Proofs.VmProofs0 Proofs.TailProofs Proofs.ScopeProofs
  Proofs.EnvProofs Proofs.FlatProofs Proofs.FlatPrims Proofs.FlatCompile Proofs.FlatAll
  Proofs.QuoteHeapProofs Proofs.CompileCorrect Proofs.KeepCalc Proofs.KeepCompile Proofs.KeepRun.
Open Scope N_scope.
Arguments N.add : simpl never.
Arguments N.sub : simpl never.
Arguments N.eqb : simpl never.
Arguments N.ltb : simpl never.
Arguments N.leb : simpl never.
Arguments N.mul : simpl never.

Definition rinv (s : vm) : Prop := finv s /\ J s.

Theorem rinv_minv s : rinv s -> minv s.
Proof.
  intros [F [G S K]]. constructor; [exact (li_heap s (fi_lex s F))|exact G|exact S].
Qed.
Theorem rinv_empty c : 0 < c -> rinv (vm_empty c).
Proof. intros Hc. split; [apply finv_empty, Hc|apply J_empty]. Qed.

Definition rpost {A} (r : res A) : Prop :=
  match r with ROk _ s' | RErr _ _ s' => rinv s' | _ => True end.

(* Vm::eval of ANY datum, every outcome that leaves a machine *)
Theorem eval_rinv fuel e s : rinv s -> rpost (eval other_builtin fuel e s).
Proof.
  intros [F Hj]. pose proof (eval_post other_builtin fuel e s builtins_ok_other F) as P1.
  pose proof (eval_other_J fuel e s Hj) as P2. unfold rpost, rinv.
  destruct (eval other_builtin fuel e s); cbn [jpost] in P2; auto.
Qed.
Theorem eval_rinv_ok fuel e s res s' : rinv s -> eval other_builtin fuel e s = ROk res s' -> rinv s'.
Proof. intros R H. pose proof (eval_rinv fuel e s R) as P. rewrite H in P. exact P. Qed.

(* the sliced interface: prepare_eval, then run_count with a budget *)
Theorem prepare_eval_rinv e s : rinv s -> rpost (prepare_eval e s).
Proof.
  intros [F Hj]. pose proof (prepare_eval_finv e s F I) as P1. pose proof (kp_prepare_eval e s Hj) as P2.
  unfold rpost, rinv. destruct (prepare_eval e s); cbn [post jpost] in *; auto. split; [apply P1|exact P2].
Qed.
Theorem run_count_rinv fuel count s : rinv s -> rpost (run_count other_builtin fuel count s).
Proof.
  intros [F Hj]. pose proof (run_loop_finv other_builtin builtins_ok_other fuel 0 count s F) as P1.
  pose proof (run_loop_J other_builtin kp_other_builtin fuel 0 count s Hj) as P2.
  unfold rpost, rinv, run_count. destruct (run_loop other_builtin fuel 0 count s); cbn [jpost] in *; auto.
Qed.

(* ------------------------------------------------------------------ boot *)
Lemma kp_load_builtins_from l : forall i, kp (load_builtins_from l i).
Proof. induction l as [|[name x] r IH]; intros i; cbn [load_builtins_from]; kpa. Qed.
Theorem kp_load_builtins : kp load_builtins.
Proof. apply kp_load_builtins_from. Qed.

Theorem load_builtins_rinv s : rinv s -> rpost (load_builtins s).
Proof.
  intros [F Hj]. pose proof (pres_load_builtins s F I) as P1. pose proof (kp_load_builtins s Hj) as P2.
  unfold rpost, rinv. destruct (load_builtins s); cbn [post jpost] in *; auto. split; [apply P1|exact P2].
Qed.

Lemma eval_cell_rpost ef d s : rinv s -> rpost (eval_cell_f ef d s).
Proof. apply eval_rinv. Qed.

Theorem eval_text_all_rinv ef fuel : forall t s acc rs s',
  rinv s -> eval_text_all_f ef fuel t s acc = (rs, s') -> rinv s'.
Proof.
  induction fuel as [|f IH]; intros t s acc rs s' F H.
  - cbn [eval_text_all_f] in H. injection H as _ <-. exact F.
  - rewrite eval_text_all_f_S in H. destruct (parse_text t) as [[d rest]| | |]; try (injection H as _ <-; exact F).
    pose proof (eval_cell_rpost ef d s F) as P.
    destruct (eval_cell_f ef d s) as [res s1|e m s1|k|]; cbn [rpost] in P; try (injection H as _ <-; assumption).
    destruct res as [c| |e m tr].
    + destruct rest as [r|]; [exact (IH r s1 _ rs s' P H)|injection H as _ <-; exact P].
    + injection H as _ <-; exact P.
    + destruct rest as [r|]; [exact (IH r s1 _ rs s' P H)|injection H as _ <-; exact P].
Qed.

Theorem boot_with_rinv prelude s : boot_with prelude = Some s -> rinv s.
Proof.
  unfold boot_with. intros H.
  assert (F0 : rinv (vm_empty 8192)) by (apply rinv_empty; reflexivity).
  pose proof (load_builtins_rinv (vm_empty 8192) F0) as P.
  destruct (load_builtins (vm_empty 8192)) as [u s0| | |]; try discriminate H. cbn [rpost] in P.
  assert (G : (let '(rs, s1) := eval_text_all (S (length prelude)) prelude s0 [] in
               if forallb (fun r => match r with FOk _ => true | _ => false end) rs then Some s1 else None)
              = Some s -> rinv s).
  { unfold eval_text_all.
    destruct (eval_text_all_f EVAL_FUEL (S (length prelude)) prelude s0 []) as [rs s1] eqn:E.
    destruct (forallb _ rs); [|discriminate]. intros [= <-].
    exact (eval_text_all_rinv _ _ _ _ _ _ _ P E). }
  destruct (scan prelude) as [[|tk tks]| | |]; try exact (G H).
  injection H as <-. exact P.
Qed.

Theorem booted_rinv s : booted = Some s -> rinv s.
Proof. apply boot_with_rinv. Qed.
Theorem booted_minv s : booted = Some s -> minv s.
Proof. intros H. apply rinv_minv, booted_rinv, H. Qed.

(* sessions: any number of Vm::eval calls with any data, fuels and outcomes *)
Theorem evals_rinv s s' : evals s s' -> rinv s -> rinv s'.
Proof.
  induction 1 as [s|s fuel e res s1 s2 H _ IH]; intros F; [exact F|].
  apply IH. exact (eval_rinv_ok fuel e s res s1 F H).
Qed.
Theorem session_minv s0 s : booted = Some s0 -> evals s0 s -> minv s.
Proof. intros B R. apply rinv_minv. exact (evals_rinv s0 s R (booted_rinv s0 B)). Qed.

(* the same statements with [rinv] / [rpost] unfolded (for Props/C01.v: `exact` must not have to
   unfold [eval]) *)
Lemma eval_rinv_plain fuel e s : finv s /\ J s ->
  match eval other_builtin fuel e s with ROk _ s' | RErr _ _ s' => finv s' /\ J s' | _ => True end.
Proof.
  intros [F Hj]. pose proof (eval_post other_builtin fuel e s builtins_ok_other F) as P1.
  pose proof (eval_other_J fuel e s Hj) as P2.
  destruct (eval other_builtin fuel e s); cbn [jpost] in P2; auto.
Qed.
Lemma prepare_eval_rinv_plain e s : finv s /\ J s ->
  match prepare_eval e s with ROk _ s' | RErr _ _ s' => finv s' /\ J s' | _ => True end.
Proof.
  intros [F Hj]. pose proof (prepare_eval_finv e s F I) as P1. pose proof (kp_prepare_eval e s Hj) as P2.
  destruct (prepare_eval e s); cbn [post jpost] in *; auto. split; [apply P1|exact P2].
Qed.
Lemma run_count_rinv_plain fuel count s : finv s /\ J s ->
  match run_count other_builtin fuel count s with ROk _ s' | RErr _ _ s' => finv s' /\ J s' | _ => True end.
Proof.
  intros [F Hj]. pose proof (run_loop_finv other_builtin builtins_ok_other fuel 0 count s F) as P1.
  pose proof (run_loop_J other_builtin kp_other_builtin fuel 0 count s Hj) as P2.
  unfold run_count. destruct (run_loop other_builtin fuel 0 count s); cbn [jpost] in *; auto.
Qed.
Lemma load_builtins_rinv_plain s : finv s /\ J s ->
  match load_builtins s with ROk _ s' | RErr _ _ s' => finv s' /\ J s' | _ => True end.
Proof.
  intros [F Hj]. pose proof (pres_load_builtins s F I) as P1. pose proof (kp_load_builtins s Hj) as P2.
  destruct (load_builtins s); cbn [post jpost] in *; auto. split; [apply P1|exact P2].
Qed.
Lemma compile_J_plain f l tail e s : J s ->
  match compile_expression f l tail e s with ROk _ s' | RErr _ _ s' => J s' | _ => True end.
Proof.
  intros R. pose proof (kp_compile_expression f l tail e s R) as P.
  destruct (compile_expression f l tail e s); cbn [jpost] in P; auto.
Qed.
Lemma run_one_J_plain s : J s ->
  match run_one other_builtin s with ROk _ s' | RErr _ _ s' => J s' | _ => True end.
Proof.
  intros R. pose proof (kp_run_one other_builtin kp_other_builtin s R) as P.
  destruct (run_one other_builtin s); cbn [jpost] in P; auto.
Qed.
