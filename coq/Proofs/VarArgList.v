(* VarArgList.v — C01 (work package c01e): the CONTENTS of the rest list VARARG builds.
   VarArgProofs.vararg_frame_effect gives the frame VARARG leaves (slot base+L holds some pointer);
   here: that pointer is the head of a FRESH PROPER LIST (every spine cell allocated by this
   instruction, not allocated before) of the surplus argument values in order, every cell allocated
   before is untouched ([hext]) and the heap invariant is kept.  An element is what Heap::put makes
   of the stack value: a pointer is stored as itself, any other value in an allocated cell. *)
From Coq Require Import Lia List FMapPositive.
From MW Require Import Model.Base Model.F64 Model.Num Model.Datum Model.TransformDef Model.Transform
  Model.VmTypes Model.Heap Model.Gc Model.VmBase Model.Compile Model.Vm Proofs.VmProofs0 Proofs.GcProofs
  Proofs.SymtabProofs Proofs.QuoteHeapProofs Proofs.TailProofs Proofs.VarArgProofs.
Import ListNotations.
Open Scope N_scope.

Arguments N.add : simpl never.
Arguments N.sub : simpl never.
Arguments N.mul : simpl never.
Arguments N.eqb : simpl never.
Arguments N.ltb : simpl never.
Arguments N.leb : simpl never.

(* heap address a stands for the stack value v (Heap::put, heap.rs) *)
Definition helem (h : heap) (a : N) (v : vcell) : Prop :=
  v = VPtr a \/ ((forall q, v <> VPtr q) /\ allocated h a /\ cell_at h a = v).

(* the proper list at address p with elements vs; every spine cell is new w.r.t. h0 *)
Inductive hlist (h0 h : heap) : N -> list vcell -> Prop :=
| hl_nil p : allocated h p -> ~ allocated h0 p -> cell_at h p = VNil -> hlist h0 h p []
| hl_cons p a d v vs : allocated h p -> ~ allocated h0 p -> cell_at h p = VPair a d ->
    helem h a v -> hlist h0 h d vs -> hlist h0 h p (v :: vs).

Lemma hext_refl h : hext h h.
Proof. intros q Hq. split; [exact Hq|reflexivity]. Qed.
Lemma hext_trans h1 h2 h3 : hext h1 h2 -> hext h2 h3 -> hext h1 h3.
Proof. intros A B q Hq. destruct (A q Hq) as [A1 A2]. destruct (B q A1) as [B1 B2]. split; [exact B1|congruence]. Qed.

Lemma helem_ext h h' a v : hext h h' -> helem h a v -> helem h' a v.
Proof.
  intros X [E|(Hn & A & C)]; [left; exact E|right]. destruct (X a A) as [A' C'].
  split; [exact Hn|]. split; [exact A'|rewrite C'; exact C].
Qed.
Lemma hlist_ext h0 h h' p vs : hext h h' -> hlist h0 h p vs -> hlist h0 h' p vs.
Proof.
  intros X H. induction H as [p A NA C|p a d v vs A NA C E _ IH].
  - destruct (X p A) as [A' C']. apply hl_nil; [exact A'|exact NA|rewrite C'; exact C].
  - destruct (X p A) as [A' C']. eapply hl_cons; [exact A'|exact NA|rewrite C'; exact C|eapply helem_ext; eassumption|exact IH].
Qed.

Definition fresh_kind (v : vcell) : bool := match v with VNil | VPair _ _ => true | _ => false end.

(* Heap::put through the machine: frame facts (as VarArgProofs.hput_ok) and heap facts *)
Lemma hput_full v s : heap_inv (hp s) -> exists p s', hput v s = ROk (VPtr p) s' /\
  sp s' = sp s /\ scap s' = scap s /\ stack s' = stack s /\ same_regs s s' /\
  helem (hp s') p v /\ heap_inv (hp s') /\ hext (hp s) (hp s') /\
  (fresh_kind v = true -> allocated (hp s') p /\ ~ allocated (hp s) p /\ cell_at (hp s') p = v).
Proof.
  intros HI. unfold hput. destruct (heap_put (hp s) v) as [r h'] eqn:E.
  assert (Hc : (exists q, v = VPtr q) \/ (forall q, v <> VPtr q)).
  { destruct v; try (right; intros q; discriminate). left. eexists. reflexivity. }
  destruct Hc as [[q ->]|Hnp].
  - cbn [heap_put] in E. injection E as <- <-. exists q, (with_heap s (hp s)).
    split; [reflexivity|]. cbn [hp with_heap sp scap stack].
    do 3 (split; [reflexivity|]). split; [unfold same_regs; repeat split|].
    split; [left; reflexivity|]. split; [exact HI|]. split; [apply hext_refl|]. discriminate.
  - destruct (heap_put_frame _ _ _ _ HI E Hnp) as (a & -> & A & C & HI' & X).
    exists a, (with_heap s h'). split; [reflexivity|]. unfold same_regs. cbn [hp with_heap sp scap stack bp ep ip acc st g_bind g_slots out_log].
    do 3 (split; [reflexivity|]). split; [repeat split|].
    split; [right; split; [exact Hnp|split; [exact A|exact C]]|]. split; [exact HI'|]. split; [exact X|].
    intros Hk. split; [exact A|]. split; [|exact C].
    destruct v; try discriminate Hk;
      (unfold heap_put, heap_store_new in E; destruct (heap_alloc (hp s)) as [q0 h0] eqn:Ea;
       injection E as Eq _; subst a; destruct (heap_alloc_frame _ _ _ HI Ea) as (_ & _ & NA & _); exact NA).
Qed.

Lemma pop_full s : sp s <> 0 -> sp s < scap s -> exists s', pop_raw s = ROk (sget s (sp s)) s' /\
  sp s' = sp s - 1 /\ scap s' = scap s /\ stack s' = stack s /\ same_regs s s' /\ hp s' = hp s.
Proof.
  intros H0 Hc. unfold pop_raw. destruct (N.eqb_spec (sp s) 0); [contradiction|].
  apply N.ltb_lt in Hc. rewrite Hc. exists (with_sp s (sp s - 1)). unfold same_regs. repeat split.
Qed.

Lemma push_full v s : sp s + 1 < scap s -> exists s', push v s = ROk tt s' /\
  sp s' = sp s + 1 /\ scap s' = scap s /\ stack s' = tset (stack s) (sp s + 1) v /\ same_regs s s' /\ hp s' = hp s.
Proof.
  intros Hc. rewrite push_ok by exact Hc. eexists. split; [reflexivity|]. unfold same_regs. repeat split.
Qed.

(* k consecutive stack slots, upwards from [from] *)
Definition stack_vals (s : vm) (from : N) (k : nat) : list vcell :=
  map (fun j => sget s (from + N.of_nat j)) (seq 0 k).
Lemma stack_vals_S s from k : stack_vals s from (S k) = stack_vals s from k ++ [sget s (from + N.of_nat k)].
Proof. unfold stack_vals. rewrite seq_S, map_app. reflexivity. Qed.
Lemma stack_vals_stack s s' from k : stack s' = stack s -> stack_vals s' from k = stack_vals s from k.
Proof. intros H. unfold stack_vals. apply map_ext. intros j. apply sget_of_stack. exact H. Qed.

(* the loop: the k topmost slots, in stack order, are consed in front of the list built so far *)
Lemma vararg_collect_list k : forall acc0 s h0 vs0, N.of_nat k <= sp s -> sp s < scap s -> heap_inv (hp s) ->
  hlist h0 (hp s) acc0 vs0 -> (forall q, allocated h0 q -> allocated (hp s) q) ->
  exists p s', vararg_collect k acc0 s = ROk p s' /\
    sp s' = sp s - N.of_nat k /\ scap s' = scap s /\ stack s' = stack s /\ same_regs s s' /\
    heap_inv (hp s') /\ hext (hp s) (hp s') /\
    hlist h0 (hp s') p (stack_vals s (sp s - N.of_nat k + 1) k ++ vs0).
Proof.
  induction k as [|k IH]; intros acc0 s h0 vs0 Hk Hc HI HL Hsub; cbn [vararg_collect].
  - exists acc0, s. unfold ret. split; [reflexivity|]. split; [lia|]. split; [reflexivity|]. split; [reflexivity|].
    split; [apply same_regs_refl|]. split; [exact HI|]. split; [apply hext_refl|exact HL].
  - destruct (pop_full s) as (s1 & E1 & Hsp1 & Hcap1 & Hst1 & Hr1 & Hh1); [lia|lia|].
    unfold bindM at 1. rewrite E1.
    assert (HI1 : heap_inv (hp s1)) by (rewrite Hh1; exact HI).
    destruct (hput_full (sget s (sp s)) s1 HI1) as (p1 & s2 & E2 & Hsp2 & Hcap2 & Hst2 & Hr2 & El2 & HI2 & X2 & _).
    unfold bindM at 1. rewrite E2. unfold as_ptr at 1. unfold bindM at 1. unfold ret at 1.
    destruct (hput_full (VPair p1 acc0) s2 HI2) as (p3 & s3 & E3 & Hsp3 & Hcap3 & Hst3 & Hr3 & _ & HI3 & X3 & F3).
    destruct (F3 eq_refl) as (A3 & NA3 & C3).
    unfold bindM at 1. rewrite E3. unfold as_ptr at 1. unfold bindM at 1. unfold ret at 1.
    rewrite Hh1 in X2.
    assert (Hsub2 : forall q, allocated h0 q -> allocated (hp s2) q) by (intros q Hq; apply (X2 q), Hsub, Hq).
    assert (HL3 : hlist h0 (hp s3) p3 (sget s (sp s) :: vs0)).
    { eapply hl_cons; [exact A3| |exact C3|eapply helem_ext; eassumption|].
      - intros Hq. apply NA3, Hsub2, Hq.
      - eapply hlist_ext; [exact X3|]. eapply hlist_ext; [exact X2|exact HL]. }
    destruct (IH p3 s3 h0 _ ltac:(lia) ltac:(lia) HI3 HL3) as (p & s' & E & Hsp & Hcap & Hst & Hr & HI' & X' & HL').
    { intros q Hq. apply (X3 q), Hsub2, Hq. }
    exists p, s'. split; [exact E|]. split; [lia|]. split; [congruence|]. split; [congruence|]. split; [regs_chain|].
    split; [exact HI'|]. split; [eapply hext_trans; [exact X2|]; eapply hext_trans; eassumption|].
    rewrite stack_vals_S, <- app_assoc. cbn [app].
    replace (sp s - N.of_nat (S k) + 1 + N.of_nat k) with (sp s) by lia.
    replace (sp s - N.of_nat (S k) + 1) with (sp s3 - N.of_nat k + 1) by lia.
    rewrite <- (stack_vals_stack s s3) by congruence. exact HL'.
Qed.

(* ------------------------------------------------------------ VARARG: frame AND rest list *)
Theorem vararg_rest_list s l m :
  cur_lambda s = ROk l s ->
  1 <= len (l_args l) -> len (l_args l) - 1 <= m ->    (* at least the fixed arguments *)
  m + 3 <= sp s -> sget s (sp s - 2) = VArgc m ->       (* the frame CALL / TCALL left *)
  sp s + 1 < scap s -> heap_inv (hp s) ->
  let L := len (l_args l) in
  let base := sp s - 3 - m in
  exists p s',
    vararg_frame s = ROk false s' /\
    sp s' = base + L + 3 /\ same_regs s s' /\
    (forall j, j + 1 <= base + L -> sget s' j = sget s j) /\
    sget s' (base + L) = VPtr p /\
    sget s' (base + L + 1) = VArgc L /\
    sget s' (base + L + 2) = sget s (sp s - 1) /\
    sget s' (base + L + 3) = sget s (sp s) /\
    heap_inv (hp s') /\ hext (hp s) (hp s') /\
    hlist (hp s) (hp s') p (stack_vals s (base + L) (N.to_nat (m + 1 - L))).
Proof.
  intros Hcur HL Hreq Hsp Hargc Hcap HI L base. unfold vararg_frame.
  unfold bindM at 1. rewrite Hcur.
  unfold bindM at 1. rewrite usub_ok by exact HL.
  unfold bindM at 1. change (-2)%Z with (- Z.of_N 2)%Z. rewrite stack_get_offset_ok by lia.
  rewrite Hargc. unfold as_argc at 1. unfold bindM at 1. unfold ret at 1.
  fold L. fold L in HL, Hreq.
  destruct (N.ltb_spec m (L - 1)) as [Hlt|_]; [lia|].
  destruct (N.eqb_spec m (L - 1 + 1)) as [Em|Em].
  - (* exactly one optional argument: converted in place *)
    unfold bindM at 1. change (-3)%Z with (- Z.of_N 3)%Z. rewrite stack_get_offset_ok by lia.
    destruct (hput_full (sget s (sp s - 3)) s HI) as (p1 & s1 & E1 & Hsp1 & Hcap1 & Hst1 & Hr1 & El1 & HI1 & X1 & _).
    unfold bindM at 1. rewrite E1.
    destruct (hput_full VNil s1 HI1) as (p2 & s2 & E2 & Hsp2 & Hcap2 & Hst2 & Hr2 & _ & HI2 & X2 & F2).
    destruct (F2 eq_refl) as (A2 & NA2 & C2).
    unfold bindM at 1. rewrite E2.
    unfold as_ptr at 1. unfold bindM at 1. unfold ret at 1.
    unfold as_ptr at 1. unfold bindM at 1. unfold ret at 1.
    destruct (hput_full (VPair p1 p2) s2 HI2) as (p3 & s3 & E3 & Hsp3 & Hcap3 & Hst3 & Hr3 & _ & HI3 & X3 & F3).
    destruct (F3 eq_refl) as (A3 & NA3 & C3).
    unfold bindM at 1. rewrite E3.
    unfold bindM at 1. rewrite stack_put_offset_ok by lia. unfold ret.
    exists p3. eexists. split; [reflexivity|].
    assert (Hst : forall j, sget (with_stack s3 (tset (stack s3) (sp s3 - 3) (VPtr p3)) (sp s3)) j =
                   if sp s - 3 =? j then VPtr p3 else sget s j).
    { intros j. rewrite sget_slot. cbn [stack with_stack]. rewrite slot_tset, Hst3, Hst2, Hst1.
      replace (sp s3 - 3) with (sp s - 3) by lia. reflexivity. }
    split; [cbn [sp with_stack]; unfold base; lia|].
    split. { eapply same_regs_trans; [|unfold same_regs; cbn; repeat split]. regs_chain. }
    unfold base.
    split; [|split; [|split; [|split; [|split]]]].
    + intros j Hj. rewrite Hst. cmp_cases.
    + rewrite Hst. cmp_cases.
    + rewrite Hst. destruct (N.eqb_spec (sp s - 3) (sp s - 3 - m + L + 1)); [lia|].
      replace (sp s - 3 - m + L + 1) with (sp s - 2) by lia. rewrite Hargc. f_equal. lia.
    + rewrite Hst. cmp_cases.
    + rewrite Hst. cmp_cases.
    + cbn [hp with_stack].
      assert (X12 : hext (hp s) (hp s2)) by (eapply hext_trans; eassumption).
      split; [exact HI3|]. split; [eapply hext_trans; eassumption|].
      replace (N.to_nat (m + 1 - L)) with 1%nat by lia. unfold stack_vals. cbn [seq map].
      replace (sp s - 3 - m + L + N.of_nat 0) with (sp s - 3) by lia.
      eapply hl_cons; [exact A3| |exact C3| |].
      * intros Hq. apply NA3. apply (X12 _ Hq).
      * eapply helem_ext; [|exact El1]. eapply hext_trans; eassumption.
      * apply hl_nil; [apply (X3 _ A2)|intros Hq; apply NA2; apply (X1 _ Hq)|].
        destruct (X3 _ A2) as [_ ->]. exact C2.
  - (* general case: pop Ip, Ep, Argc, collect, push the list and a fresh Argc / Ep / Ip *)
    destruct (pop_full s) as (s1 & E1 & Hsp1 & Hcap1 & Hst1 & Hr1 & Hh1); [lia|lia|].
    unfold bindM at 1. rewrite E1.
    destruct (pop_full s1) as (s2 & E2 & Hsp2 & Hcap2 & Hst2 & Hr2 & Hh2); [lia|lia|].
    unfold bindM at 1. rewrite E2.
    destruct (pop_full s2) as (s3 & E3 & Hsp3 & Hcap3 & Hst3 & Hr3 & Hh3); [lia|lia|].
    unfold bindM at 1. rewrite E3.
    assert (Hh03 : hp s3 = hp s) by congruence.
    assert (HI3 : heap_inv (hp s3)) by (rewrite Hh03; exact HI).
    destruct (hput_full VNil s3 HI3) as (p0 & s4 & E4 & Hsp4 & Hcap4 & Hst4 & Hr4 & _ & HI4 & X4 & F4).
    destruct (F4 eq_refl) as (A4 & NA4 & C4). rewrite Hh03 in X4, NA4.
    unfold bindM at 1. rewrite E4. unfold as_ptr at 1. unfold bindM at 1. unfold ret at 1.
    destruct (vararg_collect_list (N.to_nat (m - (L - 1))) p0 s4 (hp s) [])
      as (p & s5 & E5 & Hsp5 & Hcap5 & Hst5 & Hr5 & HI5 & X5 & HL5); [lia|lia|exact HI4| |intros q Hq; apply (X4 _ Hq)|].
    { apply hl_nil; [exact A4|exact NA4|exact C4]. }
    unfold bindM at 1. rewrite E5.
    destruct (push_full (VPtr p) s5) as (s6 & E6 & Hsp6 & Hcap6 & Hst6 & Hr6 & Hh6); [lia|].
    unfold bindM at 1. rewrite E6.
    destruct (push_full (VArgc (L - 1 + 1)) s6) as (s7 & E7 & Hsp7 & Hcap7 & Hst7 & Hr7 & Hh7); [lia|].
    unfold bindM at 1. rewrite E7.
    destruct (push_full (sget s1 (sp s1)) s7) as (s8 & E8 & Hsp8 & Hcap8 & Hst8 & Hr8 & Hh8); [lia|].
    unfold bindM at 1. rewrite E8.
    destruct (push_full (sget s (sp s)) s8) as (s9 & E9 & Hsp9 & Hcap9 & Hst9 & Hr9 & Hh9); [lia|].
    unfold bindM at 1. rewrite E9. unfold ret.
    exists p, s9. split; [reflexivity|].
    assert (Hs1 : sget s1 (sp s1) = sget s (sp s - 1)).
    { rewrite (sget_of_stack s s1) by exact Hst1. f_equal. lia. }
    assert (Hst : forall j, sget s9 j =
       if sp s8 + 1 =? j then sget s (sp s) else if sp s7 + 1 =? j then sget s (sp s - 1)
       else if sp s6 + 1 =? j then VArgc (L - 1 + 1) else if sp s5 + 1 =? j then VPtr p else sget s j).
    { intros j. rewrite sget_slot, Hst9, Hst8, Hst7, Hst6, !slot_tset, Hst5, Hst4, Hst3, Hst2, Hst1, Hs1.
      reflexivity. }
    split; [unfold base; lia|]. split; [regs_chain|].
    unfold base.
    split; [|split; [|split; [|split; [|split]]]].
    + intros j Hj. rewrite Hst. cmp_cases.
    + rewrite Hst. cmp_cases.
    + rewrite Hst. cmp_cases.
    + rewrite Hst. cmp_cases.
    + rewrite Hst. cmp_cases.
    + assert (Hh59 : hp s9 = hp s5) by congruence. rewrite Hh59.
      split; [exact HI5|]. split; [eapply hext_trans; eassumption|].
      rewrite app_nil_r in HL5.
      replace (N.to_nat (m + 1 - L)) with (N.to_nat (m - (L - 1))) by lia.
      replace (sp s - 3 - m + L) with (sp s4 - N.of_nat (N.to_nat (m - (L - 1))) + 1) by lia.
      rewrite <- (stack_vals_stack s s4) by congruence. exact HL5.
Qed.

(* the list predicate spelled out *)
Lemma hlist_unfold h0 h p vs : hlist h0 h p vs <->
  match vs with
  | [] => allocated h p /\ ~ allocated h0 p /\ cell_at h p = VNil
  | v :: vs' => exists a d, allocated h p /\ ~ allocated h0 p /\ cell_at h p = VPair a d /\
                            helem h a v /\ hlist h0 h d vs'
  end.
Proof.
  split.
  - intros H. destruct H as [p A NA C|p a d v vs A NA C E H]; [split; [exact A|split; [exact NA|exact C]]|].
    exists a, d. split; [exact A|]. split; [exact NA|]. split; [exact C|]. split; [exact E|exact H].
  - destruct vs as [|v vs'].
    + intros (A & NA & C). apply hl_nil; assumption.
    + intros (a & d & A & NA & C & E & H). eapply hl_cons; eassumption.
Qed.

(* as one step of the real machine *)
Theorem vararg_step_rest_list ob s0 s l m :
  read_opcode s0 = ROk OVarArg s ->
  cur_lambda s = ROk l s ->
  1 <= len (l_args l) -> len (l_args l) - 1 <= m ->
  m + 3 <= sp s -> sget s (sp s - 2) = VArgc m ->
  sp s + 1 < scap s -> heap_inv (hp s) ->
  let L := len (l_args l) in
  let base := sp s - 3 - m in
  exists p s',
    run_one ob s0 = ROk false s' /\
    sp s' = base + L + 3 /\ same_regs s s' /\
    (forall j, j + 1 <= base + L -> sget s' j = sget s j) /\
    sget s' (base + L) = VPtr p /\
    sget s' (base + L + 1) = VArgc L /\
    sget s' (base + L + 2) = sget s (sp s - 1) /\
    sget s' (base + L + 3) = sget s (sp s) /\
    heap_inv (hp s') /\ hext (hp s) (hp s') /\
    hlist (hp s) (hp s') p (map (fun j => sget s (base + L + N.of_nat j)) (seq 0 (N.to_nat (m + 1 - L)))).
Proof.
  intros Hop Hcur HL Hreq Hsp Hargc Hcap HI L base. rewrite (run_one_vararg ob s0 s Hop).
  exact (vararg_rest_list s l m Hcur HL Hreq Hsp Hargc Hcap HI).
Qed.
