(* VarArgList.v — C01 (work package c01e): the CONTENTS of the rest list VARARG builds.
   VarArgProofs.vararg_frame_effect gives the frame VARARG leaves (slot base+L holds some pointer);
   here: that pointer is the head of a FRESH PROPER LIST (every spine cell allocated by this
   instruction, not allocated before) of the surplus argument values in order, every cell allocated
   before is untouched ([hext]) and the heap invariant is kept.  An element is what Heap::put makes
   of the stack value: a pointer is stored as itself, any other value in an allocated cell. *)
From Coq Require Import Lia List FMapPositive.
From MW Require Import Model.Base Model.F64 Model.Num Model.Datum Model.TransformDef Model.Transform
  Model.VmTypes Model.Heap Model.Gc Model.VmBase Model.Compile Model.Vm Proofs.VmProofs0 Proofs.GcProofs
  Proofs.SymtabProofs Proofs.QuoteHeapProofs Proofs.TailProofs Proofs.VarArgProofs.
Import ListNotations.
Open Scope N_scope.

Arguments N.add : simpl never.
Arguments N.sub : simpl never.
Arguments N.mul : simpl never.
Arguments N.eqb : simpl never.
Arguments N.ltb : simpl never.
Arguments N.leb : simpl never.

(* heap address a stands for the stack value v (Heap::put, heap.rs) *)
Definition helem (h : heap) (a : N) (v : vcell) : Prop :=
  v = VPtr a \/ ((forall q, v <> VPtr q) /\ allocated h a /\ cell_at h a = v).

(* the proper list at address p with elements vs; every spine cell is new w.r.t. h0 *)
Inductive hlist (h0 h : heap) : N -> list vcell -> Prop :=
| hl_nil p : allocated h p -> ~ allocated h0 p -> cell_at h p = VNil -> hlist h0 h p []
| hl_cons p a d v vs : allocated h p -> ~ allocated h0 p -> cell_at h p = VPair a d ->
    helem h a v -> hlist h0 h d vs -> hlist h0 h p (v :: vs).

Lemma hext_refl h : hext h h.
Proof. intros q Hq. split; [exact Hq|reflexivity]. Qed.
Lemma hext_trans h1 h2 h3 : hext h1 h2 -> hext h2 h3 -> hext h1 h3.
Proof. intros A B q Hq. destruct (A q Hq) as [A1 A2]. destruct (B q A1) as [B1 B2]. split; [exact B1|congruence]. Qed.

Lemma helem_ext h h' a v : hext h h' -> helem h a v -> helem h' a v.
Proof.
  intros X [E|(Hn & A & C)]; [left; exact E|right]. destruct (X a A) as [A' C'].
  split; [exact Hn|]. split; [exact A'|congruence].
Qed.
Lemma hlist_ext h0 h h' p vs : hext h h' -> hlist h0 h p vs -> hlist h0 h' p vs.
Proof.
  intros X H. induction H as [p A N C|p a d v vs A N C E _ IH].
  - destruct (X p A) as [A' C']. apply hl_nil; [exact A'|exact N|congruence].
  - destruct (X p A) as [A' C']. eapply hl_cons; [exact A'|exact N|congruence|eapply helem_ext; eassumption|exact IH].
Qed.

Definition fresh_kind (v : vcell) : bool := match v with VNil | VPair _ _ => true | _ => false end.

(* Heap::put through the machine: frame facts (as VarArgProofs.hput_ok) and heap facts *)
Lemma hput_full v s : heap_inv (hp s) -> exists p s', hput v s = ROk (VPtr p) s' /\
  sp s' = sp s /\ scap s' = scap s /\ stack s' = stack s /\ same_regs s s' /\
  helem (hp s') p v /\ heap_inv (hp s') /\ hext (hp s) (hp s') /\
  (fresh_kind v = true -> allocated (hp s') p /\ ~ allocated (hp s) p /\ cell_at (hp s') p = v).
Proof.
  intros HI. unfold hput. destruct (heap_put (hp s) v) as [r h'] eqn:E.
  assert (Hc : (exists q, v = VPtr q) \/ (forall q, v <> VPtr q)).
  { destruct v; try (right; intros q; discriminate). left. eexists. reflexivity. }
  destruct Hc as [[q ->]|Hnp].
  - cbn [heap_put] in E. injection E as <- <-. exists q, (with_heap s (hp s)).
    split; [reflexivity|]. unfold same_regs. cbn. repeat split; try reflexivity.
    + left. reflexivity.
    + exact HI.
    + apply hext_refl.
    + discriminate.
    + discriminate.
    + discriminate.
  - destruct (heap_put_frame _ _ _ _ HI E Hnp) as (a & -> & A & C & HI' & X).
    exists a, (with_heap s h'). split; [reflexivity|]. unfold same_regs. cbn [hp with_heap sp scap stack bp ep ip acc st g_bind g_slots out_log].
    do 3 (split; [reflexivity|]). split; [repeat split|].
    split; [right; repeat split; assumption|]. split; [exact HI'|]. split; [exact X|].
    intros Hk. split; [exact A|]. split; [|exact C].
    destruct v; try discriminate Hk;
      (unfold heap_put, heap_store_new in E; destruct (heap_alloc (hp s)) as [q0 h0] eqn:Ea;
       injection E as Eq _; subst a; destruct (heap_alloc_frame _ _ _ HI Ea) as (_ & _ & NA & _); exact NA).
Qed.

Lemma pop_full s : sp s <> 0 -> sp s < scap s -> exists s', pop_raw s = ROk (sget s (sp s)) s' /\
  sp s' = sp s - 1 /\ scap s' = scap s /\ stack s' = stack s /\ same_regs s s' /\ hp s' = hp s.
Proof.
  intros H0 Hc. unfold pop_raw. destruct (N.eqb_spec (sp s) 0); [contradiction|].
  apply N.ltb_lt in Hc. rewrite Hc. exists (with_sp s (sp s - 1)). unfold same_regs. repeat split.
Qed.

Lemma push_full v s : sp s + 1 < scap s -> exists s', push v s = ROk tt s' /\
  sp s' = sp s + 1 /\ scap s' = scap s /\ stack s' = tset (stack s) (sp s + 1) v /\ same_regs s s' /\ hp s' = hp s.
Proof.
  intros Hc. rewrite push_ok by exact Hc. eexists. split; [reflexivity|]. unfold same_regs. repeat split.
Qed.
