(* NumInexactProofs.v — op_inexact_only_if for + (C08): when is the result of an addition
   of exact operands inexact, and is that justified?
   [representable v]: some well-formed exact number has the value v (decidable);
   [add_takes_fallback a b]: the explicit overflow conditions under which number.rs Add
   leaves the exact representations (independent of running the code);
   [add_known_fallback] = both: exactly the defect class "inexact although representable". *)
From Coq Require Import ZArith Lia Znumtheory Bool QArith List.
From MW Require Import Model.Base Model.F64 Model.Num Model.Ratio32 Model.NumArith Model.NumSpec
  Proofs.GcdProofs Proofs.Ratio32Proofs Proofs.NumProofs Proofs.NumDivProofs.
Open Scope Z_scope.

(* ---- which rationals are values of well-formed exact numbers *)
Definition qreduce (v : Q) : Z * Z :=
  let g := Z.gcd (Qnum v) (Zpos (Qden v)) in (Qnum v / g, Zpos (Qden v) / g).
Definition representable (v : Q) : bool :=
  let '(n, d) := qreduce v in (d =? 1) || (in_i32 n && in_i32 d).

Lemma reduced_unique n d N D : 0 < d -> 0 < D -> Z.gcd n d = 1 -> n * D = N * d ->
  N / Z.gcd N D = n /\ D / Z.gcd N D = d.
Proof.
  intros Pd PD G E.
  assert (Dv : (d | D)).
  { apply Z.gauss with n; [|now rewrite Z.gcd_comm]. exists N. lia. }
  destruct Dv as [k Ek]. assert (Pk : 0 < k) by nia.
  assert (EN : N = k * n) by nia.
  assert (Eg : Z.gcd N D = k).
  { rewrite EN, Ek, (Z.mul_comm k d), (Z.mul_comm k n), Z.gcd_mul_mono_r_nonneg, G by lia. lia. }
  rewrite Eg. split.
  - rewrite EN, Z.mul_comm. apply Z.div_mul. lia.
  - rewrite Ek, Z.mul_comm. apply Z.div_mul. lia.
Qed.

Lemma representable_sound x v : wfb x = true -> is_exact x = true -> (qv x == v)%Q ->
  representable v = true.
Proof.
  intros W X E. unfold representable, qreduce.
  destruct x as [z|z|n d|f]; try discriminate; cbn [qv] in E; unfold Qeq in E; cbn [Qnum Qden inject_Z] in E.
  - destruct (reduced_unique z 1 (Qnum v) (Zpos (Qden v))) as [E1 E2]; try lia; try apply Z.gcd_1_r;
      try (rewrite E2; reflexivity).
  - destruct (reduced_unique z 1 (Qnum v) (Zpos (Qden v))) as [E1 E2]; try lia; try apply Z.gcd_1_r;
      try (rewrite E2; reflexivity).
  - cbn [wfb] in W. unfold rwfb in W. rewrite !andb_true_iff, Z.ltb_lt, Z.eqb_eq in W.
    destruct W as [[[Rn Rd] Pd] G]. rewrite Z2Pos.id in E by exact Pd.
    destruct (reduced_unique n d (Qnum v) (Zpos (Qden v))) as [E1 E2]; try lia.
    rewrite E1, E2, Rn, Rd. apply orb_true_r.
Qed.

Lemma representable_complete v : representable v = true ->
  exists x, wfb x = true /\ is_exact x = true /\ (qv x == v)%Q.
Proof.
  unfold representable, qreduce. intros H.
  destruct (gcd_parts (Qnum v) (Zpos (Qden v)) ltac:(lia)) as [n1 [d1 [Pg [En [Ed [G1 _]]]]]]. cbn zeta in *.
  set (g := Z.gcd (Qnum v) (Zpos (Qden v))) in *.
  assert (Q1 : Qnum v / g = n1) by (rewrite En; apply Z.div_mul; lia).
  assert (Q2 : Zpos (Qden v) / g = d1) by (rewrite Ed; apply Z.div_mul; lia).
  rewrite Q1, Q2 in H. assert (Pd1 : 0 < d1) by nia.
  destruct (Z.eqb_spec d1 1) as [D1|D1].
  - exists (BigInt n1). split; [reflexivity|]. split; [reflexivity|].
    cbn [qv]. unfold Qeq. cbn [Qnum Qden inject_Z]. rewrite Ed, En, D1. ring.
  - cbn [orb] in H. apply andb_true_iff in H. destruct H as [Rn Rd].
    exists (Rational n1 d1). split; [|split; [reflexivity|]].
    + cbn [wfb]. unfold rwfb. rewrite Rn, Rd, G1. cbn [andb]. rewrite Z.eqb_refl, andb_true_r. now apply Z.ltb_lt.
    + cbn [qv]. unfold Qeq. cbn [Qnum Qden]. rewrite Z2Pos.id by exact Pd1. rewrite Ed, En. ring.
Qed.

Lemma unrepresentable_spec v : representable v = false ->
  forall x, wfb x = true -> is_exact x = true -> ~ (qv x == v)%Q.
Proof.
  intros H x W X E. rewrite (representable_sound x v W X E) in H. discriminate.
Qed.

(* ---- checked_add / checked_sub answer None exactly on these overflow conditions
   (nr:873-894: the lcm, the two scaled numerators, their sum / difference) *)
Definition addsub_fits (sub : bool) w (a b : ratio) : bool :=
  let '(an, ad) := a in
  let '(bn, bd) := b in
  let g := Z.gcd ad bd in
  let lcm := Z.quot ad g * bd in
  let ln := Z.quot lcm ad * an in
  let rn := Z.quot lcm bd * bn in
  in_int w lcm && in_int w ln && in_int w rn && in_int w (if sub then ln - rn else ln + rn).

Lemma ichecked_out w z : in_int w z = false -> ichecked w z = None.
Proof. unfold ichecked. now intros ->. Qed.

Lemma rchecked_addsub_fits (sub : bool) p w a b : 2 <= w -> rok w a -> rok w b ->
  if addsub_fits sub w a b then exists r, rchecked_addsub sub p w a b = Ok (Some r)
  else rchecked_addsub sub p w a b = Ok None.
Proof.
  intros Hw [Han [Had Pa]] [Hbn [Hbd Pb]]. destruct a as [an ad], b as [bn bd]. cbn [fst snd] in *.
  unfold rchecked_addsub, addsub_fits.
  assert (MINneg : imin w < 0) by (apply imin_neg; lia).
  rewrite igcd_spec; try assumption.
  2:{ pose proof Had as X. pose proof Hbd as Y. apply in_int_iff in X. apply in_int_iff in Y.
      split; intros E; lia. }
  cbn [bind]. set (g := Z.gcd ad bd).
  assert (Pg : 0 < g) by (apply gcd_pos_r; exact Pb).
  rewrite idiv_ok by lia. cbn [bind].
  assert (Pq : 0 < Z.quot ad g).
  { destruct (Z.gcd_divide_l ad bd) as [a1 Ea]. fold g in Ea. rewrite Ea, Z.quot_mul by lia. nia. }
  unfold ichecked_mul. set (lcm := Z.quot ad g * bd).
  destruct (in_int w lcm) eqn:Rl; cbn [andb]; [|now rewrite ichecked_out].
  rewrite ichecked_in by exact Rl.
  assert (Pl : 0 < lcm) by (subst lcm; nia).
  rewrite idiv_ok by lia. cbn [bind].
  destruct (in_int w (Z.quot lcm ad * an)) eqn:R1; cbn [andb]; [|now rewrite ichecked_out].
  rewrite ichecked_in by exact R1.
  rewrite idiv_ok by lia. cbn [bind].
  destruct (in_int w (Z.quot lcm bd * bn)) eqn:R2; cbn [andb]; [|now rewrite ichecked_out].
  rewrite ichecked_in by exact R2.
  set (ln := Z.quot lcm ad * an). set (rn := Z.quot lcm bd * bn).
  assert (Hs : (if sub then ichecked_sub w ln rn else ichecked_add w ln rn)
               = ichecked w (if sub then ln - rn else ln + rn)) by (destruct sub; reflexivity).
  rewrite Hs.
  destruct (in_int w (if sub then ln - rn else ln + rn)) eqn:R3; [|now rewrite ichecked_out].
  rewrite ichecked_in by exact R3.
  destruct (rreduce_pos p w _ lcm Hw R3 Rl Pl) as [n' [d' [Hr _]]].
  unfold rnew. rewrite Hr. cbn [bind]. eexists. reflexivity.
Qed.

(* ---- number.rs Add leaves the exact representations exactly here *)
Definition add_takes_fallback (a b : num) : bool :=
  match a, b with
  | Fixnum l, Rational n d | Rational n d, Fixnum l =>
      negb (in_i32 l) || negb (addsub_fits false 32 (l, 1) (n, d))
  | BigInt _, Rational _ d | Rational _ d, BigInt _ => negb (d =? 1)
  | Rational ln ld, Rational rn rd => negb (addsub_fits false 32 (ln, ld) (rn, rd))
  | _, _ => false
  end.

Lemma or_float_is_exact (o : out (option ratio)) fb r (fits : bool) :
  (if fits then exists q, o = Ok (Some q) else o = Ok None) ->
  or_float o fb = Ok r -> is_exact r = fits.
Proof.
  destruct fits; [intros [q H]|intros H]; rewrite H; cbn; intros E; inversion E; reflexivity.
Qed.

Theorem add_inexact_iff p a b r :
  wfb a = true -> wfb b = true -> is_exact a = true -> is_exact b = true ->
  num_add p a b = Ok r -> is_exact r = negb (add_takes_fallback a b).
Proof.
  intros Wa Wb Xa Xb Hr. assert (H32 : 2 <= 32) by lia.
  destruct a as [l|l|ln ld|fl]; destruct b as [r0|r0|rn rd|fr]; try discriminate;
    cbn [num_add add_takes_fallback wfb] in *;
    try (apply rwfb_rwf in Wa); try (apply rwfb_rwf in Wb).
  - destruct (ichecked_add W64 l r0); inv_ok Hr; reflexivity.
  - inv_ok Hr; reflexivity.
  - destruct (in_i32 l) eqn:E; cbn [negb orb]; [|inv_ok Hr; reflexivity].
    rewrite negb_involutive. eapply or_float_is_exact; [|exact Hr].
    exact (rchecked_addsub_fits false p 32 (rfrom_integer l) (rn, rd) H32 (rok_int l E) (rwf_rok _ _ Wb)).
  - inv_ok Hr; reflexivity.
  - inv_ok Hr; reflexivity.
  - unfold ris_integer in Hr. cbn [snd] in Hr. destruct (rd =? 1) eqn:E; cbn [negb].
    + destruct (rto_integer W32 (rn, rd)); cbn [bind] in Hr; inv_ok Hr. reflexivity.
    + inv_ok Hr. reflexivity.
  - destruct (in_i32 r0) eqn:E; cbn [negb orb]; [|inv_ok Hr; reflexivity].
    rewrite negb_involutive. eapply or_float_is_exact; [|exact Hr].
    exact (rchecked_addsub_fits false p 32 (rfrom_integer r0) (ln, ld) H32 (rok_int r0 E) (rwf_rok _ _ Wa)).
  - unfold ris_integer in Hr. cbn [snd] in Hr. destruct (ld =? 1) eqn:E; cbn [negb].
    + destruct (rto_integer W32 (ln, ld)); cbn [bind] in Hr; inv_ok Hr. reflexivity.
    + inv_ok Hr. reflexivity.
  - rewrite negb_involutive. eapply or_float_is_exact; [|exact Hr].
    exact (rchecked_addsub_fits false p 32 (ln, ld) (rn, rd) H32 (rwf_rok _ _ Wa) (rwf_rok _ _ Wb)).
Qed.

(* ---- the defect class: the fallback is taken although the sum is representable *)
Definition add_known_fallback (a b : num) : bool :=
  add_takes_fallback a b && representable (qv a + qv b).

(* op_inexact_only_if for +: outside the class, an inexact sum is justified *)
Theorem add_inexact_only_if p a b r :
  wfb a = true -> wfb b = true -> is_exact a = true -> is_exact b = true ->
  add_known_fallback a b = false -> num_add p a b = Ok r -> is_exact r = false ->
  forall x, wfb x = true -> is_exact x = true -> ~ (qv x == qv a + qv b)%Q.
Proof.
  intros Wa Wb Xa Xb NK Hr Xr.
  rewrite (add_inexact_iff p a b r Wa Wb Xa Xb Hr) in Xr. apply negb_false_iff in Xr.
  unfold add_known_fallback in NK. rewrite Xr in NK. cbn [andb] in NK.
  now apply unrepresentable_spec.
Qed.

(* ... and the class is tight: each member is a genuine instance of the defect *)
Theorem add_known_fallback_tight p a b r :
  wfb a = true -> wfb b = true -> is_exact a = true -> is_exact b = true ->
  add_known_fallback a b = true -> num_add p a b = Ok r ->
  is_exact r = false /\ exists x, wfb x = true /\ is_exact x = true /\ (qv x == qv a + qv b)%Q.
Proof.
  intros Wa Wb Xa Xb K Hr. unfold add_known_fallback in K. apply andb_true_iff in K. destruct K as [K1 K2].
  split.
  - rewrite (add_inexact_iff p a b r Wa Wb Xa Xb Hr), K1. reflexivity.
  - now apply representable_complete.
Qed.

(* ================================================= the same for - and *, uniformly *)
(* checked_mul answers None exactly when the cross-reduced numerator or denominator
   product leaves the machine width (nr:805-821) *)
Definition mul_fits w (a b : ratio) : bool :=
  let '(an, ad) := a in
  let '(bn, bd) := b in
  let g1 := Z.gcd an bd in
  let g2 := Z.gcd ad bn in
  in_int w (Z.quot an g1 * Z.quot bn g2) && in_int w (Z.quot ad g2 * Z.quot bd g1).

Lemma rchecked_mul_fits p w a b : 2 <= w -> rok w a -> rok w b ->
  if mul_fits w a b then exists r, rchecked_mul p w a b = Ok (Some r)
  else rchecked_mul p w a b = Ok None.
Proof.
  intros Hw [Han [Had Pa]] [Hbn [Hbd Pb]]. destruct a as [an ad], b as [bn bd]. cbn [fst snd] in *.
  unfold rchecked_mul, mul_fits.
  assert (MINneg : imin w < 0) by (apply imin_neg; lia).
  pose proof Had as X. pose proof Hbd as Y. apply in_int_iff in X. apply in_int_iff in Y.
  rewrite (igcd_spec p w an bd); try assumption.
  2:{ split; intros E; [split|]; lia. }
  cbn [bind].
  rewrite (igcd_spec p w ad bn); try assumption.
  2:{ split; intros E; [|split]; lia. }
  cbn [bind].
  set (g1 := Z.gcd an bd). set (g2 := Z.gcd ad bn).
  assert (P1 : 0 < g1) by (apply gcd_pos_r; exact Pb).
  assert (P2 : 0 < g2) by (subst g2; rewrite Z.gcd_comm; apply gcd_pos_r; exact Pa).
  rewrite !idiv_ok by lia. cbn [bind]. unfold ichecked_mul.
  destruct (in_int w (Z.quot an g1 * Z.quot bn g2)) eqn:R1; cbn [andb]; [|now rewrite ichecked_out].
  rewrite ichecked_in by exact R1.
  rewrite ?idiv_ok by lia. cbn [bind].
  destruct (in_int w (Z.quot ad g2 * Z.quot bd g1)) eqn:R2; [|now rewrite ichecked_out].
  rewrite ichecked_in by exact R2.
  assert (Pd : 0 < Z.quot ad g2 * Z.quot bd g1).
  { destruct (Z.gcd_divide_l ad bn) as [y1 E3]. destruct (Z.gcd_divide_r an bd) as [y2 E2].
    fold g2 in E3. fold g1 in E2. rewrite E3, E2, !Z.quot_mul by lia. nia. }
  destruct (rreduce_pos p w _ _ Hw R1 R2 Pd) as [n' [d' [Hr _]]].
  unfold rnew. rewrite Hr. cbn [bind]. eexists. reflexivity.
Qed.

Inductive aop3 := AAdd | ASub | AMul.
Definition op_fn (o : aop3) : profile -> num -> num -> out num :=
  match o with AAdd => num_add | ASub => num_sub | AMul => num_mul end.
Definition op_q (o : aop3) : Q -> Q -> Q :=
  match o with AAdd => Qplus | ASub => Qminus | AMul => Qmult end.
Definition ratio_fits (o : aop3) (a b : ratio) : bool :=
  match o with
  | AAdd => addsub_fits false 32 a b
  | ASub => addsub_fits true 32 a b
  | AMul => mul_fits 32 a b
  end.
(* the explicit conditions under which number.rs Add / Sub / Mul leave the exact
   representations; note the operand order of the Rational-Fixnum arms *)
Definition op_takes_fallback (o : aop3) (a b : num) : bool :=
  match a, b with
  | Fixnum l, Rational n d => negb (in_i32 l) || negb (ratio_fits o (l, 1) (n, d))
  | Rational n d, Fixnum l =>
      negb (in_i32 l) ||
      negb (match o with ASub => ratio_fits o (n, d) (l, 1) | _ => ratio_fits o (l, 1) (n, d) end)
  | BigInt _, Rational _ d | Rational _ d, BigInt _ => negb (d =? 1)
  | Rational ln ld, Rational rn rd => negb (ratio_fits o (ln, ld) (rn, rd))
  | _, _ => false
  end.
Definition op_known_fallback (o : aop3) (a b : num) : bool :=
  op_takes_fallback o a b && representable (op_q o (qv a) (qv b)).

Lemma big_ratio_is_exact (rn rd : Z) (k : Z -> num) (fb : num) r :
  (forall i, is_exact (k i) = true) -> is_exact fb = false ->
  (if ris_integer (rn, rd) then do i <- rto_integer W32 (rn, rd); Ok (k i) else Ok fb) = Ok r ->
  is_exact r = negb (negb (rd =? 1)).
Proof.
  intros Hk Hfb H. unfold ris_integer in H. cbn [snd] in H. destruct (rd =? 1); cbn [negb].
  - destruct (rto_integer W32 (rn, rd)); cbn [bind] in H; inv_ok H. apply Hk.
  - inv_ok H. exact Hfb.
Qed.

Theorem op_inexact_iff o p a b r :
  wfb a = true -> wfb b = true -> is_exact a = true -> is_exact b = true ->
  op_fn o p a b = Ok r -> is_exact r = negb (op_takes_fallback o a b).
Proof.
  intros Wa Wb Xa Xb Hr. assert (H32 : 2 <= 32) by lia.
  destruct a as [l|l|ln ld|fl]; destruct b as [r0|r0|rn rd|fr]; try discriminate;
    cbn [wfb op_takes_fallback] in *;
    try (apply rwfb_rwf in Wa); try (apply rwfb_rwf in Wb).
  - destruct o; cbn [op_fn num_add num_sub num_mul] in Hr;
      match type of Hr with Ok (match ?c with _ => _ end) = _ => destruct c end; inv_ok Hr; reflexivity.
  - destruct o; cbn [op_fn num_add num_sub num_mul] in Hr; inv_ok Hr; reflexivity.
  - destruct (in_i32 l) eqn:E; cbn [negb orb].
    2:{ destruct o; cbn [op_fn num_add num_sub num_mul] in Hr; rewrite E in Hr; inv_ok Hr; reflexivity. }
    rewrite negb_involutive.
    destruct o; cbn [op_fn num_add num_sub num_mul ratio_fits] in *; rewrite E in Hr;
      (eapply or_float_is_exact; [|exact Hr]).
    + exact (rchecked_addsub_fits false p 32 (rfrom_integer l) (rn, rd) H32 (rok_int l E) (rwf_rok _ _ Wb)).
    + exact (rchecked_addsub_fits true p 32 (rfrom_integer l) (rn, rd) H32 (rok_int l E) (rwf_rok _ _ Wb)).
    + exact (rchecked_mul_fits p 32 (rfrom_integer l) (rn, rd) H32 (rok_int l E) (rwf_rok _ _ Wb)).
  - destruct o; cbn [op_fn num_add num_sub num_mul] in Hr; inv_ok Hr; reflexivity.
  - destruct o; cbn [op_fn num_add num_sub num_mul] in Hr; inv_ok Hr; reflexivity.
  - destruct o; cbn [op_fn num_add num_sub num_mul] in Hr;
      (eapply big_ratio_is_exact; [| |exact Hr]; [intros i; reflexivity|reflexivity]).
  - destruct (in_i32 r0) eqn:E; cbn [negb orb].
    2:{ destruct o; cbn [op_fn num_add num_sub num_mul] in Hr; rewrite E in Hr; inv_ok Hr; reflexivity. }
    rewrite negb_involutive.
    destruct o; cbn [op_fn num_add num_sub num_mul ratio_fits] in *; rewrite E in Hr;
      (eapply or_float_is_exact; [|exact Hr]).
    + exact (rchecked_addsub_fits false p 32 (rfrom_integer r0) (ln, ld) H32 (rok_int r0 E) (rwf_rok _ _ Wa)).
    + exact (rchecked_addsub_fits true p 32 (ln, ld) (rfrom_integer r0) H32 (rwf_rok _ _ Wa) (rok_int r0 E)).
    + exact (rchecked_mul_fits p 32 (rfrom_integer r0) (ln, ld) H32 (rok_int r0 E) (rwf_rok _ _ Wa)).
  - destruct o; cbn [op_fn num_add num_sub num_mul] in Hr;
      (eapply big_ratio_is_exact; [| |exact Hr]; [intros i; reflexivity|reflexivity]).
  - rewrite negb_involutive.
    destruct o; cbn [op_fn num_add num_sub num_mul ratio_fits] in *; (eapply or_float_is_exact; [|exact Hr]).
    + exact (rchecked_addsub_fits false p 32 (ln, ld) (rn, rd) H32 (rwf_rok _ _ Wa) (rwf_rok _ _ Wb)).
    + exact (rchecked_addsub_fits true p 32 (ln, ld) (rn, rd) H32 (rwf_rok _ _ Wa) (rwf_rok _ _ Wb)).
    + exact (rchecked_mul_fits p 32 (ln, ld) (rn, rd) H32 (rwf_rok _ _ Wa) (rwf_rok _ _ Wb)).
Qed.

Theorem op_inexact_only_if o p a b r :
  wfb a = true -> wfb b = true -> is_exact a = true -> is_exact b = true ->
  op_known_fallback o a b = false -> op_fn o p a b = Ok r -> is_exact r = false ->
  forall x, wfb x = true -> is_exact x = true -> ~ (qv x == op_q o (qv a) (qv b))%Q.
Proof.
  intros Wa Wb Xa Xb NK Hr Xr.
  rewrite (op_inexact_iff o p a b r Wa Wb Xa Xb Hr) in Xr. apply negb_false_iff in Xr.
  unfold op_known_fallback in NK. rewrite Xr in NK. cbn [andb] in NK.
  now apply unrepresentable_spec.
Qed.

Theorem op_known_fallback_tight o p a b r :
  wfb a = true -> wfb b = true -> is_exact a = true -> is_exact b = true ->
  op_known_fallback o a b = true -> op_fn o p a b = Ok r ->
  is_exact r = false /\
  exists x, wfb x = true /\ is_exact x = true /\ (qv x == op_q o (qv a) (qv b))%Q.
Proof.
  intros Wa Wb Xa Xb K Hr. unfold op_known_fallback in K. apply andb_true_iff in K. destruct K as [K1 K2].
  split.
  - rewrite (op_inexact_iff o p a b r Wa Wb Xa Xb Hr), K1. reflexivity.
  - now apply representable_complete.
Qed.

(* C08_full restricted to + - * and to the complement of the decidable defect class: total,
   well-formed, exact results are right, inexact results are justified — both profiles *)
Theorem op_full_outside o p a b :
  wfb a = true -> wfb b = true -> is_exact a = true -> is_exact b = true ->
  op_known_fallback o a b = false ->
  exists r, op_fn o p a b = Ok r /\ wfb r = true /\
    (is_exact r = true -> (qv r == op_q o (qv a) (qv b))%Q) /\
    (is_exact r = false ->
     forall x, wfb x = true -> is_exact x = true -> ~ (qv x == op_q o (qv a) (qv b))%Q).
Proof.
  intros Wa Wb Xa Xb NK.
  destruct (addsubmul_total p a b Wa Wb Xa Xb) as [[r1 H1] [[r2 H2] [r3 H3]]].
  assert (T : exists r, op_fn o p a b = Ok r) by (destruct o; cbn [op_fn]; eauto).
  destruct T as [r Hr]. exists r. split; [exact Hr|].
  assert (EX : is_exact r = true -> wfb r = true /\ (qv r == op_q o (qv a) (qv b))%Q).
  { intros Xr. destruct o; cbn [op_fn op_q] in *;
      [eapply add_exact|eapply sub_exact|eapply mul_exact]; eassumption. }
  split; [|split].
  - destruct (is_exact r) eqn:Xr; [now apply EX|]. destruct r; try discriminate. reflexivity.
  - intros Xr. now apply EX.
  - intros Xr. eapply op_inexact_only_if; eassumption.
Qed.

(* ============================================================ the same for / *)
(* checked_div as a pure function of the operands (None = the fallback), valid whenever the
   Debug build does not panic *)
Definition nd_pure w (an ad bn bd : Z) : option (Z * Z) :=
  if ad =? bd then Some (an, bn)
  else if an =? bn then Some (bd, ad)
  else
    let gac := Z.gcd an bn in
    let gbd := Z.gcd ad bd in
    match ichecked_mul w (Z.quot an gac) (Z.quot bd gbd) with
    | None => None
    | Some nn =>
        match ichecked_mul w (Z.quot ad gbd) (Z.quot bn gac) with
        | None => None
        | Some dd => Some (nn, dd)
        end
    end.
Definition tail_pure w (numer denom : Z) : option ratio :=
  if denom =? 0 then None
  else if numer =? 0 then Some rzero
  else if numer =? denom then Some rone
  else
    let g := Z.gcd numer denom in
    let n1 := Z.quot numer g in
    let d1 := Z.quot denom g in
    if d1 <? 0 then
      match ichecked_mul w n1 (-1) with
      | None => None
      | Some n2 => match ichecked_mul w d1 (-1) with
                   | None => None
                   | Some d2 => Some (n2, d2)
                   end
      end
    else Some (n1, d1).
Definition div_pure w (a b : ratio) : option ratio :=
  let '(an, ad) := a in
  let '(bn, bd) := b in
  if bn =? 0 then None
  else match nd_pure w an ad bn bd with
       | None => None
       | Some (numer, denom) => tail_pure w numer denom
       end.

Lemma cd_nd_pure p w an ad bn bd : 2 <= w -> rok w (an, ad) -> rok w (bn, bd) -> bn <> 0 ->
  (exists s, cd_nd Debug w an ad bn bd = Panic s) \/
  cd_nd p w an ad bn bd = Ok (nd_pure w an ad bn bd).
Proof.
  intros Hw [Han [Had Pa]] [Hbn [Hbd Pb]] Nb. cbn [fst snd] in *. unfold cd_nd, nd_pure.
  destruct (Z.eqb_spec ad bd) as [Ed|Ed]; [right; reflexivity|].
  destruct (Z.eqb_spec an bn) as [En|En]; [right; reflexivity|].
  assert (MINneg : imin w < 0) by (apply imin_neg; lia).
  destruct (igcd_cases p w an bn Hw Han Hbn En) as [G1|G1].
  2:{ left. rewrite G1. eexists. reflexivity. }
  right. rewrite G1. cbn [bind].
  assert (S2 : gcd_safe w ad bd).
  { pose proof Had as X. pose proof Hbd as Y. apply in_int_iff in X. apply in_int_iff in Y. split; intros E; lia. }
  rewrite igcd_spec by assumption. cbn [bind].
  assert (P1 : 0 < Z.gcd an bn).
  { pose proof (Z.gcd_nonneg an bn). destruct (Z.eq_dec (Z.gcd an bn) 0) as [G0|G0]; [|lia].
    apply Z.gcd_eq_0_r in G0. contradiction. }
  assert (P2 : 0 < Z.gcd ad bd) by (apply gcd_pos_r; lia).
  rewrite !idiv_ok by lia. cbn [bind].
  destruct (ichecked_mul w (Z.quot an (Z.gcd an bn)) (Z.quot bd (Z.gcd ad bd))); [|reflexivity].
  rewrite ?idiv_ok by lia. cbn [bind].
  destruct (ichecked_mul w (Z.quot ad (Z.gcd ad bd)) (Z.quot bn (Z.gcd an bn))); reflexivity.
Qed.

Lemma cd_tail_pure p w numer denom : 2 <= w ->
  in_int w numer = true -> in_int w denom = true -> denom <> 0 ->
  cd_tail p w (Some (numer, denom)) = Ok (tail_pure w numer denom).
Proof.
  intros Hw Hn Hd Nd. unfold cd_tail, tail_pure.
  destruct (Z.eqb_spec denom 0); [contradiction|].
  destruct (Z.eqb_spec numer 0) as [N0|N0]; [reflexivity|].
  destruct (Z.eqb_spec numer denom) as [ND|ND]; [reflexivity|].
  assert (MINneg : imin w < 0) by (apply imin_neg; lia).
  assert (S : gcd_safe w numer denom) by (split; intros E; split; congruence).
  rewrite igcd_spec by assumption. cbn [bind].
  assert (Pg : 0 < Z.gcd numer denom).
  { pose proof (Z.gcd_nonneg numer denom). destruct (Z.eq_dec (Z.gcd numer denom) 0) as [G0|G0]; [|lia].
    apply Z.gcd_eq_0_r in G0. contradiction. }
  rewrite !idiv_ok by lia. cbn [bind].
  destruct (Z.quot denom (Z.gcd numer denom) <? 0); [|reflexivity].
  destruct (ichecked_mul w (Z.quot numer (Z.gcd numer denom)) (-1)); [|reflexivity].
  destruct (ichecked_mul w (Z.quot denom (Z.gcd numer denom)) (-1)); reflexivity.
Qed.

Lemma rchecked_div_pure p w a b : 2 <= w -> rok w a -> rok w b -> fst b <> 0 ->
  (exists s, rchecked_div Debug w a b = Panic s) \/ rchecked_div p w a b = Ok (div_pure w a b).
Proof.
  intros Hw Ha Hb Nb. destruct a as [an ad], b as [bn bd]. cbn [fst snd] in Nb.
  rewrite !rchecked_div_unfold. unfold div_pure. destruct (Z.eqb_spec bn 0); [contradiction|].
  destruct (cd_nd_pure p w an ad bn bd Hw Ha Hb Nb) as [[s Hs]|Hp].
  { left. rewrite Hs. eexists. reflexivity. }
  destruct (cd_nd_spec p w an ad bn bd Hw Ha Hb Nb) as [[s Hs]|[Hn|[numer [denom [Hn [Rn [Rd [Nd _]]]]]]]].
  - left. rewrite Hs. eexists. reflexivity.
  - right. rewrite Hn in *. inversion Hp as [Hp']. reflexivity.
  - right. rewrite Hn in *. inversion Hp as [Hp']. cbn [bind]. now apply cd_tail_pure.
Qed.

Definition is_some {A} (o : option A) : bool := match o with Some _ => true | None => false end.
Definition div_fits (a b : ratio) : bool := is_some (div_pure 32 a b).

(* the explicit conditions under which number.rs Div leaves the exact representations *)
Definition div_takes_fallback (a b : num) : bool :=
  match a, b with
  | Fixnum l, Fixnum r | Fixnum l, BigInt r | BigInt l, Fixnum r | BigInt l, BigInt r =>
      negb (in_i32 l && in_i32 r)
  | Fixnum l, Rational n d | BigInt l, Rational n d =>
      negb (in_i32 l) || negb (div_fits (l, 1) (n, d))
  | Rational n d, Fixnum r | Rational n d, BigInt r =>
      negb (in_i32 r) || negb (div_fits (n, d) (r, 1))
  | Rational ln ld, Rational rn rd => negb (div_fits (ln, ld) (rn, rd))
  | _, _ => false
  end.
Definition div_known_fallback (a b : num) : bool :=
  div_takes_fallback a b && representable (qv a / qv b).

Lemma or_float_div_outcome (oD o : out (option ratio)) (pure : option ratio) fbD fb :
  ((exists s, oD = Panic s) \/ o = Ok pure) ->
  (exists s, or_float oD fbD = Panic s) \/
  exists r, or_float o fb = Ok r /\ is_exact r = is_some pure.
Proof.
  intros [[s H]|H].
  - left. rewrite H. eexists. reflexivity.
  - right. rewrite H. destruct pure; cbn; eexists; split; reflexivity.
Qed.

Lemma ratio_of_ints_outcome p l r0 : in_i32 l = true -> in_i32 r0 = true -> r0 <> 0 ->
  (exists s, ratio_of_ints Debug l r0 = Panic s) \/
  exists r, ratio_of_ints p l r0 = Ok r /\ is_exact r = true.
Proof.
  intros Hl Hr Nz. unfold ratio_of_ints, rnew.
  destruct (rreduce_gen p W32 l r0 ltac:(unfold W32; lia) Hl Hr Nz) as [[s Hs]|[n' [d' [Hq _]]]].
  - left. rewrite Hs. eexists. reflexivity.
  - right. rewrite Hq. eexists. split; reflexivity.
Qed.

(* / on exact operands: the Debug build panics (class ratio32-overflow-panic), or the result
   exists in both profiles and is inexact exactly on the explicit conditions *)
Theorem div_outcome p a b :
  wfb a = true -> wfb b = true -> is_exact a = true -> is_exact b = true -> ~ (qv b == 0)%Q ->
  (exists s, num_div Debug a b = Panic s) \/
  exists r, num_div p a b = Ok r /\ is_exact r = negb (div_takes_fallback a b).
Proof.
  intros Wa Wb Xa Xb Nz. assert (H32 : 2 <= 32) by lia.
  destruct a as [l|l|ln ld|fl]; destruct b as [r0|r0|rn rd|fr]; try discriminate;
    cbn [num_div div_takes_fallback qv wfb] in *;
    try (apply rwfb_rwf in Wa); try (apply rwfb_rwf in Wb);
    try (apply qv_int_nz in Nz); try (apply qv_rat_nz in Nz).
  1,2,4,5: destruct (in_i32 l) eqn:El; destruct (in_i32 r0) eqn:Er; cbn [andb negb];
    try (right; eexists; split; reflexivity); now apply ratio_of_ints_outcome.
  1,2: destruct (in_i32 l) eqn:El; cbn [negb orb]; [|right; eexists; split; reflexivity];
    rewrite negb_involutive; apply or_float_div_outcome;
    exact (rchecked_div_pure p 32 (rfrom_integer l) (rn, rd) H32 (rok_int l El) (rwf_rok _ _ Wb) Nz).
  1,2: destruct (in_i32 r0) eqn:Er; cbn [negb orb]; [|right; eexists; split; reflexivity];
    rewrite negb_involutive; apply or_float_div_outcome;
    exact (rchecked_div_pure p 32 (ln, ld) (rfrom_integer r0) H32 (rwf_rok _ _ Wa) (rok_int r0 Er) Nz).
  rewrite negb_involutive. apply or_float_div_outcome.
  exact (rchecked_div_pure p 32 (ln, ld) (rn, rd) H32 (rwf_rok _ _ Wa) (rwf_rok _ _ Wb) Nz).
Qed.

(* C08_full for / outside the two decidable classes (Debug panic; fallback although
   representable) *)
Theorem div_full_outside p a b :
  wfb a = true -> wfb b = true -> is_exact a = true -> is_exact b = true -> ~ (qv b == 0)%Q ->
  (forall s, num_div Debug a b <> Panic s) -> div_known_fallback a b = false ->
  exists r, num_div p a b = Ok r /\ wfb r = true /\
    (is_exact r = true -> (qv r == qv a / qv b)%Q) /\
    (is_exact r = false ->
     forall x, wfb x = true -> is_exact x = true -> ~ (qv x == qv a / qv b)%Q).
Proof.
  intros Wa Wb Xa Xb Nz NP NK.
  destruct (div_outcome p a b Wa Wb Xa Xb Nz) as [[s Hs]|[r [Hr Xr]]].
  { exfalso. apply (NP s). exact Hs. }
  exists r. split; [exact Hr|].
  assert (EX : is_exact r = true -> wfb r = true /\ (qv r == qv a / qv b)%Q).
  { intros X. destruct (div_exact p a b r Wa Wb Xa Xb Nz NP Hr X) as [W E]. split; [exact W|].
    rewrite <- E. symmetry. apply Qdiv_mult_l. exact Nz. }
  split; [|split].
  - destruct (is_exact r) eqn:X; [now apply EX|]. destruct r; try discriminate. reflexivity.
  - intros X. now apply EX.
  - intros X. rewrite X in Xr. symmetry in Xr. apply negb_false_iff in Xr.
    unfold div_known_fallback in NK. rewrite Xr in NK. cbn [andb] in NK.
    now apply unrepresentable_spec.
Qed.

Theorem div_known_fallback_tight p a b r :
  wfb a = true -> wfb b = true -> is_exact a = true -> is_exact b = true -> ~ (qv b == 0)%Q ->
  (forall s, num_div Debug a b <> Panic s) ->
  div_known_fallback a b = true -> num_div p a b = Ok r ->
  is_exact r = false /\ exists x, wfb x = true /\ is_exact x = true /\ (qv x == qv a / qv b)%Q.
Proof.
  intros Wa Wb Xa Xb Nz NP K Hr. unfold div_known_fallback in K. apply andb_true_iff in K. destruct K as [K1 K2].
  split; [|now apply representable_complete].
  destruct (div_outcome p a b Wa Wb Xa Xb Nz) as [[s Hs]|[r' [Hr' Xr]]].
  { exfalso. apply (NP s). exact Hs. }
  rewrite Hr in Hr'. inversion Hr'. subst r'. rewrite Xr, K1. reflexivity.
Qed.

(* ---- C08_full, all four operators, on the complement of the decidable defect classes *)
Definition div_debug_panics (a b : num) : bool :=
  match num_div Debug a b with Panic _ => true | _ => false end.
Definition div_known (a b : num) : bool := div_debug_panics a b || div_known_fallback a b.

Theorem full_outside p (op : profile -> num -> num -> out num) (opq : Q -> Q -> Q)
    (known : num -> num -> bool) :
  In (op, opq, known)
     ((num_add, Qplus, op_known_fallback AAdd) :: (num_sub, Qminus, op_known_fallback ASub) ::
      (num_mul, Qmult, op_known_fallback AMul) :: (num_div, Qdiv, div_known) :: nil) ->
  forall a b, wfb a = true -> wfb b = true -> is_exact a = true -> is_exact b = true ->
  (opq = Qdiv -> ~ (qv b == 0)%Q) ->
  known a b = false ->
  exists r, op p a b = Ok r /\ wfb r = true /\
    (is_exact r = true -> (qv r == opq (qv a) (qv b))%Q) /\
    (is_exact r = false ->
     forall x, wfb x = true -> is_exact x = true -> ~ (qv x == opq (qv a) (qv b))%Q).
Proof.
  intros HIn a b Wa Wb Xa Xb Nz NK.
  cbn [In] in HIn. destruct HIn as [E|[E|[E|[E|[]]]]]; inversion E; subst op opq known.
  - exact (op_full_outside AAdd p a b Wa Wb Xa Xb NK).
  - exact (op_full_outside ASub p a b Wa Wb Xa Xb NK).
  - exact (op_full_outside AMul p a b Wa Wb Xa Xb NK).
  - unfold div_known in NK. apply orb_false_iff in NK. destruct NK as [NP NK].
    apply div_full_outside; try assumption.
    + now apply Nz.
    + intros s Hs. unfold div_debug_panics in NP. rewrite Hs in NP. discriminate.
Qed.
