(* NumInexactProofs.v — op_inexact_only_if for + (C08): when is the result of an addition
   of exact operands inexact, and is that justified?
   [representable v]: some well-formed exact number has the value v (decidable);
   [add_takes_fallback a b]: the explicit overflow conditions under which number.rs Add
   leaves the exact representations (independent of running the code);
   [add_known_fallback] = both: exactly the defect class "inexact although representable". *)
From Coq Require Import ZArith Lia Znumtheory Bool QArith List.
From MW Require Import Model.Base Model.F64 Model.Num Model.Ratio32 Model.NumArith Model.NumSpec
  Proofs.GcdProofs Proofs.Ratio32Proofs Proofs.NumProofs Proofs.NumDivProofs.
Open Scope Z_scope.

(* ---- which rationals are values of well-formed exact numbers *)
Definition qreduce (v : Q) : Z * Z :=
  let g := Z.gcd (Qnum v) (Zpos (Qden v)) in (Qnum v / g, Zpos (Qden v) / g).
Definition representable (v : Q) : bool :=
  let '(n, d) := qreduce v in (d =? 1) || (in_i32 n && in_i32 d).

Lemma reduced_unique n d N D : 0 < d -> 0 < D -> Z.gcd n d = 1 -> n * D = N * d ->
  N / Z.gcd N D = n /\ D / Z.gcd N D = d.
Proof.
  intros Pd PD G E.
  assert (Dv : (d | D)).
  { apply Z.gauss with n; [|now rewrite Z.gcd_comm]. exists N. lia. }
  destruct Dv as [k Ek]. assert (Pk : 0 < k) by nia.
  assert (EN : N = k * n) by nia.
  assert (Eg : Z.gcd N D = k).
  { rewrite EN, Ek, (Z.mul_comm k d), (Z.mul_comm k n), Z.gcd_mul_mono_r_nonneg, G by lia. lia. }
  rewrite Eg. split.
  - rewrite EN, Z.mul_comm. apply Z.div_mul. lia.
  - rewrite Ek, Z.mul_comm. apply Z.div_mul. lia.
Qed.

Lemma representable_sound x v : wfb x = true -> is_exact x = true -> (qv x == v)%Q ->
  representable v = true.
Proof.
  intros W X E. unfold representable, qreduce.
  destruct x as [z|z|n d|f]; try discriminate; cbn [qv] in E; unfold Qeq in E; cbn [Qnum Qden inject_Z] in E.
  - destruct (reduced_unique z 1 (Qnum v) (Zpos (Qden v))) as [E1 E2]; try lia; try apply Z.gcd_1_r;
      try (rewrite E2; reflexivity).
  - destruct (reduced_unique z 1 (Qnum v) (Zpos (Qden v))) as [E1 E2]; try lia; try apply Z.gcd_1_r;
      try (rewrite E2; reflexivity).
  - cbn [wfb] in W. unfold rwfb in W. rewrite !andb_true_iff, Z.ltb_lt, Z.eqb_eq in W.
    destruct W as [[[Rn Rd] Pd] G]. rewrite Z2Pos.id in E by exact Pd.
    destruct (reduced_unique n d (Qnum v) (Zpos (Qden v))) as [E1 E2]; try lia.
    rewrite E1, E2, Rn, Rd. apply orb_true_r.
Qed.

Lemma representable_complete v : representable v = true ->
  exists x, wfb x = true /\ is_exact x = true /\ (qv x == v)%Q.
Proof.
  unfold representable, qreduce. intros H.
  destruct (gcd_parts (Qnum v) (Zpos (Qden v)) ltac:(lia)) as [n1 [d1 [Pg [En [Ed [G1 _]]]]]]. cbn zeta in *.
  set (g := Z.gcd (Qnum v) (Zpos (Qden v))) in *.
  assert (Q1 : Qnum v / g = n1) by (rewrite En; apply Z.div_mul; lia).
  assert (Q2 : Zpos (Qden v) / g = d1) by (rewrite Ed; apply Z.div_mul; lia).
  rewrite Q1, Q2 in H. assert (Pd1 : 0 < d1) by nia.
  destruct (Z.eqb_spec d1 1) as [D1|D1].
  - exists (BigInt n1). split; [reflexivity|]. split; [reflexivity|].
    cbn [qv]. unfold Qeq. cbn [Qnum Qden inject_Z]. rewrite Ed, En, D1. ring.
  - cbn [orb] in H. apply andb_true_iff in H. destruct H as [Rn Rd].
    exists (Rational n1 d1). split; [|split; [reflexivity|]].
    + cbn [wfb]. unfold rwfb. rewrite Rn, Rd, G1. cbn [andb]. rewrite Z.eqb_refl, andb_true_r. now apply Z.ltb_lt.
    + cbn [qv]. unfold Qeq. cbn [Qnum Qden]. rewrite Z2Pos.id by exact Pd1. rewrite Ed, En. ring.
Qed.

Lemma unrepresentable_spec v : representable v = false ->
  forall x, wfb x = true -> is_exact x = true -> ~ (qv x == v)%Q.
Proof.
  intros H x W X E. rewrite (representable_sound x v W X E) in H. discriminate.
Qed.

(* ---- checked_add / checked_sub answer None exactly on these overflow conditions
   (nr:873-894: the lcm, the two scaled numerators, their sum / difference) *)
Definition addsub_fits (sub : bool) w (a b : ratio) : bool :=
  let '(an, ad) := a in
  let '(bn, bd) := b in
  let g := Z.gcd ad bd in
  let lcm := Z.quot ad g * bd in
  let ln := Z.quot lcm ad * an in
  let rn := Z.quot lcm bd * bn in
  in_int w lcm && in_int w ln && in_int w rn && in_int w (if sub then ln - rn else ln + rn).

Lemma ichecked_out w z : in_int w z = false -> ichecked w z = None.
Proof. unfold ichecked. now intros ->. Qed.

Lemma rchecked_addsub_fits (sub : bool) p w a b : 2 <= w -> rok w a -> rok w b ->
  if addsub_fits sub w a b then exists r, rchecked_addsub sub p w a b = Ok (Some r)
  else rchecked_addsub sub p w a b = Ok None.
Proof.
  intros Hw [Han [Had Pa]] [Hbn [Hbd Pb]]. destruct a as [an ad], b as [bn bd]. cbn [fst snd] in *.
  unfold rchecked_addsub, addsub_fits.
  assert (MINneg : imin w < 0) by (apply imin_neg; lia).
  rewrite igcd_spec; try assumption.
  2:{ pose proof Had as X. pose proof Hbd as Y. apply in_int_iff in X. apply in_int_iff in Y.
      split; intros E; lia. }
  cbn [bind]. set (g := Z.gcd ad bd).
  assert (Pg : 0 < g) by (apply gcd_pos_r; exact Pb).
  rewrite idiv_ok by lia. cbn [bind].
  assert (Pq : 0 < Z.quot ad g).
  { destruct (Z.gcd_divide_l ad bd) as [a1 Ea]. fold g in Ea. rewrite Ea, Z.quot_mul by lia. nia. }
  unfold ichecked_mul. set (lcm := Z.quot ad g * bd).
  destruct (in_int w lcm) eqn:Rl; cbn [andb]; [|now rewrite ichecked_out].
  rewrite ichecked_in by exact Rl.
  assert (Pl : 0 < lcm) by (subst lcm; nia).
  rewrite idiv_ok by lia. cbn [bind].
  destruct (in_int w (Z.quot lcm ad * an)) eqn:R1; cbn [andb]; [|now rewrite ichecked_out].
  rewrite ichecked_in by exact R1.
  rewrite idiv_ok by lia. cbn [bind].
  destruct (in_int w (Z.quot lcm bd * bn)) eqn:R2; cbn [andb]; [|now rewrite ichecked_out].
  rewrite ichecked_in by exact R2.
  set (ln := Z.quot lcm ad * an). set (rn := Z.quot lcm bd * bn).
  assert (Hs : (if sub then ichecked_sub w ln rn else ichecked_add w ln rn)
               = ichecked w (if sub then ln - rn else ln + rn)) by (destruct sub; reflexivity).
  rewrite Hs.
  destruct (in_int w (if sub then ln - rn else ln + rn)) eqn:R3; [|now rewrite ichecked_out].
  rewrite ichecked_in by exact R3.
  destruct (rreduce_pos p w _ lcm Hw R3 Rl Pl) as [n' [d' [Hr _]]].
  unfold rnew. rewrite Hr. cbn [bind]. eexists. reflexivity.
Qed.

(* ---- number.rs Add leaves the exact representations exactly here *)
Definition add_takes_fallback (a b : num) : bool :=
  match a, b with
  | Fixnum l, Rational n d | Rational n d, Fixnum l =>
      negb (in_i32 l) || negb (addsub_fits false 32 (l, 1) (n, d))
  | BigInt _, Rational _ d | Rational _ d, BigInt _ => negb (d =? 1)
  | Rational ln ld, Rational rn rd => negb (addsub_fits false 32 (ln, ld) (rn, rd))
  | _, _ => false
  end.

Lemma or_float_is_exact (o : out (option ratio)) fb r (fits : bool) :
  (if fits then exists q, o = Ok (Some q) else o = Ok None) ->
  or_float o fb = Ok r -> is_exact r = fits.
Proof.
  destruct fits; [intros [q H]|intros H]; rewrite H; cbn; intros E; inversion E; reflexivity.
Qed.

Theorem add_inexact_iff p a b r :
  wfb a = true -> wfb b = true -> is_exact a = true -> is_exact b = true ->
  num_add p a b = Ok r -> is_exact r = negb (add_takes_fallback a b).
Proof.
  intros Wa Wb Xa Xb Hr. assert (H32 : 2 <= 32) by lia.
  destruct a as [l|l|ln ld|fl]; destruct b as [r0|r0|rn rd|fr]; try discriminate;
    cbn [num_add add_takes_fallback wfb] in *;
    try (apply rwfb_rwf in Wa); try (apply rwfb_rwf in Wb).
  - destruct (ichecked_add W64 l r0); inv_ok Hr; reflexivity.
  - inv_ok Hr; reflexivity.
  - destruct (in_i32 l) eqn:E; cbn [negb orb]; [|inv_ok Hr; reflexivity].
    rewrite negb_involutive. eapply or_float_is_exact; [|exact Hr].
    exact (rchecked_addsub_fits false p 32 (rfrom_integer l) (rn, rd) H32 (rok_int l E) (rwf_rok _ _ Wb)).
  - inv_ok Hr; reflexivity.
  - inv_ok Hr; reflexivity.
  - unfold ris_integer in Hr. cbn [snd] in Hr. destruct (rd =? 1) eqn:E; cbn [negb].
    + destruct (rto_integer W32 (rn, rd)); cbn [bind] in Hr; inv_ok Hr. reflexivity.
    + inv_ok Hr. reflexivity.
  - destruct (in_i32 r0) eqn:E; cbn [negb orb]; [|inv_ok Hr; reflexivity].
    rewrite negb_involutive. eapply or_float_is_exact; [|exact Hr].
    exact (rchecked_addsub_fits false p 32 (rfrom_integer r0) (ln, ld) H32 (rok_int r0 E) (rwf_rok _ _ Wa)).
  - unfold ris_integer in Hr. cbn [snd] in Hr. destruct (ld =? 1) eqn:E; cbn [negb].
    + destruct (rto_integer W32 (ln, ld)); cbn [bind] in Hr; inv_ok Hr. reflexivity.
    + inv_ok Hr. reflexivity.
  - rewrite negb_involutive. eapply or_float_is_exact; [|exact Hr].
    exact (rchecked_addsub_fits false p 32 (ln, ld) (rn, rd) H32 (rwf_rok _ _ Wa) (rwf_rok _ _ Wb)).
Qed.

(* ---- the defect class: the fallback is taken although the sum is representable *)
Definition add_known_fallback (a b : num) : bool :=
  add_takes_fallback a b && representable (qv a + qv b).

(* op_inexact_only_if for +: outside the class, an inexact sum is justified *)
Theorem add_inexact_only_if p a b r :
  wfb a = true -> wfb b = true -> is_exact a = true -> is_exact b = true ->
  add_known_fallback a b = false -> num_add p a b = Ok r -> is_exact r = false ->
  forall x, wfb x = true -> is_exact x = true -> ~ (qv x == qv a + qv b)%Q.
Proof.
  intros Wa Wb Xa Xb NK Hr Xr.
  rewrite (add_inexact_iff p a b r Wa Wb Xa Xb Hr) in Xr. apply negb_false_iff in Xr.
  unfold add_known_fallback in NK. rewrite Xr in NK. cbn [andb] in NK.
  now apply unrepresentable_spec.
Qed.

(* ... and the class is tight: each member is a genuine instance of the defect *)
Theorem add_known_fallback_tight p a b r :
  wfb a = true -> wfb b = true -> is_exact a = true -> is_exact b = true ->
  add_known_fallback a b = true -> num_add p a b = Ok r ->
  is_exact r = false /\ exists x, wfb x = true /\ is_exact x = true /\ (qv x == qv a + qv b)%Q.
Proof.
  intros Wa Wb Xa Xb K Hr. unfold add_known_fallback in K. apply andb_true_iff in K. destruct K as [K1 K2].
  split.
  - rewrite (add_inexact_iff p a b r Wa Wb Xa Xb Hr), K1. reflexivity.
  - now apply representable_complete.
Qed.

(* ================================================= the same for - and *, uniformly *)
(* checked_mul answers None exactly when the cross-reduced numerator or denominator
   product leaves the machine width (nr:805-821) *)
Definition mul_fits w (a b : ratio) : bool :=
  let '(an, ad) := a in
  let '(bn, bd) := b in
  let g1 := Z.gcd an bd in
  let g2 := Z.gcd ad bn in
  in_int w (Z.quot an g1 * Z.quot bn g2) && in_int w (Z.quot ad g2 * Z.quot bd g1).

Lemma rchecked_mul_fits p w a b : 2 <= w -> rok w a -> rok w b ->
  if mul_fits w a b then exists r, rchecked_mul p w a b = Ok (Some r)
  else rchecked_mul p w a b = Ok None.
Proof.
  intros Hw [Han [Had Pa]] [Hbn [Hbd Pb]]. destruct a as [an ad], b as [bn bd]. cbn [fst snd] in *.
  unfold rchecked_mul, mul_fits.
  assert (MINneg : imin w < 0) by (apply imin_neg; lia).
  pose proof Had as X. pose proof Hbd as Y. apply in_int_iff in X. apply in_int_iff in Y.
  rewrite (igcd_spec p w an bd); try assumption.
  2:{ split; intros E; [split|]; lia. }
  cbn [bind].
  rewrite (igcd_spec p w ad bn); try assumption.
  2:{ split; intros E; [|split]; lia. }
  cbn [bind].
  set (g1 := Z.gcd an bd). set (g2 := Z.gcd ad bn).
  assert (P1 : 0 < g1) by (apply gcd_pos_r; exact Pb).
  assert (P2 : 0 < g2) by (subst g2; rewrite Z.gcd_comm; apply gcd_pos_r; exact Pa).
  rewrite !idiv_ok by lia. cbn [bind]. unfold ichecked_mul.
  destruct (in_int w (Z.quot an g1 * Z.quot bn g2)) eqn:R1; cbn [andb]; [|now rewrite ichecked_out].
  rewrite ichecked_in by exact R1.
  rewrite ?idiv_ok by lia. cbn [bind].
  destruct (in_int w (Z.quot ad g2 * Z.quot bd g1)) eqn:R2; [|now rewrite ichecked_out].
  rewrite ichecked_in by exact R2.
  assert (Pd : 0 < Z.quot ad g2 * Z.quot bd g1).
  { destruct (Z.gcd_divide_l ad bn) as [y1 E3]. destruct (Z.gcd_divide_r an bd) as [y2 E2].
    fold g2 in E3. fold g1 in E2. rewrite E3, E2, !Z.quot_mul by lia. nia. }
  destruct (rreduce_pos p w _ _ Hw R1 R2 Pd) as [n' [d' [Hr _]]].
  unfold rnew. rewrite Hr. cbn [bind]. eexists. reflexivity.
Qed.

Inductive aop3 := AAdd | ASub | AMul.
Definition op_fn (o : aop3) : profile -> num -> num -> out num :=
  match o with AAdd => num_add | ASub => num_sub | AMul => num_mul end.
Definition op_q (o : aop3) : Q -> Q -> Q :=
  match o with AAdd => Qplus | ASub => Qminus | AMul => Qmult end.
Definition ratio_fits (o : aop3) (a b : ratio) : bool :=
  match o with
  | AAdd => addsub_fits false 32 a b
  | ASub => addsub_fits true 32 a b
  | AMul => mul_fits 32 a b
  end.
(* the explicit conditions under which number.rs Add / Sub / Mul leave the exact
   representations; note the operand order of the Rational-Fixnum arms *)
Definition op_takes_fallback (o : aop3) (a b : num) : bool :=
  match a, b with
  | Fixnum l, Rational n d => negb (in_i32 l) || negb (ratio_fits o (l, 1) (n, d))
  | Rational n d, Fixnum l =>
      negb (in_i32 l) ||
      negb (match o with ASub => ratio_fits o (n, d) (l, 1) | _ => ratio_fits o (l, 1) (n, d) end)
  | BigInt _, Rational _ d | Rational _ d, BigInt _ => negb (d =? 1)
  | Rational ln ld, Rational rn rd => negb (ratio_fits o (ln, ld) (rn, rd))
  | _, _ => false
  end.
Definition op_known_fallback (o : aop3) (a b : num) : bool :=
  op_takes_fallback o a b && representable (op_q o (qv a) (qv b)).

Lemma big_ratio_is_exact (rn rd : Z) (k : Z -> num) (fb : num) r :
  (forall i, is_exact (k i) = true) -> is_exact fb = false ->
  (if ris_integer (rn, rd) then do i <- rto_integer W32 (rn, rd); Ok (k i) else Ok fb) = Ok r ->
  is_exact r = negb (negb (rd =? 1)).
Proof.
  intros Hk Hfb H. unfold ris_integer in H. cbn [snd] in H. destruct (rd =? 1); cbn [negb].
  - destruct (rto_integer W32 (rn, rd)); cbn [bind] in H; inv_ok H. apply Hk.
  - inv_ok H. exact Hfb.
Qed.

Theorem op_inexact_iff o p a b r :
  wfb a = true -> wfb b = true -> is_exact a = true -> is_exact b = true ->
  op_fn o p a b = Ok r -> is_exact r = negb (op_takes_fallback o a b).
Proof.
  intros Wa Wb Xa Xb Hr. assert (H32 : 2 <= 32) by lia.
  destruct a as [l|l|ln ld|fl]; destruct b as [r0|r0|rn rd|fr]; try discriminate;
    cbn [wfb op_takes_fallback] in *;
    try (apply rwfb_rwf in Wa); try (apply rwfb_rwf in Wb).
  - destruct o; cbn [op_fn num_add num_sub num_mul] in Hr;
      match type of Hr with Ok (match ?c with _ => _ end) = _ => destruct c end; inv_ok Hr; reflexivity.
  - destruct o; cbn [op_fn num_add num_sub num_mul] in Hr; inv_ok Hr; reflexivity.
  - destruct (in_i32 l) eqn:E; cbn [negb orb].
    2:{ destruct o; cbn [op_fn num_add num_sub num_mul] in Hr; rewrite E in Hr; inv_ok Hr; reflexivity. }
    rewrite negb_involutive.
    destruct o; cbn [op_fn num_add num_sub num_mul ratio_fits] in *; rewrite E in Hr;
      (eapply or_float_is_exact; [|exact Hr]).
    + exact (rchecked_addsub_fits false p 32 (rfrom_integer l) (rn, rd) H32 (rok_int l E) (rwf_rok _ _ Wb)).
    + exact (rchecked_addsub_fits true p 32 (rfrom_integer l) (rn, rd) H32 (rok_int l E) (rwf_rok _ _ Wb)).
    + exact (rchecked_mul_fits p 32 (rfrom_integer l) (rn, rd) H32 (rok_int l E) (rwf_rok _ _ Wb)).
  - destruct o; cbn [op_fn num_add num_sub num_mul] in Hr; inv_ok Hr; reflexivity.
  - destruct o; cbn [op_fn num_add num_sub num_mul] in Hr; inv_ok Hr; reflexivity.
  - destruct o; cbn [op_fn num_add num_sub num_mul] in Hr;
      (eapply big_ratio_is_exact; [| |exact Hr]; [intros i; reflexivity|reflexivity]).
  - destruct (in_i32 r0) eqn:E; cbn [negb orb].
    2:{ destruct o; cbn [op_fn num_add num_sub num_mul] in Hr; rewrite E in Hr; inv_ok Hr; reflexivity. }
    rewrite negb_involutive.
    destruct o; cbn [op_fn num_add num_sub num_mul ratio_fits] in *; rewrite E in Hr;
      (eapply or_float_is_exact; [|exact Hr]).
    + exact (rchecked_addsub_fits false p 32 (rfrom_integer r0) (ln, ld) H32 (rok_int r0 E) (rwf_rok _ _ Wa)).
    + exact (rchecked_addsub_fits true p 32 (ln, ld) (rfrom_integer r0) H32 (rwf_rok _ _ Wa) (rok_int r0 E)).
    + exact (rchecked_mul_fits p 32 (rfrom_integer r0) (ln, ld) H32 (rok_int r0 E) (rwf_rok _ _ Wa)).
  - destruct o; cbn [op_fn num_add num_sub num_mul] in Hr;
      (eapply big_ratio_is_exact; [| |exact Hr]; [intros i; reflexivity|reflexivity]).
  - rewrite negb_involutive.
    destruct o; cbn [op_fn num_add num_sub num_mul ratio_fits] in *; (eapply or_float_is_exact; [|exact Hr]).
    + exact (rchecked_addsub_fits false p 32 (ln, ld) (rn, rd) H32 (rwf_rok _ _ Wa) (rwf_rok _ _ Wb)).
    + exact (rchecked_addsub_fits true p 32 (ln, ld) (rn, rd) H32 (rwf_rok _ _ Wa) (rwf_rok _ _ Wb)).
    + exact (rchecked_mul_fits p 32 (ln, ld) (rn, rd) H32 (rwf_rok _ _ Wa) (rwf_rok _ _ Wb)).
Qed.

Theorem op_inexact_only_if o p a b r :
  wfb a = true -> wfb b = true -> is_exact a = true -> is_exact b = true ->
  op_known_fallback o a b = false -> op_fn o p a b = Ok r -> is_exact r = false ->
  forall x, wfb x = true -> is_exact x = true -> ~ (qv x == op_q o (qv a) (qv b))%Q.
Proof.
  intros Wa Wb Xa Xb NK Hr Xr.
  rewrite (op_inexact_iff o p a b r Wa Wb Xa Xb Hr) in Xr. apply negb_false_iff in Xr.
  unfold op_known_fallback in NK. rewrite Xr in NK. cbn [andb] in NK.
  now apply unrepresentable_spec.
Qed.

Theorem op_known_fallback_tight o p a b r :
  wfb a = true -> wfb b = true -> is_exact a = true -> is_exact b = true ->
  op_known_fallback o a b = true -> op_fn o p a b = Ok r ->
  is_exact r = false /\
  exists x, wfb x = true /\ is_exact x = true /\ (qv x == op_q o (qv a) (qv b))%Q.
Proof.
  intros Wa Wb Xa Xb K Hr. unfold op_known_fallback in K. apply andb_true_iff in K. destruct K as [K1 K2].
  split.
  - rewrite (op_inexact_iff o p a b r Wa Wb Xa Xb Hr), K1. reflexivity.
  - now apply representable_complete.
Qed.

(* C08_full restricted to + - * and to the complement of the decidable defect class: total,
   well-formed, exact results are right, inexact results are justified — both profiles *)
Theorem op_full_outside o p a b :
  wfb a = true -> wfb b = true -> is_exact a = true -> is_exact b = true ->
  op_known_fallback o a b = false ->
  exists r, op_fn o p a b = Ok r /\ wfb r = true /\
    (is_exact r = true -> (qv r == op_q o (qv a) (qv b))%Q) /\
    (is_exact r = false ->
     forall x, wfb x = true -> is_exact x = true -> ~ (qv x == op_q o (qv a) (qv b))%Q).
Proof.
  intros Wa Wb Xa Xb NK.
  destruct (addsubmul_total p a b Wa Wb Xa Xb) as [[r1 H1] [[r2 H2] [r3 H3]]].
  assert (T : exists r, op_fn o p a b = Ok r) by (destruct o; cbn [op_fn]; eauto).
  destruct T as [r Hr]. exists r. split; [exact Hr|].
  assert (EX : is_exact r = true -> wfb r = true /\ (qv r == op_q o (qv a) (qv b))%Q).
  { intros Xr. destruct o; cbn [op_fn op_q] in *;
      [eapply add_exact|eapply sub_exact|eapply mul_exact]; eassumption. }
  split; [|split].
  - destruct (is_exact r) eqn:Xr; [now apply EX|]. destruct r; try discriminate. reflexivity.
  - intros Xr. now apply EX.
  - intros Xr. eapply op_inexact_only_if; eassumption.
Qed.
