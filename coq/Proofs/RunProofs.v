(* RunProofs.v — the run loop of Vm.v: budgets, slices, composition (C13) and the
   registers after a failed evaluation (C07).  Generic in the builtin table.    *)
From Coq Require Import Lia.
From MW Require Import Model.Base Model.F64 Model.Num Model.Datum Model.TransformDef Model.Transform
  Model.VmTypes Model.Heap Model.VmBase Model.Compile Model.Vm.
Open Scope N_scope.

Section RunLoop.
Variable ob : N -> M vcell.

Notation run_one := (Vm.run_one ob).
Notation run_loop := (Vm.run_loop ob).
Notation run_count := (Vm.run_count ob).

(* the terminal handling of a HALT: convert the accumulator, wipe the stack *)
Definition halt_result (s' : vm) : res run_result :=
  match to_cell (acc s') s' with
  | ROk c s'' => ROk (Done c) (with_stack s'' tempty (sp s''))
  | RErr e m s'' => RErr e m s''
  | RPanic k => RPanic k
  | RNoFuel => RNoFuel
  end.
(* the error arm: capture the trace, reset the registers *)
Definition fail_result (e : N) (msg : text) (s' : vm) : res run_result :=
  match stack_trace s' with
  | Ok t =>
      let s1 := with_stack s' tempty 0 in
      ROk (Failed e msg (Some t)) (with_acc (with_ep (with_bp s1 0) USIZE_MAX) VUndef)
  | Err _ => RPanic 51
  | Panic k => RPanic k
  | NoFuel => RNoFuel
  end.

Lemma run_loop_S f cyc count s :
  run_loop (S f) cyc count s =
  match run_one s with
  | ROk true s' => halt_result s'
  | ROk false s' =>
      if match count with Some c => cyc + 1 =? c | None => false end then ROk Yield s'
      else run_loop f (cyc + 1) count s'
  | RErr e msg s' => fail_result e msg s'
  | RPanic k => RPanic k
  | RNoFuel => RNoFuel
  end.
Proof. reflexivity. Qed.

(* [steps n s = Some s']: n instructions execute from s, none halts or fails *)
Fixpoint steps (n : nat) (s : vm) : option vm :=
  match n with
  | O => Some s
  | S k => match run_one s with ROk false s' => steps k s' | _ => None end
  end.

Lemma steps_add a b s : steps (a + b) s = match steps a s with Some s1 => steps b s1 | None => None end.
Proof.
  revert s; induction a as [|a IH]; intros s; cbn [steps Nat.add]; [reflexivity|].
  destruct (run_one s) as [[|] s'|e1 m1 s'| |]; auto.
Qed.

(* without a budget the cycle counter is irrelevant *)
Lemma run_loop_none_cyc f : forall cyc cyc' s, run_loop f cyc None s = run_loop f cyc' None s.
Proof.
  induction f as [|f IH]; intros cyc cyc' s; [reflexivity|].
  rewrite !run_loop_S. destruct (run_one s) as [[|] s'|e1 m1 s'| |]; auto.
Qed.

(* with a budget only the remaining count matters *)
Lemma run_loop_shift f : forall cyc c cyc' c' s,
  cyc < c -> cyc' < c' -> c - cyc = c' - cyc' ->
  run_loop f cyc (Some c) s = run_loop f cyc' (Some c') s.
Proof.
  induction f as [|f IH]; intros cyc c cyc' c' s H1 H2 H3; [reflexivity|].
  rewrite !run_loop_S. destruct (run_one s) as [[|] s'|e1 m1 s'| |]; auto.
  destruct (N.eqb_spec (cyc + 1) c) as [E1|E1]; destruct (N.eqb_spec (cyc' + 1) c') as [E2|E2];
    try lia; auto.
  apply IH; lia.
Qed.

(* more fuel does not change a result that was reached *)
Lemma run_loop_fuel_mono f : forall g cyc count s,
  (f <= g)%nat -> run_loop f cyc count s <> RNoFuel -> run_loop g cyc count s = run_loop f cyc count s.
Proof.
  induction f as [|f IH]; intros g cyc count s Hle Hn; [cbn in Hn; congruence|].
  destruct g as [|g]; [lia|]. rewrite !run_loop_S in *.
  destruct (run_one s) as [[|] s'|e1 m1 s'| |]; auto.
  destruct (match count with Some c => cyc + 1 =? c | None => false end); auto.
  apply IH; [lia|assumption].
Qed.

(* ------------------------------------------------------------ one slice *)
(* a slice with budget b >= 1 yields exactly when b instructions execute without
   halting or failing, and then hands back the state after those b instructions *)
Lemma slice_yield_iff n : forall cyc s s',
  run_loop (S n) cyc (Some (cyc + N.of_nat (S n))) s = ROk Yield s' <-> steps (S n) s = Some s'.
Proof.
  induction n as [|n IH]; intros cyc s s'.
  - rewrite run_loop_S. cbn [steps]. replace (cyc + N.of_nat 1) with (cyc + 1) by lia.
    rewrite N.eqb_refl.
    destruct (run_one s) as [[|] s1|e1 m1 s1| |]; cbn.
    + unfold halt_result. destruct (to_cell (acc s1) s1); split; intros; discriminate.
    + split; intros [= <-]; reflexivity.
    + unfold fail_result. destruct (stack_trace s1); split; intros; discriminate.
    + split; intros; discriminate.
    + split; intros; discriminate.
  - rewrite run_loop_S. change (steps (S (S n)) s) with
      (match run_one s with ROk false s1 => steps (S n) s1 | _ => None end).
    destruct (run_one s) as [[|] s1|e1 m1 s1| |].
    + unfold halt_result. destruct (to_cell (acc s1) s1); split; intros; discriminate.
    + destruct (cyc + 1 =? cyc + N.of_nat (S (S n))) eqn:E; [apply N.eqb_eq in E; lia|].
      replace (cyc + N.of_nat (S (S n))) with ((cyc + 1) + N.of_nat (S n)) by lia.
      apply IH.
    + unfold fail_result. destruct (stack_trace s1); split; intros; discriminate.
    + split; intros; discriminate.
    + split; intros; discriminate.
Qed.

Theorem slice_yields_after_budget b s s' :
  0 < b -> (run_count (N.to_nat b) (Some b) s = ROk Yield s' <-> steps (N.to_nat b) s = Some s').
Proof.
  intros Hb. unfold Vm.run_count. destruct (N.to_nat b) as [|n] eqn:En; [lia|].
  replace (Some b) with (Some (0 + N.of_nat (S n))) by (f_equal; lia).
  apply slice_yield_iff.
Qed.

(* a slice never runs out of model fuel: it needs at most b units *)
Lemma slice_no_nofuel n : forall cyc s,
  (forall k s1, (k <= n)%nat -> steps k s = Some s1 -> run_one s1 <> RNoFuel) ->
  (forall k s1, (k <= n)%nat -> steps k s = Some s1 ->
     forall s2, run_one s1 = ROk true s2 -> halt_result s2 <> RNoFuel) ->
  (forall k s1, (k <= n)%nat -> steps k s = Some s1 ->
     forall e m s2, run_one s1 = RErr e m s2 -> fail_result e m s2 <> RNoFuel) ->
  run_loop (S n) cyc (Some (cyc + N.of_nat (S n))) s <> RNoFuel.
Proof.
  induction n as [|n IH]; intros cyc s H1 H2 H3; rewrite run_loop_S.
  - replace (cyc + N.of_nat 1) with (cyc + 1) by lia. rewrite N.eqb_refl.
    pose proof (H1 O s (le_n _) eq_refl) as Hn.
    destruct (run_one s) as [[|] s1|e1 m1 s1| |] eqn:E; try discriminate; try congruence.
    + eapply (H2 O s); [lia|reflexivity|exact E].
    + eapply (H3 O s); [lia|reflexivity|exact E].
  - pose proof (H1 O s ltac:(lia) eq_refl) as Hn.
    destruct (run_one s) as [[|] s1|e1 m1 s1| |] eqn:E; try discriminate; try congruence.
    + eapply (H2 O s); [lia|reflexivity|exact E].
    + destruct (cyc + 1 =? cyc + N.of_nat (S (S n))) eqn:E'; [apply N.eqb_eq in E'; lia|].
      replace (cyc + N.of_nat (S (S n))) with ((cyc + 1) + N.of_nat (S n)) by lia.
      apply IH.
      * intros k s2 Hk Hs. apply (H1 (S k) s2); [lia|]. cbn [steps]. rewrite E. exact Hs.
      * intros k s2 Hk Hs. apply (H2 (S k) s2); [lia|]. cbn [steps]. rewrite E. exact Hs.
      * intros k s2 Hk Hs. apply (H3 (S k) s2); [lia|]. cbn [steps]. rewrite E. exact Hs.
    + eapply (H3 O s); [lia|reflexivity|exact E].
Qed.

(* ------------------------------------------- slices against the plain run *)
(* Relation between one slice and the uninterrupted run from the same state:
   either the slice finishes with the uninterrupted run's own result, or it yields
   a state from which the uninterrupted run (with the remaining fuel) gives that
   result. *)
Lemma slice_vs_run n : forall fuel cyc s r,
  run_loop fuel 0 None s = r -> r <> RNoFuel ->
  run_loop (S n) cyc (Some (cyc + N.of_nat (S n))) s = r \/
  exists s', run_loop (S n) cyc (Some (cyc + N.of_nat (S n))) s = ROk Yield s' /\
             (S n < fuel)%nat /\ run_loop (fuel - S n) 0 None s' = r.
Proof.
  induction n as [|n IH]; intros fuel cyc s r Hr Hn.
  - destruct fuel as [|fuel]; [cbn in Hr; congruence|].
    rewrite run_loop_S in Hr |- *. replace (cyc + N.of_nat 1) with (cyc + 1) by lia.
    rewrite N.eqb_refl.
    destruct (run_one s) as [[|] s1|e1 m1 s1| |]; auto.
    right. exists s1. split; [reflexivity|].
    rewrite (run_loop_none_cyc fuel (0 + 1) 0) in Hr.
    destruct fuel as [|fuel]; [cbn in Hr; congruence|].
    split; [lia|]. replace (S (S fuel) - 1)%nat with (S fuel) by lia. exact Hr.
  - destruct fuel as [|fuel]; [cbn in Hr; congruence|].
    rewrite run_loop_S in Hr. rewrite run_loop_S.
    destruct (run_one s) as [[|] s1|e1 m1 s1| |]; auto.
    destruct (cyc + 1 =? cyc + N.of_nat (S (S n))) eqn:E'; [apply N.eqb_eq in E'; lia|].
    rewrite (run_loop_none_cyc fuel (0 + 1) 0) in Hr.
    replace (cyc + N.of_nat (S (S n))) with ((cyc + 1) + N.of_nat (S n)) by lia.
    destruct (IH fuel (cyc + 1) s1 r Hr Hn) as [H|(s' & Hy & Hlt & Hrest)].
    + left. exact H.
    + right. exists s'. split; [exact Hy|]. split; [lia|].
      replace (S fuel - S (S n))%nat with (fuel - S n)%nat by lia. exact Hrest.
Qed.

(* resume with a list of positive budgets until the evaluation completes *)
Fixpoint run_slices (bs : list N) (s : vm) : res run_result :=
  match bs with
  | [] => RNoFuel
  | b :: r =>
      match run_count (N.to_nat b) (Some b) s with
      | ROk Yield s' => run_slices r s'
      | x => x
      end
  end.

Definition total (bs : list N) : N := fold_right N.add 0 bs.

(* Sliced execution yields exactly the result AND the final machine state (heap,
   globals, output log, registers) of the uninterrupted run, for every sequence of
   positive budgets whose sum covers the run. *)
Lemma run_none_not_yield fuel : forall cyc s s', run_loop fuel cyc None s <> ROk Yield s'.
Proof.
  induction fuel as [|fuel IHf]; intros cyc s s' Hr; [discriminate|].
  rewrite run_loop_S in Hr.
  destruct (run_one s) as [[|] s1|e1 m1 s1| |]; try discriminate.
  - unfold halt_result in Hr. destruct (to_cell (acc s1) s1); discriminate.
  - eapply IHf; eassumption.
  - unfold fail_result in Hr. destruct (stack_trace s1); discriminate.
Qed.

Theorem slices_equal_run : forall bs fuel s r,
  run_count fuel None s = r -> r <> RNoFuel ->
  Forall (fun b => 0 < b) bs -> N.of_nat fuel <= total bs ->
  run_slices bs s = r.
Proof.
  unfold Vm.run_count.
  induction bs as [|b bs IH]; intros fuel s r Hr Hn Hpos Hsum.
  - cbn in Hsum. destruct fuel; [cbn in Hr; congruence|lia].
  - apply Forall_cons_iff in Hpos as [Hb Hpos']. cbn [run_slices total fold_right] in *.
    unfold Vm.run_count.
    destruct (N.to_nat b) as [|n] eqn:En; [lia|].
    replace (Some b) with (Some (0 + N.of_nat (S n))) by (f_equal; lia).
    destruct (slice_vs_run n fuel 0 s r Hr Hn) as [H|(s' & Hy & Hlt & Hrest)].
    + rewrite H. destruct r as [[c| |e m t] sr|e m sr|k|]; try reflexivity; try congruence.
      exfalso. eapply run_none_not_yield. exact Hr.
    + rewrite Hy. eapply (IH (fuel - S n)%nat); [exact Hrest|assumption|assumption|].
      unfold total in *. lia.
Qed.

(* composition: a slice of a instructions followed by a slice of b instructions is a
   slice of a+b instructions *)
Lemma compose_aux b s1 : 0 < b -> forall na cyc s,
  steps na s = Some s1 ->
  run_loop (na + N.to_nat b) cyc (Some (cyc + N.of_nat na + b)) s = run_loop (N.to_nat b) 0 (Some b) s1.
Proof.
  intros Hb. induction na as [|na IH]; intros cyc s H1.
  - cbn [steps] in H1. injection H1 as <-. cbn [Nat.add].
    apply run_loop_shift; lia.
  - cbn [steps] in H1. cbn [Nat.add]. rewrite run_loop_S.
    destruct (run_one s) as [[|] s'|e1 m1 s'| |]; try discriminate.
    destruct (cyc + 1 =? cyc + N.of_nat (S na) + b) eqn:E; [apply N.eqb_eq in E; lia|].
    replace (cyc + N.of_nat (S na) + b) with ((cyc + 1) + N.of_nat na + b) by lia.
    apply IH. exact H1.
Qed.

Theorem slices_compose a b s s1 :
  0 < a -> 0 < b ->
  run_count (N.to_nat a) (Some a) s = ROk Yield s1 ->
  run_count (N.to_nat (a + b)) (Some (a + b)) s = run_count (N.to_nat b) (Some b) s1.
Proof.
  intros Ha Hb H1. apply slice_yields_after_budget in H1; [|assumption].
  unfold Vm.run_count.
  replace (N.to_nat (a + b)) with (N.to_nat a + N.to_nat b)%nat by lia.
  replace (a + b) with (0 + N.of_nat (N.to_nat a) + b) by lia.
  apply compose_aux; assumption.
Qed.

(* ------------------------------------------------ C07: after a failure *)
(* whatever failed, wherever: the registers and the stack are those of a machine
   that has just completed an evaluation *)
Theorem failed_exit_canonical fuel : forall cyc count s e msg tr s',
  run_loop fuel cyc count s = ROk (Failed e msg tr) s' ->
  sp s' = 0 /\ bp s' = 0 /\ ep s' = USIZE_MAX /\ acc s' = VUndef /\
  stack s' = tempty /\
  exists s0, scap s' = scap s0 /\ hp s' = hp s0 /\ st s' = st s0 /\
             g_bind s' = g_bind s0 /\ g_slots s' = g_slots s0 /\ out_log s' = out_log s0.
Proof.
  induction fuel as [|f IH]; intros cyc count s e msg tr s' H; [discriminate|].
  rewrite run_loop_S in H. destruct (run_one s) as [[|] s1|e1 m1 s1| |]; try discriminate.
  - unfold halt_result in H. destruct (to_cell (acc s1) s1); discriminate.
  - destruct (match count with Some c => cyc + 1 =? c | None => false end); [discriminate|].
    eapply IH; eassumption.
  - unfold fail_result in H. destruct (stack_trace s1); try discriminate.
    injection H as <- <- <- <-. cbn. repeat split.
    exists s1. repeat split.
Qed.

(* a successful evaluation leaves a wiped stack too *)
Theorem done_stack_wiped fuel : forall cyc count s c s',
  run_loop fuel cyc count s = ROk (Done c) s' -> stack s' = tempty.
Proof.
  induction fuel as [|f IH]; intros cyc count s c s' H; [discriminate|].
  rewrite run_loop_S in H. destruct (run_one s) as [[|] s1|e1 m1 s1| |]; try discriminate.
  - unfold halt_result in H. destruct (to_cell (acc s1) s1) as [c1 s2| | |]; try discriminate.
    injection H as <- <-. reflexivity.
  - destruct (match count with Some c => cyc + 1 =? c | None => false end); [discriminate|].
    eapply IH; eassumption.
  - unfold fail_result in H. destruct (stack_trace s1); discriminate.
Qed.

End RunLoop.
