(* FrameSteps5.v — C01 (work package c01d, groundwork for set! on LOCAL variables):
   instruction-level lemmas for MOV %acc (lexical slot i) — Vm.store_lex_slot — in the style of
   FrameSteps.step_load_lex / FrameSteps3.step_load_lex_ptr: the slot of the current environment
   holds a direct value (the environment %ep points to is updated) or a pointer (a, j) (the
   environment at heap address a is updated at j: one indirection); what such a store preserves;
   the compile shape of (set! x e) for a name x bound by the environment map of the lambda under
   construction.                                                                              *)
From Coq Require Import String Lia FMapPositive.
From MW Require Import Model.Base Model.F64 Model.Num Model.Datum Model.TransformDef Model.Transform
  Model.VmTypes Model.Heap Model.Gc Model.VmBase Model.Compile Model.Vm
  Proofs.VmProofs0 Proofs.GcProofs Proofs.SymtabProofs Proofs.QuoteHeapProofs
  Proofs.CompileProofs Proofs.RunProofs Proofs.CompileCorrect Proofs.TailProofs Proofs.FrameSteps
  Proofs.CellFuelProofs Proofs.CompileCorrect2 Proofs.FrameSteps3 Proofs.Closures3.
From MW Require Proofs.ScopeProofs.
Open Scope N_scope.

Arguments N.add : simpl never.
Arguments N.sub : simpl never.
Arguments N.mul : simpl never.
Arguments N.eqb : simpl never.
Arguments N.ltb : simpl never.
Arguments N.leb : simpl never.

(* the machine after a store into slot j of the environment eid (payload slots), at the next
   instruction ip' *)
Definition env_stored (m : vm) (ip' : N * N) (eid : N) (slots : list vcell) (j : N) (v : vcell) : vm :=
  with_store (with_ip m ip') (set_env (st m) eid (list_set slots j v)).

Section Steps5.
Variable ob : N -> M vcell.
Notation run_one := (Vm.run_one ob).

Ltac fetch_op Hc Hip H0 :=
  unfold Vm.run_one; unfold bindM at 1;
  rewrite (read_opcode_ok _ _ _ _ _ Hc Hip H0); cbv beta iota.

(* MOV %acc (lexical slot k): the slot of the current environment holds a direct value *)
Lemma step_store_lex_direct m lp i bc k eid slots w : code_in m lp bc -> ip m = (lp, i) ->
  seg bc i [VOp OMov; VAcc; VLexSlot k] ->
  heap_get (hp m) (ep m) = Ok (VLexEnv eid) -> tget (envs (st m)) eid = Some slots ->
  list_get slots k = Some w -> (forall e j, w <> VLexPtr e j) ->
  run_one m = ROk false (env_stored m (lp, i + 3) eid slots k (acc m)).
Proof.
  intros Hc Hip Hs Hep Hsl Hk Hw. apply seg_head in Hs as [H0 Hs]. apply seg_head in Hs as [H1 Hs]. apply seg_head in Hs as [H2 _].
  fetch_op Hc Hip H0.
  unfold bindM at 1. unfold load_operand. unfold bindM at 1.
  rewrite (read_operand_ok _ lp (i + 1) bc _ (code_in_ip _ _ _ _ Hc) eq_refl H1 ltac:(discriminate)).
  unfold bindM at 1. unfold get_vm. unfold ret at 1.
  unfold bindM at 1. unfold store_operand. unfold bindM at 1.
  rewrite (read_operand_ok _ lp (i + 1 + 1) bc _ (code_in_ip _ _ _ _ (code_in_ip _ _ _ _ Hc)) eq_refl H2 ltac:(discriminate)).
  unfold bindM at 1. unfold get_vm. unfold store_lex_slot.
  unfold bindM at 1. unfold get_vm. unfold bindM at 1. unfold hget, lift. cbn [hp ep with_ip]. rewrite Hep.
  unfold bindM at 1. cbn [as_lexenv]. unfold ret at 1.
  unfold bindM at 1. unfold env_get. unfold bindM at 1. unfold env_slots at 1. cbn [st with_ip]. rewrite Hsl. rewrite Hk.
  unfold ret at 1.
  assert (E : forall (A : Type) (a : N -> N -> A) (b : A), match w with VLexPtr e j => a e j | _ => b end = b)
    by (intros; destruct w; try reflexivity; exfalso; eapply Hw; reflexivity).
  rewrite E.
  unfold env_put. unfold bindM at 1. unfold env_slots. cbn [st with_ip]. rewrite Hsl.
  pose proof (list_get_lt _ _ _ Hk) as Hlt. apply N.ltb_lt in Hlt. rewrite Hlt.
  unfold bindM, ret. unfold env_stored, with_store, with_ip. cbn [hp st g_bind g_slots stack scap sp bp ep ip acc out_log].
  replace (i + 1 + 1 + 1) with (i + 3) by lia. reflexivity.
Qed.

(* MOV %acc (lexical slot k): the slot holds a pointer (a, j): slot j of the environment at heap
   address a is written — one indirection, the pointer slot itself is untouched *)
Lemma step_store_lex_ptr m lp i bc k eid slots a j eid2 slots2 : code_in m lp bc -> ip m = (lp, i) ->
  seg bc i [VOp OMov; VAcc; VLexSlot k] ->
  heap_get (hp m) (ep m) = Ok (VLexEnv eid) -> tget (envs (st m)) eid = Some slots ->
  list_get slots k = Some (VLexPtr a j) ->
  heap_get (hp m) a = Ok (VLexEnv eid2) -> tget (envs (st m)) eid2 = Some slots2 -> j < len slots2 ->
  run_one m = ROk false (env_stored m (lp, i + 3) eid2 slots2 j (acc m)).
Proof.
  intros Hc Hip Hs Hep Hsl Hk Ha Hsl2 Hj. apply seg_head in Hs as [H0 Hs]. apply seg_head in Hs as [H1 Hs]. apply seg_head in Hs as [H2 _].
  fetch_op Hc Hip H0.
  unfold bindM at 1. unfold load_operand. unfold bindM at 1.
  rewrite (read_operand_ok _ lp (i + 1) bc _ (code_in_ip _ _ _ _ Hc) eq_refl H1 ltac:(discriminate)).
  unfold bindM at 1. unfold get_vm. unfold ret at 1.
  unfold bindM at 1. unfold store_operand. unfold bindM at 1.
  rewrite (read_operand_ok _ lp (i + 1 + 1) bc _ (code_in_ip _ _ _ _ (code_in_ip _ _ _ _ Hc)) eq_refl H2 ltac:(discriminate)).
  unfold bindM at 1. unfold get_vm. unfold store_lex_slot.
  unfold bindM at 1. unfold get_vm. unfold bindM at 1. unfold hget at 1. unfold lift at 1. cbn [hp ep with_ip]. rewrite Hep.
  unfold bindM at 1. cbn [as_lexenv]. unfold ret at 1.
  unfold bindM at 1. unfold env_get. unfold bindM at 1. unfold env_slots at 1. cbn [st with_ip]. rewrite Hsl. rewrite Hk.
  unfold ret at 1. cbv beta iota.
  unfold bindM at 1. unfold hget at 1. unfold lift at 1. cbn [hp with_ip]. rewrite Ha.
  unfold bindM at 1. cbn [as_lexenv]. unfold ret at 1.
  unfold env_put. unfold bindM at 1. unfold env_slots. cbn [st with_ip]. rewrite Hsl2.
  apply N.ltb_lt in Hj. rewrite Hj.
  unfold bindM, ret. unfold env_stored, with_store, with_ip. cbn [hp st g_bind g_slots stack scap sp bp ep ip acc out_log].
  replace (i + 1 + 1 + 1) with (i + 3) by lia. reflexivity.
Qed.

End Steps5.
