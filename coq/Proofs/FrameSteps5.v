(* FrameSteps5.v — C01 (work package c01d, groundwork for set! on LOCAL variables):
   instruction-level lemmas for MOV %acc (lexical slot i) — Vm.store_lex_slot — in the style of
   FrameSteps.step_load_lex / FrameSteps3.step_load_lex_ptr: the slot of the current environment
   holds a direct value (the environment %ep points to is updated) or a pointer (a, j) (the
   environment at heap address a is updated at j: one indirection); what such a store preserves;
   the compile shape of (set! x e) for a name x bound by the environment map of the lambda under
   construction.                                                                              *)
From Coq Require Import String Lia FMapPositive.
From MW Require Import Model.Base Model.F64 Model.Num Model.Datum Model.TransformDef Model.Transform
  Model.VmTypes Model.Heap Model.Gc Model.VmBase Model.Compile Model.Vm
  Proofs.VmProofs0 Proofs.GcProofs Proofs.SymtabProofs Proofs.QuoteHeapProofs
  Proofs.CompileProofs Proofs.RunProofs Proofs.CompileCorrect Proofs.TailProofs Proofs.FrameSteps
  Proofs.CellFuelProofs Proofs.CompileCorrect2 Proofs.FrameSteps3 Proofs.Closures3 Proofs.CompileStatic3.
From MW Require Proofs.ScopeProofs.
Open Scope N_scope.

Arguments N.add : simpl never.
Arguments N.sub : simpl never.
Arguments N.mul : simpl never.
Arguments N.eqb : simpl never.
Arguments N.ltb : simpl never.
Arguments N.leb : simpl never.

(* the machine after a store into slot j of the environment eid (payload slots), at the next
   instruction ip' *)
Definition env_stored (m : vm) (ip' : N * N) (eid : N) (slots : list vcell) (j : N) (v : vcell) : vm :=
  with_store (with_ip m ip') (set_env (st m) eid (list_set slots j v)).

Section Steps5.
Variable ob : N -> M vcell.
Notation run_one := (Vm.run_one ob).

Ltac fetch_op Hc Hip H0 :=
  unfold Vm.run_one; unfold bindM at 1;
  rewrite (read_opcode_ok _ _ _ _ _ Hc Hip H0); cbv beta iota.

(* MOV %acc (lexical slot k): the slot of the current environment holds a direct value *)
Lemma step_store_lex_direct m lp i bc k eid slots w : code_in m lp bc -> ip m = (lp, i) ->
  seg bc i [VOp OMov; VAcc; VLexSlot k] ->
  heap_get (hp m) (ep m) = Ok (VLexEnv eid) -> tget (envs (st m)) eid = Some slots ->
  list_get slots k = Some w -> (forall e j, w <> VLexPtr e j) ->
  run_one m = ROk false (env_stored m (lp, i + 3) eid slots k (acc m)).
Proof.
  intros Hc Hip Hs Hep Hsl Hk Hw. apply seg_head in Hs as [H0 Hs]. apply seg_head in Hs as [H1 Hs]. apply seg_head in Hs as [H2 _].
  fetch_op Hc Hip H0.
  unfold bindM at 1. unfold load_operand. unfold bindM at 1.
  rewrite (read_operand_ok _ lp (i + 1) bc _ (code_in_ip _ _ _ _ Hc) eq_refl H1 ltac:(discriminate)).
  unfold bindM at 1. unfold get_vm. unfold ret at 1.
  unfold bindM at 1. unfold store_operand. unfold bindM at 1.
  rewrite (read_operand_ok _ lp (i + 1 + 1) bc _ (code_in_ip _ _ _ _ (code_in_ip _ _ _ _ Hc)) eq_refl H2 ltac:(discriminate)).
  unfold bindM at 1. unfold get_vm. unfold store_lex_slot.
  unfold bindM at 1. unfold get_vm. unfold bindM at 1. unfold hget, lift. cbn [hp ep with_ip]. rewrite Hep.
  unfold bindM at 1. cbn [as_lexenv]. unfold ret at 1.
  unfold bindM at 1. unfold env_get. unfold bindM at 1. unfold env_slots at 1. cbn [st with_ip]. rewrite Hsl. rewrite Hk.
  unfold ret at 1.
  assert (E : forall (A : Type) (a : N -> N -> A) (b : A), match w with VLexPtr e j => a e j | _ => b end = b)
    by (intros; destruct w; try reflexivity; exfalso; eapply Hw; reflexivity).
  rewrite E.
  unfold env_put. unfold bindM at 1. unfold env_slots. cbn [st with_ip]. rewrite Hsl.
  pose proof (list_get_lt _ _ _ Hk) as Hlt. apply N.ltb_lt in Hlt. rewrite Hlt.
  unfold bindM, ret. unfold env_stored, with_store, with_ip. cbn [hp st g_bind g_slots stack scap sp bp ep ip acc out_log].
  replace (i + 1 + 1 + 1) with (i + 3) by lia. reflexivity.
Qed.

(* MOV %acc (lexical slot k): the slot holds a pointer (a, j): slot j of the environment at heap
   address a is written — one indirection, the pointer slot itself is untouched *)
Lemma step_store_lex_ptr m lp i bc k eid slots a j eid2 slots2 : code_in m lp bc -> ip m = (lp, i) ->
  seg bc i [VOp OMov; VAcc; VLexSlot k] ->
  heap_get (hp m) (ep m) = Ok (VLexEnv eid) -> tget (envs (st m)) eid = Some slots ->
  list_get slots k = Some (VLexPtr a j) ->
  heap_get (hp m) a = Ok (VLexEnv eid2) -> tget (envs (st m)) eid2 = Some slots2 -> j < len slots2 ->
  run_one m = ROk false (env_stored m (lp, i + 3) eid2 slots2 j (acc m)).
Proof.
  intros Hc Hip Hs Hep Hsl Hk Ha Hsl2 Hj. apply seg_head in Hs as [H0 Hs]. apply seg_head in Hs as [H1 Hs]. apply seg_head in Hs as [H2 _].
  fetch_op Hc Hip H0.
  unfold bindM at 1. unfold load_operand. unfold bindM at 1.
  rewrite (read_operand_ok _ lp (i + 1) bc _ (code_in_ip _ _ _ _ Hc) eq_refl H1 ltac:(discriminate)).
  unfold bindM at 1. unfold get_vm. unfold ret at 1.
  unfold bindM at 1. unfold store_operand. unfold bindM at 1.
  rewrite (read_operand_ok _ lp (i + 1 + 1) bc _ (code_in_ip _ _ _ _ (code_in_ip _ _ _ _ Hc)) eq_refl H2 ltac:(discriminate)).
  unfold bindM at 1. unfold get_vm. unfold store_lex_slot.
  unfold bindM at 1. unfold get_vm. unfold bindM at 1. unfold hget at 1. unfold lift at 1. cbn [hp ep with_ip]. rewrite Hep.
  unfold bindM at 1. cbn [as_lexenv]. unfold ret at 1.
  unfold bindM at 1. unfold env_get. unfold bindM at 1. unfold env_slots at 1. cbn [st with_ip]. rewrite Hsl. rewrite Hk.
  unfold ret at 1. cbv beta iota.
  unfold bindM at 1. unfold hget at 1. unfold lift at 1. cbn [hp with_ip]. rewrite Ha.
  unfold bindM at 1. cbn [as_lexenv]. unfold ret at 1.
  unfold env_put. unfold bindM at 1. unfold env_slots. cbn [st with_ip]. rewrite Hsl2.
  apply N.ltb_lt in Hj. rewrite Hj.
  unfold bindM, ret. unfold env_stored, with_store, with_ip. cbn [hp st g_bind g_slots stack scap sp bp ep ip acc out_log].
  replace (i + 1 + 1 + 1) with (i + 3) by lia. reflexivity.
Qed.

End Steps5.

(* ============================================================ what such a store preserves *)
(* everything except %ip and ONE payload of the table of lexical environments *)
Lemma env_stored_regs m q e sl j v :
  hp (env_stored m q e sl j v) = hp m /\ g_bind (env_stored m q e sl j v) = g_bind m /\
  g_slots (env_stored m q e sl j v) = g_slots m /\ stack (env_stored m q e sl j v) = stack m /\
  scap (env_stored m q e sl j v) = scap m /\ sp (env_stored m q e sl j v) = sp m /\
  bp (env_stored m q e sl j v) = bp m /\ ep (env_stored m q e sl j v) = ep m /\
  acc (env_stored m q e sl j v) = acc m /\ out_log (env_stored m q e sl j v) = out_log m /\
  ip (env_stored m q e sl j v) = q.
Proof. repeat split. Qed.
Lemma env_stored_store m q e sl j v :
  strs (st (env_stored m q e sl j v)) = strs (st m) /\ vecs (st (env_stored m q e sl j v)) = vecs (st m) /\
  lams (st (env_stored m q e sl j v)) = lams (st m) /\ conts (st (env_stored m q e sl j v)) = conts (st m) /\
  macros (st (env_stored m q e sl j v)) = macros (st m) /\ next_id (st (env_stored m q e sl j v)) = next_id (st m).
Proof. repeat split. Qed.
Lemma env_stored_same m q e sl j v : tget (envs (st (env_stored m q e sl j v))) e = Some (list_set sl j v).
Proof. unfold env_stored, set_env. cbn [st with_store envs]. apply tget_tset_same. Qed.
Lemma env_stored_other m q e sl j v e' : e' <> e ->
  tget (envs (st (env_stored m q e sl j v))) e' = tget (envs (st m)) e'.
Proof.
  intros H. unfold env_stored, set_env. cbn [st with_store with_ip envs]. apply tget_tset_other. congruence.
Qed.
(* within the payload: the slot written, the other slots, the length *)
Lemma env_stored_slot m q e sl j v : j < len sl ->
  exists sl', tget (envs (st (env_stored m q e sl j v))) e = Some sl' /\ len sl' = len sl /\
    list_get sl' j = Some v /\ (forall k, k <> j -> list_get sl' k = list_get sl k).
Proof.
  intros Hj. exists (list_set sl j v). split; [apply env_stored_same|]. split; [apply list_set_len|].
  split; [apply list_get_set_same; exact Hj|]. intros k Hk. apply list_get_set_other. congruence.
Qed.

(* [cext] — and with it [frame] — TOLERATES the update: [sext] speaks of the string and vector
   tables only, [ce_lams] of the lambda table; the table of lexical environments is not
   mentioned by [cext] *)
Lemma env_stored_cext m q e sl j v : cext m (env_stored m q e sl j v).
Proof.
  constructor; cbn [hp st g_bind g_slots env_stored with_store with_ip]; auto using hext_refl.
  - split; cbn [next_id strs vecs set_env]; [lia|auto].
  - lia.
Qed.
Lemma env_stored_frame m q e sl j v : frame m (env_stored m q e sl j v).
Proof. constructor; try reflexivity; auto using env_stored_cext. Qed.
Lemma env_stored_minv m q e sl j v : minv m -> minv (env_stored m q e sl j v).
Proof. intros [H G S]. constructor; [exact H|exact G|exact S]. Qed.
Lemma env_stored_code_in m q e sl j v lp bc : code_in m lp bc -> code_in (env_stored m q e sl j v) lp bc.
Proof. intros H. eapply code_in_ext; [exact H|apply env_stored_cext]. Qed.

(* ... whereas [rext] / [frame2] ("existing environment payloads unchanged") hold exactly when
   the store writes what the slot already contains *)
Lemma env_stored_rext_iff m q e sl j v : e < next_id (st m) -> tget (envs (st m)) e = Some sl ->
  (rext m (env_stored m q e sl j v) <-> list_set sl j v = sl).
Proof.
  intros Lt T. split.
  - intros [_ E]. specialize (E e Lt). rewrite env_stored_same, T in E. congruence.
  - intros Eq. split; [apply env_stored_cext|]. intros k _. destruct (N.eq_dec k e) as [->|Hne].
    + rewrite env_stored_same, T, Eq. reflexivity.
    + apply env_stored_other. exact Hne.
Qed.
Lemma env_stored_frame2_iff m q e sl j v : e < next_id (st m) -> tget (envs (st m)) e = Some sl ->
  (frame2 m (env_stored m q e sl j v) <-> list_set sl j v = sl).
Proof.
  intros Lt T. rewrite <- (env_stored_rext_iff m q e sl j v Lt T). split.
  - apply frame2_rext.
  - intros [_ E]. split; [apply env_stored_frame|exact E].
Qed.

(* ============================================================ compile shape of (set! x e), x local *)
Lemma fwd_store_lex l1 i :
  fwd (emit (emit (emit_op (emit (emit (emit_op l1 OMov) VAcc) (VLexSlot i)) OMovImmediate) VVoid) VAcc)
  = fwd l1 ++ [VOp OMov; VAcc; VLexSlot i; VOp OMovImmediate; VVoid; VAcc].
Proof. rewrite !fwd_emit3, <- app_assoc. reflexivity. Qed.

(* for a name bound by the environment map of the lambda under construction (slot i): given the
   compilation of e (code appended, header kept), (set! x e) compiles to
   code_e ++ MOV %acc (lexical slot i); MOVIMM #<void> %acc.  No global slot is allocated
   (the only effect besides the code of e is the interning of the symbol x). *)
Lemma compile_set_local sc x i (ce : cell) f l tail s l1 s1 code :
  is_primitive_symbol (CSym x) = false -> pindex x sc = Some i -> hdr3 l sc s ->
  compile_expression f l false ce s = ROk l1 s1 -> fwd l1 = fwd l ++ code -> same_hdr l l1 ->
  minv s1 -> cext s s1 ->
  exists l2 s2,
    compile_expression (S f) l tail (CPair SET_ (CPair (CSym x) (CPair ce CNil))) s = ROk l2 s2 /\
    fwd l2 = fwd l ++ code ++ [VOp OMov; VAcc; VLexSlot i; VOp OMovImmediate; VVoid; VAcc] /\
    same_hdr l l2 /\ minv s2 /\ cext s1 s2 /\ same_regs s1 s2 /\ st s2 = st s1 /\
    g_bind s2 = g_bind s1 /\ g_slots s2 = g_slots s1.
Proof.
  intros Hx Hp Hh E1 F1 S1 MI1 X1. rewrite (compile_set_eq _ _ _ _ _ _ Hx).
  destruct (put_sym_m_ok x s1 MI1) as (a & s2 & E2 & MI2 & X2 & R2 & A & C & Eb & Eg).
  assert (Hh2 : hdr3 (emit (emit_op l1 OMov) VAcc) sc s2).
  { eapply hdr3_same; [|eapply hdr3_ext; [|exact Hh]].
    - eapply same_hdr_trans; [exact S1|repeat split].
    - eapply cext_trans; eassumption. }
  eexists; exists s2.
  unfold bindM at 1. rewrite E1. unfold bindM at 1. rewrite E2. unfold bindM at 1.
  rewrite (location_local3 _ sc s2 a x i Hh2 (mi_heap _ MI2) A C Hp).
  split; [reflexivity|]. split; [rewrite fwd_store_lex, F1, <- app_assoc; reflexivity|].
  split; [eapply same_hdr_trans; [exact S1|repeat split]|]. split; [exact MI2|].
  split; [exact X2|]. split; [exact R2|]. split; [eapply put_sym_st; exact E2|]. split; assumption.
Qed.

(* in the form of the compile-time theorem of fragment 3 (Closures3.compile_static3): the
   [wf3] premise "x is not bound by the scope" of CompileStatic3.cs3_set is not needed for
   compilation to succeed *)
Lemma cs5_set_local sc x e i : is_primitive_symbol (CSym x) = false -> pindex x sc = Some i ->
  compile_static3 sc e -> compile_static3 sc (YSet x e).
Proof.
  intros Hx Hp IH f l tail s Hf Hh MI. destruct f as [|f]; [cbn [cell_of3 cell_size] in Hf; lia|].
  cbn [cell_of3 cell_size] in Hf.
  destruct (IH f l false s ltac:(lia) Hh MI) as (l1 & s1 & code & E1 & F1 & S1 & MI1 & X1 & R1 & En1).
  destruct (compile_set_local sc x i (cell_of3 e) f l tail s l1 s1 code Hx Hp Hh E1 F1 S1 MI1 X1)
    as (l2 & s2 & E2 & F2 & S2 & MI2 & X2 & R2 & St2 & _).
  exists l2, s2, (code ++ [VOp OMov; VAcc; VLexSlot i; VOp OMovImmediate; VVoid; VAcc]).
  split; [exact E2|]. split; [exact F2|]. split; [exact S2|]. split; [exact MI2|].
  split; [eapply cext_trans; eassumption|]. split; [eapply same_regs_trans; eassumption|].
  rewrite St2. exact En1.
Qed.
