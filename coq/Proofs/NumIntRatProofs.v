(* NumIntRatProofs.v — quotient / remainder / modulo of TWO integer-valued Rationals
   (ln/1 by rn/1), the pair excluded from C08_quotient_exact / C08_remainder_exact_gen /
   C08_modulo_exact: number.rs runs num-rational's unchecked Div (nr:744-761) resp. Rem
   (nr:780-803) on Ratio<i32> (C08).                                                *)
From Coq Require Import ZArith Lia Bool QArith List Znumtheory.
From MW Require Import Model.Base Model.F64 Model.Num Model.Ratio32 Model.NumArith Model.NumSpec
  Proofs.GcdProofs Proofs.Ratio32Proofs Proofs.NumProofs Proofs.NumDivProofs Proofs.NumInexactProofs
  Proofs.NumUnaryProofs.
Import ListNotations.
Open Scope Z_scope.

Lemma both_rational_inv a b za zb : both_rational a b = true ->
  int_of a = Some za -> int_of b = Some zb -> a = Rational za 1 /\ b = Rational zb 1.
Proof.
  intros B Ia Ib. destruct a as [| |ln ld|]; destruct b as [| |rn rd|]; try discriminate.
  apply int_of_rational in Ia. apply int_of_rational in Ib. destruct Ia, Ib. subst. auto.
Qed.

(* ================================================================= remainder *)
(* i32::MIN % -1 inside Ratio % Ratio: "attempt to calculate the remainder with overflow",
   in both profiles *)
Definition rem_rr_known (a b : num) : bool :=
  match a, b with Rational ln _, Rational rn _ => (ln =? I32_MIN) && (rn =? -1) | _, _ => false end.

Lemma num_rem_rr p ln rn : in_i32 ln = true -> in_i32 rn = true -> rn <> 0 ->
  (ln =? I32_MIN) && (rn =? -1) = false ->
  num_rem p (Rational ln 1) (Rational rn 1) = Ok (Some (Rational (Z.rem ln rn) 1)) /\
  in_i32 (Z.rem ln rn) = true.
Proof.
  intros Hl Hr Nz K.
  assert (Rm : in_i32 (Z.rem ln rn) = true).
  { pose proof (Z.rem_bound_abs ln rn Nz). apply i32_bounds in Hr. apply i32_bounds. lia. }
  split; [|exact Rm].
  cbn [num_rem]. unfold rrem, rarith. cbn [Z.eqb Pos.eqb apply_aop].
  rewrite irem_ok; [|exact Nz|].
  2:{ apply andb_false_iff in K. destruct K as [K|K]; apply Z.eqb_neq in K; [left|right]; exact K. }
  cbn [bind]. rewrite rnew32_int by exact Rm. reflexivity.
Qed.

Theorem remainder_exact_rr p a b za zb :
  wfb a = true -> wfb b = true -> int_of a = Some za -> int_of b = Some zb -> zb <> 0 ->
  both_rational a b = true -> rem_rr_known a b = false ->
  exists r, num_rem p a b = Ok (Some r) /\ int_of r = Some (Z.rem za zb) /\ wfb r = true.
Proof.
  intros Wa Wb Ia Ib Nz B K. destruct (both_rational_inv a b za zb B Ia Ib) as [-> ->].
  cbn [wfb] in Wa, Wb. cbn [rem_rr_known] in K.
  destruct (num_rem_rr p za zb (rwfb_int _ Wa) (rwfb_int _ Wb) Nz K) as [H R].
  eexists. split; [exact H|]. split; [reflexivity|now apply wfb_int_ratio].
Qed.

Theorem remainder_rr_known_panics p a b : rem_rr_known a b = true ->
  wfb a = true -> wfb b = true -> both_rational a b = true ->
  forall za zb, int_of a = Some za -> int_of b = Some zb -> num_rem p a b = Panic P_DIVOVF.
Proof.
  intros K Wa Wb B za zb Ia Ib. destruct (both_rational_inv a b za zb B Ia Ib) as [-> ->].
  cbn [rem_rr_known] in K. apply andb_true_iff in K. destruct K as [K1 K2].
  apply Z.eqb_eq in K1. apply Z.eqb_eq in K2. subst. reflexivity.
Qed.

(* =================================================================== modulo *)
(* (1) the same MIN % -1;  (2) rem + divisor leaves i32: checked_add answers None, modulo goes
   on in floats and the result is inexact (class float-fallback-representable) *)
Definition modulo_rr_known (a b : num) : bool :=
  match a, b with
  | Rational ln _, Rational rn _ =>
      ((ln =? I32_MIN) && (rn =? -1)) || negb (in_i32 (Z.rem ln rn + rn))
  | _, _ => false
  end.

Lemma rchecked_add_ints_none p m n : in_i32 m = true -> in_i32 n = true -> in_i32 (m + n) = false ->
  rchecked_add p W32 (m, 1) (n, 1) = Ok None.
Proof.
  intros Hm Hn Hs. unfold rchecked_add, rchecked_addsub.
  replace (igcd p W32 1 1) with (Ok 1 : out Z).
  2:{ symmetry. rewrite igcd_spec; [reflexivity|unfold W32; lia|reflexivity|reflexivity|split; discriminate]. }
  cbn [bind]. change (idiv W32 1 1) with (Ok 1 : out Z). cbn [bind].
  change (ichecked_mul W32 1 1) with (Some 1). cbn iota. change (idiv W32 1 1) with (Ok 1 : out Z). cbn [bind].
  unfold ichecked_mul, ichecked_add. rewrite !Z.mul_1_l.
  rewrite !ichecked_in by assumption. rewrite ichecked_out by assumption. reflexivity.
Qed.

Theorem modulo_exact_rr p a b za zb :
  wfb a = true -> wfb b = true -> int_of a = Some za -> int_of b = Some zb -> zb <> 0 ->
  both_rational a b = true -> modulo_rr_known a b = false ->
  exists r, num_modulo p a b = Ok (Some r) /\ int_of r = Some (za mod zb) /\ wfb r = true.
Proof.
  intros Wa Wb Ia Ib Nz B K. destruct (both_rational_inv a b za zb B Ia Ib) as [-> ->].
  cbn [wfb] in Wa, Wb. cbn [modulo_rr_known] in K. apply orb_false_iff in K. destruct K as [K1 K2].
  apply negb_false_iff in K2.
  pose proof (rwfb_int _ Wa) as Hl. pose proof (rwfb_int _ Wb) as Hr.
  destruct (num_rem_rr p za zb Hl Hr Nz K1) as [H1 Rm].
  unfold num_modulo. rewrite H1. cbn [bind]. set (m := Z.rem za zb) in *.
  cbn [num_add]. rewrite rchecked_add_ints by assumption. cbn [or_float bind]. unfold r32. cbn [fst snd].
  assert (K3 : (m + zb =? I32_MIN) && (zb =? -1) = false).
  { apply andb_false_iff. destruct (Z.eq_dec zb (-1)) as [E|E]; [left|right; now apply Z.eqb_neq].
    apply Z.eqb_neq. subst zb. pose proof (Z.rem_bound_abs za (-1) ltac:(lia)) as RB. fold m in RB.
    unfold I32_MIN. change (2 ^ 31) with 2147483648. lia. }
  destruct (num_rem_rr p (m + zb) zb K2 Hr Nz K3) as [H2 R2]. rewrite H2.
  unfold m. rewrite rem_add_rem by exact Nz.
  eexists. split; [reflexivity|]. split; [reflexivity|].
  apply wfb_int_ratio. rewrite <- rem_add_rem by exact Nz. exact R2.
Qed.

(* inside class (2): no panic, but whatever modulo answers is inexact *)
Theorem modulo_rr_known_inexact p a b za zb :
  wfb a = true -> wfb b = true -> int_of a = Some za -> int_of b = Some zb -> zb <> 0 ->
  both_rational a b = true -> rem_rr_known a b = false -> modulo_rr_known a b = true ->
  exists o, num_modulo p a b = Ok o /\ forall r, o = Some r -> is_exact r = false.
Proof.
  intros Wa Wb Ia Ib Nz B K1 K. destruct (both_rational_inv a b za zb B Ia Ib) as [-> ->].
  cbn [wfb] in Wa, Wb. cbn [rem_rr_known] in K1. cbn [modulo_rr_known] in K. rewrite K1 in K. cbn [orb] in K.
  apply negb_true_iff in K.
  pose proof (rwfb_int _ Wa) as Hl. pose proof (rwfb_int _ Wb) as Hr.
  destruct (num_rem_rr p za zb Hl Hr Nz K1) as [H1 Rm].
  unfold num_modulo. rewrite H1. cbn [bind]. set (m := Z.rem za zb) in *.
  cbn [num_add]. rewrite rchecked_add_ints_none by assumption. cbn [or_float bind num_rem].
  eexists. split; [reflexivity|]. intros r E.
  destruct (rto_f64 (zb, 1)); inversion E. reflexivity.
Qed.

(* ================================================================= quotient *)
(* Ratio / Ratio reduces by gcd(ln, rn) and then Ratio::new negates BOTH components of a pair with
   a negative denominator.  g = gcd(ln, rn):
   - gcd(0, MIN), gcd(MIN, MIN): |MIN| overflows in Integer::gcd;
   - rn < 0 and ln/g = MIN (ln = MIN, rn odd: e.g. MIN / -1) or rn/g = MIN (rn = MIN, ln odd). *)
Definition quotient_rr_pair (ln rn : Z) : bool :=
  let g := Z.gcd ln rn in
  (((ln =? 0) || (ln =? I32_MIN)) && (rn =? I32_MIN)) ||
  ((rn <? 0) && ((ln / g =? I32_MIN) || (rn / g =? I32_MIN))).
Definition quotient_rr_known (a b : num) : bool :=
  match a, b with Rational ln _, Rational rn _ => quotient_rr_pair ln rn | _, _ => false end.

(* Ratio::new on a coprime pair with a denominator of either sign *)
Lemma rreduce_coprime_signed p n d : in_i32 n = true -> in_i32 d = true -> d <> 0 -> Z.gcd n d = 1 ->
  (d < 0 -> n <> I32_MIN /\ d <> I32_MIN) ->
  rreduce p W32 (n, d) = Ok (if d <? 0 then (- n, - d) else (n, d)).
Proof.
  intros Hn Hd Nd G S. unfold I32_MIN in S. change (2 ^ 31) with 2147483648 in S.
  pose proof Hn as Bn. pose proof Hd as Bd. apply i32_bounds in Bn. apply i32_bounds in Bd.
  unfold rreduce. destruct (Z.eqb_spec d 0); [contradiction|].
  destruct (Z.eqb_spec n 0) as [N0|N0].
  { subst n. clear Hn. rewrite Z.gcd_0_l in G. destruct (Z.ltb_spec d 0); f_equal; f_equal; lia. }
  destruct (Z.eqb_spec n d) as [ND|ND].
  { subst n. rewrite Z.gcd_diag in G. destruct (Z.ltb_spec d 0); f_equal; f_equal; lia. }
  rewrite igcd_spec; try assumption; try (unfold W32; lia).
  2:{ unfold gcd_safe. rewrite imin_W32. lia. }
  rewrite G. cbn [bind]. rewrite !idiv_ok by (try lia; right; lia). cbn [bind].
  rewrite !Z.quot_1_r. destruct (Z.ltb_spec d 0) as [Dn|Dn]; [|reflexivity].
  destruct (S Dn) as [S1 S2]. unfold isub. cbn [Z.sub Z.add].
  rewrite !ovf_ok by (apply in_int32_bounds; lia). reflexivity.
Qed.

Lemma rreduce_coprime_neg_panics n d : in_i32 n = true -> in_i32 d = true -> d < 0 -> Z.gcd n d = 1 ->
  (n = I32_MIN \/ d = I32_MIN) -> rreduce Debug W32 (n, d) = Panic P_OVERFLOW.
Proof.
  intros Hn Hd Dn G S. unfold I32_MIN in S. change (2 ^ 31) with 2147483648 in S.
  pose proof Hn as Bn. pose proof Hd as Bd. apply i32_bounds in Bn. apply i32_bounds in Bd.
  unfold rreduce. destruct (Z.eqb_spec d 0); [lia|].
  destruct (Z.eqb_spec n 0) as [N0|N0].
  { exfalso. subst n. clear Hn. rewrite Z.gcd_0_l in G. lia. }
  destruct (Z.eqb_spec n d) as [ND|ND].
  { exfalso. subst n. rewrite Z.gcd_diag in G. lia. }
  rewrite igcd_spec; try assumption; try (unfold W32; lia).
  2:{ unfold gcd_safe. rewrite imin_W32. lia. }
  rewrite G. cbn [bind]. rewrite !idiv_ok by (try lia; right; lia). cbn [bind].
  rewrite !Z.quot_1_r. destruct (Z.ltb_spec d 0) as [_|?]; [|lia].
  unfold isub, ovf, W32. cbn [Z.sub Z.add].
  destruct (in_int 32 (- n)) eqn:R1; [|reflexivity]. cbn [bind].
  destruct (in_int 32 (- d)) eqn:R2; [|reflexivity].
  apply in_int32_bounds in R1. apply in_int32_bounds in R2. lia.
Qed.

(* Ratio / Ratio on ln/1, rn/1 when gcd(ln, rn) is representable: Ratio::new(ln/g, rn/g) *)
Lemma rdiv_ints p ln rn : in_i32 ln = true -> in_i32 rn = true -> rn <> 0 -> gcd_safe W32 ln rn ->
  exists x1 y2, let g := Z.gcd ln rn in
    0 < g /\ ln = x1 * g /\ rn = y2 * g /\ Z.gcd x1 y2 = 1 /\
    in_i32 x1 = true /\ in_i32 y2 = true /\ y2 <> 0 /\
    rdiv p W32 (ln, 1) (rn, 1) = rreduce p W32 (x1, y2).
Proof.
  intros Hl Hr Nz S.
  destruct (gcd_parts ln rn Nz) as [x1 [y2 [Pg [El [Er [G1 [Q1 Q2]]]]]]]. cbn zeta in *.
  exists x1, y2. set (g := Z.gcd ln rn) in *.
  assert (Rx : in_i32 x1 = true) by (apply (in_int_factor 32 x1 g); try lia; now rewrite <- El).
  assert (Ry : in_i32 y2 = true) by (apply (in_int_factor 32 y2 g); try lia; now rewrite <- Er).
  assert (Ny : y2 <> 0) by (intros E; rewrite E in Er; lia).
  repeat split; try assumption.
  unfold rdiv. rewrite igcd_spec; try assumption; try (unfold W32; lia). fold g. cbn [bind].
  replace (igcd p W32 1 1) with (Ok 1 : out Z).
  2:{ symmetry. rewrite igcd_spec; [reflexivity|unfold W32; lia|reflexivity|reflexivity|split; discriminate]. }
  cbn [bind]. rewrite (idiv_ok W32 ln g) by lia. cbn [bind]. rewrite Q1.
  change (idiv W32 1 1) with (Ok 1 : out Z). cbn [bind].
  unfold imul. rewrite Z.mul_1_r, ovf_ok by exact Rx. cbn [bind].
  rewrite (idiv_ok W32 rn g) by lia. cbn [bind]. rewrite Q2.
  rewrite Z.mul_1_l, ovf_ok by exact Ry. cbn [bind]. reflexivity.
Qed.

Lemma quot_scale a b g : g <> 0 -> b <> 0 -> Z.quot (a * g) (b * g) = Z.quot a b.
Proof. intros. apply Z.quot_mul_cancel_r; assumption. Qed.

Lemma exact_div x g : g <> 0 -> (x * g) / g = x.
Proof. intros. now apply Z.div_mul. Qed.

Lemma num_quotient_rr_unfold p ln rn :
  num_quotient p (Rational ln 1) (Rational rn 1) =
  do q <- rdiv p W32 (ln, 1) (rn, 1); do t <- rtrunc W32 q; Ok (Some (r32 t)).
Proof. reflexivity. Qed.

Theorem quotient_exact_rr p a b za zb :
  wfb a = true -> wfb b = true -> int_of a = Some za -> int_of b = Some zb -> zb <> 0 ->
  both_rational a b = true -> quotient_rr_known a b = false ->
  exists r, num_quotient p a b = Ok (Some r) /\ int_of r = Some (Z.quot za zb) /\ wfb r = true.
Proof.
  intros Wa Wb Ia Ib Nz B K. destruct (both_rational_inv a b za zb B Ia Ib) as [-> ->].
  cbn [wfb] in Wa, Wb. cbn [quotient_rr_known] in K. unfold quotient_rr_pair in K.
  apply orb_false_iff in K. destruct K as [K1 K2].
  pose proof (rwfb_int _ Wa) as Hl. pose proof (rwfb_int _ Wb) as Hr.
  assert (S : gcd_safe W32 za zb).
  { unfold gcd_safe. rewrite imin_W32. unfold I32_MIN in K1. change (- 2 ^ 31) with (-2147483648) in K1.
    destruct (Z.eqb_spec za 0); destruct (Z.eqb_spec za (-2147483648)); destruct (Z.eqb_spec zb (-2147483648));
      cbn [orb andb] in K1; try discriminate; lia. }
  destruct (rdiv_ints p za zb Hl Hr Nz S) as [x1 [y2 [Pg [El [Er [G1 [Rx [Ry [Ny Hd]]]]]]]]]. cbn zeta in *.
  set (g := Z.gcd za zb) in *.
  assert (Dx : za / g = x1) by (rewrite El; apply exact_div; lia).
  assert (Dy : zb / g = y2) by (rewrite Er; apply exact_div; lia).
  rewrite Dx, Dy in K2.
  assert (S2 : y2 < 0 -> x1 <> I32_MIN /\ y2 <> I32_MIN).
  { intros Yn. assert (Zn : (zb <? 0) = true) by (apply Z.ltb_lt; nia). rewrite Zn in K2. cbn [andb] in K2.
    apply orb_false_iff in K2. destruct K2 as [A1 A2]. apply Z.eqb_neq in A1. apply Z.eqb_neq in A2. auto. }
  rewrite num_quotient_rr_unfold, Hd. rewrite rreduce_coprime_signed by assumption. cbn [bind].
  assert (Q : Z.quot za zb = Z.quot x1 y2) by (rewrite El, Er; apply quot_scale; lia).
  pose proof Rx as Bx. pose proof Ry as By. apply i32_bounds in Bx. apply i32_bounds in By.
  destruct (Z.ltb_spec y2 0) as [Yn|Yn].
  - destruct (S2 Yn) as [A1 A2]. unfold I32_MIN in A1, A2. change (2 ^ 31) with 2147483648 in A1, A2.
    rewrite rtrunc_wf by (try lia; apply i32_bounds; lia). cbn [bind]. unfold r32. cbn [fst snd].
    rewrite Z.quot_opp_opp by lia. rewrite <- Q.
    eexists. split; [reflexivity|]. split; [reflexivity|].
    apply wfb_int_ratio. rewrite Q, <- Z.quot_opp_opp by lia. apply quot_i32; [apply i32_bounds; lia|lia].
  - rewrite rtrunc_wf by (try lia; assumption). cbn [bind]. unfold r32. cbn [fst snd]. rewrite <- Q.
    eexists. split; [reflexivity|]. split; [reflexivity|].
    apply wfb_int_ratio. rewrite Q. apply quot_i32; [assumption|lia].
Qed.

Theorem quotient_rr_known_panics a b za zb :
  wfb a = true -> wfb b = true -> int_of a = Some za -> int_of b = Some zb -> zb <> 0 ->
  both_rational a b = true -> quotient_rr_known a b = true ->
  num_quotient Debug a b = Panic P_OVERFLOW.
Proof.
  intros Wa Wb Ia Ib Nz B K. destruct (both_rational_inv a b za zb B Ia Ib) as [-> ->].
  cbn [wfb] in Wa, Wb. cbn [quotient_rr_known] in K. unfold quotient_rr_pair in K.
  pose proof (rwfb_int _ Wa) as Hl. pose proof (rwfb_int _ Wb) as Hr.
  destruct (((za =? 0) || (za =? I32_MIN)) && (zb =? I32_MIN)) eqn:K1.
  - (* Integer::gcd overflows: two concrete pairs *)
    apply andb_true_iff in K1. destruct K1 as [K1 K3]. apply Z.eqb_eq in K3. subst zb.
    apply orb_true_iff in K1. destruct K1 as [K1|K1]; apply Z.eqb_eq in K1; subst za; reflexivity.
  - cbn [orb] in K. apply andb_true_iff in K. destruct K as [Zn K2]. apply Z.ltb_lt in Zn.
    assert (S : gcd_safe W32 za zb).
    { unfold gcd_safe. rewrite imin_W32. unfold I32_MIN in K1. change (- 2 ^ 31) with (-2147483648) in K1.
      destruct (Z.eqb_spec za 0); destruct (Z.eqb_spec za (-2147483648)); destruct (Z.eqb_spec zb (-2147483648));
        cbn [orb andb] in K1; try discriminate; lia. }
    destruct (rdiv_ints Debug za zb Hl Hr Nz S) as [x1 [y2 [Pg [El [Er [G1 [Rx [Ry [Ny Hd]]]]]]]]]. cbn zeta in *.
    set (g := Z.gcd za zb) in *.
    assert (Dx : za / g = x1) by (rewrite El; apply exact_div; lia).
    assert (Dy : zb / g = y2) by (rewrite Er; apply exact_div; lia).
    rewrite Dx, Dy in K2.
    rewrite num_quotient_rr_unfold, Hd.
    rewrite rreduce_coprime_neg_panics; try assumption; [reflexivity|nia|].
    apply orb_true_iff in K2. destruct K2 as [A|A]; apply Z.eqb_eq in A; auto.
Qed.

Theorem quotient_rr_debug_panics_iff a b za zb :
  wfb a = true -> wfb b = true -> int_of a = Some za -> int_of b = Some zb -> zb <> 0 ->
  both_rational a b = true ->
  ((exists s, num_quotient Debug a b = Panic s) <-> quotient_rr_known a b = true).
Proof.
  intros Wa Wb Ia Ib Nz B. split.
  - intros [s Hs]. destruct (quotient_rr_known a b) eqn:K; [reflexivity|].
    destruct (quotient_exact_rr Debug a b za zb Wa Wb Ia Ib Nz B K) as [r [Hr _]]. rewrite Hr in Hs. discriminate.
  - intros K. exists P_OVERFLOW. eapply quotient_rr_known_panics; eassumption.
Qed.
