(* CompileCorrect6.v — C01, fragment 6 (Closures6.v; port of CompileCorrect4.v): the "exec" lemmas of
   the basic code patterns over the store semantics: constants, variable references (a local is read
   THROUGH THE STORE: [exec6_load_local]), global stores, set! on a LOCAL ([store_rel_update6],
   [exec6_store_local]: the location is overwritten, every other location keeps its content by
   injectivity of the location map), if, the operand loop, application of a builtin.  Every
   rext/frame2 of fragment 4 is wext/frame6 here; every conclusion also returns [store_rel]. *)
From Coq Require Import String Lia FMapPositive.
From MW Require Import Model.Base Model.F64 Model.Num Model.Datum Model.TransformDef Model.Transform
  Model.VmTypes Model.Heap Model.Gc Model.VmBase Model.Compile Model.Vm
  Proofs.VmProofs0 Proofs.GcProofs Proofs.SymtabProofs Proofs.QuoteHeapProofs
  Proofs.CompileProofs Proofs.RunProofs Proofs.CompileCorrect Proofs.TailProofs Proofs.FrameSteps
  Proofs.CellFuelProofs Proofs.CompileCorrect2 Proofs.FrameSteps3 Proofs.FrameSteps5 Proofs.StoreLocal5 Proofs.Closures6.
From MW Require Proofs.ScopeProofs.
Open Scope N_scope.

Arguments N.add : simpl never.
Arguments N.sub : simpl never.
Arguments N.mul : simpl never.
Arguments N.eqb : simpl never.
Arguments N.ltb : simpl never.
Arguments N.leb : simpl never.


(* ============================================================ a store into a location *)
Lemma env_stored_wenvs6 m q e sl j v w0 : tget (envs (st m)) e = Some sl -> list_get sl j = Some w0 ->
  nonptr w0 -> nonptr v -> wenvs m (env_stored m q e sl j v).
Proof.
  intros T G Hw0 Hv e' sl' Lt' T'. destruct (N.eq_dec e' e) as [->|Hne].
  - rewrite T in T'. injection T' as <-. exists (list_set sl j v). split; [apply env_stored_same|].
    split; [apply list_set_len|]. split.
    + intros k a0 j0 Gk. rewrite list_get_set_other; [exact Gk|]. intros <-. rewrite G in Gk. injection Gk as ->.
      eapply Hw0. reflexivity.
    + intros k w Gk Hw. destruct (N.eq_dec k j) as [->|Hk].
      * exists v. split; [apply list_get_set_same; eapply list_get_lt; exact G|exact Hv].
      * exists w. split; [rewrite list_get_set_other by congruence; exact Gk|exact Hw].
  - exists sl'. split; [rewrite env_stored_other by exact Hne; exact T'|]. split; [reflexivity|]. split; [auto|].
    intros k w Gk Hw. eauto.
Qed.

(* the store relation after MOV %acc into the location l = (a, j), a the VLexEnv e cell: the
   reference store is updated at l, every other location keeps its content (injectivity) *)
Lemma store_rel_update6 mu sg m q l a j e sl v r :
  store_rel mu sg m -> nth_error mu l = Some (a, j) -> cell_at (hp m) a = VLexEnv e ->
  tget (envs (st m)) e = Some sl -> (l < length sg)%nat -> nonptr v -> vrep6 mu m v r ->
  wext m (env_stored m q e sl j v) /\ store_rel mu (sset6 sg l r) (env_stored m q e sl j v).
Proof.
  intros SR Hm C T Hl Hv V. pose proof SR as (Hlen & Hc & Hi).
  destruct (store_rel_loc _ _ _ _ _ _ SR Hm) as (r0 & eid0 & sl0 & w0 & _ & A & C0 & Lt & T0 & G0 & Hw0 & _).
  assert (eid0 = e) as -> by congruence. assert (sl0 = sl) as -> by congruence.
  assert (W : wext m (env_stored m q e sl j v)).
  { split; [apply env_stored_cext|]. eapply env_stored_wenvs6; eassumption. }
  split; [exact W|].
  split; [rewrite sset6_length; exact Hlen|]. split.
  - intros l' a' j' r' Hm' Hs'. destruct (Nat.eq_dec l' l) as [->|Hne].
    + rewrite sset6_same in Hs' by exact Hl. injection Hs' as <-. rewrite Hm in Hm'. injection Hm' as <- <-.
      exists e, (list_set sl j v), v. split; [exact A|]. split; [exact C|]. split; [exact Lt|].
      split; [apply env_stored_same|]. split; [apply list_get_set_same; eapply list_get_lt; exact G0|].
      split; [exact Hv|]. eapply vrep6_ext; [exact W|apply prefix6_refl|exact V].
    + rewrite sset6_other in Hs' by congruence.
      destruct (Hc l' a' j' r' Hm' Hs') as (eid' & sl' & w' & A' & C' & Lt' & T' & G' & Hw' & V').
      assert (V2 : vrep6 mu (env_stored m q e sl j v) w' r') by (eapply vrep6_ext; [exact W|apply prefix6_refl|exact V']).
      destruct (N.eq_dec eid' e) as [->|Hne'].
      * assert (sl' = sl) as -> by congruence.
        assert (Hj : j <> j').
        { intros <-. apply Hne. apply (Hi l' l a' a j e Hm' Hm C' C). }
        exists e, (list_set sl j v), w'. split; [exact A'|]. split; [exact C'|]. split; [exact Lt'|].
        split; [apply env_stored_same|]. split; [rewrite list_get_set_other by exact Hj; exact G'|].
        split; [exact Hw'|exact V2].
      * exists eid', sl', w'. split; [exact A'|]. split; [exact C'|]. split; [exact Lt'|].
        split; [rewrite env_stored_other by exact Hne'; exact T'|]. split; [exact G'|]. split; [exact Hw'|exact V2].
  - exact Hi.
Qed.

Section Exec6Lemmas.
Variable ob : N -> M vcell.
Variable bsem : N -> list rval -> option rval.
Notation run_one := (Vm.run_one ob).
Notation steps := (RunProofs.steps ob).
Notation run_builtin := (Vm.run_builtin ob).

(* one instruction that changes %ip and %acc only *)
Lemma ok_n6_same_mem mu sg m m' lp q r rho : run_one m = ROk false m' -> same_mem m m' -> minv m ->
  ip m' = (lp, q) -> vrep6 mu m' (acc m') r -> genv_rel6 mu rho m -> store_rel mu sg m -> ok_n6 ob mu sg m lp q r rho.
Proof.
  intros E SM MI Hip V G SR. exists 1%nat, m', mu. split; [apply steps_one; exact E|].
  split; [apply prefix6_refl|].
  split; [apply same_mem_frame6; exact SM|]. split; [eapply same_mem_minv; eassumption|].
  split; [exact Hip|]. split; [exact V|].
  pose proof (frame2_rext _ _ (same_mem_frame2 _ _ SM)) as R.
  split; [eapply genv_rel6_ext; [apply rext_wext; exact R|apply prefix6_refl|apply SM|exact G]|].
  eapply store_rel_rext; eassumption.
Qed.

Lemma exec6_movimm s0 p v b tail lv sg rho : vrep v b (hp s0) (st s0) ->
  exec6 ob s0 p [VOp OMovImmediate; v; VAcc] tail lv sg rho (R6Base b) sg rho.
Proof.
  intros V m mu lp bc X MI Hc Hs Hip G L SR _. left.
  pose proof (vrep_ext _ _ _ _ _ _ V (cext_ext _ _ X)) as V'.
  pose proof (step_movimm ob m lp p bc v Hc Hip Hs (vrep_not_op _ _ _ _ V')) as E.
  eapply ok_n6_same_mem; [exact E|repeat split|exact MI|reflexivity| |exact G|exact SR].
  cbn [vrep6]. exact V'.
Qed.

Lemma exec6_load_global s0 p a k x tail lv sg rho r :
  allocated (hp s0) a -> cell_at (hp s0) a = VSym x -> assoc_find (g_bind s0) a = Some k ->
  rho x = Some r -> r <> R6Base (RDatum CUndef) ->
  exec6 ob s0 p [VOp OMov; VGSlot k; VAcc] tail lv sg rho r sg rho.
Proof.
  intros A C B Hx Hr m mu lp bc X MI Hc Hs Hip G L SR _. left.
  destruct (G x r Hx) as (a' & k' & v & A' & C' & B' & Lk & V).
  destruct (ce_heap _ _ X a A) as [Am Cm]. rewrite C in Cm.
  assert (a = a') as <- by (apply (same_name_iff_same_cell (hp m) a a' x x (mi_heap _ MI) Am A' Cm C'); reflexivity).
  pose proof (ce_bind _ _ X a k B) as Bm. assert (k' = k) as -> by congruence.
  pose proof (step_load_global ob m lp p bc k v Hc Hip Hs Lk (vrep6_not_undef _ _ _ _ V Hr)) as E.
  eapply ok_n6_same_mem; [exact E|repeat split|exact MI|reflexivity| |exact G|exact SR].
  eapply vrep6_ext; [|apply prefix6_refl|exact V].
  apply rext_wext, rext_same; first [reflexivity|cbn [g_slots with_acc with_ip]; lia].
Qed.

(* a local variable is read THROUGH THE STORE: slot i is the location lv[i] or points to it *)
Lemma exec6_load_local s0 p i tail lv sg rho l r : nth_error lv (N.to_nat i) = Some l -> nth_error sg l = Some r ->
  exec6 ob s0 p [VOp OMov; VLexSlot i; VAcc] tail lv sg rho r sg rho.
Proof.
  intros Hi Hl m mu lp bc X MI Hc Hs Hip G L SR _. left.
  destruct (lrel6_read mu lv sg m i l r L SR Hi Hl) as (eid & slots & v & A & C & Lt & T & Gs & SH).
  assert (Hg : heap_get (hp m) (ep m) = Ok (VLexEnv eid)) by (rewrite (heap_get_alloc _ _ A), C; reflexivity).
  destruct SH as [[Hn V]|(a & j & eid2 & sl & w & -> & A2 & C2 & Lt2 & T2 & G2 & Hw & V)].
  - pose proof (step_load_lex ob m lp p bc i eid slots v Hc Hip Hs Hg T Gs Hn) as E.
    eapply ok_n6_same_mem; [exact E|repeat split|exact MI|reflexivity| |exact G|exact SR].
    eapply vrep6_ext; [|apply prefix6_refl|exact V].
    apply rext_wext, rext_same; first [reflexivity|cbn [g_slots with_acc with_ip]; lia].
  - assert (Hg2 : heap_get (hp m) a = Ok (VLexEnv eid2)) by (rewrite (heap_get_alloc _ _ A2), C2; reflexivity).
    pose proof (step_load_lex_ptr ob m lp p bc i eid slots a j eid2 sl w Hc Hip Hs Hg T Gs Hg2 T2 G2) as E.
    eapply ok_n6_same_mem; [exact E|repeat split|exact MI|reflexivity| |exact G|exact SR].
    eapply vrep6_ext; [|apply prefix6_refl|exact V].
    apply rext_wext, rext_same; first [reflexivity|cbn [g_slots with_acc with_ip]; lia].
Qed.

(* ------------------------------------------------------------ define / set! (global) *)
Lemma exec_store_tail6 mu sg m1 lp bc i a k x rho r :
  minv m1 -> code_in m1 lp bc ->
  seg bc i [VOp OMov; VAcc; VGSlot k; VOp OMovImmediate; VVoid; VAcc] -> ip m1 = (lp, i) ->
  allocated (hp m1) a -> cell_at (hp m1) a = VSym x -> assoc_find (g_bind m1) a = Some k ->
  vrep6 mu m1 (acc m1) r -> genv_rel6 mu rho m1 -> store_rel mu sg m1 ->
  exists m3, steps 2 m1 = Some m3 /\ frame2 m1 m3 /\ minv m3 /\ ip m3 = (lp, i + 6) /\
    acc m3 = VVoid /\ genv_rel6 mu (upd6 rho x r) m3 /\ store_rel mu sg m3.
Proof.
  intros MI Hc Hs Hip A C B V G SR.
  change [VOp OMov; VAcc; VGSlot k; VOp OMovImmediate; VVoid; VAcc]
    with ([VOp OMov; VAcc; VGSlot k] ++ [VOp OMovImmediate; VVoid; VAcc]) in Hs.
  apply seg_app in Hs as [Hs1 Hs2]. rewrite len3 in Hs2.
  assert (Hk : k < len (g_slots m1)) by (apply (proj1 (mi_glob _ MI) a); exact B).
  pose proof (step_store_global ob m1 lp i bc k Hc Hip Hs1 Hk) as E1.
  set (m2 := with_globals (with_ip m1 (lp, i + 3)) (g_bind m1) (list_set (g_slots m1) k (acc m1))) in *.
  assert (Hc2 : code_in m2 lp bc) by (eapply code_in_regs; [| |exact Hc]; reflexivity).
  pose proof (step_movimm ob m2 lp (i + 3) bc VVoid Hc2 eq_refl Hs2 ltac:(discriminate)) as E2.
  set (m3 := with_acc (with_ip m2 (lp, i + 3 + 3)) VVoid) in *.
  exists m3. split; [eapply (steps_trans ob 1 1); apply steps_one; eassumption|].
  assert (F : frame m1 m3).
  { constructor; try reflexivity; auto.
    apply cext_same; try reflexivity. cbn [g_slots m3 m2 with_acc with_ip with_globals].
    rewrite list_set_len. lia. }
  assert (F2 : frame2 m1 m3) by (split; [exact F|intros j _; reflexivity]).
  pose proof (frame2_rext _ _ F2) as R13. pose proof (rext_wext _ _ R13) as W13.
  split; [exact F2|]. split.
  { destruct MI as [HI [G1 G2] SP]. constructor; [exact HI| |exact SP].
    split; cbn [g_bind g_slots m3 m2 with_acc with_ip with_globals]; [|exact G2].
    intros a0 k0 H0. rewrite list_set_len. eapply G1. exact H0. }
  split; [cbn [ip m3 with_acc with_ip]; f_equal; lia|]. split; [reflexivity|].
  split; [|eapply store_rel_rext; eassumption].
  intros y ry Hy. unfold upd6 in Hy. destruct (text_eqb y x) eqn:Eyx.
  - apply text_eqb_eq in Eyx. subst y. injection Hy as <-.
    exists a, k, (acc m1). split; [exact A|]. split; [exact C|]. split; [exact B|].
    split; [|eapply vrep6_ext; [exact W13|apply prefix6_refl|exact V]].
    cbn [g_slots m3 m2 with_acc with_ip with_globals]. apply list_get_set_same. exact Hk.
  - destruct (G y ry Hy) as (ay & ky & vy & Ay & Cy & By & Ly & Vy).
    exists ay, ky, vy. split; [exact Ay|]. split; [exact Cy|]. split; [exact By|].
    split; [|eapply vrep6_ext; [exact W13|apply prefix6_refl|exact Vy]].
    cbn [g_slots m3 m2 with_acc with_ip with_globals]. rewrite list_get_set_other; [exact Ly|].
    intros <-. assert (a = ay) as <- by (eapply (proj2 (mi_glob _ MI)); eassumption).
    rewrite C in Cy. injection Cy as <-. rewrite text_eqb_refl in Eyx. discriminate.
Qed.

Lemma exec6_store s0 p code a k x tail lv sg rho r1 sg1 rho1 :
  exec6 ob s0 p code false lv sg rho r1 sg1 rho1 ->
  allocated (hp s0) a -> cell_at (hp s0) a = VSym x -> assoc_find (g_bind s0) a = Some k ->
  exec6 ob s0 p (code ++ [VOp OMov; VAcc; VGSlot k; VOp OMovImmediate; VVoid; VAcc]) tail lv sg rho
        (R6Base (RDatum CVoid)) sg1 (upd6 rho1 x r1).
Proof.
  intros EX1 A C B m mu lp bc X MIm Hc Hs Hip G L SR _. left. apply seg_app in Hs as [Hs1 Hs2].
  destruct (exec6_n ob _ _ _ _ _ _ _ _ _ EX1 m mu lp bc X MIm Hc Hs1 Hip G L SR)
    as (n1 & m1 & mu1 & St1 & Pf1 & Fr1 & MIm1 & Hip1 & V1 & G1 & SR1).
  pose proof (f6_frame _ _ Fr1) as Fr1'.
  assert (X0m1 : cext s0 m1) by (eapply cext_trans; [exact X|apply Fr1']).
  destruct (ce_heap _ _ X0m1 a A) as [A1 C1]. rewrite C in C1.
  pose proof (ce_bind _ _ X0m1 a k B) as B1.
  destruct (exec_store_tail6 mu1 sg1 m1 lp bc _ a k x rho1 r1 MIm1 (code_in_ext _ _ _ _ Hc (fr_ext _ _ Fr1')) Hs2 Hip1 A1 C1 B1 V1 G1 SR1)
    as (m3 & St3 & Fr3 & MIm3 & Hip3 & Hacc & G3 & SR3).
  exists (n1 + 2)%nat, m3, mu1. split; [eapply steps_trans; eassumption|]. split; [exact Pf1|].
  split; [eapply frame6_trans; [exact Fr1|apply frame2_frame6; exact Fr3]|]. split; [exact MIm3|].
  split; [rewrite Hip3, len_app; f_equal; change (len [VOp OMov; VAcc; VGSlot k; VOp OMovImmediate; VVoid; VAcc]) with 6; lia|].
  split; [rewrite Hacc; cbn [vrep6]; apply vrep_void|]. split; [exact G3|exact SR3].
Qed.

(* ------------------------------------------------------------ set! on a LOCAL variable *)
(* MOV %acc (lexical slot i); MOVIMM #<void> %acc: the location of slot i is overwritten *)
Lemma exec_store_local_tail6 mu sg m1 lp bc p i lv l r :
  minv m1 -> code_in m1 lp bc -> seg bc p (store_code i) -> ip m1 = (lp, p) ->
  lrel6 mu lv m1 -> store_rel mu sg m1 -> nth_error lv (N.to_nat i) = Some l -> (l < length sg)%nat ->
  vrep6 mu m1 (acc m1) r ->
  exists m3, steps 2 m1 = Some m3 /\ frame6 m1 m3 /\ minv m3 /\ ip m3 = (lp, p + 6) /\ acc m3 = VVoid /\
    g_slots m3 = g_slots m1 /\ store_rel mu (sset6 sg l r) m3.
Proof.
  intros MI Hc Hs Hip L SR Hi Hl V. unfold store_code in Hs.
  change [VOp OMov; VAcc; VLexSlot i; VOp OMovImmediate; VVoid; VAcc]
    with ([VOp OMov; VAcc; VLexSlot i] ++ [VOp OMovImmediate; VVoid; VAcc]) in Hs.
  apply seg_app in Hs as [Hs1 Hs2]. rewrite len3 in Hs2.
  destruct (lrel6_loc_of mu lv sg m1 i l L SR Hi) as (a & j & e & Hm & C & HL).
  destruct (store_local_step ob m1 lp bc p i e j Hc Hip Hs1 HL) as (sl & w0 & Lt & T & G & Hw0 & E1).
  pose proof (vrep6_not_lexptr _ _ _ _ V) as Hv.
  destruct (store_rel_update6 mu sg m1 (lp, p + 3) l a j e sl (acc m1) r SR Hm C T Hl Hv V) as [W12 SR2].
  set (m2 := env_stored m1 (lp, p + 3) e sl j (acc m1)) in *.
  assert (Hc2 : code_in m2 lp bc) by (apply env_stored_code_in; exact Hc).
  pose proof (step_movimm ob m2 lp (p + 3) bc VVoid Hc2 eq_refl Hs2 ltac:(discriminate)) as E2.
  set (m3 := with_acc (with_ip m2 (lp, p + 3 + 3)) VVoid) in *.
  assert (SM : same_mem m2 m3) by (repeat split).
  exists m3. split; [eapply (steps_trans ob 1 1); apply steps_one; eassumption|].
  split.
  { eapply frame6_trans; [|apply same_mem_frame6; exact SM]. split; [apply env_stored_frame|apply W12]. }
  split; [eapply same_mem_minv; [exact SM|apply env_stored_minv; exact MI]|].
  split; [cbn [ip m3 with_acc with_ip]; f_equal; lia|]. split; [reflexivity|]. split; [reflexivity|].
  eapply store_rel_rext; [apply frame2_rext, same_mem_frame2; exact SM|exact SR2].
Qed.

Lemma exec6_store_local s0 p code i tail lv sg rho r1 sg1 rho1 l :
  exec6 ob s0 p code false lv sg rho r1 sg1 rho1 ->
  nth_error lv (N.to_nat i) = Some l -> (l < length sg1)%nat ->
  exec6 ob s0 p (code ++ store_code i) tail lv sg rho (R6Base (RDatum CVoid)) (sset6 sg1 l r1) rho1.
Proof.
  intros EX1 Hi Hl m mu lp bc X MIm Hc Hs Hip G L SR _. left. apply seg_app in Hs as [Hs1 Hs2].
  destruct (exec6_n ob _ _ _ _ _ _ _ _ _ EX1 m mu lp bc X MIm Hc Hs1 Hip G L SR)
    as (n1 & m1 & mu1 & St1 & Pf1 & Fr1 & MIm1 & Hip1 & V1 & G1 & SR1).
  pose proof (f6_frame _ _ Fr1) as Fr1'.
  pose proof (lrel6_frame6 _ _ _ _ _ Fr1 Pf1 L) as L1.
  destruct (exec_store_local_tail6 mu1 sg1 m1 lp bc _ i lv l r1 MIm1 (code_in_ext _ _ _ _ Hc (fr_ext _ _ Fr1')) Hs2 Hip1 L1 SR1 Hi Hl V1)
    as (m3 & St3 & Fr3 & MIm3 & Hip3 & Hacc & Eg & SR3).
  exists (n1 + 2)%nat, m3, mu1. split; [eapply steps_trans; eassumption|]. split; [exact Pf1|].
  split; [eapply frame6_trans; eassumption|]. split; [exact MIm3|].
  split; [rewrite Hip3, len_app; f_equal; change (len (store_code i)) with 6; lia|].
  split; [rewrite Hacc; cbn [vrep6]; apply vrep_void|].
  split; [eapply genv_rel6_ext; [apply frame6_wext; exact Fr3|apply prefix6_refl|exact Eg|exact G1]|exact SR3].
Qed.

(* ------------------------------------------------------------ if *)
Lemma exec6_if s0 p cc ca cb X Y tail lv sg rho rc sg1 rho1 r sg2 rho2 (else_branch : bool) :
  X = p + len cc + 2 + len ca + 2 -> Y = X + len cb ->
  exec6 ob s0 p cc false lv sg rho rc sg1 rho1 ->
  is_false6 rc = else_branch ->
  (if else_branch then exec6 ob s0 X cb tail lv sg1 rho1 r sg2 rho2
   else exec6 ob s0 (p + len cc + 2) ca tail lv sg1 rho1 r sg2 rho2) ->
  exec6 ob s0 p (cc ++ [VOp OJnt; VPtr X] ++ ca ++ [VOp OJmp; VPtr Y] ++ cb) tail lv sg rho r sg2 rho2.
Proof.
  intros HX HY EXc Hrc EXb m mu lp bc Xm MI Hc Hs Hip G L SR Ht.
  apply seg_app in Hs as [Hsc Hs]. apply seg_app in Hs as [Hsj Hs]. rewrite len2 in Hs.
  apply seg_app in Hs as [Hsa Hs]. apply seg_app in Hs as [Hsm Hsb]. rewrite len2 in Hsb.
  destruct (exec6_n ob _ _ _ _ _ _ _ _ _ EXc m mu lp bc Xm MI Hc Hsc Hip G L SR)
    as (n1 & m1 & mu1 & St1 & Pf1 & Fr1 & MI1 & Hip1 & V1 & G1 & SR1).
  pose proof (f6_frame _ _ Fr1) as Fr1'.
  destruct (vrep6_truth _ _ _ _ V1) as (w & Hw & Hwf).
  pose proof (code_in_ext _ _ _ _ Hc (fr_ext _ _ Fr1')) as Hc1.
  pose proof (step_jnt ob m1 lp _ bc X w Hc1 Hip1 Hsj Hw) as E2. fold (vfalse w) in E2.
  set (m2 := with_ip m1 (lp, if vfalse w then X else p + len cc + 2)) in *.
  assert (SM2 : same_mem m1 m2) by (repeat split).
  pose proof (same_mem_frame6 _ _ SM2) as Fr2.
  pose proof (frame2_rext _ _ (same_mem_frame2 _ _ SM2)) as R12.
  pose proof (same_mem_minv _ _ SM2 MI1) as MI2.
  assert (Hc2 : code_in m2 lp bc) by (apply code_in_ip; exact Hc1).
  assert (G2 : genv_rel6 mu1 rho1 m2) by (eapply genv_rel6_ext; [apply rext_wext; exact R12|apply prefix6_refl|reflexivity|exact G1]).
  assert (SR2 : store_rel mu1 sg1 m2) by (eapply store_rel_rext; eassumption).
  assert (X2 : cext s0 m2) by (eapply cext_trans; [exact Xm|]; eapply cext_trans; [apply Fr1'|apply R12]).
  assert (Fr02 : frame6 m m2) by (eapply frame6_trans; eassumption).
  assert (L2 : lrel6 mu1 lv m2) by (eapply lrel6_frame6; eassumption).
  assert (Ht2 : tail = true -> tframe m2) by (intros E; eapply tframe_frame6; [exact Fr02|auto]).
  assert (St02 : steps (n1 + 1) m = Some m2) by (eapply steps_trans; [exact St1|apply steps_one; exact E2]).
  assert (Htail : forall r' sg' rho', tail = true /\ ok_t6 ob mu1 sg' m2 r' rho' -> tail = true /\ ok_t6 ob mu sg' m r' rho').
  { intros r' sg' rho' [Et Ok]. split; [exact Et|]. destruct (Ht Et) as (k & e & i & b & _ & Hsp).
    eapply ok_t6_pre; eassumption. }
  destruct else_branch.
  - assert (Hv : vfalse w = true) by (apply vfalse_iff, Hwf; exact Hrc).
    assert (Hip2 : ip m2 = (lp, X)) by (unfold m2; rewrite Hv; reflexivity).
    replace (p + len cc + 2 + len ca + 2) with X in Hsb by lia.
    destruct (EXb m2 mu1 lp bc X2 MI2 Hc2 Hsb Hip2 G2 L2 SR2 Ht2)
      as [(n3 & m3 & mu3 & St3 & Pf3 & Fr3 & MI3 & Hip3 & V3 & G3 & SR3)|Hr];
      [left|right; apply Htail; exact Hr].
    exists (n1 + 1 + n3)%nat, m3, mu3.
    split; [eapply steps_trans; eassumption|]. split; [eapply prefix6_trans; eassumption|].
    split; [eapply frame6_trans; eassumption|]. split; [exact MI3|].
    split; [rewrite Hip3; f_equal; lens; lia|]. split; [assumption|]. split; assumption.
  - assert (Hv : vfalse w = false).
    { destruct (vfalse w) eqn:Ev; [|reflexivity]. apply vfalse_iff, Hwf in Ev. congruence. }
    assert (Hip2 : ip m2 = (lp, p + len cc + 2)) by (unfold m2; rewrite Hv; reflexivity).
    destruct (EXb m2 mu1 lp bc X2 MI2 Hc2 Hsa Hip2 G2 L2 SR2 Ht2)
      as [(n3 & m3 & mu3 & St3 & Pf3 & Fr3 & MI3 & Hip3 & V3 & G3 & SR3)|Hr];
      [left|right; apply Htail; exact Hr].
    pose proof (code_in_ext _ _ _ _ Hc2 (fr_ext _ _ (f6_frame _ _ Fr3))) as Hc3.
    pose proof (step_jmp ob m3 lp _ bc Y Hc3 Hip3 Hsm) as E4.
    set (m4 := with_ip m3 (lp, Y)) in *.
    assert (SM4 : same_mem m3 m4) by (repeat split).
    pose proof (frame2_rext _ _ (same_mem_frame2 _ _ SM4)) as R34.
    exists (n1 + 1 + n3 + 1)%nat, m4, mu3.
    split; [eapply steps_trans; [eapply steps_trans; [exact St02|exact St3]|apply steps_one; exact E4]|].
    split; [eapply prefix6_trans; eassumption|].
    split; [eapply frame6_trans; [eapply frame6_trans; eassumption|apply same_mem_frame6; exact SM4]|].
    split; [eapply same_mem_minv; eassumption|].
    split; [cbn [ip m4 with_ip]; f_equal; lens; lia|].
    split; [eapply vrep6_ext; [apply rext_wext; exact R34|apply prefix6_refl|exact V3]|].
    split; [eapply genv_rel6_ext; [apply rext_wext; exact R34|apply prefix6_refl|reflexivity|exact G3]|].
    eapply store_rel_rext; eassumption.
Qed.

(* ------------------------------------------------------------ operands *)
(* the operand loop, for ONE reference derivation of the operands *)
Definition exec_args6 (s0 : vm) (p : N) (code : list vcell) (nargs : N) (lv : list nat) (sg : store6)
                      (rho : env6) (rs : list rval6) (sg' : store6) (rho' : env6) : Prop :=
  forall m mu lp bc,
    cext s0 m -> minv m -> code_in m lp bc -> seg bc p code -> ip m = (lp, p) -> genv_rel6 mu rho m ->
    lrel6 mu lv m -> store_rel mu sg m ->
    exists n m' mu' vs, steps n m = Some m' /\ prefix6 mu mu' /\ minv m' /\ ip m' = (lp, p + len code) /\
      genv_rel6 mu' rho' m' /\ store_rel mu' sg' m' /\
      wext m m' /\ sp m' = sp m + nargs /\ bp m' = bp m /\ ep m' = ep m /\ out_log m' = out_log m /\
      (forall j, j <= sp m -> sget m' j = sget m j) /\
      len vs = nargs /\
      (forall i v, list_get vs i = Some v -> sget m' (sp m + 1 + i) = v) /\
      Forall2 (fun v r => vrep6 mu' m' v r) vs rs.

Lemma exec_args6_nil s0 p lv sg rho : exec_args6 s0 p [] 0 lv sg rho [] sg rho.
Proof.
  intros m mu lp bc X MIm Hc Hs Hip G L SR.
  exists 0%nat, m, mu, []. split; [reflexivity|]. split; [apply prefix6_refl|]. split; [exact MIm|].
  split; [rewrite Hip; f_equal; cbn; lia|]. split; [exact G|]. split; [exact SR|]. split; [apply wext_refl|].
  split; [lia|]. do 3 (split; [reflexivity|]). split; [auto|]. split; [reflexivity|].
  split; [intros i v Hi; unfold list_get in Hi; destruct (N.to_nat i); discriminate|constructor].
Qed.

Lemma exec_args6_cons s0 p cx cr n lv sg rho r sg1 rho1 rs sg2 rho2 :
  exec6 ob s0 p cx false lv sg rho r sg1 rho1 ->
  exec_args6 s0 (p + len cx + 1) cr n lv sg1 rho1 rs sg2 rho2 ->
  exec_args6 s0 p (cx ++ [VOp OPushAcc] ++ cr) (n + 1) lv sg rho (r :: rs) sg2 rho2.
Proof.
  intros EX1 EX2 m mu lp bc X MIm Hc Hs Hip G L SR.
  apply seg_app in Hs as [Hsx Hs]. apply seg_app in Hs as [Hsp Hsr]. rewrite len1 in Hsr.
  destruct (exec6_n ob _ _ _ _ _ _ _ _ _ EX1 m mu lp bc X MIm Hc Hsx Hip G L SR)
    as (n1 & m1 & mu1 & St1 & Pf1 & Fr1 & MIm1 & Hip1 & V1 & G1 & SR1).
  pose proof (f6_frame _ _ Fr1) as Fr1'.
  pose proof (code_in_ext _ _ _ _ Hc (fr_ext _ _ Fr1')) as Hc1.
  pose proof (step_pushacc ob m1 lp _ bc Hc1 Hip1 Hsp) as Ep.
  set (m2 := pushed (with_ip m1 (lp, p + len cx + 1)) (acc m1)) in *.
  assert (Xm12 : rext m1 m2) by (apply rext_same; try reflexivity; lia).
  pose proof (rext_wext _ _ Xm12) as Wm12.
  assert (MIm2 : minv m2).
  { destruct MIm1 as [HI GI SP]. constructor; [exact HI|exact GI|]. apply pushed_sp_lt. exact SP. }
  assert (Hc2 : code_in m2 lp bc) by (eapply code_in_regs; [| |exact Hc1]; reflexivity).
  assert (G2 : genv_rel6 mu1 rho1 m2) by (eapply genv_rel6_ext; [exact Wm12|apply prefix6_refl|reflexivity|exact G1]).
  assert (SR2 : store_rel mu1 sg1 m2) by (eapply store_rel_rext; eassumption).
  assert (Xs2m2 : cext s0 m2) by (eapply cext_trans; [exact X|]; eapply cext_trans; [apply Fr1'|apply Xm12]).
  assert (Hsp2 : sp m2 = sp m + 1) by (cbn [sp m2 pushed with_scap with_stack with_ip]; rewrite (fr_sp _ _ Fr1'); reflexivity).
  assert (L2 : lrel6 mu1 lv m2).
  { eapply lrel6_ext; [exact Wm12|apply prefix6_refl|reflexivity|]. eapply lrel6_frame6; eassumption. }
  destruct (EX2 m2 mu1 lp bc Xs2m2 MIm2 Hc2 Hsr eq_refl G2 L2 SR2)
    as (n3 & m3 & mu3 & vs & St3 & Pf3 & MIm3 & Hip3 & G3 & SR3 & Xm23 & Hsp3 & Hbp3 & Hep3 & Hlog3 & Hst3 & Hlen & Hvs & Vvs).
  exists (n1 + 1 + n3)%nat, m3, mu3, (acc m1 :: vs).
  split; [eapply steps_trans; [eapply steps_trans; [exact St1|apply steps_one; exact Ep]|exact St3]|].
  split; [eapply prefix6_trans; eassumption|].
  split; [exact MIm3|]. split; [rewrite Hip3; f_equal; lens; lia|]. split; [exact G3|]. split; [exact SR3|].
  split; [eapply wext_trans; [apply frame6_wext; exact Fr1|]; eapply wext_trans; eassumption|].
  split; [rewrite Hsp3, Hsp2; lia|].
  split; [rewrite Hbp3; cbn [bp m2 pushed with_scap with_stack with_ip]; apply Fr1'|].
  split; [rewrite Hep3; cbn [ep m2 pushed with_scap with_stack with_ip]; apply Fr1'|].
  split; [rewrite Hlog3; cbn [out_log m2 pushed with_scap with_stack with_ip]; apply Fr1'|].
  assert (Hkeep : forall j, j <= sp m -> sget m3 j = sget m j).
  { intros j Hj. rewrite Hst3 by lia. unfold m2. rewrite sget_pushed_other.
    - change (sget (with_ip m1 _) j) with (sget m1 j). apply Fr1'. exact Hj.
    - cbn [sp with_ip]. rewrite (fr_sp _ _ Fr1'). lia. }
  split; [exact Hkeep|]. split; [rewrite len_cons, Hlen; reflexivity|].
  split.
  + intros i v Hi. destruct (N.eq_dec i 0) as [->|Hne].
    * cbn in Hi. injection Hi as <-. rewrite N.add_0_r. rewrite Hst3 by lia. unfold m2.
      replace (sp m + 1) with (sp (with_ip m1 (lp, p + len cx + 1)) + 1)
        by (cbn [sp with_ip]; rewrite (fr_sp _ _ Fr1'); reflexivity).
      apply sget_pushed_top.
    * replace i with (i - 1 + 1) in Hi by lia. rewrite list_get_cons_S in Hi.
      apply Hvs in Hi. rewrite Hsp2 in Hi. rewrite <- Hi. f_equal. lia.
  + constructor; [|exact Vvs]. eapply vrep6_ext; [|exact Pf3|exact V1].
    eapply wext_trans; [exact Wm12|exact Xm23].
Qed.

Lemma exec_args6_ext s s' p code n lv sg rho rs sg' rho' : cext s' s ->
  exec_args6 s' p code n lv sg rho rs sg' rho' -> exec_args6 s p code n lv sg rho rs sg' rho'.
Proof. intros Xs EX m mu lp bc Xm. apply EX. eapply cext_trans; eassumption. Qed.

(* ------------------------------------------------------------ application of a builtin *)
Lemma vrep6_base_list mu m vs : forall rbs, Forall2 (fun v r => vrep6 mu m v r) vs (map R6Base rbs) ->
  Forall2 (fun v r => vrep v r (hp m) (st m)) vs rbs.
Proof.
  induction vs as [|v vs IH]; intros rbs H; destruct rbs as [|b rbs]; cbn [map] in H; inversion H; subst.
  - constructor.
  - constructor; [|apply IH; assumption].
    match goal with H0 : vrep6 mu m v (R6Base b) |- _ => cbn [vrep6] in H0; exact H0 end.
Qed.

Lemma exec6_app_builtin s0 p ca cf n (tail : bool) lv sg rho rbs sg1 rho1 b sg2 rho2 r :
  (forall b, builtin_ok ob bsem b) -> (forall b, builtin_envs ob bsem b) ->
  exec_args6 s0 p ca n lv sg rho (map R6Base rbs) sg1 rho1 ->
  exec6 ob s0 (p + len ca + 2) cf false lv sg1 rho1 (R6Base (RBuiltin b)) sg2 rho2 ->
  bsem b rbs = Some r ->
  exec6 ob s0 p (ca ++ [VOp OPushImmediate; VArgc n] ++ cf ++ [VOp (if tail then OTCallAcc else OCallAcc)])
        tail lv sg rho (R6Base r) sg2 rho2.
Proof.
  intros Hb He EX1 EX3 Hsem m mu lp bc X MIm Hc Hs Hip G L SR _. left.
  apply seg_app in Hs as [Hsa Hs]. apply seg_app in Hs as [Hsi Hs]. rewrite len2 in Hs.
  apply seg_app in Hs as [Hsf Hsc].
  (* operands *)
  destruct (EX1 m mu lp bc X MIm Hc Hsa Hip G L SR)
    as (n1 & m1 & mu1 & vs & St1 & Pf1 & MIm1 & Hip1 & G1 & SR1 & Xm1 & Hsp1 & Hbp1 & Hep1 & Hlog1 & Hst1 & Hlen & Hvs & Vvs).
  pose proof (code_in_ext _ _ _ _ Hc (wx_cext _ _ Xm1)) as Hc1.
  (* PUSH Argc n *)
  pose proof (step_pushimm ob m1 lp _ bc _ Hc1 Hip1 Hsi ltac:(discriminate)) as Ei.
  set (m2 := pushed (with_ip m1 (lp, p + len ca + 2)) (VArgc n)) in *.
  assert (Xm12 : rext m1 m2) by (apply rext_same; try reflexivity; lia).
  pose proof (rext_wext _ _ Xm12) as Wm12.
  assert (MIm2 : minv m2).
  { destruct MIm1 as [HI GI SP]. constructor; [exact HI|exact GI|]. apply pushed_sp_lt. exact SP. }
  assert (Hc2 : code_in m2 lp bc) by (eapply code_in_regs; [| |exact Hc1]; reflexivity).
  assert (G2 : genv_rel6 mu1 rho1 m2) by (eapply genv_rel6_ext; [exact Wm12|apply prefix6_refl|reflexivity|exact G1]).
  assert (SR2 : store_rel mu1 sg1 m2) by (eapply store_rel_rext; eassumption).
  assert (Xs2m2 : cext s0 m2) by (eapply cext_trans; [exact X|]; eapply cext_trans; [apply Xm1|apply Xm12]).
  assert (Hsp2 : sp m2 = sp m + n + 1) by (cbn [sp m2 pushed with_scap with_stack with_ip]; rewrite Hsp1; reflexivity).
  assert (L2' : lrel6 mu1 lv m2).
  { eapply lrel6_ext; [exact Wm12|apply prefix6_refl|reflexivity|]. eapply lrel6_ext; [exact Xm1|exact Pf1|exact Hep1|exact L]. }
  (* operator *)
  destruct (exec6_n ob _ _ _ _ _ _ _ _ _ EX3 m2 mu1 lp bc Xs2m2 MIm2 Hc2 Hsf eq_refl G2 L2' SR2)
    as (n3 & m3 & mu3 & St3 & Pf3 & Fr3 & MIm3 & Hip3 & V3 & G3 & SR3).
  pose proof (f6_frame _ _ Fr3) as Fr3'.
  pose proof (code_in_ext _ _ _ _ Hc2 (fr_ext _ _ Fr3')) as Hc3.
  cbn [vrep6 vrep] in V3. destruct V3 as (pb & Hacc3 & Ab & Cb).
  assert (Hd3 : heap_deref (hp m3) (acc m3) = Ok (VBuiltin b)).
  { rewrite Hacc3. cbn [heap_deref]. rewrite (heap_get_alloc _ _ Ab), Cb. reflexivity. }
  set (q := p + len ca + 2 + len cf) in *.
  set (m3' := with_ip m3 (lp, q + 1)).
  assert (SM3 : same_mem m3 m3') by (repeat split).
  pose proof (same_mem_minv _ _ SM3 MIm3) as MIm3'.
  assert (Hsp3 : sp m3' = sp m + len vs + 1) by (cbn [sp m3' with_ip]; rewrite (fr_sp _ _ Fr3'), Hsp2, Hlen; reflexivity).
  assert (Hm23 : forall j, j <= sp m2 -> sget m3' j = sget m2 j) by (intros j Hj; apply (fr_stack _ _ Fr3'); exact Hj).
  assert (Htop : sget m3' (sp m3') = VArgc (len vs)).
  { rewrite Hsp3, Hm23 by (rewrite Hsp2, Hlen; lia). rewrite Hlen, <- Hsp1. unfold m2.
    change (sp m1) with (sp (with_ip m1 (lp, p + len ca + 2))). apply sget_pushed_top. }
  assert (Hargs : forall i v, list_get vs i = Some v -> sget m3' (sp m + 1 + i) = v).
  { intros i v Hi. pose proof (list_get_lt _ _ _ Hi) as Hlt. rewrite Hm23 by (rewrite Hsp2, <- Hlen; lia).
    unfold m2. rewrite sget_pushed_other by (cbn [sp with_ip]; rewrite Hsp1, <- Hlen; lia).
    change (sget (with_ip m1 _) (sp m + 1 + i)) with (sget m1 (sp m + 1 + i)). apply Hvs. exact Hi. }
  assert (Vvs3 : Forall2 (fun v r => vrep v r (hp m3') (st m3')) vs rbs).
  { apply vrep6_base_list in Vvs.
    clear -Vvs Xm12 Fr3'. induction Vvs as [|v0 r0 vs0 rs0 V0 _ IHV]; constructor; [|exact IHV].
    eapply vrep_ext; [exact V0|]. apply (cext_ext m1 m3). eapply cext_trans; [apply Xm12|apply Fr3']. }
  destruct (Hb b m3' (sp m) vs rbs r MIm3' Hsp3 Htop Hargs Vvs3 Hsem)
    as (v & m4 & Hrun & MIm4 & Xm34 & V4 & Hsp4 & Hst4 & Hbp4 & Hep4 & Hip4 & Hg4 & Hlog4).
  pose proof (He b m3' v m4 rbs r Hsem Hrun) as Henv4.
  destruct (match v with VPtr _ => (v, hp m4) | _ => heap_maybe_put (hp m4) v end) as [v' h'] eqn:Ebox.
  destruct (vrep_box _ _ _ _ _ _ (mi_heap _ MIm4) V4 Ebox) as (HI5 & Hx5 & V5).
  pose proof (step_call_builtin ob m3 lp q bc tail b v m4 v' h' Hc3 Hip3 Hsc Hd3 Hrun Ebox) as Ec.
  set (m5 := with_acc (with_heap m4 h') v') in *.
  assert (Xm45 : cext m4 m5).
  { eapply cext_trans; [apply (cext_heap m4 h' Hx5)|]. apply cext_same; try reflexivity; cbn [g_slots with_acc with_heap]; lia. }
  assert (Xm35 : rext m3 m5).
  { split.
    - eapply cext_trans; [apply (fr_ext _ _ (same_mem_frame _ _ SM3))|]. eapply cext_trans; eassumption.
    - intros j _. change (st m5) with (st m4). rewrite Henv4. reflexivity. }
  pose proof (rext_wext _ _ Xm35) as Wm35.
  assert (Xm05 : wext m m5).
  { eapply wext_trans; [exact Xm1|]. eapply wext_trans; [exact Wm12|]. eapply wext_trans; [apply frame6_wext; exact Fr3|exact Wm35]. }
  exists (n1 + 1 + n3 + 1)%nat, m5, mu3.
  split; [eapply steps_trans; [eapply steps_trans; [eapply steps_trans; [exact St1|apply steps_one; exact Ei]|exact St3]|apply steps_one; exact Ec]|].
  split; [eapply prefix6_trans; eassumption|].
  split.
  { split; [|apply Xm05]. constructor.
    - apply Xm05.
    - exact Hsp4.
    - change (bp m5) with (bp m4). rewrite Hbp4. change (bp m3') with (bp m3). rewrite (fr_bp _ _ Fr3'). exact Hbp1.
    - change (ep m5) with (ep m4). rewrite Hep4. change (ep m3') with (ep m3). rewrite (fr_ep _ _ Fr3'). exact Hep1.
    - change (out_log m5) with (out_log m4). rewrite Hlog4. change (out_log m3') with (out_log m3).
      rewrite (fr_log _ _ Fr3'). exact Hlog1.
    - intros j Hj. change (sget m5 j) with (sget m4 j). rewrite Hst4 by exact Hj.
      rewrite Hm23 by (rewrite Hsp2; lia). unfold m2.
      rewrite sget_pushed_other by (cbn [sp with_ip]; rewrite Hsp1; lia).
      change (sget (with_ip m1 _) j) with (sget m1 j). apply Hst1. exact Hj. }
  split.
  { destruct MIm4 as [HI4 GI4 SP4]. constructor; [exact HI5|exact GI4|exact SP4]. }
  split.
  { change (ip m5) with (ip m4). rewrite Hip4. cbn [ip m3' with_ip]. f_equal. unfold q. lens. lia. }
  split; [cbn [vrep6]; exact V5|].
  split; [|eapply store_rel_rext; eassumption].
  eapply genv_rel6_ext; [exact Wm35|apply prefix6_refl| |exact G3]. change (g_slots m5) with (g_slots m4). rewrite Hg4. reflexivity.
Qed.

End Exec6Lemmas.
