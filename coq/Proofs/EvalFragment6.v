(* EvalFragment6.v — C01: fragment 6 = fragment 4 (closures as values, lambda bodies of several
   expressions) + set! ON LOCAL VARIABLES, against the reference semantics with a store of
   locations (Closures6.v); run-time part, a port of EvalFragment4.v.
   exec6_lam (a lambda expression evaluates to a closure whose captured slots are the pointers the
   location map gives to the captured locations), store_rel_enter6 (ENTER of a closure allocates
   the locations of the parameters), callee_run6, exec6_app_closure, compile_correct6 (by
   induction on the reference derivation), eval_fragment6 (Vm::eval), examples (the counter). *)
From Coq Require Import String Lia FMapPositive.
From MW Require Import Model.Base Model.F64 Model.Num Model.Datum Model.Lex Model.Parse Model.TransformDef Model.Transform
  Model.VmTypes Model.Heap Model.Gc Model.VmBase Model.Compile Model.Vm
  Proofs.VmProofs0 Proofs.GcProofs Proofs.SymtabProofs Proofs.QuoteHeapProofs
  Proofs.CompileProofs Proofs.RunProofs Proofs.CompileCorrect Proofs.TailProofs Proofs.FrameSteps
  Proofs.CellFuelProofs Proofs.CompileCorrect2 Proofs.FrameSteps3 Proofs.FrameSteps5 Proofs.StoreLocal5
  Proofs.FragmentCorollaries Proofs.Closures6 Proofs.CompileCorrect6 Proofs.CompileStatic6.
From MW Require Proofs.ScopeProofs.
From MW Require Model.Builtins.
Open Scope N_scope.

Arguments N.add : simpl never.
Arguments N.sub : simpl never.
Arguments N.mul : simpl never.
Arguments N.eqb : simpl never.
Arguments N.ltb : simpl never.
Arguments N.leb : simpl never.

Lemma Forall2_nth_l6 {A B} (P : A -> B -> Prop) la lb : Forall2 P la lb ->
  forall i a, nth_error la i = Some a -> exists b, nth_error lb i = Some b /\ P a b.
Proof.
  induction 1 as [|a0 b0 la lb H0 _ IH]; intros i a Hi; [destruct i; discriminate|].
  destruct i as [|i]; cbn [nth_error] in *; [injection Hi as <-; eauto|apply IH; exact Hi].
Qed.
Lemma Forall2_nth_r6 {A B} (P : A -> B -> Prop) la lb : Forall2 P la lb ->
  forall i b, nth_error lb i = Some b -> exists a, nth_error la i = Some a /\ P a b.
Proof.
  induction 1 as [|a0 b0 la lb H0 _ IH]; intros i b Hi; [destruct i; discriminate|].
  destruct i as [|i]; cbn [nth_error] in *; [injection Hi as <-; eauto|apply IH; exact Hi].
Qed.
Lemma Forall2_length6 {A B} (P : A -> B -> Prop) la lb : Forall2 P la lb -> length la = length lb.
Proof. intros H. induction H; cbn [length]; congruence. Qed.
Lemma nth_error_lt6 {A} (l : list A) i x : nth_error l i = Some x -> (i < length l)%nat.
Proof. intros H. apply nth_error_Some. congruence. Qed.
Lemma list_get_nth6 {A} (l : list A) i : list_get l i = nth_error l (N.to_nat i).
Proof. reflexivity. Qed.
Lemma len_repeat6 {A} (x : A) n : len (repeat x n) = N.of_nat n.
Proof. unfold len. rewrite repeat_length. reflexivity. Qed.
Lemma len_map6 {A B} (f : A -> B) l : len (map f l) = len l.
Proof. unfold len. rewrite map_length. reflexivity. Qed.

(* ------------------------------------------------------------ the locations ENTER allocates *)
(* the k parameter slots of the activation environment at heap address evp *)
Definition newlocs6 (evp : N) (k : nat) : lmap := map (fun j => (evp, N.of_nat j)) (seq 0 k).
Lemma newlocs_length6 evp k : length (newlocs6 evp k) = k.
Proof. unfold newlocs6. rewrite map_length, seq_length. reflexivity. Qed.
Lemma newlocs_nth6 evp k i : (i < k)%nat -> nth_error (newlocs6 evp k) i = Some (evp, N.of_nat i).
Proof.
  intros H. unfold newlocs6. apply (map_nth_error (fun j => (evp, N.of_nat j)) i).
  rewrite nth_error_nth' with (d := 0%nat) by (rewrite seq_length; exact H). rewrite seq_nth by exact H. reflexivity.
Qed.
Lemma mu_nth6 mu evp k l a j : nth_error (mu ++ newlocs6 evp k) l = Some (a, j) ->
  ((l < length mu)%nat /\ nth_error mu l = Some (a, j)) \/
  ((length mu <= l)%nat /\ (l - length mu < k)%nat /\ a = evp /\ j = N.of_nat (l - length mu)).
Proof.
  intros H. destruct (Nat.lt_ge_cases l (length mu)) as [Hlt|Hge].
  - left. rewrite nth_error_app1 in H by exact Hlt. auto.
  - right. rewrite nth_error_app2 in H by exact Hge.
    assert (Hk : (l - length mu < k)%nat) by (rewrite <- (newlocs_length6 evp k); eapply nth_error_lt6; exact H).
    rewrite newlocs_nth6 in H by exact Hk. injection H as <- <-. auto.
Qed.

(* ENTER: a new environment (fresh id) at evp whose first slots hold the argument values: the
   store relation extended by the locations of the parameters *)
Lemma store_rel_enter6 mu sg m m' evp env vs rs :
  store_rel mu sg m -> rext m m' ->
  allocated (hp m') evp -> cell_at (hp m') evp = VLexEnv (next_id (st m)) ->
  tget (envs (st m')) (next_id (st m)) = Some env -> next_id (st m) < next_id (st m') ->
  Forall2 (fun v r => vrep6 mu m v r) vs rs ->
  (forall i v, nth_error vs i = Some v -> list_get env (N.of_nat i) = Some v) ->
  store_rel (mu ++ newlocs6 evp (length rs)) (sg ++ rs) m'.
Proof.
  intros SR R Aev Cev Tev Ltev Vvs Hvs. pose proof SR as (Hlen & Hc & Hi).
  pose proof (store_rel_rext _ _ _ _ R SR) as (_ & Hc' & _).
  pose proof (rx_cext _ _ R) as X. pose proof (rext_wext _ _ R) as W.
  pose proof (prefix6_app mu (newlocs6 evp (length rs))) as Pf.
  assert (Hold : forall l a j, (l < length mu)%nat -> nth_error mu l = Some (a, j) ->
            exists eid, cell_at (hp m') a = VLexEnv eid /\ cell_at (hp m) a = VLexEnv eid /\ eid < next_id (st m)).
  { intros l a j _ Hm. destruct (store_rel_loc _ _ _ _ _ _ SR Hm) as (_ & eid & _ & _ & _ & A & C & Lt & _).
    destruct (ce_heap _ _ X a A) as [_ C']. exists eid. split; [congruence|]. split; [exact C|exact Lt]. }
  split; [rewrite !app_length, newlocs_length6, Hlen; reflexivity|]. split.
  - intros l a j r Hm Hs. destruct (mu_nth6 _ _ _ _ _ _ Hm) as [(Hlt & Hm0)|(Hge & Hk & -> & ->)].
    + rewrite nth_error_app1 in Hs by lia.
      destruct (Hc' l a j r Hm0 Hs) as (eid & sl & w & A & C & Lt & T & G & Hw & V).
      exists eid, sl, w. do 6 (split; [assumption|]). eapply vrep6_ext; [apply wext_refl|exact Pf|exact V].
    + rewrite nth_error_app2 in Hs by lia. rewrite <- Hlen in Hs.
      destruct (Forall2_nth_r6 _ _ _ Vvs _ _ Hs) as (v & Hv & V).
      exists (next_id (st m)), env, v. split; [exact Aev|]. split; [exact Cev|]. split; [exact Ltev|].
      split; [exact Tev|]. split; [apply Hvs; exact Hv|]. split; [eapply vrep6_not_lexptr; exact V|].
      eapply vrep6_ext; [exact W|exact Pf|exact V].
  - intros l1 l2 a1 a2 j eid H1 H2 C1 C2.
    destruct (mu_nth6 _ _ _ _ _ _ H1) as [(Hlt1 & Hm1)|(Hge1 & Hk1 & -> & ->)];
      destruct (mu_nth6 _ _ _ _ _ _ H2) as [(Hlt2 & Hm2)|(Hge2 & Hk2 & -> & Ej)].
    + destruct (Hold l1 a1 j Hlt1 Hm1) as (e1 & D1 & D1' & _). destruct (Hold l2 a2 j Hlt2 Hm2) as (e2 & D2 & D2' & _).
      apply (Hi l1 l2 a1 a2 j eid Hm1 Hm2); congruence.
    + destruct (Hold l1 a1 j Hlt1 Hm1) as (e1 & D1 & _ & Lt1). exfalso.
      assert (e1 = next_id (st m)) by congruence. lia.
    + destruct (Hold l2 a2 _ Hlt2 Hm2) as (e2 & D2 & _ & Lt2). exfalso.
      assert (e2 = next_id (st m)) by congruence. lia.
    + lia.
Qed.

Section Run6.
Variable ob : N -> M vcell.
Variable bsem : N -> list rval -> option rval.
Notation run_one := (Vm.run_one ob).
Notation steps := (RunProofs.steps ob).

(* ------------------------------------------------------------ (lambda ...) evaluates to a closure *)
Lemma exec6_lam s0 p lamp lamF caps sc ps cs bodies tail lv sg rho clocs :
  lam_in s0 lamp lamF -> l_envmap lamF = ScopeProofs.enum_args (l_args lamF) 0 ++ caps ->
  Forall2 (pname s0) (l_args lamF) ps ->
  Forall2 (fun e x => pname s0 (fst e) x /\ exists k, snd e = BIofEnvironment k /\ pindex x sc = Some k) caps cs ->
  closure_code6 s0 lamp ps cs bodies ->
  Forall2 (fun x l => exists i, pindex x sc = Some i /\ nth_error lv (N.to_nat i) = Some l) cs clocs ->
  exec6 ob s0 p [VOp OMovImmediate; VPtr lamp; VAcc; VOp OClosureAcc] tail lv sg rho (R6Clo ps cs bodies clocs) sg rho.
Proof.
  intros Hlam Hem Fa Fc CC Fv m mu lp bc X MI Hc Hs Hip G L SR _. left.
  change [VOp OMovImmediate; VPtr lamp; VAcc; VOp OClosureAcc]
    with ([VOp OMovImmediate; VPtr lamp; VAcc] ++ [VOp OClosureAcc]) in Hs.
  apply seg_app in Hs as [Hsm Hscl]. rewrite len3 in Hscl.
  pose proof (step_movimm ob m lp p bc (VPtr lamp) Hc Hip Hsm ltac:(discriminate)) as Em.
  set (m3 := with_acc (with_ip m (lp, p + 3)) (VPtr lamp)) in *.
  assert (SM3 : same_mem m m3) by (repeat split).
  pose proof (same_mem_minv _ _ SM3 MI) as MI3.
  assert (Hc3 : code_in m3 lp bc) by (eapply code_in_regs; [| |exact Hc]; reflexivity).
  destruct (lam_in_ext _ _ _ _ X Hlam) as (lid & Al & Cl & Ltl & Tl).
  (* the current environment, needed when something is captured *)
  assert (Henv : exists eid slots,
            (caps = [] \/ (heap_get (hp m3) (ep m3) = Ok (VLexEnv eid) /\ tget (envs (st m3)) eid = Some slots /\
                           caps_ok caps (len slots))) /\
            forall k e x l, nth_error caps k = Some e -> nth_error cs k = Some x -> nth_error clocs k = Some l ->
              exists kk v a j, snd e = BIofEnvironment kk /\ list_get slots kk = Some v /\
                nth_error mu l = Some (a, j) /\ ((nonptr v /\ a = ep m /\ j = kk) \/ v = VLexPtr a j)).
  { destruct caps as [|e0 caps'].
    - exists 0, []. split; [left; reflexivity|]. intros k e x l Hk. destruct k; discriminate.
    - inversion Fc as [|e0' x0 caps'' cs' (_ & k0 & Hs0 & Hp0) Fc' E1 E2]; subst.
      inversion Fv as [|x0' l0 cs'' clocs' (i0 & Hi0 & Hn0) Fv' E1 E2]; subst.
      destruct (L i0 l0 Hn0) as (eid & slots & w0 & a0 & j0 & A & C & Lt & T & G0 & Hm0 & H0).
      assert (Hg : heap_get (hp m) (ep m) = Ok (VLexEnv eid)) by (rewrite (heap_get_alloc _ _ A), C; reflexivity).
      exists eid, slots.
      assert (Hall : forall k e x l, nth_error (e0 :: caps') k = Some e -> nth_error (x0 :: cs') k = Some x ->
                 nth_error (l0 :: clocs') k = Some l ->
                 exists kk v a j, snd e = BIofEnvironment kk /\ list_get slots kk = Some v /\
                   nth_error mu l = Some (a, j) /\ ((nonptr v /\ a = ep m /\ j = kk) \/ v = VLexPtr a j)).
      { intros k e x l Hk Hx Hl.
        destruct (Forall2_nth_l6 _ _ _ Fc _ _ Hk) as (x' & Hx' & _ & kk & Hsk & Hpk).
        assert (x' = x) as -> by congruence.
        destruct (Forall2_nth_l6 _ _ _ Fv _ _ Hx) as (l' & Hl' & ii & Hii & Hnn).
        assert (l' = l) as -> by congruence. assert (ii = kk) as -> by congruence.
        destruct (L kk l Hnn) as (eid' & slots' & w & a & j & A' & C' & Lt' & T' & G' & Hm' & H').
        assert (eid' = eid) as -> by congruence. assert (slots' = slots) as -> by congruence.
        exists kk, w, a, j. auto. }
      split; [|exact Hall]. right. split; [exact Hg|]. split; [exact T|].
      unfold caps_ok. rewrite Forall_forall. intros e He.
      destruct (In_nth_error _ _ He) as (k & Hk).
      destruct (Forall2_nth_l6 _ _ _ Fc _ _ Hk) as (x & Hx & _).
      destruct (Forall2_nth_l6 _ _ _ Fv _ _ Hx) as (l & Hl & _).
      destruct (Hall k e x l Hk Hx Hl) as (kk & v & _ & _ & Hs & Gk & _).
      exists kk. split; [exact Hs|]. eapply list_get_lt. exact Gk. }
  destruct Henv as (eid & slots & Henv & Hall).
  destruct (step_closure3 ob m3 lp (p + 3) bc lamp lid lamF (l_args lamF) caps eid slots Hc3 eq_refl Hscl MI3 eq_refl
              ltac:(change (hp m3) with (hp m); rewrite (heap_get_alloc _ _ Al), Cl; reflexivity) Tl Hem Henv)
    as (m4 & cp & cep & ceid & E4 & MI4 & X34 & Hsp4 & Hbp4 & Hep4 & Hcap4 & Hstk4 & Hlog4 & Hg4 & Hip4 & Hacc4 &
        Acp & Ccp & Acep & Ccep & Ltc & Tc).
  assert (F34 : frame2 m3 m4).
  { split; [|apply X34]. constructor; auto. apply X34. intros j _. unfold sget. rewrite Hstk4. reflexivity. }
  assert (F04 : frame2 m m4) by (eapply frame2_trans; [apply same_mem_frame2; exact SM3|exact F34]).
  pose proof (frame2_rext _ _ F04) as R04. pose proof (rext_wext _ _ R04) as W04.
  exists 2%nat, m4, mu. split; [eapply (steps_trans ob 1 1); apply steps_one; eassumption|].
  split; [apply prefix6_refl|].
  split; [apply frame2_frame6; exact F04|]. split; [exact MI4|].
  split; [rewrite Hip4; f_equal; change (len [VOp OMovImmediate; VPtr lamp; VAcc; VOp OClosureAcc]) with 4; lia|].
  split; [|split; [eapply genv_rel6_ext; [exact W04|apply prefix6_refl|rewrite Hg4; reflexivity|exact G]|
                   eapply store_rel_rext; eassumption]].
  rewrite Hacc4. cbn [vrep6].
  exists cp, lamp, cep, ceid, (repeat VUndef (length (l_args lamF)) ++ map (cap_val (ep m3) slots) caps).
  pose proof (Forall2_length6 _ _ _ Fa) as La. pose proof (Forall2_length6 _ _ _ Fc) as Lc.
  pose proof (Forall2_length6 _ _ _ Fv) as Lv.
  split; [reflexivity|]. split; [exact Acp|]. split; [exact Ccp|]. split; [exact Acep|]. split; [exact Ccep|].
  split; [exact Ltc|]. split; [exact Tc|].
  split; [rewrite len_app, len_repeat6, len_map6; unfold len; lia|]. split; [lia|].
  split; [eapply closure_code_ext6; [|exact CC]; eapply cext_trans; [exact X|apply R04]|].
  rewrite all_idx_nth6. intros k l Hk.
  assert (Hkc : exists x, nth_error cs k = Some x).
  { destruct (nth_error cs k) eqn:E; [eauto|]. apply nth_error_None in E. apply nth_error_lt6 in Hk. lia. }
  destruct Hkc as (x & Hx).
  assert (Hke : exists e, nth_error caps k = Some e).
  { destruct (nth_error caps k) eqn:E; [eauto|]. apply nth_error_None in E. apply nth_error_lt6 in Hx. lia. }
  destruct Hke as (e & He).
  destruct (Hall k e x l He Hx Hk) as (kk & v & a & j & Hs & Gk & Hm & Hh).
  exists a, j. split; [exact Hm|].
  replace (len ps + N.of_nat k) with (len (repeat VUndef (length (l_args lamF))) + N.of_nat k)
    by (rewrite len_repeat6; unfold len; lia).
  rewrite list_get_app_r, list_get_nth6, Nat2N.id. rewrite (map_nth_error _ _ _ He). f_equal.
  unfold cap_val. rewrite Hs, Gk. change (ep m3) with (ep m).
  destruct Hh as [(Hn & -> & ->)| ->]; [|reflexivity].
  destruct v; try reflexivity. exfalso. eapply Hn. reflexivity.
Qed.

(* ------------------------------------------------------------ running a closure *)
(* what the induction on the reference derivation provides for the body of a closure *)
Definition body_ok6 (sc : list text) (lv : list nat) (sg : store6) (rho : env6) (body : expr6) (r : rval6)
                    (sg' : store6) (rho' : env6) : Prop :=
  forall f l tail s l' s' code, wf6 body sc -> (cell_size (cell_of6 body) < f)%nat -> hdr6 l sc s -> minv s ->
    compile_expression f l tail (cell_of6 body) s = ROk l' s' -> fwd l' = fwd l ++ code ->
    exec6 ob s' (len (fwd l)) code tail lv sg rho r sg' rho'.

(* ... and for the SEQUENCE of body expressions of a closure, as the body loop compiles it (the
   last expression in tail position) *)
Definition seq_ok6 (sc : list text) (lv : list nat) (sg : store6) (rho : env6) (bodies : list expr6) (r : rval6)
                   (sg' : store6) (rho' : env6) : Prop :=
  forall f l s l' s' code, Forall (fun b => wf6 b sc) bodies -> (cell_size (cells_of6 bodies) < f)%nat ->
    hdr6 l sc s -> minv s ->
    compile_bodies6 f l (map cell_of6 bodies) s = ROk l' s' -> fwd l' = fwd l ++ code ->
    exec6 ob s' (len (fwd l)) code true lv sg rho r sg' rho'.

(* code for effect (non-tail), followed by tail code *)
Lemma exec6_seq s0 p cx cr lv sg rho r1 sg1 rho1 r sg2 rho2 :
  exec6 ob s0 p cx false lv sg rho r1 sg1 rho1 -> exec6 ob s0 (p + len cx) cr true lv sg1 rho1 r sg2 rho2 ->
  exec6 ob s0 p (cx ++ cr) true lv sg rho r sg2 rho2.
Proof.
  intros EX1 EX2 m mu lp bc X MI Hc Hs Hip G L SR Ht.
  apply seg_app in Hs as [Hs1 Hs2].
  destruct (exec6_n ob _ _ _ _ _ _ _ _ _ EX1 m mu lp bc X MI Hc Hs1 Hip G L SR)
    as (n1 & m1 & mu1 & St1 & Pf1 & Fr1 & MI1 & Hip1 & V1 & G1 & SR1).
  pose proof (f6_frame _ _ Fr1) as Fr1'.
  pose proof (code_in_ext _ _ _ _ Hc (fr_ext _ _ Fr1')) as Hc1.
  assert (X1 : cext s0 m1) by (eapply cext_trans; [exact X|apply Fr1']).
  assert (L1 : lrel6 mu1 lv m1) by (eapply lrel6_frame6; eassumption).
  assert (Ht1 : true = true -> tframe m1) by (intros E; eapply tframe_frame6; [exact Fr1|auto]).
  destruct (EX2 m1 mu1 lp bc X1 MI1 Hc1 Hs2 Hip1 G1 L1 SR1 Ht1)
    as [(n2 & m2 & mu2 & St2 & Pf2 & Fr2 & MI2 & Hip2 & V2 & G2 & SR2)|[_ Hr]].
  - left. exists (n1 + n2)%nat, m2, mu2. split; [eapply steps_trans; eassumption|].
    split; [eapply prefix6_trans; eassumption|].
    split; [eapply frame6_trans; eassumption|]. split; [exact MI2|].
    split; [rewrite Hip2; f_equal; lens; lia|]. split; [assumption|]. split; assumption.
  - right. split; [reflexivity|]. destruct (Ht eq_refl) as (k & e & i & b & _ & Hsp).
    eapply ok_t6_pre; eassumption.
Qed.

Lemma Forall2_vrep6_ext mu mu' m m' vs rs : wext m m' -> prefix6 mu mu' -> Forall2 (fun v r => vrep6 mu m v r) vs rs ->
  Forall2 (fun v r => vrep6 mu' m' v r) vs rs.
Proof. intros R Pf H. induction H; constructor; [eapply vrep6_ext; eassumption|assumption]. Qed.

(* from the first instruction (ENTER) of a closure entered with n arguments above the base B and
   the return information (e, l0, i0) to the state after its RET — or after the RET of a frame
   that a tail call of the body put in its place.  ENTER allocates the locations of the
   parameters: the location map grows by [newlocs6], the store by the argument values. *)
Lemma callee_run6 mu sg ps cs bodies clocs n B e l0 i0 vs rs rho1 r sg2 rho2 m5 lamp :
  seq_ok6 (ps ++ cs) (seq (length sg) (length rs) ++ clocs) (sg ++ rs) rho1 bodies r sg2 rho2 ->
  minv m5 -> vrep6 mu m5 (acc m5) (R6Clo ps cs bodies clocs) ->
  (exists cp cep, acc m5 = VPtr cp /\ heap_get (hp m5) cp = Ok (VClosure lamp cep)) -> ip m5 = (lamp, 0) ->
  length rs = length ps -> n = len ps ->
  sp m5 = B + n + 3 -> sget m5 (B + n + 1) = VArgc n -> sget m5 (B + n + 2) = VEp e ->
  sget m5 (B + n + 3) = VIp l0 i0 ->
  len vs = n -> (forall i v, list_get vs i = Some v -> sget m5 (B + 1 + i) = v) ->
  Forall2 (fun v r => vrep6 mu m5 v r) vs rs ->
  genv_rel6 mu rho1 m5 -> store_rel mu sg m5 ->
  exists k m8 mu8, steps k m5 = Some m8 /\ prefix6 mu mu8 /\ wext m5 m8 /\ minv m8 /\ vrep6 mu8 m8 (acc m8) r /\
    genv_rel6 mu8 rho2 m8 /\ store_rel mu8 sg2 m8 /\ sp m8 = B /\ ep m8 = e /\ ip m8 = (l0, i0) /\ bp m8 = bp m5 /\
    out_log m8 = out_log m5 /\ (forall j, j <= B -> sget m8 j = sget m5 j).
Proof.
  intros IHb MI5 Vc (cp0 & cep0 & Hacc0 & Hcp0) Hip Hlrs Hn Hsp H1 H2 H3 Hvl Hvs Vvs G5 SR5.
  cbn [vrep6] in Vc.
  destruct Vc as (cp & lamp' & cep & ceid & cslots & Hacc & Acp & Ccp & Acep & Ccep & Ltc & Tc & Lcs & Lcv & CC & All).
  assert (cp0 = cp) as -> by congruence.
  assert (Hcp : heap_get (hp m5) cp = Ok (VClosure lamp' cep)) by (rewrite (heap_get_alloc _ _ Acp), Ccp; reflexivity).
  assert (lamp' = lamp /\ cep0 = cep) as [-> ->] by (split; congruence).
  assert (Hcep : heap_get (hp m5) cep = Ok (VLexEnv ceid)) by (rewrite (heap_get_alloc _ _ Acep), Ccep; reflexivity).
  destruct CC as (lam & caps & cb & f & lam2 & s0 & lam3 & s0' & Hlam & Hem & Fa & Hce & Lcaps & Hbc & Hne & Hf & Wb & Hh2 & MI0 & Ecomp & F2 & F3 & XB).
  pose proof (IHb f lam2 s0 lam3 s0' cb Wb Hf Hh2 MI0 Ecomp F3) as EXb.
  rewrite F2 in EXb. change (len [VOp OEnter]) with 1 in EXb.
  pose proof (lam_in_code _ _ _ Hlam) as Hc5. rewrite Hbc in Hc5.
  destruct Hlam as (lid & Al & Cl & Ltl & Tl).
  assert (Hgl : heap_get (hp m5) lamp = Ok (VLambda lid)) by (rewrite (heap_get_alloc _ _ Al), Cl; reflexivity).
  assert (Hlen : len (l_args lam) = n) by (rewrite Hn; unfold len; rewrite (Forall2_length6 _ _ _ Fa); reflexivity).
  assert (Lcaps' : len caps = len cs) by (unfold len; rewrite Lcaps; reflexivity).
  rewrite all_idx_nth6 in All.
  assert (Hptr : forall j, n <= j -> j < n + len caps -> exists a k, list_get cslots j = Some (VLexPtr a k)).
  { intros j Hj1 Hj2.
    assert (Hk : exists l, nth_error clocs (N.to_nat (j - n)) = Some l).
    { destruct (nth_error clocs (N.to_nat (j - n))) eqn:E; [eauto|]. apply nth_error_None in E. unfold len in *. lia. }
    destruct Hk as (l & Hk). destruct (All _ _ Hk) as (a & k & _ & Gv).
    exists a, k. rewrite <- Gv. f_equal. lia. }
  destruct (step_enter_closure3 ob m5 lamp _ cp cep lid lam (l_args lam) caps ceid cslots n Hc5 Hip eq_refl MI5 Hacc Hcp Hgl Tl
              eq_refl Hem Hlen Hce Hcep Tc ltac:(rewrite Lcs, Lcaps', <- Hn; reflexivity) Hptr ltac:(lia)
              ltac:(rewrite Hsp; replace (B + n + 3 - 2) with (B + n + 1) by lia; exact H1))
    as (m6 & evp & env & E6 & MI6 & X56 & Hsp6 & Hbp6 & Hep6 & Hip6 & Hacc6 & Hlog6 & Hg6 & Htop6 & Hst6 &
        Aev & Cev & Tev & Ltev & Lenv & Henvj & Henvc).
  pose proof (rext_wext _ _ X56) as W56.
  assert (Hbp6' : bp m6 = B + n) by (rewrite Hbp6, Hsp; lia).
  assert (Hk6 : forall j, j <= B + n + 3 -> sget m6 j = sget m5 j) by (intros j Hj; apply Hst6; lia).
  assert (Hfr6 : frame_at m6 n e (l0, i0) (bp m5)).
  { unfold frame_at. rewrite Hbp6'. rewrite !Hk6 by lia.
    replace (B + n + 4) with (sp m5 + 1) by lia. rewrite Htop6. cbn [fst snd]. repeat split; auto. lia. }
  assert (Ht6 : tframe m6) by (exists n, e, (l0, i0), (bp m5); split; [exact Hfr6|lia]).
  assert (Hnl : N.of_nat (length rs) = n) by (rewrite Hn, Hlrs; reflexivity).
  pose proof (Forall2_length6 _ _ _ Vvs) as Lvs.
  (* the new locations *)
  set (mu6 := mu ++ newlocs6 evp (length rs)).
  pose proof (prefix6_app mu (newlocs6 evp (length rs))) as Pf6. fold mu6 in Pf6.
  pose proof SR5 as (Hlmu & _ & _).
  assert (SR6 : store_rel mu6 (sg ++ rs) m6).
  { apply (store_rel_enter6 mu sg m5 m6 evp env vs rs SR5 X56 Aev Cev Tev Ltev Vvs).
    intros i v Hv. assert (Hi : N.of_nat i < n) by (apply nth_error_lt6 in Hv; lia).
    rewrite (Henvj _ Hi). f_equal. rewrite <- (Hvs (N.of_nat i) v) by (rewrite list_get_nth6, Nat2N.id; exact Hv).
    f_equal. lia. }
  assert (L6 : lrel6 mu6 (seq (length sg) (length rs) ++ clocs) m6).
  { intros i l Hi. exists (next_id (st m5)), env. rewrite Hep6.
    destruct (N.ltb_spec i n) as [Hlt|Hge].
    - rewrite nth_error_app1 in Hi by (rewrite seq_length; lia).
      assert (Hl : l = (length sg + N.to_nat i)%nat).
      { rewrite nth_error_nth' with (d := 0%nat) in Hi by (rewrite seq_length; lia).
        rewrite seq_nth in Hi by lia. congruence. }
      assert (Hv : exists v, nth_error vs (N.to_nat i) = Some v).
      { destruct (nth_error vs (N.to_nat i)) eqn:E; [eauto|]. apply nth_error_None in E. lia. }
      destruct Hv as (v & Hv). destruct (Forall2_nth_l6 _ _ _ Vvs _ _ Hv) as (rv & _ & Vv).
      exists v, evp, i. split; [exact Aev|]. split; [exact Cev|]. split; [exact Ltev|]. split; [exact Tev|]. split.
      + rewrite (Henvj i Hlt). f_equal. rewrite <- (Hvs i v Hv). f_equal. lia.
      + split.
        * unfold mu6. rewrite nth_error_app2 by lia. rewrite Hl, Hlmu.
          replace (length sg + N.to_nat i - length sg)%nat with (N.to_nat i) by lia.
          rewrite newlocs_nth6 by lia. rewrite N2Nat.id. reflexivity.
        * left. split; [eapply vrep6_not_lexptr; exact Vv|auto].
    - rewrite nth_error_app2 in Hi by (rewrite seq_length; lia). rewrite seq_length in Hi.
      destruct (All _ _ Hi) as (a & j & Hm & Gv). exists (VLexPtr a j), a, j.
      split; [exact Aev|]. split; [exact Cev|]. split; [exact Ltev|]. split; [exact Tev|]. split.
      + rewrite (Henvc i Hge), <- Gv. f_equal. lia.
      + split; [eapply prefix6_nth; eassumption|right; reflexivity]. }
  assert (Hc6 : code_in m6 lamp ([VOp OEnter] ++ cb ++ [VOp ORet])) by (eapply code_in_ext; [exact Hc5|apply X56]).
  assert (Hsb : seg ([VOp OEnter] ++ cb ++ [VOp ORet]) 1 cb) by (exists [VOp OEnter], [VOp ORet]; auto).
  assert (G6 : genv_rel6 mu6 rho1 m6) by (eapply genv_rel6_ext; [exact W56|exact Pf6|exact Hg6|exact G5]).
  destruct (EXb m6 mu6 lamp _ (cext_trans _ _ _ XB (rx_cext _ _ X56)) MI6 Hc6 Hsb Hip6 G6 L6 SR6 (fun _ => Ht6))
    as [(n7 & m7 & mu7 & St7 & Pf7 & Fr7 & MI7 & Hip7 & V7 & G7 & SR7)|
        [_ (n7 & m8 & mu8 & k' & e' & i' & b' & St8 & Pf8 & Hfr' & X68 & MI8 & V8 & G8 & SR8 & E1 & E2 & E3 & E4 & E5 & K8)]].
  - (* the body ends at RET *)
    pose proof (f6_frame _ _ Fr7) as Fr7'.
    pose proof (code_in_ext _ _ _ _ Hc6 (fr_ext _ _ Fr7')) as Hc7.
    assert (Hsr : seg ([VOp OEnter] ++ cb ++ [VOp ORet]) (1 + len cb) [VOp ORet]).
    { exists ([VOp OEnter] ++ cb), []. rewrite app_nil_r, <- app_assoc. split; [reflexivity|]. lens. lia. }
    assert (Hbp7 : bp m7 = B + n) by (rewrite (fr_bp _ _ Fr7'); exact Hbp6').
    assert (Hsp7 : sp m7 = B + n + 4) by (rewrite (fr_sp _ _ Fr7'), Hsp6, Hsp; lia).
    assert (Hk7 : forall j, j <= B + n + 4 -> sget m7 j = sget m6 j) by (intros j Hj; apply (fr_stack _ _ Fr7'); lia).
    destruct Hfr6 as (F1 & F2' & F3' & F4 & _). rewrite Hbp6' in F1, F2', F3', F4. cbn [fst snd] in F3'.
    pose proof (step_ret_n ob m7 lamp (1 + len cb) _ n e l0 i0 (bp m5) Hc7 Hip7 Hsr
                  ltac:(rewrite Hbp7, <- Hsp7; apply MI7) ltac:(lia)
                  ltac:(rewrite Hbp7, Hk7 by lia; exact F1) ltac:(rewrite Hbp7, Hk7 by lia; exact F2')
                  ltac:(rewrite Hbp7, Hk7 by lia; exact F3') ltac:(rewrite Hbp7, Hk7 by lia; exact F4)) as E8.
    set (m8 := with_bp (with_ip (with_ep (with_sp (with_ip m7 (lamp, 1 + len cb + 1)) (bp m7 - n)) e) (l0, i0)) (bp m5)) in *.
    assert (X78 : rext m7 m8) by (apply rext_same; try reflexivity; lia).
    pose proof (rext_wext _ _ X78) as W78.
    exists (1 + n7 + 1)%nat, m8, mu7.
    split; [eapply steps_trans; [eapply steps_trans; [apply steps_one; exact E6|exact St7]|apply steps_one; exact E8]|].
    split; [eapply prefix6_trans; eassumption|].
    split; [eapply wext_trans; [exact W56|]; eapply wext_trans; [apply frame6_wext; exact Fr7|exact W78]|].
    split.
    { destruct MI7 as [HI GI SP]. constructor; [exact HI|exact GI|].
      cbn [sp scap m8 with_bp with_ip with_ep with_sp with_stack]. lia. }
    split; [eapply vrep6_ext; [exact W78|apply prefix6_refl|exact V7]|].
    split; [eapply genv_rel6_ext; [exact W78|apply prefix6_refl|reflexivity|exact G7]|].
    split; [eapply store_rel_rext; eassumption|].
    split; [cbn [sp m8 with_bp with_ip with_ep with_sp with_stack]; lia|].
    split; [reflexivity|]. split; [reflexivity|]. split; [reflexivity|].
    split; [cbn [out_log m8 with_bp with_ip with_ep with_sp with_stack]; rewrite (fr_log _ _ Fr7'); exact Hlog6|].
    intros j Hj. change (sget m8 j) with (sget m7 j). rewrite Hk7, Hk6 by lia. reflexivity.
  - (* the body left through a tail call *)
    destruct Hfr6 as (F1 & F2' & F3' & F4 & _). destruct Hfr' as (F1' & F2'' & F3'' & F4' & _).
    rewrite F1 in F1'. rewrite F2' in F2''. rewrite F3' in F3''. rewrite F4 in F4'.
    injection F1' as <-. injection F2'' as <-. injection F4' as <-. cbn [fst snd] in F3''.
    assert (i' = (l0, i0)) as -> by (destruct i'; cbn [fst snd] in F3''; congruence).
    exists (1 + n7)%nat, m8, mu8. split; [eapply steps_trans; [apply steps_one; exact E6|exact St8]|].
    split; [eapply prefix6_trans; eassumption|].
    split; [eapply wext_trans; eassumption|]. split; [exact MI8|]. split; [exact V8|]. split; [exact G8|].
    split; [exact SR8|].
    split; [rewrite E1, Hbp6'; lia|]. split; [exact E2|]. split; [exact E3|]. split; [exact E4|].
    split; [rewrite E5; exact Hlog6|].
    intros j Hj. rewrite K8 by (rewrite Hbp6'; lia). apply Hk6. lia.
Qed.

(* ------------------------------------------------------------ application of a closure *)
Lemma exec6_app_closure s0 p ca cf n (tail : bool) lv sg rho rs sg1 rho1 ps cs bodies clocs sg2 rho2 r sg3 rho3 :
  exec_args6 ob s0 p ca n lv sg rho rs sg1 rho1 ->
  exec6 ob s0 (p + len ca + 2) cf false lv sg1 rho1 (R6Clo ps cs bodies clocs) sg2 rho2 ->
  length rs = length ps -> n = len ps ->
  seq_ok6 (ps ++ cs) (seq (length sg2) (length rs) ++ clocs) (sg2 ++ rs) rho2 bodies r sg3 rho3 ->
  exec6 ob s0 p (ca ++ [VOp OPushImmediate; VArgc n] ++ cf ++ [VOp (if tail then OTCallAcc else OCallAcc)])
        tail lv sg rho r sg3 rho3.
Proof.
  intros EX1 EX3 Hlrs Hn IHb m mu lp bc X MIm Hc Hs Hip G L SR Ht.
  set (callop := VOp (if tail then OTCallAcc else OCallAcc)) in *.
  apply seg_app in Hs as [Hsa Hs]. apply seg_app in Hs as [Hsi Hs]. rewrite len2 in Hs.
  apply seg_app in Hs as [Hsf Hsc].
  (* operands *)
  destruct (EX1 m mu lp bc X MIm Hc Hsa Hip G L SR)
    as (n1 & m1 & mu1 & vs & St1 & Pf1 & MIm1 & Hip1 & G1 & SR1 & Xm1 & Hsp1 & Hbp1 & Hep1 & Hlog1 & Hst1 & Hvl & Hvs & Vvs).
  pose proof (code_in_ext _ _ _ _ Hc (wx_cext _ _ Xm1)) as Hc1.
  (* PUSH Argc n *)
  pose proof (step_pushimm ob m1 lp _ bc _ Hc1 Hip1 Hsi ltac:(discriminate)) as Ei.
  set (m2 := pushed (with_ip m1 (lp, p + len ca + 2)) (VArgc n)) in *.
  assert (Xm12 : rext m1 m2) by (apply rext_same; try reflexivity; lia).
  pose proof (rext_wext _ _ Xm12) as Wm12.
  assert (MIm2 : minv m2).
  { destruct MIm1 as [HI GI SP]. constructor; [exact HI|exact GI|]. apply pushed_sp_lt. exact SP. }
  assert (Hc2 : code_in m2 lp bc) by (eapply code_in_regs; [| |exact Hc1]; reflexivity).
  assert (G2 : genv_rel6 mu1 rho1 m2) by (eapply genv_rel6_ext; [exact Wm12|apply prefix6_refl|reflexivity|exact G1]).
  assert (SR2 : store_rel mu1 sg1 m2) by (eapply store_rel_rext; eassumption).
  assert (Xs2m2 : cext s0 m2) by (eapply cext_trans; [exact X|]; eapply cext_trans; [apply Xm1|apply Xm12]).
  assert (Hsp2 : sp m2 = sp m + n + 1) by (cbn [sp m2 pushed with_scap with_stack with_ip]; rewrite Hsp1; reflexivity).
  assert (L2' : lrel6 mu1 lv m2).
  { eapply lrel6_ext; [exact Wm12|apply prefix6_refl|reflexivity|]. eapply lrel6_ext; [exact Xm1|exact Pf1|exact Hep1|exact L]. }
  (* operator *)
  destruct (exec6_n ob _ _ _ _ _ _ _ _ _ EX3 m2 mu1 lp bc Xs2m2 MIm2 Hc2 Hsf eq_refl G2 L2' SR2)
    as (n3 & m3 & mu3 & St3 & Pf3 & Fr3 & MIm3 & Hip3 & V3 & G3 & SR3).
  pose proof (f6_frame _ _ Fr3) as Fr3'.
  pose proof (code_in_ext _ _ _ _ Hc2 (fr_ext _ _ Fr3')) as Hc3.
  set (q := p + len ca + 2 + len cf) in *.
  assert (Hclo : exists cp lamp cep, acc m3 = VPtr cp /\ heap_get (hp m3) cp = Ok (VClosure lamp cep)).
  { pose proof V3 as V3'. cbn [vrep6] in V3'.
    destruct V3' as (cp & lamp & cep & ceid & cslots & Hacc & Acp & Ccp & _).
    exists cp, lamp, cep. split; [exact Hacc|]. rewrite (heap_get_alloc _ _ Acp), Ccp. reflexivity. }
  destruct Hclo as (cp & lamp & cep & Hacc3 & Hgcp).
  assert (Pf03 : prefix6 mu mu3) by (eapply prefix6_trans; eassumption).
  assert (Xm03 : wext m m3).
  { eapply wext_trans; [exact Xm1|]. eapply wext_trans; [exact Wm12|]. apply frame6_wext. exact Fr3. }
  assert (Hsp3 : sp m3 = sp m + n + 1) by (rewrite (fr_sp _ _ Fr3'); exact Hsp2).
  assert (Hk3 : forall j, j <= sp m + n + 1 -> sget m3 j = sget m2 j) by (intros j Hj; apply (fr_stack _ _ Fr3'); lia).
  assert (Hk3lo : forall j, j <= sp m + n -> sget m3 j = sget m1 j).
  { intros j Hj. rewrite Hk3 by lia. unfold m2. rewrite sget_pushed_other by (cbn [sp with_ip]; lia). reflexivity. }
  assert (Htop3 : sget m3 (sp m + n + 1) = VArgc n).
  { rewrite Hk3 by lia. unfold m2. replace (sp m + n + 1) with (sp (with_ip m1 (lp, p + len ca + 2)) + 1) by (cbn [sp with_ip]; lia).
    apply sget_pushed_top. }
  assert (Hargs3 : forall i v, list_get vs i = Some v -> sget m3 (sp m + 1 + i) = v).
  { intros i v Hi. pose proof (list_get_lt _ _ _ Hi) as Hlt. rewrite Hk3lo by lia. apply Hvs. exact Hi. }
  assert (Hlow3 : forall j, j <= sp m -> sget m3 j = sget m j).
  { intros j Hj. rewrite Hk3lo by lia. apply Hst1. exact Hj. }
  assert (Vvs3 : Forall2 (fun v r => vrep6 mu3 m3 v r) vs rs).
  { eapply Forall2_vrep6_ext; [|exact Pf3|exact Vvs]. eapply wext_trans; [exact Wm12|apply frame6_wext; exact Fr3]. }
  assert (Hbp3 : bp m3 = bp m) by (rewrite (fr_bp _ _ Fr3'); exact Hbp1).
  assert (Hep3 : ep m3 = ep m) by (rewrite (fr_ep _ _ Fr3'); exact Hep1).
  assert (Hlog3 : out_log m3 = out_log m) by (rewrite (fr_log _ _ Fr3'); exact Hlog1).
  assert (St03 : steps (n1 + 1 + n3) m = Some m3).
  { eapply steps_trans; [eapply steps_trans; [exact St1|apply steps_one; exact Ei]|exact St3]. }
  assert (Hq : p + len (ca ++ [VOp OPushImmediate; VArgc n] ++ cf ++ [callop]) = q + 1).
  { unfold q. lens. lia. }
  destruct tail.
  - (* tail position: TCALL re-uses the current frame *)
    right. split; [reflexivity|].
    destruct (Ht eq_refl) as (k & e & i & b & Hfr & Hspf).
    assert (Hfr3 : frame_at m3 k e i b) by (eapply frame_at_keep; [exact Hfr|exact Hspf|exact Hbp3|exact Hlow3]).
    destruct (step_tcall_closure ob m3 lp q bc cp lamp cep k e i b n Hc3 Hip3 Hsc Hacc3 Hgcp Hfr3
                ltac:(rewrite Hsp3; exact Htop3) ltac:(rewrite Hbp3, Hsp3; lia) (mi_sp _ MIm3))
      as (T & Et & TT1 & TT2 & TT3 & TT4 & TT5).
    rewrite Hbp3 in Et, TT1, TT2, TT3, TT4, TT5.
    set (B := bp m - k) in *.
    set (m5 := with_ip (with_bp (with_stack (with_ip m3 (lp, q + 1)) T (B + n + 3)) b) (lamp, 0)) in *.
    assert (Hs5 : forall j, sget m5 j = slot T j) by reflexivity.
    assert (Hkb : k <= bp m) by (destruct Hfr as (_ & _ & _ & _ & H5); exact H5).
    assert (X35 : rext m3 m5) by (apply rext_same; try reflexivity; lia).
    pose proof (rext_wext _ _ X35) as W35.
    assert (MIm5 : minv m5).
    { destruct MIm3 as [HI GI SP]. constructor; [exact HI|exact GI|].
      cbn [sp scap m5 with_ip with_bp with_stack]. unfold B. lia. }
    destruct (callee_run6 mu3 sg2 ps cs bodies clocs n B e (fst i) (snd i) vs rs rho2 r sg3 rho3 m5 lamp IHb MIm5
                ltac:(eapply vrep6_ext; [exact W35|apply prefix6_refl|exact V3])
                ltac:(exists cp, cep; split; [exact Hacc3|exact Hgcp]) eq_refl Hlrs Hn eq_refl
                ltac:(rewrite Hs5; exact TT2) ltac:(rewrite Hs5; exact TT3) ltac:(rewrite Hs5; exact TT4) Hvl)
      as (k8 & m8 & mu8 & St8 & Pf8 & X58 & MI8 & V8 & G8 & SR8 & Hsp8 & Hep8 & Hip8 & Hbp8 & Hlog8 & Hk8).
    { intros j v Hj. pose proof (list_get_lt _ _ _ Hj) as Hlt. rewrite Hs5, TT1 by lia.
      rewrite Hsp3. replace (sp m + n + 1 - n + j) with (sp m + 1 + j) by lia. apply Hargs3. exact Hj. }
    { eapply Forall2_vrep6_ext; [exact W35|apply prefix6_refl|exact Vvs3]. }
    { eapply genv_rel6_ext; [exact W35|apply prefix6_refl|reflexivity|exact G3]. }
    { eapply store_rel_rext; eassumption. }
    exists (n1 + 1 + n3 + 1 + k8)%nat, m8, mu8, k, e, i, b.
    split; [eapply steps_trans; [eapply steps_trans; [exact St03|apply steps_one; exact Et]|exact St8]|].
    split; [eapply prefix6_trans; eassumption|].
    split; [exact Hfr|]. split; [eapply wext_trans; [exact Xm03|]; eapply wext_trans; eassumption|].
    split; [exact MI8|]. split; [exact V8|]. split; [exact G8|]. split; [exact SR8|]. split; [exact Hsp8|]. split; [exact Hep8|].
    split; [rewrite Hip8; destruct i; reflexivity|]. split; [exact Hbp8|].
    split; [rewrite Hlog8; exact Hlog3|].
    intros j Hj. rewrite Hk8 by exact Hj. rewrite Hs5, TT5 by exact Hj. apply Hlow3. unfold B in Hj. lia.
  - (* non-tail position: CALL pushes a new frame above %sp *)
    left.
    pose proof (step_call_closure ob m3 lp q bc cp lamp cep Hc3 Hip3 Hsc Hacc3 Hgcp) as Ecall.
    set (m5 := with_ip (pushed (pushed (with_ip m3 (lp, q + 1)) (VEp (ep m3))) (VIp lp (q + 1))) (lamp, 0)) in *.
    assert (X35 : rext m3 m5) by (apply rext_same; try reflexivity; lia).
    pose proof (rext_wext _ _ X35) as W35.
    assert (MIm5 : minv m5).
    { destruct MIm3 as [HI GI SP]. constructor; [exact HI|exact GI|].
      unfold m5. change (sp (with_ip ?x _)) with (sp x). change (scap (with_ip ?x _)) with (scap x).
      apply pushed_sp_lt. apply pushed_sp_lt. exact SP. }
    assert (Hsp5 : sp m5 = sp m + n + 3) by (cbn [sp m5 pushed with_scap with_stack with_ip]; rewrite Hsp3; lia).
    assert (Hk5 : forall j, j <= sp m + n + 1 -> sget m5 j = sget m3 j).
    { intros j Hj. unfold m5. change (sget (with_ip ?x _) ?jj) with (sget x jj).
      rewrite sget_pushed_other by (cbn [sp pushed with_scap with_stack with_ip]; rewrite Hsp3; lia).
      rewrite sget_pushed_other by (cbn [sp with_ip]; rewrite Hsp3; lia). reflexivity. }
    assert (H52 : sget m5 (sp m + n + 2) = VEp (ep m3)).
    { unfold m5. change (sget (with_ip ?x _) ?jj) with (sget x jj).
      rewrite sget_pushed_other by (cbn [sp pushed with_scap with_stack with_ip]; rewrite Hsp3; lia).
      replace (sp m + n + 2) with (sp (with_ip m3 (lp, q + 1)) + 1) by (cbn [sp with_ip]; rewrite Hsp3; lia).
      apply sget_pushed_top. }
    assert (H53 : sget m5 (sp m + n + 3) = VIp lp (q + 1)).
    { unfold m5. change (sget (with_ip ?x _) ?jj) with (sget x jj).
      replace (sp m + n + 3) with (sp (pushed (with_ip m3 (lp, q + 1)) (VEp (ep m3))) + 1)
        by (cbn [sp pushed with_scap with_stack with_ip]; rewrite Hsp3; lia).
      apply sget_pushed_top. }
    destruct (callee_run6 mu3 sg2 ps cs bodies clocs n (sp m) (ep m3) lp (q + 1) vs rs rho2 r sg3 rho3 m5 lamp IHb MIm5
                ltac:(eapply vrep6_ext; [exact W35|apply prefix6_refl|exact V3])
                ltac:(exists cp, cep; split; [exact Hacc3|exact Hgcp]) eq_refl Hlrs Hn Hsp5
                ltac:(rewrite Hk5 by lia; exact Htop3) H52 H53 Hvl)
      as (k8 & m8 & mu8 & St8 & Pf8 & X58 & MI8 & V8 & G8 & SR8 & Hsp8 & Hep8 & Hip8 & Hbp8 & Hlog8 & Hk8).
    { intros j v Hj. pose proof (list_get_lt _ _ _ Hj) as Hlt. rewrite Hk5 by lia. apply Hargs3. exact Hj. }
    { eapply Forall2_vrep6_ext; [exact W35|apply prefix6_refl|exact Vvs3]. }
    { eapply genv_rel6_ext; [exact W35|apply prefix6_refl|reflexivity|exact G3]. }
    { eapply store_rel_rext; eassumption. }
    assert (Xm08 : wext m m8) by (eapply wext_trans; [exact Xm03|]; eapply wext_trans; eassumption).
    exists (n1 + 1 + n3 + 1 + k8)%nat, m8, mu8.
    split; [eapply steps_trans; [eapply steps_trans; [exact St03|apply steps_one; exact Ecall]|exact St8]|].
    split; [eapply prefix6_trans; eassumption|].
    split.
    { split; [|apply Xm08]. constructor.
      - apply Xm08.
      - exact Hsp8.
      - rewrite Hbp8. exact Hbp3.
      - rewrite Hep8. exact Hep3.
      - rewrite Hlog8. exact Hlog3.
      - intros j Hj. rewrite Hk8 by exact Hj. rewrite Hk5 by lia. apply Hlow3. exact Hj. }
    split; [exact MI8|]. split; [rewrite Hip8, Hq; reflexivity|]. split; [exact V8|]. split; [exact G8|exact SR8].
Qed.

(* ------------------------------------------------------------ the induction on the reference derivation *)
Definition args_okP6 (sc : list text) (lv : list nat) (sg : store6) (rho : env6) (args : list expr6) (rs : list rval6)
                     (sg' : store6) (rho' : env6) : Prop :=
  forall f l n s l' n' s' code, Forall (fun x => wf6 x sc) args -> (cell_size (cells_of6 args) < f)%nat ->
    hdr6 l sc s -> minv s ->
    args_loop (compile_expression f) (cells_of6 args) l n s = ROk (l', n') s' -> fwd l' = fwd l ++ code ->
    exec_args6 ob s' (len (fwd l)) code (len args) lv sg rho rs sg' rho'.

Lemma statics6 sc args : Forall (fun x => wf6 x sc) args -> Forall (compile_static6 sc) args.
Proof. intros H. eapply Forall_impl; [|exact H]. intros x Hx. apply static6. exact Hx. Qed.

Lemma ref_evals6_len sc lv sg rho args rs sg' rho' : ref_evals6 bsem sc lv sg rho args rs sg' rho' -> length rs = length args.
Proof. induction 1; cbn [length]; congruence. Qed.

Lemma dyn_datum6 sc lv sg rho (e : expr6) d :
  (forall f l tail, compile_expression (S f) l tail (cell_of6 e) =
     (dom v <- maybe_put_cell_m d; ret (emit (emit (emit_op l OMovImmediate) v) VAcc))) ->
  heap_datum d -> body_ok6 sc lv sg rho e (R6Base (RDatum d)) sg rho.
Proof.
  intros Heq Hd f l tail s l' s' code _ Hf Hh MI Hcomp Hfwd. destruct f as [|f]; [lia|].
  rewrite Heq in Hcomp. destruct (maybe_put_cell_m_ok d s Hd MI) as (v & s1 & E & MI1 & X & R & V).
  unfold bindM in Hcomp. rewrite E in Hcomp. unfold ret in Hcomp. injection Hcomp as <- <-.
  rewrite fwd_emit3 in Hfwd. apply app_inv_head in Hfwd. subst code. apply exec6_movimm. exact V.
Qed.

Lemma dyn_store6 sc lv sg rho (e0 : expr6) x e r1 sg1 rho1 :
  (wf6 e0 sc -> forall f l tail s, compile_expression (S f) l tail (cell_of6 e0) s =
    (dom l1 <- compile_expression f l false (cell_of6 e);
     dom sym_ref <- put_cell_m (CSym x);
     dom operand <- location_operand (emit (emit_op l1 OMov) VAcc) sym_ref;
     ret (emit (emit (emit_op (emit (emit (emit_op l1 OMov) VAcc) operand) OMovImmediate) VVoid) VAcc)) s) ->
  (cell_size (cell_of6 e) < cell_size (cell_of6 e0))%nat ->
  (wf6 e0 sc -> pindex x sc = None /\ wf6 e sc) ->
  body_ok6 sc lv sg rho e r1 sg1 rho1 -> body_ok6 sc lv sg rho e0 (R6Base (RDatum CVoid)) sg1 (upd6 rho1 x r1).
Proof.
  intros Heq Hsz Hw IH f l tail s l' s' code Hwf Hf Hh MI Hcomp Hfwd. destruct f as [|f]; [lia|].
  destruct (Hw Hwf) as [Hpx We]. rewrite (Heq Hwf) in Hcomp.
  destruct (static6 e sc We f l false s ltac:(lia) Hh MI) as (l1 & s1 & c1 & E1 & F1 & S1 & MI1 & X1 & R1 & _).
  destruct (put_sym_m_ok x s1 MI1) as (a & s2 & E2 & MI2 & X2 & R2 & A & C & Eb & Eg).
  destruct (get_binding_ok a s2 MI2) as (k & s3 & E3 & MI3 & X3 & R3 & Eh & Es & B).
  assert (Hh2 : hdr6 (emit (emit_op l1 OMov) VAcc) sc s2).
  { eapply hdr6_same; [|eapply hdr6_ext; [|exact Hh]].
    - eapply same_hdr_trans; [exact S1|repeat split].
    - eapply cext_trans; eassumption. }
  unfold bindM at 1 in Hcomp. rewrite E1 in Hcomp. unfold bindM at 1 in Hcomp. rewrite E2 in Hcomp.
  unfold bindM at 1 in Hcomp. rewrite (location_global6 _ sc s2 a x Hh2 (mi_heap _ MI2) A C Hpx) in Hcomp.
  unfold bindM at 1 in Hcomp. rewrite E3 in Hcomp. unfold ret in Hcomp. injection Hcomp as <- <-.
  rewrite fwd_store, F1, <- app_assoc in Hfwd. apply app_inv_head in Hfwd. subst code.
  apply (exec6_store ob s3 _ c1 a k x).
  - apply (exec6_ext ob s3 s1); [eapply cext_trans; eassumption|]. exact (IH f l false s l1 s1 c1 We ltac:(lia) Hh MI E1 F1).
  - rewrite Eh. exact A.
  - rewrite Eh. exact C.
  - exact B.
Qed.

(* (set! x e), x bound by the scope (slot i, location l): the location is overwritten *)
Lemma dyn_setl6 sc lv sg rho x e r1 sg1 rho1 i l :
  pindex x sc = Some i -> nth_error lv (N.to_nat i) = Some l -> (l < length sg1)%nat ->
  body_ok6 sc lv sg rho e r1 sg1 rho1 ->
  body_ok6 sc lv sg rho (WSet x e) (R6Base (RDatum CVoid)) (sset6 sg1 l r1) rho1.
Proof.
  intros Hp Hi Hl IH f l0 tail s l' s' code Hwf Hf Hh MI Hcomp Hfwd. destruct f as [|f]; [lia|].
  destruct Hwf as (Hx & We). cbn [cell_of6] in *. cbn [cell_size] in Hf.
  destruct (static6 e sc We f l0 false s ltac:(lia) Hh MI) as (l1 & s1 & c1 & E1 & F1 & S1 & MI1 & X1 & R1 & _).
  destruct (compile_set_local sc x i (cell_of6 e) f l0 tail s l1 s1 c1 Hx Hp Hh E1 F1 S1 MI1 X1)
    as (l2 & s2 & E2 & F2 & S2 & MI2 & X2 & _).
  rewrite E2 in Hcomp. injection Hcomp as <- <-. rewrite F2 in Hfwd. apply app_inv_head in Hfwd. subst code.
  apply (exec6_store_local ob s2 _ c1 i tail lv sg rho r1 sg1 rho1 l); [|exact Hi|exact Hl].
  apply (exec6_ext ob s2 s1); [exact X2|]. exact (IH f l0 false s l1 s1 c1 We ltac:(lia) Hh MI E1 F1).
Qed.

Lemma dyn_if6 sc lv sg rho c a b rc sg1 rho1 r sg2 rho2 (eb : bool) :
  body_ok6 sc lv sg rho c rc sg1 rho1 -> is_false6 rc = eb ->
  (if eb then body_ok6 sc lv sg1 rho1 b r sg2 rho2 else body_ok6 sc lv sg1 rho1 a r sg2 rho2) ->
  body_ok6 sc lv sg rho (WIf c a b) r sg2 rho2.
Proof.
  intros IHc Hrc IHx f l tail s l' s' code (Wc & Wa & Wb) Hf Hh MI Hcomp Hfwd. destruct f as [|f]; [lia|].
  cbn [cell_of6] in *. cbn [cell_size] in Hf. rewrite compile_if3_eq in Hcomp.
  destruct (static6 c sc Wc f l false s ltac:(lia) Hh MI) as (l1 & s1 & cc & E1 & F1 & S1 & MI1 & X1 & R1 & _).
  set (l3 := emit (emit_op l1 OJnt) (VPtr CAFEBEEF)) in *.
  assert (S3 : same_hdr l l3) by (eapply same_hdr_trans; [exact S1|repeat split]).
  pose proof (hdr6_same _ _ _ _ S3 (hdr6_ext _ _ _ _ X1 Hh)) as Hh3.
  destruct (static6 a sc Wa f l3 tail s1 ltac:(lia) Hh3 MI1) as (l4 & s2 & ca & E4 & F4 & S4 & MI2 & X2 & R2 & _).
  destruct (if_layout l l1 l4 cc ca F1 F4) as [L6 F7].
  set (l6 := emit (emit_op l4 OJmp) (VPtr CAFEBEEF)) in *.
  set (l7 := bc_patch l6 (bc_len (emit_op l1 OJnt)) (VPtr (bc_len l6))) in *.
  assert (S7 : same_hdr l l7).
  { eapply same_hdr_trans; [exact S3|]. eapply same_hdr_trans; [exact S4|]. repeat split. }
  assert (X12 : cext s s2) by (eapply cext_trans; eassumption).
  pose proof (hdr6_same _ _ _ _ S7 (hdr6_ext _ _ _ _ X12 Hh)) as Hh7.
  destruct (static6 b sc Wb f l7 tail s2 ltac:(lia) Hh7 MI2) as (l8 & s3 & cb & E8 & F8 & S8 & MI3 & X3 & R3 & _).
  set (p := len (fwd l)) in *.
  assert (L7 : len (fwd l7) = bc_len l6) by (rewrite F7, L6; lens; fold p; lia).
  assert (L3 : len (fwd l3) = p + len cc + 2) by (unfold l3; rewrite fwd_emit, fwd_emit_op, F1; lens; fold p; lia).
  assert (L8 : bc_len l8 = bc_len l6 + len cb) by (rewrite (bc_len_fwd l8), F8, len_app, L7; reflexivity).
  unfold bindM at 1 in Hcomp. rewrite E1 in Hcomp. unfold bindM at 1 in Hcomp. fold l3 in Hcomp. rewrite E4 in Hcomp.
  unfold bindM at 1 in Hcomp. fold l6 l7 in Hcomp. rewrite E8 in Hcomp. unfold ret in Hcomp. injection Hcomp as <- <-.
  rewrite (if_final l8 l4 (fwd l ++ cc ++ [VOp OJnt; VPtr (bc_len l6)] ++ ca) cb) in Hfwd;
    [|rewrite F8, F7, <- !app_assoc; reflexivity
     |rewrite bc_len_fwd, fwd_emit_op, F4; lens; rewrite L3; lens; fold p; lia].
  rewrite <- !app_assoc in Hfwd. apply app_inv_head in Hfwd. subst code.
  assert (X13 : cext s1 s3) by (eapply cext_trans; eassumption).
  apply (exec6_if ob s3 p cc ca cb _ _ tail lv sg rho rc sg1 rho1 r sg2 rho2 eb L6 L8).
  - apply (exec6_ext ob s3 s1); [exact X13|]. exact (IHc f l false s l1 s1 cc Wc ltac:(lia) Hh MI E1 F1).
  - exact Hrc.
  - destruct eb.
    + rewrite <- L7. exact (IHx f l7 tail s2 l8 s3 cb Wb ltac:(lia) Hh7 MI2 E8 F8).
    + rewrite <- L3. apply (exec6_ext ob s3 s2); [exact X3|]. exact (IHx f l3 tail s1 l4 s2 ca Wa ltac:(lia) Hh3 MI1 E4 F4).
Qed.

Lemma dyn_if16 sc lv sg rho c a rc sg1 rho1 r sg2 rho2 (eb : bool) :
  body_ok6 sc lv sg rho c rc sg1 rho1 -> is_false6 rc = eb ->
  (if eb then r = R6Base (RDatum CVoid) /\ sg2 = sg1 /\ rho2 = rho1 else body_ok6 sc lv sg1 rho1 a r sg2 rho2) ->
  body_ok6 sc lv sg rho (WIf1 c a) r sg2 rho2.
Proof.
  intros IHc Hrc IHx f l tail s l' s' code (Wc & Wa) Hf Hh MI Hcomp Hfwd. destruct f as [|f]; [lia|].
  cbn [cell_of6] in *. cbn [cell_size] in Hf. rewrite compile_if2_eq in Hcomp.
  destruct (static6 c sc Wc f l false s ltac:(lia) Hh MI) as (l1 & s1 & cc & E1 & F1 & S1 & MI1 & X1 & R1 & _).
  set (l3 := emit (emit_op l1 OJnt) (VPtr CAFEBEEF)) in *.
  assert (S3 : same_hdr l l3) by (eapply same_hdr_trans; [exact S1|repeat split]).
  pose proof (hdr6_same _ _ _ _ S3 (hdr6_ext _ _ _ _ X1 Hh)) as Hh3.
  destruct (static6 a sc Wa f l3 tail s1 ltac:(lia) Hh3 MI1) as (l4 & s2 & ca & E4 & F4 & S4 & MI2 & X2 & R2 & _).
  destruct (if_layout l l1 l4 cc ca F1 F4) as [L6 F7].
  set (l6 := emit (emit_op l4 OJmp) (VPtr CAFEBEEF)) in *.
  set (l7 := bc_patch l6 (bc_len (emit_op l1 OJnt)) (VPtr (bc_len l6))) in *.
  set (cb := [VOp OMovImmediate; VVoid; VAcc]).
  set (l8 := emit (emit (emit_op l7 OMovImmediate) VVoid) VAcc) in *.
  assert (F8 : fwd l8 = fwd l7 ++ cb) by apply fwd_emit3.
  set (p := len (fwd l)) in *.
  assert (L7 : len (fwd l7) = bc_len l6) by (rewrite F7, L6; lens; fold p; lia).
  assert (L3 : len (fwd l3) = p + len cc + 2) by (unfold l3; rewrite fwd_emit, fwd_emit_op, F1; lens; fold p; lia).
  assert (L8 : bc_len l8 = bc_len l6 + len cb) by (rewrite (bc_len_fwd l8), F8, len_app, L7; reflexivity).
  unfold bindM at 1 in Hcomp. rewrite E1 in Hcomp. unfold bindM at 1 in Hcomp. fold l3 in Hcomp. rewrite E4 in Hcomp.
  fold l6 l7 l8 in Hcomp. unfold ret in Hcomp. injection Hcomp as <- <-.
  rewrite (if_final l8 l4 (fwd l ++ cc ++ [VOp OJnt; VPtr (bc_len l6)] ++ ca) cb) in Hfwd;
    [|rewrite F8, F7, <- !app_assoc; reflexivity
     |rewrite bc_len_fwd, fwd_emit_op, F4; lens; rewrite L3; lens; fold p; lia].
  rewrite <- !app_assoc in Hfwd. apply app_inv_head in Hfwd. subst code.
  destruct eb.
  - destruct IHx as (-> & -> & ->).
    apply (exec6_if ob s2 p cc ca cb _ _ tail lv sg rho rc sg1 rho1 (R6Base (RDatum CVoid)) sg1 rho1 true L6 L8).
    + apply (exec6_ext ob s2 s1); [exact X2|]. exact (IHc f l false s l1 s1 cc Wc ltac:(lia) Hh MI E1 F1).
    + exact Hrc.
    + cbv iota. apply exec6_movimm. apply vrep_void.
  - apply (exec6_if ob s2 p cc ca cb _ _ tail lv sg rho rc sg1 rho1 r sg2 rho2 false L6 L8).
    + apply (exec6_ext ob s2 s1); [exact X2|]. exact (IHc f l false s l1 s1 cc Wc ltac:(lia) Hh MI E1 F1).
    + exact Hrc.
    + cbv iota. rewrite <- L3. exact (IHx f l3 tail s1 l4 s2 ca Wa ltac:(lia) Hh3 MI1 E4 F4).
Qed.

Lemma dyn_local6 sc lv sg rho x i l r : pindex x sc = Some i -> nth_error lv (N.to_nat i) = Some l ->
  nth_error sg l = Some r -> body_ok6 sc lv sg rho (WVar x) r sg rho.
Proof.
  intros Hpi Hn Hl f l0 tail s l' s' code Hx Hf Hh MI Hcomp Hfwd. destruct f as [|f]; [lia|].
  cbn [wf6] in Hx. cbn [cell_of6] in Hcomp. rewrite (compile_var_eq _ _ _ _ _ Hx) in Hcomp.
  destruct (put_sym_m_ok x s MI) as (a & s1 & E1 & MI1 & X1 & R1 & A & C & Eb & Eg).
  unfold bindM at 1 in Hcomp. rewrite E1 in Hcomp. unfold bindM at 1 in Hcomp.
  rewrite (location_local6 l0 sc s1 a x i (hdr6_ext _ _ _ _ X1 Hh) (mi_heap _ MI1) A C Hpi) in Hcomp.
  unfold ret in Hcomp. injection Hcomp as <- <-.
  rewrite fwd_emit3 in Hfwd. apply app_inv_head in Hfwd. subst code. eapply exec6_load_local; eassumption.
Qed.

Lemma dyn_global6 sc lv sg rho x r : pindex x sc = None -> rho x = Some r -> r <> R6Base (RDatum CUndef) ->
  body_ok6 sc lv sg rho (WVar x) r sg rho.
Proof.
  intros Hpi Hr Hu f l tail s l' s' code Hx Hf Hh MI Hcomp Hfwd. destruct f as [|f]; [lia|].
  cbn [wf6] in Hx. cbn [cell_of6] in Hcomp. rewrite (compile_var_eq _ _ _ _ _ Hx) in Hcomp.
  destruct (put_sym_m_ok x s MI) as (a & s1 & E1 & MI1 & X1 & R1 & A & C & Eb & Eg).
  destruct (get_binding_ok a s1 MI1) as (k & s2 & E2 & MI2 & X2 & R2 & Eh & Es & B).
  unfold bindM at 1 in Hcomp. rewrite E1 in Hcomp. unfold bindM at 1 in Hcomp.
  rewrite (location_global6 l sc s1 a x (hdr6_ext _ _ _ _ X1 Hh) (mi_heap _ MI1) A C Hpi) in Hcomp.
  unfold bindM at 1 in Hcomp. rewrite E2 in Hcomp. unfold ret in Hcomp. injection Hcomp as <- <-.
  rewrite fwd_emit3 in Hfwd. apply app_inv_head in Hfwd. subst code.
  apply (exec6_load_global ob s2 _ a k x); auto; rewrite Eh; assumption.
Qed.

Lemma dyn_lam6 sc lv sg rho ps fs bodies clocs :
  Forall2 (fun x l => exists i, pindex x sc = Some i /\ nth_error lv (N.to_nat i) = Some l) (capnames6 sc fs) clocs ->
  body_ok6 sc lv sg rho (WLam ps fs bodies) (R6Clo ps (capnames6 sc fs) bodies clocs) sg rho.
Proof.
  intros Fv f l tail s l' s' code Hwf Hf Hh MI Hcomp Hfwd.
  pose proof Hwf as Hwf'. apply wf6_lam in Hwf'. destruct Hwf' as (Hne & _ & _ & _ & _ & Wb).
  cbn [cell_of6] in *.
  destruct (lam_static6 sc ps fs bodies Hwf (statics6 _ bodies Wb) f l tail s Hf Hh MI)
    as (l2 & s2 & lamp & lamF & caps & cb & f' & lam2 & s3 & lam3 & s4 & E & F & _ & MI2 & X2 & _ & _ &
        Hlam & Hem & Fa & Fc & Hbc & Hf' & Hh2 & MI3 & Ecomp & F2 & F3 & X4).
  rewrite E in Hcomp. injection Hcomp as <- <-.
  rewrite F in Hfwd. apply app_inv_head in Hfwd. subst code.
  apply (exec6_lam s2 _ lamp lamF caps sc ps (capnames6 sc fs) bodies tail lv sg rho clocs Hlam Hem Fa Fc); [|exact Fv].
  exists lamF, caps, cb, f', lam2, s3, lam3, s4.
  split; [exact Hlam|]. split; [exact Hem|]. split; [exact Fa|].
  split.
  { clear -Fc. induction Fc as [|e x caps cs (_ & k & Hk & _) _ IH]; constructor; [exists k; exact Hk|exact IH]. }
  split; [eapply Forall2_length6; exact Fc|]. split; [exact Hbc|]. split; [exact Hne|]. split; [exact Hf'|]. split; [exact Wb|].
  split; [exact Hh2|]. split; [exact MI3|]. split; [exact Ecomp|]. split; [exact F2|]. split; [exact F3|exact X4].
Qed.

(* the shape of a compiled application *)
Lemma app_shape6 sc f0 args f l (tail : bool) s l' s' code :
  wf6 (WApp f0 args) sc -> (cell_size (cell_of6 (WApp f0 args)) < f)%nat -> hdr6 l sc s -> minv s ->
  compile_expression f l tail (cell_of6 (WApp f0 args)) s = ROk l' s' -> fwd l' = fwd l ++ code ->
  exists f1 l1 s1 ca l2 l3 cf,
    wf6 f0 sc /\ Forall (fun x => wf6 x sc) args /\
    (cell_size (cells_of6 args) < f1)%nat /\ (cell_size (cell_of6 f0) < f1)%nat /\
    args_loop (compile_expression f1) (cells_of6 args) l 0 s = ROk (l1, len args) s1 /\ fwd l1 = fwd l ++ ca /\
    hdr6 l2 sc s1 /\ minv s1 /\ len (fwd l2) = len (fwd l) + len ca + 2 /\
    compile_expression f1 l2 false (cell_of6 f0) s1 = ROk l3 s' /\ fwd l3 = fwd l2 ++ cf /\ cext s1 s' /\
    code = ca ++ [VOp OPushImmediate; VArgc (len args)] ++ cf ++ [VOp (if tail then OTCallAcc else OCallAcc)].
Proof.
  intros Hwf Hf Hh MI Hcomp Hfwd. destruct f as [|f]; [cbn in Hf; lia|].
  apply wf6_app in Hwf as (Hsp & Wf & Wargs).
  cbn [cell_of6] in *. fold (cells_of6 args) in *. cbn [cell_size] in Hf.
  rewrite compile_application_eq in Hcomp by exact Hsp.
  destruct (args_static6 sc args (statics6 sc args Wargs) f l 0 s ltac:(lia) Hh MI)
    as (l1 & s1 & ca & E1 & F1 & S1 & MI1 & X1 & R1 & _).
  rewrite N.add_0_l in E1.
  set (l2 := emit (emit_op l1 OPushImmediate) (VArgc (len args))) in *.
  assert (S2 : same_hdr l l2) by (eapply same_hdr_trans; [exact S1|repeat split]).
  pose proof (hdr6_same _ _ _ _ S2 (hdr6_ext _ _ _ _ X1 Hh)) as Hh2.
  destruct (static6 f0 sc Wf f l2 false s1 ltac:(lia) Hh2 MI1) as (l3 & s2 & cf & E3 & F3 & S3 & MI2 & X2 & R2 & _).
  unfold bindM at 1 in Hcomp. rewrite E1 in Hcomp. cbv beta iota in Hcomp. unfold bindM at 1 in Hcomp.
  fold l2 in Hcomp. rewrite E3 in Hcomp. unfold ret in Hcomp. injection Hcomp as <- <-.
  rewrite fwd_emit_op, F3 in Hfwd. unfold l2 in Hfwd. rewrite fwd_emit, fwd_emit_op, F1, <- !app_assoc in Hfwd.
  apply app_inv_head in Hfwd. subst code.
  exists f, l1, s1, ca, l2, l3, cf.
  split; [exact Wf|]. split; [exact Wargs|]. split; [lia|]. split; [lia|]. split; [exact E1|]. split; [exact F1|].
  split; [exact Hh2|]. split; [exact MI1|].
  split; [unfold l2; rewrite fwd_emit, fwd_emit_op, F1; lens; lia|].
  split; [exact E3|]. split; [exact F3|]. split; [exact X2|reflexivity].
Qed.

Lemma dyn_args_nil6 sc lv sg rho : args_okP6 sc lv sg rho [] [] sg rho.
Proof.
  intros f l n s l' n' s' code _ _ _ _ Hcomp Hfwd.
  cbn [cells_of6 map fold_right args_loop] in Hcomp. unfold ret in Hcomp. injection Hcomp as <- _ <-.
  rewrite <- (app_nil_r (fwd l)) in Hfwd at 1. apply app_inv_head in Hfwd. subst code.
  apply exec_args6_nil.
Qed.

Lemma dyn_args_cons6 sc lv sg rho x r sg1 rho1 xs rs sg2 rho2 :
  body_ok6 sc lv sg rho x r sg1 rho1 -> args_okP6 sc lv sg1 rho1 xs rs sg2 rho2 ->
  args_okP6 sc lv sg rho (x :: xs) (r :: rs) sg2 rho2.
Proof.
  intros IHx IHr f l n s l' n' s' code Wall Hf Hh MI Hcomp Hfwd.
  inversion Wall as [|x' xs' Wx Wr]; subst.
  destruct (cells6_size x xs) as [Sx Sr].
  change (cells_of6 (x :: xs)) with (CPair (cell_of6 x) (cells_of6 xs)) in *. cbn [args_loop] in Hcomp.
  destruct (static6 x sc Wx f l false s ltac:(lia) Hh MI) as (l1 & s1 & cx & E1 & F1 & S1 & MI1 & X1 & R1 & _).
  assert (S1' : same_hdr l (emit_op l1 OPushAcc)) by (eapply same_hdr_trans; [exact S1|repeat split]).
  pose proof (hdr6_same _ _ _ _ S1' (hdr6_ext _ _ _ _ X1 Hh)) as Hh1.
  destruct (args_static6 sc xs (statics6 sc xs Wr) f (emit_op l1 OPushAcc) (n + 1) s1 ltac:(lia) Hh1 MI1)
    as (l2 & s2 & cr & E2 & F2 & S2 & MI2 & X2 & R2 & _).
  unfold bindM at 1 in Hcomp. rewrite E1 in Hcomp. rewrite E2 in Hcomp. injection Hcomp as <- _ <-.
  rewrite F2, fwd_emit_op, F1, <- !app_assoc in Hfwd. apply app_inv_head in Hfwd. subst code.
  rewrite len_cons.
  apply (exec_args6_cons ob s2 _ cx cr (len xs) lv sg rho r sg1 rho1 rs sg2 rho2).
  - apply (exec6_ext ob s2 s1); [exact X2|]. exact (IHx f l false s l1 s1 cx Wx ltac:(lia) Hh MI E1 F1).
  - pose proof (IHr f (emit_op l1 OPushAcc) (n + 1) s1 l2 _ s2 cr Wr ltac:(lia) Hh1 MI1 E2 F2) as H.
    rewrite fwd_emit_op, F1 in H. replace (len ((fwd l ++ cx) ++ [VOp OPushAcc])) with (len (fwd l) + len cx + 1) in H by (lens; lia).
    exact H.
Qed.

(* the body loop: the first expression of a sequence *)
Lemma compile_bodies_cons6 f l x r :
  compile_bodies6 f l (x :: r) =
  (dom lam' <- compile_expression f l (match r with [] => true | _ => false end) x; compile_bodies6 f lam' r).
Proof. reflexivity. Qed.

Lemma dyn_seq_cons6 sc lv sg rho x r sg1 rho1 xs rs sg2 rho2 :
  body_ok6 sc lv sg rho x r sg1 rho1 -> ref_evals6 bsem sc lv sg1 rho1 xs rs sg2 rho2 ->
  (forall pre r', rs = pre ++ [r'] -> seq_ok6 sc lv sg1 rho1 xs r' sg2 rho2) ->
  forall pre r', r :: rs = pre ++ [r'] -> seq_ok6 sc lv sg rho (x :: xs) r' sg2 rho2.
Proof.
  intros IHx HR IHr pre r' Hpre f l s l' s' code Wall Hf Hh MI Hcomp Hfwd.
  inversion Wall as [|x' xs' Wx Wr]; subst x' xs'.
  destruct (cells6_size x xs) as [Sx Sr].
  pose proof (ref_evals6_len _ _ _ _ _ _ _ _ HR) as Hlen.
  cbn [map] in Hcomp. rewrite compile_bodies_cons6 in Hcomp.
  destruct (static6 x sc Wx f l (match map cell_of6 xs with [] => true | _ => false end) s ltac:(lia) Hh MI)
    as (l1 & s1 & cx & E1 & F1 & S1 & MI1 & X1 & R1 & _).
  pose proof (hdr6_same _ _ _ _ S1 (hdr6_ext _ _ _ _ X1 Hh)) as Hh1.
  destruct (bodies_static6 sc xs (statics6 sc xs Wr) f l1 s1 ltac:(lia) Hh1 MI1)
    as (l2 & s2 & cr & E2 & F2 & S2 & MI2 & X2 & R2 & _).
  unfold bindM at 1 in Hcomp. rewrite E1, E2 in Hcomp. injection Hcomp as <- <-.
  rewrite F2, F1, <- app_assoc in Hfwd. apply app_inv_head in Hfwd. subst code.
  destruct xs as [|y ys].
  - (* x is the last expression: tail position *)
    inversion HR; subst.
    destruct pre as [|p0 pre']; [|destruct pre'; cbn [app] in Hpre; congruence].
    cbn [app] in Hpre. injection Hpre as <-.
    cbn [map compile_bodies6] in E2. unfold ret in E2. injection E2 as <- <-.
    assert (Hcr : cr = []) by (rewrite <- (app_nil_r (fwd l1)) in F2 at 1; apply app_inv_head in F2; auto).
    subst cr. rewrite app_nil_r.
    exact (IHx f l true s l1 s1 cx Wx ltac:(lia) Hh MI E1 F1).
  - (* x is evaluated for effect, in non-tail position *)
    destruct rs as [|r1 rs']; [discriminate|].
    destruct pre as [|p0 pre']; [cbn [app] in Hpre; congruence|].
    cbn [app] in Hpre. injection Hpre as <- Hrs.
    apply (exec6_seq s2 _ cx cr lv sg rho r sg1 rho1 r' sg2 rho2).
    + apply (exec6_ext ob s2 s1); [exact X2|]. exact (IHx f l false s l1 s1 cx Wx ltac:(lia) Hh MI E1 F1).
    + pose proof (IHr pre' r' Hrs f l1 s1 l2 s2 cr Wr ltac:(lia) Hh1 MI1 E2 F2) as H.
      rewrite F1, len_app in H. exact H.
Qed.

(* the predicate of the induction for LISTS of expressions: a list is evaluated as the operands of
   an application (operand loop) or as the body of a closure (body loop) *)
Definition evals_okP6 (sc : list text) (lv : list nat) (sg : store6) (rho : env6) (xs : list expr6) (rs : list rval6)
                      (sg' : store6) (rho' : env6) : Prop :=
  args_okP6 sc lv sg rho xs rs sg' rho' /\ (forall pre r, rs = pre ++ [r] -> seq_ok6 sc lv sg rho xs r sg' rho').

Section Main6.
Hypothesis Hb : forall b, builtin_ok ob bsem b.
Hypothesis He : forall b, builtin_envs ob bsem b.

Lemma dyn_app_builtin6 sc lv sg rho f0 args rbs sg1 rho1 b sg2 rho2 r :
  args_okP6 sc lv sg rho args (map R6Base rbs) sg1 rho1 -> body_ok6 sc lv sg1 rho1 f0 (R6Base (RBuiltin b)) sg2 rho2 ->
  bsem b rbs = Some r -> body_ok6 sc lv sg rho (WApp f0 args) (R6Base r) sg2 rho2.
Proof.
  intros IHa IHf Hsem f l tail s l' s' code Hwf Hf Hh MI Hcomp Hfwd.
  destruct (app_shape6 sc f0 args f l tail s l' s' code Hwf Hf Hh MI Hcomp Hfwd)
    as (f1 & l1 & s1 & ca & l2 & l3 & cf & Wf & Wargs & Hf1 & Hf2 & E1 & F1 & Hh2 & MI1 & L2 & E3 & F3 & X2 & ->).
  apply (exec6_app_builtin ob bsem s' _ ca cf (len args) tail lv sg rho rbs sg1 rho1 b sg2 rho2 r Hb He).
  - apply (exec_args6_ext ob s' s1); [exact X2|]. exact (IHa f1 l 0 s l1 _ s1 ca Wargs Hf1 Hh MI E1 F1).
  - rewrite <- L2. exact (IHf f1 l2 false s1 l3 s' cf Wf Hf2 Hh2 MI1 E3 F3).
  - exact Hsem.
Qed.

Lemma dyn_app_closure6 sc lv sg rho f0 args rs sg1 rho1 ps cs bodies clocs sg2 rho2 r sg3 rho3 :
  length rs = length args ->
  args_okP6 sc lv sg rho args rs sg1 rho1 -> body_ok6 sc lv sg1 rho1 f0 (R6Clo ps cs bodies clocs) sg2 rho2 ->
  length rs = length ps ->
  seq_ok6 (ps ++ cs) (seq (length sg2) (length rs) ++ clocs) (sg2 ++ rs) rho2 bodies r sg3 rho3 ->
  body_ok6 sc lv sg rho (WApp f0 args) r sg3 rho3.
Proof.
  intros Hla IHa IHf Hlrs IHb f l tail s l' s' code Hwf Hf Hh MI Hcomp Hfwd.
  destruct (app_shape6 sc f0 args f l tail s l' s' code Hwf Hf Hh MI Hcomp Hfwd)
    as (f1 & l1 & s1 & ca & l2 & l3 & cf & Wf & Wargs & Hf1 & Hf2 & E1 & F1 & Hh2 & MI1 & L2 & E3 & F3 & X2 & ->).
  apply (exec6_app_closure s' _ ca cf (len args) tail lv sg rho rs sg1 rho1 ps cs bodies clocs sg2 rho2 r sg3 rho3).
  - apply (exec_args6_ext ob s' s1); [exact X2|]. exact (IHa f1 l 0 s l1 _ s1 ca Wargs Hf1 Hh MI E1 F1).
  - rewrite <- L2. exact (IHf f1 l2 false s1 l3 s' cf Wf Hf2 Hh2 MI1 E3 F3).
  - exact Hlrs.
  - unfold len. rewrite <- Hla, Hlrs. reflexivity.
  - exact IHb.
Qed.

(* THE THEOREM: for every reference derivation of e, every successful compilation of e into a
   lambda under construction whose environment map binds sc produces code that computes the
   reference value and the reference store, in the sense of exec6 *)
Theorem compile_correct6 : forall sc lv sg rho e r sg' rho', ref_eval6 bsem sc lv sg rho e r sg' rho' ->
  body_ok6 sc lv sg rho e r sg' rho'.
Proof.
  apply (ref_eval6_min bsem body_ok6 evals_okP6).
  - intros sc lv sg rho c f l tail s l' s' code Hwf. pose proof Hwf as [Hs Hd]. revert f l tail s l' s' code Hwf.
    apply (dyn_datum6 sc lv sg rho (WConst c) c); [intros; apply compile_const_eq; [exact Hs|exact Hd]|exact Hd].
  - intros sc lv sg rho d f l tail s l' s' code Hwf. pose proof Hwf as Hd. cbn [wf6] in Hd. revert f l tail s l' s' code Hwf.
    apply (dyn_datum6 sc lv sg rho (WQuote d) d); [intros; apply compile_quote_form; exact Hd|exact Hd].
  - intros sc lv sg rho x i l r Hp Hn Hl. apply (dyn_local6 sc lv sg rho x i l r Hp Hn Hl).
  - intros sc lv sg rho x r Hp Hr Hu. apply dyn_global6; assumption.
  - intros sc lv sg rho c a b rc sg1 rho1 r sg2 rho2 _ IHc Hrc _ IHa.
    apply (dyn_if6 sc lv sg rho c a b rc sg1 rho1 r sg2 rho2 false IHc Hrc IHa).
  - intros sc lv sg rho c a b rc sg1 rho1 r sg2 rho2 _ IHc Hrc _ IHb.
    apply (dyn_if6 sc lv sg rho c a b rc sg1 rho1 r sg2 rho2 true IHc Hrc IHb).
  - intros sc lv sg rho c a rc sg1 rho1 r sg2 rho2 _ IHc Hrc _ IHa.
    apply (dyn_if16 sc lv sg rho c a rc sg1 rho1 r sg2 rho2 false IHc Hrc IHa).
  - intros sc lv sg rho c a rc sg1 rho1 _ IHc Hrc.
    apply (dyn_if16 sc lv sg rho c a rc sg1 rho1 _ sg1 rho1 true IHc Hrc). repeat split; reflexivity.
  - intros sc lv sg rho x e r sg1 rho1 _ IH. apply (dyn_store6 sc lv sg rho (WDefine x e) x e r sg1 rho1); [| | |exact IH].
    + intros (Hx & _ & _) f l tail s. apply compile_define_eq. exact Hx.
    + cbn [cell_of6 cell_size]. lia.
    + intros (_ & Hp & We). split; assumption.
  - intros sc lv sg rho x e r sg1 rho1 old Hp _ IH _. apply (dyn_store6 sc lv sg rho (WSet x e) x e r sg1 rho1); [| | |exact IH].
    + intros (Hx & _) f l tail s. apply compile_set_eq. exact Hx.
    + cbn [cell_of6 cell_size]. lia.
    + intros (_ & We). split; assumption.
  - intros sc lv sg rho x e r sg1 rho1 i l Hp Hn _ IH Hl. exact (dyn_setl6 sc lv sg rho x e r sg1 rho1 i l Hp Hn Hl IH).
  - intros sc lv sg rho ps fs bodies clocs Fv. apply dyn_lam6. exact Fv.
  - intros sc lv sg rho f0 args rbs sg1 rho1 b sg2 rho2 r _ IHa _ IHf Hsem.
    exact (dyn_app_builtin6 sc lv sg rho f0 args rbs sg1 rho1 b sg2 rho2 r (proj1 IHa) IHf Hsem).
  - intros sc lv sg rho f0 args rs sg1 rho1 ps cs bodies clocs sg2 rho2 vs pre r sg3 rho3 HRa IHa _ IHf Hlrs _ IHb Hvs.
    exact (dyn_app_closure6 sc lv sg rho f0 args rs sg1 rho1 ps cs bodies clocs sg2 rho2 r sg3 rho3
             (ref_evals6_len _ _ _ _ _ _ _ _ HRa) (proj1 IHa) IHf Hlrs (proj2 IHb pre r Hvs)).
  - intros sc lv sg rho. split; [apply dyn_args_nil6|]. intros pre r H. destruct pre; discriminate.
  - intros sc lv sg rho x r sg1 rho1 xs rs sg2 rho2 _ IHx HRr IHr. split.
    + exact (dyn_args_cons6 sc lv sg rho x r sg1 rho1 xs rs sg2 rho2 IHx (proj1 IHr)).
    + exact (dyn_seq_cons6 sc lv sg rho x r sg1 rho1 xs rs sg2 rho2 IHx HRr (proj2 IHr)).
Qed.
End Main6.

Lemma genv_rel6_compile mu rho s s' : cext s s' -> same_regs s s' -> envs (st s') = envs (st s) ->
  genv_rel6 mu rho s -> genv_rel6 mu rho s'.
Proof.
  intros X (_ & _ & _ & _ & _ & _ & more & Eg) En G x r Hx. destruct (G x r Hx) as (a & k & v & A & C & B & L & V).
  destruct (ce_heap _ _ X a A) as [A' C'].
  exists a, k, v. split; [exact A'|]. split; [congruence|]. split; [apply (ce_bind _ _ X); exact B|].
  split; [rewrite Eg, list_get_app_l; [exact L|eapply list_get_lt; exact L]|].
  eapply vrep6_ext; [|apply prefix6_refl|exact V]. apply rext_wext. split; [exact X|]. intros j _. rewrite En. reflexivity.
Qed.

Section Eval6.
Hypothesis Hb : forall b, builtin_ok ob bsem b.
Hypothesis He : forall b, builtin_envs ob bsem b.

(* Vm::eval on a well-formed top-level expression of the closure fragment *)
Theorem eval_fragment6 e mu sg rho r sg' rho' s :
  wf6 e [] -> ref_eval6 bsem [] [] sg rho e r sg' rho' -> minv s -> genv_rel6 mu rho s -> store_rel mu sg s ->
  transform_expr TRANSFORM_FUEL s (cell_of6 e) = Ok (cell_of6 e) ->
  exists n m mu', (forall fuel, (n <= fuel)%nat -> eval ob fuel (cell_of6 e) s = halt_result m) /\
    prefix6 mu mu' /\ vrep6 mu' m (acc m) r /\ genv_rel6 mu' rho' m /\ store_rel mu' sg' m /\ minv m /\ cext s m /\
    sp m = sp s /\ bp m = bp s /\ ep m = ep s /\ out_log m = out_log s.
Proof.
  intros Hwf HR MI G SR Htr.
  assert (Ht : top_hdr top_lam) by (split; reflexivity).
  destruct (static6 e [] Hwf (S (S (cell_size (cell_of6 e)))) top_lam true s ltac:(lia) (top_hdr_hdr6 top_lam s Ht) MI)
    as (l1 & sA & code & E1 & F1 & S1 & MIA & XA & RA & EnA).
  assert (Hfu : (cell_size (cell_of6 e) < S (S (cell_size (cell_of6 e))))%nat) by lia.
  pose proof (compile_correct6 Hb He [] [] sg rho e r sg' rho' HR _ top_lam true s l1 sA code Hwf Hfu (top_hdr_hdr6 top_lam s Ht) MI E1 F1) as EX.
  destruct (put_lambda_spec (emit_op l1 ORet) sA MIA) as (a & sB & E2 & MIB & XB & RB & GbB & _ & AB & CB & LB & TB).
  destruct (put_lambda_spec (entry_lam (VPtr a)) sB MIB) as (a0 & sC & E3 & MIC & XC & RC & GbC & _ & AC & CC & LC & TC).
  set (m0 := with_ip sC (a0, 0)).
  assert (Hprep : prepare_eval (cell_of6 e) s = ROk tt m0).
  { unfold prepare_eval. unfold bindM at 1. rewrite compile_runnable_eq.
    unfold bindM at 1. unfold compile. rewrite Htr, E1. unfold bindM at 1. rewrite E2. unfold ret at 1.
    unfold bindM at 1. rewrite E3. reflexivity. }
  assert (XsC : cext s sC) by (eapply cext_trans; [exact XA|]; eapply cext_trans; eassumption).
  assert (RsC : same_regs s sC) by (eapply same_regs_trans; [exact RA|]; eapply same_regs_trans; eassumption).
  destruct RsC as (Rsp & Rbp & Rep & Rcap & Rstk & Rlog & more & Rg).
  assert (EnC : envs (st sC) = envs (st s)).
  { rewrite (put_lambda_envs6 _ _ _ _ E3), (put_lambda_envs6 _ _ _ _ E2). exact EnA. }
  assert (SRC : store_rel mu sg sC).
  { eapply store_rel_rext; [|exact SR]. split; [exact XsC|]. intros j _. rewrite EnC. reflexivity. }
  pose proof (genv_rel6_compile mu rho s sC XsC (conj Rsp (conj Rbp (conj Rep (conj Rcap (conj Rstk (conj Rlog (ex_intro _ more Rg))))))) EnC G) as GC.
  (* the two code blocks *)
  set (bc0 := [VOp OPushImmediate; VArgc 0; VOp OMovImmediate; VPtr a; VAcc; VOp OCallAcc; VOp OHalt]).
  set (bc1 := ([VOp OEnter] ++ code) ++ [VOp ORet]).
  assert (Hbc1 : l_bc (lambda_finish (emit_op l1 ORet)) = bc1).
  { change (l_bc (lambda_finish (emit_op l1 ORet))) with (fwd (emit_op l1 ORet)). rewrite fwd_emit_op, F1. reflexivity. }
  assert (HcB : code_in sB a bc1).
  { eexists; eexists. split; [exact AB|]. split; [exact CB|]. split; [exact LB|]. split; [exact TB|exact Hbc1]. }
  assert (Hc1C : code_in sC a bc1) by (eapply code_in_ext; eassumption).
  assert (Hc0C : code_in sC a0 bc0).
  { eexists; eexists. split; [exact AC|]. split; [exact CC|]. split; [exact LC|]. split; [exact TC|reflexivity]. }
  assert (HgetA : heap_get (hp sC) a = Ok (VLambda (next_id (st sA)))).
  { destruct (ce_heap _ _ XC a AB) as [A' C']. rewrite (heap_get_alloc _ _ A'), C', CB. reflexivity. }
  assert (HlamA : tget (lams (st sC)) (next_id (st sA)) = Some (lambda_finish (emit_op l1 ORet))).
  { rewrite (ce_lams _ _ XC) by exact LB. exact TB. }
  assert (HargsA : l_args (lambda_finish (emit_op l1 ORet)) = []).
  { change (l_args (lambda_finish (emit_op l1 ORet))) with (l_args l1). destruct S1 as (_ & _ & _ & -> & _). reflexivity. }
  (* segments *)
  assert (Sg0 : forall pre x post, bc0 = pre ++ x ++ post -> seg bc0 (len pre) x) by (intros pre x post Hx; exists pre, post; auto).
  assert (Sg1 : forall pre x post, bc1 = pre ++ x ++ post -> seg bc1 (len pre) x) by (intros pre x post Hx; exists pre, post; auto).
  pose proof (mi_sp _ MIC) as HcapC.
  (* PUSH Argc 0 *)
  pose proof (step_pushimm ob m0 a0 0 bc0 (VArgc 0) (code_in_ip _ _ _ _ Hc0C) eq_refl
                (Sg0 [] [VOp OPushImmediate; VArgc 0] _ eq_refl) ltac:(discriminate)) as St1.
  set (m1 := pushed (with_ip m0 (a0, 0 + 2)) (VArgc 0)) in *.
  assert (Hc0_1 : code_in m1 a0 bc0) by (eapply code_in_regs; [| |exact Hc0C]; reflexivity).
  (* MOV lambda %acc *)
  pose proof (step_movimm ob m1 a0 (0 + 2) bc0 (VPtr a) Hc0_1 eq_refl
                (Sg0 [VOp OPushImmediate; VArgc 0] [VOp OMovImmediate; VPtr a; VAcc] _ eq_refl) ltac:(discriminate)) as St2.
  set (m2 := with_acc (with_ip m1 (a0, 0 + 2 + 3)) (VPtr a)) in *.
  assert (Hc0_2 : code_in m2 a0 bc0) by (eapply code_in_regs; [| |exact Hc0C]; reflexivity).
  (* CALL *)
  pose proof (step_call_lambda ob m2 a0 (0 + 2 + 3) bc0 a _ Hc0_2 eq_refl
                (Sg0 [VOp OPushImmediate; VArgc 0; VOp OMovImmediate; VPtr a; VAcc] [VOp OCallAcc] _ eq_refl)
                eq_refl HgetA) as St3.
  set (m3 := with_ip (pushed (pushed (with_ip m2 (a0, 0 + 2 + 3 + 1)) (VEp (ep m2))) (VIp a0 (0 + 2 + 3 + 1))) (a, 0)) in *.
  assert (Hc1_3 : code_in m3 a bc1) by (eapply code_in_regs; [| |exact Hc1C]; reflexivity).
  assert (Hsp3 : sp m3 = sp s + 3) by (cbn [sp m3 m2 m1 m0 pushed with_scap with_stack with_ip with_acc]; rewrite Rsp; lia).
  assert (Hcap3 : sp m3 < scap m3).
  { unfold m3. change (sp (with_ip ?x _)) with (sp x). change (scap (with_ip ?x _)) with (scap x).
    apply pushed_sp_lt. apply pushed_sp_lt. unfold m2, m1. cbn [sp scap with_ip with_acc].
    apply pushed_sp_lt. exact HcapC. }
  assert (Hs3_1 : sget m3 (sp s + 1) = VArgc 0).
  { unfold m3. change (sget (with_ip ?x _) ?j) with (sget x j).
    rewrite sget_pushed_other by (cbn [sp m2 m1 m0 pushed with_scap with_stack with_ip with_acc]; rewrite Rsp; lia).
    rewrite sget_pushed_other by (cbn [sp m2 m1 m0 pushed with_scap with_stack with_ip with_acc]; rewrite Rsp; lia).
    change (sget (with_ip m2 _) ?j) with (sget m1 j). unfold m1.
    replace (sp s + 1) with (sp (with_ip m0 (a0, 0 + 2)) + 1) by (cbn [sp m0 with_ip]; rewrite Rsp; reflexivity).
    apply sget_pushed_top. }
  assert (Hs3_2 : sget m3 (sp s + 2) = VEp (ep s)).
  { unfold m3. change (sget (with_ip ?x _) ?j) with (sget x j).
    rewrite sget_pushed_other by (cbn [sp m2 m1 m0 pushed with_scap with_stack with_ip with_acc]; rewrite Rsp; lia).
    replace (sp s + 2) with (sp (with_ip m2 (a0, 0 + 2 + 3 + 1)) + 1)
      by (cbn [sp m2 m1 m0 pushed with_scap with_stack with_ip with_acc]; rewrite Rsp; lia).
    rewrite sget_pushed_top. cbn [ep m2 m1 m0 pushed with_scap with_stack with_ip with_acc]. rewrite Rep. reflexivity. }
  assert (Hs3_3 : sget m3 (sp s + 3) = VIp a0 (0 + 2 + 3 + 1)).
  { unfold m3. change (sget (with_ip ?x _) ?j) with (sget x j).
    replace (sp s + 3) with (sp (pushed (with_ip m2 (a0, 0 + 2 + 3 + 1)) (VEp (ep m2))) + 1)
      by (cbn [sp m2 m1 m0 pushed with_scap with_stack with_ip with_acc]; rewrite Rsp; lia).
    apply sget_pushed_top. }
  (* ENTER *)
  pose proof (step_enter_top ob m3 a bc1 _ _ Hc1_3 eq_refl eq_refl eq_refl HgetA HlamA HargsA
                ltac:(lia) Hcap3 ltac:(rewrite Hsp3; replace (sp s + 3 - 2) with (sp s + 1) by lia; exact Hs3_1)) as St4.
  set (m4 := with_bp (pushed (with_ip m3 (a, 1)) (VBp (bp m3))) (sp m3 + 1 - 4)) in *.
  assert (Hsp4 : sp m4 = sp s + 4) by (cbn [sp m4 pushed with_bp with_scap with_stack with_ip]; rewrite Hsp3; lia).
  assert (Hbp4 : bp m4 = sp s) by (cbn [bp m4 with_bp]; rewrite Hsp3; lia).
  assert (Hkeep4 : forall j, j <= sp s + 3 -> sget m4 j = sget m3 j).
  { intros j Hj. unfold m4. change (sget (with_bp ?x _) ?k) with (sget x k).
    rewrite sget_pushed_other by (cbn [sp with_ip]; rewrite Hsp3; lia). reflexivity. }
  assert (Hs4_4 : sget m4 (sp s + 4) = VBp (bp s)).
  { unfold m4. change (sget (with_bp ?x _) ?k) with (sget x k).
    replace (sp s + 4) with (sp (with_ip m3 (a, 1)) + 1) by (cbn [sp with_ip]; rewrite Hsp3; lia).
    rewrite sget_pushed_top. cbn [bp m3 m2 m1 m0 pushed with_scap with_stack with_ip with_acc]. rewrite Rbp. reflexivity. }
  assert (RC4 : rext sC m4) by (apply rext_same; try reflexivity; lia).
  pose proof (rx_cext _ _ RC4) as XC4.
  assert (MI4 : minv m4).
  { destruct MIC as [HI GI SP]. constructor; [exact HI|exact GI|].
    unfold m4. change (sp (with_bp ?x _)) with (sp x). change (scap (with_bp ?x _)) with (scap x).
    apply pushed_sp_lt. exact Hcap3. }
  assert (Hc1_4 : code_in m4 a bc1) by (eapply code_in_regs; [| |exact Hc1C]; reflexivity).
  assert (G4 : genv_rel6 mu rho m4) by (eapply genv_rel6_ext; [apply rext_wext; exact RC4|apply prefix6_refl|reflexivity|exact GC]).
  assert (SR4 : store_rel mu sg m4) by (eapply store_rel_rext; eassumption).
  (* the code of e: it ends at RET, or a tail call in it returns from the frame *)
  assert (Hfr4 : frame_at m4 0 (ep s) (a0, 0 + 2 + 3 + 1) (bp s)).
  { unfold frame_at. rewrite Hbp4. rewrite !Hkeep4 by lia. cbn [fst snd]. repeat split; auto. lia. }
  assert (Ht4 : tframe m4) by (exists 0, (ep s), (a0, 0 + 2 + 3 + 1), (bp s); split; [exact Hfr4|lia]).
  assert (Hret : exists k m6 mu6, steps k m4 = Some m6 /\ prefix6 mu mu6 /\ cext m4 m6 /\ minv m6 /\ vrep6 mu6 m6 (acc m6) r /\
            genv_rel6 mu6 rho' m6 /\ store_rel mu6 sg' m6 /\ sp m6 = sp s /\ ep m6 = ep s /\ ip m6 = (a0, 0 + 2 + 3 + 1) /\ bp m6 = bp s /\
            out_log m6 = out_log m4).
  { destruct (EX m4 mu a bc1 (cext_trans _ _ _ XB (cext_trans _ _ _ XC XC4)) MI4 Hc1_4
              (Sg1 [VOp OEnter] code [VOp ORet] ltac:(unfold bc1; rewrite <- app_assoc; reflexivity)) eq_refl G4
              (lrel6_nil mu m4) SR4 (fun _ => Ht4))
      as [(n & m5 & mu5 & St5 & Pf5 & Fr5' & MI5 & Hip5 & V5 & G5 & SR5)|
          [_ (n & m6 & mu6 & k' & e' & i' & b' & St6 & Pf6 & Hfr' & X46 & MI6 & V6 & G6 & SR6 & Q1 & Q2 & Q3 & Q4 & Q5 & _)]].
    - pose proof (f6_frame _ _ Fr5') as Fr5.
      change (len (fwd top_lam)) with 1 in Hip5.
      pose proof (code_in_ext _ _ _ _ Hc1_4 (fr_ext _ _ Fr5)) as Hc1_5.
      assert (Hbp5 : bp m5 = sp s) by (rewrite (fr_bp _ _ Fr5); exact Hbp4).
      assert (Hsp5 : sp m5 = sp s + 4) by (rewrite (fr_sp _ _ Fr5); exact Hsp4).
      assert (Hk5 : forall j, j <= sp s + 4 -> sget m5 j = sget m4 j) by (intros j Hj; apply (fr_stack _ _ Fr5); lia).
      assert (SgR : seg bc1 (1 + len code) [VOp ORet]).
      { replace (1 + len code) with (len ([VOp OEnter] ++ code)) by (lens; lia).
        apply (Sg1 _ _ []). unfold bc1. rewrite app_nil_r. reflexivity. }
      pose proof (step_ret ob m5 a (1 + len code) bc1 (ep s) a0 (0 + 2 + 3 + 1) (bp s) Hc1_5 Hip5 SgR) as St6.
      assert (Hcap5 : bp m5 + 4 < scap m5) by (rewrite Hbp5, <- Hsp5; apply MI5).
      specialize (St6 Hcap5).
      rewrite Hbp5 in St6.
      specialize (St6 ltac:(rewrite Hk5, Hkeep4 by lia; exact Hs3_1) ltac:(rewrite Hk5, Hkeep4 by lia; exact Hs3_2)
                      ltac:(rewrite Hk5, Hkeep4 by lia; exact Hs3_3) ltac:(rewrite Hk5 by lia; exact Hs4_4)).
      set (m6 := with_bp (with_ip (with_ep (with_sp (with_ip m5 (a, 1 + len code + 1)) (sp s - 0)) (ep s)) (a0, 0 + 2 + 3 + 1)) (bp s)) in *.
      assert (R56 : rext m5 m6) by (apply rext_same; try reflexivity; lia).
      pose proof (rx_cext _ _ R56) as X56.
      exists (n + 1)%nat, m6, mu5. split; [eapply steps_trans; [exact St5|apply steps_one; exact St6]|].
      split; [exact Pf5|].
      split; [eapply cext_trans; [apply Fr5|exact X56]|].
      split.
      { destruct MI5 as [HI GI SP]. constructor; [exact HI|exact GI|].
        cbn [sp scap m6 with_bp with_ip with_ep with_sp with_stack]. lia. }
      split; [eapply vrep6_ext; [apply rext_wext; exact R56|apply prefix6_refl|exact V5]|].
      split; [eapply genv_rel6_ext; [apply rext_wext; exact R56|apply prefix6_refl|reflexivity|exact G5]|].
      split; [eapply store_rel_rext; eassumption|].
      split; [cbn [sp m6 with_bp with_ip with_ep with_sp with_stack]; lia|].
      split; [reflexivity|]. split; [reflexivity|]. split; [reflexivity|].
      cbn [out_log m6 with_bp with_ip with_ep with_sp with_stack]. apply Fr5.
    - destruct Hfr4 as (W1 & W2 & W3 & W4 & _). destruct Hfr' as (W1' & W2' & W3' & W4' & _).
      rewrite W1 in W1'. rewrite W2 in W2'. rewrite W3 in W3'. rewrite W4 in W4'.
      injection W1' as <-. injection W2' as <-. injection W4' as <-. cbn [fst snd] in W3'.
      assert (i' = (a0, 0 + 2 + 3 + 1)) as -> by (destruct i'; cbn [fst snd] in W3'; congruence).
      exists n, m6, mu6. split; [exact St6|]. split; [exact Pf6|]. split; [apply X46|]. split; [exact MI6|]. split; [exact V6|].
      split; [exact G6|]. split; [exact SR6|]. split; [rewrite Q1, Hbp4; lia|]. split; [exact Q2|]. split; [exact Q3|].
      split; [exact Q4|exact Q5]. }
  destruct Hret as (n & m6 & mu6 & St6 & Pf6 & X46 & MI6 & V6 & G6 & SR6 & Hsp6 & Hep6 & Hip6 & Hbp6 & Hlog6).
  (* HALT *)
  assert (Hc0_6 : code_in m6 a0 bc0).
  { eapply code_in_ext; [|exact X46]. eapply code_in_ext; [exact Hc0C|exact XC4]. }
  pose proof (step_halt ob m6 a0 (0 + 2 + 3 + 1) bc0 Hc0_6 Hip6
                (Sg0 [VOp OPushImmediate; VArgc 0; VOp OMovImmediate; VPtr a; VAcc; VOp OCallAcc] [VOp OHalt] [] eq_refl)) as St7.
  set (m7 := with_ip m6 (a0, 0 + 2 + 3 + 1 + 1)) in *.
  exists (1 + 1 + 1 + 1 + n + 1)%nat, m7, mu6. split.
  { intros fuel Hfuel. unfold eval. rewrite Hprep. unfold run_count.
    replace fuel with ((1 + 1 + 1 + 1 + n) + S (fuel - (1 + 1 + 1 + 1 + n + 1)))%nat by lia.
    rewrite (run_loop_steps ob (1 + 1 + 1 + 1 + n) m0 m6).
    - rewrite run_loop_S, St7. reflexivity.
    - eapply steps_trans; [|exact St6].
      eapply steps_trans; [|apply steps_one; exact St4].
      eapply steps_trans; [|apply steps_one; exact St3].
      eapply steps_trans; [apply steps_one; exact St1|apply steps_one; exact St2]. }
  assert (R67 : rext m6 m7) by (apply rext_same; try reflexivity; lia).
  pose proof (rx_cext _ _ R67) as X67.
  split; [exact Pf6|].
  split; [eapply vrep6_ext; [apply rext_wext; exact R67|apply prefix6_refl|exact V6]|].
  split; [eapply genv_rel6_ext; [apply rext_wext; exact R67|apply prefix6_refl|reflexivity|exact G6]|].
  split; [eapply store_rel_rext; eassumption|].
  split.
  { destruct MI6 as [HI GI SP]. constructor; [exact HI|exact GI|exact SP]. }
  split; [eapply cext_trans; [exact XsC|]; eapply cext_trans; [exact XC4|]; eapply cext_trans; [exact X46|exact X67]|].
  split; [exact Hsp6|]. split; [exact Hbp6|]. split; [exact Hep6|].
  change (out_log m7) with (out_log m6). rewrite Hlog6.
  cbn [out_log m4 m3 m2 m1 m0 pushed with_bp with_scap with_stack with_ip with_acc]. exact Rlog.
Qed.

(* ... with `Done` as conclusion when the value is a datum or a builtin (the premise on the model's
   get_as_cell fuel as in eval_fragment_done) *)
Theorem eval_fragment6_done e mu sg rho b sg' rho' s :
  wf6 e [] -> ref_eval6 bsem [] [] sg rho e (R6Base b) sg' rho' -> minv s -> genv_rel6 mu rho s -> store_rel mu sg s ->
  transform_expr TRANSFORM_FUEL s (cell_of6 e) = Ok (cell_of6 e) ->
  exists n m mu', prefix6 mu mu' /\
    vrep (acc m) b (hp m) (st m) /\ genv_rel6 mu' rho' m /\ store_rel mu' sg' m /\ minv m /\ cext s m /\
    sp m = sp s /\ bp m = bp s /\ ep m = ep s /\ out_log m = out_log s /\
    (forall fuel, (n <= fuel)%nat -> eval ob fuel (cell_of6 e) s = halt_result m) /\
    (halt_result m <> RNoFuel \/ (no_ptr_cells (hp m) /\ (rcost b <= cell_fuel m)%nat) ->
     forall fuel, (n <= fuel)%nat ->
       eval ob fuel (cell_of6 e) s = ROk (Done (rcell b)) (with_stack m tempty (sp m))).
Proof.
  intros Hwf HR MI G SR Htr.
  destruct (eval_fragment6 e mu sg rho (R6Base b) sg' rho' s Hwf HR MI G SR Htr)
    as (n & m & mu' & Hev & Pf & V & G' & SR' & MI' & X & Hsp & Hbp & Hep & Hlog).
  cbn [vrep6] in V. exists n, m, mu'. do 10 (split; [assumption|]). split; [exact Hev|].
  intros [Hnf|[Hnp Hc]] fuel Hfuel; rewrite (Hev fuel Hfuel).
  - apply halt_result_done_nofuel; assumption.
  - apply halt_result_done_cost; assumption.
Qed.
End Eval6.

End Run6.

Print Assumptions compile_correct6.
Print Assumptions eval_fragment6.

(* the state in which an evaluation ends with `Done` satisfies the hypotheses of the next one:
   sessions compose *)
Lemma done_state_ok6 mu sg rho m : minv m -> genv_rel6 mu rho m -> store_rel mu sg m ->
  minv (with_stack m tempty (sp m)) /\ genv_rel6 mu rho (with_stack m tempty (sp m)) /\
  store_rel mu sg (with_stack m tempty (sp m)).
Proof.
  intros [HI GI SP] G SR. split; [constructor; assumption|].
  assert (R : rext m (with_stack m tempty (sp m))) by (apply rext_same; try reflexivity; lia).
  split; [apply (genv_rel6_ext mu mu rho m); [apply rext_wext; exact R|apply prefix6_refl|reflexivity|exact G]|].
  eapply store_rel_rext; eassumption.
Qed.


Print Assumptions compile_correct6.
Print Assumptions eval_fragment6.

(* ============================================================ non-vacuity *)
Ltac in_cases6 H := repeat (destruct H as [<-|H]; [|]); try contradiction.

Definition n6 : text := S_ "n".
Definition u6 : text := S_ "u".
Definition inc6 : text := S_ "inc".
Definition T6 : expr6 := WConst (CBool true).
Definition F6 : expr6 := WConst (CBool false).
Definition vB6 (b : bool) : rval6 := R6Base (RDatum (CBool b)).
Definition vVoid6 : rval6 := R6Base (RDatum CVoid).

Lemma wf6_bool b sc : wf6 (WConst (CBool b)) sc.
Proof. cbn [wf6]. split; [reflexivity|]. destruct b; cbn; tauto. Qed.

(* (a)  ((lambda (n) ((lambda (u) n) (set! n #t))) #f)  — set! on a parameter the running lambda
   owns (direct slot), in operand position; observed afterwards through a closure that captured n
   (pointer slot): #t *)
Definition get6 : expr6 := WLam [u6] [n6] [WVar n6].
Definition exa6_body : expr6 := WApp get6 [WSet n6 T6].
Definition exa6 : expr6 := WApp (WLam [n6] [] [exa6_body]) [F6].

Lemma exa6_hypotheses :
  wf6 exa6 [] /\ minv (vm_empty 8192) /\ genv_rel6 [] rho6_empty (vm_empty 8192) /\ store_rel [] [] (vm_empty 8192) /\
  ref_eval6 bsem_not [] [] [] rho6_empty exa6 (vB6 true) [vB6 true; vVoid6] rho6_empty.
Proof.
  split.
  { apply wf6_app. split; [reflexivity|]. split; [|repeat constructor; apply wf6_bool].
    apply wf6_lam. split; [discriminate|]. split; [intros x Hx; in_cases6 Hx; reflexivity|].
    split; [intros b Hb; in_cases6 Hb; reflexivity|]. split; [vm_compute; reflexivity|].
    split; [intros x Hx; cbn in Hx; in_cases6 Hx; left; left; reflexivity|].
    constructor; [|constructor]. apply wf6_app. split; [reflexivity|]. split.
    - apply wf6_lam. split; [discriminate|]. split; [intros x Hx; in_cases6 Hx; reflexivity|].
      split; [intros b Hb; in_cases6 Hb; reflexivity|]. split; [vm_compute; reflexivity|].
      split; [intros x Hx; cbn in Hx; in_cases6 Hx; right; right; left; reflexivity|].
      constructor; [reflexivity|constructor].
    - constructor; [|constructor]. cbn [wf6]. split; [reflexivity|apply wf6_bool]. }
  split; [apply minv_vm_empty; reflexivity|]. split; [apply genv_rel6_empty|]. split; [apply store_rel_nil|].
  unfold exa6. eapply (R6_app_closure bsem_not _ _ _ _ _ _ [vB6 false] _ _ [n6] [] _ [] _ _ [vB6 true] [] (vB6 true)).
  - eapply R6_cons; [apply R6_const|apply R6_nil].
  - apply (R6_lam bsem_not [] [] _ _ [n6] [] _ []). constructor.
  - reflexivity.
  - (* the body, n at location 0 *)
    eapply R6_cons; [|apply R6_nil]. unfold exa6_body.
    eapply (R6_app_closure bsem_not _ _ _ _ _ _ [vVoid6] _ _ [u6] [n6] _ [0%nat] _ _ [vB6 true] [] (vB6 true)).
    + eapply R6_cons; [|apply R6_nil].
      eapply (R6_setl bsem_not _ _ _ _ n6 T6 _ _ _ 0 0%nat); [reflexivity|reflexivity|apply R6_const|cbn; lia].
    + unfold get6. apply (R6_lam bsem_not [n6] [0%nat] _ _ [u6] [n6] _ [0%nat]).
      constructor; [exists 0; split; reflexivity|constructor].
    + reflexivity.
    + (* n is slot 1 of the inner activation, still location 0 *)
      eapply R6_cons; [|apply R6_nil]. eapply (R6_local bsem_not _ _ _ _ n6 1 0%nat); reflexivity.
    + reflexivity.
  - reflexivity.
Qed.

Lemma exa6_run :
  transform_expr TRANSFORM_FUEL (vm_empty 8192) (cell_of6 exa6) = Ok (cell_of6 exa6) /\
  match eval Model.Builtins.other_builtin 300 (cell_of6 exa6) (vm_empty 8192) with
  | ROk (Done c) s' => c = CBool true /\ sp s' = 0 /\ bp s' = 0 /\ ep s' = USIZE_MAX
  | _ => False
  end.
Proof. vm_compute. repeat split. Qed.

(* (b) THE COUNTER  ((lambda (n) ((lambda (inc) (inc) ... (inc)) (lambda () (set! n (if n #f #t)) n))) #f):
   every call of the thunk toggles the captured n (a pointer slot of the thunk's activation
   environment, the direct slot 0 of the outer activation) and returns it *)
Definition thunk_bodies6 : list expr6 := [WSet n6 (WIf (WVar n6) F6 T6); WVar n6].
Definition thunk6 : expr6 := WLam [] [n6] thunk_bodies6.
Definition thunk_val6 : rval6 := R6Clo [] [n6] thunk_bodies6 [0%nat].
Definition call6 : expr6 := WApp (WVar inc6) [].
Definition counter6_of (calls : list expr6) : expr6 :=
  WApp (WLam [n6] [] [WApp (WLam [inc6] [] calls) [thunk6]]) [F6].
Definition counter6 : expr6 := counter6_of [call6; call6].
Definition counter6_1 : expr6 := counter6_of [call6].
Definition counter6_3 : expr6 := counter6_of [call6; call6; call6].

(* the concrete syntax *)
Definition counter6_src : text :=
  S_ "((lambda (n) ((lambda (inc) (inc) (inc)) (lambda () (set! n (if n #f #t)) n))) #f)"%string.
Lemma counter6_parse : match parse_text counter6_src with Ok (d, _) => d = cell_of6 counter6 | _ => False end.
Proof. vm_compute. reflexivity. Qed.

Lemma thunk6_wf : wf6 thunk6 [n6].
Proof.
  apply wf6_lam. split; [discriminate|]. split; [intros x []|].
  split; [intros b Hb; in_cases6 Hb; reflexivity|]. split; [vm_compute; reflexivity|].
  split; [intros x Hx; cbn in Hx; in_cases6 Hx; right; right; left; reflexivity|].
  constructor; [|constructor; [reflexivity|constructor]].
  cbn [wf6]. split; [reflexivity|]. split; [reflexivity|]. split; apply wf6_bool.
Qed.
Lemma call6_wf : wf6 call6 [inc6].
Proof. apply wf6_app. split; [reflexivity|]. split; [reflexivity|constructor]. Qed.

Ltac counter6_wf_tac :=
  apply wf6_app; split; [reflexivity|]; split; [|repeat constructor; apply wf6_bool];
  apply wf6_lam; split; [discriminate|]; split; [intros x Hx; in_cases6 Hx; reflexivity|];
  split; [intros b Hb; in_cases6 Hb; reflexivity|]; split; [vm_compute; reflexivity|];
  split; [intros x Hx; cbn in Hx; in_cases6 Hx; first [left; left; reflexivity | right; left; reflexivity]|];
  constructor; [|constructor];
  apply wf6_app; split; [reflexivity|]; split; [|constructor; [apply thunk6_wf|constructor]];
  apply wf6_lam; split; [discriminate|]; split; [intros x Hx; in_cases6 Hx; reflexivity|];
  split; [intros b Hb; in_cases6 Hb; reflexivity|]; split; [vm_compute; reflexivity|];
  split; [intros x Hx; cbn in Hx; in_cases6 Hx; left; left; reflexivity|];
  repeat (constructor; [apply call6_wf|]); constructor.

Lemma counter6_wf : wf6 counter6 [].
Proof. counter6_wf_tac. Qed.
Lemma counter6_1_wf : wf6 counter6_1 [].
Proof. counter6_wf_tac. Qed.
Lemma counter6_3_wf : wf6 counter6_3 [].
Proof. counter6_wf_tac. Qed.

(* one call of the thunk: n (location 0) is toggled, the new content is the value *)
Lemma call6_ref b :
  ref_eval6 bsem_not [inc6] [1%nat] [vB6 b; thunk_val6] rho6_empty call6
            (vB6 (negb b)) [vB6 (negb b); thunk_val6] rho6_empty.
Proof.
  unfold call6.
  eapply (R6_app_closure bsem_not _ _ _ _ _ _ [] _ _ [] [n6] thunk_bodies6 [0%nat] _ _
            [vVoid6; vB6 (negb b)] [vVoid6] (vB6 (negb b))).
  - apply R6_nil.
  - eapply (R6_local bsem_not _ _ _ _ inc6 0 1%nat); reflexivity.
  - reflexivity.
  - (* the two body expressions under the scope [n], n = slot 0 -> location 0 *)
    eapply R6_cons; [|eapply R6_cons; [|apply R6_nil]].
    + eapply (R6_setl bsem_not _ _ _ _ n6 _ (vB6 (negb b)) [vB6 b; thunk_val6] rho6_empty 0 0%nat);
        [reflexivity|reflexivity| |cbn; lia].
      destruct b.
      * eapply R6_if_t; [eapply (R6_local bsem_not _ _ _ _ n6 0 0%nat); reflexivity|reflexivity|apply R6_const].
      * eapply R6_if_f; [eapply (R6_local bsem_not _ _ _ _ n6 0 0%nat); reflexivity|reflexivity|apply R6_const].
    + eapply (R6_local bsem_not _ _ _ _ n6 0 0%nat); reflexivity.
  - reflexivity.
Qed.

(* the counter, for any sequence of calls with a derivation from the store [#f; thunk] *)
Lemma counter6_of_ref calls vs pre r b :
  ref_evals6 bsem_not [inc6] [1%nat] [vB6 false; thunk_val6] rho6_empty calls vs [vB6 b; thunk_val6] rho6_empty ->
  vs = pre ++ [r] ->
  ref_eval6 bsem_not [] [] [] rho6_empty (counter6_of calls) r [vB6 b; thunk_val6] rho6_empty.
Proof.
  intros HR Hvs. unfold counter6_of.
  eapply (R6_app_closure bsem_not _ _ _ _ _ _ [vB6 false] _ _ [n6] [] _ [] _ _ [r] [] r).
  - eapply R6_cons; [apply R6_const|apply R6_nil].
  - apply (R6_lam bsem_not [] [] _ _ [n6] [] _ []). constructor.
  - reflexivity.
  - (* n at location 0 *)
    eapply R6_cons; [|apply R6_nil].
    eapply (R6_app_closure bsem_not _ _ _ _ _ _ [thunk_val6] _ _ [inc6] [] calls [] _ _ vs pre r).
    + eapply R6_cons; [|apply R6_nil].
      apply (R6_lam bsem_not [n6] [0%nat] _ _ [] [n6] thunk_bodies6 [0%nat]).
      constructor; [exists 0; split; reflexivity|constructor].
    + apply (R6_lam bsem_not [n6] [0%nat] _ _ [inc6] [] calls []). constructor.
    + reflexivity.
    + (* inc at location 1 holds the thunk *) exact HR.
    + exact Hvs.
  - reflexivity.
Qed.

Lemma counter6_hypotheses :
  wf6 counter6 [] /\ minv (vm_empty 8192) /\ genv_rel6 [] rho6_empty (vm_empty 8192) /\ store_rel [] [] (vm_empty 8192) /\
  ref_eval6 bsem_not [] [] [] rho6_empty counter6 (vB6 false) [vB6 false; thunk_val6] rho6_empty.
Proof.
  split; [exact counter6_wf|]. split; [apply minv_vm_empty; reflexivity|]. split; [apply genv_rel6_empty|].
  split; [apply store_rel_nil|].
  apply (counter6_of_ref [call6; call6] [vB6 true; vB6 false] [vB6 true] (vB6 false) false); [|reflexivity].
  eapply R6_cons; [apply (call6_ref false)|]. eapply R6_cons; [apply (call6_ref true)|apply R6_nil].
Qed.
(* one call: #t; three calls: #t *)
Lemma counter6_1_ref :
  ref_eval6 bsem_not [] [] [] rho6_empty counter6_1 (vB6 true) [vB6 true; thunk_val6] rho6_empty.
Proof.
  apply (counter6_of_ref [call6] [vB6 true] [] (vB6 true) true); [|reflexivity].
  eapply R6_cons; [apply (call6_ref false)|apply R6_nil].
Qed.
Lemma counter6_3_ref :
  ref_eval6 bsem_not [] [] [] rho6_empty counter6_3 (vB6 true) [vB6 true; thunk_val6] rho6_empty.
Proof.
  apply (counter6_of_ref [call6; call6; call6] [vB6 true; vB6 false; vB6 true] [vB6 true; vB6 false] (vB6 true) true); [|reflexivity].
  eapply R6_cons; [apply (call6_ref false)|]. eapply R6_cons; [apply (call6_ref true)|].
  eapply R6_cons; [apply (call6_ref false)|apply R6_nil].
Qed.

(* ... and the model evaluates the three forms to #f, #t, #t with the registers of the start *)
Lemma counter6_run :
  transform_expr TRANSFORM_FUEL (vm_empty 8192) (cell_of6 counter6) = Ok (cell_of6 counter6) /\
  match eval Model.Builtins.other_builtin 300 (cell_of6 counter6) (vm_empty 8192) with
  | ROk (Done c) s' => c = CBool false /\ sp s' = 0 /\ bp s' = 0 /\ ep s' = USIZE_MAX
  | _ => False
  end.
Proof. vm_compute. repeat split. Qed.
Lemma counter6_1_run :
  transform_expr TRANSFORM_FUEL (vm_empty 8192) (cell_of6 counter6_1) = Ok (cell_of6 counter6_1) /\
  match eval Model.Builtins.other_builtin 300 (cell_of6 counter6_1) (vm_empty 8192) with
  | ROk (Done c) s' => c = CBool true /\ sp s' = 0 /\ bp s' = 0 /\ ep s' = USIZE_MAX
  | _ => False
  end.
Proof. vm_compute. repeat split. Qed.
Lemma counter6_3_run :
  transform_expr TRANSFORM_FUEL (vm_empty 8192) (cell_of6 counter6_3) = Ok (cell_of6 counter6_3) /\
  match eval Model.Builtins.other_builtin 300 (cell_of6 counter6_3) (vm_empty 8192) with
  | ROk (Done c) s' => c = CBool true /\ sp s' = 0 /\ bp s' = 0 /\ ep s' = USIZE_MAX
  | _ => False
  end.
Proof. vm_compute. repeat split. Qed.

(* ============================================================ C06: no panic on fragment 6 *)
Lemma fragment6_outcome ob bsem : (forall b, builtin_ok ob bsem b) -> (forall b, builtin_envs ob bsem b) ->
  forall e mu sg rho b sg' rho' s,
  wf6 e [] -> ref_eval6 bsem [] [] sg rho e (R6Base b) sg' rho' -> minv s -> genv_rel6 mu rho s -> store_rel mu sg s ->
  transform_expr TRANSFORM_FUEL s (cell_of6 e) = Ok (cell_of6 e) ->
  forall fuel, eval ob fuel (cell_of6 e) s = RNoFuel \/
               exists s', eval ob fuel (cell_of6 e) s = ROk (Done (rcell b)) s'.
Proof.
  intros Hb He e mu sg rho b sg' rho' s Hwf HR MI G SR Htr fuel.
  destruct (eval_fragment6 ob bsem Hb He e mu sg rho (R6Base b) sg' rho' s Hwf HR MI G SR Htr) as (n & m & mu' & Hev & _ & V & _).
  cbn [vrep6] in V. destruct (eval_halt_cases ob _ s n m b Hev V fuel) as [H|H]; [left; exact H|right; eauto].
Qed.
Lemma fragment6_no_panic ob bsem : (forall b, builtin_ok ob bsem b) -> (forall b, builtin_envs ob bsem b) ->
  forall e mu sg rho b sg' rho' s,
  wf6 e [] -> ref_eval6 bsem [] [] sg rho e (R6Base b) sg' rho' -> minv s -> genv_rel6 mu rho s -> store_rel mu sg s ->
  transform_expr TRANSFORM_FUEL s (cell_of6 e) = Ok (cell_of6 e) ->
  forall fuel k, eval ob fuel (cell_of6 e) s <> RPanic k.
Proof.
  intros Hb He e mu sg rho b sg' rho' s Hwf HR MI G SR Htr fuel k E.
  destruct (fragment6_outcome ob bsem Hb He e mu sg rho b sg' rho' s Hwf HR MI G SR Htr fuel) as [H|[s' H]]; rewrite H in E; discriminate.
Qed.

(* the empty store: a fresh session *)
Corollary eval_fragment6_fresh ob bsem : (forall b, builtin_ok ob bsem b) -> (forall b, builtin_envs ob bsem b) ->
  forall e rho r sg' rho' s,
  wf6 e [] -> ref_eval6 bsem [] [] [] rho e r sg' rho' -> minv s -> genv_rel6 [] rho s ->
  transform_expr TRANSFORM_FUEL s (cell_of6 e) = Ok (cell_of6 e) ->
  exists n m mu', (forall fuel, (n <= fuel)%nat -> eval ob fuel (cell_of6 e) s = halt_result m) /\
    vrep6 mu' m (acc m) r /\ genv_rel6 mu' rho' m /\ store_rel mu' sg' m /\ minv m /\ cext s m /\
    sp m = sp s /\ bp m = bp s /\ ep m = ep s /\ out_log m = out_log s.
Proof.
  intros Hb He e rho r sg' rho' s Hwf HR MI G Htr.
  destruct (eval_fragment6 ob bsem Hb He e [] [] rho r sg' rho' s Hwf HR MI G (store_rel_nil s) Htr)
    as (n & m & mu' & Hev & _ & H). exists n, m, mu'. split; [exact Hev|exact H].
Qed.

(* ============================================================ the statements, spelled out *)
Theorem fragment6_static : forall e sc, wf6 e sc ->
  forall f l tail s, (cell_size (cell_of6 e) < f)%nat -> hdr6 l sc s -> minv s ->
  exists l' s' code, compile_expression f l tail (cell_of6 e) s = ROk l' s' /\
    fwd l' = fwd l ++ code /\ same_hdr l l' /\ minv s' /\ cext s s' /\ same_regs s s' /\
    envs (st s') = envs (st s).
Proof. exact static6. Qed.

Theorem fragment6_correct :
  forall (ob : N -> M vcell) (bsem : N -> list rval -> option rval),
  (forall b, builtin_ok ob bsem b) -> (forall b, builtin_envs ob bsem b) ->
  forall sc lv sg rho e r sg' rho', ref_eval6 bsem sc lv sg rho e r sg' rho' ->
  forall f l tail s l' s' code, wf6 e sc -> (cell_size (cell_of6 e) < f)%nat -> hdr6 l sc s -> minv s ->
    compile_expression f l tail (cell_of6 e) s = ROk l' s' -> fwd l' = fwd l ++ code ->
    forall m mu lp bc,
      cext s' m -> minv m -> code_in m lp bc -> seg bc (len (fwd l)) code -> ip m = (lp, len (fwd l)) ->
      genv_rel6 mu rho m -> lrel6 mu lv m -> store_rel mu sg m -> (tail = true -> tframe m) ->
      ok_n6 ob mu sg' m lp (len (fwd l) + len code) r rho' \/ (tail = true /\ ok_t6 ob mu sg' m r rho').
Proof. exact compile_correct6. Qed.

Theorem ok_n6_unfold : forall ob mu sg' m lp q r rho', ok_n6 ob mu sg' m lp q r rho' <->
  exists n m' mu', RunProofs.steps ob n m = Some m' /\ prefix6 mu mu' /\ frame6 m m' /\ minv m' /\ ip m' = (lp, q) /\
    vrep6 mu' m' (acc m') r /\ genv_rel6 mu' rho' m' /\ store_rel mu' sg' m'.
Proof. intros; reflexivity. Qed.
Theorem ok_t6_unfold : forall ob mu sg' m r rho', ok_t6 ob mu sg' m r rho' <->
  exists n m' mu' k e i b, RunProofs.steps ob n m = Some m' /\ prefix6 mu mu' /\ frame_at m k e i b /\ wext m m' /\ minv m' /\
    vrep6 mu' m' (acc m') r /\ genv_rel6 mu' rho' m' /\ store_rel mu' sg' m' /\
    sp m' = bp m - k /\ ep m' = e /\ ip m' = i /\ bp m' = b /\ out_log m' = out_log m /\
    (forall j, j <= bp m - k -> sget m' j = sget m j).
Proof. intros; reflexivity. Qed.
Theorem prefix6_unfold : forall mu mu', prefix6 mu mu' <-> exists more, mu' = mu ++ more.
Proof. intros; reflexivity. Qed.
Theorem wenvs_unfold : forall m m', wenvs m m' <->
  forall e sl, e < next_id (st m) -> tget (envs (st m)) e = Some sl ->
    exists sl', tget (envs (st m')) e = Some sl' /\ len sl' = len sl /\
      (forall k a j, list_get sl k = Some (VLexPtr a j) -> list_get sl' k = Some (VLexPtr a j)) /\
      (forall k w, list_get sl k = Some w -> (forall a j, w <> VLexPtr a j) ->
         exists w', list_get sl' k = Some w' /\ (forall a j, w' <> VLexPtr a j)).
Proof. intros; reflexivity. Qed.
Theorem wext_unfold : forall m m', wext m m' <-> cext m m' /\ wenvs m m'.
Proof. intros m m'. split; [intros [X E]; auto|intros [X E]; split; assumption]. Qed.
Theorem frame6_unfold : forall m m', frame6 m m' <-> frame m m' /\ wenvs m m'.
Proof. intros m m'. split; [intros [X E]; auto|intros [X E]; split; assumption]. Qed.

(* the representation of a closure value: the captured slots of its closure environment are the
   pointers the location map gives to the captured locations *)
Theorem vrep6_closure_unfold : forall mu m v ps cs bodies clocs, vrep6 mu m v (R6Clo ps cs bodies clocs) <->
  exists cp lamp cep ceid cslots, v = VPtr cp /\
    allocated (hp m) cp /\ cell_at (hp m) cp = VClosure lamp cep /\
    allocated (hp m) cep /\ cell_at (hp m) cep = VLexEnv ceid /\ ceid < next_id (st m) /\
    tget (envs (st m)) ceid = Some cslots /\ len cslots = len ps + len cs /\
    length clocs = length cs /\ closure_code6 m lamp ps cs bodies /\
    all_idx6 (fun i l => exists a j, nth_error mu l = Some (a, j) /\ list_get cslots i = Some (VLexPtr a j))
             clocs (len ps).
Proof. intros; reflexivity. Qed.
Theorem vrep6_base_unfold : forall mu m v b, vrep6 mu m v (R6Base b) <-> vrep v b (hp m) (st m).
Proof. intros; reflexivity. Qed.
Theorem store_rel_unfold : forall mu sg m, store_rel mu sg m <->
  length mu = length sg /\
  (forall l a j r, nth_error mu l = Some (a, j) -> nth_error sg l = Some r ->
     exists eid sl w, allocated (hp m) a /\ cell_at (hp m) a = VLexEnv eid /\ eid < next_id (st m) /\
       tget (envs (st m)) eid = Some sl /\ list_get sl j = Some w /\ (forall a' j', w <> VLexPtr a' j') /\ vrep6 mu m w r) /\
  (forall l1 l2 a1 a2 j eid, nth_error mu l1 = Some (a1, j) -> nth_error mu l2 = Some (a2, j) ->
     cell_at (hp m) a1 = VLexEnv eid -> cell_at (hp m) a2 = VLexEnv eid -> l1 = l2).
Proof. intros; reflexivity. Qed.
Theorem lrel6_unfold : forall mu lv m, lrel6 mu lv m <->
  forall i l, nth_error lv (N.to_nat i) = Some l ->
  exists eid slots v a j, allocated (hp m) (ep m) /\ cell_at (hp m) (ep m) = VLexEnv eid /\
    eid < next_id (st m) /\ tget (envs (st m)) eid = Some slots /\ list_get slots i = Some v /\
    nth_error mu l = Some (a, j) /\
    (((forall a' j', v <> VLexPtr a' j') /\ a = ep m /\ j = i) \/ v = VLexPtr a j).
Proof. intros; reflexivity. Qed.
Theorem genv_rel6_unfold : forall mu rho m, genv_rel6 mu rho m <->
  forall x r, rho x = Some r -> exists a k v,
    allocated (hp m) a /\ cell_at (hp m) a = VSym x /\ assoc_find (g_bind m) a = Some k /\
    list_get (g_slots m) k = Some v /\ vrep6 mu m v r.
Proof. intros; reflexivity. Qed.
Theorem closure_code_unfold6 : forall m lamp ps cs bodies, closure_code6 m lamp ps cs bodies <->
  exists lam caps cb f lam2 s0 lam3 s0',
    lam_in m lamp lam /\ l_envmap lam = ScopeProofs.enum_args (l_args lam) 0 ++ caps /\
    Forall2 (pname m) (l_args lam) ps /\
    Forall (fun e => exists k, snd e = BIofEnvironment k) caps /\ length caps = length cs /\
    l_bc lam = [VOp OEnter] ++ cb ++ [VOp ORet] /\
    bodies <> [] /\ (cell_size (cells_of6 bodies) < f)%nat /\ Forall (fun b => wf6 b (ps ++ cs)) bodies /\
    hdr6 lam2 (ps ++ cs) s0 /\ minv s0 /\
    compile_bodies6 f lam2 (map cell_of6 bodies) s0 = ROk lam3 s0' /\
    fwd lam2 = [VOp OEnter] /\ fwd lam3 = fwd lam2 ++ cb /\ cext s0' m.
Proof. intros; reflexivity. Qed.
Theorem compile_bodies_is_body_loop6 : forall f bodies lam s,
  body_loop6 (compile_expression f) (fold_right CPair CNil bodies) lam s = compile_bodies6 f lam bodies s.
Proof. exact compile_bodies_eq6. Qed.
(* the header predicate is the one of fragments 3 and 4 *)
Theorem hdr6_is_hdr3 : forall l sc s, hdr6 l sc s <-> Closures3.hdr3 l sc s.
Proof. intros; reflexivity. Qed.

Print Assumptions fragment6_static.
Print Assumptions fragment6_correct.
Print Assumptions eval_fragment6_done.
Print Assumptions done_state_ok6.
Print Assumptions exa6_hypotheses.
Print Assumptions exa6_run.
Print Assumptions counter6_hypotheses.
Print Assumptions counter6_run.
Print Assumptions counter6_1_ref.
Print Assumptions counter6_3_ref.
Print Assumptions fragment6_no_panic.
