(* EnvProofs.v — C02, run-time half, part 2: activation environments are FRESH heap
   objects (ENTER, run.rs:237-265), they survive RET (run.rs:299-311), and the
   whole-machine invariant "every LexPtr stored in an environment leads to a cell that
   is not itself a LexPtr" (locations are flat).

   An environment is TWO things in the model (as in the Rust): a heap cell holding
   [VLexEnv eid] (the address is what %ep, closures and LexPtr name) and the Rc payload
   [envs (st s)] at [eid] (the slots).  Freshness is proved for both: the address was
   not allocated before the instruction ([heap_inv]: the free list holds exactly free
   cells), the id is [next_id] (ids are never reused: [store_wf]).                  *)
From Coq Require Import Lia List.
From MW Require Import Model.Base Model.F64 Model.Num Model.Datum Model.TransformDef Model.Transform
  Model.VmTypes Model.Heap Model.Gc Model.VmBase Model.Compile Model.Vm
  Proofs.GcProofs Proofs.SymtabProofs Proofs.VmProofs0 Proofs.TailProofs Proofs.ScopeProofs.
Open Scope N_scope.
Arguments N.add : simpl never.
Arguments N.sub : simpl never.
Arguments N.eqb : simpl never.
Arguments N.ltb : simpl never.
Arguments N.leb : simpl never.
Arguments N.mul : simpl never.

(* ------------------------------------------------------------------ lists *)
Lemma nth_error_list_set_nat {A} (l : list A) : forall i j v,
  nth_error (list_set_nat l i v) j =
  if Nat.eqb i j then match nth_error l j with Some _ => Some v | None => None end
  else nth_error l j.
Proof.
  induction l as [|x l IH]; intros i j v.
  - cbn [list_set_nat]. destruct (Nat.eqb i j); destruct j; reflexivity.
  - destruct i as [|i], j as [|j]; cbn [list_set_nat nth_error Nat.eqb]; try reflexivity.
    apply IH.
Qed.

Lemma list_get_set {A} (l : list A) i j v :
  list_get (list_set l i v) j =
  if i =? j then match list_get l j with Some _ => Some v | None => None end else list_get l j.
Proof.
  unfold list_get, list_set. rewrite nth_error_list_set_nat.
  destruct (N.eqb_spec i j) as [->|Hne].
  - rewrite Nat.eqb_refl. reflexivity.
  - destruct (Nat.eqb_spec (N.to_nat i) (N.to_nat j)) as [E|_]; [lia|reflexivity].
Qed.

Lemma list_set_len {A} (l : list A) i v : len (list_set l i v) = len l.
Proof.
  unfold len, list_set. f_equal. generalize (N.to_nat i). clear i.
  induction l as [|x l IH]; intros [|n]; cbn [list_set_nat length]; try reflexivity.
  rewrite IH. reflexivity.
Qed.

Lemma list_get_lt {A} (l : list A) i v : list_get l i = Some v -> i < len l.
Proof.
  unfold list_get, len. intros H.
  assert (N.to_nat i < length l)%nat by (apply nth_error_Some; congruence). lia.
Qed.

(* ------------------------------------------------------------------ heap *)
Lemma heap_get_cell_at h p : heap_get h p = if p <? hlen h then Ok (cell_at h p) else Panic 10.
Proof. reflexivity. Qed.

Lemma heap_get_ok h p v : heap_get h p = Ok v <-> p < hlen h /\ cell_at h p = v.
Proof.
  rewrite heap_get_cell_at. destruct (N.ltb_spec p (hlen h)) as [L|L].
  - split; [intros [= <-]; auto|intros [_ <-]; reflexivity].
  - split; [discriminate|intros [L' _]; lia].
Qed.

(* a cell with a content other than Undefined is allocated (free cells are Undefined) *)
Lemma allocated_of_content h p : heap_inv h -> p < hlen h -> cell_at h p <> VUndef -> allocated h p.
Proof.
  intros HI L C. split; [exact L|]. intros F. apply C. apply (hi_free_undef h HI p F).
Qed.

(* Heap::alloc hands out an address that was NOT allocated and keeps every other cell *)
Lemma heap_alloc_fresh h p h' : heap_inv h -> heap_alloc h = (p, h') ->
  heap_inv h' /\ ~ allocated h p /\ allocated h' p /\ hlen h <= hlen h' /\ cells h' = cells h /\
  symtab h' = symtab h /\
  (forall a, a <> p -> g_get (gcmap h') a = g_get (gcmap h) a).
Proof.
  intros HI H. unfold heap_alloc in H.
  set (h1 := match free_list h with [] => heap_grow h | _ :: _ => h end) in *.
  assert (HI1 : heap_inv h1) by (unfold h1; destruct (free_list h); [now apply heap_inv_grow|assumption]).
  assert (NE : free_list h1 <> []).
  { unfold h1. destruct (free_list h) eqn:E; [now apply grow_free_nonempty|]. rewrite E. discriminate. }
  assert (G1 : gcmap h1 = gcmap h) by (unfold h1; now destruct (free_list h)).
  assert (C1 : cells h1 = cells h) by (unfold h1; now destruct (free_list h)).
  assert (S1 : symtab h1 = symtab h) by (unfold h1; now destruct (free_list h)).
  assert (L1 : hlen h <= hlen h1).
  { unfold h1. destruct (free_list h); [|lia]. pose proof (hi_chunk h HI) as [C0 C2].
    pose proof (grow_size h C0 C2) as G. unfold heap_grow. cbn [hlen]. lia. }
  destruct (free_list h1) as [|q fl] eqn:E1; [contradiction|]. injection H as <- <-.
  destruct (heap_inv_pop h1 q fl HI1 E1) as [HI2 [L [U F]]].
  split; [exact HI2|]. cbn [hlen gcmap cells symtab].
  split; [intros [_ Hn]; apply Hn; rewrite <- G1; exact F|].
  split; [split; [exact L|cbn [gcmap]; rewrite g_get_tset_same; discriminate]|].
  split; [exact L1|]. split; [exact C1|]. split; [exact S1|].
  intros a Hne. rewrite g_get_tset_other by congruence. rewrite G1. reflexivity.
Qed.

(* Heap::put of a value that is neither a pointer nor a symbol *)
Lemma heap_put_fresh h v r h' : heap_inv h -> heap_put h v = (r, h') ->
  (forall x, v <> VPtr x) -> (forall t, v <> VSym t) ->
  exists a, r = VPtr a /\ heap_inv h' /\ ~ allocated h a /\ allocated h' a /\ cell_at h' a = v /\
            hlen h <= hlen h' /\
            (forall b, b <> a -> cell_at h' b = cell_at h b /\ g_get (gcmap h') b = g_get (gcmap h) b).
Proof.
  intros HI H Hp Hs. pose proof (heap_inv_put _ _ _ _ HI H) as HI'.
  assert (Hsn : heap_put h v = let '(p, h1) := heap_store_new h v in (VPtr p, h1)).
  { unfold heap_put. destruct v; try reflexivity; [exfalso; eapply Hs; reflexivity|exfalso; eapply Hp; reflexivity]. }
  rewrite Hsn in H. clear Hsn. unfold heap_store_new in H.
  destruct (heap_alloc h) as [a h1] eqn:Ea. injection H as <- <-.
  destruct (heap_alloc_fresh h a h1 HI Ea) as (HI1 & Hna & Ha & Hl & Hc & _ & Hg).
  exists a. split; [reflexivity|]. split; [exact HI'|]. split; [exact Hna|].
  split; [destruct Ha as [La Na]; split; [exact La|exact Na]|].
  split; [rewrite cell_at_set, N.eqb_refl; reflexivity|]. split; [exact Hl|].
  intros b Hb. split.
  - rewrite cell_at_set. destruct (N.eqb_spec b a) as [->|_]; [congruence|].
    unfold cell_at. rewrite Hc. reflexivity.
  - cbn [gcmap]. apply Hg. exact Hb.
Qed.

(* ------------------------------------------------------- environment objects *)
Lemma env_at_some s p eid l :
  env_at s p = Some (eid, l) <->
  p < hlen (hp s) /\ cell_at (hp s) p = VLexEnv eid /\ tget (envs (st s)) eid = Some l.
Proof.
  unfold env_at. rewrite heap_get_cell_at. destruct (N.ltb_spec p (hlen (hp s))) as [L|L].
  - destruct (cell_at (hp s) p) eqn:C; try (split; [discriminate|intros (_ & C' & _); discriminate]).
    destruct (tget (envs (st s)) eid0) as [l0|] eqn:E.
    + split; [intros [= <- <-]; auto|intros (_ & [= <-] & E'); rewrite E in E'; injection E' as <-; reflexivity].
    + split; [discriminate|intros (_ & [= <-] & E'); congruence].
  - split; [discriminate|intros (L' & _); lia].
Qed.

(* the Rc ids in use are below [next_id]: a new object never aliases an old one *)
Definition store_wf (x : store) : Prop := forall e, next_id x <= e -> tget (envs x) e = None.

Lemma store_wf_empty : store_wf store_empty.
Proof. intros e _. apply tget_tempty. Qed.

Lemma env_at_allocated s p x : heap_inv (hp s) -> env_at s p = Some x -> allocated (hp s) p.
Proof.
  intros HI H. destruct x as [eid l]. apply env_at_some in H as (L & C & _).
  apply allocated_of_content; [exact HI|exact L|]. rewrite C. discriminate.
Qed.

(* an environment object is untouched by a step that keeps the allocated cells and the
   environment payloads below next_id *)
Lemma env_at_stable s s' p x :
  heap_inv (hp s) -> store_wf (st s) ->
  hlen (hp s) <= hlen (hp s') ->
  (forall b, allocated (hp s) b -> cell_at (hp s') b = cell_at (hp s) b) ->
  (forall e, e < next_id (st s) -> tget (envs (st s')) e = tget (envs (st s)) e) ->
  env_at s p = Some x -> env_at s' p = Some x.
Proof.
  intros HI SW Hl Hc He H. pose proof (env_at_allocated s p x HI H) as Ha.
  destruct x as [eid l]. apply env_at_some in H as (L & C & E). apply env_at_some.
  split; [lia|]. split; [rewrite Hc by exact Ha; exact C|].
  rewrite He; [exact E|]. destruct (N.lt_ge_cases eid (next_id (st s))) as [Hlt|Hge]; [exact Hlt|].
  rewrite (SW eid Hge) in E. discriminate.
Qed.

(* ------------------------------------------------------------------ ENTER *)
(* the machine after ENTER pushed the caller's %bp and made the frame current *)
Definition enter_s1 (s : vm) : vm :=
  with_bp (with_scap (with_stack s (tset (stack s) (sp s + 1) (VBp (bp s))) (sp s + 1))
                     (if sp s + 1 <? scap s then scap s else scap s * 2))
          (sp s + 1 - 4).

Lemma lift_ok {A} (o : out A) s a s' : lift o s = ROk a s' -> o = Ok a /\ s' = s.
Proof. unfold lift. destruct o; try discriminate. intros [= <- <-]. auto. Qed.

(* ENTER on a closure, as one equation: the activation environment [env] is computed
   from the closure environment, stored as a NEW Rc object (id = next_id) in a NEW heap
   cell, and %ep is set to that cell *)
Lemma enter_frame_closure s lam cep r s' :
  heap_deref (hp s) (acc s) = Ok (VClosure lam cep) ->
  enter_frame s = ROk r s' ->
  exists lid l ceid cslots env evp h1,
    heap_get (hp s) lam = Ok (VLambda lid) /\ tget (lams (st s)) lid = Some l /\
    env_at s cep = Some (ceid, cslots) /\
    build_lexical_environment l cep cslots (enter_s1 s) = ROk env (enter_s1 s) /\
    heap_put (hp s) (VLexEnv (next_id (st s))) = (VPtr evp, h1) /\
    r = false /\
    s' = with_ep (with_heap (with_store (enter_s1 s) (snd (new_env (st s) env))) h1) evp.
Proof.
  intros Hacc H. unfold enter_frame in H.
  apply bind_pure_ok in H as (s0 & E0 & H); [|apply pure_get_vm]. injection E0 as <-.
  apply bind_pure_ok in H as (target & Ht & H); [|apply pure_hderef].
  unfold hderef in Ht. apply lift_ok in Ht as (Ht & _). rewrite Hacc in Ht. injection Ht as <-.
  unfold bindM at 1 in H. unfold ret at 1 in H.
  apply bind_pure_ok in H as (lv & Hlv & H); [|apply pure_hget].
  unfold hget in Hlv. apply lift_ok in Hlv as (Hlv & _).
  apply bind_pure_ok in H as (l & Hl & H); [|apply pure_as_lambda].
  destruct lv; try discriminate. cbn [as_lambda] in Hl. unfold get_lambda in Hl.
  destruct (tget (lams (st s)) lid) as [l0|] eqn:El; [|discriminate]. injection Hl as ->.
  apply bind_pure_ok in H as (a & _ & H); [|apply pure_stack_get_offset].
  apply bind_pure_ok in H as (argc & _ & H); [|apply pure_as_argc].
  destruct (negb (argc =? len (l_args l))); [discriminate|].
  unfold bindM at 1 in H. unfold push at 1 in H.
  unfold bindM at 1 in H. unfold get_vm at 1 in H.
  unfold bindM at 1 in H. unfold usub at 1 in H.
  cbn [sp with_stack with_scap] in H.
  destruct (sp s + 1 <? 4) eqn:E4; [discriminate|].
  unfold bindM at 1 in H. unfold set_bp at 1 in H.
  unfold ret at 1 in H. cbv beta iota in H.
  match type of H with context [with_bp ?a ?b] =>
    change (with_bp a b) with (enter_s1 s) in H end.
  set (s1 := enter_s1 s) in *.
  assert (Hst1 : st s1 = st s) by reflexivity. assert (Hhp1 : hp s1 = hp s) by reflexivity.
  clearbody s1.
  apply bind_pure_ok in H as (cev & Hcev & H); [|apply pure_hget].
  unfold hget in Hcev. apply lift_ok in Hcev as (Hcev & _).
  apply bind_pure_ok in H as (ceid & Hceid & H); [|apply pure_as_lexenv].
  destruct cev; try discriminate. cbn [as_lexenv] in Hceid. injection Hceid as ->.
  apply bind_pure_ok in H as (cslots & Hcs & H); [|apply pure_env_slots].
  unfold env_slots in Hcs.
  destruct (tget (envs (st s1)) ceid) as [cs|] eqn:Ecs; [|discriminate].
  assert (Hcs' : cs = cslots) by congruence. subst cs. clear Hcs.
  apply bind_pure_ok in H as (env & Henv & H); [|apply pure_build_lexical_environment].
  unfold bindM, env_new, hput, set_ep, ret in H.
  rewrite Hst1 in Ecs. rewrite Hhp1 in Hcev.
  unfold new_env at 1 in H. cbn [hp with_store] in H. rewrite Hst1, Hhp1 in H.
  destruct (heap_put (hp s) (VLexEnv (next_id (st s)))) as [evp h1] eqn:Ehp.
  destruct evp; cbn [as_ptr fail ret] in H; try discriminate.
  injection H as <- <-.
  exists lid, l, ceid, cslots, env, p, h1.
  split; [exact Hlv|]. split; [exact El|].
  split; [unfold env_at; rewrite Hcev, Ecs; reflexivity|].
  split; [exact Henv|]. split; [reflexivity|]. split; [reflexivity|].
  unfold new_env. cbn [snd]. reflexivity.
Qed.

Lemma new_env_wf x l : store_wf x -> store_wf (snd (new_env x l)).
Proof.
  intros SW e He. unfold new_env in *. cbn [snd envs next_id] in *.
  rewrite tget_tset_other by lia. apply SW. lia.
Qed.

(* (a) ENTER allocates the activation environment at an address that was FREE before
   the instruction and under an Rc id never used before; every environment object of
   the state before is still there, unchanged, at another address and under another id *)
Theorem enter_fresh_env s lam cep r s' :
  heap_inv (hp s) -> store_wf (st s) ->
  heap_deref (hp s) (acc s) = Ok (VClosure lam cep) ->
  enter_frame s = ROk r s' ->
  exists env,
    env_at s' (ep s') = Some (next_id (st s), env) /\
    ~ allocated (hp s) (ep s') /\ allocated (hp s') (ep s') /\
    tget (envs (st s)) (next_id (st s)) = None /\
    heap_inv (hp s') /\ store_wf (st s') /\ next_id (st s') = next_id (st s) + 1 /\
    (forall a, allocated (hp s) a ->
               a <> ep s' /\ allocated (hp s') a /\ cell_at (hp s') a = cell_at (hp s) a) /\
    (forall e, e <> next_id (st s) -> tget (envs (st s')) e = tget (envs (st s)) e) /\
    (forall p x, env_at s p = Some x ->
               p <> ep s' /\ fst x <> next_id (st s) /\ env_at s' p = Some x).
Proof.
  intros HI SW Hacc H.
  destruct (enter_frame_closure s lam cep r s' Hacc H)
    as (lid & l & ceid & cslots & env & evp & h1 & _ & _ & _ & _ & Hput & _ & ->).
  destruct (heap_put_fresh (hp s) _ _ _ HI Hput) as (a & Ea & HI1 & Hna & Ha & Hca & Hl & Hother);
    [discriminate|discriminate|]. injection Ea as <-.
  exists env. cbn [ep with_ep hp with_heap st with_store].
  change (st (enter_s1 s)) with (st s). unfold new_env. cbn [snd envs next_id].
  assert (Halloc : forall a, allocated (hp s) a ->
            a <> evp /\ allocated h1 a /\ cell_at h1 a = cell_at (hp s) a).
  { intros a [La Na]. assert (Hne : a <> evp) by (intros ->; apply Hna; split; assumption).
    destruct (Hother a Hne) as [Hc Hg]. split; [exact Hne|]. split; [|exact Hc].
    split; [lia|rewrite Hg; exact Na]. }
  split.
  { apply env_at_some. cbn [hp with_ep with_heap st with_store envs].
    split; [apply Ha|]. split; [exact Hca|]. apply tget_tset_same. }
  split; [exact Hna|]. split; [exact Ha|]. split; [apply SW; lia|]. split; [exact HI1|].
  split; [apply (new_env_wf (st s) env SW)|]. split; [reflexivity|].
  split; [exact Halloc|].
  split; [intros e He; apply tget_tset_other; congruence|].
  intros p x Hx. pose proof (env_at_allocated s p x HI Hx) as Hp.
  destruct (Halloc p Hp) as (Hne & _ & _). split; [exact Hne|].
  assert (Hid : fst x <> next_id (st s)).
  { destruct x as [e0 l0]. apply env_at_some in Hx as (_ & _ & E). cbn [fst]. intros ->.
    rewrite SW in E by lia. discriminate. }
  split; [exact Hid|].
  eapply env_at_stable; [exact HI|exact SW| | | |exact Hx]; cbn [hp with_ep with_heap st with_store envs].
  - exact Hl.
  - intros b Hb. apply (Halloc b Hb).
  - intros e He. apply tget_tset_other. lia.
Qed.

(* two activations — of the same procedure or not — never share their environment:
   if the environment of an earlier activation still exists when ENTER runs again, the
   new activation's environment is another heap cell with another payload *)
Theorem separate_activations s1 r1 s1' s2 r2 s2' lam cep x1 :
  enter_frame s1 = ROk r1 s1' ->
  env_at s1' (ep s1') = Some x1 ->
  heap_inv (hp s2) -> store_wf (st s2) ->
  heap_deref (hp s2) (acc s2) = Ok (VClosure lam cep) ->
  env_at s2 (ep s1') = Some x1 ->
  enter_frame s2 = ROk r2 s2' ->
  exists x2, env_at s2' (ep s2') = Some x2 /\ env_at s2' (ep s1') = Some x1 /\
             ep s2' <> ep s1' /\ fst x2 <> fst x1.
Proof.
  intros _ _ HI SW Hacc Hlive H2.
  destruct (enter_fresh_env s2 lam cep r2 s2' HI SW Hacc H2) as (env & He & _ & _ & _ & _ & _ & _ & _ & _ & Hold).
  destruct (Hold _ _ Hlive) as (Hne & Hid & Hkeep).
  eexists. split; [exact He|]. split; [exact Hkeep|]. split; [congruence|]. cbn [fst]. congruence.
Qed.

(* ------------------------------------------------- loads and stores, inverted *)
Lemma load_lex_slot_inv k s v s' :
  load_lex_slot k s = ROk v s' ->
  s' = s /\ exists e j l, location s (ep s) k = Some (e, j) /\
                          tget (envs (st s)) e = Some l /\ list_get l j = Some v.
Proof.
  unfold load_lex_slot, bindM, get_vm, hget, lift, location, env_at.
  destruct (heap_get (hp s) (ep s)) as [x| | |] eqn:Eh; try discriminate.
  destruct x; try discriminate. cbn [as_lexenv ret].
  unfold env_get, bindM, env_slots.
  destruct (tget (envs (st s)) eid) as [l0|] eqn:El0; [|discriminate].
  destruct (list_get l0 k) as [c|] eqn:Ec; [|discriminate]. unfold ret.
  destruct c; try (intros [= <- <-]; split; [reflexivity|]; exists eid, k, l0; auto).
  destruct (heap_get (hp s) env) as [y| | |] eqn:Eh2; try discriminate.
  destruct y; try discriminate. cbn [as_lexenv ret].
  destruct (tget (envs (st s)) eid0) as [l2|] eqn:El2; [|discriminate].
  destruct (list_get l2 i) as [c2|] eqn:Ec2; [|discriminate].
  intros [= <- <-]. split; [reflexivity|]. exists eid0, i, l2. auto.
Qed.

Lemma store_lex_slot_inv k v s u s' :
  store_lex_slot k v s = ROk u s' ->
  exists e j l, location s (ep s) k = Some (e, j) /\ tget (envs (st s)) e = Some l /\ j < len l /\
                s' = with_store s (set_env (st s) e (list_set l j v)).
Proof.
  unfold store_lex_slot, bindM, get_vm, hget, lift, location, env_at.
  destruct (heap_get (hp s) (ep s)) as [x| | |] eqn:Eh; try discriminate.
  destruct x; try discriminate. cbn [as_lexenv ret].
  unfold env_get, bindM, env_slots.
  destruct (tget (envs (st s)) eid) as [l0|] eqn:El0; [|discriminate].
  destruct (list_get l0 k) as [c|] eqn:Ec; [|discriminate]. unfold ret.
  assert (Hput : forall e0 l1, tget (envs (st s)) e0 = Some l1 ->
            env_put e0 k v s = ROk u s' ->
            k < len l1 /\ s' = with_store s (set_env (st s) e0 (list_set l1 k v))).
  { intros e0 l1 H1. unfold env_put, bindM, env_slots, panic. rewrite H1.
    destruct (N.ltb_spec k (len l1)); [|discriminate]. intros [= <- <-]. auto. }
  destruct c; try (intros H; destruct (Hput eid l0 El0 H) as (Hlt & ->); exists eid, k, l0; auto).
  clear Hput.
  destruct (heap_get (hp s) env) as [y| | |] eqn:Eh2; try discriminate.
  destruct y; try discriminate. cbn [as_lexenv ret].
  unfold env_put, bindM, env_slots, panic.
  destruct (tget (envs (st s)) eid0) as [l2|] eqn:El2; [|discriminate].
  destruct (N.ltb_spec i (len l2)); [|discriminate]. intros [= <- <-].
  exists eid0, i, l2. auto.
Qed.

Lemma env_at_ext s s' p : hp s' = hp s -> st s' = st s -> env_at s' p = env_at s p.
Proof. intros Hh Hs. unfold env_at. rewrite Hh, Hs. reflexivity. Qed.

(* the frame property of an assignment: it rewrites ONE slot of ONE environment
   payload — the location the slot denotes — and nothing else in the machine *)
Theorem store_frame k v s u s' :
  store_lex_slot k v s = ROk u s' ->
  exists e j l, location s (ep s) k = Some (e, j) /\ tget (envs (st s)) e = Some l /\ j < len l /\
    hp s' = hp s /\ ep s' = ep s /\
    tget (envs (st s')) e = Some (list_set l j v) /\
    (forall j', j' <> j -> list_get (list_set l j v) j' = list_get l j') /\
    (forall e', e' <> e -> tget (envs (st s')) e' = tget (envs (st s)) e') /\
    (forall p e' l', e' <> e -> env_at s p = Some (e', l') -> env_at s' p = Some (e', l')).
Proof.
  intros H. destruct (store_lex_slot_inv k v s u s' H) as (e & j & l & Hloc & Hl & Hj & ->).
  exists e, j, l. split; [exact Hloc|]. split; [exact Hl|]. split; [exact Hj|].
  cbn [hp ep st with_store envs set_env]. split; [reflexivity|]. split; [reflexivity|].
  split; [apply tget_tset_same|].
  split; [intros j' Hj'; rewrite list_get_set; destruct (N.eqb_spec j j'); [congruence|reflexivity]|].
  split; [intros e' He'; apply tget_tset_other; congruence|].
  intros p e' l' He' Hp. apply env_at_some in Hp as (L & C & E). apply env_at_some.
  cbn [hp st with_store envs set_env]. split; [exact L|]. split; [exact C|].
  rewrite tget_tset_other by congruence. exact E.
Qed.

(* separate activations get separate locations: an assignment to an OWN slot of one
   activation (a slot that is not a pointer: parameter or internal definition) leaves
   every slot of the other activation's environment as it was *)
Theorem store_own_slot_separate k v s u s' eid other x :
  location s (ep s) k = Some (eid, k) ->
  env_at s other = Some x -> fst x <> eid ->
  store_lex_slot k v s = ROk u s' ->
  env_at s' other = Some x /\
  forall k' w, load_lex_slot k' (with_ep s other) = ROk w (with_ep s other) ->
               location s other k' <> Some (eid, k) ->
               load_lex_slot k' (with_ep s' other) = ROk w (with_ep s' other).
Proof.
  intros Hloc Hx Hne H.
  destruct (store_frame k v s u s' H) as (e & j & l & Hloc' & Hl & Hj & Hh & Hep & Hnew & Hsame & Hoth & Henv).
  rewrite Hloc in Hloc'. injection Hloc' as <- <-.
  destruct x as [e1 l1]. cbn [fst] in Hne.
  split; [apply Henv; [exact Hne|exact Hx]|].
  intros k' w Hld Hnl. apply load_lex_slot_inv in Hld as (_ & e2 & j2 & l2 & Hloc2 & Hl2 & Hw).
  cbn [ep with_ep] in Hloc2.
  assert (Hlocs : forall p k0, location (with_ep s' p) p k0 = location s' p k0) by reflexivity.
  assert (Hloc_keep : location s' other k' = Some (e2, j2)).
  { unfold location in Hloc2 |- *. change (env_at (with_ep s other) other) with (env_at s other) in Hloc2.
    rewrite Hx in Hloc2. rewrite (Henv other e1 l1 Hne Hx).
    destruct (list_get l1 k') as [c|]; [|discriminate].
    destruct c; try exact Hloc2.
    change (env_at (with_ep s other) env) with (env_at s env) in Hloc2.
    destruct (env_at s env) as [[e3 l3]|] eqn:E3; [|discriminate]. injection Hloc2 as -> ->.
    assert (H3 : exists l3', env_at s' env = Some (e2, l3')).
    { apply env_at_some in E3 as (L & C & E).
      destruct (N.eq_dec e2 eid) as [->|Hd].
      - exists (list_set l k v). apply env_at_some. rewrite Hh. auto.
      - exists l3. apply env_at_some. rewrite Hh, Hoth by exact Hd. auto. }
    destruct H3 as (l3' & ->). reflexivity. }
  cbn [st with_ep] in Hl2.
  assert (Hfin : exists l2', tget (envs (st s')) e2 = Some l2' /\ list_get l2' j2 = Some w).
  { destruct (N.eq_dec e2 eid) as [->|Hd].
    - exists (list_set l k v). split; [exact Hnew|].
      rewrite Hl in Hl2. injection Hl2 as <-.
      rewrite Hsame; [exact Hw|]. intros ->. apply Hnl.
      change (location (with_ep s other) other k') with (location s other k') in Hloc2. exact Hloc2.
    - exists l2. split; [rewrite Hoth by exact Hd; exact Hl2|exact Hw]. }
  destruct Hfin as (l2' & Hl2' & Hw').
  eapply load_reads_location.
  - cbn [ep with_ep]. rewrite Hlocs. exact Hloc_keep.
  - cbn [st with_ep]. exact Hl2'.
  - exact Hw'.
Qed.

(* ------------------------------------------------------------------- RET *)
(* computations that touch neither the heap nor the Rc payloads (registers and stack only) *)
Definition keeps_mem {A} (m : M A) : Prop :=
  forall s, match m s with
            | ROk _ s' | RErr _ _ s' => hp s' = hp s /\ st s' = st s
            | _ => True end.

Lemma keeps_mem_pure {A} (m : M A) : pure m -> keeps_mem m.
Proof. intros Hp s. specialize (Hp s). destruct (m s); try exact I; subst; auto. Qed.
Lemma keeps_mem_bind {A B} (m : M A) (f : A -> M B) :
  keeps_mem m -> (forall a, keeps_mem (f a)) -> keeps_mem (bindM m f).
Proof.
  intros Hm Hf s. unfold bindM. specialize (Hm s). destruct (m s) as [a s1|e msg s1|k|]; auto.
  specialize (Hf a s1). destruct (f a s1); auto; destruct Hm as [<- <-]; exact Hf.
Qed.
Lemma keeps_mem_ok {A} (m : M A) s a s' : keeps_mem m -> m s = ROk a s' -> hp s' = hp s /\ st s' = st s.
Proof. intros Hk H. specialize (Hk s). rewrite H in Hk. exact Hk. Qed.
Lemma keeps_mem_set_sp p : keeps_mem (set_sp p). Proof. intros s; cbn; auto. Qed.
Lemma keeps_mem_set_ep p : keeps_mem (set_ep p). Proof. intros s; cbn; auto. Qed.
Lemma keeps_mem_set_bp p : keeps_mem (set_bp p). Proof. intros s; cbn; auto. Qed.
Lemma keeps_mem_set_ip p : keeps_mem (set_ip p). Proof. intros s; cbn; auto. Qed.
Lemma keeps_mem_set_acc v : keeps_mem (set_acc v). Proof. intros s; cbn; auto. Qed.
Lemma keeps_mem_push v : keeps_mem (push v). Proof. intros s; cbn; auto. Qed.

Lemma pure_as_ep v : pure (as_ep v). Proof. destruct v; try apply pure_fail; apply pure_ret. Qed.
Lemma pure_as_bp v : pure (as_bp v). Proof. destruct v; try apply pure_fail; apply pure_ret. Qed.
Lemma pure_as_ip v : pure (as_ip v). Proof. destruct v; try apply pure_fail; apply pure_ret. Qed.
Lemma pure_cur_lambda : pure cur_lambda.
Proof.
  intros s. unfold cur_lambda. destruct (heap_get (hp s) (fst (ip s))) as [x| | |]; try exact I; try reflexivity.
  destruct x; try exact I. apply pure_get_lambda.
Qed.

(* the body of RET in run_one (run.rs:299-311) *)
Definition ret_body : M bool :=
  dom s <- get_vm;
  dom a <- stack_get (bp s + 1); dom n <- as_argc a;
  dom nsp <- usub (bp s) n;
  dom _ <- set_sp nsp;
  dom e <- stack_get (bp s + 2); dom e' <- as_ep e; dom _ <- set_ep e';
  dom i <- stack_get (bp s + 3); dom i' <- as_ip i; dom _ <- set_ip i';
  dom b <- stack_get (bp s + 4); dom b' <- as_bp b; dom _ <- set_bp b';
  ret false.

Lemma run_one_ret ob s s0 : read_opcode s = ROk ORet s0 -> run_one ob s = ret_body s0.
Proof. intros H. unfold run_one. unfold bindM at 1. rewrite H. reflexivity. Qed.

Lemma keeps_mem_read_opcode : keeps_mem read_opcode.
Proof.
  unfold read_opcode. apply keeps_mem_bind; [apply keeps_mem_pure, pure_cur_lambda|]. intros l.
  apply keeps_mem_bind; [apply keeps_mem_pure, pure_get_vm|]. intros s.
  destruct (list_get (l_bc l) (snd (ip s))) as [[]|]; try (apply keeps_mem_pure, pure_fail).
  apply keeps_mem_bind; [apply keeps_mem_set_ip|]. intros _. apply keeps_mem_pure, pure_ret.
Qed.

Lemma keeps_mem_ret_body : keeps_mem ret_body.
Proof.
  unfold ret_body.
  apply keeps_mem_bind; [apply keeps_mem_pure, pure_get_vm|]. intros s.
  apply keeps_mem_bind; [apply keeps_mem_pure, pure_stack_get|]. intros a.
  apply keeps_mem_bind; [apply keeps_mem_pure, pure_as_argc|]. intros n.
  apply keeps_mem_bind; [apply keeps_mem_pure, pure_usub|]. intros nsp.
  apply keeps_mem_bind; [apply keeps_mem_set_sp|]. intros _.
  apply keeps_mem_bind; [apply keeps_mem_pure, pure_stack_get|]. intros e.
  apply keeps_mem_bind; [apply keeps_mem_pure, pure_as_ep|]. intros e'.
  apply keeps_mem_bind; [apply keeps_mem_set_ep|]. intros _.
  apply keeps_mem_bind; [apply keeps_mem_pure, pure_stack_get|]. intros i.
  apply keeps_mem_bind; [apply keeps_mem_pure, pure_as_ip|]. intros i'.
  apply keeps_mem_bind; [apply keeps_mem_set_ip|]. intros _.
  apply keeps_mem_bind; [apply keeps_mem_pure, pure_stack_get|]. intros b.
  apply keeps_mem_bind; [apply keeps_mem_pure, pure_as_bp|]. intros b'.
  apply keeps_mem_bind; [apply keeps_mem_set_bp|]. intros _.
  apply keeps_mem_pure, pure_ret.
Qed.

(* a slot read depends on the heap, the environment payloads and %ep only *)
Lemma location_ext s s' p k : hp s' = hp s -> st s' = st s -> location s' p k = location s p k.
Proof.
  intros Hh Hs. unfold location. rewrite (env_at_ext s s' p Hh Hs).
  destruct (env_at s p) as [[e l]|]; [|reflexivity].
  destruct (list_get l k) as [c|]; [|reflexivity].
  destruct c; try reflexivity. rewrite (env_at_ext s s' env Hh Hs). reflexivity.
Qed.

Lemma load_lex_slot_ext s s' k v :
  hp s' = hp s -> st s' = st s -> ep s' = ep s ->
  load_lex_slot k s = ROk v s -> load_lex_slot k s' = ROk v s'.
Proof.
  intros Hh Hs He H. apply load_lex_slot_inv in H as (_ & e & j & l & Hloc & Hl & Hv).
  eapply load_reads_location; [rewrite He, (location_ext s s' _ _ Hh Hs); exact Hloc| |exact Hv].
  rewrite Hs. exact Hl.
Qed.

(* (b) a binding outlives the activation that created it: RET restores %sp, %ep, %ip and
   %bp from the frame and touches neither the heap nor any environment payload.  Every
   environment object — in particular the returning activation's, which closures
   created in it point to — is still there with the same slots, every closure cell is
   intact, and a slot read with that environment installed gives the same value. *)
Theorem binding_outlives_creator ob s s0 r s' :
  read_opcode s = ROk ORet s0 -> run_one ob s = ROk r s' ->
  hp s' = hp s /\ st s' = st s /\
  (forall p, env_at s' p = env_at s p) /\
  (forall a lam env, heap_get (hp s) a = Ok (VClosure lam env) ->
                     heap_get (hp s') a = Ok (VClosure lam env) /\ env_at s' env = env_at s env) /\
  (forall env k v, load_lex_slot k (with_ep s env) = ROk v (with_ep s env) ->
                   load_lex_slot k (with_ep s' env) = ROk v (with_ep s' env)).
Proof.
  intros Hop H. rewrite (run_one_ret ob s s0 Hop) in H.
  destruct (keeps_mem_ok _ _ _ _ keeps_mem_read_opcode Hop) as [Hh0 Hs0].
  destruct (keeps_mem_ok _ _ _ _ keeps_mem_ret_body H) as [Hh1 Hs1].
  assert (Hh : hp s' = hp s) by congruence. assert (Hs : st s' = st s) by congruence.
  split; [exact Hh|]. split; [exact Hs|].
  split; [intros p; apply env_at_ext; assumption|].
  split; [intros a lam env Ha; rewrite Hh; split; [exact Ha|apply env_at_ext; assumption]|].
  intros env k v Hl. eapply load_lex_slot_ext; [| | |exact Hl]; cbn [hp st ep with_ep]; auto.
Qed.

(* ====================================================================== *)
(* (c) locations are flat: the whole-machine invariant                      *)
Definition no_lexptr (v : vcell) : Prop := match v with VLexPtr _ _ => False | _ => True end.

(* a slot value is well-formed when, being a pointer, it leads to a slot of an existing
   environment object that does not hold a pointer *)
Definition slot_flat (s : vm) (v : vcell) : Prop :=
  match v with
  | VLexPtr q k2 => exists e2 l2 w, env_at s q = Some (e2, l2) /\ list_get l2 k2 = Some w /\ no_lexptr w
  | _ => True
  end.

(* over the environment payloads themselves (stronger than over the payloads reachable
   through a heap cell: an Rc payload not yet stored in the heap is covered too) *)
Definition flat_envs (s : vm) : Prop :=
  forall eid l k v, tget (envs (st s)) eid = Some l -> list_get l k = Some v -> slot_flat s v.

(* the statement of Props/C02.v, for one machine state *)
Definition flat (s : vm) : Prop :=
  forall p k q k2 eid l,
    env_at s p = Some (eid, l) -> list_get l k = Some (VLexPtr q k2) ->
    exists e2 l2 v, env_at s q = Some (e2, l2) /\ list_get l2 k2 = Some v /\
                    match v with VLexPtr _ _ => False | _ => True end.

Lemma flat_envs_flat s : flat_envs s -> flat s.
Proof.
  intros F p k q k2 eid l Hp Hk. apply env_at_some in Hp as (_ & _ & E).
  exact (F eid l k _ E Hk).
Qed.

Definition stack_clean (s : vm) : Prop := forall i, no_lexptr (sget s i).

(* the invariant: heap and store well-formed, environments flat, and no LexPtr VALUE in
   the registers the instructions move values through (stack, %acc) *)
Record lex_inv (s : vm) : Prop := {
  li_heap : heap_inv (hp s);
  li_store : store_wf (st s);
  li_flat : flat_envs s;
  li_stack : stack_clean s;
  li_acc : no_lexptr (acc s)
}.

(* established by the machine of Vm::new *)
Lemma lex_inv_empty c : 0 < c -> lex_inv (vm_empty c).
Proof.
  intros Hc. constructor; cbn [hp st acc vm_empty].
  - apply heap_inv_new. exact Hc.
  - apply store_wf_empty.
  - intros eid l k v E. cbn in E. rewrite tget_tempty in E. discriminate.
  - intros i. unfold sget. cbn [stack vm_empty stack_new]. rewrite tget_tempty. exact I.
  - exact I.
Qed.

(* environment objects persist from s to s' (slots may be overwritten by non-pointers) *)
Definition envs_persist (s s' : vm) : Prop :=
  forall q e2 l2, env_at s q = Some (e2, l2) ->
    exists l2', env_at s' q = Some (e2, l2') /\
      forall k w, list_get l2 k = Some w -> exists w', list_get l2' k = Some w' /\ (no_lexptr w -> no_lexptr w').

Lemma slot_flat_persist s s' v : envs_persist s s' -> slot_flat s v -> slot_flat s' v.
Proof.
  intros R. destruct v; try (intros; exact I). cbn [slot_flat].
  intros (e2 & l2 & w & Hq & Hw & Hc). destruct (R _ _ _ Hq) as (l2' & Hq' & Hk).
  destruct (Hk _ _ Hw) as (w' & Hw' & Hc'). exists e2, l2', w'. auto.
Qed.

Lemma no_lexptr_slot_flat s v : no_lexptr v -> slot_flat s v.
Proof. destruct v; intros H; try exact I. destruct H. Qed.

(* the generic step: every slot of every payload of s' is flat in s' outright, or is a
   value some payload of s already held *)
Lemma flat_envs_step s s' :
  envs_persist s s' -> flat_envs s ->
  (forall eid l k v, tget (envs (st s')) eid = Some l -> list_get l k = Some v ->
     slot_flat s' v \/ exists e0 l0 k0, tget (envs (st s)) e0 = Some l0 /\ list_get l0 k0 = Some v) ->
  flat_envs s'.
Proof.
  intros R F H eid l k v E Hk. destruct (H eid l k v E Hk) as [Hf|(e0 & l0 & k0 & E0 & Hk0)]; [exact Hf|].
  apply (slot_flat_persist s s' v R). exact (F e0 l0 k0 v E0 Hk0).
Qed.

Lemma envs_persist_same s s' :
  (forall q x, env_at s q = Some x -> env_at s' q = Some x) -> envs_persist s s'.
Proof.
  intros H q e2 l2 Hq. exists l2. split; [apply H; exact Hq|]. intros k w Hw. exists w. auto.
Qed.

(* ---- ENTER: where each slot of the activation environment comes from *)
Definition act_origin (s1 : vm) (cep : N) (cslots : list vcell) (i : N) (v : vcell) : Prop :=
  list_get cslots i = Some v \/ (exists j, v = sget s1 j) \/
  (v = VLexPtr cep i /\ exists c, list_get cslots i = Some c /\ no_lexptr c).

Lemma stack_get_inv i s v s' : stack_get i s = ROk v s' -> v = sget s i /\ s' = s.
Proof. unfold stack_get. destruct (i <? scap s); [|discriminate]. intros [= <- <-]. auto. Qed.

Lemma build_lexical_environment_origin l cep cslots s1 env s1' :
  build_lexical_environment l cep cslots s1 = ROk env s1' ->
  forall i v, list_get env i = Some v -> act_origin s1 cep cslots i v.
Proof.
  unfold build_lexical_environment.
  match goal with |- ?g _ _ _ _ = _ -> _ =>
    assert (H : forall m slot0 env0,
              (forall i v, list_get env0 i = Some v -> act_origin s1 cep cslots i v) ->
              g m slot0 env0 s1 = ROk env s1' ->
              forall i v, list_get env i = Some v -> act_origin s1 cep cslots i v) end.
  2:{ apply H. intros i v Hi. left. exact Hi. }
  induction m as [|[sym src] r IH]; intros slot0 env0 Henv0 H0.
  - cbn in H0. unfold ret in H0. injection H0 as <- <-. exact Henv0.
  - cbn in H0. destruct src.
    + eapply IH; [exact Henv0|exact H0].
    + apply bind_pure_ok in H0 as (s0 & E0 & H0); [|apply pure_get_vm]. injection E0 as <-.
      apply bind_pure_ok in H0 as (k & _ & H0); [|apply pure_usub].
      apply bind_pure_ok in H0 as (base & _ & H0); [|apply pure_usub].
      apply bind_pure_ok in H0 as (v & Hv & H0); [|apply pure_stack_get].
      apply stack_get_inv in Hv as (Hv & _).
      eapply IH; [|exact H0]. intros i w Hi. rewrite list_get_set in Hi.
      destruct (N.eqb_spec slot0 i) as [->|_]; [|apply Henv0; exact Hi].
      destruct (list_get env0 i); [|discriminate]. injection Hi as <-.
      right. left. eexists. exact Hv.
    + destruct (list_get cslots slot0) as [c|] eqn:Ec; [|discriminate].
      destruct c; try (eapply IH; [exact Henv0|exact H0]);
        (destruct (slot0 <? len env0); [|discriminate];
         eapply IH; [|exact H0]; intros i' w Hi; rewrite list_get_set in Hi;
         destruct (N.eqb_spec slot0 i') as [<-|_]; [|apply Henv0; exact Hi];
         destruct (list_get env0 slot0); [|discriminate]; injection Hi as <-;
         right; right; split; [reflexivity|]; eexists; split; [exact Ec|exact I]).
    + destruct (list_get cslots slot0) as [c|] eqn:Ec; [|discriminate].
      destruct c; try (eapply IH; [exact Henv0|exact H0]);
        (destruct (slot0 <? len env0); [|discriminate];
         eapply IH; [|exact H0]; intros i' w Hi; rewrite list_get_set in Hi;
         destruct (N.eqb_spec slot0 i') as [<-|_]; [|apply Henv0; exact Hi];
         destruct (list_get env0 slot0); [|discriminate]; injection Hi as <-;
         right; right; split; [reflexivity|]; eexists; split; [exact Ec|exact I]).
    + eapply IH; [exact Henv0|exact H0].
Qed.

Lemma enter_frame_cases s r s' :
  enter_frame s = ROk r s' ->
  (exists lam cep, heap_deref (hp s) (acc s) = Ok (VClosure lam cep)) \/ s' = enter_s1 s.
Proof.
  intros H. unfold enter_frame in H.
  apply bind_pure_ok in H as (s0 & E0 & H); [|apply pure_get_vm]. injection E0 as <-.
  apply bind_pure_ok in H as (target & Ht & H); [|apply pure_hderef].
  unfold hderef in Ht. apply lift_ok in Ht as (Ht & _).
  destruct target; try discriminate; [left; eauto|]. right.
  apply bind_pure_ok in H as ([lp cenv] & Hlp & H).
  2:{ apply pure_bind; [apply pure_as_ptr|]. intros; apply pure_ret. }
  apply bind_pure_ok in Hlp as (p0 & _ & Hlp); [|apply pure_as_ptr].
  unfold ret in Hlp. injection Hlp as <- <-.
  apply bind_pure_ok in H as (lv & _ & H); [|apply pure_hget].
  apply bind_pure_ok in H as (l & _ & H); [|apply pure_as_lambda].
  apply bind_pure_ok in H as (a & _ & H); [|apply pure_stack_get_offset].
  apply bind_pure_ok in H as (argc & _ & H); [|apply pure_as_argc].
  destruct (negb (argc =? len (l_args l))); [discriminate|].
  unfold bindM at 1 in H. unfold push at 1 in H.
  unfold bindM at 1 in H. unfold get_vm at 1 in H.
  unfold bindM at 1 in H. unfold usub at 1 in H.
  cbn [sp with_stack with_scap] in H.
  destruct (sp s + 1 <? 4) eqn:E4; [discriminate|].
  unfold bindM at 1 in H. unfold set_bp at 1 in H.
  unfold ret at 1 in H. cbv beta iota in H. unfold ret in H. injection H as _ <-. reflexivity.
Qed.

Lemma stack_clean_tset s t v p :
  stack_clean s -> no_lexptr v -> (forall i, sget t i = slot (tset (stack s) p v) i) -> stack_clean t.
Proof.
  intros Hs Hv Ht i. rewrite Ht, slot_tset. destruct (p =? i); [exact Hv|]. rewrite <- sget_slot. apply Hs.
Qed.

(* a step that changes registers and the stack only *)
Lemma lex_inv_regs s s' :
  hp s' = hp s -> st s' = st s -> stack_clean s' -> no_lexptr (acc s') -> lex_inv s -> lex_inv s'.
Proof.
  intros Hh Hs Hst Hacc [I1 I2 I3 I4 I5]. constructor; try assumption.
  - rewrite Hh; exact I1.
  - rewrite Hs; exact I2.
  - apply (flat_envs_step s s'); [apply envs_persist_same; intros q x; rewrite (env_at_ext s s' q Hh Hs); auto|exact I3|].
    intros eid l k v E Hk. right. rewrite Hs in E. eauto.
Qed.

(* ENTER preserves the invariant — for a plain lambda (no environment is created) and
   for a closure (the new activation environment copies pointers that were flat, or
   points to a non-pointer slot of the closure environment, or holds an argument) *)
Theorem lex_inv_enter s r s' : lex_inv s -> enter_frame s = ROk r s' -> lex_inv s'.
Proof.
  intros Hinv H. destruct (enter_frame_cases s r s' H) as [(lam & cep & Hacc)| ->].
  2:{ apply (lex_inv_regs s); try reflexivity; [|apply (li_acc s Hinv)|exact Hinv].
      apply (stack_clean_tset s (enter_s1 s) (VBp (bp s)) (sp s + 1)); [apply (li_stack s Hinv)|exact I|reflexivity]. }
  pose proof Hinv as [I1 I2 I3 I4 I5].
  destruct (enter_fresh_env s lam cep r s' I1 I2 Hacc H)
    as (env0 & _ & _ & _ & _ & HI' & SW' & _ & _ & _ & Hold).
  destruct (enter_frame_closure s lam cep r s' Hacc H)
    as (lid & l & ceid & cslots & env & evp & h1 & _ & _ & Hcep & Hbuild & _ & _ & Es').
  assert (Hpers : forall q x, env_at s q = Some x -> env_at s' q = Some x)
    by (intros q x Hq; apply (Hold q x Hq)).
  constructor; [exact HI'|exact SW'| | |].
  - apply (flat_envs_step s s'); [apply envs_persist_same; exact Hpers|exact I3|].
    intros eid l0 k v E Hk. subst s'. cbn [st with_ep with_heap with_store] in E.
    change (st (enter_s1 s)) with (st s) in E. unfold new_env in E. cbn [snd envs] in E.
    destruct (N.eq_dec (next_id (st s)) eid) as [<-|Hne].
    + rewrite tget_tset_same in E. injection E as <-.
      destruct (build_lexical_environment_origin _ _ _ _ _ _ Hbuild k v Hk) as [Ho|[(j & ->)|(-> & c & Hc & Hcl)]].
      * right. apply env_at_some in Hcep as (_ & _ & Ec). eauto.
      * left. apply no_lexptr_slot_flat.
        apply (stack_clean_tset s (enter_s1 s) (VBp (bp s)) (sp s + 1)); [exact I4|exact I|reflexivity].
      * left. cbn [slot_flat]. exists ceid, cslots, c. split; [apply Hpers; exact Hcep|]. auto.
    + rewrite tget_tset_other in E by exact Hne. right. eauto.
  - subst s'. apply (stack_clean_tset s _ (VBp (bp s)) (sp s + 1)); [exact I4|exact I|reflexivity].
  - subst s'. exact I5.
Qed.

(* ---- CLOSURE *)
Lemma heap_put_keeps h v r h' : heap_inv h -> heap_put h v = (r, h') ->
  (forall x, v <> VPtr x) -> (forall t, v <> VSym t) ->
  exists a, r = VPtr a /\ heap_inv h' /\ ~ allocated h a /\ allocated h' a /\ cell_at h' a = v /\
            hlen h <= hlen h' /\
            forall b, allocated h b -> b <> a /\ allocated h' b /\ cell_at h' b = cell_at h b.
Proof.
  intros HI H Hp Hs.
  destruct (heap_put_fresh h v r h' HI H Hp Hs) as (a & -> & HI1 & Hna & Ha & Hca & Hl & Hother).
  exists a. repeat (split; [first [reflexivity|assumption]|]).
  intros b [Lb Nb]. assert (Hne : b <> a) by (intros ->; apply Hna; split; assumption).
  destruct (Hother b Hne) as [Hc Hg]. split; [exact Hne|]. split; [|exact Hc].
  split; [lia|rewrite Hg; exact Nb].
Qed.

(* the body of CLOSURE %acc in run_one (run.rs:266-283) *)
Definition closure_body : M bool :=
  dom s <- get_vm;
  dom lp <- as_ptr (acc s);
  dom lv <- hget lp; dom l <- as_lambda lv;
  dom env <- build_closure_environment (l_envmap l);
  dom ev <- env_new env; dom evp <- hput ev; dom ei <- as_ptr evp;
  dom cp <- hput (VClosure lp ei);
  dom _ <- set_acc cp; ret false.

Lemma run_one_closure ob s s0 : read_opcode s = ROk OClosureAcc s0 -> run_one ob s = closure_body s0.
Proof. intros H. unfold run_one. unfold bindM at 1. rewrite H. reflexivity. Qed.

Lemma closure_body_inv s r s' :
  closure_body s = ROk r s' ->
  exists lp lid l env ei h1 cp h2,
    acc s = VPtr lp /\ heap_get (hp s) lp = Ok (VLambda lid) /\ tget (lams (st s)) lid = Some l /\
    build_closure_environment (l_envmap l) s = ROk env s /\
    heap_put (hp s) (VLexEnv (next_id (st s))) = (VPtr ei, h1) /\
    heap_put h1 (VClosure lp ei) = (cp, h2) /\ r = false /\
    s' = with_acc (with_heap (with_store s (snd (new_env (st s) env))) h2) cp.
Proof.
  intros H. unfold closure_body in H.
  apply bind_pure_ok in H as (s0 & E0 & H); [|apply pure_get_vm]. injection E0 as <-.
  apply bind_pure_ok in H as (lp & Hlp & H); [|apply pure_as_ptr].
  destruct (acc s) eqn:Eacc; try discriminate. cbn [as_ptr] in Hlp. unfold ret in Hlp. injection Hlp as ->.
  apply bind_pure_ok in H as (lv & Hlv & H); [|apply pure_hget].
  unfold hget in Hlv. apply lift_ok in Hlv as (Hlv & _).
  apply bind_pure_ok in H as (l & Hl & H); [|apply pure_as_lambda].
  destruct lv; try discriminate. cbn [as_lambda] in Hl. unfold get_lambda in Hl.
  destruct (tget (lams (st s)) lid) as [l0|] eqn:El; [|discriminate].
  assert (l0 = l) by congruence. subst l0. clear Hl.
  unfold bindM at 1 in H.
  destruct (build_closure_environment (l_envmap l) s) as [env s1|e m s1|k|] eqn:Eb; try discriminate.
  destruct (closure_environment_slots _ _ _ _ Eb) as (-> & _).
  unfold bindM, env_new, hput, set_acc, ret in H.
  unfold new_env at 1 in H. cbn [hp with_store] in H.
  destruct (heap_put (hp s) (VLexEnv (next_id (st s)))) as [evp h1] eqn:Ehp.
  destruct evp; cbn [as_ptr fail ret] in H; try discriminate. unfold ret in H.
  cbn [hp with_heap] in H.
  destruct (heap_put h1 (VClosure lp p)) as [cp h2] eqn:Ehp2.
  injection H as <- <-.
  exists lp, lid, l, env, p, h1, cp, h2. repeat (split; [first [reflexivity|assumption]|]). reflexivity.
Qed.

Lemma load_arg_inv a s v s' : load_arg a s = ROk v s' -> exists j, v = sget s j.
Proof.
  intros H. unfold load_arg in H.
  apply bind_pure_ok in H as (s0 & E0 & H); [|apply pure_get_vm]. injection E0 as <-.
  apply bind_pure_ok in H as (x & _ & H); [|apply pure_stack_get].
  apply bind_pure_ok in H as (n & _ & H); [|apply pure_as_argc].
  apply bind_pure_ok in H as (b & _ & H); [|apply pure_usub].
  apply stack_get_inv in H as (-> & _). eauto.
Qed.

Lemma lexptr_cases (cur X : vcell) :
  (exists q k, cur = VLexPtr q k) \/
  (no_lexptr cur /\ match cur with VLexPtr _ _ => cur | _ => X end = X).
Proof. destruct cur; try (right; split; [exact I|reflexivity]). left; eauto. Qed.

Lemma Forall2_list_get {A B} (P : A -> B -> Prop) la lb : Forall2 P la lb ->
  forall k b, list_get lb k = Some b -> exists a, list_get la k = Some a /\ P a b.
Proof.
  unfold list_get. intros HF k. generalize (N.to_nat k). clear k.
  induction HF as [|a b la lb Hab HF IH]; intros [|n] b0 Hn; try discriminate.
  - injection Hn as <-. exists a. auto.
  - apply IH. exact Hn.
Qed.

(* CLOSURE preserves the invariant: a captured variable is copied as the flat pointer it
   already was, or becomes a pointer to the non-pointer slot of the current environment *)
Theorem lex_inv_closure s r s' : lex_inv s -> closure_body s = ROk r s' -> lex_inv s'.
Proof.
  intros Hinv H. pose proof Hinv as [I1 I2 I3 I4 I5].
  destruct (closure_body_inv s r s' H)
    as (lp & lid & l & env & ei & h1 & cp & h2 & _ & _ & _ & Hbuild & Hp1 & Hp2 & _ & ->).
  destruct (heap_put_keeps _ _ _ _ I1 Hp1) as (a1 & Ea1 & HI1 & _ & _ & _ & Hl1 & Hk1);
    [discriminate|discriminate|]. injection Ea1 as <-.
  destruct (heap_put_keeps _ _ _ _ HI1 Hp2) as (a2 & -> & HI2 & _ & _ & _ & Hl2 & Hk2);
    [discriminate|discriminate|].
  set (s' := with_acc (with_heap (with_store s (snd (new_env (st s) env))) h2) (VPtr a2)).
  assert (Hpers : forall q x, env_at s q = Some x -> env_at s' q = Some x).
  { intros q x Hq. eapply env_at_stable; [exact I1|exact I2| | | |exact Hq];
      cbn [s' hp st with_acc with_heap with_store new_env snd envs].
    - lia.
    - intros b Hb. destruct (Hk1 b Hb) as (_ & Hb1 & Hc1). destruct (Hk2 b Hb1) as (_ & _ & Hc2). congruence.
    - intros e He. apply tget_tset_other. lia. }
  destruct (closure_environment_slots _ _ _ _ Hbuild) as (_ & HF).
  constructor.
  - exact HI2.
  - apply (new_env_wf (st s) env I2).
  - apply (flat_envs_step s s'); [apply envs_persist_same; exact Hpers|exact I3|].
    intros eid l0 k v E Hk. cbn [s' st with_acc with_heap with_store new_env snd envs] in E.
    destruct (N.eq_dec (next_id (st s)) eid) as [<-|Hne].
    2:{ rewrite tget_tset_other in E by exact Hne. right. eauto. }
    rewrite tget_tset_same in E. injection E as <-.
    destruct (Forall2_list_get _ _ _ HF k v Hk) as ([sym src] & _ & Hsrc). cbn [snd] in Hsrc.
    destruct src; cbn [closure_slot] in Hsrc;
      try (subst v; left; exact I).
    + left. apply no_lexptr_slot_flat. destruct (load_arg_inv _ _ _ _ Hsrc) as (j & ->). apply I4.
    + destruct Hsrc as (eid & l1 & cur & Hep & Hcur & Hv).
      destruct (lexptr_cases cur (VLexPtr (ep s) n)) as [(q & k2 & Hq)|(Hcl & Hm)].
      * right. subst cur. subst v. apply env_at_some in Hep as (_ & _ & E1). eauto.
      * left. rewrite Hm in Hv. subst v. cbn [slot_flat]. exists eid, l1, cur.
        split; [apply Hpers; exact Hep|]. auto.
  - exact I4.
  - exact I.
Qed.

(* ---- slot loads and stores *)
(* under flatness a variable reference never yields a pointer *)
Theorem load_lex_slot_clean s k v s' : flat s -> load_lex_slot k s = ROk v s' -> no_lexptr v.
Proof.
  intros F H. apply load_lex_slot_inv in H as (_ & e & j & l & Hloc & Hl & Hv).
  unfold location in Hloc.
  destruct (env_at s (ep s)) as [[eid l0]|] eqn:Ee; [|discriminate].
  destruct (list_get l0 k) as [c|] eqn:Ec; [|discriminate].
  destruct (lexptr_cases c VUndef) as [(q & k2 & ->)|(Hcl & _)].
  - destruct (F _ _ _ _ _ _ Ee Ec) as (e2 & l2 & w & Hq & Hw & Hc).
    rewrite Hq in Hloc. injection Hloc as <- <-.
    apply env_at_some in Hq as (_ & _ & E2). rewrite E2 in Hl. injection Hl as <-.
    rewrite Hw in Hv. injection Hv as <-. exact Hc.
  - assert (Hd : Some (eid, k) = Some (e, j)) by (destruct c; try exact Hloc; destruct Hcl).
    injection Hd as <- <-. apply env_at_some in Ee as (_ & _ & E0). rewrite E0 in Hl. injection Hl as <-.
    rewrite Ec in Hv. injection Hv as <-. exact Hcl.
Qed.

(* an assignment of a non-pointer value preserves the invariant *)
Theorem lex_inv_store s k v u s' :
  lex_inv s -> no_lexptr v -> store_lex_slot k v s = ROk u s' -> lex_inv s'.
Proof.
  intros [I1 I2 I3 I4 I5] Hv H.
  destruct (store_lex_slot_inv k v s u s' H) as (e & j & l & _ & Hl & Hj & ->).
  assert (Hpers : envs_persist s (with_store s (set_env (st s) e (list_set l j v)))).
  { intros q e2 l2 Hq. apply env_at_some in Hq as (L & C & E).
    destruct (N.eq_dec e e2) as [<-|Hne].
    - rewrite Hl in E. injection E as <-. exists (list_set l j v). split.
      + apply env_at_some. cbn [hp st with_store envs set_env]. rewrite tget_tset_same. auto.
      + intros k0 w Hw. rewrite list_get_set, Hw. destruct (j =? k0); eauto.
    - exists l2. split.
      + apply env_at_some. cbn [hp st with_store envs set_env]. rewrite tget_tset_other by exact Hne. auto.
      + intros k0 w Hw. eauto. }
  constructor; cbn [hp st acc with_store].
  - exact I1.
  - intros e' He'. cbn [set_env envs next_id] in *.
    rewrite tget_tset_other; [apply I2; exact He'|]. intros ->. rewrite I2 in Hl by exact He'. discriminate.
  - apply (flat_envs_step s _ Hpers I3). intros eid l0 k0 v0 E Hk0.
    cbn [st with_store envs set_env] in E.
    destruct (N.eq_dec e eid) as [<-|Hne].
    + rewrite tget_tset_same in E. injection E as <-. rewrite list_get_set in Hk0.
      destruct (j =? k0).
      * destruct (list_get l k0); [|discriminate]. injection Hk0 as <-. left. apply no_lexptr_slot_flat, Hv.
      * right. eauto.
    + rewrite tget_tset_other in E by exact Hne. right. eauto.
  - exact I4.
  - exact I5.
Qed.

(* ---- the remaining instructions of the procedure-call protocol *)
Definition keeps_vals {A} (m : M A) : Prop :=
  forall s, match m s with
            | ROk _ s' | RErr _ _ s' => hp s' = hp s /\ st s' = st s /\ stack s' = stack s /\ acc s' = acc s
            | _ => True end.
Lemma keeps_vals_pure {A} (m : M A) : pure m -> keeps_vals m.
Proof. intros Hp s. specialize (Hp s). destruct (m s); try exact I; subst; auto. Qed.
Lemma keeps_vals_bind {A B} (m : M A) (f : A -> M B) :
  keeps_vals m -> (forall a, keeps_vals (f a)) -> keeps_vals (bindM m f).
Proof.
  intros Hm Hf s. unfold bindM. specialize (Hm s). destruct (m s) as [a s1|e msg s1|k|]; auto.
  specialize (Hf a s1). destruct (f a s1); auto; destruct Hm as (<- & <- & <- & <-); exact Hf.
Qed.
Lemma keeps_vals_ok {A} (m : M A) s a s' : keeps_vals m -> m s = ROk a s' ->
  hp s' = hp s /\ st s' = st s /\ stack s' = stack s /\ acc s' = acc s.
Proof. intros Hk H. specialize (Hk s). rewrite H in Hk. exact Hk. Qed.
Lemma keeps_vals_set_sp p : keeps_vals (set_sp p). Proof. intros s; cbn; auto. Qed.
Lemma keeps_vals_set_ep p : keeps_vals (set_ep p). Proof. intros s; cbn; auto. Qed.
Lemma keeps_vals_set_bp p : keeps_vals (set_bp p). Proof. intros s; cbn; auto. Qed.
Lemma keeps_vals_set_ip p : keeps_vals (set_ip p). Proof. intros s; cbn; auto. Qed.

Lemma keeps_vals_read_opcode : keeps_vals read_opcode.
Proof.
  unfold read_opcode. apply keeps_vals_bind; [apply keeps_vals_pure, pure_cur_lambda|]. intros l.
  apply keeps_vals_bind; [apply keeps_vals_pure, pure_get_vm|]. intros s.
  destruct (list_get (l_bc l) (snd (ip s))) as [[]|]; try (apply keeps_vals_pure, pure_fail).
  apply keeps_vals_bind; [apply keeps_vals_set_ip|]. intros _. apply keeps_vals_pure, pure_ret.
Qed.
Lemma keeps_vals_read_operand : keeps_vals read_operand.
Proof.
  unfold read_operand. apply keeps_vals_bind; [apply keeps_vals_pure, pure_cur_lambda|]. intros l.
  apply keeps_vals_bind; [apply keeps_vals_pure, pure_get_vm|]. intros s.
  destruct (list_get (l_bc l) (snd (ip s))) as [[]|]; try (apply keeps_vals_pure, pure_fail);
    (apply keeps_vals_bind; [apply keeps_vals_set_ip|]; intros _; apply keeps_vals_pure, pure_ret).
Qed.

Lemma keeps_vals_ret_body : keeps_vals ret_body.
Proof.
  unfold ret_body.
  apply keeps_vals_bind; [apply keeps_vals_pure, pure_get_vm|]. intros s.
  apply keeps_vals_bind; [apply keeps_vals_pure, pure_stack_get|]. intros a.
  apply keeps_vals_bind; [apply keeps_vals_pure, pure_as_argc|]. intros n.
  apply keeps_vals_bind; [apply keeps_vals_pure, pure_usub|]. intros nsp.
  apply keeps_vals_bind; [apply keeps_vals_set_sp|]. intros _.
  apply keeps_vals_bind; [apply keeps_vals_pure, pure_stack_get|]. intros e.
  apply keeps_vals_bind; [apply keeps_vals_pure, pure_as_ep|]. intros e'.
  apply keeps_vals_bind; [apply keeps_vals_set_ep|]. intros _.
  apply keeps_vals_bind; [apply keeps_vals_pure, pure_stack_get|]. intros i.
  apply keeps_vals_bind; [apply keeps_vals_pure, pure_as_ip|]. intros i'.
  apply keeps_vals_bind; [apply keeps_vals_set_ip|]. intros _.
  apply keeps_vals_bind; [apply keeps_vals_pure, pure_stack_get|]. intros b.
  apply keeps_vals_bind; [apply keeps_vals_pure, pure_as_bp|]. intros b'.
  apply keeps_vals_bind; [apply keeps_vals_set_bp|]. intros _.
  apply keeps_vals_pure, pure_ret.
Qed.

Lemma lex_inv_keeps_vals {A} (m : M A) s a s' : keeps_vals m -> m s = ROk a s' -> lex_inv s -> lex_inv s'.
Proof.
  intros Hk H Hinv. destruct (keeps_vals_ok m s a s' Hk H) as (Hh & Hs & Hst & Hacc).
  apply (lex_inv_regs s s' Hh Hs); [| |exact Hinv].
  - intros i. unfold sget. rewrite Hst. apply (li_stack s Hinv).
  - rewrite Hacc. apply (li_acc s Hinv).
Qed.

Lemma lex_inv_push s v u s' : lex_inv s -> no_lexptr v -> push v s = ROk u s' -> lex_inv s'.
Proof.
  intros Hinv Hv H. unfold push in H. injection H as _ <-.
  apply (lex_inv_regs s); try reflexivity; [|apply (li_acc s Hinv)|exact Hinv].
  apply (stack_clean_tset s _ v (sp s + 1)); [apply (li_stack s Hinv)|exact Hv|reflexivity].
Qed.

(* the instructions of the call protocol and of closure creation *)
Definition scoped_op (op : opcode) : bool :=
  match op with
  | OEnter | OClosureAcc | ORet | OPushAcc | OJmp | OJnt | OHalt => true
  | _ => false
  end.

Theorem lex_inv_step ob s op s0 r s' :
  lex_inv s -> read_opcode s = ROk op s0 -> scoped_op op = true ->
  run_one ob s = ROk r s' -> lex_inv s'.
Proof.
  intros Hinv Hop Hsc H.
  pose proof (lex_inv_keeps_vals _ _ _ _ keeps_vals_read_opcode Hop Hinv) as Hinv0.
  unfold run_one in H. unfold bindM at 1 in H. rewrite Hop in H.
  destruct op; try discriminate Hsc.
  - (* JMP *)
    eapply (lex_inv_keeps_vals _ s0 r s'); [|exact H|exact Hinv0].
    apply keeps_vals_bind; [apply keeps_vals_read_operand|]. intros o.
    apply keeps_vals_bind; [apply keeps_vals_pure, pure_as_ptr|]. intros p.
    apply keeps_vals_bind; [apply keeps_vals_pure, pure_get_vm|]. intros s1.
    apply keeps_vals_bind; [apply keeps_vals_set_ip|]. intros _. apply keeps_vals_pure, pure_ret.
  - (* JNT *)
    eapply (lex_inv_keeps_vals _ s0 r s'); [|exact H|exact Hinv0].
    apply keeps_vals_bind; [apply keeps_vals_read_operand|]. intros o.
    apply keeps_vals_bind; [apply keeps_vals_pure, pure_as_ptr|]. intros p.
    apply keeps_vals_bind; [apply keeps_vals_pure, pure_get_vm|]. intros s1.
    apply keeps_vals_bind; [apply keeps_vals_pure, pure_hderef|]. intros a.
    destruct a; try (apply keeps_vals_pure, pure_ret). destruct b; [apply keeps_vals_pure, pure_ret|].
    apply keeps_vals_bind; [apply keeps_vals_set_ip|]. intros _. apply keeps_vals_pure, pure_ret.
  - (* PUSH %acc *)
    unfold bindM, get_vm in H.
    destruct (push (acc s0) s0) as [u s1| | |] eqn:Ep; try discriminate. unfold ret in H. injection H as _ <-.
    eapply lex_inv_push; [exact Hinv0|apply (li_acc s0 Hinv0)|exact Ep].
  - (* HALT *)
    unfold ret in H. injection H as _ <-. exact Hinv0.
  - (* CLOSURE *)
    eapply lex_inv_closure; [exact Hinv0|exact H].
  - (* ENTER *)
    eapply lex_inv_enter; [exact Hinv0|exact H].
  - (* RET *)
    eapply (lex_inv_keeps_vals ret_body s0 r s'); [apply keeps_vals_ret_body|exact H|exact Hinv0].
Qed.

(* C02_locations_flat_stmt holds in every state satisfying the invariant *)
Corollary lex_inv_flat s : lex_inv s -> flat s.
Proof. intros H. apply flat_envs_flat, (li_flat s H). Qed.

(* ====================================================================== *)
(* a small machine for the non-vacuity examples of Props/C02.v: the closure at heap
   address 2 = (lambda at 0, closure environment at 1 = payload 1 = [Undefined; #t]);
   the lambda has one parameter (slot 0) and one captured variable (slot 1); the stack
   holds one argument and the frame CALL pushed; %ip is at the RET of the lambda *)
Definition ex_lambda : lambda :=
  mk_lambda false false [(VPtr 100, BArgument 0); (VPtr 101, BIofArgument 0)] [VPtr 100]
            [VOp OEnter; VOp ORet] None.
Definition ex_heap : heap :=
  snd (heap_put (snd (heap_put (snd (heap_put (heap_new 8) (VLambda 0))) (VLexEnv 1))) (VClosure 0 1)).
Definition ex_store : store :=
  mk_store tempty tempty (tset tempty 1 [VUndef; VBool true]) (tset tempty 0 ex_lambda) tempty tempty 2.
Definition ex_stack (arg : vcell) : tbl vcell :=
  tset (tset (tset (tset tempty 1 arg) 2 (VArgc 1)) 3 (VEp USIZE_MAX)) 4 (VIp 0 0).
Definition ex_vm (arg : vcell) : vm :=
  mk_vm ex_heap ex_store [] [] (ex_stack arg) STACK_INIT 4 0 USIZE_MAX (0, 1) (VPtr 2) [].
Definition ex_ob : N -> M vcell := fun _ => fail E_OTHER.
Definition st_of {A} (r : res A) (d : vm) : vm := match r with ROk _ s => s | _ => d end.
(* after the first call's ENTER; a second call on the memory the first one left; its ENTER *)
Definition ex_s1 : vm := st_of (enter_frame (ex_vm (VBool false))) (ex_vm VNil).
Definition ex_s2 : vm := with_store (with_heap (ex_vm VNil) (hp ex_s1)) (st ex_s1).
Definition ex_s2' : vm := st_of (enter_frame ex_s2) (ex_vm VNil).

Lemma ex_heap_inv : heap_inv ex_heap.
Proof. unfold ex_heap. repeat apply heap_inv_put_any. apply heap_inv_new. reflexivity. Qed.

Lemma ex_store_wf : store_wf ex_store.
Proof.
  intros e He. change (2 <= e) in He. change (tget (tset tempty 1 [VUndef; VBool true]) e = None).
  rewrite tget_tset_other by lia. apply tget_tempty.
Qed.

Lemma ex_lex_inv arg : no_lexptr arg -> lex_inv (ex_vm arg).
Proof.
  intros Ha. constructor; cbn [hp st acc ex_vm].
  - exact ex_heap_inv.
  - exact ex_store_wf.
  - intros eid l k v E Hk. change (tget (tset tempty 1 [VUndef; VBool true]) eid = Some l) in E.
    destruct (N.eq_dec 1 eid) as [<-|Hne].
    + rewrite tget_tset_same in E. injection E as <-. apply no_lexptr_slot_flat.
      unfold list_get in Hk. destruct (N.to_nat k) as [|[|[|n]]]; cbn in Hk; try discriminate;
        injection Hk as <-; exact I.
    + rewrite tget_tset_other in E by exact Hne. rewrite tget_tempty in E. discriminate.
  - intros i. rewrite sget_slot.
    change (stack (ex_vm arg)) with (tset (tset (tset (tset tempty 1 arg) 2 (VArgc 1)) 3 (VEp USIZE_MAX)) 4 (VIp 0 0)).
    rewrite !slot_tset.
    destruct (4 =? i); [exact I|]. destruct (3 =? i); [exact I|]. destruct (2 =? i); [exact I|].
    destruct (1 =? i); [exact Ha|]. unfold slot. rewrite tget_tempty. exact I.
  - exact I.
Qed.

(* the flatness statement quantified over ALL machine states — including states no run
   produces — is false: a hand-made environment whose slot points to itself *)
Definition ex_loop_vm : vm :=
  mk_vm (snd (heap_put (heap_new 8) (VLexEnv 0)))
        (mk_store tempty tempty (tset tempty 0 [VLexPtr 0 0]) tempty tempty tempty 1)
        [] [] stack_new STACK_INIT 0 0 0 (USIZE_MAX, 0) VUndef [].

Lemma flat_not_universal : ~ (forall s, flat s).
Proof.
  intros H. specialize (H ex_loop_vm 0 0 0 0 0 [VLexPtr 0 0] eq_refl eq_refl).
  destruct H as (e2 & l2 & v & He & Hv & Hc).
  vm_compute in He. injection He as <- <-. vm_compute in Hv. injection Hv as <-. exact Hc.
Qed.

(* facts about the example machine, by computation *)
Lemma ex_enter_1 : enter_frame (ex_vm (VBool false)) = ROk false ex_s1 /\ ep ex_s1 = 3 /\
  env_at ex_s1 3 = Some (2, [VBool false; VLexPtr 1 1]).
Proof. vm_compute. auto. Qed.
Lemma ex_enter_2 : enter_frame ex_s2 = ROk false ex_s2' /\ ep ex_s2' = 4 /\
  env_at ex_s2 3 = Some (2, [VBool false; VLexPtr 1 1]) /\
  env_at ex_s2' 4 = Some (3, [VNil; VLexPtr 1 1]) /\
  heap_deref (hp ex_s2) (acc ex_s2) = Ok (VClosure 0 1).
Proof. vm_compute. auto 6. Qed.
Lemma ex_store_2 : exists s3, store_lex_slot 0 (VChar 65) ex_s2' = ROk tt s3 /\
  location ex_s2' (ep ex_s2') 0 = Some (3, 0) /\
  env_at s3 4 = Some (3, [VChar 65; VLexPtr 1 1]) /\
  load_lex_slot 0 (with_ep ex_s2' 3) = ROk (VBool false) (with_ep ex_s2' 3).
Proof. eexists. vm_compute. auto 6. Qed.
Lemma ex_ret : exists s0 s', read_opcode ex_s1 = ROk ORet s0 /\ run_one ex_ob ex_s1 = ROk false s' /\
  ep s' = USIZE_MAX /\ sp s' = 0 /\ heap_get (hp ex_s1) 2 = Ok (VClosure 0 1) /\
  load_lex_slot 0 (with_ep ex_s1 3) = ROk (VBool false) (with_ep ex_s1 3).
Proof. eexists. eexists. vm_compute. auto 8. Qed.
