(* QuoteHeapProofs.v — C10 (d): a datum survives the trip into the VM heap and back:
   get_as_cell (put_cell d) = d, for every datum made of booleans, characters,
   numbers, strings, symbols, nil, pairs and vectors, nested without bound, on every
   heap satisfying the interning invariant of C18 (Proofs/SymtabProofs.v).
   Method: a logical relation.  [reads v c h s]: on every heap/store that EXTENDS
   (h, s) (allocated cells and existing Rc objects unchanged) get_as_cell turns the
   value v into the datum c, given enough fuel.  put_cell only allocates, so what
   was established for a sub-datum stays true while the rest is stored.          *)
From Coq Require Import Lia FMapPositive.
From MW Require Import Model.Base Model.F64 Model.Num Model.Datum Model.TransformDef
  Model.VmTypes Model.Heap Model.Gc Proofs.VmProofs0 Proofs.GcProofs Proofs.SymtabProofs.
Open Scope N_scope.

(* the data that have a heap representation (cell.rs: the variants the reader and the
   constructors produce; Continuation/Macro/Procedure exist for printing only and
   put_cell panics on them) *)
Fixpoint heap_datum (c : cell) : Prop :=
  match c with
  | CCont | CMacro | CProc _ => False
  | CPair a d => heap_datum a /\ heap_datum d
  | CVec l => (fix all (l : list cell) : Prop :=
                 match l with [] => True | x :: r => heap_datum x /\ all r end) l
  | _ => True
  end.

Lemma heap_datum_vec l : heap_datum (CVec l) <-> Forall heap_datum l.
Proof.
  cbn [heap_datum]. induction l as [|x r IH]; [split; constructor|].
  split.
  - intros [Hx Hr]. constructor; [exact Hx|apply IH; exact Hr].
  - intros H. inversion H; subst. split; [assumption|apply IH; assumption].
Qed.

(* ------------------------------------------------------------- extensions *)
Definition hext (h h2 : heap) : Prop :=
  forall q, allocated h q -> allocated h2 q /\ cell_at h2 q = cell_at h q.
Definition sext (s s2 : store) : Prop :=
  next_id s <= next_id s2 /\
  forall i, i < next_id s -> tget (strs s2) i = tget (strs s) i /\ tget (vecs s2) i = tget (vecs s) i.
Definition ext (h : heap) (s : store) (h2 : heap) (s2 : store) : Prop := hext h h2 /\ sext s s2.

Lemma ext_refl h s : ext h s h s.
Proof. split; [intros q Hq; auto|split; [lia|auto]]. Qed.

Lemma ext_trans h s h1 s1 h2 s2 : ext h s h1 s1 -> ext h1 s1 h2 s2 -> ext h s h2 s2.
Proof.
  intros [H1 [N1 S1]] [H2 [N2 S2]]. split.
  - intros q Hq. destruct (H1 q Hq) as [A1 C1]. destruct (H2 q A1) as [A2 C2]. split; [assumption|congruence].
  - split; [lia|]. intros i Hi. destruct (S1 i Hi) as [E1 E2]. destruct (S2 i ltac:(lia)) as [E3 E4].
    split; congruence.
Qed.

Lemma ext_heap h s h2 : hext h h2 -> ext h s h2 s.
Proof. intros H. split; [exact H|split; [lia|auto]]. Qed.

Lemma heap_get_alloc h q : allocated h q -> heap_get h q = Ok (cell_at h q).
Proof.
  intros [L _]. unfold heap_get, cell_at. apply N.ltb_lt in L. rewrite L. reflexivity.
Qed.

(* ---------------------------------------------------------------- allocation *)
Lemma heap_alloc_frame h p h' : heap_inv h -> heap_alloc h = (p, h') ->
  heap_inv h' /\ allocated h' p /\ ~ allocated h p /\ cells h' = cells h /\ symtab h' = symtab h /\
  (forall q, allocated h q -> allocated h' q).
Proof.
  intros HI H. unfold heap_alloc in H.
  set (h1 := match free_list h with [] => heap_grow h | _ :: _ => h end) in *.
  assert (HI1 : heap_inv h1) by (unfold h1; destruct (free_list h); [now apply heap_inv_grow|assumption]).
  assert (NE : free_list h1 <> []).
  { unfold h1. destruct (free_list h) eqn:E; [now apply grow_free_nonempty|]. rewrite E. discriminate. }
  assert (G1 : gcmap h1 = gcmap h /\ cells h1 = cells h /\ symtab h1 = symtab h /\ hlen h <= hlen h1).
  { unfold h1. destruct (free_list h); [|repeat split; lia].
    repeat split. unfold heap_grow. cbn [hlen].
    pose proof (hi_chunk h HI) as [C0 C1]. pose proof (grow_size h C0 C1). lia. }
  destruct G1 as (Gg & Gc & Gs & Gl).
  destruct (free_list h1) as [|q fl] eqn:E1; [contradiction|]. injection H as <- <-.
  destruct (heap_inv_pop h1 q fl HI1 E1) as [HI2 [L [U F]]].
  split; [exact HI2|]. split.
  { split; cbn [hlen gcmap]; [exact L|]. rewrite g_get_tset_same. discriminate. }
  split.
  { intros [_ A]. rewrite <- Gg in A. contradiction. }
  split; [exact Gc|]. split; [exact Gs|].
  intros x [Lx Ax]. split; cbn [hlen gcmap]; [lia|].
  destruct (N.eq_dec q x) as [->|Hne]; [rewrite g_get_tset_same; discriminate|].
  rewrite g_get_tset_other by assumption. rewrite Gg. exact Ax.
Qed.

(* Heap::put of anything but a pointer: a pointer to an allocated cell holding the
   value; every cell allocated before is untouched *)
Lemma heap_put_frame h v r h' : heap_inv h -> heap_put h v = (r, h') -> (forall p, v <> VPtr p) ->
  exists a, r = VPtr a /\ allocated h' a /\ cell_at h' a = v /\ heap_inv h' /\ hext h h'.
Proof.
  intros HI H Hnp.
  assert (Hnew : forall q h1, heap_store_new h v = (q, h1) ->
            allocated h1 q /\ cell_at h1 q = v /\ hext h h1).
  { intros q h1 Hs. unfold heap_store_new in Hs. destruct (heap_alloc h) as [q0 h0] eqn:Ea.
    injection Hs as <- <-. destruct (heap_alloc_frame h q0 h0 HI Ea) as (HI0 & A0 & NA & Ec & Es & Fr).
    split; [exact A0|]. split; [rewrite cell_at_set, N.eqb_refl; reflexivity|].
    intros x Hx. split; [apply Fr, Hx|]. rewrite cell_at_set.
    destruct (N.eqb_spec x q0) as [->|Hne]; [contradiction|].
    unfold cell_at. rewrite Ec. reflexivity. }
  pose proof (heap_inv_put _ _ _ _ HI H) as HI'.
  assert (Hsym : forall n, v = VSym n ->
            exists a, r = VPtr a /\ allocated h' a /\ cell_at h' a = v /\ heap_inv h' /\ hext h h').
  { intros n ->. destruct (heap_put_sym h n r h' HI H) as (p & -> & A & C & _).
    exists p. split; [reflexivity|]. split; [exact A|]. split; [exact C|]. split; [exact HI'|].
    unfold heap_put in H. destruct (symtab_find (symtab h) n) as [q|] eqn:Ef.
    - injection H as _ <-. intros x Hx. auto.
    - destruct (heap_store_new h (VSym n)) as [q h1] eqn:Es. injection H as _ <-.
      destruct (Hnew q h1 eq_refl) as (_ & _ & Fr).
      intros x Hx. destruct (Fr x Hx) as [Ax Cx]. split; [exact Ax|exact Cx]. }
  destruct v; try (exfalso; eapply Hnp; reflexivity); try (eapply Hsym; reflexivity);
    (unfold heap_put in H; destruct (heap_store_new h _) as [q h1] eqn:Es; injection H as <- <-;
     destruct (Hnew q h1 eq_refl) as (A & C & Fr); exists q;
     split; [reflexivity|]; split; [exact A|]; split; [exact C|]; split; [exact HI'|exact Fr]).
Qed.

(* ------------------------------------------------------ the logical relation *)
Section Reads.
Variable bname : N -> text.

Definition reads (v : vcell) (c : cell) (h : heap) (s : store) : Prop :=
  forall h2 s2, ext h s h2 s2 ->
    exists n, forall fuel, (n <= fuel)%nat -> get_as_cell bname h2 s2 fuel v = Ok c.

Lemma reads_ext v c h s h1 s1 : reads v c h s -> ext h s h1 s1 -> reads v c h1 s1.
Proof. intros R E h2 s2 E2. apply R. eapply ext_trans; eassumption. Qed.

(* immediate values *)
Lemma reads_imm v c h s : (forall f, get_as_cell bname h s (S f) v = Ok c) ->
  (forall h2 s2 f, get_as_cell bname h2 s2 (S f) v = get_as_cell bname h s (S f) v) -> reads v c h s.
Proof.
  intros H Hind h2 s2 _. exists 1%nat. intros fuel Hf. destruct fuel; [lia|]. rewrite Hind. apply H.
Qed.

(* a pointer to an allocated cell holding w reads what w reads *)
Lemma reads_ptr a w c h s : allocated h a -> cell_at h a = w -> reads w c h s -> reads (VPtr a) c h s.
Proof.
  intros A C R h2 s2 E. destruct (R h2 s2 E) as [n Hn]. exists (S n). intros fuel Hf.
  destruct fuel as [|f]; [lia|]. cbn [get_as_cell].
  destruct E as [He _]. destruct (He a A) as [A2 C2].
  rewrite (heap_get_alloc h2 a A2), C2, C. cbn [bind]. apply Hn. lia.
Qed.

(* the value stored for a sub-datum, made a pointer as put_cell does (heap.rs:166-176) *)
Lemma reads_ptrify v c h s pa h2 : heap_inv h -> reads v c h s ->
  (match v with VPtr _ => (v, h) | _ => heap_put h v end) = (pa, h2) ->
  exists x, pa = VPtr x /\ heap_inv h2 /\ hext h h2 /\ reads (VPtr x) c h2 s.
Proof.
  intros HI R H.
  assert (Hcase : (exists p, v = VPtr p) \/ (forall p, v <> VPtr p)).
  { destruct v; try (right; discriminate). left; eauto. }
  destruct Hcase as [[p ->]|Hnp].
  - injection H as <- <-. exists p. split; [reflexivity|]. split; [assumption|]. split; [intros q Hq; auto|exact R].
  - assert (H' : heap_put h v = (pa, h2)) by (destruct v; try exact H; exfalso; eapply Hnp; reflexivity).
    destruct (heap_put_frame h v pa h2 HI H' Hnp) as (a & -> & A & C & HI2 & Fr).
    exists a. split; [reflexivity|]. split; [assumption|]. split; [assumption|].
    apply (reads_ptr a v); [assumption|assumption|].
    eapply reads_ext; [exact R|]. apply ext_heap, Fr.
Qed.

(* what a pointer reads is what the cell it points to reads (inversion of reads_ptr) *)
Lemma reads_ptr_inv y c h s : reads (VPtr y) c h s ->
  forall h2 s2, ext h s h2 s2 -> exists dv n, heap_get h2 y = Ok dv /\
    forall fuel, (n <= fuel)%nat -> get_as_cell bname h2 s2 fuel dv = Ok c.
Proof.
  intros R h2 s2 E. destruct (R h2 s2 E) as [n Hn].
  pose proof (Hn (S n) ltac:(lia)) as H1. cbn [get_as_cell] in H1.
  apply bind_ok_inv in H1 as [dv [Hg _]]. exists dv, n. split; [exact Hg|].
  intros fuel Hf. pose proof (Hn (S fuel) ltac:(lia)) as H2. cbn [get_as_cell] in H2.
  rewrite Hg in H2. exact H2.
Qed.

Lemma reads_pair x y ca cd h s : reads (VPtr x) ca h s -> reads (VPtr y) cd h s ->
  reads (VPair x y) (CPair ca cd) h s.
Proof.
  intros Ra Rd h2 s2 E. destruct (Ra h2 s2 E) as [na Hna].
  destruct (reads_ptr_inv y cd h s Rd h2 s2 E) as (dv & nd & Hg & Hnd).
  exists (S (S (na + nd))). intros fuel Hf. destruct fuel as [|f]; [lia|].
  cbn [get_as_cell]. rewrite (Hna f) by lia. cbn [bind]. rewrite Hg. cbn [bind].
  pose proof (Hnd f ltac:(lia)) as Hd.
  destruct dv; try (rewrite Hd; reflexivity).
  (* VNil: the cdr must be the empty list *)
  destruct f as [|f']; [lia|]. cbn [get_as_cell] in Hd. injection Hd as <-. reflexivity.
Qed.

(* ------------------------------------------------------------ put_cell *)
Definition put_ok (c : cell) : Prop :=
  forall h s, heap_inv h ->
    exists v h' s', maybe_put_cell h s c = Ok (v, h', s') /\ heap_inv h' /\ ext h s h' s' /\ reads v c h' s'.

Lemma sext_new_str s t : let '(sid, s1) := new_str s t in
  sext s s1 /\ tget (strs s1) sid = Some t /\ sid < next_id s1.
Proof.
  unfold new_str. cbn. split; [|split; [apply tget_tset_same|lia]].
  split; [cbn; lia|]. intros i Hi. cbn. split; [apply tget_tset_other; lia|reflexivity].
Qed.

Lemma sext_new_vec s l : let '(vid, s1) := new_vec s l in
  sext s s1 /\ tget (vecs s1) vid = Some l /\ vid < next_id s1.
Proof.
  unfold new_vec. cbn. split; [|split; [apply tget_tset_same|lia]].
  split; [cbn; lia|]. intros i Hi. cbn. split; [reflexivity|apply tget_tset_other; lia].
Qed.

Lemma put_ok_atom c : (forall a d, c <> CPair a d) -> (forall l, c <> CVec l) -> heap_datum c -> put_ok c.
Proof.
  intros Hnp Hnv Hd h s HI.
  destruct c; try contradiction; try (exfalso; eapply Hnp; reflexivity); try (exfalso; eapply Hnv; reflexivity);
    cbn [maybe_put_cell];
    try (eexists; eexists; eexists; split; [reflexivity|]; split; [assumption|]; split; [apply ext_refl|];
         apply reads_imm; intros; reflexivity).
  - (* string *)
    pose proof (sext_new_str s s0) as Hs. destruct (new_str s s0) as [sid s1]. destruct Hs as (Se & Sg & Sl).
    destruct (heap_put h (VStr sid)) as [p h1] eqn:E.
    destruct (heap_put_frame h (VStr sid) p h1 HI E ltac:(discriminate)) as (a & -> & A & C & HI1 & Fr).
    exists (VPtr a), h1, s1. split; [reflexivity|]. split; [assumption|]. split; [split; assumption|].
    apply (reads_ptr a (VStr sid)); [assumption|assumption|].
    intros h2 s2 [_ [_ S2]]. exists 1%nat. intros fuel Hf. destruct fuel; [lia|]. cbn [get_as_cell].
    destruct (S2 sid Sl) as [-> _]. rewrite Sg. reflexivity.
  - (* symbol *)
    destruct (heap_put h (VSym s0)) as [p h1] eqn:E.
    destruct (heap_put_frame h (VSym s0) p h1 HI E ltac:(discriminate)) as (a & -> & A & C & HI1 & Fr).
    exists (VPtr a), h1, s. split; [reflexivity|]. split; [assumption|].
    split; [apply ext_heap, Fr|].
    apply (reads_ptr a (VSym s0)); [assumption|assumption|].
    apply reads_imm; intros; reflexivity.
Qed.

Lemma put_ok_pair a d : put_ok a -> put_ok d -> put_ok (CPair a d).
Proof.
  intros Pa Pd h s HI. cbn [maybe_put_cell].
  destruct (Pa h s HI) as (va & h1 & s1 & -> & HI1 & E1 & R1). cbn [bind].
  destruct (match va with VPtr _ => (va, h1) | _ => heap_put h1 va end) as [pa h2] eqn:E2.
  destruct (reads_ptrify va a h1 s1 pa h2 HI1 R1 E2) as (x & -> & HI2 & Fr2 & Rx).
  destruct (Pd h2 s1 HI2) as (vd & h3 & s3 & -> & HI3 & E3 & R3). cbn [bind].
  destruct (match vd with VPtr _ => (vd, h3) | _ => heap_put h3 vd end) as [pd h4] eqn:E4.
  destruct (reads_ptrify vd d h3 s3 pd h4 HI3 R3 E4) as (y & -> & HI4 & Fr4 & Ry).
  destruct (heap_put h4 (VPair x y)) as [p h5] eqn:E5.
  destruct (heap_put_frame h4 (VPair x y) p h5 HI4 E5 ltac:(discriminate)) as (q & -> & A & C & HI5 & Fr5).
  assert (X24 : ext h2 s1 h4 s3).
  { apply (ext_trans h2 s1 h3 s3); [exact E3|]. apply ext_heap, Fr4. }
  exists (VPtr q), h5, s3. split; [reflexivity|]. split; [assumption|]. split.
  - apply (ext_trans h s h1 s1); [exact E1|]. apply (ext_trans h1 s1 h2 s1); [apply ext_heap, Fr2|].
    apply (ext_trans h2 s1 h4 s3); [exact X24|]. apply ext_heap, Fr5.
  - apply (reads_ptr q (VPair x y)); [assumption|assumption|].
    apply (reads_ext _ _ h4 s3); [|apply ext_heap, Fr5].
    apply reads_pair; [|exact Ry].
    eapply reads_ext; [exact Rx|exact X24].
Qed.

(* the element loop of the vector arm *)
Definition elems_of :=
  fix elems (h : heap) (s : store) (l : list cell) (acc : list vcell) {struct l} : out (list vcell * heap * store) :=
    match l with
    | [] => Ok (rev acc, h, s)
    | x :: r => do (v, h1, s1) <- maybe_put_cell h s x; elems h1 s1 r (v :: acc)
    end.

Definition reads_all (vs : list vcell) (cs : list cell) (h : heap) (s : store) : Prop :=
  Forall2 (fun v c => reads v c h s) vs cs.

Lemma reads_all_ext vs cs h s h1 s1 : reads_all vs cs h s -> ext h s h1 s1 -> reads_all vs cs h1 s1.
Proof. intros R E. induction R; constructor; [eapply reads_ext; eassumption|assumption]. Qed.

Lemma elems_ok l : Forall put_ok l -> forall h s acc accc, heap_inv h -> reads_all (rev acc) accc h s ->
  exists vs h' s', elems_of h s l acc = Ok (vs, h', s') /\ heap_inv h' /\ ext h s h' s' /\
    reads_all vs (accc ++ l) h' s'.
Proof.
  induction 1 as [|x r Hx Hr IH]; intros h s acc accc HI Racc.
  - exists (rev acc), h, s. split; [reflexivity|]. split; [assumption|]. split; [apply ext_refl|].
    rewrite app_nil_r. exact Racc.
  - cbn [elems_of]. destruct (Hx h s HI) as (v & h1 & s1 & -> & HI1 & E1 & R1). cbn [bind].
    assert (Racc1 : reads_all (rev (v :: acc)) (accc ++ [x]) h1 s1).
    { cbn [rev]. apply Forall2_app; [eapply reads_all_ext; eassumption|]. constructor; [exact R1|constructor]. }
    destruct (IH h1 s1 (v :: acc) (accc ++ [x]) HI1 Racc1) as (vs & h' & s' & E & HI' & X & R).
    exists vs, h', s'. split; [exact E|]. split; [assumption|]. split; [eapply ext_trans; eassumption|].
    rewrite <- app_assoc in R. exact R.
Qed.

Lemma reads_vec_elems vs cs h2 s2 : Forall2 (fun v c => exists n, forall fuel, (n <= fuel)%nat ->
    get_as_cell bname h2 s2 fuel v = Ok c) vs cs ->
  exists n, forall f, (n <= f)%nat ->
    (fix elems (l : list vcell) : out (list cell) :=
       match l with
       | [] => Ok []
       | x :: r => do c <- get_as_cell bname h2 s2 f x; do cs <- elems r; Ok (c :: cs)
       end) vs = Ok cs.
Proof.
  induction 1 as [|v c vs cs [n Hn] _ [m Hm]].
  - exists 0%nat. reflexivity.
  - exists (n + m)%nat. intros f Hf. rewrite (Hn f) by lia. cbn [bind]. rewrite (Hm f) by lia. reflexivity.
Qed.

Lemma put_ok_vec l : Forall put_ok l -> put_ok (CVec l).
Proof.
  intros HF h s HI. cbn [maybe_put_cell]. fold elems_of.
  destruct (elems_ok l HF h s [] [] HI ltac:(constructor)) as (vs & h1 & s1 & -> & HI1 & E1 & R1).
  cbn [bind app] in *.
  pose proof (sext_new_vec s1 vs) as Hs. destruct (new_vec s1 vs) as [vid s2]. destruct Hs as (Se & Sg & Sl).
  destruct (heap_put h1 (VVec vid)) as [p h2] eqn:E.
  destruct (heap_put_frame h1 (VVec vid) p h2 HI1 E ltac:(discriminate)) as (a & -> & A & C & HI2 & Fr).
  assert (X12 : ext h1 s1 h2 s2) by (split; assumption).
  exists (VPtr a), h2, s2. split; [reflexivity|]. split; [assumption|]. split; [eapply ext_trans; eassumption|].
  apply (reads_ptr a (VVec vid)); [assumption|assumption|].
  intros h3 s3 E3.
  assert (Rall : Forall2 (fun v c => exists n, forall fuel, (n <= fuel)%nat ->
             get_as_cell bname h3 s3 fuel v = Ok c) vs l).
  { clear -R1 X12 E3. induction R1 as [|v c vs0 cs0 R _ IH]; constructor; [|exact IH].
    apply R. eapply ext_trans; eassumption. }
  destruct (reads_vec_elems vs l h3 s3 Rall) as [n Hn].
  exists (S n). intros fuel Hf. destruct fuel as [|f]; [lia|]. cbn [get_as_cell].
  destruct E3 as [_ [_ S3]]. destruct (S3 vid Sl) as [_ ->]. rewrite Sg.
  rewrite (Hn f) by lia. reflexivity.
Qed.

Theorem maybe_put_cell_reads c : heap_datum c -> put_ok c.
Proof.
  induction c as [c Hnp Hnv|ca cd IHa IHd|l HF] using cell_ind2; intros Hd.
  - apply put_ok_atom; assumption.
  - destruct Hd as [Ha Hd]. apply put_ok_pair; auto.
  - apply put_ok_vec. apply heap_datum_vec in Hd.
    induction HF as [|x r Hx _ IH]; constructor; inversion Hd; subst; auto.
Qed.

(* C10 (d) quote_eval at the datum <-> heap level: Heap::put_cell succeeds on every
   heap datum and Heap::get_as_cell gives the datum back, on the heap it produced and on
   every later extension of it, for every sufficiently large fuel (get_as_cell does not
   terminate on cyclic structures, which put_cell never builds) *)
Theorem put_get_roundtrip d h s : heap_datum d -> heap_inv h ->
  exists v h' s', put_cell h s d = Ok (v, h', s') /\ heap_inv h' /\
    exists n, forall fuel, (n <= fuel)%nat -> get_as_cell bname h' s' fuel v = Ok d.
Proof.
  intros Hd HI. destruct (maybe_put_cell_reads d Hd h s HI) as (v & h1 & s1 & E & HI1 & X & R).
  unfold put_cell. rewrite E. cbn [bind].
  destruct (match v with VPtr _ => (v, h1) | _ => heap_put h1 v end) as [pa h2] eqn:E2.
  destruct (reads_ptrify v d h1 s1 pa h2 HI1 R E2) as (x & -> & HI2 & Fr & Rx).
  exists (VPtr x), h2, s1. split.
  - destruct v; try (rewrite E2; reflexivity); injection E2 as <- <-; reflexivity.
  - split; [assumption|]. apply (Rx h2 s1). apply ext_refl.
Qed.
End Reads.

(* ------------------------------------------------------------ the compiler *)
(* compile.rs: (quote d) is compiled by storing d with Heap::maybe_put_cell and emitting
   MOV_IMMEDIATE <that value> %acc; on a machine whose heap satisfies the interning
   invariant the immediate operand reads d back, now and after any later allocation *)
From MW Require Import Model.VmBase Model.Compile.

Definition quote_of (d : cell) : cell := new_list [CSym QUOTE; d].

(* compile.rs is_datum (the repair of finding eval-object-in-constant): exactly the data that
   have a heap representation pass the test of compile_quote *)
Lemma heap_datum_is_datum d : heap_datum d -> cell_is_datum d = true.
Proof.
  induction d as [c Hnp Hnv|ca cd IHa IHd|l HF] using cell_ind2; intros H.
  - destruct c; try reflexivity; try (exfalso; exact H).
    + exfalso. now apply (Hnp c1 c2).
    + exfalso. now apply (Hnv l).
  - destruct H as [Ha Hd]. cbn [cell_is_datum]. rewrite (IHa Ha), (IHd Hd). reflexivity.
  - apply heap_datum_vec in H. cbn [cell_is_datum]. apply forallb_forall. intros x Hx.
    rewrite Forall_forall in HF, H. apply (HF x Hx), (H x Hx).
Qed.
Lemma is_datum_heap_datum d : cell_is_datum d = true -> heap_datum d.
Proof.
  induction d as [c Hnp Hnv|ca cd IHa IHd|l HF] using cell_ind2; intros H.
  - destruct c; try exact I; try discriminate H.
    + exfalso. now apply (Hnp c1 c2).
    + exfalso. now apply (Hnv l).
  - cbn [cell_is_datum] in H. apply andb_prop in H. destruct H as [Ha Hd].
    split; [apply IHa, Ha|apply IHd, Hd].
  - apply heap_datum_vec. cbn [cell_is_datum] in H. rewrite forallb_forall in H.
    rewrite Forall_forall in *. intros x Hx. apply (HF x Hx), (H x Hx).
Qed.

Lemma compile_quote_form f l tail d : heap_datum d ->
  compile_expression (S f) l tail (quote_of d) =
  (dom v <- maybe_put_cell_m d; ret (emit (emit (emit_op l OMovImmediate) v) VAcc)).
Proof.
  intros Hd. change (compile_expression (S f) l tail (quote_of d)) with
    (if negb (cell_is_datum d) then fail E_OTHER else
     dom v <- maybe_put_cell_m d; ret (emit (emit (emit_op l OMovImmediate) v) VAcc)).
  rewrite (heap_datum_is_datum d Hd). reflexivity.
Qed.

Theorem compile_quote_reads (bname : N -> text) f l tail d (s : vm) : heap_datum d -> heap_inv (hp s) ->
  exists v s', compile_expression (S f) l tail (quote_of d) s
                 = ROk (emit (emit (emit_op l OMovImmediate) v) VAcc) s' /\
    heap_inv (hp s') /\ reads bname v d (hp s') (st s').
Proof.
  intros Hd HI. rewrite (compile_quote_form _ _ _ _ Hd).
  destruct (maybe_put_cell_reads bname d Hd (hp s) (st s) HI) as (v & h1 & s1 & E & HI1 & _ & R).
  exists v, (with_store (with_heap s h1) s1). split; [|split; [exact HI1|exact R]].
  unfold bindM, maybe_put_cell_m. rewrite E. reflexivity.
Qed.
