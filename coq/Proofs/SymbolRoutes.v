(* SymbolRoutes.v — C18, work package c19c: ONE statement across the two routes that make a
   symbol, for all names.
     reader route   a symbol literal / quoted datum: the reader makes Cell::Symbol(spelling)
                    (Model/SymbolB.reader_symbol_name), the compiler stores it with
                    Heap::put_cell                                   [put_cell h s (CSym y)]
     builtin route  (string->symbol str): builtin/symbol.rs returns VCell::Symbol(encoded name)
                    BY VALUE (Model/Builtins.b_string_symbol) and the CALL wrapper
                    (run.rs:149-156, Vm.resolve_callee) stores it with Heap::maybe_put
                                                [heap_maybe_put h (VSym (string_to_symbol t))]
   Both end in Heap::put of VCell::Symbol, which interns.  The two symbols are the SAME CELL —
   eq? answers #t — iff the encoded name equals the spelling; in particular for every plain
   identifier spelled the same; NOT for the two recorded defect classes (the C18_refuted theorems). *)
From Coq Require Import Lia FMapPositive String.
From MW Require Import Model.Base Model.F64 Model.Num Model.Datum Model.Lex Model.Parse Model.TransformDef
  Model.VmTypes Model.Heap Model.VmBase Model.Gc Model.SymbolB Model.ListVec
  Model.Vm Model.Builtins Proofs.GcProofs Proofs.SymtabProofs Proofs.SymbolProofs.
Open Scope N_scope.

(* ------------------------------------------------------------------ the two routes *)
Lemma put_cell_sym : forall h s n v h' s',
  put_cell h s (CSym n) = Ok (v, h', s') <-> (heap_put h (VSym n) = (v, h') /\ s' = s).
Proof.
  intros h s n v h' s'. unfold put_cell. cbn [maybe_put_cell].
  assert (Hptr : forall r h1, heap_put h (VSym n) = (r, h1) -> exists p, r = VPtr p).
  { intros r h1 H. unfold heap_put in H. destruct (symtab_find (symtab h) n).
    - injection H as <- _. eauto.
    - destruct (heap_store_new h (VSym n)) as [p h2]. injection H as <- _. eauto. }
  destruct (heap_put h (VSym n)) as [r h1] eqn:E. destruct (Hptr r h1 eq_refl) as (p & ->).
  cbn [bind]. split.
  - intros [= <- <- <-]. split; reflexivity.
  - intros ([= <- <-] & ->). reflexivity.
Qed.
Lemma maybe_put_sym : forall h n, heap_maybe_put h (VSym n) = heap_put h (VSym n).
Proof. reflexivity. Qed.

(* ------------------------------------------------ a later put keeps an interned symbol *)
Lemma heap_put_sym_keeps : forall h n r h', heap_inv h -> heap_put h (VSym n) = (r, h') ->
  forall m a, symtab_find (symtab h) m = Some a -> symtab_find (symtab h') m = Some a.
Proof.
  intros h n r h' HI H m a Hm. unfold heap_put in H.
  destruct (symtab_find (symtab h) n) as [q|] eqn:Ef.
  - injection H as _ <-. exact Hm.
  - unfold heap_store_new in H. destruct (heap_alloc h) as [q h1] eqn:Ea. injection H as _ <-.
    cbn [symtab symtab_find].
    destruct (heap_inv_alloc h q h1 HI Ea) as (_ & _ & _ & _ & Es & _). rewrite Es.
    destruct (text_eqb n m) eqn:Enm; [|exact Hm].
    apply text_eqb_eq in Enm. subst m. rewrite Ef in Hm. discriminate Hm.
Qed.

(* two puts of symbols, in a row: two allocated symbol cells; the same cell iff the same name *)
Theorem two_puts : forall h n1 n2 v1 h1 v2 h2,
  heap_inv h -> heap_put h (VSym n1) = (v1, h1) -> heap_put h1 (VSym n2) = (v2, h2) ->
  exists p q, v1 = VPtr p /\ v2 = VPtr q /\ heap_inv h2 /\ allocated h2 p /\ allocated h2 q /\
    cell_at h2 p = VSym n1 /\ cell_at h2 q = VSym n2 /\ (p = q <-> n1 = n2).
Proof.
  intros h n1 n2 v1 h1 v2 h2 HI H1 H2.
  pose proof (heap_inv_put _ _ _ _ HI H1) as HI1.
  pose proof (heap_inv_put _ _ _ _ HI1 H2) as HI2.
  destruct (heap_put_sym h n1 v1 h1 HI H1) as (p & -> & Ap & Cp & _).
  destruct (heap_put_sym h1 n2 v2 h2 HI1 H2) as (q & -> & Aq & Cq & _).
  assert (Ef1 : symtab_find (symtab h1) n1 = Some p).
  { apply (hi_symtab h1 HI1). destruct Ap as (L & G). auto. }
  pose proof (heap_put_sym_keeps h1 n2 _ h2 HI1 H2 n1 p Ef1) as Ef2.
  apply (hi_symtab h2 HI2) in Ef2. destruct Ef2 as (L2 & G2 & C2).
  exists p, q. split; [reflexivity|]. split; [reflexivity|]. split; [exact HI2|].
  split; [split; assumption|]. split; [exact Aq|]. split; [exact C2|]. split; [exact Cq|].
  split; intros E.
  - exact (proj2 (same_name_iff_same_cell h2 p q n1 n2 HI2 (conj L2 G2) Aq C2 Cq) E).
  - exact (proj1 (same_name_iff_same_cell h2 p q n1 n2 HI2 (conj L2 G2) Aq C2 Cq) E).
Qed.

(* eq? (Vm::eqv, compare.rs:26-57) on two pointers to symbol cells compares the addresses *)
Lemma heap_get_cell_at : forall h p, p < hlen h -> heap_get h p = Ok (cell_at h p).
Proof. intros h p H. unfold heap_get, cell_at. apply N.ltb_lt in H. now rewrite H. Qed.
Lemma eqv_symbol_cells : forall s p q n m,
  allocated (hp s) p -> allocated (hp s) q -> cell_at (hp s) p = VSym n -> cell_at (hp s) q = VSym m ->
  eqv (VPtr p) (VPtr q) s = ROk (p =? q) s.
Proof.
  intros s p q n m (Lp & _) (Lq & _) Cp Cq. unfold eqv.
  destruct (p =? q) eqn:E; [reflexivity|].
  unfold bindM, hderef, lift. cbn [heap_deref].
  rewrite (heap_get_cell_at _ _ Lp), Cp. cbv beta iota.
  rewrite (heap_get_cell_at _ _ Lq). reflexivity.
Qed.

(* ------------------------------------------------------------ the single statement *)
(* y: the spelling the reader saw; t: the contents of the string given to string->symbol.
   Whatever the order of the two routes, the results are pointers to two allocated symbol
   cells of the final heap, eq? on them answers exactly "same cell", and they are the same
   cell iff the encoded name of t is the spelling y. *)
Definition same_symbol_post (h2 : heap) (vr vb : vcell) (y t : text) : Prop :=
  exists p q, vr = VPtr p /\ vb = VPtr q /\ heap_inv h2 /\ allocated h2 p /\ allocated h2 q /\
    cell_at h2 p = VSym y /\ cell_at h2 q = VSym (string_to_symbol t) /\
    (p = q <-> string_to_symbol t = y) /\
    (forall s, hp s = h2 -> eqv vr vb s = ROk (p =? q) s /\ eqv vb vr s = ROk (p =? q) s).

Theorem same_name_same_symbol : forall h st0 y t,
  heap_inv h ->
  (forall vr h1 st1 vb h2,                              (* reader first, then the builtin *)
     put_cell h st0 (CSym (reader_symbol_name y)) = Ok (vr, h1, st1) ->
     heap_maybe_put h1 (VSym (string_to_symbol t)) = (vb, h2) ->
     same_symbol_post h2 vr vb y t) /\
  (forall vb h1 vr h2 st2,                              (* the builtin first, then the reader *)
     heap_maybe_put h (VSym (string_to_symbol t)) = (vb, h1) ->
     put_cell h1 st0 (CSym (reader_symbol_name y)) = Ok (vr, h2, st2) ->
     same_symbol_post h2 vr vb y t).
Proof.
  intros h st0 y t HI. unfold reader_symbol_name. split.
  - intros vr h1 st1 vb h2 H1 H2. apply put_cell_sym in H1. destruct H1 as (H1 & _).
    rewrite maybe_put_sym in H2.
    destruct (two_puts h y (string_to_symbol t) vr h1 vb h2 HI H1 H2)
      as (p & q & -> & -> & HI2 & Ap & Aq & Cp & Cq & Hiff).
    exists p, q. repeat (split; [first [reflexivity | assumption]|]).
    split; [split; intros E; [symmetry; apply Hiff; exact E | apply Hiff; symmetry; exact E]|].
    intros s <-. split.
    + exact (eqv_symbol_cells s p q _ _ Ap Aq Cp Cq).
    + rewrite (N.eqb_sym p q). exact (eqv_symbol_cells s q p _ _ Aq Ap Cq Cp).
  - intros vb h1 vr h2 st2 H1 H2. apply put_cell_sym in H2. destruct H2 as (H2 & _).
    rewrite maybe_put_sym in H1.
    destruct (two_puts h (string_to_symbol t) y vb h1 vr h2 HI H1 H2)
      as (q & p & -> & -> & HI2 & Aq & Ap & Cq & Cp & Hiff).
    exists p, q. repeat (split; [first [reflexivity | assumption]|]).
    split; [split; intros E; [apply Hiff; symmetry; exact E | symmetry; apply Hiff; exact E]|].
    intros s <-. split.
    + exact (eqv_symbol_cells s p q _ _ Ap Aq Cp Cq).
    + rewrite (N.eqb_sym p q). exact (eqv_symbol_cells s q p _ _ Aq Ap Cq Cp).
Qed.

(* ------------------------------------------------------- the same spelling, both routes *)
(* "string->symbol of a name yields a symbol eq? to the symbol read from the same spelling":
   true for every plain identifier (first character identifier-initial, the others
   identifier-subsequent, no backslash) *)
Theorem same_spelling_same_symbol : forall h st0 y,
  heap_inv h -> plain_identifier y = true ->
  (forall vr h1 st1 vb h2,
     put_cell h st0 (CSym (reader_symbol_name y)) = Ok (vr, h1, st1) ->
     heap_maybe_put h1 (VSym (string_to_symbol y)) = (vb, h2) ->
     vr = vb /\ exists p, vr = VPtr p /\ allocated h2 p /\ cell_at h2 p = VSym y /\
       forall s, hp s = h2 -> eqv vr vb s = ROk true s) /\
  (forall vb h1 vr h2 st2,
     heap_maybe_put h (VSym (string_to_symbol y)) = (vb, h1) ->
     put_cell h1 st0 (CSym (reader_symbol_name y)) = Ok (vr, h2, st2) ->
     vr = vb /\ exists p, vr = VPtr p /\ allocated h2 p /\ cell_at h2 p = VSym y /\
       forall s, hp s = h2 -> eqv vr vb s = ROk true s).
Proof.
  intros h st0 y HI Hp.
  destruct (string_symbol_roundtrip_plain y Hp) as (_ & Henc).
  destruct (same_name_same_symbol h st0 y y HI) as (A & B). split.
  - intros vr h1 st1 vb h2 H1 H2.
    destruct (A vr h1 st1 vb h2 H1 H2) as (p & q & -> & -> & _ & Ap & _ & Cp & _ & Hiff & Heq).
    assert (E : p = q) by (apply Hiff; exact Henc). subst q.
    split; [reflexivity|]. exists p. repeat (split; [first [reflexivity | assumption]|]).
    intros s Hs. destruct (Heq s Hs) as (E1 & _). rewrite N.eqb_refl in E1. exact E1.
  - intros vb h1 vr h2 st2 H1 H2.
    destruct (B vb h1 vr h2 st2 H1 H2) as (p & q & -> & -> & _ & Ap & _ & Cp & _ & Hiff & Heq).
    assert (E : p = q) by (apply Hiff; exact Henc). subst q.
    split; [reflexivity|]. exists p. repeat (split; [first [reflexivity | assumption]|]).
    intros s Hs. destruct (Heq s Hs) as (E1 & _). rewrite N.eqb_refl in E1. exact E1.
Qed.

(* ... and false outside: the reader symbol + and (string->symbol "+") are different cells
   (open finding non-initial-first-char) *)
Theorem same_spelling_refuted_first_char :
  exists y, known_first_char_not_initial y = true /\
    forall h st0 vr h1 st1 vb h2, heap_inv h ->
      put_cell h st0 (CSym (reader_symbol_name y)) = Ok (vr, h1, st1) ->
      heap_maybe_put h1 (VSym (string_to_symbol y)) = (vb, h2) ->
      vr <> vb /\ forall s, hp s = h2 -> eqv vr vb s = ROk false s.
Proof.
  exists [43]. split; [reflexivity|].
  intros h st0 vr h1 st1 vb h2 HI H1 H2.
  destruct (same_name_same_symbol h st0 [43] [43] HI) as (A & _).
  destruct (A vr h1 st1 vb h2 H1 H2) as (p & q & -> & -> & _ & _ & _ & _ & _ & Hiff & Heq).
  assert (Hne : p <> q).
  { intros E. apply Hiff in E. vm_compute in E. discriminate E. }
  split; [intros [= E]; exact (Hne E)|].
  intros s Hs. destruct (Heq s Hs) as (E1 & _).
  replace (p =? q) with false in E1 by (symmetry; apply N.eqb_neq; exact Hne). exact E1.
Qed.

(* ------------------------------------------- the builtin route IS string_to_symbol + put *)
(* Model/Builtins.b_string_symbol returns the symbol by value with the encoded name, without
   touching the heap; Vm.resolve_callee then stores a non-pointer result with hmaybe_put *)
Definition hp_same {A} (m : M A) : Prop := forall s a s', m s = ROk a s' -> hp s' = hp s.
Lemma hp_same_bind {A B} (m : M A) (f : A -> M B) :
  hp_same m -> (forall a, hp_same (f a)) -> hp_same (bindM m f).
Proof.
  intros Hm Hf s b s' E. unfold bindM in E. destruct (m s) as [a s1| | |] eqn:E1; try discriminate.
  rewrite (Hf a _ _ _ E). exact (Hm _ _ _ E1).
Qed.
Lemma hp_same_ret {A} (a : A) : hp_same (ret a).
Proof. intros s x s' [= <- <-]. reflexivity. Qed.
Lemma hp_same_fail {A} e : hp_same (@fail A e).
Proof. intros s x s' E. discriminate. Qed.
Lemma hp_same_pop_raw : hp_same pop_raw.
Proof.
  intros s a s' E. unfold pop_raw in E. destruct (sp s =? 0); [discriminate|].
  destruct (sp s <? scap s); [|discriminate]. injection E as <- <-. reflexivity.
Qed.
Lemma hp_same_hderef v : hp_same (hderef v).
Proof.
  intros s a s' E. unfold hderef, lift in E. destruct (heap_deref (hp s) v); try discriminate.
  injection E as <- <-. reflexivity.
Qed.
Lemma hp_same_pop_argc lo hi : hp_same (pop_argc lo hi).
Proof.
  unfold pop_argc. apply hp_same_bind; [apply hp_same_pop_raw|]. intros v.
  destruct v; try apply hp_same_fail. destruct (_ || _); [apply hp_same_fail | apply hp_same_ret].
Qed.
Lemma hp_same_pop_string : hp_same pop_string.
Proof.
  unfold pop_string, pop_value, pop_deref.
  apply hp_same_bind; [apply hp_same_bind; [apply hp_same_pop_raw | intros; apply hp_same_hderef]|].
  intros v. destruct v; try apply hp_same_fail. apply hp_same_ret.
Qed.

Theorem b_string_symbol_value : forall s r s',
  b_string_symbol s = ROk r s' ->
  hp s' = hp s /\ exists sid t, tget (strs (st s')) sid = Some t /\ r = VSym (string_to_symbol t).
Proof.
  intros s r s' H. unfold b_string_symbol, bindM in H.
  destruct (pop_argc 1 (Some 1) s) as [n s1| | |] eqn:E1; try discriminate.
  destruct (pop_string s1) as [sid s2| | |] eqn:E2; try discriminate.
  unfold str_get in H. destruct (tget (strs (st s2)) sid) as [t|] eqn:E3; try discriminate.
  unfold ret in H. injection H as <- <-.
  split; [rewrite (hp_same_pop_string _ _ _ E2); exact (hp_same_pop_argc _ _ _ _ _ E1)|].
  exists sid, t. split; [exact E3 | reflexivity].
Qed.
