(* GcIso.v — C03, part 2: machines equal up to a renaming of heap addresses.
   A world [W] = a set of live addresses [wa], a set of live payload ids [wi], a renaming
   [wf] and a stack bound [wtop].  [srel W s1 s2]: s2 is s1 with every live address
   renamed by [wf]; nothing is said about dead cells, dead payloads and stack slots above
   [wtop].  USIZE_MAX (%ep of the top level, saved in frames) is the null address: always
   "alive", renamed to itself, never dereferenced successfully in s1 ([sr_b1]). *)
From Coq Require Import Lia List.
From MW Require Import Model.Base Model.Num Model.VmTypes Model.Heap Model.Gc Model.VmBase
  Proofs.GcProofs Proofs.SymtabProofs.
Open Scope N_scope.
Arguments N.add : simpl never.
Arguments N.sub : simpl never.
Arguments N.eqb : simpl never.
Arguments N.ltb : simpl never.
Arguments N.leb : simpl never.

Definition NULL : N := USIZE_MAX.
Inductive pid := PEnv (i : N) | PVec (i : N) | PCont (i : N) | PLam (i : N).
Record world := mk_world { wa : N -> Prop; wi : pid -> Prop; wf : N -> N; wtop : N }.

Definition vaddrs (v : vcell) : list N :=
  match v with
  | VPair a d => [a; d] | VClosure l e => [l; e] | VLexPtr e _ => [e] | VEp p => [p]
  | VIp l _ => [l] | VPtr p => [p] | _ => []
  end.
Definition vids (v : vcell) : list pid :=
  match v with
  | VVec i => [PVec i] | VCont i => [PCont i] | VLambda i => [PLam i] | VLexEnv i => [PEnv i]
  | _ => []
  end.
Definition vmap (f : N -> N) (v : vcell) : vcell :=
  match v with
  | VPair a d => VPair (f a) (f d) | VClosure l e => VClosure (f l) (f e)
  | VLexPtr e i => VLexPtr (f e) i | VEp p => VEp (f p) | VIp l i => VIp (f l) i
  | VPtr p => VPtr (f p) | other => other
  end.

Definition alive (W : world) (a : N) : Prop := wa W a \/ a = NULL.
Definition vlive (W : world) (v : vcell) : Prop :=
  (forall a, In a (vaddrs v) -> alive W a) /\ (forall i, In i (vids v) -> wi W i).
(* related values / addresses / lists of values *)
Definition vr (W : world) (v1 v2 : vcell) : Prop := v2 = vmap (wf W) v1 /\ vlive W v1.
Definition ar (W : world) (a1 a2 : N) : Prop := a2 = wf W a1 /\ alive W a1.
Definition lr (W : world) (l1 l2 : list vcell) : Prop :=
  l2 = map (vmap (wf W)) l1 /\ Forall (vlive W) l1.

(* bytecode: the operand that follows JMP / JNT is a code index written as VPtr (run.rs:66-79),
   not a heap address: it is kept verbatim and carries no liveness *)
Definition is_jump (v : vcell) : bool :=
  match v with VOp OJmp | VOp OJnt => true | _ => false end.
Fixpoint bcmap (f : N -> N) (j : bool) (l : list vcell) : list vcell :=
  match l with
  | [] => []
  | v :: r => (if j then v else vmap f v) :: bcmap f (is_jump v) r
  end.
Fixpoint bclive (W : world) (j : bool) (l : list vcell) : Prop :=
  match l with
  | [] => True
  | v :: r => (if j then True else vlive W v) /\ bclive W (is_jump v) r
  end.
Definition lmap (f : N -> N) (l : lambda) : lambda :=
  mk_lambda (l_top l) (l_vararg l) (map (fun x => (vmap f (fst x), snd x)) (l_envmap l))
            (map (vmap f) (l_args l)) (bcmap f false (l_bc l)) (l_desc l).
Definition llive (W : world) (l : lambda) : Prop :=
  bclive W false (l_bc l) /\ Forall (vlive W) (l_args l) /\ Forall (vlive W) (map fst (l_envmap l)).
Definition lamr (W : world) (l1 l2 : lambda) : Prop := l2 = lmap (wf W) l1 /\ llive W l1.

Definition kmap (f : N -> N) (k : cont) : cont :=
  mk_cont (map (vmap f) (k_stack k)) (k_sp k) (f (k_ep k)) (f (fst (k_ip k)), snd (k_ip k)) (k_bp k).
Definition klive (W : world) (k : cont) : Prop :=
  Forall (vlive W) (k_stack k) /\ alive W (k_ep k) /\ alive W (fst (k_ip k)).
Definition contr (W : world) (k1 k2 : cont) : Prop := k2 = kmap (wf W) k1 /\ klive W k1.

Definition orel {A B} (R : A -> B -> Prop) (o1 : option A) (o2 : option B) : Prop :=
  match o1, o2 with Some a, Some b => R a b | None, None => True | _, _ => False end.

Record store_rel (W : world) (t1 t2 : store) : Prop := {
  sr_strs : strs t2 = strs t1;
  sr_macros : macros t2 = macros t1;
  sr_next : next_id t2 = next_id t1;
  sr_envs : forall i, wi W (PEnv i) -> orel (lr W) (tget (envs t1) i) (tget (envs t2) i);
  sr_vecs : forall i, wi W (PVec i) -> orel (lr W) (tget (vecs t1) i) (tget (vecs t2) i);
  sr_conts : forall i, wi W (PCont i) -> orel (contr W) (tget (conts t1) i) (tget (conts t2) i);
  sr_lams : forall i, wi W (PLam i) -> orel (lamr W) (tget (lams t1) i) (tget (lams t2) i)
}.

Record srel (W : world) (s1 s2 : vm) : Prop := {
  sr_null : wf W NULL = NULL;
  sr_b1 : hlen (hp s1) <= NULL;
  sr_inj : forall a b, wa W a -> wa W b -> wf W a = wf W b -> a = b;
  sr_al1 : forall a, wa W a -> allocated (hp s1) a;
  sr_al2 : forall a, wa W a -> allocated (hp s2) (wf W a);
  sr_hi1 : heap_inv (hp s1);
  sr_hi2 : heap_inv (hp s2);
  sr_cell : forall a, wa W a -> vr W (cell_at (hp s1) a) (cell_at (hp s2) (wf W a));
  sr_store : store_rel W (st s1) (st s2);
  sr_bind : g_bind s2 = map (fun x => (wf W (fst x), snd x)) (g_bind s1)
            /\ forall x, In x (g_bind s1) -> wa W (fst x);
  sr_slots : lr W (g_slots s1) (g_slots s2);
  sr_stack : forall i, i <= wtop W -> vr W (sget s1 i) (sget s2 i);
  sr_top : sp s1 <= wtop W;
  sr_scap : scap s2 = scap s1;
  sr_sp : sp s2 = sp s1;
  sr_bp : bp s2 = bp s1;
  sr_ep : ar W (ep s1) (ep s2);
  sr_ip : ar W (fst (ip s1)) (fst (ip s2)) /\ snd (ip s2) = snd (ip s1);
  sr_acc : vr W (acc s1) (acc s2);
  sr_log : out_log s2 = out_log s1
}.

(* a snapshot of the registers, as returned by get_vm: monotone in the world *)
Record snap (W : world) (s1 s2 : vm) : Prop := {
  sn_scap : scap s2 = scap s1;
  sn_sp : sp s2 = sp s1;
  sn_bp : bp s2 = bp s1;
  sn_ep : ar W (ep s1) (ep s2);
  sn_ip : ar W (fst (ip s1)) (fst (ip s2)) /\ snd (ip s2) = snd (ip s1);
  sn_acc : vr W (acc s1) (acc s2);
  sn_slots : lr W (g_slots s1) (g_slots s2);
  sn_top : sp s1 <= wtop W
}.
Lemma srel_snap W s1 s2 : srel W s1 s2 -> snap W s1 s2.
Proof. intros R. destruct R. constructor; assumption. Qed.

(* ------------------------------------------------------------- world extension *)
Record ext0 (W W' : world) : Prop := {
  ex_a : forall a, wa W a -> wa W' a;
  ex_i : forall i, wi W i -> wi W' i;
  ex_f : forall a, alive W a -> wf W' a = wf W a
}.
Definition ext (W W' : world) : Prop := ext0 W W' /\ wtop W <= wtop W'.
Lemma ext0_refl W : ext0 W W.
Proof. constructor; auto. Qed.
Lemma ext_refl W : ext W W.
Proof. split; [apply ext0_refl|lia]. Qed.
Lemma alive_ext W W' a : ext0 W W' -> alive W a -> alive W' a.
Proof. intros E [H|H]; [left; apply (ex_a _ _ E), H|right; exact H]. Qed.
Lemma ext0_trans W1 W2 W3 : ext0 W1 W2 -> ext0 W2 W3 -> ext0 W1 W3.
Proof.
  intros A B. constructor.
  - intros a H. apply (ex_a _ _ B), (ex_a _ _ A), H.
  - intros i H. apply (ex_i _ _ B), (ex_i _ _ A), H.
  - intros a H. rewrite (ex_f _ _ B) by (eapply alive_ext; eassumption). apply (ex_f _ _ A), H.
Qed.
Lemma ext_trans W1 W2 W3 : ext W1 W2 -> ext W2 W3 -> ext W1 W3.
Proof. intros [A A'] [B B']. split; [eapply ext0_trans; eassumption|lia]. Qed.

Lemma vmap_ext f g v : (forall a, In a (vaddrs v) -> f a = g a) -> vmap f v = vmap g v.
Proof.
  intros H. destruct v; cbn [vmap vaddrs In] in *; try reflexivity;
    rewrite ?(H car), ?(H cdr), ?(H lam), ?(H env), ?(H p), ?(H l) by auto; reflexivity.
Qed.
Lemma vlive_ext W W' v : ext0 W W' -> vlive W v -> vlive W' v.
Proof.
  intros E [H1 H2]. split.
  - intros a Ha. eapply alive_ext; [exact E|apply H1, Ha].
  - intros i Hi. apply (ex_i _ _ E), H2, Hi.
Qed.
Lemma vmap_live_ext W W' v : ext0 W W' -> vlive W v -> vmap (wf W') v = vmap (wf W) v.
Proof. intros E [H1 _]. apply vmap_ext. intros a Ha. apply (ex_f _ _ E), H1, Ha. Qed.
Lemma vr_ext W W' v1 v2 : ext0 W W' -> vr W v1 v2 -> vr W' v1 v2.
Proof.
  intros E [-> L]. split; [symmetry; apply vmap_live_ext; assumption|eapply vlive_ext; eassumption].
Qed.
Lemma ar_ext W W' a1 a2 : ext0 W W' -> ar W a1 a2 -> ar W' a1 a2.
Proof.
  intros E [-> L]. split; [symmetry; apply (ex_f _ _ E), L|eapply alive_ext; eassumption].
Qed.
Lemma Forall_vlive_ext W W' l : ext0 W W' -> Forall (vlive W) l -> Forall (vlive W') l.
Proof. intros E. apply Forall_impl. intros v. apply vlive_ext, E. Qed.
Lemma map_vmap_ext W W' l : ext0 W W' -> Forall (vlive W) l ->
  map (vmap (wf W')) l = map (vmap (wf W)) l.
Proof.
  intros E H. apply map_ext_in. intros v Hv. rewrite Forall_forall in H.
  apply vmap_live_ext; [exact E|apply H, Hv].
Qed.
Lemma lr_ext W W' l1 l2 : ext0 W W' -> lr W l1 l2 -> lr W' l1 l2.
Proof.
  intros E [-> L]. split; [symmetry; apply map_vmap_ext; assumption|eapply Forall_vlive_ext; eassumption].
Qed.
Lemma bc_ext W W' l : ext0 W W' -> forall j, bclive W j l ->
  bcmap (wf W') j l = bcmap (wf W) j l /\ bclive W' j l.
Proof.
  intros E. induction l as [|v r IH]; intros j H; [split; [reflexivity|exact I]|].
  cbn [bcmap bclive] in *. destruct H as [Hv Hr]. destruct (IH _ Hr) as [E1 L1].
  rewrite E1. destruct j.
  - split; [reflexivity|split; [exact I|exact L1]].
  - rewrite (vmap_live_ext W W' v E Hv). split; [reflexivity|split; [eapply vlive_ext; eassumption|exact L1]].
Qed.
Lemma lamr_ext W W' l1 l2 : ext0 W W' -> lamr W l1 l2 -> lamr W' l1 l2.
Proof.
  intros E [-> (L1 & L2 & L3)]. destruct (bc_ext W W' (l_bc l1) E false L1) as [B1 B2]. split.
  - unfold lmap. rewrite B1. rewrite !(map_vmap_ext W W') by assumption. f_equal.
    apply map_ext_in. intros x Hx. f_equal. symmetry. apply vmap_live_ext; [exact E|].
    rewrite Forall_forall in L3. apply L3. apply in_map. exact Hx.
  - repeat split; [exact B2|eapply Forall_vlive_ext; eassumption..].
Qed.
Lemma contr_ext W W' k1 k2 : ext0 W W' -> contr W k1 k2 -> contr W' k1 k2.
Proof.
  intros E [-> (L1 & L2 & L3)]. split.
  - unfold kmap. rewrite (map_vmap_ext W W') by assumption.
    rewrite (ex_f _ _ E _ L2), (ex_f _ _ E _ L3). reflexivity.
  - repeat split; [eapply Forall_vlive_ext; eassumption|eapply alive_ext; eassumption..].
Qed.
Lemma orel_impl {A B} (R R' : A -> B -> Prop) o1 o2 :
  (forall a b, R a b -> R' a b) -> orel R o1 o2 -> orel R' o1 o2.
Proof. intros H. destruct o1, o2; cbn; auto. Qed.
Lemma snap_ext W W' s1 s2 : ext W W' -> snap W s1 s2 -> snap W' s1 s2.
Proof.
  intros [E Et] [A1 A2 A3 A4 [A5 A5'] A6 A7 A8]. constructor; try assumption.
  - eapply ar_ext; eassumption.
  - split; [eapply ar_ext; eassumption|assumption].
  - eapply vr_ext; eassumption.
  - eapply lr_ext; eassumption.
  - lia.
Qed.

(* ------------------------------------------------------------- same heap world, another top *)
Definition set_top (W : world) (t : N) : world := mk_world (wa W) (wi W) (wf W) t.
Definition wsame (W W' : world) : Prop :=
  ext0 W W' /\ (forall a, wa W' a -> wa W a) /\ (forall i, wi W' i -> wi W i).
Lemma wsame_set_top W t : wsame W (set_top W t).
Proof. split; [constructor; auto|split; auto]. Qed.
Lemma ext_set_top W t : wtop W <= t -> ext W (set_top W t).
Proof. intros H. split; [apply wsame_set_top|exact H]. Qed.
Lemma store_rel_wsame W W' x y : wsame W W' -> store_rel W x y -> store_rel W' x y.
Proof.
  intros (E & _ & Hi) [A1 A2 A3 A4 A5 A6 A7]. constructor; try assumption.
  - intros i H. eapply orel_impl; [|apply A4, Hi, H]. intros a b. apply lr_ext, E.
  - intros i H. eapply orel_impl; [|apply A5, Hi, H]. intros a b. apply lr_ext, E.
  - intros i H. eapply orel_impl; [|apply A6, Hi, H]. intros a b. apply contr_ext, E.
  - intros i H. eapply orel_impl; [|apply A7, Hi, H]. intros a b. apply lamr_ext, E.
Qed.
Lemma wsame_refl W : wsame W W.
Proof. split; [apply ext0_refl|split; auto]. Qed.
