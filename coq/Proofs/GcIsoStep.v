(* GcIsoStep.v — C03, part 4: the instructions of run_one (Model/Vm.v) commute with a renaming
   of heap addresses: operand loads and stores, then one lemma per opcode class. *)
From Coq Require Import Lia List.
From MW Require Import Model.Base Model.Num Model.VmTypes Model.Heap Model.Gc Model.VmBase Model.Vm
  Proofs.GcProofs Proofs.SymtabProofs Proofs.GcIso Proofs.GcIsoPrim.
Open Scope N_scope.
Arguments N.add : simpl never.
Arguments N.sub : simpl never.
Arguments N.eqb : simpl never.
Arguments N.ltb : simpl never.
Arguments N.leb : simpl never.
Arguments N.mul : simpl never.

Definition load_tail (o : vcell) : M vcell :=
  dom s <- get_vm;
  match o with
  | VAcc => ret (acc s)
  | VPtr p => hget p
  | VBpOff off =>
      let i := (Z.of_N (bp s) + off)%Z in
      if (i <? 0)%Z then fail E_OTHER else stack_get (Z.to_N i)
  | VGSlot slot =>
      match list_get (g_slots s) slot with
      | None => panic 45
      | Some VUndef => fail E_OTHER
      | Some v => ret v
      end
  | VLexSlot slot => load_lex_slot slot
  | _ => fail E_OTHER
  end.
Lemma load_operand_eq : load_operand = bindM read_operand load_tail.
Proof. reflexivity. Qed.

Definition store_tail (v o : vcell) : M unit :=
  dom s <- get_vm;
  match o with
  | VAcc => set_acc v
  | VPtr p => hset p v
  | VBpOff off => stack_put_offset (Z.of_N (bp s) + off)%Z v
  | VGSlot slot =>
      if slot <? len (g_slots s)
      then fun s => ROk tt (with_globals s (g_bind s) (list_set (g_slots s) slot v))
      else panic 45
  | VLexSlot slot => store_lex_slot slot v
  | _ => fail E_OTHER
  end.
Lemma store_operand_eq v : store_operand v = bindM read_operand (store_tail v).
Proof. reflexivity. Qed.

Lemma vr_plain W v : vaddrs v = [] -> vids v = [] -> vr W v v.
Proof.
  intros Ha Hi. split; [destruct v; try reflexivity; discriminate|].
  split; [rewrite Ha|rewrite Hi]; intros x [].
Qed.

Lemma load_tail_outcome W o1 o2 s1 s2 :
  srel W s1 s2 -> vr W o1 o2 ->
  (forall off, o1 = VBpOff off -> (Z.of_N (bp s1) + off <= Z.of_N (sp s1))%Z) ->
  outcome W vr (load_tail o1 s1) (load_tail o2 s2).
Proof.
  intros R [-> Lo] Hoff. unfold load_tail, bindM, get_vm.
  destruct o1; cbn [vmap]; try (apply (sim_outcome W vr _ _ s1 s2 (sim_fail W vr E_OTHER) R)).
  - (* VLexSlot *) apply (sim_outcome _ _ _ _ _ _ (sim_load_lex_slot W i) R).
  - (* VAcc *) apply (sim_outcome _ _ _ _ _ _ (sim_ret W vr _ _ (sr_acc _ _ _ R)) R).
  - (* VBpOff *) rewrite (sr_bp _ _ _ R). specialize (Hoff z eq_refl).
    destruct (Z.of_N (bp s1) + z <? 0)%Z; [apply (sim_outcome W vr _ _ s1 s2 (sim_fail W vr E_OTHER) R)|].
    refine (sim_outcome _ _ _ _ _ _ (sim_stack_get W _ _) R). pose proof (sr_top _ _ _ R). lia.
  - (* VGSlot *) pose proof (lr_get W _ _ i (sr_slots _ _ _ R)) as H.
    destruct (list_get (g_slots s1) i) as [v1|]; [|rewrite H; exact I].
    destruct H as (v2 & -> & Hv). pose proof Hv as [-> Lv].
    destruct v1; cbn [vmap]; try (apply (sim_outcome _ _ _ _ _ _ (sim_ret W vr _ _ Hv) R)).
    apply (sim_outcome W vr _ _ s1 s2 (sim_fail W vr E_OTHER) R).
  - (* VPtr *) refine (sim_outcome _ _ _ _ _ _ (sim_hget W _ _ _) R).
    split; [reflexivity|apply (vlive_addr _ _ _ Lo); now left].
Qed.

Lemma srel_globals W s1 s2 i v1 v2 : srel W s1 s2 -> vr W v1 v2 ->
  srel W (with_globals s1 (g_bind s1) (list_set (g_slots s1) i v1))
         (with_globals s2 (g_bind s2) (list_set (g_slots s2) i v2)).
Proof.
  intros R Hv. pose proof (lr_set W _ _ i _ _ (sr_slots _ _ _ R) Hv) as Hl.
  destruct R as [R1 R2 R3 R4 R5 R6 R7 R8 R9 R10 R11 R12 R13 R14 R15 R16 R17 R18 R19 R20].
  constructor; sr_simpl; assumption.
Qed.

Lemma store_tail_outcome W o1 o2 v1 v2 s1 s2 :
  srel W s1 s2 -> vr W o1 o2 -> (forall p, o1 <> VPtr p) -> vr W v1 v2 ->
  outcome W (@anyr unit unit) (store_tail v1 o1 s1) (store_tail v2 o2 s2).
Proof.
  intros R [-> Lo] Hp Hv. unfold store_tail, bindM, get_vm.
  destruct o1; cbn [vmap]; try (apply (sim_outcome W anyr _ _ s1 s2 (sim_fail W anyr E_OTHER) R)).
  - apply (sim_outcome _ _ _ _ _ _ (sim_store_lex_slot W i _ _ Hv) R).
  - apply (sim_outcome _ _ _ _ _ _ (sim_set_acc W _ _ Hv) R).
  - rewrite (sr_bp _ _ _ R). apply (sim_outcome _ _ _ _ _ _ (sim_stack_put_offset W _ _ _ Hv) R).
  - rewrite (lr_len _ _ _ (sr_slots _ _ _ R)). destruct (i <? len (g_slots s1)); [|exact I].
    intros B. eexists tt, _, W. split; [reflexivity|]. split; [apply ext_refl|]. split; [|exact I].
    apply srel_globals; assumption.
  - exfalso. apply (Hp p). reflexivity.
Qed.

(* ------------------------------------------------------------------ glue *)
Lemma step0_bind_eq {A1 A2 B1 B2} W Q P (m1 : M A1) (m2 : M A2) (k1 : A1 -> M B1) (k2 : A2 -> M B2) s1 s2 :
  step0 W P (m1 s1) (m2 s2) ->
  (forall a1 a2 s1' s2', m1 s1 = ROk a1 s1' -> srel W s1' s2' -> P a1 a2 s1' ->
                         outcome W Q (k1 a1 s1') (k2 a2 s2')) ->
  outcome W Q (bindM m1 k1 s1) (bindM m2 k2 s2).
Proof.
  intros H K. unfold bindM, step0 in *. destruct (m1 s1) as [a1 s1'|e msg s1'| |] eqn:E; try exact I.
  - destruct H as (a2 & s2' & -> & R & HP). apply K; [reflexivity|assumption..].
  - destruct H as (s2' & -> & R). intros B. exists s2', W. split; [reflexivity|]. split; [apply ext_refl|exact R].
Qed.

Lemma outcome_bind {A1 A2 B1 B2} W P Q (m1 : M A1) (m2 : M A2) (k1 : A1 -> M B1) (k2 : A2 -> M B2) s1 s2 :
  outcome W P (m1 s1) (m2 s2) -> (forall a, hmono (k1 a)) ->
  (forall W' a1 a2, ext W W' -> P W' a1 a2 -> sim W' Q (k1 a1) (k2 a2)) ->
  outcome W Q (bindM m1 k1 s1) (bindM m2 k2 s2).
Proof.
  intros Hm Hk Hs. unfold bindM, outcome in *.
  destruct (m1 s1) as [a1 s1m|e msg s1m| |] eqn:E1; try exact I.
  - pose proof (Hk a1 s1m) as Mono.
    destruct (k1 a1 s1m) as [b1 s1'|e msg s1'| |] eqn:E2; try exact I.
    + intros B. destruct Hm as (a2 & s2m & W' & -> & X1 & R1 & P1); [unfold bounded in *; lia|].
      pose proof (Hs W' a1 a2 X1 P1 s1m s2m R1) as H2. rewrite E2 in H2.
      destruct (H2 B) as (b2 & s2' & W'' & E4 & X2 & R2 & Q2).
      exists b2, s2', W''. split; [exact E4|]. split; [eapply ext_trans; eassumption|]. split; assumption.
    + intros B. destruct Hm as (a2 & s2m & W' & -> & X1 & R1 & P1); [unfold bounded in *; lia|].
      pose proof (Hs W' a1 a2 X1 P1 s1m s2m R1) as H2. rewrite E2 in H2.
      destruct (H2 B) as (s2' & W'' & E4 & X2 & R2).
      exists s2', W''. split; [exact E4|]. split; [eapply ext_trans; eassumption|assumption].
  - intros B. destruct (Hm B) as (s2' & W' & -> & X1 & R1). exists s2', W'. auto.
Qed.

Lemma store_operand_outcome W v1 v2 s1 s2 :
  srel W s1 s2 -> vr W v1 v2 ->
  (forall o s', read_operand s1 = ROk o s' -> forall p, o <> VPtr p) ->
  outcome W (@anyr unit unit) (store_operand v1 s1) (store_operand v2 s2).
Proof.
  intros R Hv Hd. rewrite !store_operand_eq.
  eapply step0_bind_eq; [apply read_operand_step, R|].
  intros o1 o2 s1' s2' E R' HP. cbv beta in HP.
  assert (Ho : vr W o1 o2 \/ (o2 = o1 /\ (vaddrs o1 <> [] \/ vids o1 <> []))).
  { destruct (pflag s1); [|left; exact HP]. subst o2.
    destruct o1; try (left; apply vr_plain; reflexivity); right; (split; [reflexivity|]);
      first [left; discriminate|right; discriminate]. }
  destruct Ho as [Ho|[-> Ho]].
  - apply store_tail_outcome; [exact R'|exact Ho|exact (Hd o1 s1' E)|exact Hv].
  - pose proof (Hd o1 s1' E) as Hp.
    destruct o1; try (exfalso; destruct Ho as [Ho|Ho]; apply Ho; reflexivity);
      try (unfold store_tail, bindM, get_vm; apply (sim_outcome W anyr _ _ _ _ (sim_fail W anyr E_OTHER) R')).
    exfalso. apply (Hp p). reflexivity.
Qed.

Lemma load_operand_outcome W s1 s2 :
  srel W s1 s2 -> pflag s1 = false ->
  (forall o s', read_operand s1 = ROk o s' -> forall off, o = VBpOff off ->
                (Z.of_N (bp s') + off <= Z.of_N (sp s'))%Z) ->
  outcome W vr (load_operand s1) (load_operand s2).
Proof.
  intros R Hf Hs. rewrite !load_operand_eq.
  eapply step0_bind_eq; [apply read_operand_step, R|].
  intros o1 o2 s1' s2' E R' HP. cbv beta in HP. rewrite Hf in HP.
  apply load_tail_outcome; [exact R'|exact HP|exact (Hs o1 s1' E)].
Qed.

(* ------------------------------------------------------------------ instructions *)
Lemma sim_as_ptr_eq W o : sim W eqr (as_ptr o) (as_ptr o).
Proof. destruct o; cbn [as_ptr]; try apply sim_fail. apply sim_ret. reflexivity. Qed.
Lemma sim_usub_le W a b : sim W (fun _ x y => y = x /\ x <= a) (usub a b) (usub a b).
Proof. unfold usub. destruct (a <? b); [apply sim_panic|apply sim_ret; split; [reflexivity|lia]]. Qed.
Lemma get_vm_outcome W s1 s2 : srel W s1 s2 ->
  outcome W (fun W' a1 a2 => snap W' a1 a2 /\ a1 = s1) (get_vm s1) (get_vm s2).
Proof.
  intros R. unfold get_vm, outcome. intros _. exists s2, s2, W.
  split; [reflexivity|]. split; [apply ext_refl|]. split; [exact R|]. split; [apply srel_snap, R|reflexivity].
Qed.

Definition jmp_rest (o : vcell) : M bool :=
  dom p <- as_ptr o; dom s <- get_vm; dom _ <- set_ip (fst (ip s), p); ret false.
Lemma sim_jmp_rest W o : sim W eqr (jmp_rest o) (jmp_rest o).
Proof.
  unfold jmp_rest. eapply sim_bind; [apply sim_as_ptr_eq|intros; hm|]. intros W1 p1 p2 E1 Hp. red in Hp. subst p2.
  eapply sim_bind; [apply sim_get_vm|intros; hm|]. intros W2 x1 x2 E2 Hs.
  eapply sim_bind; [apply sim_set_ip, (proj1 (sn_ip _ _ _ Hs))|intros; hm|]. intros. apply sim_ret. reflexivity.
Qed.
Definition jnt_rest (o : vcell) : M bool :=
  dom p <- as_ptr o; dom s <- get_vm; dom a <- hderef (acc s);
  match a with
  | VBool false => dom _ <- set_ip (fst (ip s), p); ret false
  | _ => ret false
  end.
Lemma sim_jnt_rest W o : sim W eqr (jnt_rest o) (jnt_rest o).
Proof.
  unfold jnt_rest. eapply sim_bind; [apply sim_as_ptr_eq|intros; hm|]. intros W1 p1 p2 E1 Hp. red in Hp. subst p2.
  eapply sim_bind; [apply sim_get_vm|intros; hm|]. intros W2 x1 x2 E2 Hs.
  eapply sim_bind; [apply sim_hderef, (sn_acc _ _ _ Hs)|intros; hm|]. intros W3 a1 a2 E3 [-> La].
  destruct a1; cbn [vmap]; try (apply sim_ret; reflexivity).
  destruct b; [apply sim_ret; reflexivity|].
  eapply sim_bind; [apply sim_set_ip; eapply ar_ext; [apply E3|apply (proj1 (sn_ip _ _ _ Hs))]|intros; hm|].
  intros. apply sim_ret. reflexivity.
Qed.
Definition push_rest (v : vcell) : M bool := dom _ <- push v; ret false.
Lemma sim_push_rest W v1 v2 : vr W v1 v2 -> sim W eqr (push_rest v1) (push_rest v2).
Proof.
  intros Hv. unfold push_rest. eapply sim_bind; [apply sim_push, Hv|intros; hm|]. intros. apply sim_ret. reflexivity.
Qed.
Lemma sim_pushacc W : sim W eqr (dom s <- get_vm; dom _ <- push (acc s); ret false)
                                 (dom s <- get_vm; dom _ <- push (acc s); ret false).
Proof.
  eapply sim_bind; [apply sim_get_vm|intros; hm|]. intros W2 x1 x2 E2 Hs.
  apply sim_push_rest, (sn_acc _ _ _ Hs).
Qed.

Definition ret_rest (s : vm) : M bool :=
  dom a <- stack_get (bp s + 1); dom n <- as_argc a;
  dom nsp <- usub (bp s) n;
  dom _ <- set_sp nsp;
  dom e <- stack_get (bp s + 2); dom e' <- as_ep e; dom _ <- set_ep e';
  dom i <- stack_get (bp s + 3); dom i' <- as_ip i; dom _ <- set_ip i';
  dom b <- stack_get (bp s + 4); dom b' <- as_bp b; dom _ <- set_bp b';
  ret false.
Lemma sim_ret_rest W x1 x2 : bp x2 = bp x1 -> bp x1 + 4 <= wtop W -> sim W eqr (ret_rest x1) (ret_rest x2).
Proof.
  intros Eb T. unfold ret_rest. rewrite Eb.
  eapply sim_bind; [apply sim_stack_get; lia|intros; hm|]. intros W1 a1 a2 E1 Ha. pose proof (proj2 E1) as T1.
  eapply sim_bind; [apply sim_as_argc, Ha|intros; hm|]. intros W2 n1 n2 E2 Hn. red in Hn. subst n2. pose proof (proj2 E2) as T2.
  eapply sim_bind; [apply sim_usub_le|intros; hm|]. intros W3 p1 p2 E3 [-> Hp]. pose proof (proj2 E3) as T3.
  eapply sim_bind; [apply sim_set_sp; lia|intros; hm|]. intros W4 ? ? E4 _. pose proof (proj2 E4) as T4.
  eapply sim_bind; [apply sim_stack_get; lia|intros; hm|]. intros W5 e1 e2 E5 He. pose proof (proj2 E5) as T5.
  eapply sim_bind; [apply sim_as_ep, He|intros; hm|]. intros W6 q1 q2 E6 Hq. pose proof (proj2 E6) as T6.
  eapply sim_bind; [apply sim_set_ep, Hq|intros; hm|]. intros W7 ? ? E7 _. pose proof (proj2 E7) as T7.
  eapply sim_bind; [apply sim_stack_get; lia|intros; hm|]. intros W8 i1 i2 E8 Hi. pose proof (proj2 E8) as T8.
  eapply sim_bind; [apply sim_as_ip, Hi|intros; hm|]. intros W9 [j1 k1] [j2 k2] E9 [Hj Hk]. cbn [fst snd] in Hj, Hk. subst k2.
  pose proof (proj2 E9) as T9.
  eapply sim_bind; [apply sim_set_ip, Hj|intros; hm|]. intros W10 ? ? E10 _. pose proof (proj2 E10) as T10.
  eapply sim_bind; [apply sim_stack_get; lia|intros; hm|]. intros W11 b1 b2 E11 Hb. pose proof (proj2 E11) as T11.
  eapply sim_bind; [apply sim_as_bp, Hb|intros; hm|]. intros W12 c1 c2 E12 Hc. red in Hc. subst c2.
  eapply sim_bind; [apply sim_set_bp|intros; hm|]. intros. apply sim_ret. reflexivity.
Qed.

(* ------------------------------------------------------------------ covered instructions *)
Definition src_ok (s : vm) : Prop :=
  forall o s', read_operand s = ROk o s' -> forall off, o = VBpOff off ->
               (Z.of_N (bp s') + off <= Z.of_N (sp s'))%Z.
Definition dst_ok (s : vm) : Prop := forall o s', read_operand s = ROk o s' -> forall p, o <> VPtr p.
(* the instruction classes covered so far; the side conditions exclude what the compiler never
   emits: a frame-relative read above %sp, a raw heap pointer as the destination of MOV *)
Definition cov_op (op : opcode) (s : vm) : Prop :=
  match op with
  | OHalt | OJmp | OJnt | OPushAcc | OPushImmediate => True
  | OPush => src_ok s
  | OMovImmediate => forall v s', read_operand s = ROk v s' -> dst_ok s'
  | OMov => src_ok s /\ forall v s', load_operand s = ROk v s' -> dst_ok s'
  | ORet => bp s + 4 <= sp s
  | _ => False
  end.
Definition covered (s : vm) : Prop := forall op s', read_opcode s = ROk op s' -> cov_op op s'.

Lemma outcome_bind_eq {A1 A2 B1 B2} W P Q (m1 : M A1) (m2 : M A2) (k1 : A1 -> M B1) (k2 : A2 -> M B2) s1 s2 :
  outcome W P (m1 s1) (m2 s2) -> (forall a, hmono (k1 a)) ->
  (forall W' a1 a2 s1m s2m, m1 s1 = ROk a1 s1m -> ext W W' -> srel W' s1m s2m -> P W' a1 a2 ->
                            outcome W' Q (k1 a1 s1m) (k2 a2 s2m)) ->
  outcome W Q (bindM m1 k1 s1) (bindM m2 k2 s2).
Proof.
  intros Hm Hk Hs. unfold bindM, outcome in *.
  destruct (m1 s1) as [a1 s1m|e msg s1m| |] eqn:E1; try exact I.
  - pose proof (Hk a1 s1m) as Mono.
    destruct (k1 a1 s1m) as [b1 s1'|e msg s1'| |] eqn:E2; try exact I.
    + intros B. destruct Hm as (a2 & s2m & W' & -> & X1 & R1 & P1); [unfold bounded in *; lia|].
      pose proof (Hs W' a1 a2 s1m s2m eq_refl X1 R1 P1) as H2. rewrite E2 in H2.
      destruct (H2 B) as (b2 & s2' & W'' & E4 & X2 & R2 & Q2).
      exists b2, s2', W''. split; [exact E4|]. split; [eapply ext_trans; eassumption|]. split; assumption.
    + intros B. destruct Hm as (a2 & s2m & W' & -> & X1 & R1 & P1); [unfold bounded in *; lia|].
      pose proof (Hs W' a1 a2 s1m s2m eq_refl X1 R1 P1) as H2. rewrite E2 in H2.
      destruct (H2 B) as (s2' & W'' & E4 & X2 & R2).
      exists s2', W''. split; [exact E4|]. split; [eapply ext_trans; eassumption|assumption].
  - intros B. destruct (Hm B) as (s2' & W' & -> & X1 & R1). exists s2', W'. auto.
Qed.

Lemma store_then_false W v1 v2 s1 s2 : srel W s1 s2 -> vr W v1 v2 -> dst_ok s1 ->
  outcome W (@eqr bool) ((dom _ <- store_operand v1; ret false) s1) ((dom _ <- store_operand v2; ret false) s2).
Proof.
  intros R Hv Hd. eapply outcome_bind; [apply store_operand_outcome; [exact R|exact Hv|exact Hd]|intros; hm|].
  intros. apply sim_ret. reflexivity.
Qed.

Section RunOne.
Variable ob : N -> M vcell.

Theorem run_one_iso W s1 s2 :
  srel W s1 s2 -> covered s1 -> outcome W (@eqr bool) (run_one ob s1) (run_one ob s2).
Proof.
  intros R C. unfold run_one.
  eapply step0_bind_eq; [apply read_opcode_step, R|].
  intros op op' s1a s2a E Ra [-> Hf]. specialize (C op s1a E). cbn [is_jump] in Hf.
  destruct op; cbn [cov_op] in C; try contradiction.
  - (* JMP *) eapply step0_bind_eq; [apply read_operand_step, Ra|].
    intros o1 o2 s1b s2b Eo Rb HP. cbv beta in HP. rewrite Hf in HP. subst o2.
    exact (sim_outcome _ _ _ _ _ _ (sim_jmp_rest W o1) Rb).
  - (* JNT *) eapply step0_bind_eq; [apply read_operand_step, Ra|].
    intros o1 o2 s1b s2b Eo Rb HP. cbv beta in HP. rewrite Hf in HP. subst o2.
    exact (sim_outcome _ _ _ _ _ _ (sim_jnt_rest W o1) Rb).
  - (* MOV *) destruct C as [Cs Cd].
    eapply outcome_bind_eq; [apply load_operand_outcome; [exact Ra|exact Hf|exact Cs]|intros; hm|].
    intros W1 v1 v2 s1m s2m El E1 Rm Hv. apply store_then_false; [exact Rm|exact Hv|exact (Cd v1 s1m El)].
  - (* MOV immediate *) eapply step0_bind_eq; [apply read_operand_step, Ra|].
    intros o1 o2 s1b s2b Eo Rb HP. cbv beta in HP. rewrite Hf in HP.
    apply store_then_false; [exact Rb|exact HP|exact (C o1 s1b Eo)].
  - (* PUSH *)
    eapply outcome_bind; [apply load_operand_outcome; [exact Ra|exact Hf|exact C]|intros; hm|].
    intros W1 v1 v2 E1 Hv. apply sim_push_rest, Hv.
  - (* PUSH %acc *) exact (sim_outcome _ _ _ _ _ _ (sim_pushacc W) Ra).
  - (* PUSH immediate *) eapply step0_bind_eq; [apply read_operand_step, Ra|].
    intros o1 o2 s1b s2b Eo Rb HP. cbv beta in HP. rewrite Hf in HP.
    exact (sim_outcome _ _ _ _ _ _ (sim_push_rest W o1 o2 HP) Rb).
  - (* HALT *) exact (sim_outcome _ _ _ _ _ _ (sim_ret W eqr true true eq_refl) Ra).
  - (* RET *)
    eapply outcome_bind_eq; [apply get_vm_outcome, Ra|intros; hm|].
    intros W1 x1 x2 s1m s2m Eg E1 Rm [Hs ->].
    refine (sim_outcome _ _ _ _ _ _ (sim_ret_rest W1 s1a x2 (sn_bp _ _ _ Hs) _) Rm).
    pose proof (sn_top _ _ _ Hs). lia.
Qed.
End RunOne.
